/-
C06 (part b) — conservation, steady states and equivariance of the implicit integrators *with their memory*,
and the lift of these one-step facts to whole solves of the driver model (final field and every stored snapshot).

Gear's memory (`_lastresidual`, `Option (Vec α N)` in `gearStep`) is the previous *residual*
`(Qⁿ - Qⁿ⁻¹)/dt_{n-1}` (`ImplOut.incr`).  The BDF2 system is
    (3/2) (1/dt) x - J x = R(Qⁿ) + (1/2) last ,      Qⁿ⁺¹ = Qⁿ + x ,   new memory = x/dt .
For a linear functional `w` with `w (R t q) = 0` this gives  (3/2) w(x/dt) = (1/2) w(last)  (`thetaStep_balance`):
with one global `dt` the step changes `w(Q)` by `dt/3 · w(last)` (`gearStep_drift`), so it conserves `w` iff
`w(last) = 0`, and then the new memory again satisfies `w(x/dt) = 0`.  The invariant on (memory, data) is
    `GearInv w c mem q  :=  (∀ l, mem = some l → w l = 0) ∧ w q = c`
(it holds without memory; the Crank–Nicolson first step establishes it; every BDF2 step preserves it —
also when `dt` changes between steps).  For steady states the invariant is `mem ∈ {none, some 0}`, `q = q0`.

Role of `dtlocal`: the conservation statements are for ONE GLOBAL time step (`dtlocal = false`: the driver
hands `scalar (min dt)` to the step).  With a local time-step array the rows of the system are scaled by
`1/dt_i`; what is conserved is `∑ w_i (Q'_i - Q_i)/dt_i = 0` (`thetaStep_local_weighted`), NOT `∑ w_i Q_i`
(counterexample at the end of the file): nothing is claimed for `dtlocal = true`.  The fixed-point statements
hold for arbitrary per-unknown time steps, hence for both values of `dtlocal`.

Solver hypotheses.  As in `C06.thetaStep_conserves/_fixed` the linear solver is a parameter; what is assumed is
  `ThetaSolved …` / `GearSolved …`   it returned a solution of the system actually formed (this matrix, this
                                      right-hand side); implied by `∀ rhs, A (solve A rhs) = rhs`
  `solve A 0 = 0`                    on a homogeneous system it returned 0 (implied by `hinj` + `hsolve` of
                                      `C06.thetaStep_fixed`: `solve_zero_of_inj`)
For whole solves these are assumed at the states visited by the full steps of that run (`Visited`), and for the
snapshot theorems also for the side steps (scalar `0 < d ≤ min dt`) taken from those states.

Equivariance: a θ/ξ-step commutes with any linear map `T` that intertwines operator, Jacobian and the diagonal
time-step scalings (`DtCompat`), when the target system has at most one solution; for affine operators the
finite-difference Jacobian is exact (`fdJac_affine`), which gives `thetaStep_equivariant_affine`,
`gearStep_equivariant_affine` and the `step` field of a driver morphism (`…Cfg_step_equivariant_affine`).
-/
import Flowdyn.Props.C06
import Flowdyn.Props.C07b
import Mathlib.Algebra.BigOperators.Fin
import Mathlib.Algebra.Order.Field.Rat
import Mathlib.Algebra.Module.LinearMap.Defs
import Mathlib.Algebra.Module.Pi
import Mathlib.Tactic.NormNum
import Mathlib.Tactic.FinCases
import Mathlib.Tactic.Ring
import Mathlib.Tactic.FieldSimp
import Mathlib.Tactic.LinearCombination

namespace Flowdyn.C06
open Flowdyn Matrix
open Flowdyn.C07 (adv core)

/-! ## 1. one step -/
section OneStep
variable {α : Type} [Field α] {N : ℕ}

/-- right-hand side of the system formed by `solve_implicit`: `R(q) + ξ last` -/
def thetaRhs (ξ : α) (R : Vec α N → Vec α N) (last q : Vec α N) : Vec α N := fun i => R q i + ξ * last i

/-- the solver returned a solution of the θ/ξ-system formed at `q` (this matrix, this right-hand side) -/
def ThetaSolved (solve : Mat α N → Vec α N → Vec α N) (θ ξ : α) (R : Vec α N → Vec α N)
    (eps dtv last q : Vec α N) : Prop :=
  (sysMat θ ξ (fdJac R q eps) dtv).mulVec (solve (sysMat θ ξ (fdJac R q eps) dtv) (thetaRhs ξ R last q))
    = thetaRhs ξ R last q

/-- the matrix of the system `gear.step` forms: Crank–Nicolson without memory, BDF2 with memory -/
def gearMat (R : Vec α N → Vec α N) (q eps dtv : Vec α N) : Option (Vec α N) → Mat α N
  | none => sysMat (1/2) 0 (fdJac R q eps) dtv
  | some _ => sysMat 1 (1/2) (fdJac R q eps) dtv

/-- the solver returned a solution of the system `gear.step` formed -/
def GearSolved (solve : Mat α N → Vec α N → Vec α N) (R : Vec α N → Vec α N) (eps dtv : Vec α N) :
    Option (Vec α N) → Vec α N → Prop
  | none, q => ThetaSolved solve (1/2) 0 R eps dtv (fun _ => 0) q
  | some l, q => ThetaSolved solve 1 (1/2) R eps dtv l q

theorem thetaSolved_of_forall (solve : Mat α N → Vec α N → Vec α N) (θ ξ : α) (R : Vec α N → Vec α N)
    (eps dtv last q : Vec α N)
    (hsolve : ∀ rhs : Vec α N, (sysMat θ ξ (fdJac R q eps) dtv).mulVec
                (solve (sysMat θ ξ (fdJac R q eps) dtv) rhs) = rhs) :
    ThetaSolved solve θ ξ R eps dtv last q := hsolve _

theorem gearSolved_of_forall (solve : Mat α N → Vec α N → Vec α N) (R : Vec α N → Vec α N)
    (eps dtv : Vec α N) (last : Option (Vec α N)) (q : Vec α N)
    (hsolve : ∀ rhs : Vec α N, (gearMat R q eps dtv last).mulVec (solve (gearMat R q eps dtv last) rhs) = rhs) :
    GearSolved solve R eps dtv last q := by
  cases last with
  | none => exact hsolve _
  | some l => exact hsolve _

/-- injective system + solution of the homogeneous system ⇒ the solver returns 0 -/
theorem solve_zero_of_inj (solve : Mat α N → Vec α N → Vec α N) (A : Mat α N)
    (hinj : ∀ x : Vec α N, A.mulVec x = 0 → x = 0) (hsolve : A.mulVec (solve A 0) = 0) : solve A 0 = 0 :=
  hinj _ hsolve

/-- a linear functional annihilating the operator annihilates `J x` for the FD Jacobian `J` -/
theorem fdJac_mulVec_conservative (w : Vec α N) (R : Vec α N → Vec α N) (hR : ∀ v, ∑ i, w i * R v i = 0)
    (q eps x : Vec α N) : ∑ i, w i * ((fdJac R q eps).mulVec x) i = 0 := by
  simp only [Matrix.mulVec, dotProduct, Finset.mul_sum]
  rw [Finset.sum_comm]
  have : ∀ j, ∑ i, w i * (fdJac R q eps i j * x j) = (∑ i, w i * fdJac R q eps i j) * x j := by
    intro j
    rw [Finset.sum_mul]
    exact Finset.sum_congr rfl (fun i _ => (mul_assoc _ _ _).symm)
  simp only [this, fdJac_conservative w R hR q eps, zero_mul, Finset.sum_const_zero]

/-- the three outputs of a θ/ξ-step in terms of the solver's answer -/
theorem thetaStep_out (solve : Mat α N → Vec α N → Vec α N) (θ ξ : α) (J : Mat α N) (R : Vec α N → Vec α N)
    (dtv : Vec α N) (dtm : α) (last : Vec α N) (t : α) (q : Vec α N) :
    thetaStep solve θ ξ J R dtv dtm last t q
      = { time := t + dtm * 1,
          data := fun i => q i + dtv i * (solve (sysMat θ ξ J dtv) (thetaRhs ξ R last q) i / dtv i),
          incr := fun i => solve (sysMat θ ξ J dtv) (thetaRhs ξ R last q) i / dtv i } := rfl

/-- the new data is the old data plus `dt` times the memorised residual (any per-unknown time steps) -/
theorem thetaStep_data_incr (solve : Mat α N → Vec α N → Vec α N) (θ ξ : α) (J : Mat α N)
    (R : Vec α N → Vec α N) (dtv : Vec α N) (dtm : α) (last : Vec α N) (t : α) (q : Vec α N) (i : Fin N) :
    (thetaStep solve θ ξ J R dtv dtm last t q).data i
      = q i + dtv i * (thetaStep solve θ ξ J R dtv dtm last t q).incr i := rfl

/-- **balance of a conserved functional over a θ/ξ-step with memory**, ANY per-unknown time steps:
`(1+ξ) w(new residual) = ξ w(last)`  (the operator and Jacobian terms drop out).  The new residual is
`incr_i = (data'_i - q_i)/dt_i`: with local time steps it is `∑ w_i (data'_i - q_i)/dt_i` that is controlled,
not `∑ w_i (data'_i - q_i)`.  (No condition `dt_i ≠ 0`: with Lean's `1/0 = 0` the hypothesis still implies
the identity.) -/
theorem thetaStep_balance (solve : Mat α N → Vec α N → Vec α N) (θ ξ : α) (w : Vec α N)
    (R : Vec α N → Vec α N) (hR : ∀ v, ∑ i, w i * R v i = 0) (q eps last dtv : Vec α N) (dtm t : α)
    (hsolve : ThetaSolved solve θ ξ R eps dtv last q) :
    (let o := thetaStep solve θ ξ (fdJac R q eps) R dtv dtm last t q
     (1 + ξ) * ∑ i, w i * o.incr i = ξ * ∑ i, w i * last i) := by
  intro o
  have ho : o.incr = fun i => solve (sysMat θ ξ (fdJac R q eps) dtv) (thetaRhs ξ R last q) i / dtv i := rfl
  rw [ho]
  set x := solve (sysMat θ ξ (fdJac R q eps) dtv) (thetaRhs ξ R last q) with hx
  have hrows : ∀ i, (1 + ξ) * (1 / dtv i) * x i - θ * ((fdJac R q eps).mulVec x) i = R q i + ξ * last i := by
    intro i
    have h := congrFun hsolve i
    rw [sysMat_mulVec] at h
    exact h
  have hJ := fdJac_mulVec_conservative w R hR q eps x
  have h1 : ∑ i, w i * ((1 + ξ) * (1 / dtv i) * x i - θ * ((fdJac R q eps).mulVec x) i)
      = (1 + ξ) * ∑ i, w i * (x i / dtv i) - θ * ∑ i, w i * ((fdJac R q eps).mulVec x) i := by
    rw [Finset.mul_sum, Finset.mul_sum, ← Finset.sum_sub_distrib]
    exact Finset.sum_congr rfl (fun i _ => by ring)
  have h2 : ∑ i, w i * (R q i + ξ * last i) = ∑ i, w i * R q i + ξ * ∑ i, w i * last i := by
    rw [Finset.mul_sum, ← Finset.sum_add_distrib]
    exact Finset.sum_congr rfl (fun i _ => by ring)
  have h3 : ∑ i, w i * ((1 + ξ) * (1 / dtv i) * x i - θ * ((fdJac R q eps).mulVec x) i)
      = ∑ i, w i * (R q i + ξ * last i) := Finset.sum_congr rfl (fun i _ => by rw [hrows i])
  rw [h1, h2, hJ, hR q, mul_zero, sub_zero, zero_add] at h3
  exact h3

/-- local time steps: what a θ-step (no memory term) conserves is `∑ w_i (data'_i - q_i)/dt_i = 0` -/
theorem thetaStep_local_weighted (solve : Mat α N → Vec α N → Vec α N) (θ : α) (w : Vec α N)
    (R : Vec α N → Vec α N) (hR : ∀ v, ∑ i, w i * R v i = 0) (q eps dtv : Vec α N) (dtm t : α)
    (hdtv : ∀ i, dtv i ≠ 0) (hsolve : ThetaSolved solve θ 0 R eps dtv (fun _ => 0) q) :
    (let o := thetaStep solve θ 0 (fdJac R q eps) R dtv dtm (fun _ => 0) t q
     ∑ i, w i * ((o.data i - q i) / dtv i) = 0) := by
  intro o
  have hb := thetaStep_balance solve θ 0 w R hR q eps (fun _ => 0) dtv dtm t hsolve
  simp only [add_zero, one_mul, zero_mul] at hb
  rw [← hb]
  refine Finset.sum_congr rfl (fun i _ => ?_)
  rw [thetaStep_data_incr]
  have := hdtv i
  field_simp
  ring

/-- the conserved functional of the new data: `w(data') = w(q) + dt w(new residual)` -/
theorem thetaStep_wdata (solve : Mat α N → Vec α N → Vec α N) (θ ξ : α) (J : Mat α N) (w : Vec α N)
    (R : Vec α N → Vec α N) (q last : Vec α N) (dt dtm t : α) :
    (let o := thetaStep solve θ ξ J R (fun _ => dt) dtm last t q
     ∑ i, w i * o.data i = ∑ i, w i * q i + dt * ∑ i, w i * o.incr i) := by
  intro o
  rw [Finset.mul_sum, ← Finset.sum_add_distrib]
  refine Finset.sum_congr rfl (fun i _ => ?_)
  rw [show o.data i = q i + dt * o.incr i from rfl]
  ring

/-- θ/ξ-step with a memory term the functional kills: the functional is conserved and kills the new
memory.  No condition on `dt`. -/
theorem thetaStep_conserves_mem (solve : Mat α N → Vec α N → Vec α N) (θ ξ : α) (hξ : 1 + ξ ≠ 0) (w : Vec α N)
    (R : Vec α N → Vec α N) (hR : ∀ v, ∑ i, w i * R v i = 0) (q eps last : Vec α N) (dt dtm t : α)
    (hlast : ξ * ∑ i, w i * last i = 0)
    (hsolve : ThetaSolved solve θ ξ R eps (fun _ => dt) last q) :
    (let o := thetaStep solve θ ξ (fdJac R q eps) R (fun _ => dt) dtm last t q
     ∑ i, w i * o.data i = ∑ i, w i * q i ∧ ∑ i, w i * o.incr i = 0) := by
  intro o
  have hincr : ∑ i, w i * o.incr i = 0 := by
    have hb := thetaStep_balance solve θ ξ w R hR q eps last (fun _ => dt) dtm t hsolve
    rw [hlast] at hb
    exact (mul_eq_zero.mp hb).resolve_left hξ
  refine ⟨?_, hincr⟩
  have := thetaStep_wdata solve θ ξ (fdJac R q eps) w R q last dt dtm t
  simp only at this
  rw [this, hincr, mul_zero, add_zero]

/-! ### gear with memory: conservation -/

/-- **the invariant on (gear memory, data)** for a conserved functional `w` with value `c`: the memorised
residual (if any) is killed by `w`, and `w(data) = c` -/
def GearInv (w : Vec α N) (c : α) (mem : Option (Vec α N)) (q : Vec α N) : Prop :=
  (∀ l, mem = some l → ∑ i, w i * l i = 0) ∧ ∑ i, w i * q i = c

/-- without memory (first step, or after a reset) the invariant is just `w(q) = c` -/
theorem gearInv_none (w : Vec α N) (q : Vec α N) : GearInv w (∑ i, w i * q i) none q :=
  ⟨fun _ h => (by cases h), rfl⟩

/-- **gear step (Crank–Nicolson start or BDF2 with memory), one global time step**: if `w` kills the operator
and the memorised residual, the step conserves `w` and `w` kills the new memory -/
theorem gearStep_conserves [CharZero α] (solve : Mat α N → Vec α N → Vec α N) (w : Vec α N)
    (R : Vec α N → Vec α N) (hR : ∀ v, ∑ i, w i * R v i = 0) (q eps : Vec α N) (dt dtm t : α)
    (last : Option (Vec α N)) (hlast : ∀ l, last = some l → ∑ i, w i * l i = 0)
    (hsolve : GearSolved solve R eps (fun _ => dt) last q) :
    (let o := gearStep solve R eps (fun _ => dt) dtm t last q
     ∑ i, w i * o.data i = ∑ i, w i * q i ∧ ∑ i, w i * o.incr i = 0) := by
  cases last with
  | none =>
    exact thetaStep_conserves_mem solve (1/2) 0 (by norm_num) w R hR q eps (fun _ => 0) dt dtm t
      (by simp) hsolve
  | some l =>
    exact thetaStep_conserves_mem solve 1 (1/2) (by norm_num) w R hR q eps l dt dtm t
      (by rw [hlast l rfl, mul_zero]) hsolve

/-- the invariant is preserved by the step (new memory = `some incr`, as the solver object stores it) -/
theorem gearStep_inv [CharZero α] (solve : Mat α N → Vec α N → Vec α N) (w : Vec α N) (c : α)
    (R : Vec α N → Vec α N) (hR : ∀ v, ∑ i, w i * R v i = 0) (q eps : Vec α N) (dt dtm t : α)
    (last : Option (Vec α N)) (hinv : GearInv w c last q)
    (hsolve : GearSolved solve R eps (fun _ => dt) last q) :
    (let o := gearStep solve R eps (fun _ => dt) dtm t last q
     GearInv w c (some o.incr) o.data) := by
  intro o
  obtain ⟨h1, h2⟩ := gearStep_conserves solve w R hR q eps dt dtm t last hinv.1 hsolve
  refine ⟨fun l hl => ?_, h1.trans hinv.2⟩
  cases hl
  exact h2

/-- the hypothesis on the memory cannot be dropped: the BDF2 step moves `w(data)` by `dt/3 · w(last)`
(`dt ≠ 0`) -/
theorem gearStep_drift [CharZero α] (solve : Mat α N → Vec α N → Vec α N) (w : Vec α N)
    (R : Vec α N → Vec α N) (hR : ∀ v, ∑ i, w i * R v i = 0) (q eps l : Vec α N) (dt dtm t : α)
    (hsolve : GearSolved solve R eps (fun _ => dt) (some l) q) :
    (let o := gearStep solve R eps (fun _ => dt) dtm t (some l) q
     ∑ i, w i * o.data i = ∑ i, w i * q i + dt / 3 * ∑ i, w i * l i) := by
  intro o
  have hb := thetaStep_balance solve 1 (1/2) w R hR q eps l (fun _ => dt) dtm t hsolve
  have hd := thetaStep_wdata solve 1 (1/2) (fdJac R q eps) w R q l dt dtm t
  simp only at hb hd
  show ∑ i, w i * (thetaStep solve 1 (1/2) (fdJac R q eps) R (fun _ => dt) dtm l t q).data i = _
  rw [hd]
  linear_combination (2 * dt / 3) * hb

/-! ### steady states, with memory, arbitrary per-unknown time steps -/

/-- θ/ξ-step at a zero of the operator with a vanishing memory term: nothing moves and the new memory is 0.
Hypothesis on the solver: it answers 0 to the homogeneous system. -/
theorem thetaStep_fixed_mem (solve : Mat α N → Vec α N → Vec α N) (θ ξ : α) (J : Mat α N)
    (R : Vec α N → Vec α N) (q dtv last : Vec α N) (dtm t : α) (hq : R q = 0) (hlast : ∀ i, ξ * last i = 0)
    (hzero : solve (sysMat θ ξ J dtv) 0 = 0) :
    (thetaStep solve θ ξ J R dtv dtm last t q).data = q
    ∧ (thetaStep solve θ ξ J R dtv dtm last t q).incr = 0 := by
  have hrhs : thetaRhs ξ R last q = 0 := by
    funext i; simp [thetaRhs, hq, hlast i]
  rw [thetaStep_out, hrhs, hzero]
  constructor <;> funext i <;> simp

/-- `thetaStep_fixed` of C06 for local time steps under the weaker solver hypothesis `solve A 0 = 0` -/
theorem thetaStep_fixed_local (solve : Mat α N → Vec α N → Vec α N) (θ : α) (J : Mat α N)
    (R : Vec α N → Vec α N) (q dtv : Vec α N) (dtm t : α) (hq : R q = 0)
    (hzero : solve (sysMat θ 0 J dtv) 0 = 0) :
    (thetaStep solve θ 0 J R dtv dtm (fun _ => 0) t q).data = q :=
  (thetaStep_fixed_mem solve θ 0 J R q dtv (fun _ => 0) dtm t hq (by simp) hzero).1

/-- **gear step at a steady state** (arbitrary per-unknown time steps): if `R q = 0` and the memory is absent
or zero, the step returns `q` and the zero memory.  Solver hypothesis in the weak form. -/
theorem gearStep_fixed' (solve : Mat α N → Vec α N → Vec α N) (R : Vec α N → Vec α N) (q eps dtv : Vec α N)
    (dtm t : α) (last : Option (Vec α N)) (hq : R q = 0) (hlast : ∀ l, last = some l → l = 0)
    (hzero : solve (gearMat R q eps dtv last) 0 = 0) :
    (gearStep solve R eps dtv dtm t last q).data = q ∧ (gearStep solve R eps dtv dtm t last q).incr = 0 := by
  cases last with
  | none => exact thetaStep_fixed_mem solve (1/2) 0 _ R q dtv _ dtm t hq (by simp) hzero
  | some l =>
    exact thetaStep_fixed_mem solve 1 (1/2) _ R q dtv l dtm t hq (by simp [hlast l rfl]) hzero

/-- … with the hypotheses of `C06.thetaStep_fixed`: injective system matrix and a solver that solves -/
theorem gearStep_fixed (solve : Mat α N → Vec α N → Vec α N) (R : Vec α N → Vec α N) (q eps dtv : Vec α N)
    (dtm t : α) (last : Option (Vec α N)) (hq : R q = 0) (hlast : ∀ l, last = some l → l = 0)
    (hinj : ∀ x : Vec α N, (gearMat R q eps dtv last).mulVec x = 0 → x = 0)
    (hsolve : ∀ rhs : Vec α N, (gearMat R q eps dtv last).mulVec (solve (gearMat R q eps dtv last) rhs) = rhs) :
    (gearStep solve R eps dtv dtm t last q).data = q ∧ (gearStep solve R eps dtv dtm t last q).incr = 0 :=
  gearStep_fixed' solve R q eps dtv dtm t last hq hlast (solve_zero_of_inj solve _ hinj (hsolve 0))

/-! ### equivariance under a linear symmetry (mirror, shift, …) -/

theorem thetaRhs_eq (ξ : α) (R : Vec α N → Vec α N) (last q : Vec α N) :
    thetaRhs ξ R last q = R q + ξ • last := by
  funext i; simp [thetaRhs]

theorem sysMat_mulVec_eq (θ ξ : α) (J : Mat α N) (dtv x : Vec α N) :
    (sysMat θ ξ J dtv).mulVec x = (1 + ξ) • (fun i => x i / dtv i) - θ • J.mulVec x := by
  funext i
  rw [sysMat_mulVec]
  simp only [Pi.sub_apply, Pi.smul_apply, smul_eq_mul]
  ring

/-- the linear map `T` is compatible with the time-step arrays `dtv` (source) and `dtv'` (target): it
intertwines the two diagonal scalings.  True for one global time step and any `T` (`dtCompat_scalar`), and for
a (signed) permutation of the unknowns with the permuted array (`dtCompat_reindex`). -/
def DtCompat (T : Vec α N →ₗ[α] Vec α N) (dtv dtv' : Vec α N) : Prop :=
  (∀ x : Vec α N, T (fun i => x i / dtv i) = fun i => T x i / dtv' i)
  ∧ ∀ x : Vec α N, T (fun i => dtv i * x i) = fun i => dtv' i * T x i

theorem dtCompat_scalar (T : Vec α N →ₗ[α] Vec α N) (dt : α) : DtCompat T (fun _ => dt) (fun _ => dt) := by
  constructor
  · intro x
    have : (fun i => x i / dt) = dt⁻¹ • x := by funext i; simp [div_eq_inv_mul]
    rw [this, map_smul]; funext i; simp [div_eq_inv_mul]
  · intro x
    have : (fun i => dt * x i) = dt • x := by funext i; simp
    rw [this, map_smul]; funext i; simp

/-- signed reindexing `(T x)_i = s_i x_{π i}` (mirror of a vector field, shift, …) -/
theorem dtCompat_reindex (T : Vec α N →ₗ[α] Vec α N) (π : Fin N → Fin N) (sg : Vec α N)
    (hT : ∀ x i, T x i = sg i * x (π i)) (dtv : Vec α N) : DtCompat T dtv (fun i => dtv (π i)) := by
  constructor <;> intro x <;> funext i <;> simp only [hT] <;> ring

/-- **a θ/ξ-step commutes with a linear map `T` intertwining two problems** `(R, J, dtv)` and `(R', J', dtv')`
(`R' ∘ T = T ∘ R` at the state, `J' T = T J`, `DtCompat T dtv dtv'`), when the target system has at most one
solution and the solver solved both systems.  `T` need not be invertible. -/
theorem thetaStep_equivariant (solve : Mat α N → Vec α N → Vec α N) (θ ξ : α) (J J' : Mat α N)
    (R R' : Vec α N → Vec α N) (T : Vec α N →ₗ[α] Vec α N) (q last dtv dtv' : Vec α N) (dtm t : α)
    (hR : R' (T q) = T (R q)) (hJ : ∀ x, J'.mulVec (T x) = T (J.mulVec x)) (hdt : DtCompat T dtv dtv')
    (hinj : ∀ x : Vec α N, (sysMat θ ξ J' dtv').mulVec x = 0 → x = 0)
    (hs : (sysMat θ ξ J dtv).mulVec (solve (sysMat θ ξ J dtv) (thetaRhs ξ R last q)) = thetaRhs ξ R last q)
    (hs' : (sysMat θ ξ J' dtv').mulVec (solve (sysMat θ ξ J' dtv') (thetaRhs ξ R' (T last) (T q)))
            = thetaRhs ξ R' (T last) (T q)) :
    (let o := thetaStep solve θ ξ J R dtv dtm last t q
     let o' := thetaStep solve θ ξ J' R' dtv' dtm (T last) t (T q)
     o'.time = o.time ∧ o'.data = T o.data ∧ o'.incr = T o.incr) := by
  intro o o'
  set x := solve (sysMat θ ξ J dtv) (thetaRhs ξ R last q) with hx
  set x' := solve (sysMat θ ξ J' dtv') (thetaRhs ξ R' (T last) (T q)) with hx'
  have hrhs : thetaRhs ξ R' (T last) (T q) = T (thetaRhs ξ R last q) := by
    rw [thetaRhs_eq, thetaRhs_eq, hR, map_add, map_smul]
  have hA : ∀ v, (sysMat θ ξ J' dtv').mulVec (T v) = T ((sysMat θ ξ J dtv).mulVec v) := by
    intro v
    rw [sysMat_mulVec_eq, sysMat_mulVec_eq, hJ, map_sub, map_smul, map_smul, hdt.1]
  have hxx : x' = T x := by
    have : (sysMat θ ξ J' dtv').mulVec (x' - T x) = 0 := by
      rw [Matrix.mulVec_sub, hs', hA, hs, hrhs, sub_self]
    exact sub_eq_zero.mp (hinj _ this)
  have hi : o.incr = fun i => x i / dtv i := rfl
  have hi' : o'.incr = fun i => x' i / dtv' i := rfl
  have hd : o.data = q + fun i => dtv i * o.incr i := rfl
  have hd' : o'.data = T q + fun i => dtv' i * o'.incr i := rfl
  have hincr : o'.incr = T o.incr := by rw [hi, hi', hxx, hdt.1]
  exact ⟨rfl, by rw [hd, hd', hincr, map_add, hdt.2], hincr⟩

/-- **affine problems** `R v = M v + b` (linear convection): if `R ∘ T = T ∘ R` for a linear `T` compatible with
the time steps, the θ/ξ-step with the finite-difference Jacobian (any non-zero perturbations, possibly different
at `q` and `T q`) commutes with `T`, given unique solvability of the systems and a solver that solves.
For one global time step take `dtv = dtv' = fun _ => dt` and `dtCompat_scalar T dt`. -/
theorem thetaStep_equivariant_affine (solve : Mat α N → Vec α N → Vec α N) (θ ξ : α) (M : Mat α N)
    (b : Vec α N) (T : Vec α N →ₗ[α] Vec α N) (q last eps eps' dtv dtv' : Vec α N) (dtm t : α)
    (heps : ∀ j, eps j ≠ 0) (heps' : ∀ j, eps' j ≠ 0)
    (hcomm : ∀ v, M.mulVec (T v) + b = T (M.mulVec v + b)) (hdt : DtCompat T dtv dtv')
    (hinj : ∀ x : Vec α N, (sysMat θ ξ M dtv').mulVec x = 0 → x = 0)
    (hsolve : ∀ rhs : Vec α N, (sysMat θ ξ M dtv).mulVec (solve (sysMat θ ξ M dtv) rhs) = rhs)
    (hsolve' : ∀ rhs : Vec α N, (sysMat θ ξ M dtv').mulVec (solve (sysMat θ ξ M dtv') rhs) = rhs) :
    (let R : Vec α N → Vec α N := fun v => M.mulVec v + b
     let o := thetaStep solve θ ξ (fdJac R q eps) R dtv dtm last t q
     let o' := thetaStep solve θ ξ (fdJac R (T q) eps') R dtv' dtm (T last) t (T q)
     o'.time = o.time ∧ o'.data = T o.data ∧ o'.incr = T o.incr) := by
  intro R o o'
  have hb : b = T b := by
    have := hcomm 0
    simpa using this
  have hJ : ∀ x, M.mulVec (T x) = T (M.mulVec x) := by
    intro x
    have h := hcomm x
    rw [map_add, ← hb] at h
    exact add_right_cancel h
  simp only [o, o', R, fdJac_affine M b q eps heps, fdJac_affine M b (T q) eps' heps']
  exact thetaStep_equivariant solve θ ξ M M _ _ T q last dtv dtv' dtm t (hcomm q) hJ hdt hinj (hsolve _)
    (hsolve' _)

/-- the gear step (either branch) inherits the equivariance on affine problems; the memory is mapped by `T` -/
theorem gearStep_equivariant_affine (solve : Mat α N → Vec α N → Vec α N) (M : Mat α N)
    (b : Vec α N) (T : Vec α N →ₗ[α] Vec α N) (q eps eps' dtv dtv' : Vec α N) (last : Option (Vec α N))
    (dtm t : α) (heps : ∀ j, eps j ≠ 0) (heps' : ∀ j, eps' j ≠ 0)
    (hcomm : ∀ v, M.mulVec (T v) + b = T (M.mulVec v + b)) (hdt : DtCompat T dtv dtv')
    (hinj : ∀ x : Vec α N, (gearMat (fun v => M.mulVec v + b) (T q) eps' dtv' (last.map T)).mulVec x = 0 → x = 0)
    (hsolve : ∀ rhs : Vec α N, (gearMat (fun v => M.mulVec v + b) q eps dtv last).mulVec
        (solve (gearMat (fun v => M.mulVec v + b) q eps dtv last) rhs) = rhs)
    (hsolve' : ∀ rhs : Vec α N, (gearMat (fun v => M.mulVec v + b) (T q) eps' dtv' (last.map T)).mulVec
        (solve (gearMat (fun v => M.mulVec v + b) (T q) eps' dtv' (last.map T)) rhs) = rhs) :
    (let R : Vec α N → Vec α N := fun v => M.mulVec v + b
     let o := gearStep solve R eps dtv dtm t last q
     let o' := gearStep solve R eps' dtv' dtm t (last.map T) (T q)
     o'.time = o.time ∧ o'.data = T o.data ∧ o'.incr = T o.incr) := by
  cases last with
  | none =>
    simp only [gearMat, Option.map_none, fdJac_affine M b q eps heps, fdJac_affine M b (T q) eps' heps']
      at hinj hsolve hsolve'
    have h := thetaStep_equivariant_affine solve (1/2) 0 M b T q (fun _ => 0) eps eps' dtv dtv' dtm t heps heps'
      hcomm hdt hinj hsolve hsolve'
    have h0 : T (fun _ => (0 : α)) = fun _ => (0 : α) := map_zero T
    rw [h0] at h
    exact h
  | some l =>
    simp only [gearMat, Option.map_some, fdJac_affine M b q eps heps, fdJac_affine M b (T q) eps' heps']
      at hinj hsolve hsolve'
    exact thetaStep_equivariant_affine solve 1 (1/2) M b T q l eps eps' dtv dtv' dtm t heps heps' hcomm hdt hinj
      hsolve hsolve'

end OneStep

/-! ## 2. whole solves -/
section Solve
variable {α : Type} {N : ℕ} {σ V D : Type}

/-- states `(hidden state, time, data)` at which the full steps of a run from `x0` are taken -/
def Visited (c : DrvCfg σ α V D) (x0 x : σ × α × V) : Prop := ∃ k : ℕ, x = (adv c)^[k] x0

/-- `C07.run_preserves` with the one-step hypothesis needed only at the states the run visits; the final
state is itself of this form -/
theorem run_preserves_visited [Field α] [LinearOrder α] [IsStrictOrderedRing α] (c : DrvCfg σ α V D) (hkeep : ∀ s s', c.keep s s' = s) (P : σ × α × V → Prop)
    (fuel : ℕ) (s0 : σ) (t0 : α) (q0 : V)
    (hP : ∀ x, Visited c (s0, t0, q0) x → P x → P (adv c x)) (h0 : P (s0, t0, q0)) :
    P (core (c.run fuel s0 t0 q0).1) ∧ Visited c (s0, t0, q0) (core (c.run fuel s0 t0 q0).1) := by
  have h := C07.run_preserves c hkeep (fun x => P x ∧ Visited c (s0, t0, q0) x)
    (fun x hx => ⟨hP x hx.2 hx.1, by
      obtain ⟨k, hk⟩ := hx.2
      exact ⟨k + 1, by rw [Function.iterate_succ_apply', ← hk]⟩⟩)
    fuel s0 t0 q0 ⟨h0, 0, rfl⟩
  exact h

/-! ### the stored snapshots (what `solve` returns) -/

/-- loop invariant: `I` holds for the trajectory state, `Q` for the data of every stored snapshot -/
def SnapInv (I : σ × α × V → Prop) (Q : V → Prop) (st : DrvState σ α V) : Prop :=
  I (core st) ∧ ∀ r ∈ st.results, Q r.data

theorem sideSnaps_snapInv [Field α] [LinearOrder α] [IsStrictOrderedRing α] (c : DrvCfg σ α V D)
    (hkeep : ∀ s s', c.keep s s' = s) (I : σ × α × V → Prop) (Q : V → Prop) (hIQ : ∀ x, I x → Q x.2.2)
    (hside : ∀ x d, I x → 0 < d → d ≤ c.minDt (c.calcDt x.2.1 x.2.2) →
      Q (c.step x.1 (c.scalar d) x.2.1 x.2.2).2.2)
    (m : α) (fuel : ℕ) (st : DrvState σ α V) (hm : m ≤ c.minDt (c.calcDt st.time st.data))
    (h : SnapInv I Q st) : SnapInv I Q (c.sideSnaps m st fuel) := by
  induction fuel generalizing st with
  | zero => exact h
  | succ k ih =>
    rw [DrvCfg.sideSnaps]
    split
    · rename_i ts hts
      split_ifs with h1 h2
      · have hq : Q (c.step st.sol (c.scalar (ts - st.time)) st.time st.data).2.2 :=
          hside (core st) _ h.1 (sub_pos.mpr h2) (by simp only [core]; linarith)
        refine ih _ hm ⟨?_, ?_⟩
        · simp only [core, hkeep]; exact h.1
        · intro r hr
          rcases List.mem_append.mp hr with hr | hr
          · exact h.2 r hr
          · rw [List.mem_singleton] at hr; subst hr; exact hq
      · refine ih _ hm ⟨h.1, ?_⟩
        intro r hr
        rcases List.mem_append.mp hr with hr | hr
        · exact h.2 r hr
        · rw [List.mem_singleton] at hr; subst hr; exact hIQ _ h.1
      · exact h
    · exact h

theorem initialSnaps_snapInv [Field α] [LinearOrder α] [IsStrictOrderedRing α] (c : DrvCfg σ α V D)
    (I : σ × α × V → Prop) (Q : V → Prop) (hIQ : ∀ x, I x → Q x.2.2) (fuel : ℕ) (st : DrvState σ α V)
    (h : SnapInv I Q st) : SnapInv I Q (c.initialSnaps st fuel) := by
  induction fuel generalizing st with
  | zero => exact h
  | succ k ih =>
    rw [DrvCfg.initialSnaps]
    split
    · split_ifs
      · refine ih _ ⟨h.1, ?_⟩
        intro r hr
        rcases List.mem_append.mp hr with hr | hr
        · exact h.2 r hr
        · rw [List.mem_singleton] at hr; subst hr; exact hIQ _ h.1
      · exact h
    · exact h

theorem iteration_snapInv [Field α] [LinearOrder α] [IsStrictOrderedRing α] (c : DrvCfg σ α V D)
    (hkeep : ∀ s s', c.keep s s' = s) (I : σ × α × V → Prop) (Q : V → Prop) (hIQ : ∀ x, I x → Q x.2.2)
    (hI : ∀ x, I x → I (adv c x))
    (hside : ∀ x d, I x → 0 < d → d ≤ c.minDt (c.calcDt x.2.1 x.2.2) →
      Q (c.step x.1 (c.scalar d) x.2.1 x.2.2).2.2)
    (st : DrvState σ α V) (h : SnapInv I Q st) : SnapInv I Q (c.iteration st) := by
  have h1 := sideSnaps_snapInv c hkeep I Q hIQ hside (c.minDt (c.calcDt st.time st.data))
    (c.tsave.length + 1) st le_rfl h
  obtain ⟨hc, -, -, -⟩ := C07.sideSnaps_core c hkeep (c.minDt (c.calcDt st.time st.data)) st (c.tsave.length + 1)
  simp only [core, Prod.mk.injEq] at hc
  obtain ⟨hs, ht, hd⟩ := hc
  have hI' : I (core (c.iteration st)) := by
    rw [(C07.iteration_core c hkeep st).1]; exact hI _ h.1
  have hq : Q (adv c (core st)).2.2 := hIQ _ (hI _ h.1)
  have key : ∀ (P : Prop) [Decidable P] (s : DrvState σ α V), (∀ r ∈ s.results, Q r.data) → Q s.data →
      ∀ r ∈ (if P then { s with results := [⟨s.time, (c.itstart + s.nit : ℕ), s.data⟩] } else s).results,
        Q r.data := by
    intro P _ s hr hs
    split
    · intro r hr'
      rw [List.mem_singleton] at hr'; subst hr'; exact hs
    · exact hr
  refine ⟨hI', ?_⟩
  unfold DrvCfg.iteration
  dsimp only
  apply key
  · exact h1.2
  · simpa [DrvCfg.parseMonitors, hs, ht, hd, adv, core] using hq

theorem loop_snapInv [Field α] [LinearOrder α] [IsStrictOrderedRing α] (c : DrvCfg σ α V D)
    (hkeep : ∀ s s', c.keep s s' = s) (I : σ × α × V → Prop) (Q : V → Prop) (hIQ : ∀ x, I x → Q x.2.2)
    (hI : ∀ x, I x → I (adv c x))
    (hside : ∀ x d, I x → 0 < d → d ≤ c.minDt (c.calcDt x.2.1 x.2.2) →
      Q (c.step x.1 (c.scalar d) x.2.1 x.2.2).2.2)
    (fuel : ℕ) (st : DrvState σ α V) (h : SnapInv I Q st) : SnapInv I Q (c.loop fuel st).1 := by
  induction fuel generalizing st with
  | zero => exact h
  | succ k ih =>
    rw [DrvCfg.loop]
    split_ifs
    · exact h
    · exact ih _ (iteration_snapInv c hkeep I Q hIQ hI hside st h)

/-- **lifting to the stored snapshots, with hidden state**: if `I` is an invariant of the full steps
`(σ, time, data) ↦ adv`, implies `Q` of the data, and every side step (scalar `0 < d ≤ min dt`, the driver
uses `d = tsave - time`) from a state satisfying `I` produces data satisfying `Q`, then every snapshot
returned by `solve`/`restart` satisfies `Q` -/
theorem run_snapshots [Field α] [LinearOrder α] [IsStrictOrderedRing α] (c : DrvCfg σ α V D)
    (hkeep : ∀ s s', c.keep s s' = s) (I : σ × α × V → Prop) (Q : V → Prop) (hIQ : ∀ x, I x → Q x.2.2)
    (hI : ∀ x, I x → I (adv c x))
    (hside : ∀ x d, I x → 0 < d → d ≤ c.minDt (c.calcDt x.2.1 x.2.2) →
      Q (c.step x.1 (c.scalar d) x.2.1 x.2.2).2.2)
    (fuel : ℕ) (s0 : σ) (t0 : α) (q0 : V) (h0 : I (s0, t0, q0)) :
    ∀ r ∈ (c.run fuel s0 t0 q0).1.results, Q r.data := by
  have h : SnapInv I Q (c.run fuel s0 t0 q0).1 := by
    unfold DrvCfg.run
    dsimp only
    apply loop_snapInv c hkeep I Q hIQ hI hside
    apply initialSnaps_snapInv c I Q hIQ
    refine ⟨?_, ?_⟩
    · simpa [core, DrvCfg.parseMonitors] using h0
    · intro r hr; simp [DrvCfg.parseMonitors] at hr
  exact h.2

/-- the driver parameters other than the integrator (fields as in `DrvCfg`) -/
structure DrvPar (α V D : Type) where
  calcDt : α → V → D
  minDt : D → α
  scalar : α → D
  dtlocal : Bool
  tottime : Option α
  maxit : Option ℕ
  tsave : List α
  itstart : ℕ
  monitors : List (ℕ × (α → V → α))

/-- driver configuration of an integrator `step` whose hidden state is restored after snapshot side steps -/
def DrvPar.cfg (p : DrvPar α V D) (step : σ → D → α → V → σ × α × V) : DrvCfg σ α V D :=
  { step := step, keep := fun s _ => s, calcDt := p.calcDt, minDt := p.minDt, scalar := p.scalar,
    dtlocal := p.dtlocal, tottime := p.tottime, maxit := p.maxit, tsave := p.tsave, itstart := p.itstart,
    monitors := p.monitors }

/-- the time-step value handed to a full step from `(t, q)`: the array with `dtlocal`, else its minimum -/
def DrvPar.stepDt (p : DrvPar α V D) (t : α) (q : V) : D :=
  if p.dtlocal then p.calcDt t q else p.scalar (p.minDt (p.calcDt t q))

theorem DrvPar.keep_cfg (p : DrvPar α V D) (step : σ → D → α → V → σ × α × V) :
    ∀ s s', (p.cfg step).keep s s' = s := fun _ _ => rfl

theorem DrvPar.adv_cfg (p : DrvPar α V D) (step : σ → D → α → V → σ × α × V) (x : σ × α × V) :
    adv (p.cfg step) x = step x.1 (p.stepDt x.2.1 x.2.2) x.2.1 x.2.2 := rfl

/-- `timemodel.solve` with a θ-scheme (no memory: `σ = Unit`).  `R t` is the space operator at time `t`,
`eps q` the finite-difference perturbations chosen from the data, `dtvOf d` the per-unknown time steps
of a time-step value `d` (`np.repeat`/broadcast), `p.minDt d` its minimum. -/
def thetaCfg [Field α] (solve : Mat α N → Vec α N → Vec α N) (θ : α) (R : α → Vec α N → Vec α N)
    (eps : Vec α N → Vec α N) (dtvOf : D → Vec α N) (p : DrvPar α (Vec α N) D) :
    DrvCfg Unit α (Vec α N) D :=
  p.cfg fun s d t q =>
    let o := thetaStep solve θ 0 (fdJac (R t) q (eps q)) (R t) (dtvOf d) (p.minDt d) (fun _ => 0) t q
    (s, o.time, o.data)

/-- class `implicit` (backward Euler) -/
def implicitCfg [Field α] (solve : Mat α N → Vec α N → Vec α N) (R : α → Vec α N → Vec α N)
    (eps : Vec α N → Vec α N) (dtvOf : D → Vec α N) (p : DrvPar α (Vec α N) D) :
    DrvCfg Unit α (Vec α N) D :=
  p.cfg fun s d t q =>
    let o := implicitStep solve (R t) (eps q) (dtvOf d) (p.minDt d) t q
    (s, o.time, o.data)

/-- classes `trapezoidal` / `cranknicolson` -/
def trapezoidalCfg [Field α] (solve : Mat α N → Vec α N → Vec α N) (R : α → Vec α N → Vec α N)
    (eps : Vec α N → Vec α N) (dtvOf : D → Vec α N) (p : DrvPar α (Vec α N) D) :
    DrvCfg Unit α (Vec α N) D :=
  p.cfg fun s d t q =>
    let o := trapezoidalStep solve (R t) (eps q) (dtvOf d) (p.minDt d) t q
    (s, o.time, o.data)

/-- class `gear`: the hidden state is the memorised residual -/
def gearCfg [Field α] (solve : Mat α N → Vec α N → Vec α N) (R : α → Vec α N → Vec α N)
    (eps : Vec α N → Vec α N) (dtvOf : D → Vec α N) (p : DrvPar α (Vec α N) D) :
    DrvCfg (Option (Vec α N)) α (Vec α N) D :=
  p.cfg fun s d t q =>
    let o := gearStep solve (R t) (eps q) (dtvOf d) (p.minDt d) t s q
    (some o.incr, o.time, o.data)

theorem implicitCfg_eq [Field α] (solve : Mat α N → Vec α N → Vec α N) (R : α → Vec α N → Vec α N)
    (eps : Vec α N → Vec α N) (dtvOf : D → Vec α N) (p : DrvPar α (Vec α N) D) :
    implicitCfg solve R eps dtvOf p = thetaCfg solve 1 R eps dtvOf p := rfl

theorem trapezoidalCfg_eq [Field α] (solve : Mat α N → Vec α N → Vec α N) (R : α → Vec α N → Vec α N)
    (eps : Vec α N → Vec α N) (dtvOf : D → Vec α N) (p : DrvPar α (Vec α N) D) :
    trapezoidalCfg solve R eps dtvOf p = thetaCfg solve (1/2) R eps dtvOf p := rfl

/-- with `dtlocal = false` every unknown gets the minimum time step -/
theorem DrvPar.dtvOf_stepDt (p : DrvPar α V D) (dtvOf : D → Vec α N) (hglobal : p.dtlocal = false)
    (hscalar : ∀ a, dtvOf (p.scalar a) = fun _ => a) (t : α) (q : V) :
    dtvOf (p.stepDt t q) = fun _ => p.minDt (p.calcDt t q) := by
  simp [DrvPar.stepDt, hglobal, hscalar]

theorem thetaCfg_step [Field α] (solve : Mat α N → Vec α N → Vec α N) (θ : α) (R : α → Vec α N → Vec α N)
    (eps : Vec α N → Vec α N) (dtvOf : D → Vec α N) (p : DrvPar α (Vec α N) D) (s : Unit) (d : D) (t : α)
    (q : Vec α N) :
    (thetaCfg solve θ R eps dtvOf p).step s d t q
      = (s, (thetaStep solve θ 0 (fdJac (R t) q (eps q)) (R t) (dtvOf d) (p.minDt d) (fun _ => 0) t q).time,
         (thetaStep solve θ 0 (fdJac (R t) q (eps q)) (R t) (dtvOf d) (p.minDt d) (fun _ => 0) t q).data) := rfl

theorem gearCfg_step [Field α] (solve : Mat α N → Vec α N → Vec α N) (R : α → Vec α N → Vec α N)
    (eps : Vec α N → Vec α N) (dtvOf : D → Vec α N) (p : DrvPar α (Vec α N) D) (s : Option (Vec α N)) (d : D)
    (t : α) (q : Vec α N) :
    (gearCfg solve R eps dtvOf p).step s d t q
      = (some (gearStep solve (R t) (eps q) (dtvOf d) (p.minDt d) t s q).incr,
         (gearStep solve (R t) (eps q) (dtvOf d) (p.minDt d) t s q).time,
         (gearStep solve (R t) (eps q) (dtvOf d) (p.minDt d) t s q).data) := rfl

theorem visited_adv (c : DrvCfg σ α V D) (x0 x : σ × α × V) (h : Visited c x0 x) : Visited c x0 (adv c x) := by
  obtain ⟨k, hk⟩ := h
  exact ⟨k + 1, by rw [Function.iterate_succ_apply', ← hk]⟩

/-! ### one step of the packaged integrators -/

/-- full step of a θ-scheme, global time step: conservation -/
theorem thetaCfg_adv_conserves [Field α] (solve : Mat α N → Vec α N → Vec α N) (θ : α)
    (R : α → Vec α N → Vec α N) (eps : Vec α N → Vec α N) (dtvOf : D → Vec α N) (p : DrvPar α (Vec α N) D)
    (w : Vec α N) (hglobal : p.dtlocal = false) (hscalar : ∀ a, dtvOf (p.scalar a) = fun _ => a)
    (hR : ∀ t v, ∑ i, w i * R t v i = 0) (x : Unit × α × Vec α N)
    (hs : ThetaSolved solve θ 0 (R x.2.1) (eps x.2.2) (fun _ => p.minDt (p.calcDt x.2.1 x.2.2)) (fun _ => 0) x.2.2) :
    ∑ i, w i * (adv (thetaCfg solve θ R eps dtvOf p) x).2.2 i = ∑ i, w i * x.2.2 i := by
  obtain ⟨s, t, q⟩ := x
  show ∑ i, w i * (thetaStep solve θ 0 (fdJac (R t) q (eps q)) (R t) (dtvOf (p.stepDt t q))
    (p.minDt (p.stepDt t q)) (fun _ => 0) t q).data i = _
  rw [p.dtvOf_stepDt dtvOf hglobal hscalar]
  exact (thetaStep_conserves_mem solve θ 0 (by simp) w (R t) (hR t) q (eps q) (fun _ => 0) _ _ t (by simp) hs).1

/-- snapshot side step (always a scalar time step `d`) of a θ-scheme: conservation -/
theorem thetaCfg_side_conserves [Field α] (solve : Mat α N → Vec α N → Vec α N) (θ : α)
    (R : α → Vec α N → Vec α N) (eps : Vec α N → Vec α N) (dtvOf : D → Vec α N) (p : DrvPar α (Vec α N) D)
    (w : Vec α N) (hscalar : ∀ a, dtvOf (p.scalar a) = fun _ => a)
    (hR : ∀ t v, ∑ i, w i * R t v i = 0) (s : Unit) (d t : α) (q : Vec α N)
    (hs : ThetaSolved solve θ 0 (R t) (eps q) (fun _ => d) (fun _ => 0) q) :
    ∑ i, w i * ((thetaCfg solve θ R eps dtvOf p).step s (p.scalar d) t q).2.2 i = ∑ i, w i * q i := by
  rw [thetaCfg_step, hscalar]
  exact (thetaStep_conserves_mem solve θ 0 (by simp) w (R t) (hR t) q (eps q) (fun _ => 0) d
    (p.minDt (p.scalar d)) t (by simp) hs).1

/-- any step (time-step value `d`: scalar or array) of a θ-scheme at a zero of the operator -/
theorem thetaCfg_step_fixed [Field α] (solve : Mat α N → Vec α N → Vec α N) (θ : α)
    (R : α → Vec α N → Vec α N) (eps : Vec α N → Vec α N) (dtvOf : D → Vec α N) (p : DrvPar α (Vec α N) D)
    (s : Unit) (d : D) (t : α) (q : Vec α N) (hq : R t q = 0)
    (hzero : solve (sysMat θ 0 (fdJac (R t) q (eps q)) (dtvOf d)) 0 = 0) :
    ((thetaCfg solve θ R eps dtvOf p).step s d t q).2.2 = q := by
  rw [thetaCfg_step]
  exact thetaStep_fixed_local solve θ _ (R t) q (dtvOf d) (p.minDt d) t hq hzero

/-- full step of gear, global time step: the joint invariant is preserved -/
theorem gearCfg_adv_inv [Field α] [CharZero α] (solve : Mat α N → Vec α N → Vec α N)
    (R : α → Vec α N → Vec α N) (eps : Vec α N → Vec α N) (dtvOf : D → Vec α N) (p : DrvPar α (Vec α N) D)
    (w : Vec α N) (c0 : α) (hglobal : p.dtlocal = false) (hscalar : ∀ a, dtvOf (p.scalar a) = fun _ => a)
    (hR : ∀ t v, ∑ i, w i * R t v i = 0) (x : Option (Vec α N) × α × Vec α N) (hx : GearInv w c0 x.1 x.2.2)
    (hs : GearSolved solve (R x.2.1) (eps x.2.2) (fun _ => p.minDt (p.calcDt x.2.1 x.2.2)) x.1 x.2.2) :
    GearInv w c0 (adv (gearCfg solve R eps dtvOf p) x).1 (adv (gearCfg solve R eps dtvOf p) x).2.2 := by
  obtain ⟨s, t, q⟩ := x
  show GearInv w _ (some (gearStep solve (R t) (eps q) (dtvOf (p.stepDt t q)) (p.minDt (p.stepDt t q)) t s q).incr)
    (gearStep solve (R t) (eps q) (dtvOf (p.stepDt t q)) (p.minDt (p.stepDt t q)) t s q).data
  rw [p.dtvOf_stepDt dtvOf hglobal hscalar]
  exact gearStep_inv solve w _ (R t) (hR t) q (eps q) _ _ t s hx hs

/-- snapshot side step of gear from a state satisfying the joint invariant: conservation -/
theorem gearCfg_side_conserves [Field α] [CharZero α] (solve : Mat α N → Vec α N → Vec α N)
    (R : α → Vec α N → Vec α N) (eps : Vec α N → Vec α N) (dtvOf : D → Vec α N) (p : DrvPar α (Vec α N) D)
    (w : Vec α N) (c0 : α) (hscalar : ∀ a, dtvOf (p.scalar a) = fun _ => a)
    (hR : ∀ t v, ∑ i, w i * R t v i = 0) (s : Option (Vec α N)) (d t : α) (q : Vec α N)
    (hx : GearInv w c0 s q) (hs : GearSolved solve (R t) (eps q) (fun _ => d) s q) :
    ∑ i, w i * ((gearCfg solve R eps dtvOf p).step s (p.scalar d) t q).2.2 i = c0 := by
  rw [gearCfg_step, hscalar]
  exact ((gearStep_conserves solve w (R t) (hR t) q (eps q) d (p.minDt (p.scalar d)) t s hx.1 hs).1).trans hx.2

/-- any step of gear at a zero of the operator with absent or zero memory -/
theorem gearCfg_step_fixed [Field α] (solve : Mat α N → Vec α N → Vec α N)
    (R : α → Vec α N → Vec α N) (eps : Vec α N → Vec α N) (dtvOf : D → Vec α N) (p : DrvPar α (Vec α N) D)
    (s : Option (Vec α N)) (d : D) (t : α) (q : Vec α N) (hq : R t q = 0) (hs : ∀ l, s = some l → l = 0)
    (hzero : solve (gearMat (R t) q (eps q) (dtvOf d) s) 0 = 0) :
    ((gearCfg solve R eps dtvOf p).step s d t q).2.2 = q
    ∧ ∀ l, ((gearCfg solve R eps dtvOf p).step s d t q).1 = some l → l = 0 := by
  rw [gearCfg_step]
  obtain ⟨h1, h2⟩ := gearStep_fixed' solve (R t) q (eps q) (dtvOf d) (p.minDt d) t s hq hs hzero
  refine ⟨h1, fun l hl' => ?_⟩
  rw [← Option.some.inj hl', h2]

/-! ### whole solves: the final field -/

/-- **C01 for θ-schemes, whole solve, global time step** (`dtlocal = false`): a linear functional killed by the
space operator at all times has the same value on the final field as on the initial one.  The solver is
assumed to have solved the systems formed by the full steps of this run. -/
theorem solve_implicit_conserves [Field α] [LinearOrder α] [IsStrictOrderedRing α]
    (solve : Mat α N → Vec α N → Vec α N) (θ : α) (R : α → Vec α N → Vec α N)
    (eps : Vec α N → Vec α N) (dtvOf : D → Vec α N) (p : DrvPar α (Vec α N) D) (w : Vec α N)
    (hglobal : p.dtlocal = false) (hscalar : ∀ a, dtvOf (p.scalar a) = fun _ => a)
    (hR : ∀ t v, ∑ i, w i * R t v i = 0) (fuel : ℕ) (t0 : α) (q0 : Vec α N)
    (hsolve : ∀ x, Visited (thetaCfg solve θ R eps dtvOf p) ((), t0, q0) x →
      ThetaSolved solve θ 0 (R x.2.1) (eps x.2.2) (fun _ => p.minDt (p.calcDt x.2.1 x.2.2)) (fun _ => 0) x.2.2) :
    ∑ i, w i * ((thetaCfg solve θ R eps dtvOf p).run fuel () t0 q0).1.data i = ∑ i, w i * q0 i :=
  (run_preserves_visited (thetaCfg solve θ R eps dtvOf p) (p.keep_cfg _)
    (fun x => ∑ i, w i * x.2.2 i = ∑ i, w i * q0 i) fuel () t0 q0
    (fun x hv hx => (thetaCfg_adv_conserves solve θ R eps dtvOf p w hglobal hscalar hR x (hsolve x hv)).trans hx)
    rfl).1

/-- **C03 for θ-schemes, whole solve, global or local time steps**: a zero of the space operator at all times
is returned unchanged.  The solver is assumed to answer 0 to the homogeneous systems formed by the full steps. -/
theorem solve_implicit_fixed [Field α] [LinearOrder α] [IsStrictOrderedRing α]
    (solve : Mat α N → Vec α N → Vec α N) (θ : α) (R : α → Vec α N → Vec α N)
    (eps : Vec α N → Vec α N) (dtvOf : D → Vec α N) (p : DrvPar α (Vec α N) D)
    (q0 : Vec α N) (hq0 : ∀ t, R t q0 = 0) (fuel : ℕ) (t0 : α)
    (hzero : ∀ x, Visited (thetaCfg solve θ R eps dtvOf p) ((), t0, q0) x →
      solve (sysMat θ 0 (fdJac (R x.2.1) q0 (eps q0)) (dtvOf (p.stepDt x.2.1 q0))) 0 = 0) :
    ((thetaCfg solve θ R eps dtvOf p).run fuel () t0 q0).1.data = q0 := by
  refine (run_preserves_visited (thetaCfg solve θ R eps dtvOf p) (p.keep_cfg _)
    (fun x => x.2.2 = q0) fuel () t0 q0 (fun x hv hx => ?_) rfl).1
  obtain ⟨s, t, q⟩ := x
  simp only at hx
  subst hx
  exact thetaCfg_step_fixed solve θ R eps dtvOf p s _ t q (hq0 t) (hzero _ hv)

/-- **C01 for gear, whole solve, global time step**: started without memory (`solve`) or with a memory the
functional kills (`restart` on the same solver object), the run conserves the functional and the joint
invariant `GearInv` holds at the end (so that a further `restart` conserves it as well). -/
theorem solve_gear_conserves [Field α] [LinearOrder α] [IsStrictOrderedRing α]
    (solve : Mat α N → Vec α N → Vec α N) (R : α → Vec α N → Vec α N)
    (eps : Vec α N → Vec α N) (dtvOf : D → Vec α N) (p : DrvPar α (Vec α N) D) (w : Vec α N)
    (hglobal : p.dtlocal = false) (hscalar : ∀ a, dtvOf (p.scalar a) = fun _ => a)
    (hR : ∀ t v, ∑ i, w i * R t v i = 0) (fuel : ℕ) (s0 : Option (Vec α N)) (t0 : α) (q0 : Vec α N)
    (hs0 : ∀ l, s0 = some l → ∑ i, w i * l i = 0)
    (hsolve : ∀ x, Visited (gearCfg solve R eps dtvOf p) (s0, t0, q0) x →
      GearSolved solve (R x.2.1) (eps x.2.2) (fun _ => p.minDt (p.calcDt x.2.1 x.2.2)) x.1 x.2.2) :
    ∑ i, w i * ((gearCfg solve R eps dtvOf p).run fuel s0 t0 q0).1.data i = ∑ i, w i * q0 i
    ∧ GearInv w (∑ i, w i * q0 i) ((gearCfg solve R eps dtvOf p).run fuel s0 t0 q0).1.sol
        ((gearCfg solve R eps dtvOf p).run fuel s0 t0 q0).1.data := by
  have h := (run_preserves_visited (gearCfg solve R eps dtvOf p) (p.keep_cfg _)
    (fun x => GearInv w (∑ i, w i * q0 i) x.1 x.2.2) fuel s0 t0 q0
    (fun x hv hx => gearCfg_adv_inv solve R eps dtvOf p w _ hglobal hscalar hR x hx (hsolve x hv))
    ⟨hs0, rfl⟩).1
  exact ⟨h.2, h⟩

/-- **C03 for gear, whole solve, global or local time steps**: started at a zero of the operator without memory
or with zero memory, the run returns the same field, and its memory is zero. -/
theorem solve_gear_fixed [Field α] [LinearOrder α] [IsStrictOrderedRing α]
    (solve : Mat α N → Vec α N → Vec α N) (R : α → Vec α N → Vec α N)
    (eps : Vec α N → Vec α N) (dtvOf : D → Vec α N) (p : DrvPar α (Vec α N) D)
    (q0 : Vec α N) (hq0 : ∀ t, R t q0 = 0) (fuel : ℕ) (s0 : Option (Vec α N)) (t0 : α)
    (hs0 : ∀ l, s0 = some l → l = 0)
    (hzero : ∀ x, Visited (gearCfg solve R eps dtvOf p) (s0, t0, q0) x →
      solve (gearMat (R x.2.1) q0 (eps q0) (dtvOf (p.stepDt x.2.1 q0)) x.1) 0 = 0) :
    ((gearCfg solve R eps dtvOf p).run fuel s0 t0 q0).1.data = q0
    ∧ ∀ l, ((gearCfg solve R eps dtvOf p).run fuel s0 t0 q0).1.sol = some l → l = 0 := by
  refine (run_preserves_visited (gearCfg solve R eps dtvOf p) (p.keep_cfg _)
    (fun x => x.2.2 = q0 ∧ ∀ l, x.1 = some l → l = 0) fuel s0 t0 q0 (fun x hv hx => ?_) ⟨rfl, hs0⟩).1
  obtain ⟨s, t, q⟩ := x
  obtain ⟨hq, hl⟩ := hx
  simp only at hq hl
  subst hq
  exact gearCfg_step_fixed solve R eps dtvOf p s _ t q (hq0 t) hl (hzero _ hv)

/-! ### whole solves: every stored snapshot (the list `solve` returns)

Snapshots are copies of the current field or results of side steps with the scalar `d = tsave - time`,
`0 < d ≤ min dt`, from a visited state (gear: with the memory of that state, which is then restored).
The solver hypothesis is needed for those systems too (`hside`). -/

/-- C01, θ-schemes, global time step: every returned field has the initial value of the functional -/
theorem solve_implicit_conserves_snaps [Field α] [LinearOrder α] [IsStrictOrderedRing α]
    (solve : Mat α N → Vec α N → Vec α N) (θ : α) (R : α → Vec α N → Vec α N)
    (eps : Vec α N → Vec α N) (dtvOf : D → Vec α N) (p : DrvPar α (Vec α N) D) (w : Vec α N)
    (hglobal : p.dtlocal = false) (hscalar : ∀ a, dtvOf (p.scalar a) = fun _ => a)
    (hR : ∀ t v, ∑ i, w i * R t v i = 0) (fuel : ℕ) (t0 : α) (q0 : Vec α N)
    (hsolve : ∀ x, Visited (thetaCfg solve θ R eps dtvOf p) ((), t0, q0) x →
      ThetaSolved solve θ 0 (R x.2.1) (eps x.2.2) (fun _ => p.minDt (p.calcDt x.2.1 x.2.2)) (fun _ => 0) x.2.2)
    (hside : ∀ x, Visited (thetaCfg solve θ R eps dtvOf p) ((), t0, q0) x →
      ∀ d, 0 < d → d ≤ p.minDt (p.calcDt x.2.1 x.2.2) →
        ThetaSolved solve θ 0 (R x.2.1) (eps x.2.2) (fun _ => d) (fun _ => 0) x.2.2) :
    ∀ r ∈ ((thetaCfg solve θ R eps dtvOf p).run fuel () t0 q0).1.results,
      ∑ i, w i * r.data i = ∑ i, w i * q0 i :=
  run_snapshots (thetaCfg solve θ R eps dtvOf p) (p.keep_cfg _)
    (fun x => Visited (thetaCfg solve θ R eps dtvOf p) ((), t0, q0) x ∧ ∑ i, w i * x.2.2 i = ∑ i, w i * q0 i)
    (fun q => ∑ i, w i * q i = ∑ i, w i * q0 i) (fun _ hx => hx.2)
    (fun x hx => ⟨visited_adv _ _ _ hx.1,
      (thetaCfg_adv_conserves solve θ R eps dtvOf p w hglobal hscalar hR x (hsolve x hx.1)).trans hx.2⟩)
    (fun x d hx hd hd' => (thetaCfg_side_conserves solve θ R eps dtvOf p w hscalar hR x.1 d x.2.1 x.2.2
      (hside x hx.1 d hd hd')).trans hx.2)
    fuel () t0 q0 ⟨⟨0, rfl⟩, rfl⟩

/-- C03, θ-schemes, global or local time steps: every returned field is the steady state -/
theorem solve_implicit_fixed_snaps [Field α] [LinearOrder α] [IsStrictOrderedRing α]
    (solve : Mat α N → Vec α N → Vec α N) (θ : α) (R : α → Vec α N → Vec α N)
    (eps : Vec α N → Vec α N) (dtvOf : D → Vec α N) (p : DrvPar α (Vec α N) D)
    (q0 : Vec α N) (hq0 : ∀ t, R t q0 = 0) (fuel : ℕ) (t0 : α)
    (hzero : ∀ x, Visited (thetaCfg solve θ R eps dtvOf p) ((), t0, q0) x →
      solve (sysMat θ 0 (fdJac (R x.2.1) q0 (eps q0)) (dtvOf (p.stepDt x.2.1 q0))) 0 = 0)
    (hside : ∀ x, Visited (thetaCfg solve θ R eps dtvOf p) ((), t0, q0) x →
      ∀ d, 0 < d → d ≤ p.minDt (p.calcDt x.2.1 q0) →
        solve (sysMat θ 0 (fdJac (R x.2.1) q0 (eps q0)) (dtvOf (p.scalar d))) 0 = 0) :
    ∀ r ∈ ((thetaCfg solve θ R eps dtvOf p).run fuel () t0 q0).1.results, r.data = q0 := by
  refine run_snapshots (thetaCfg solve θ R eps dtvOf p) (p.keep_cfg _)
    (fun x => Visited (thetaCfg solve θ R eps dtvOf p) ((), t0, q0) x ∧ x.2.2 = q0)
    (fun q => q = q0) (fun _ hx => hx.2) (fun x hx => ⟨visited_adv _ _ _ hx.1, ?_⟩) (fun x d hx hd hd' => ?_)
    fuel () t0 q0 ⟨⟨0, rfl⟩, rfl⟩
  · obtain ⟨s, t, q⟩ := x
    obtain ⟨hv, hq⟩ := hx
    simp only at hq
    subst hq
    exact thetaCfg_step_fixed solve θ R eps dtvOf p s _ t q (hq0 t) (hzero _ hv)
  · obtain ⟨s, t, q⟩ := x
    obtain ⟨hv, hq⟩ := hx
    simp only at hq hd'
    subst hq
    exact thetaCfg_step_fixed solve θ R eps dtvOf p s _ t q (hq0 t) (hside _ hv d hd hd')

/-- C01, gear, global time step: every returned field has the initial value of the functional -/
theorem solve_gear_conserves_snaps [Field α] [LinearOrder α] [IsStrictOrderedRing α]
    (solve : Mat α N → Vec α N → Vec α N) (R : α → Vec α N → Vec α N)
    (eps : Vec α N → Vec α N) (dtvOf : D → Vec α N) (p : DrvPar α (Vec α N) D) (w : Vec α N)
    (hglobal : p.dtlocal = false) (hscalar : ∀ a, dtvOf (p.scalar a) = fun _ => a)
    (hR : ∀ t v, ∑ i, w i * R t v i = 0) (fuel : ℕ) (s0 : Option (Vec α N)) (t0 : α) (q0 : Vec α N)
    (hs0 : ∀ l, s0 = some l → ∑ i, w i * l i = 0)
    (hsolve : ∀ x, Visited (gearCfg solve R eps dtvOf p) (s0, t0, q0) x →
      GearSolved solve (R x.2.1) (eps x.2.2) (fun _ => p.minDt (p.calcDt x.2.1 x.2.2)) x.1 x.2.2)
    (hside : ∀ x, Visited (gearCfg solve R eps dtvOf p) (s0, t0, q0) x →
      ∀ d, 0 < d → d ≤ p.minDt (p.calcDt x.2.1 x.2.2) →
        GearSolved solve (R x.2.1) (eps x.2.2) (fun _ => d) x.1 x.2.2) :
    ∀ r ∈ ((gearCfg solve R eps dtvOf p).run fuel s0 t0 q0).1.results,
      ∑ i, w i * r.data i = ∑ i, w i * q0 i :=
  run_snapshots (gearCfg solve R eps dtvOf p) (p.keep_cfg _)
    (fun x => Visited (gearCfg solve R eps dtvOf p) (s0, t0, q0) x ∧ GearInv w (∑ i, w i * q0 i) x.1 x.2.2)
    (fun q => ∑ i, w i * q i = ∑ i, w i * q0 i) (fun _ hx => hx.2.2)
    (fun x hx => ⟨visited_adv _ _ _ hx.1,
      gearCfg_adv_inv solve R eps dtvOf p w _ hglobal hscalar hR x hx.2 (hsolve x hx.1)⟩)
    (fun x d hx hd hd' => gearCfg_side_conserves solve R eps dtvOf p w _ hscalar hR x.1 d x.2.1 x.2.2 hx.2
      (hside x hx.1 d hd hd'))
    fuel s0 t0 q0 ⟨⟨0, rfl⟩, hs0, rfl⟩

/-- C03, gear, global or local time steps: every returned field is the steady state -/
theorem solve_gear_fixed_snaps [Field α] [LinearOrder α] [IsStrictOrderedRing α]
    (solve : Mat α N → Vec α N → Vec α N) (R : α → Vec α N → Vec α N)
    (eps : Vec α N → Vec α N) (dtvOf : D → Vec α N) (p : DrvPar α (Vec α N) D)
    (q0 : Vec α N) (hq0 : ∀ t, R t q0 = 0) (fuel : ℕ) (s0 : Option (Vec α N)) (t0 : α)
    (hs0 : ∀ l, s0 = some l → l = 0)
    (hzero : ∀ x, Visited (gearCfg solve R eps dtvOf p) (s0, t0, q0) x →
      solve (gearMat (R x.2.1) q0 (eps q0) (dtvOf (p.stepDt x.2.1 q0)) x.1) 0 = 0)
    (hside : ∀ x, Visited (gearCfg solve R eps dtvOf p) (s0, t0, q0) x →
      ∀ d, 0 < d → d ≤ p.minDt (p.calcDt x.2.1 q0) →
        solve (gearMat (R x.2.1) q0 (eps q0) (dtvOf (p.scalar d)) x.1) 0 = 0) :
    ∀ r ∈ ((gearCfg solve R eps dtvOf p).run fuel s0 t0 q0).1.results, r.data = q0 := by
  refine run_snapshots (gearCfg solve R eps dtvOf p) (p.keep_cfg _)
    (fun x => Visited (gearCfg solve R eps dtvOf p) (s0, t0, q0) x ∧ x.2.2 = q0 ∧ ∀ l, x.1 = some l → l = 0)
    (fun q => q = q0) (fun _ hx => hx.2.1) (fun x hx => ⟨visited_adv _ _ _ hx.1, ?_⟩) (fun x d hx hd hd' => ?_)
    fuel s0 t0 q0 ⟨⟨0, rfl⟩, rfl, hs0⟩
  · obtain ⟨s, t, q⟩ := x
    obtain ⟨hv, hq, hl⟩ := hx
    simp only at hq hl
    subst hq
    exact gearCfg_step_fixed solve R eps dtvOf p s _ t q (hq0 t) hl (hzero _ hv)
  · obtain ⟨s, t, q⟩ := x
    obtain ⟨hv, hq, hl⟩ := hx
    simp only at hq hl hd'
    subst hq
    exact (gearCfg_step_fixed solve R eps dtvOf p s _ t q (hq0 t) hl (hside _ hv d hd hd')).1

/-! ### equivariance of the packaged steps on affine problems (input for driver-level equivariance) -/

/-- a step of a θ-scheme commutes with a linear symmetry `T` of the affine operator `R t v = M t v + b t`;
`d'` is the image of the time-step value `d` (for a scalar step `d' = d = p.scalar a` and `dtCompat_scalar`) -/
theorem thetaCfg_step_equivariant_affine [Field α] (solve : Mat α N → Vec α N → Vec α N) (θ : α)
    (M : α → Mat α N) (b : α → Vec α N) (eps : Vec α N → Vec α N) (dtvOf : D → Vec α N)
    (p : DrvPar α (Vec α N) D) (T : Vec α N →ₗ[α] Vec α N) (d d' : D) (t : α) (q : Vec α N)
    (hmin : p.minDt d' = p.minDt d) (hdt : DtCompat T (dtvOf d) (dtvOf d')) (heps : ∀ v j, eps v j ≠ 0)
    (hcomm : ∀ v, (M t).mulVec (T v) + b t = T ((M t).mulVec v + b t))
    (hinj : ∀ x : Vec α N, (sysMat θ 0 (M t) (dtvOf d')).mulVec x = 0 → x = 0)
    (hsolve : ∀ rhs : Vec α N, (sysMat θ 0 (M t) (dtvOf d)).mulVec
        (solve (sysMat θ 0 (M t) (dtvOf d)) rhs) = rhs)
    (hsolve' : ∀ rhs : Vec α N, (sysMat θ 0 (M t) (dtvOf d')).mulVec
        (solve (sysMat θ 0 (M t) (dtvOf d')) rhs) = rhs) :
    (let c := thetaCfg solve θ (fun t v => (M t).mulVec v + b t) eps dtvOf p
     c.step () d' t (T q) = ((), (c.step () d t q).2.1, T (c.step () d t q).2.2)) := by
  intro c
  have h := thetaStep_equivariant_affine solve θ 0 (M t) (b t) T q (fun _ => 0) (eps q) (eps (T q)) (dtvOf d)
    (dtvOf d') (p.minDt d) t (heps q) (heps (T q)) hcomm hdt hinj hsolve hsolve'
  have h0 : T (fun _ => (0 : α)) = fun _ => (0 : α) := map_zero T
  rw [h0] at h
  obtain ⟨h1, h2, -⟩ := h
  simp only [c, thetaCfg_step, hmin]
  exact Prod.ext rfl (Prod.ext h1 h2)

/-- the same for gear: the memory is mapped by `T` -/
theorem gearCfg_step_equivariant_affine [Field α] (solve : Mat α N → Vec α N → Vec α N)
    (M : α → Mat α N) (b : α → Vec α N) (eps : Vec α N → Vec α N) (dtvOf : D → Vec α N)
    (p : DrvPar α (Vec α N) D) (T : Vec α N →ₗ[α] Vec α N) (d d' : D) (t : α) (s : Option (Vec α N))
    (q : Vec α N) (hmin : p.minDt d' = p.minDt d) (hdt : DtCompat T (dtvOf d) (dtvOf d'))
    (heps : ∀ v j, eps v j ≠ 0)
    (hcomm : ∀ v, (M t).mulVec (T v) + b t = T ((M t).mulVec v + b t))
    (hinj : ∀ x : Vec α N,
      (gearMat (fun v => (M t).mulVec v + b t) (T q) (eps (T q)) (dtvOf d') (s.map T)).mulVec x = 0 → x = 0)
    (hsolve : ∀ rhs : Vec α N, (gearMat (fun v => (M t).mulVec v + b t) q (eps q) (dtvOf d) s).mulVec
        (solve (gearMat (fun v => (M t).mulVec v + b t) q (eps q) (dtvOf d) s) rhs) = rhs)
    (hsolve' : ∀ rhs : Vec α N,
      (gearMat (fun v => (M t).mulVec v + b t) (T q) (eps (T q)) (dtvOf d') (s.map T)).mulVec
        (solve (gearMat (fun v => (M t).mulVec v + b t) (T q) (eps (T q)) (dtvOf d') (s.map T)) rhs) = rhs) :
    (let c := gearCfg solve (fun t v => (M t).mulVec v + b t) eps dtvOf p
     c.step (s.map T) d' t (T q)
       = ((c.step s d t q).1.map T, (c.step s d t q).2.1, T (c.step s d t q).2.2)) := by
  intro c
  obtain ⟨h1, h2, h3⟩ := gearStep_equivariant_affine solve (M t) (b t) T q (eps q) (eps (T q)) (dtvOf d)
    (dtvOf d') s (p.minDt d) t (heps q) (heps (T q)) hcomm hdt hinj hsolve hsolve'
  simp only [c, gearCfg_step, hmin, Option.map_some]
  exact Prod.ext (congrArg some h3) (Prod.ext h1 h2)

end Solve

/-! ## 3. non-vacuity: a 2×2 exchange problem over ℚ, solved by Cramer's rule -/
namespace Ex

/-- Cramer's rule -/
def cramer2 (A : Mat ℚ 2) (r : Vec ℚ 2) : Vec ℚ 2 := fun i =>
  if i = 0 then (A 1 1 * r 0 - A 0 1 * r 1) / (A 0 0 * A 1 1 - A 0 1 * A 1 0)
  else (A 0 0 * r 1 - A 1 0 * r 0) / (A 0 0 * A 1 1 - A 0 1 * A 1 0)

theorem cramer2_solves (A : Mat ℚ 2) (r : Vec ℚ 2) (hd : A 0 0 * A 1 1 - A 0 1 * A 1 0 ≠ 0) :
    A.mulVec (cramer2 A r) = r := by
  funext i
  fin_cases i
  · simp [Matrix.mulVec, dotProduct, Fin.sum_univ_two, cramer2]
    rw [← mul_div_assoc, ← mul_div_assoc, ← add_div, div_eq_iff hd]
    ring
  · simp [Matrix.mulVec, dotProduct, Fin.sum_univ_two, cramer2]
    rw [← mul_div_assoc, ← mul_div_assoc, ← add_div, div_eq_iff hd]
    ring

theorem cramer2_inj (A : Mat ℚ 2) (hd : A 0 0 * A 1 1 - A 0 1 * A 1 0 ≠ 0) (x : Vec ℚ 2)
    (h : A.mulVec x = 0) : x = 0 := by
  have h0 := congrFun h 0
  have h1 := congrFun h 1
  simp only [Matrix.mulVec, dotProduct, Fin.sum_univ_two, Pi.zero_apply] at h0 h1
  have e0 : (A 0 0 * A 1 1 - A 0 1 * A 1 0) * x 0 = 0 := by linear_combination A 1 1 * h0 - A 0 1 * h1
  have e1 : (A 0 0 * A 1 1 - A 0 1 * A 1 0) * x 1 = 0 := by linear_combination A 0 0 * h1 - A 1 0 * h0
  funext i
  fin_cases i
  · exact (mul_eq_zero.mp e0).resolve_left hd
  · exact (mul_eq_zero.mp e1).resolve_left hd

/-- exchange between two cells plus a source/sink pair: `R(v) = M v + b`, `M = [[-1,1],[1,-1]]`, `b = (1,-1)` -/
def M : Mat ℚ 2 := fun i j => if i = j then -1 else 1
def b : Vec ℚ 2 := fun i => if i = 0 then 1 else -1
def R : ℚ → Vec ℚ 2 → Vec ℚ 2 := fun _ v => M.mulVec v + b
/-- the conserved functional: the sum -/
def w : Vec ℚ 2 := fun _ => 1
/-- data-dependent non-zero perturbations -/
def eps : Vec ℚ 2 → Vec ℚ 2 := fun q _ => if q 0 = 0 then 1 else q 0
/-- the steady state -/
def qs : Vec ℚ 2 := fun i => if i = 0 then 1 else 0

theorem eps_ne (q : Vec ℚ 2) (j : Fin 2) : eps q j ≠ 0 := by
  unfold eps; split_ifs with h
  · exact one_ne_zero
  · exact h

theorem hR (t : ℚ) (v : Vec ℚ 2) : ∑ i, w i * R t v i = 0 := by
  simp [w, R, M, b, Matrix.mulVec, dotProduct, Fin.sum_univ_two]
  ring

theorem R_qs (t : ℚ) : R t qs = 0 := by
  funext i
  fin_cases i <;> simp [R, M, b, qs, Matrix.mulVec, dotProduct]

theorem jac (t : ℚ) (q e : Vec ℚ 2) (he : ∀ j, e j ≠ 0) : fdJac (R t) q e = M := fdJac_affine M b q e he

/-- the θ/ξ-systems of this problem are regular for positive time steps -/
theorem det_ne (θ ξ : ℚ) (hθ : 0 ≤ θ) (hξ : 0 ≤ ξ) (dtv : Vec ℚ 2) (hdtv : ∀ i, 0 < dtv i) :
    sysMat θ ξ M dtv 0 0 * sysMat θ ξ M dtv 1 1 - sysMat θ ξ M dtv 0 1 * sysMat θ ξ M dtv 1 0 ≠ 0 := by
  have ha : 0 < (1 + ξ) * (1 / dtv 0) := mul_pos (by linarith) (one_div_pos.mpr (hdtv 0))
  have hb : 0 < (1 + ξ) * (1 / dtv 1) := mul_pos (by linarith) (one_div_pos.mpr (hdtv 1))
  simp only [sysMat, M]
  simp only [if_true, Fin.isValue, zero_ne_one, one_ne_zero, if_false]
  apply ne_of_gt
  nlinarith [mul_pos ha hb, mul_nonneg hθ ha.le, mul_nonneg hθ hb.le]

theorem solves (t θ ξ : ℚ) (hθ : 0 ≤ θ) (hξ : 0 ≤ ξ) (q dtv : Vec ℚ 2) (hdtv : ∀ i, 0 < dtv i) (rhs : Vec ℚ 2) :
    (sysMat θ ξ (fdJac (R t) q (eps q)) dtv).mulVec (cramer2 (sysMat θ ξ (fdJac (R t) q (eps q)) dtv) rhs) = rhs := by
  rw [jac t q _ (eps_ne q)]
  exact cramer2_solves _ _ (det_ne θ ξ hθ hξ dtv hdtv)

theorem inj (t θ ξ : ℚ) (hθ : 0 ≤ θ) (hξ : 0 ≤ ξ) (q dtv : Vec ℚ 2) (hdtv : ∀ i, 0 < dtv i) (x : Vec ℚ 2)
    (h : (sysMat θ ξ (fdJac (R t) q (eps q)) dtv).mulVec x = 0) : x = 0 := by
  rw [jac t q _ (eps_ne q)] at h
  exact cramer2_inj _ (det_ne θ ξ hθ hξ dtv hdtv) x h

/-- a driver set-up with a data-dependent, non-uniform time-step array; `loc` is the directive `dtlocal` -/
def par (loc : Bool) : DrvPar ℚ (Vec ℚ 2) (Vec ℚ 2) :=
  { calcDt := fun _ q i => if i = 0 then (if (1/3 : ℚ) ≤ q 0 then 1 else 1/2) else 2,
    minDt := fun d => min (d 0) (d 1), scalar := fun a _ => a, dtlocal := loc,
    tottime := some 3, maxit := some 10, tsave := [1/3, 3], itstart := 0, monitors := [] }

theorem calcDt_pos (loc : Bool) (t : ℚ) (q : Vec ℚ 2) (i : Fin 2) : 0 < (par loc).calcDt t q i := by
  simp only [par]; split_ifs <;> norm_num

theorem stepDt_pos (loc : Bool) (t : ℚ) (q : Vec ℚ 2) (i : Fin 2) : 0 < (par loc).stepDt t q i := by
  unfold DrvPar.stepDt
  split_ifs
  · exact calcDt_pos loc t q i
  · exact lt_min (calcDt_pos loc t q 0) (calcDt_pos loc t q 1)

theorem minDt_pos (loc : Bool) (t : ℚ) (q : Vec ℚ 2) : 0 < (par loc).minDt ((par loc).calcDt t q) :=
  lt_min (calcDt_pos loc t q 0) (calcDt_pos loc t q 1)

/-- `gearStep_conserves`, `gearStep_inv`: BDF2 step with a memory of zero sum -/
example (q : Vec ℚ 2) (t : ℚ) :
    (let o := gearStep cramer2 (R t) (eps q) (fun _ => 1/2) (1/2) t (some (fun i => if i = 0 then 3 else -3)) q
     ∑ i, w i * o.data i = ∑ i, w i * q i ∧ ∑ i, w i * o.incr i = 0) :=
  gearStep_conserves cramer2 w (R t) (hR t) q (eps q) (1/2) (1/2) t _
    (fun l hl => by cases hl; simp [w, Fin.sum_univ_two])
    (gearSolved_of_forall _ _ _ _ _ _
      (solves t 1 (1/2) (by norm_num) (by norm_num) q _ (fun _ => by norm_num)))

/-- `gearStep_drift`: with a memory of sum 1 the sum moves by `dt/3` -/
example (q : Vec ℚ 2) (t : ℚ) :
    (let o := gearStep cramer2 (R t) (eps q) (fun _ => 1/2) (1/2) t (some qs) q
     ∑ i, w i * o.data i = ∑ i, w i * q i + 1/6) := by
  have h := gearStep_drift cramer2 w (R t) (hR t) q (eps q) qs (1/2) (1/2) t
    (gearSolved_of_forall _ _ _ _ _ _
      (solves t 1 (1/2) (by norm_num) (by norm_num) q _ (fun _ => by norm_num)))
  have hw : ∑ i, w i * qs i = 1 := by simp [w, qs]
  simp only [hw] at h
  intro o
  rw [h]; norm_num

/-- `thetaStep_local_weighted`: local time steps `(1, 1/3)` -/
example (q : Vec ℚ 2) (t : ℚ) :
    (let dtv : Vec ℚ 2 := fun i => if i = 0 then 1 else 1/3
     let o := thetaStep cramer2 1 0 (fdJac (R t) q (eps q)) (R t) dtv (1/3) (fun _ => 0) t q
     ∑ i, w i * ((o.data i - q i) / dtv i) = 0) := by
  intro dtv
  have hd : ∀ i, 0 < dtv i := by intro i; simp only [dtv]; split_ifs <;> norm_num
  exact thetaStep_local_weighted cramer2 1 w (R t) (hR t) q (eps q) dtv (1/3) t (fun i => (hd i).ne')
    (solves t 1 0 (by norm_num) le_rfl q dtv hd _)

/-- `gearStep_fixed`: both branches, local time steps -/
example (t : ℚ) (last : Option (Vec ℚ 2)) (hl : ∀ l, last = some l → l = 0) :
    (gearStep cramer2 (R t) (eps qs) (fun i => if i = 0 then 1 else 1/3) (1/3) t last qs).data = qs
    ∧ (gearStep cramer2 (R t) (eps qs) (fun i => if i = 0 then 1 else 1/3) (1/3) t last qs).incr = 0 := by
  have hd : ∀ i : Fin 2, (0 : ℚ) < (fun i : Fin 2 => if i = 0 then (1 : ℚ) else 1/3) i := by
    intro i; dsimp only; split_ifs <;> norm_num
  refine gearStep_fixed cramer2 (R t) qs (eps qs) _ (1/3) t last (R_qs t) hl ?_ ?_
  · cases last with
    | none => exact inj t (1/2) 0 (by norm_num) le_rfl qs _ hd
    | some l => exact inj t 1 (1/2) (by norm_num) (by norm_num) qs _ hd
  · cases last with
    | none => exact solves t (1/2) 0 (by norm_num) le_rfl qs _ hd
    | some l => exact solves t 1 (1/2) (by norm_num) (by norm_num) qs _ hd

/-- `solve_implicit_conserves` (Crank–Nicolson, global time step) -/
example (fuel : ℕ) (t0 : ℚ) (q0 : Vec ℚ 2) :
    ∑ i, w i * ((thetaCfg cramer2 (1/2) R eps id (par false)).run fuel () t0 q0).1.data i = ∑ i, w i * q0 i :=
  solve_implicit_conserves cramer2 (1/2) R eps id (par false) w rfl (fun _ => rfl) hR fuel t0 q0
    (fun x _ => solves x.2.1 (1/2) 0 (by norm_num) le_rfl x.2.2 _ (fun _ => minDt_pos false _ _) _)

/-- `solve_implicit_fixed` (backward Euler, LOCAL time steps) -/
example (fuel : ℕ) (t0 : ℚ) :
    ((implicitCfg cramer2 R eps id (par true)).run fuel () t0 qs).1.data = qs :=
  solve_implicit_fixed cramer2 1 R eps id (par true) qs R_qs fuel t0
    (fun x _ => solve_zero_of_inj _ _ (inj x.2.1 1 0 (by norm_num) le_rfl qs _ (stepDt_pos true _ _))
      (solves x.2.1 1 0 (by norm_num) le_rfl qs _ (stepDt_pos true _ _) 0))

/-- `solve_gear_conserves` (`solve`: no memory at the start) -/
example (fuel : ℕ) (t0 : ℚ) (q0 : Vec ℚ 2) :
    ∑ i, w i * ((gearCfg cramer2 R eps id (par false)).run fuel none t0 q0).1.data i = ∑ i, w i * q0 i :=
  (solve_gear_conserves cramer2 R eps id (par false) w rfl (fun _ => rfl) hR fuel none t0 q0
    (fun _ h => by cases h)
    (fun x _ => gearSolved_of_forall _ _ _ _ _ _ (by
      rcases x with ⟨s, t, q⟩
      cases s with
      | none => exact solves t (1/2) 0 (by norm_num) le_rfl q _ (fun _ => minDt_pos false _ _)
      | some l => exact solves t 1 (1/2) (by norm_num) (by norm_num) q _ (fun _ => minDt_pos false _ _)))).1

/-- `solve_gear_fixed` (local time steps) -/
example (fuel : ℕ) (t0 : ℚ) :
    ((gearCfg cramer2 R eps id (par true)).run fuel none t0 qs).1.data = qs :=
  (solve_gear_fixed cramer2 R eps id (par true) qs R_qs fuel none t0 (fun _ h => by cases h)
    (fun x _ => by
      rcases x with ⟨s, t, q⟩
      cases s with
      | none => exact solve_zero_of_inj _ _ (inj t (1/2) 0 (by norm_num) le_rfl qs _ (stepDt_pos true _ _))
                  (solves t (1/2) 0 (by norm_num) le_rfl qs _ (stepDt_pos true _ _) 0)
      | some l => exact solve_zero_of_inj _ _
                    (inj t 1 (1/2) (by norm_num) (by norm_num) qs _ (stepDt_pos true _ _))
                    (solves t 1 (1/2) (by norm_num) (by norm_num) qs _ (stepDt_pos true _ _) 0))).1

/-- `solve_implicit_conserves_snaps` / `solve_gear_conserves_snaps`: every returned field -/
example (fuel : ℕ) (t0 : ℚ) (q0 : Vec ℚ 2) :
    ∀ r ∈ ((thetaCfg cramer2 1 R eps id (par false)).run fuel () t0 q0).1.results,
      ∑ i, w i * r.data i = ∑ i, w i * q0 i :=
  solve_implicit_conserves_snaps cramer2 1 R eps id (par false) w rfl (fun _ => rfl) hR fuel t0 q0
    (fun x _ => solves x.2.1 1 0 (by norm_num) le_rfl x.2.2 _ (fun _ => minDt_pos false _ _) _)
    (fun x _ d hd _ => solves x.2.1 1 0 (by norm_num) le_rfl x.2.2 _ (fun _ => hd) _)

example (fuel : ℕ) (t0 : ℚ) (q0 : Vec ℚ 2) :
    ∀ r ∈ ((gearCfg cramer2 R eps id (par false)).run fuel none t0 q0).1.results,
      ∑ i, w i * r.data i = ∑ i, w i * q0 i :=
  solve_gear_conserves_snaps cramer2 R eps id (par false) w rfl (fun _ => rfl) hR fuel none t0 q0
    (fun _ h => by cases h)
    (fun x _ => gearSolved_of_forall _ _ _ _ _ _ (by
      rcases x with ⟨s, t, q⟩
      cases s with
      | none => exact solves t (1/2) 0 (by norm_num) le_rfl q _ (fun _ => minDt_pos false _ _)
      | some l => exact solves t 1 (1/2) (by norm_num) (by norm_num) q _ (fun _ => minDt_pos false _ _)))
    (fun x _ d hd _ => gearSolved_of_forall _ _ _ _ _ _ (by
      rcases x with ⟨s, t, q⟩
      cases s with
      | none => exact solves t (1/2) 0 (by norm_num) le_rfl q _ (fun _ => hd)
      | some l => exact solves t 1 (1/2) (by norm_num) (by norm_num) q _ (fun _ => hd)))

/-- Cramer's rule answers 0 to every homogeneous system (so the weak solver hypothesis of the fixed-point
theorems holds outright; used for `solve_implicit_fixed_snaps` / `solve_gear_fixed_snaps` below, local time steps) -/
theorem cramer2_zero (A : Mat ℚ 2) : cramer2 A 0 = 0 := by
  funext i; simp [cramer2]

example (fuel : ℕ) (t0 : ℚ) :
    ∀ r ∈ ((thetaCfg cramer2 (1/2) R eps id (par true)).run fuel () t0 qs).1.results, r.data = qs :=
  solve_implicit_fixed_snaps cramer2 (1/2) R eps id (par true) qs R_qs fuel t0
    (fun _ _ => cramer2_zero _) (fun _ _ _ _ _ => cramer2_zero _)

example (fuel : ℕ) (t0 : ℚ) :
    ∀ r ∈ ((gearCfg cramer2 R eps id (par true)).run fuel none t0 qs).1.results, r.data = qs :=
  solve_gear_fixed_snaps cramer2 R eps id (par true) qs R_qs fuel none t0 (fun _ h => by cases h)
    (fun _ _ => cramer2_zero _) (fun _ _ _ _ _ => cramer2_zero _)

/-- the mirror of the two-cell problem -/
def T : Vec ℚ 2 →ₗ[ℚ] Vec ℚ 2 :=
  { toFun := fun v i => v (1 - i), map_add' := fun _ _ => rfl, map_smul' := fun _ _ => rfl }

/-- `thetaStep_equivariant_affine`: exchange problem with a mirror-symmetric source `b = (1,1)` -/
example (q last : Vec ℚ 2) (t : ℚ) :
    (let R' : Vec ℚ 2 → Vec ℚ 2 := fun v => M.mulVec v + fun _ => 1
     let o := thetaStep cramer2 (1/2) 0 (fdJac R' q (eps q)) R' (fun _ => 1/2) (1/2) last t q
     let o' := thetaStep cramer2 (1/2) 0 (fdJac R' (T q) (eps (T q))) R' (fun _ => 1/2) (1/2) (T last) t (T q)
     o'.time = o.time ∧ o'.data = T o.data ∧ o'.incr = T o.incr) :=
  thetaStep_equivariant_affine cramer2 (1/2) 0 M (fun _ => 1) T q last _ _ _ _ (1/2) t (eps_ne q) (eps_ne (T q))
    (fun v => by
      funext i
      fin_cases i <;> simp [T, M, Matrix.mulVec, dotProduct, Fin.sum_univ_two] <;> ring)
    (dtCompat_scalar T (1/2))
    (cramer2_inj _ (det_ne (1/2) 0 (by norm_num) le_rfl _ (fun _ => by norm_num)))
    (fun rhs => cramer2_solves _ _ (det_ne (1/2) 0 (by norm_num) le_rfl _ (fun _ => by norm_num)))
    (fun rhs => cramer2_solves _ _ (det_ne (1/2) 0 (by norm_num) le_rfl _ (fun _ => by norm_num)))

/-- the same with LOCAL time steps `(1, 1/2)`, mirrored to `(1/2, 1)` (`dtCompat_reindex`) -/
example (q last : Vec ℚ 2) (t : ℚ) :
    (let R' : Vec ℚ 2 → Vec ℚ 2 := fun v => M.mulVec v + fun _ => 1
     let dtv : Vec ℚ 2 := fun i => if i = 0 then 1 else 1/2
     let o := thetaStep cramer2 1 (1/2) (fdJac R' q (eps q)) R' dtv (1/2) last t q
     let o' := thetaStep cramer2 1 (1/2) (fdJac R' (T q) (eps (T q))) R' (fun i => dtv (1 - i)) (1/2) (T last) t (T q)
     o'.time = o.time ∧ o'.data = T o.data ∧ o'.incr = T o.incr) := by
  intro R' dtv
  have hd : ∀ i, 0 < dtv i := by intro i; simp only [dtv]; split_ifs <;> norm_num
  exact thetaStep_equivariant_affine cramer2 1 (1/2) M (fun _ => 1) T q last _ _ dtv _ (1/2) t (eps_ne q)
    (eps_ne (T q))
    (fun v => by
      funext i
      fin_cases i <;> simp [T, M, Matrix.mulVec, dotProduct, Fin.sum_univ_two] <;> ring)
    (dtCompat_reindex T (fun i => 1 - i) (fun _ => 1) (fun x i => by simp [T]) dtv)
    (cramer2_inj _ (det_ne 1 (1/2) (by norm_num) (by norm_num) _ (fun i => hd (1 - i))))
    (fun rhs => cramer2_solves _ _ (det_ne 1 (1/2) (by norm_num) (by norm_num) _ hd))
    (fun rhs => cramer2_solves _ _ (det_ne 1 (1/2) (by norm_num) (by norm_num) _ (fun i => hd (1 - i))))

/-- **local time steps do not conserve**: one backward-Euler step of the exchange problem (`b = 0`) from
`(1, 0)` with `dt = (1, 1/2)` changes the sum from `1` to `4/5`. -/
example :
    (let R0 : Vec ℚ 2 → Vec ℚ 2 := fun v => M.mulVec v + 0
     let o := implicitStep cramer2 R0 (fun _ => 1) (fun i => if i = 0 then 1 else 1/2) (1/2) 0 qs
     (∀ v, ∑ i, w i * R0 v i = 0) ∧ ∑ i, w i * qs i = 1 ∧ ∑ i, w i * o.data i = 4/5) := by
  intro R0 o
  refine ⟨fun v => by simp [R0, w, M, Matrix.mulVec, dotProduct, Fin.sum_univ_two]; ring, by simp [w, qs], ?_⟩
  have hj : fdJac R0 qs (fun _ => 1) = M := fdJac_affine M 0 qs _ (fun _ => one_ne_zero)
  simp only [o, implicitStep, hj, thetaStep_out]
  simp [w, qs, M, cramer2, sysMat, thetaRhs, R0, Matrix.mulVec, dotProduct, Fin.sum_univ_two]
  norm_num

end Ex

end Flowdyn.C06
