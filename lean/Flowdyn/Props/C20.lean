/-
C20 — meshes are valid partitions with consistent connectivity.  Part a: 1D meshes.
-/
import Flowdyn.Props.C20a
