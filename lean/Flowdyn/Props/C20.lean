/-
C20 — meshes are valid partitions with consistent connectivity.  Part a: 1D meshes.  Part b: the 2D
Cartesian mesh (counts, volumes, boundary index tables under the flattening maps).
-/
import Flowdyn.Props.C20a
import Flowdyn.Props.C20b
