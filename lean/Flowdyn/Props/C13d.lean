/-
C13 (part d) — reflection and change of units for **whole solves**.

(1) `IntertwinesT τ T R R' sc sc'`: an additive, homogeneous map `T : V → V'` and a factor `τ ≠ 0` of the time unit
    with `R' (τ t) (T q) = τ⁻¹ • T (R t q)` (a time derivative in the new units) and the step scalings related by
    `sc' (τ⁻¹ • T x) = T (sc x)`.  One step of every explicit stage loop of `Model/Integrators.lean` for `R'` from
    `(τ t, T q)` with the time step `τ dtm` is the `(τ ·, T)`-image of the step for `R` from `(t, q)` with `dtm`:
    new time `τ * time`, new data `T data`, the arguments of the `rhs` calls mapped likewise
    (`rk_equivariant_time` — any Butcher table —, `ls_equivariant_time` — any coefficients, any `tc` convention —,
    `explicit_equivariant_time`, `rk2_equivariant_time`); `intertwinesT_global`: the global-step case
    `sc = (d • ·)`, `sc' = ((τ d) • ·)`; `Intertwines.toT`: `τ = 1` is C13c.
(2) `globalCfg_hom_time`, `solve_units_global`, `solve_units_rk / _ls / _explicit / _rk2`: with the driver morphism
    theorem of C07c (`ft = (τ * ·)`, `τ > 0`): if moreover the time-step rule obeys `dtOf' (τ t) (T q) = τ dtOf t q`,
    stop time and save times of the image problem are `τ ×` the original ones, `maxit`, `itstart` equal, monitors
    related by `fm i`, then the `run` of the image problem is the image of the `run` (`ScaledRun`: same flag, `nit`,
    save index, snapshot `i` at `τ × time` with the same iteration tag and data `T data`, monitor logs mapped).
(3) the model's 1D operator `Disc1D.rhs`:
    `rhs_units_all` (C13b `rhs_units` on every cell index), `UnitsPair` (its hypotheses with `f k = b s k`),
    `solve_units` (+ `solve_units_disc_ls / _explicit / _rk2`): conservative component `k` `× s k`, velocities `× b`,
    lengths `× l`, times `× l / b`; `solve_units_burgers`: all hypotheses discharged for the Burgers model with its CFL
    time-step rule (`burgersCfl_units`) and the average monitor, any mesh;
    `rhs_local` (the residual on the cells `i < n` sees the cells `i < n` only — from `rhs_mirror`),
    `MirrorLaws` (the hypotheses of `rhs_mirror`), `MirrorBlind` (time-step rule and monitors),
    `solve_mirror` (+ `_ls`, `_explicit`, `_rk2`): the solve of the mirror problem from the mirror data is, on the cells
    `i < n`, the mirror of the solve (`MirroredRun`) — technique of C14b `solve_shift`: two morphisms (the mirror, the
    continuation `clampCells`) into the problem with the continued mirror operator `clampRhs`;
    `solve_mirror_burgers`: all hypotheses discharged for the Burgers model, any mesh, any boundary kernels.
-/
import Flowdyn.Props.C07c
import Flowdyn.Props.C13b
import Flowdyn.Props.C13c
import Flowdyn.Props.C14b
import Flowdyn.Props.C12
import Flowdyn.Model.Models1D

namespace Flowdyn.C13
open Flowdyn Flowdyn.C07 Flowdyn.C14

/-! ## (1) stage loops under a change of the time unit -/
section integrators
variable {α : Type} [Field α] {V V' : Type} [AddCommGroup V] [Module α V] [AddCommGroup V'] [Module α V']

/-- `T` is additive and homogeneous, turns `R` into `R'` when the time unit is multiplied by `τ`
(`R` is a time derivative: it picks up `τ⁻¹`), and the step scalings `sc` (for `R`), `sc'` (for `R'`) match -/
structure IntertwinesT (τ : α) (T : V → V') (R : α → V → V) (R' : α → V' → V') (sc : V → V) (sc' : V' → V') :
    Prop where
  add : ∀ x y, T (x + y) = T x + T y
  smul : ∀ (c : α) x, T (c • x) = c • T x
  rhs : ∀ t q, R' (τ * t) (T q) = τ⁻¹ • T (R t q)
  scale : ∀ x, sc' (τ⁻¹ • T x) = T (sc x)

/-- image of the trace of `rhs` calls -/
def mapCalls (τ : α) (T : V → V') (l : List (α × V)) : List (α × V') := l.map fun tc => (τ * tc.1, T tc.2)

namespace IntertwinesT
variable {τ : α} {T : V → V'} {R : α → V → V} {R' : α → V' → V'} {sc : V → V} {sc' : V' → V'}

theorem map_zero (h : IntertwinesT τ T R R' sc sc') : T 0 = 0 := by
  have := h.add 0 0
  rw [add_zero] at this
  exact left_eq_add.mp this

theorem zip_sum (h : IntertwinesT τ T R R' sc sc') (cs : List α) (ps : List V) :
    ((cs.zip (ps.map fun r => τ⁻¹ • T r)).map (fun ck => ck.1 • ck.2)).sum
      = τ⁻¹ • T (((cs.zip ps).map (fun ck => ck.1 • ck.2)).sum) := by
  induction cs generalizing ps with
  | nil => simp [h.map_zero]
  | cons c cs ih =>
    cases ps with
    | nil => simp [h.map_zero]
    | cons p ps =>
      simp only [List.map_cons, List.zip_cons_cons, List.sum_cons]
      rw [ih ps, h.add, h.smul, smul_add, smul_comm c τ⁻¹]

theorem rkAggregate (h : IntertwinesT τ T R R' sc sc') (row : List α) (prhs : List V) (r : V) :
    Flowdyn.rkAggregate row (prhs.map fun r => τ⁻¹ • T r) (τ⁻¹ • T r) = τ⁻¹ • T (Flowdyn.rkAggregate row prhs r) := by
  unfold Flowdyn.rkAggregate
  rw [h.add, h.smul, h.zip_sum, smul_add, smul_comm _ τ⁻¹]

theorem rk_fold (h : IntertwinesT τ T R R' sc sc') (dtm t0 : α) (q0 : V) (tbl : List (List α))
    (st : RkState α V) (st' : RkState α V') (h1 : st'.data = T st.data) (h2 : st'.time = τ * st.time)
    (h3 : st'.prhs = st.prhs.map fun r => τ⁻¹ • T r) (h4 : st'.calls = mapCalls τ T st.calls) :
    (tbl.foldl (rkStage R' (τ * dtm) sc' (τ * t0) (T q0)) st').data = T (tbl.foldl (rkStage R dtm sc t0 q0) st).data
    ∧ (tbl.foldl (rkStage R' (τ * dtm) sc' (τ * t0) (T q0)) st').time
        = τ * (tbl.foldl (rkStage R dtm sc t0 q0) st).time
    ∧ (tbl.foldl (rkStage R' (τ * dtm) sc' (τ * t0) (T q0)) st').calls
        = mapCalls τ T (tbl.foldl (rkStage R dtm sc t0 q0) st).calls := by
  induction tbl generalizing st st' with
  | nil => exact ⟨h1, h2, h4⟩
  | cons row tbl ih =>
    rw [List.foldl_cons, List.foldl_cons]
    apply ih
    · simp only [rkStage]
      rw [h3, h2, h1, h.rhs, h.rkAggregate, h.scale, h.add]
    · simp only [rkStage]
      rw [mul_add, mul_assoc]
    · simp only [rkStage]
      rw [h3, h2, h1, h.rhs, List.map_append, List.map_singleton]
    · simp only [rkStage, mapCalls]
      rw [h4, h2, h1, mapCalls, List.map_append, List.map_singleton]

theorem ls_fold (h : IntertwinesT τ T R R' sc sc') (tc : α → α) (dtm t0 : α) (q0 : V) (bs : List α)
    (st : StepOut α V) (st' : StepOut α V') (h1 : st'.data = T st.data) (h2 : st'.time = τ * st.time)
    (h4 : st'.calls = mapCalls τ T st.calls) :
    (bs.foldl (lsStage tc R' (τ * dtm) sc' (τ * t0) (T q0)) st').data
        = T (bs.foldl (lsStage tc R dtm sc t0 q0) st).data
    ∧ (bs.foldl (lsStage tc R' (τ * dtm) sc' (τ * t0) (T q0)) st').time
        = τ * (bs.foldl (lsStage tc R dtm sc t0 q0) st).time
    ∧ (bs.foldl (lsStage tc R' (τ * dtm) sc' (τ * t0) (T q0)) st').calls
        = mapCalls τ T (bs.foldl (lsStage tc R dtm sc t0 q0) st).calls := by
  induction bs generalizing st st' with
  | nil => exact ⟨h1, h2, h4⟩
  | cons b bs ih =>
    rw [List.foldl_cons, List.foldl_cons]
    apply ih
    · simp only [lsStage]
      rw [h2, h1, h.rhs, h.scale, h.add, h.smul]
    · simp only [lsStage]
      rw [mul_add, mul_assoc, mul_assoc, mul_assoc]
    · simp only [lsStage, mapCalls]
      rw [h4, h2, h1, mapCalls, List.map_append, List.map_singleton]

end IntertwinesT

/-- `explicit.step` (forward Euler) -/
theorem explicit_equivariant_time (τ : α) (T : V → V') (R : α → V → V) (R' : α → V' → V') (sc : V → V)
    (sc' : V' → V') (h : IntertwinesT τ T R R' sc sc') (dtm t : α) (q : V) :
    (explicitStepG R' (τ * dtm) sc' (τ * t) (T q)).data = T (explicitStepG R dtm sc t q).data
    ∧ (explicitStepG R' (τ * dtm) sc' (τ * t) (T q)).time = τ * (explicitStepG R dtm sc t q).time
    ∧ (explicitStepG R' (τ * dtm) sc' (τ * t) (T q)).calls = mapCalls τ T (explicitStepG R dtm sc t q).calls := by
  refine ⟨?_, ?_, rfl⟩
  · simp only [explicitStepG]
    rw [h.rhs, h.scale, h.add]
  · simp only [explicitStepG]
    rw [mul_add, mul_assoc]

/-- `rk2.step` (midpoint): the half step is scaled by `sch`, `sch'` -/
theorem rk2_equivariant_time (τ : α) (T : V → V') (R : α → V → V) (R' : α → V' → V') (sc sch : V → V)
    (sc' sch' : V' → V') (h : IntertwinesT τ T R R' sc sc') (hh : ∀ x, sch' (τ⁻¹ • T x) = T (sch x))
    (dtm t : α) (q : V) :
    (rk2StepG R' (τ * dtm) sc' sch' (τ * t) (T q)).data = T (rk2StepG R dtm sc sch t q).data
    ∧ (rk2StepG R' (τ * dtm) sc' sch' (τ * t) (T q)).time = τ * (rk2StepG R dtm sc sch t q).time
    ∧ (rk2StepG R' (τ * dtm) sc' sch' (τ * t) (T q)).calls = mapCalls τ T (rk2StepG R dtm sc sch t q).calls := by
  have et : τ * t + τ * dtm / 2 * 1 = τ * (t + dtm / 2 * 1) := by ring
  refine ⟨?_, ?_, ?_⟩
  · simp only [rk2StepG]
    rw [et, h.rhs, hh, ← h.add, h.rhs, h.scale, ← h.add]
  · simp only [rk2StepG]
    rw [mul_add, mul_assoc]
  · simp only [rk2StepG, mapCalls, List.map_cons, List.map_nil]
    rw [et, h.rhs, hh, ← h.add]

/-- generic Butcher loop `rkmodel.step`, **any** table: the stage times `t + c_i dt` become `τ t + c_i (τ dt)` -/
theorem rk_equivariant_time (tbl : List (List α)) (τ : α) (T : V → V') (R : α → V → V) (R' : α → V' → V')
    (sc : V → V) (sc' : V' → V') (h : IntertwinesT τ T R R' sc sc') (dtm t : α) (q : V) :
    (rkStepG tbl R' (τ * dtm) sc' (τ * t) (T q)).data = T (rkStepG tbl R dtm sc t q).data
    ∧ (rkStepG tbl R' (τ * dtm) sc' (τ * t) (T q)).time = τ * (rkStepG tbl R dtm sc t q).time
    ∧ (rkStepG tbl R' (τ * dtm) sc' (τ * t) (T q)).calls = mapCalls τ T (rkStepG tbl R dtm sc t q).calls := by
  simp only [rkStepG]
  exact h.rk_fold dtm t q tbl _ _ rfl rfl rfl rfl

/-- low-storage loop `LSrkmodelHH.step`, **any** coefficient list, any sub-time convention `tc` -/
theorem ls_equivariant_time (tc : α → α) (bs : List α) (τ : α) (T : V → V') (R : α → V → V) (R' : α → V' → V')
    (sc : V → V) (sc' : V' → V') (h : IntertwinesT τ T R R' sc sc') (dtm t : α) (q : V) :
    (lsStepG tc bs R' (τ * dtm) sc' (τ * t) (T q)).data = T (lsStepG tc bs R dtm sc t q).data
    ∧ (lsStepG tc bs R' (τ * dtm) sc' (τ * t) (T q)).time = τ * (lsStepG tc bs R dtm sc t q).time
    ∧ (lsStepG tc bs R' (τ * dtm) sc' (τ * t) (T q)).calls = mapCalls τ T (lsStepG tc bs R dtm sc t q).calls := by
  simp only [lsStepG]
  exact h.ls_fold tc dtm t q bs _ _ rfl rfl rfl

/-- the global (scalar) time step `d`, which becomes `τ d`: the scalings are `d • ·` and `(τ d) • ·` -/
theorem intertwinesT_global (τ : α) (hτ : τ ≠ 0) (T : V → V') (R : α → V → V) (R' : α → V' → V')
    (hadd : ∀ x y, T (x + y) = T x + T y) (hsmul : ∀ (a : α) x, T (a • x) = a • T x)
    (hrhs : ∀ t q, R' (τ * t) (T q) = τ⁻¹ • T (R t q)) (d : α) :
    IntertwinesT τ T R R' (fun v => d • v) (fun v => (τ * d) • v) :=
  ⟨hadd, hsmul, hrhs, fun x => by
    show (τ * d) • τ⁻¹ • T x = T (d • x)
    rw [hsmul, smul_smul, mul_comm τ d, mul_assoc, mul_inv_cancel₀ hτ, mul_one]⟩

/-- the half step of `rk2` with a global time step -/
theorem half_global (τ : α) (hτ : τ ≠ 0) (T : V → V') (hsmul : ∀ (a : α) x, T (a • x) = a • T x) (d : α) (x : V) :
    (τ * d / 2) • τ⁻¹ • T x = T ((d / 2) • x) := by
  rw [hsmul, smul_smul]
  congr 1
  field_simp

/-- `τ = 1`: the hypotheses of C13c (`Intertwines`) are those of `IntertwinesT 1` … -/
theorem Intertwines.toT {T : V → V} {R R' : α → V → V} {sc sc' : V → V} (h : Intertwines T R R' sc sc') :
    IntertwinesT 1 T R R' sc sc' :=
  ⟨h.add, h.smul, fun t q => by rw [one_mul, inv_one, one_smul]; exact h.rhs t q,
    fun x => by rw [inv_one, one_smul]; exact h.scale x⟩

/-- … and the conclusion of `rk_equivariant_time` is that of C13c `rk_equivariant` -/
example (tbl : List (List α)) (T : V → V) (R R' : α → V → V) (sc sc' : V → V) (h : Intertwines T R R' sc sc')
    (dtm t : α) (q : V) :
    (rkStepG tbl R' dtm sc' t (T q)).data = T (rkStepG tbl R dtm sc t q).data
    ∧ (rkStepG tbl R' dtm sc' t (T q)).time = (rkStepG tbl R dtm sc t q).time
    ∧ (rkStepG tbl R' dtm sc' t (T q)).calls = (rkStepG tbl R dtm sc t q).calls.map (fun tc => (tc.1, T tc.2)) := by
  simpa [mapCalls] using rk_equivariant_time tbl 1 T R R' sc sc' h.toT dtm t q

/-- non-vacuity: a **time-dependent** operator `q' = -t q` on `ℚ`; time unit `× 3`, values `× 2`; in the new units the
operator is `q' = -(t / 9) q` -/
theorem decayT_intertwines (d : ℚ) :
    IntertwinesT (3 : ℚ) (fun q : ℚ => 2 * q) (fun t q => -(t * q)) (fun t q => -(t / 9 * q))
      (fun v => d • v) (fun v => (3 * d) • v) :=
  intertwinesT_global 3 (by norm_num) _ _ _ (fun x y => by ring) (fun a x => by simp only [smul_eq_mul]; ring)
    (fun t q => by simp only [smul_eq_mul]; ring) d

/-- Heun's method, the low-storage loop, forward Euler and the midpoint rule on this example: the stage times matter
(the operator depends on `t`) and are mapped correctly -/
example (d t q : ℚ) :
    (rkStepG [[1], [1/2, 1/2]] (fun t q => -(t / 9 * q)) (3 * d) (fun v => (3 * d) • v) (3 * t) (2 * q)).data
        = 2 * (rkStepG [[1], [1/2, 1/2]] (fun t q => -(t * q)) d (fun v => d • v) t q).data
    ∧ (lsStepG (fun _ => 1) [1/3, 1/2, 1] (fun t q => -(t / 9 * q)) (3 * d) (fun v => (3 * d) • v) (3 * t) (2 * q)).data
        = 2 * (lsStepG (fun _ => 1) [1/3, 1/2, 1] (fun t q => -(t * q)) d (fun v => d • v) t q).data
    ∧ (explicitStepG (fun t q => -(t / 9 * q)) (3 * d) (fun v => (3 * d) • v) (3 * t) (2 * q)).time
        = 3 * (explicitStepG (fun t q => -(t * q)) d (fun v => d • v) t q).time
    ∧ (rk2StepG (fun t q => -(t / 9 * q)) (3 * d) (fun v => (3 * d) • v) (fun v => (3 * d / 2) • v) (3 * t) (2 * q)).data
        = 2 * (rk2StepG (fun t q => -(t * q)) d (fun v => d • v) (fun v => (d / 2) • v) t q).data :=
  ⟨(rk_equivariant_time _ 3 _ _ _ _ _ (decayT_intertwines d) d t q).1,
   (ls_equivariant_time _ _ 3 _ _ _ _ _ (decayT_intertwines d) d t q).1,
   (explicit_equivariant_time 3 _ _ _ _ _ (decayT_intertwines d) d t q).2.1,
   (rk2_equivariant_time 3 _ _ _ _ _ _ _ (decayT_intertwines d)
      (fun x => half_global 3 (by norm_num) (fun q : ℚ => 2 * q) (fun a x => by simp only [smul_eq_mul]; ring) d x)
      d t q).1⟩

/-- the step is not trivial: Heun from `(t, q) = (1, 1)` with `d = 1/2` gives `q = 9/16` -/
example : (rkStepG [[1], [1/2, 1/2]] (fun t q : ℚ => -(t * q)) (1/2) (fun v => (1/2 : ℚ) • v) 1 1).data = 9/16 := by
  decide +kernel

end integrators

/-! ## (2) whole solves under a change of units -/
section solves
variable {α : Type} [Field α] [LinearOrder α] [IsStrictOrderedRing α]

/-- a data map `T` with which the stage loop commutes when time and time step are multiplied by `τ > 0`, a time-step
rule that is multiplied by `τ`, monitors that see `T` through `fm`, stop and save times multiplied by `τ`:
a morphism of driver configurations with `ft = fD = (τ * ·)` -/
theorem globalCfg_hom_time {V V' : Type} (τ : α) (hτ : 0 < τ) (T : V → V') (stepf : α → α → V → StepOut α V)
    (stepf' : α → α → V' → StepOut α V')
    (hstep : ∀ d t q, (stepf' (τ * d) (τ * t) (T q)).data = T (stepf d t q).data
      ∧ (stepf' (τ * d) (τ * t) (T q)).time = τ * (stepf d t q).time)
    (dtOf : α → V → α) (dtOf' : α → V' → α) (hdt : ∀ t q, dtOf' (τ * t) (T q) = τ * dtOf t q)
    (mons : List (ℕ × (α → V → α))) (mons' : List (ℕ × (α → V' → α))) (fm : ℕ → α → α)
    (hml : mons'.length = mons.length)
    (hmon : ∀ (i : ℕ) (m : ℕ × (α → V → α)) (m' : ℕ × (α → V' → α)), mons[i]? = some m → mons'[i]? = some m' →
      m'.1 = m.1 ∧ ∀ t q, m'.2 (τ * t) (T q) = fm i (m.2 t q))
    (tottime : Option α) (maxit : Option ℕ) (tsave : List α) (itstart : ℕ) :
    CfgHom (globalCfg stepf dtOf tottime maxit tsave itstart mons)
      (globalCfg stepf' dtOf' (tottime.map (τ * ·)) maxit (tsave.map (τ * ·)) itstart mons')
      id (τ * ·) T (τ * ·) fm where
  time := timeMap_mul τ hτ
  step := fun s d t q => by
    simp only [globalCfg, id, (hstep d t q).1, (hstep d t q).2]
  keep := fun _ _ => rfl
  calcDt := fun t q => hdt t q
  minDt := fun _ => rfl
  scalar := fun _ => rfl
  dtlocal := rfl
  tottime := rfl
  maxit := rfl
  tsave := rfl
  itstart := rfl
  monitors_length := hml
  monitors := hmon

/-- what the caller of `solve` sees of two runs `r` (original units), `r'` (new units): same termination flag, same
iteration count and save index, final time `× τ`, final data `T`; as many snapshots, snapshot `k` with the same
iteration tag, time `× τ`, data `T`; monitor `i` logged at the same iterations, times `× τ`, values `fm i`;
the trajectory of full steps likewise -/
def ScaledRun {V V' : Type} (τ : α) (T : V → V') (fm : ℕ → α → α) (r : DrvState Unit α V × Bool)
    (r' : DrvState Unit α V' × Bool) : Prop :=
  r'.2 = r.2 ∧ r'.1.nit = r.1.nit ∧ r'.1.isave = r.1.isave ∧ r'.1.time = τ * r.1.time ∧ r'.1.data = T r.1.data
  ∧ r'.1.results.length = r.1.results.length
  ∧ (∀ k (hk : k < r.1.results.length) (hk' : k < r'.1.results.length),
      (r'.1.results[k]).it = (r.1.results[k]).it ∧ (r'.1.results[k]).time = τ * (r.1.results[k]).time
      ∧ (r'.1.results[k]).data = T (r.1.results[k]).data)
  ∧ (∀ i, r'.1.monlog[i]? = (r.1.monlog[i]?).map (List.map fun e => (e.1, τ * e.2.1, fm i e.2.2)))
  ∧ r'.1.traj = r.1.traj.map fun x => (τ * x.1, T x.2)

omit [LinearOrder α] [IsStrictOrderedRing α] in
theorem scaledRun_of_map {V V' : Type} (τ : α) (T : V → V') (fm : ℕ → α → α) (r : DrvState Unit α V × Bool)
    (r' : DrvState Unit α V' × Bool) (E : r' = (DrvState.map id (τ * ·) T fm r.1, r.2)) : ScaledRun τ T fm r r' := by
  obtain ⟨a1, a2, a3, a4, -⟩ := final_of_map E
  obtain ⟨-, b2, b3⟩ := results_of_map E
  refine ⟨a1, a2, ?_, a3, a4, b2, b3, fun i => monitors_of_map E i, traj_of_map E⟩
  rw [E]; rfl

/-- **whole solves under a change of units** (any stage loop, global time step) -/
theorem solve_units_global {V V' : Type} (τ : α) (hτ : 0 < τ) (T : V → V') (stepf : α → α → V → StepOut α V)
    (stepf' : α → α → V' → StepOut α V')
    (hstep : ∀ d t q, (stepf' (τ * d) (τ * t) (T q)).data = T (stepf d t q).data
      ∧ (stepf' (τ * d) (τ * t) (T q)).time = τ * (stepf d t q).time)
    (dtOf : α → V → α) (dtOf' : α → V' → α) (hdt : ∀ t q, dtOf' (τ * t) (T q) = τ * dtOf t q)
    (mons : List (ℕ × (α → V → α))) (mons' : List (ℕ × (α → V' → α))) (fm : ℕ → α → α)
    (hml : mons'.length = mons.length)
    (hmon : ∀ (i : ℕ) (m : ℕ × (α → V → α)) (m' : ℕ × (α → V' → α)), mons[i]? = some m → mons'[i]? = some m' →
      m'.1 = m.1 ∧ ∀ t q, m'.2 (τ * t) (T q) = fm i (m.2 t q))
    (tottime : Option α) (maxit : Option ℕ) (tsave : List α) (itstart : ℕ) (fuel : ℕ) (t0 : α) (q0 : V) :
    (globalCfg stepf' dtOf' (tottime.map (τ * ·)) maxit (tsave.map (τ * ·)) itstart mons').run fuel () (τ * t0) (T q0)
      = (DrvState.map id (τ * ·) T fm ((globalCfg stepf dtOf tottime maxit tsave itstart mons).run fuel () t0 q0).1,
         ((globalCfg stepf dtOf tottime maxit tsave itstart mons).run fuel () t0 q0).2) :=
  run_equivariant (globalCfg_hom_time τ hτ T stepf stepf' hstep dtOf dtOf' hdt mons mons' fm hml hmon tottime maxit
    tsave itstart) fuel () t0 q0

variable {V V' : Type} [AddCommGroup V] [Module α V] [AddCommGroup V'] [Module α V']

/-- the hypotheses on the pair of problems shared by the four integrators: `T` additive and homogeneous, the space
operators related by `R' (τ t) (T q) = τ⁻¹ • T (R t q)`, the time-step rules by `dtOf' (τ t) (T q) = τ dtOf t q`,
monitor `i` of the image problem has the same frequency and sees `fm i` of the value -/
structure UnitsHom (τ : α) (T : V → V') (R : α → V → V) (R' : α → V' → V') (dtOf : α → V → α) (dtOf' : α → V' → α)
    (mons : List (ℕ × (α → V → α))) (mons' : List (ℕ × (α → V' → α))) (fm : ℕ → α → α) : Prop where
  pos : 0 < τ
  add : ∀ x y, T (x + y) = T x + T y
  smul : ∀ (a : α) x, T (a • x) = a • T x
  rhs : ∀ t q, R' (τ * t) (T q) = τ⁻¹ • T (R t q)
  dt : ∀ t q, dtOf' (τ * t) (T q) = τ * dtOf t q
  mon_length : mons'.length = mons.length
  mon : ∀ (i : ℕ) (m : ℕ × (α → V → α)) (m' : ℕ × (α → V' → α)), mons[i]? = some m → mons'[i]? = some m' →
      m'.1 = m.1 ∧ ∀ t q, m'.2 (τ * t) (T q) = fm i (m.2 t q)

variable {τ : α} {T : V → V'} {R : α → V → V} {R' : α → V' → V'} {dtOf : α → V → α} {dtOf' : α → V' → α}
  {mons : List (ℕ × (α → V → α))} {mons' : List (ℕ × (α → V' → α))} {fm : ℕ → α → α}

/-- **generic Butcher loop, any table**: the solve of the problem in the new units (stop and save times `× τ`, same
`maxit`, `itstart`) from `(τ t0, T q0)` is the image of the solve -/
theorem solve_units_rk (tbl : List (List α)) (h : UnitsHom τ T R R' dtOf dtOf' mons mons' fm)
    (tottime : Option α) (maxit : Option ℕ) (tsave : List α) (itstart : ℕ) (fuel : ℕ) (t0 : α) (q0 : V) :
    (rkCfg tbl R' dtOf' (tottime.map (τ * ·)) maxit (tsave.map (τ * ·)) itstart mons').run fuel () (τ * t0) (T q0)
      = (DrvState.map id (τ * ·) T fm ((rkCfg tbl R dtOf tottime maxit tsave itstart mons).run fuel () t0 q0).1,
         ((rkCfg tbl R dtOf tottime maxit tsave itstart mons).run fuel () t0 q0).2) :=
  solve_units_global τ h.pos T _ _
    (fun d t q =>
      have e := rk_equivariant_time tbl τ T R R' _ _
        (intertwinesT_global τ h.pos.ne' T R R' h.add h.smul h.rhs d) d t q
      ⟨e.1, e.2.1⟩)
    dtOf dtOf' h.dt mons mons' fm h.mon_length h.mon tottime maxit tsave itstart fuel t0 q0

/-- low-storage loop, any coefficients, any sub-time convention -/
theorem solve_units_ls (tc : α → α) (bs : List α) (h : UnitsHom τ T R R' dtOf dtOf' mons mons' fm)
    (tottime : Option α) (maxit : Option ℕ) (tsave : List α) (itstart : ℕ) (fuel : ℕ) (t0 : α) (q0 : V) :
    (lsCfg tc bs R' dtOf' (tottime.map (τ * ·)) maxit (tsave.map (τ * ·)) itstart mons').run fuel () (τ * t0) (T q0)
      = (DrvState.map id (τ * ·) T fm ((lsCfg tc bs R dtOf tottime maxit tsave itstart mons).run fuel () t0 q0).1,
         ((lsCfg tc bs R dtOf tottime maxit tsave itstart mons).run fuel () t0 q0).2) :=
  solve_units_global τ h.pos T _ _
    (fun d t q =>
      have e := ls_equivariant_time tc bs τ T R R' _ _
        (intertwinesT_global τ h.pos.ne' T R R' h.add h.smul h.rhs d) d t q
      ⟨e.1, e.2.1⟩)
    dtOf dtOf' h.dt mons mons' fm h.mon_length h.mon tottime maxit tsave itstart fuel t0 q0

/-- forward Euler -/
theorem solve_units_explicit (h : UnitsHom τ T R R' dtOf dtOf' mons mons' fm)
    (tottime : Option α) (maxit : Option ℕ) (tsave : List α) (itstart : ℕ) (fuel : ℕ) (t0 : α) (q0 : V) :
    (explicitCfg R' dtOf' (tottime.map (τ * ·)) maxit (tsave.map (τ * ·)) itstart mons').run fuel () (τ * t0) (T q0)
      = (DrvState.map id (τ * ·) T fm ((explicitCfg R dtOf tottime maxit tsave itstart mons).run fuel () t0 q0).1,
         ((explicitCfg R dtOf tottime maxit tsave itstart mons).run fuel () t0 q0).2) :=
  solve_units_global τ h.pos T _ _
    (fun d t q =>
      have e := explicit_equivariant_time τ T R R' _ _
        (intertwinesT_global τ h.pos.ne' T R R' h.add h.smul h.rhs d) d t q
      ⟨e.1, e.2.1⟩)
    dtOf dtOf' h.dt mons mons' fm h.mon_length h.mon tottime maxit tsave itstart fuel t0 q0

/-- midpoint `rk2` -/
theorem solve_units_rk2 (h : UnitsHom τ T R R' dtOf dtOf' mons mons' fm)
    (tottime : Option α) (maxit : Option ℕ) (tsave : List α) (itstart : ℕ) (fuel : ℕ) (t0 : α) (q0 : V) :
    (rk2Cfg R' dtOf' (tottime.map (τ * ·)) maxit (tsave.map (τ * ·)) itstart mons').run fuel () (τ * t0) (T q0)
      = (DrvState.map id (τ * ·) T fm ((rk2Cfg R dtOf tottime maxit tsave itstart mons).run fuel () t0 q0).1,
         ((rk2Cfg R dtOf tottime maxit tsave itstart mons).run fuel () t0 q0).2) :=
  solve_units_global τ h.pos T _ _
    (fun d t q =>
      have e := rk2_equivariant_time τ T R R' _ _ _ _
        (intertwinesT_global τ h.pos.ne' T R R' h.add h.smul h.rhs d)
        (fun x => half_global τ h.pos.ne' T h.smul d x) d t q
      ⟨e.1, e.2.1⟩)
    dtOf dtOf' h.dt mons mons' fm h.mon_length h.mon tottime maxit tsave itstart fuel t0 q0

/-! ### non-vacuity: `q' = -t q` on `ℚ`, time `× 3`, values `× 2`, a state- and time-dependent time-step rule -/

/-- original units: `dt = 1/10 + t/8 + q/10`, monitors `q` (every iteration) and `t` (every second iteration);
new units: operator `-(t/9) q`, `dt = 3/10 + t/8 + 3 q/20` -/
theorem decayT_unitsHom :
    UnitsHom (3 : ℚ) (fun q : ℚ => 2 * q) (fun t q => -(t * q)) (fun t q => -(t / 9 * q))
      (fun t q => 1/10 + t/8 + q/10) (fun t q => 3/10 + t/8 + 3 * q/20)
      [(1, fun _ q => q), (2, fun t _ => t)] [(1, fun _ q => q), (2, fun t _ => t)]
      (fun i v => if i = 0 then 2 * v else 3 * v) where
  pos := by norm_num
  add := fun x y => by ring
  smul := fun a x => by simp only [smul_eq_mul]; ring
  rhs := fun t q => by simp only [smul_eq_mul]; ring
  dt := fun t q => by ring
  mon_length := rfl
  mon := fun i m m' hm hm' => by
    rcases i with _ | _ | i
    · simp only [List.getElem?_cons_zero, Option.some.injEq] at hm hm'
      subst hm; subst hm'; exact ⟨rfl, fun _ _ => by simp⟩
    · simp only [List.getElem?_cons_succ, List.getElem?_cons_zero, Option.some.injEq] at hm hm'
      subst hm; subst hm'; exact ⟨rfl, fun _ _ => by simp⟩
    · simp at hm

/-- Heun's method, stop at `t = 1`, save times `1/2` and `1`, original units -/
def heunT : DrvCfg Unit ℚ ℚ ℚ :=
  rkCfg [[1], [1/2, 1/2]] (fun t q : ℚ => -(t * q)) (fun t q => 1/10 + t/8 + q/10) (some 1) none [1/2, 1] 0
    [(1, fun _ q => q), (2, fun t _ => t)]
/-- the same problem in the new units: stop at `t = 3`, save times `3/2` and `3` -/
def heunT' : DrvCfg Unit ℚ ℚ ℚ :=
  rkCfg [[1], [1/2, 1/2]] (fun t q : ℚ => -(t / 9 * q)) (fun t q => 3/10 + t/8 + 3 * q/20) (some 3) none [3/2, 3] 0
    [(1, fun _ q => q), (2, fun t _ => t)]

/-- the original solve stops after 5 iterations and returns 2 snapshots, at `t = 1/2` (tag 2) and `t = 1` (tag 4) … -/
example : (heunT.run 20 () 0 1).2 = true ∧ (heunT.run 20 () 0 1).1.nit = 5
    ∧ ((heunT.run 20 () 0 1).1.results.map fun s => (s.time, s.it)) = [(1/2, 2), (1, 4)] := by
  decide +kernel

/-- … and the solve in the new units from `(3·0, 2·1)` is its image: 5 iterations, 2 snapshots at the times `3/2`, `3`
with the same tags and twice the data, monitor logs scaled by 2 resp. 3 -/
theorem heunT_scaled : ScaledRun (3 : ℚ) (fun q : ℚ => 2 * q) (fun i v => if i = 0 then 2 * v else 3 * v)
    (heunT.run 20 () 0 1) (heunT'.run 20 () 0 2) := by
  have h := solve_units_rk [[1], [1/2, 1/2]] decayT_unitsHom (some 1) none [1/2, 1] 0 20 0 1
  norm_num at h
  exact scaledRun_of_map _ _ _ _ _ h

example : (heunT'.run 20 () 0 2).1.nit = 5
    ∧ ((heunT'.run 20 () 0 2).1.results.map fun s => (s.time, s.it)) = [(3/2, 2), (3, 4)] := by
  decide +kernel

/-- the same with the low-storage loop, forward Euler and the midpoint rule (any fuel, any start) -/
example (fuel : ℕ) (t0 q0 : ℚ) :
    ScaledRun (3 : ℚ) (fun q : ℚ => 2 * q) (fun i v => if i = 0 then 2 * v else 3 * v)
      ((lsCfg (fun _ => 1) [1/3, 1/2, 1] (fun t q : ℚ => -(t * q)) (fun t q => 1/10 + t/8 + q/10) (some 1) none
        [1/2, 1] 0 [(1, fun _ q => q), (2, fun t _ => t)]).run fuel () t0 q0)
      ((lsCfg (fun _ => 1) [1/3, 1/2, 1] (fun t q : ℚ => -(t / 9 * q)) (fun t q => 3/10 + t/8 + 3 * q/20)
        ((some 1).map (3 * ·)) none ([1/2, 1].map (3 * ·)) 0 [(1, fun _ q => q), (2, fun t _ => t)]).run fuel ()
        (3 * t0) (2 * q0))
    ∧ ScaledRun (3 : ℚ) (fun q : ℚ => 2 * q) (fun i v => if i = 0 then 2 * v else 3 * v)
      ((explicitCfg (fun t q : ℚ => -(t * q)) (fun t q => 1/10 + t/8 + q/10) (some 1) none
        [1/2, 1] 0 [(1, fun _ q => q), (2, fun t _ => t)]).run fuel () t0 q0)
      ((explicitCfg (fun t q : ℚ => -(t / 9 * q)) (fun t q => 3/10 + t/8 + 3 * q/20)
        ((some 1).map (3 * ·)) none ([1/2, 1].map (3 * ·)) 0 [(1, fun _ q => q), (2, fun t _ => t)]).run fuel ()
        (3 * t0) (2 * q0))
    ∧ ScaledRun (3 : ℚ) (fun q : ℚ => 2 * q) (fun i v => if i = 0 then 2 * v else 3 * v)
      ((rk2Cfg (fun t q : ℚ => -(t * q)) (fun t q => 1/10 + t/8 + q/10) (some 1) none
        [1/2, 1] 0 [(1, fun _ q => q), (2, fun t _ => t)]).run fuel () t0 q0)
      ((rk2Cfg (fun t q : ℚ => -(t / 9 * q)) (fun t q => 3/10 + t/8 + 3 * q/20)
        ((some 1).map (3 * ·)) none ([1/2, 1].map (3 * ·)) 0 [(1, fun _ q => q), (2, fun t _ => t)]).run fuel ()
        (3 * t0) (2 * q0)) :=
  ⟨scaledRun_of_map _ _ _ _ _ (solve_units_ls _ _ decayT_unitsHom (some 1) none [1/2, 1] 0 fuel t0 q0),
   scaledRun_of_map _ _ _ _ _ (solve_units_explicit decayT_unitsHom (some 1) none [1/2, 1] 0 fuel t0 q0),
   scaledRun_of_map _ _ _ _ _ (solve_units_rk2 decayT_unitsHom (some 1) none [1/2, 1] 0 fuel t0 q0)⟩

end solves

/-! ## (3a) change of units for the model's 1D operator -/
section units1d
variable {α : Type} [Field α] [LinearOrder α] [IsStrictOrderedRing α] {ι : Type}

/-- C13b `rhs_units` on **every** cell index (the proof of C13b never uses the bound `i < n`; beyond `n` both sides are the
same junk, scaled) -/
theorem rhs_units_all (l : α) (hl : 0 < l) (s p f : ι → α) (hp : ∀ k, 0 < p k)
    (D D' : Disc1D α ι) (hmesh : D'.mesh = scaleMesh l D.mesh) (hsch : D'.scheme = D.scheme)
    (hs : HomScheme D.scheme) (hsrc : ∀ k, D.src k = none) (hsrc' : ∀ k, D'.src k = none)
    (hc2p : ∀ Q, D'.c2p (scl s Q) = scl p (D.c2p Q))
    (hflux : ∀ L R k, D'.flux (scl p L) (scl p R) k = f k * D.flux L R k)
    (hbc : BCScaled p D.bc D'.bc)
    (q : ι → ℕ → α) (k : ι) (i : ℕ) :
    D'.rhs (fun j c => s j * q j c) k i = f k / l * D.rhs q k i := by
  obtain ⟨mesh', sch', bc', c2p', flux', src'⟩ := D'
  obtain ⟨mesh, sch, bc, c2p, flux, src⟩ := D
  simp only at hmesh hsch hs hsrc hsrc' hc2p hflux hbc
  subst hmesh hsch
  set D : Disc1D α ι := ⟨mesh, sch', bc, c2p, flux, src⟩ with hD
  set D' : Disc1D α ι := ⟨scaleMesh l mesh, sch', bc', c2p', flux', src'⟩ with hD'
  set q' : ι → ℕ → α := fun j c => s j * q j c with hq'
  have hper : bc'.isPer = bc.isPer := by
    cases bc <;> cases bc' <;> simp_all [BCScaled, BC1D.isPer]
  have h1 : ∀ j, D'.pdata q' j = fun c => p j * D.pdata q j c := by
    intro j; funext c
    have := congrFun (hc2p (fun j => q j c)) j
    exact this
  have h2 : ∀ j, D'.grad q' j = fun c => p j / l * D.grad q j c := by
    intro j
    simp only [Disc1D.grad, h1]
    simp only [hD', hD, hper]
    exact grad1d_scale l (p j) mesh bc.isPer _
  have h3 : ∀ j, D'.pL0 q' j = fun c => p j * D.pL0 q j c := by
    intro j
    simp only [Disc1D.pL0, h1, h2]
    exact recL_scale sch' hs l (p j) hl (hp j) mesh _ _
  have h4 : ∀ j, D'.pR0 q' j = fun c => p j * D.pR0 q j c := by
    intro j
    simp only [Disc1D.pR0, h1, h2]
    exact recR_scale sch' hs l (p j) hl (hp j) mesh _ _
  have h5 : ∀ j, D'.pL q' j = fun c => p j * D.pL q j c := by
    intro j; funext c
    simp only [Disc1D.pL, bcFaceL]
    split_ifs with hc
    · cases bc with
      | periodic =>
        cases bc' with
        | periodic => simp only [hD, hD']; rw [h3]; rfl
        | «open» a b => exact hbc.elim
      | «open» bcL bcR =>
        cases bc' with
        | periodic => exact hbc.elim
        | «open» bcL' bcR' =>
          simp only [hD, hD']
          have e : (fun j => D'.pR0 q' j 0) = scl p (fun j => D.pR0 q j 0) := by
            funext j; rw [h4]; rfl
          rw [e, hbc.1]; rfl
    · rw [h3]
  have h6 : ∀ j, D'.pR q' j = fun c => p j * D.pR q j c := by
    intro j; funext c
    simp only [Disc1D.pR, bcFaceR]
    have hn : D'.mesh.n = D.mesh.n := rfl
    rw [hn]
    split_ifs with hc
    · cases bc with
      | periodic =>
        cases bc' with
        | periodic => simp only [hD, hD']; rw [h4]
        | «open» a b => exact hbc.elim
      | «open» bcL bcR =>
        cases bc' with
        | periodic => exact hbc.elim
        | «open» bcL' bcR' =>
          simp only [hD, hD']
          have e : (fun j => D'.pL0 q' j mesh.n) = scl p (fun j => D.pL0 q j mesh.n) := by
            funext j; rw [h3]; rfl
          rw [e, hbc.2]; rfl
    · rw [h4]
  have h7 : ∀ c, D'.faceFluxes q' k c = f k * D.faceFluxes q k c := by
    intro c
    simp only [Disc1D.faceFluxes, faceFlux]
    have eL : (fun j => D'.pL q' j c) = scl p (fun j => D.pL q j c) := by
      funext j; rw [h5]; rfl
    have eR : (fun j => D'.pR q' j c) = scl p (fun j => D.pR q j c) := by
      funext j; rw [h6]; rfl
    rw [eL, eR]; exact hflux _ _ k
  have h8 : D'.rhs q' k i = D'.resNoSrc q' k i := by
    simp only [Disc1D.rhs, addSource]
    have : D'.src k = none := hsrc' k
    rw [this]
  have h9 : D.rhs q k i = D.resNoSrc q k i := by
    simp only [Disc1D.rhs, addSource]
    have : D.src k = none := hsrc k
    rw [this]
  rw [h8, h9]
  simp only [Disc1D.resNoSrc, calcRes, h7]
  have hv : D'.mesh.vol i = l * D.mesh.vol i := vol_scale l mesh i
  rw [hv, div_mul_div_comm]
  congr 1; ring


/-- the rescaling of the conservative data: component `j` multiplied by `s j` in every cell -/
def sclData (s : ι → α) (q : ι → ℕ → α) : ι → ℕ → α := fun j c => s j * q j c

omit [LinearOrder α] [IsStrictOrderedRing α] in
theorem sclData_add (s : ι → α) (x y : ι → ℕ → α) : sclData s (x + y) = sclData s x + sclData s y := by
  funext j c; simp only [sclData, Pi.add_apply]; ring
omit [LinearOrder α] [IsStrictOrderedRing α] in
theorem sclData_smul (s : ι → α) (a : α) (x : ι → ℕ → α) : sclData s (a • x) = a • sclData s x := by
  funext j c; simp only [sclData, Pi.smul_apply, smul_eq_mul]; ring

/-- the same problem in two systems of units: lengths `× l`, velocities `× b` (hence times `× l / b`), conservative
component `k` `× s k`, primitive component `k` `× p k`, flux of equation `k` `× b s k`.  These are the hypotheses of
C13b `rhs_units` with `f k = b * s k`: scaled mesh, same (positively homogeneous) reconstruction, no sources, kernels
`cons2prim`, numerical flux and boundary conditions of `D'` the rescaled ones of `D`. -/
structure UnitsPair (l b : α) (s p : ι → α) (D D' : Disc1D α ι) : Prop where
  l_pos : 0 < l
  b_pos : 0 < b
  p_pos : ∀ k, 0 < p k
  mesh : D'.mesh = scaleMesh l D.mesh
  scheme : D'.scheme = D.scheme
  hom : HomScheme D.scheme
  src : ∀ k, D.src k = none
  src' : ∀ k, D'.src k = none
  c2p : ∀ Q, D'.c2p (scl s Q) = scl p (D.c2p Q)
  flux : ∀ L R k, D'.flux (scl p L) (scl p R) k = b * s k * D.flux L R k
  bc : BCScaled p D.bc D'.bc

/-- C13b in the form needed by the stage loops: the residual is a time derivative, it picks up `(l / b)⁻¹` -/
theorem rhs_units_time {l b : α} {s p : ι → α} {D D' : Disc1D α ι} (h : UnitsPair l b s p D D') (q : ι → ℕ → α) :
    D'.rhs (sclData s q) = (l / b)⁻¹ • sclData s (D.rhs q) := by
  funext k i
  have e := rhs_units_all l h.l_pos s p (fun k => b * s k) h.p_pos D D' h.mesh h.scheme h.hom h.src h.src' h.c2p
    h.flux h.bc q k i
  have hl := h.l_pos.ne'
  have hb := h.b_pos.ne'
  show D'.rhs (fun j c => s j * q j c) k i = (l / b)⁻¹ * (s k * D.rhs q k i)
  rw [e]
  field_simp

/-- the hypotheses of `solve_units_rk` … for a pair of discretisations in two systems of units: what remains to be
assumed is that the time-step rule is multiplied by `l / b` and that the monitors see the rescaling through `fm` -/
theorem unitsHom_disc {l b : α} {s p : ι → α} {D D' : Disc1D α ι} (h : UnitsPair l b s p D D')
    (dtOf dtOf' : α → (ι → ℕ → α) → α) (hdt : ∀ t q, dtOf' (l / b * t) (sclData s q) = l / b * dtOf t q)
    (mons mons' : List (ℕ × (α → (ι → ℕ → α) → α))) (fm : ℕ → α → α) (hml : mons'.length = mons.length)
    (hmon : ∀ (i : ℕ) (m m' : ℕ × (α → (ι → ℕ → α) → α)), mons[i]? = some m → mons'[i]? = some m' →
      m'.1 = m.1 ∧ ∀ t q, m'.2 (l / b * t) (sclData s q) = fm i (m.2 t q)) :
    UnitsHom (l / b) (sclData s) (fun _ q => D.rhs q) (fun _ q => D'.rhs q) dtOf dtOf' mons mons' fm where
  pos := div_pos h.l_pos h.b_pos
  add := sclData_add s
  smul := sclData_smul s
  rhs := fun _ q => rhs_units_time h q
  dt := hdt
  mon_length := hml
  mon := hmon

variable {l b : α} {s p : ι → α} {D D' : Disc1D α ι} (h : UnitsPair l b s p D D')
  (dtOf dtOf' : α → (ι → ℕ → α) → α) (hdt : ∀ t q, dtOf' (l / b * t) (sclData s q) = l / b * dtOf t q)
  (mons mons' : List (ℕ × (α → (ι → ℕ → α) → α))) (fm : ℕ → α → α) (hml : mons'.length = mons.length)
  (hmon : ∀ (i : ℕ) (m m' : ℕ × (α → (ι → ℕ → α) → α)), mons[i]? = some m → mons'[i]? = some m' →
    m'.1 = m.1 ∧ ∀ t q, m'.2 (l / b * t) (sclData s q) = fm i (m.2 t q))
  (tottime : Option α) (maxit : Option ℕ) (tsave : List α) (itstart : ℕ)
include h hdt hml hmon

/-- **C13 (b) for whole solves, generic Butcher loop (any table)**, the operators being the model's `Disc1D.rhs` of the
two discretisations: every mesh, reconstruction, boundary treatment, flux obeying the homogeneity laws, every `n`;
the solve in the new units from the rescaled data, with stop and save times `× l / b`, is the rescaled solve (on every
cell index), with the same flag, iteration counts and iteration tags, and the times `× l / b` -/
theorem solve_units (tbl : List (List α)) (fuel : ℕ) (t0 : α) (q0 : ι → ℕ → α) :
    (rkCfg tbl (fun _ q => D'.rhs q) dtOf' (tottime.map (l / b * ·)) maxit (tsave.map (l / b * ·)) itstart mons').run
        fuel () (l / b * t0) (sclData s q0)
      = (DrvState.map id (l / b * ·) (sclData s) fm
          ((rkCfg tbl (fun _ q => D.rhs q) dtOf tottime maxit tsave itstart mons).run fuel () t0 q0).1,
         ((rkCfg tbl (fun _ q => D.rhs q) dtOf tottime maxit tsave itstart mons).run fuel () t0 q0).2) :=
  solve_units_rk tbl (unitsHom_disc h dtOf dtOf' hdt mons mons' fm hml hmon) tottime maxit tsave itstart fuel t0 q0

/-- low-storage loop -/
theorem solve_units_disc_ls (tc : α → α) (bs : List α) (fuel : ℕ) (t0 : α) (q0 : ι → ℕ → α) :
    (lsCfg tc bs (fun _ q => D'.rhs q) dtOf' (tottime.map (l / b * ·)) maxit (tsave.map (l / b * ·)) itstart mons').run
        fuel () (l / b * t0) (sclData s q0)
      = (DrvState.map id (l / b * ·) (sclData s) fm
          ((lsCfg tc bs (fun _ q => D.rhs q) dtOf tottime maxit tsave itstart mons).run fuel () t0 q0).1,
         ((lsCfg tc bs (fun _ q => D.rhs q) dtOf tottime maxit tsave itstart mons).run fuel () t0 q0).2) :=
  solve_units_ls tc bs (unitsHom_disc h dtOf dtOf' hdt mons mons' fm hml hmon) tottime maxit tsave itstart fuel t0 q0

/-- forward Euler -/
theorem solve_units_disc_explicit (fuel : ℕ) (t0 : α) (q0 : ι → ℕ → α) :
    (explicitCfg (fun _ q => D'.rhs q) dtOf' (tottime.map (l / b * ·)) maxit (tsave.map (l / b * ·)) itstart mons').run
        fuel () (l / b * t0) (sclData s q0)
      = (DrvState.map id (l / b * ·) (sclData s) fm
          ((explicitCfg (fun _ q => D.rhs q) dtOf tottime maxit tsave itstart mons).run fuel () t0 q0).1,
         ((explicitCfg (fun _ q => D.rhs q) dtOf tottime maxit tsave itstart mons).run fuel () t0 q0).2) :=
  solve_units_explicit (unitsHom_disc h dtOf dtOf' hdt mons mons' fm hml hmon) tottime maxit tsave itstart fuel t0 q0

/-- midpoint `rk2` -/
theorem solve_units_disc_rk2 (fuel : ℕ) (t0 : α) (q0 : ι → ℕ → α) :
    (rk2Cfg (fun _ q => D'.rhs q) dtOf' (tottime.map (l / b * ·)) maxit (tsave.map (l / b * ·)) itstart mons').run
        fuel () (l / b * t0) (sclData s q0)
      = (DrvState.map id (l / b * ·) (sclData s) fm
          ((rk2Cfg (fun _ q => D.rhs q) dtOf tottime maxit tsave itstart mons).run fuel () t0 q0).1,
         ((rk2Cfg (fun _ q => D.rhs q) dtOf tottime maxit tsave itstart mons).run fuel () t0 q0).2) :=
  solve_units_rk2 (unitsHom_disc h dtOf dtOf' hdt mons mons' fm hml hmon) tottime maxit tsave itstart fuel t0 q0

end units1d

/-! ### non-vacuity of `solve_units`: the Burgers model of `Models1D.lean` with its CFL time-step rule -/
section burgersUnits
variable {α : Type} [Field α] [LinearOrder α] [IsStrictOrderedRing α]

/-- the Burgers flux is a velocity squared -/
theorem burgersFlux_scale (b : α) (hb : 0 < b) (L R : α) : burgersFlux (b * L) (b * R) = b * b * burgersFlux L R := by
  have e : (b * L + b * R) / 2 = b * ((L + R) / 2) := by ring
  simp only [burgersFlux, burgersFluxG, e]
  by_cases h1 : 0 < (L + R) / 2
  · rw [if_pos h1, if_pos (mul_pos hb h1)]; ring
  · have h1' : ¬ 0 < b * ((L + R) / 2) := fun hc => h1 (pos_of_mul_pos_right (by linarith) hb.le |> fun x => x)
    rw [if_neg h1, if_neg h1']
    by_cases h2 : (L + R) / 2 < 0
    · rw [if_pos h2, if_pos (mul_neg_of_pos_of_neg hb h2)]; ring
    · have h2' : ¬ b * ((L + R) / 2) < 0 := fun hc => h2 (by
        by_contra h3
        have := mul_nonneg hb.le (not_lt.mp h3)
        linarith)
      rw [if_neg h2, if_neg h2']; ring

/-- a Burgers discretisation (mesh, reconstruction, boundary treatment free) -/
def burgersDisc (m : Mesh1D α) (sch : Scheme α) (bc : BC1D α ℕ) : Disc1D α ℕ :=
  { mesh := m, scheme := sch, bc := bc, c2p := burgersC2P, flux := burgersFluxV, src := fun _ => none }

/-- Burgers in two systems of units: the unknown is a velocity (`s = p = b`), the flux a velocity squared -/
theorem unitsPair_burgers (l b : α) (hl : 0 < l) (hb : 0 < b) (m : Mesh1D α) (sch : Scheme α) (hs : HomScheme sch)
    (bc bc' : BC1D α ℕ) (hbc : BCScaled (fun _ => b) bc bc') :
    UnitsPair l b (fun _ => b) (fun _ => b) (burgersDisc m sch bc) (burgersDisc (scaleMesh l m) sch bc') where
  l_pos := hl
  b_pos := hb
  p_pos := fun _ => hb
  mesh := rfl
  scheme := rfl
  hom := hs
  src := fun _ => rfl
  src' := fun _ => rfl
  c2p := fun _ => rfl
  flux := fun L R k => by
    show burgersFlux (b * L 0) (b * R 0) = b * b * burgersFlux (L 0) (R 0)
    exact burgersFlux_scale b hb _ _
  bc := hbc

omit [LinearOrder α] [IsStrictOrderedRing α] in
/-- the scaled uniform mesh is the uniform mesh the code builds with the scaled length and origin -/
theorem scaleMesh_uniMesh (l : α) (n : ℕ) (L x0 : α) : scaleMesh l (uniMesh n L x0) = uniMesh n (l * L) (l * x0) := by
  simp only [scaleMesh, uniMesh]
  congr 1
  funext i; ring

/-- `calc_timestep` of the Burgers model reduced to its minimum: `min_c cfl * dx_c / |u_c|` -/
def burgersCfl (cfl : α) (m : Mesh1D α) (hn : 0 < m.n) (q : ℕ → ℕ → α) : α :=
  minCells m.n hn fun c => burgersDt cfl (m.vol c) (q 0 c)

theorem minCells_mul (n : ℕ) (hn : 0 < n) (τ : α) (hτ : 0 ≤ τ) (d : ℕ → α) :
    minCells n hn (fun c => τ * d c) = τ * minCells n hn d := by
  unfold minCells
  exact (Finset.apply_inf'_eq_inf'_comp _ (fun x => τ * x) (fun x y => mul_min_of_nonneg x y hτ)).symm

/-- the CFL rule of the model obeys the time-step hypothesis of `solve_units` (C18: `dt = cfl dx / |u|`) -/
theorem burgersCfl_units (cfl l b : α) (hb : 0 < b) (hl : 0 ≤ l) (m : Mesh1D α) (hn : 0 < m.n) (q : ℕ → ℕ → α) :
    burgersCfl cfl (scaleMesh l m) hn (sclData (fun _ => b) q) = l / b * burgersCfl cfl m hn q := by
  unfold burgersCfl
  rw [← minCells_mul _ _ _ (div_nonneg hl hb.le)]
  congr 1
  funext c
  simp only [burgersDt, sclData, vol_scale, abs_mul, abs_of_pos hb]
  have := hb.ne'
  by_cases hq : |q 0 c| = 0
  · simp [hq]
  · field_simp

omit [LinearOrder α] [IsStrictOrderedRing α] in
/-- the volume-weighted average (the usual monitor) of a component is multiplied by its factor -/
theorem average_scale (l b : α) (hl : l ≠ 0) (m : Mesh1D α) (d : ℕ → α) :
    (scaleMesh l m).average (fun c => b * d c) = b * m.average d := by
  unfold Mesh1D.average
  simp only [vol_scale]
  have hn : (scaleMesh l m).n = m.n := rfl
  rw [hn]
  have e1 : ∑ i ∈ Finset.range m.n, b * d i * (l * m.vol i) = l * (b * ∑ i ∈ Finset.range m.n, d i * m.vol i) := by
    rw [Finset.mul_sum, Finset.mul_sum]
    exact Finset.sum_congr rfl fun i _ => by ring
  rw [e1, ← Finset.mul_sum, mul_div_mul_left _ _ hl, mul_div_assoc]

/-- **any** mesh with `n ≥ 1` cells, MUSCL/minmod or any other positively homogeneous reconstruction, periodic or
rescaled boundary kernels, the CFL time-step rule of the model, the average as monitor, any table, any stop criteria:
all the hypotheses of `solve_units` hold for the Burgers model -/
theorem solve_units_burgers (cfl l b : α) (hl : 0 < l) (hb : 0 < b) (m : Mesh1D α) (hn : 0 < m.n) (sch : Scheme α)
    (hs : HomScheme sch) (bc bc' : BC1D α ℕ) (hbc : BCScaled (fun _ => b) bc bc') (freq : ℕ)
    (tottime : Option α) (maxit : Option ℕ) (tsave : List α) (itstart : ℕ)
    (tbl : List (List α)) (fuel : ℕ) (t0 : α) (q0 : ℕ → ℕ → α) :
    ScaledRun (l / b) (sclData fun _ => b) (fun _ v => b * v)
      ((rkCfg tbl (fun _ q => (burgersDisc m sch bc).rhs q) (fun _ q => burgersCfl cfl m hn q) tottime maxit tsave itstart
        [(freq, fun _ q => m.average (q 0))]).run fuel () t0 q0)
      ((rkCfg tbl (fun _ q => (burgersDisc (scaleMesh l m) sch bc').rhs q)
        (fun _ q => burgersCfl cfl (scaleMesh l m) hn q) (tottime.map (l / b * ·)) maxit (tsave.map (l / b * ·)) itstart
        [(freq, fun _ q => (scaleMesh l m).average (q 0))]).run fuel () (l / b * t0) (sclData (fun _ => b) q0)) :=
  scaledRun_of_map _ _ _ _ _
    (solve_units (unitsPair_burgers l b hl hb m sch hs bc bc' hbc)
      (fun _ q => burgersCfl cfl m hn q) (fun _ q => burgersCfl cfl (scaleMesh l m) hn q)
      (fun _ q => burgersCfl_units cfl l b hb hl.le m hn q)
      [(freq, fun _ q => m.average (q 0))] [(freq, fun _ q => (scaleMesh l m).average (q 0))] (fun _ v => b * v) rfl
      (fun i mo mo' hm hm' => by
        rcases i with _ | i
        · simp only [List.getElem?_cons_zero, Option.some.injEq] at hm hm'
          subst hm; subst hm'
          exact ⟨rfl, fun _ q => average_scale l b hl.ne' m (q 0)⟩
        · simp at hm)
      tottime maxit tsave itstart tbl fuel t0 q0)

/-- concrete instance: 3 uniform cells on `[0, 1]`, MUSCL with the minmod limiter, Dirichlet states at both ends,
Heun's table, CFL 1/2, stop at `t = 1` with save times `1/2`, `1`; new units: lengths `× 2`, velocities `× 4`, times
`× 1/2` (mesh on `[0, 2]`, boundary states `× 4`, stop at `1/2`, save times `1/4`, `1/2`) -/
example (fuel : ℕ) (q0 : ℕ → ℕ → ℚ) :
    ScaledRun ((2 : ℚ) / 4) (sclData fun _ => 4) (fun _ v => 4 * v)
      ((rkCfg [[1], [1/2, 1/2]]
        (fun _ q => (burgersDisc (uniMesh 3 1 0) (.muscl minmod)
          (.open (bcDirichlet (vec1 1)) (bcDirichlet (vec1 (1/2))))).rhs q)
        (fun _ q => burgersCfl (1/2) (uniMesh 3 1 0) (by decide) q) (some 1) none [1/2, 1] 0
        [(1, fun _ q => (uniMesh 3 1 0).average (q 0))]).run fuel () 0 q0)
      ((rkCfg [[1], [1/2, 1/2]]
        (fun _ q => (burgersDisc (scaleMesh 2 (uniMesh 3 1 0)) (.muscl minmod)
          (.open (bcDirichlet (vec1 4)) (bcDirichlet (vec1 2)))).rhs q)
        (fun _ q => burgersCfl (1/2) (scaleMesh 2 (uniMesh 3 1 0)) (by decide) q)
        ((some 1).map ((2 : ℚ) / 4 * ·)) none ([1/2, 1].map ((2 : ℚ) / 4 * ·)) 0
        [(1, fun _ q => (scaleMesh 2 (uniMesh 3 1 0)).average (q 0))]).run fuel () (2 / 4 * 0)
        (sclData (fun _ => 4) q0)) :=
  solve_units_burgers (1/2) 2 4 (by norm_num) (by norm_num) (uniMesh 3 1 0) (by decide) (.muscl minmod)
    (fun c a b hc => C12.minmod_homogeneous c a b hc)
    (.open (bcDirichlet (vec1 1)) (bcDirichlet (vec1 (1/2)))) (.open (bcDirichlet (vec1 4)) (bcDirichlet (vec1 2)))
    ⟨fun w => by funext k; simp [bcDirichlet, scl, vec1], fun w => by funext k; simp [bcDirichlet, scl, vec1]; norm_num⟩
    1 (some 1) none [1/2, 1] 0 [[1], [1/2, 1/2]] fuel 0 q0

end burgersUnits

/-! ## (3b) reflection for the model's 1D operator -/
section mirror1d
variable {α : Type} [Field α] {ι : Type}

/-- the hypotheses of C13a `rhs_mirror` on a discretisation: parities `σ k = ±1`, no sources, odd limiter, `cons2prim`
commuting with `σ`, mirror law of the numerical flux, at least one cell -/
structure MirrorLaws (σ : ι → α) (D : Disc1D α ι) : Prop where
  sq : ∀ k, σ k * σ k = 1
  src : ∀ k, D.src k = none
  odd : OddScheme D.scheme
  c2p : ∀ Q, D.c2p (sig σ Q) = sig σ (D.c2p Q)
  flux : ∀ L R k, D.flux (sig σ R) (sig σ L) k = -σ k * D.flux L R k
  n_pos : 0 < D.mesh.n

/-- the mirror problem obeys the same laws -/
theorem MirrorLaws.mirror {σ : ι → α} {D : Disc1D α ι} (h : MirrorLaws σ D) : MirrorLaws σ (mirrorDisc σ D) :=
  ⟨h.sq, fun _ => rfl, h.odd, h.c2p, h.flux, h.n_pos⟩

theorem mirrorData_add (σ : ι → α) (n : ℕ) (x y : ι → ℕ → α) :
    mirrorData σ n (x + y) = mirrorData σ n x + mirrorData σ n y := by
  funext k i; simp only [mirrorData, Pi.add_apply]; ring
theorem mirrorData_smul (σ : ι → α) (n : ℕ) (a : α) (x : ι → ℕ → α) :
    mirrorData σ n (a • x) = a • mirrorData σ n x := by
  funext k i; simp only [mirrorData, Pi.smul_apply, smul_eq_mul]; ring

/-- the mirror data read the cells `i < n` only -/
theorem mirrorData_congr (σ : ι → α) (n : ℕ) (hn : 0 < n) (q q' : ι → ℕ → α)
    (hq : ∀ k i, i < n → q k i = q' k i) : mirrorData σ n q = mirrorData σ n q' := by
  funext k i
  simp only [mirrorData]
  rw [hq k (n - 1 - i) (by omega)]

/-- **locality of the space operator**: the residual on the cells `i < n` sees the data on the cells `i < n` only
(a consequence of `rhs_mirror`: the mirror data do not contain anything else) -/
theorem rhs_local {σ : ι → α} {D : Disc1D α ι} (h : MirrorLaws σ D) (q q' : ι → ℕ → α)
    (hq : ∀ k i, i < D.mesh.n → q k i = q' k i) (k : ι) (i : ℕ) (hi : i < D.mesh.n) :
    D.rhs q k i = D.rhs q' k i := by
  have hn := h.n_pos
  have e1 := rhs_mirror σ h.sq D h.src h.odd h.c2p h.flux hn q k (D.mesh.n - 1 - i) (by omega)
  have e2 := rhs_mirror σ h.sq D h.src h.odd h.c2p h.flux hn q' k (D.mesh.n - 1 - i) (by omega)
  rw [mirrorData_congr σ D.mesh.n hn q q' hq, e2] at e1
  have hi' : D.mesh.n - 1 - (D.mesh.n - 1 - i) = i := by omega
  rw [hi'] at e1
  have hσ : σ k ≠ 0 := fun h0 => by have := h.sq k; rw [h0, mul_zero] at this; exact zero_ne_one this
  exact (mul_left_cancel₀ hσ e1).symm

/-- continuation of the cells `i < n` by the last one (the shape of the junk beyond `n` in `mirrorData`) -/
def clampCells (n : ℕ) (x : ι → ℕ → α) : ι → ℕ → α := fun k i => x k (min i (n - 1))

omit [Field α] in
theorem clampCells_apply (n : ℕ) (x : ι → ℕ → α) (k : ι) (i : ℕ) (hi : i < n) : clampCells n x k i = x k i := by
  show x k (min i (n - 1)) = x k i
  rw [Nat.min_eq_left (by omega)]

theorem clampCells_mirrorData (σ : ι → α) (n : ℕ) (q : ι → ℕ → α) :
    clampCells n (mirrorData σ n q) = mirrorData σ n q := by
  funext k i
  show σ k * q k (n - 1 - min i (n - 1)) = σ k * q k (n - 1 - i)
  congr 2
  omega

/-- the residual of the mirror problem, continued from the cells `i < n` -/
def clampRhs (σ : ι → α) (D : Disc1D α ι) : α → (ι → ℕ → α) → (ι → ℕ → α) :=
  fun _ q => clampCells D.mesh.n ((mirrorDisc σ D).rhs q)

/-- C13a `rhs_mirror` as an exact intertwining relation on all of `ι → ℕ → α` -/
theorem clampRhs_mirror {σ : ι → α} {D : Disc1D α ι} (h : MirrorLaws σ D) (t : α) (q : ι → ℕ → α) :
    clampRhs σ D t (mirrorData σ D.mesh.n q) = mirrorData σ D.mesh.n (D.rhs q) := by
  have hn := h.n_pos
  funext k i
  show (mirrorDisc σ D).rhs (mirrorData σ D.mesh.n q) k (min i (D.mesh.n - 1)) = σ k * D.rhs q k (D.mesh.n - 1 - i)
  rw [rhs_mirror σ h.sq D h.src h.odd h.c2p h.flux hn q k _ (by omega)]
  congr 2
  omega

/-- locality of the mirror operator as an intertwining relation -/
theorem clampRhs_clamp {σ : ι → α} {D : Disc1D α ι} (h : MirrorLaws σ D) (t : α) (q : ι → ℕ → α) :
    clampRhs σ D t (clampCells D.mesh.n q) = clampCells D.mesh.n ((mirrorDisc σ D).rhs q) := by
  have hn := h.n_pos
  funext k i
  exact rhs_local h.mirror _ _ (fun k i hi => clampCells_apply D.mesh.n q k i hi) k _
    (show min i (D.mesh.n - 1) < D.mesh.n by omega)

variable [LinearOrder α]

/-- what the caller of `solve` sees of two runs `r` (problem), `r'` (mirror problem): same flag, counts, times and
iteration tags; final data, every snapshot and every state of the trajectory mirrored **on the cells `c < n`**;
monitor `i` logged at the same iterations and times, values mapped by `fm i` -/
def MirroredRun (σ : ι → α) (n : ℕ) (fm : ℕ → α → α) (r r' : DrvState Unit α (ι → ℕ → α) × Bool) : Prop :=
  r'.2 = r.2 ∧ r'.1.nit = r.1.nit ∧ r'.1.isave = r.1.isave ∧ r'.1.time = r.1.time
  ∧ (∀ k c, c < n → r'.1.data k c = σ k * r.1.data k (n - 1 - c))
  ∧ r'.1.results.length = r.1.results.length
  ∧ (∀ j (hj : j < r.1.results.length) (hj' : j < r'.1.results.length),
      (r'.1.results[j]).it = (r.1.results[j]).it ∧ (r'.1.results[j]).time = (r.1.results[j]).time
      ∧ ∀ k c, c < n → (r'.1.results[j]).data k c = σ k * (r.1.results[j]).data k (n - 1 - c))
  ∧ (∀ i, r'.1.monlog[i]? = (r.1.monlog[i]?).map (List.map fun e => (e.1, e.2.1, fm i e.2.2)))
  ∧ r'.1.traj.length = r.1.traj.length
  ∧ (∀ j (hj : j < r.1.traj.length) (hj' : j < r'.1.traj.length),
      (r'.1.traj[j]).1 = (r.1.traj[j]).1
      ∧ ∀ k c, c < n → (r'.1.traj[j]).2 k c = σ k * (r.1.traj[j]).2 k (n - 1 - c))

omit [LinearOrder α] in
theorem mirroredRun_of_map (σ : ι → α) (n : ℕ) (fm : ℕ → α → α) (r r' : DrvState Unit α (ι → ℕ → α) × Bool)
    (h2 : r'.2 = r.2)
    (h : DrvState.map id id (clampCells n) (fun _ => id) r'.1 = DrvState.map id id (mirrorData σ n) fm r.1) :
    MirroredRun σ n fm r r' := by
  have cell : ∀ {a b : ι → ℕ → α}, clampCells n a = mirrorData σ n b →
      ∀ k c, c < n → a k c = σ k * b k (n - 1 - c) := by
    intro a b hab k c hc
    rw [← clampCells_apply n a k c hc, hab]; rfl
  have hres : r'.1.results.map (Snap.map id (clampCells n)) = r.1.results.map (Snap.map id (mirrorData σ n)) :=
    congrArg DrvState.results h
  have htraj : r'.1.traj.map (fun x => (id x.1, clampCells n x.2))
      = r.1.traj.map (fun x => (id x.1, mirrorData σ n x.2)) := congrArg DrvState.traj h
  have hlog : mapLogs id (fun _ => id) 0 r'.1.monlog = mapLogs id fm 0 r.1.monlog := congrArg DrvState.monlog h
  rw [mapLogs_id] at hlog
  have hnit := congrArg DrvState.nit h
  have hisave := congrArg DrvState.isave h
  have htime := congrArg DrvState.time h
  have hdata := congrArg DrvState.data h
  refine ⟨h2, hnit, hisave, htime, cell hdata, ?_, ?_, ?_, ?_, ?_⟩
  · simpa using congrArg List.length hres
  · intro j hj hj'
    have e : Snap.map id (clampCells n) (r'.1.results[j]) = Snap.map id (mirrorData σ n) (r.1.results[j]) := by
      have := List.getElem_of_eq hres (i := j) (by simpa using hj')
      simpa using this
    have e1 := congrArg Snap.it e
    have e2 := congrArg Snap.time e
    have e3 := congrArg Snap.data e
    exact ⟨e1, e2, cell e3⟩
  · intro i
    rw [hlog, mapLogs_getElem?, Nat.zero_add]
    rfl
  · simpa using congrArg List.length htraj
  · intro j hj hj'
    have e : ((r'.1.traj[j]).1, clampCells n (r'.1.traj[j]).2) = ((r.1.traj[j]).1, mirrorData σ n (r.1.traj[j]).2) := by
      have := List.getElem_of_eq htraj (i := j) (by simpa using hj')
      simpa using this
    have e1 := congrArg Prod.fst e
    have e2 := congrArg Prod.snd e
    exact ⟨e1, cell e2⟩

/-- hypotheses on the problem data: the time-step rule of the mirror problem gives on the mirror data the time step of
the problem, monitor `i` of the mirror problem sees `fm i` of the value, and both look at the cells `c < n` only -/
structure MirrorBlind (σ : ι → α) (n : ℕ) (dtOf dtOf' : α → (ι → ℕ → α) → α)
    (mons mons' : List (ℕ × (α → (ι → ℕ → α) → α))) (fm : ℕ → α → α) : Prop where
  dt : ∀ t q, dtOf' t (mirrorData σ n q) = dtOf t q
  dt_local : ∀ t q q', (∀ k c, c < n → q k c = q' k c) → dtOf' t q = dtOf' t q'
  mon_length : mons'.length = mons.length
  mon : ∀ (i : ℕ) (m m' : ℕ × (α → (ι → ℕ → α) → α)), mons[i]? = some m → mons'[i]? = some m' →
      m'.1 = m.1 ∧ ∀ t q, m'.2 t (mirrorData σ n q) = fm i (m.2 t q)
  mon_local : ∀ m' ∈ mons', ∀ t q q', (∀ k c, c < n → q k c = q' k c) → m'.2 t q = m'.2 t q'

/-- any three stage loops `stepf` (problem), `stepf'` (mirror problem), `stepfW` (continued mirror operator) related by
the mirror and by the continuation: two morphisms (C07c) into the continued problem -/
theorem solve_mirror_global (σ : ι → α) (n : ℕ) (stepf stepf' stepfW : α → α → (ι → ℕ → α) → StepOut α (ι → ℕ → α))
    (hA : ∀ d t q, (stepfW d t (mirrorData σ n q)).data = mirrorData σ n (stepf d t q).data
      ∧ (stepfW d t (mirrorData σ n q)).time = (stepf d t q).time)
    (hB : ∀ d t q, (stepfW d t (clampCells n q)).data = clampCells n (stepf' d t q).data
      ∧ (stepfW d t (clampCells n q)).time = (stepf' d t q).time)
    (dtOf dtOf' : α → (ι → ℕ → α) → α) (mons mons' : List (ℕ × (α → (ι → ℕ → α) → α))) (fm : ℕ → α → α)
    (hb : MirrorBlind σ n dtOf dtOf' mons mons' fm)
    (tottime : Option α) (maxit : Option ℕ) (tsave : List α) (itstart : ℕ) (fuel : ℕ) (t0 : α) (q0 : ι → ℕ → α) :
    MirroredRun σ n fm
      ((globalCfg stepf dtOf tottime maxit tsave itstart mons).run fuel () t0 q0)
      ((globalCfg stepf' dtOf' tottime maxit tsave itstart mons').run fuel () t0 (mirrorData σ n q0)) := by
  have agree : ∀ q : ι → ℕ → α, ∀ k c, c < n → clampCells n q k c = q k c :=
    fun q k c hc => clampCells_apply n q k c hc
  have A := solve_equivariant_global (mirrorData σ n) stepf stepfW hA dtOf dtOf' hb.dt mons mons' fm hb.mon_length
    hb.mon tottime maxit tsave itstart fuel t0 q0
  have B := solve_equivariant_global (clampCells n) stepf' stepfW hB dtOf' dtOf'
    (fun t q => hb.dt_local t _ _ (agree q)) mons' mons' (fun _ => id) rfl
    (fun i a a' ha ha' => by
      rw [ha] at ha'; cases ha'
      exact ⟨rfl, fun t q => hb.mon_local a (List.mem_of_getElem? ha) t _ _ (agree q)⟩)
    tottime maxit tsave itstart fuel t0 (mirrorData σ n q0)
  rw [clampCells_mirrorData] at B
  have := B.symm.trans A
  have e1 := congrArg Prod.snd this
  have e2 := congrArg Prod.fst this
  exact mirroredRun_of_map σ n fm _ _ e1 e2

variable {σ : ι → α} {D : Disc1D α ι} (h : MirrorLaws σ D)
  (dtOf dtOf' : α → (ι → ℕ → α) → α) (mons mons' : List (ℕ × (α → (ι → ℕ → α) → α))) (fm : ℕ → α → α)
  (hb : MirrorBlind σ D.mesh.n dtOf dtOf' mons mons' fm)
  (tottime : Option α) (maxit : Option ℕ) (tsave : List α) (itstart : ℕ)
include h hb

/-- **C13 (a) for whole solves, generic Butcher loop (any table)**, the operators being the model's `Disc1D.rhs` of the
discretisation and of its mirror `mirrorDisc σ D` (mesh reflected, boundary kernels exchanged and conjugated): every
mesh, reconstruction with an odd limiter, boundary treatment, stop criteria, save times.  The solve of the mirror problem
from the mirror data is, on the cells `c < n`, the mirror of the solve. -/
theorem solve_mirror (tbl : List (List α)) (fuel : ℕ) (t0 : α) (q0 : ι → ℕ → α) :
    MirroredRun σ D.mesh.n fm
      ((rkCfg tbl (fun _ q => D.rhs q) dtOf tottime maxit tsave itstart mons).run fuel () t0 q0)
      ((rkCfg tbl (fun _ q => (mirrorDisc σ D).rhs q) dtOf' tottime maxit tsave itstart mons').run fuel () t0
        (mirrorData σ D.mesh.n q0)) :=
  solve_mirror_global σ D.mesh.n
    (fun d t q => rkStepG tbl (fun _ q => D.rhs q) d (fun v => d • v) t q)
    (fun d t q => rkStepG tbl (fun _ q => (mirrorDisc σ D).rhs q) d (fun v => d • v) t q)
    (fun d t q => rkStepG tbl (clampRhs σ D) d (fun v => d • v) t q)
    (fun d t q =>
      have e := rk_equivariant tbl (mirrorData σ D.mesh.n) (fun _ q => D.rhs q) (clampRhs σ D) _ _
        (intertwines_global _ _ _ (mirrorData_add σ _) (mirrorData_smul σ _) (clampRhs_mirror h) d) d t q
      ⟨e.1, e.2.1⟩)
    (fun d t q =>
      have e := rk_equivariant tbl (clampCells D.mesh.n) (fun _ q => (mirrorDisc σ D).rhs q) (clampRhs σ D) _ _
        (intertwines_global _ _ _ (fun _ _ => rfl) (fun _ _ => rfl) (clampRhs_clamp h) d) d t q
      ⟨e.1, e.2.1⟩)
    dtOf dtOf' mons mons' fm hb tottime maxit tsave itstart fuel t0 q0

/-- low-storage loop (any coefficients) -/
theorem solve_mirror_ls (tc : α → α) (bs : List α) (fuel : ℕ) (t0 : α) (q0 : ι → ℕ → α) :
    MirroredRun σ D.mesh.n fm
      ((lsCfg tc bs (fun _ q => D.rhs q) dtOf tottime maxit tsave itstart mons).run fuel () t0 q0)
      ((lsCfg tc bs (fun _ q => (mirrorDisc σ D).rhs q) dtOf' tottime maxit tsave itstart mons').run fuel () t0
        (mirrorData σ D.mesh.n q0)) :=
  solve_mirror_global σ D.mesh.n
    (fun d t q => lsStepG tc bs (fun _ q => D.rhs q) d (fun v => d • v) t q)
    (fun d t q => lsStepG tc bs (fun _ q => (mirrorDisc σ D).rhs q) d (fun v => d • v) t q)
    (fun d t q => lsStepG tc bs (clampRhs σ D) d (fun v => d • v) t q)
    (fun d t q => ls_equivariant tc bs (mirrorData σ D.mesh.n) (fun _ q => D.rhs q) (clampRhs σ D) _ _
        (intertwines_global _ _ _ (mirrorData_add σ _) (mirrorData_smul σ _) (clampRhs_mirror h) d) d t q)
    (fun d t q => ls_equivariant tc bs (clampCells D.mesh.n) (fun _ q => (mirrorDisc σ D).rhs q) (clampRhs σ D) _ _
        (intertwines_global _ _ _ (fun _ _ => rfl) (fun _ _ => rfl) (clampRhs_clamp h) d) d t q)
    dtOf dtOf' mons mons' fm hb tottime maxit tsave itstart fuel t0 q0

/-- forward Euler -/
theorem solve_mirror_explicit (fuel : ℕ) (t0 : α) (q0 : ι → ℕ → α) :
    MirroredRun σ D.mesh.n fm
      ((explicitCfg (fun _ q => D.rhs q) dtOf tottime maxit tsave itstart mons).run fuel () t0 q0)
      ((explicitCfg (fun _ q => (mirrorDisc σ D).rhs q) dtOf' tottime maxit tsave itstart mons').run fuel () t0
        (mirrorData σ D.mesh.n q0)) :=
  solve_mirror_global σ D.mesh.n
    (fun d t q => explicitStepG (fun _ q => D.rhs q) d (fun v => d • v) t q)
    (fun d t q => explicitStepG (fun _ q => (mirrorDisc σ D).rhs q) d (fun v => d • v) t q)
    (fun d t q => explicitStepG (clampRhs σ D) d (fun v => d • v) t q)
    (fun d t q => explicit_equivariant (mirrorData σ D.mesh.n) (fun _ q => D.rhs q) (clampRhs σ D) _ _
        (intertwines_global _ _ _ (mirrorData_add σ _) (mirrorData_smul σ _) (clampRhs_mirror h) d) d t q)
    (fun d t q => explicit_equivariant (clampCells D.mesh.n) (fun _ q => (mirrorDisc σ D).rhs q) (clampRhs σ D) _ _
        (intertwines_global _ _ _ (fun _ _ => rfl) (fun _ _ => rfl) (clampRhs_clamp h) d) d t q)
    dtOf dtOf' mons mons' fm hb tottime maxit tsave itstart fuel t0 q0

/-- midpoint `rk2` -/
theorem solve_mirror_rk2 (fuel : ℕ) (t0 : α) (q0 : ι → ℕ → α) :
    MirroredRun σ D.mesh.n fm
      ((rk2Cfg (fun _ q => D.rhs q) dtOf tottime maxit tsave itstart mons).run fuel () t0 q0)
      ((rk2Cfg (fun _ q => (mirrorDisc σ D).rhs q) dtOf' tottime maxit tsave itstart mons').run fuel () t0
        (mirrorData σ D.mesh.n q0)) :=
  solve_mirror_global σ D.mesh.n
    (fun d t q => rk2StepG (fun _ q => D.rhs q) d (fun v => d • v) (fun v => (d / 2) • v) t q)
    (fun d t q => rk2StepG (fun _ q => (mirrorDisc σ D).rhs q) d (fun v => d • v) (fun v => (d / 2) • v) t q)
    (fun d t q => rk2StepG (clampRhs σ D) d (fun v => d • v) (fun v => (d / 2) • v) t q)
    (fun d t q => rk2_equivariant (mirrorData σ D.mesh.n) (fun _ q => D.rhs q) (clampRhs σ D) _ _ _ _
        (intertwines_global _ _ _ (mirrorData_add σ _) (mirrorData_smul σ _) (clampRhs_mirror h) d)
        (fun x => (mirrorData_smul σ _ (d / 2) x).symm) d t q)
    (fun d t q => rk2_equivariant (clampCells D.mesh.n) (fun _ q => (mirrorDisc σ D).rhs q) (clampRhs σ D) _ _
        (fun v => (d / 2) • v) (fun v => (d / 2) • v)
        (intertwines_global _ _ _ (fun _ _ => rfl) (fun _ _ => rfl) (clampRhs_clamp h) d)
        (fun _ => rfl) d t q)
    dtOf dtOf' mons mons' fm hb tottime maxit tsave itstart fuel t0 q0

end mirror1d

/-! ### non-vacuity of `solve_mirror`: the Burgers model with its CFL time-step rule, any mesh -/
section burgersMirror
open Finset
variable {α : Type} [Field α] [LinearOrder α] [IsStrictOrderedRing α]

/-- the unknown of the Burgers model is a velocity: parity `-1`; `burgers_mirror` (C02) is the flux law -/
theorem mirrorLaws_burgers (m : Mesh1D α) (hn : 0 < m.n) (sch : Scheme α) (hs : OddScheme sch) (bc : BC1D α ℕ) :
    MirrorLaws (fun _ => (-1 : α)) (burgersDisc m sch bc) where
  sq := fun _ => by ring
  src := fun _ => rfl
  odd := hs
  c2p := fun _ => rfl
  flux := fun L R k => by
    show burgersFlux (-1 * R 0) (-1 * L 0) = -(-1) * burgersFlux (L 0) (R 0)
    rw [neg_one_mul, neg_one_mul, C02.burgers_mirror]; ring
  n_pos := hn

omit [Field α] [IsStrictOrderedRing α] in
theorem minCells_congr (n : ℕ) (hn : 0 < n) (d d' : ℕ → α) (h : ∀ c, c < n → d c = d' c) :
    minCells n hn d = minCells n hn d' :=
  Finset.inf'_congr _ rfl fun c hc => h c (mem_range.1 hc)

omit [Field α] [IsStrictOrderedRing α] in
/-- the minimum over the cells does not see their order -/
theorem minCells_reflect (n : ℕ) (hn : 0 < n) (d : ℕ → α) : minCells n hn (fun c => d (n - 1 - c)) = minCells n hn d := by
  unfold minCells
  apply le_antisymm
  · refine Finset.le_inf' _ _ fun c hc => ?_
    have hc' := mem_range.1 hc
    have := Finset.inf'_le (fun c => d (n - 1 - c)) (mem_range.2 (show n - 1 - c < n by omega))
    rwa [show n - 1 - (n - 1 - c) = c by omega] at this
  · refine Finset.le_inf' _ _ fun c _ => ?_
    exact Finset.inf'_le d (mem_range.2 (show n - 1 - c < n by omega))

omit [IsStrictOrderedRing α] in
/-- the CFL rule of the mirror problem on the mirror data is the CFL rule of the problem -/
theorem burgersCfl_mirror (cfl : α) (m : Mesh1D α) (hn : 0 < m.n) (q : ℕ → ℕ → α) :
    burgersCfl cfl (mirrorMesh m) hn (mirrorData (fun _ => (-1 : α)) m.n q) = burgersCfl cfl m hn q := by
  unfold burgersCfl
  rw [← minCells_reflect m.n hn fun c => burgersDt cfl (m.vol c) (q 0 c)]
  refine minCells_congr _ _ _ _ fun c hc => ?_
  simp only [burgersDt, mirrorData]
  rw [vol_mirror m c hc, neg_one_mul, abs_neg]

omit [IsStrictOrderedRing α] in
theorem burgersCfl_local (cfl : α) (m : Mesh1D α) (hn : 0 < m.n) (q q' : ℕ → ℕ → α)
    (h : ∀ k c, c < m.n → q k c = q' k c) : burgersCfl cfl m hn q = burgersCfl cfl m hn q' :=
  minCells_congr _ _ _ _ fun c hc => by rw [h 0 c hc]

omit [LinearOrder α] [IsStrictOrderedRing α] in
/-- the average of an odd component changes sign -/
theorem average_mirror (m : Mesh1D α) (q : ℕ → ℕ → α) (k : ℕ) :
    (mirrorMesh m).average (mirrorData (fun _ => (-1 : α)) m.n q k) = -(m.average (q k)) := by
  unfold Mesh1D.average
  have hn : (mirrorMesh m).n = m.n := rfl
  rw [hn]
  have e1 : ∑ i ∈ range m.n, mirrorData (fun _ => (-1 : α)) m.n q k i * (mirrorMesh m).vol i
      = -∑ i ∈ range m.n, q k i * m.vol i := by
    rw [← sum_range_reflect (fun i => q k i * m.vol i) m.n, ← Finset.sum_neg_distrib]
    refine Finset.sum_congr rfl fun i hi => ?_
    rw [vol_mirror m i (mem_range.1 hi)]
    simp only [mirrorData]; ring
  have e2 : ∑ i ∈ range m.n, (mirrorMesh m).vol i = ∑ i ∈ range m.n, m.vol i := by
    rw [← sum_range_reflect (fun i => m.vol i) m.n]
    exact Finset.sum_congr rfl fun i hi => vol_mirror m i (mem_range.1 hi)
  rw [e1, e2, neg_div]

omit [LinearOrder α] [IsStrictOrderedRing α] in
theorem average_local (m : Mesh1D α) (d d' : ℕ → α) (h : ∀ c, c < m.n → d c = d' c) : m.average d = m.average d' := by
  unfold Mesh1D.average
  congr 1
  exact Finset.sum_congr rfl fun i hi => by rw [h i (mem_range.1 hi)]

omit [IsStrictOrderedRing α] in
/-- the CFL rule and the average monitor satisfy the hypotheses on the problem data -/
theorem mirrorBlind_burgers (cfl : α) (m : Mesh1D α) (hn : 0 < m.n) (freq : ℕ) :
    MirrorBlind (fun _ => (-1 : α)) m.n (fun _ q => burgersCfl cfl m hn q) (fun _ q => burgersCfl cfl (mirrorMesh m) hn q)
      [(freq, fun _ q => m.average (q 0))] [(freq, fun _ q => (mirrorMesh m).average (q 0))] (fun _ v => -v) where
  dt := fun _ q => burgersCfl_mirror cfl m hn q
  dt_local := fun _ q q' hq => burgersCfl_local cfl (mirrorMesh m) hn q q' hq
  mon_length := rfl
  mon := fun i mo mo' hm hm' => by
    rcases i with _ | i
    · simp only [List.getElem?_cons_zero, Option.some.injEq] at hm hm'
      subst hm; subst hm'
      exact ⟨rfl, fun _ q => average_mirror m q 0⟩
    · simp at hm
  mon_local := fun mo hmo t q q' hq => by
    rw [List.mem_singleton] at hmo
    subst hmo
    exact average_local (mirrorMesh m) _ _ fun c hc => hq 0 c hc

/-- **any** mesh with `n ≥ 1` cells, any reconstruction with an odd limiter, any boundary kernels, the CFL rule of the
model, the average as monitor, any table, any stop criteria: the hypotheses of `solve_mirror` hold for Burgers -/
theorem solve_mirror_burgers (cfl : α) (m : Mesh1D α) (hn : 0 < m.n) (sch : Scheme α) (hs : OddScheme sch)
    (bc : BC1D α ℕ) (freq : ℕ) (tottime : Option α) (maxit : Option ℕ) (tsave : List α) (itstart : ℕ)
    (tbl : List (List α)) (fuel : ℕ) (t0 : α) (q0 : ℕ → ℕ → α) :
    MirroredRun (fun _ => (-1 : α)) m.n (fun _ v => -v)
      ((rkCfg tbl (fun _ q => (burgersDisc m sch bc).rhs q) (fun _ q => burgersCfl cfl m hn q) tottime maxit tsave itstart
        [(freq, fun _ q => m.average (q 0))]).run fuel () t0 q0)
      ((rkCfg tbl (fun _ q => (mirrorDisc (fun _ => (-1 : α)) (burgersDisc m sch bc)).rhs q)
        (fun _ q => burgersCfl cfl (mirrorMesh m) hn q) tottime maxit tsave itstart
        [(freq, fun _ q => (mirrorMesh m).average (q 0))]).run fuel () t0 (mirrorData (fun _ => (-1 : α)) m.n q0)) :=
  solve_mirror (D := burgersDisc m sch bc) (mirrorLaws_burgers m hn sch hs bc) _ _ _ _ _
    (mirrorBlind_burgers cfl m hn freq) tottime maxit tsave itstart tbl fuel t0 q0

omit [LinearOrder α] [IsStrictOrderedRing α] in
/-- the mirror of a Dirichlet condition is the Dirichlet condition with the mirrored state, at the other end -/
theorem mirrorBC_dirichlet (σ : ℕ → α) (a c : ℕ → α) :
    mirrorBC σ (.open (bcDirichlet a) (bcDirichlet c)) = .open (bcDirichlet (sig σ c)) (bcDirichlet (sig σ a)) := rfl

/-- concrete instance: 3 cells with faces `0, 1, 4, 9`, MUSCL with the minmod limiter, Dirichlet states `1` (left) and
`-1/2` (right), Heun's table, CFL 1/2, stop at `t = 1` with save times `1/2`, `1` -/
example (fuel : ℕ) (q0 : ℕ → ℕ → ℚ) :
    MirroredRun (fun _ => (-1 : ℚ)) 3 (fun _ v => -v)
      ((rkCfg [[1], [1/2, 1/2]]
        (fun _ q => (burgersDisc (facesMesh 3 (fun i => (i : ℚ) * i) 9) (.muscl minmod)
          (.open (bcDirichlet (vec1 1)) (bcDirichlet (vec1 (-1/2))))).rhs q)
        (fun _ q => burgersCfl (1/2) (facesMesh 3 (fun i => (i : ℚ) * i) 9) (by decide) q) (some 1) none [1/2, 1] 0
        [(1, fun _ q => (facesMesh 3 (fun i => (i : ℚ) * i) 9).average (q 0))]).run fuel () 0 q0)
      ((rkCfg [[1], [1/2, 1/2]]
        (fun _ q => (mirrorDisc (fun _ => (-1 : ℚ)) (burgersDisc (facesMesh 3 (fun i => (i : ℚ) * i) 9) (.muscl minmod)
          (.open (bcDirichlet (vec1 1)) (bcDirichlet (vec1 (-1/2)))))).rhs q)
        (fun _ q => burgersCfl (1/2) (mirrorMesh (facesMesh 3 (fun i => (i : ℚ) * i) 9)) (by decide) q) (some 1) none
        [1/2, 1] 0
        [(1, fun _ q => (mirrorMesh (facesMesh 3 (fun i => (i : ℚ) * i) 9)).average (q 0))]).run fuel () 0
        (mirrorData (fun _ => (-1 : ℚ)) 3 q0)) :=
  solve_mirror_burgers (1/2) (facesMesh 3 (fun i => (i : ℚ) * i) 9) (by decide) (.muscl minmod)
    (fun a b => C12.minmod_odd a b) _ 1 (some 1) none [1/2, 1] 0 [[1], [1/2, 1/2]] fuel 0 q0

end burgersMirror

end Flowdyn.C13
