/-
C09 (part d) — MUSCL reconstruction with the Burgers flux (closes the gap "MUSCL Burgers" of C09).

Setting: periodic uniform mesh, `Scheme.muscl lim` with `lim` ANY limiter in Sweby's region (`C09.Sweby`; proved for
minmod, vanalbada, vanleer, superbee in C09b), the model's Burgers flux `burgersFlux` (upwind on the sign of
`uL + uR`, value `uL²/2 = uR²/2` at the tie; not monotone across sonic points), data of ANY sign (sign changes,
sonic points, ties and crossing face states `uL > uR` inside a rising profile all included).

Result: if `|u_j| ≤ M` and `M dt / h ≤ 1/2` (the same bound as for MUSCL convection, C09b/C09c) one forward-Euler
step is TVD and keeps every range `[lo, hi]` (`mburgers_step_tvd`, `mburgers_euler_tvd`); so do `explicit`,
`rk2_heun`, `rk3ssp` (`mburgers_ssp_tvd`, invariant convex set `InRange n (-M) M`) and whole solves of the driver
(`mburgers_run_tvd`).  Data of one sign is the special case `lo = 0` resp. `hi = 0` (`mburgers_ssp_tvd_nonneg`,
`mburgers_ssp_tvd_nonpos`).  No counterexample exists at `M dt / h ≤ 1/2`: the statement is a theorem.  The
first-order bound `M dt / h ≤ 1` is NOT enough: `mburgers_cfl_one_overshoot` (minmod, 3 cells, a new maximum).

Proof.  Face states `a_z = u_z + p_z` (left state of face `z+1/2`), `b_z = u_z - r_z` (right state of face `z-1/2`),
with half-increments `p_z`, `r_z` that are fractions in `[0,1]` of BOTH neighbouring differences (`Adm`; this is all
that is used of the limiter: `sweby_adm`; `p ≠ r` allowed).  For every cell
`F_{z+1/2} - f(u_z) = piR - kaR` and `f(u_z) - F_{z-1/2} = kaR' - piR'` (mirror image `u ↦ -u`, `x ↦ -x`),
where `piR`, `kaR'` are nonnegative multiples of `u_z - u_{z-1}` and `kaR`, `piR'` nonnegative multiples of
`u_{z+1} - u_z` (`right_coeffs`: the two multipliers of one side add up to at most `M`, which gives
`C_z + D_z ≤ 2 lam M`), and the four pieces charged to one difference `u_{z+1} - u_z` (two from each neighbouring cell)
add up to at most `2 M |u_{z+1} - u_z|` (`face_bound`, which gives `C_{z+1} + D_z ≤ 2 lam M`).  Harten's lemma (C09)
then applies (`burgers_muscl_harten`).
-/
import Flowdyn.Props.C09c
import Mathlib.Tactic.Ring
import Mathlib.Tactic.Linarith
import Mathlib.Tactic.NormNum
import Mathlib.Tactic.FieldSimp
import Mathlib.Tactic.Positivity
import Mathlib.Tactic.Choose
import Mathlib.Tactic.LinearCombination

set_option linter.unusedSectionVars false
set_option linter.unusedVariables false

namespace Flowdyn.C09d
open Flowdyn Finset Flowdyn.C09

variable {α : Type} [Field α] [LinearOrder α] [IsStrictOrderedRing α]
variable {n : ℕ} [NeZero n]

/-! ## 1. the discretisation and its residual in cyclic form -/

/-- the periodic MUSCL Burgers discretisation on a uniform mesh -/
def mburgersDisc (lim : α → α → α) (n : ℕ) (L x0 : α) : Disc1D α ℕ :=
  { mesh := uniMesh n L x0, scheme := Scheme.muscl lim, bc := BC1D.periodic, c2p := burgersC2P,
    flux := burgersFluxV, src := fun _ => none }

/-- residual in cyclic indices -/
theorem mburgers_rhs_nat (lim : α → α → α) (L x0 : α) (hL : 0 < L) (q : ℕ → ℕ → α) (i : ℕ) (hi : i < n) :
    (let h := L / n
     let u : ℕ → α := fun j => q 0 (j % n)
     let g : ℕ → α := fun j => (u j - u (j + n - 1)) / h
     (mburgersDisc lim n L x0).rhs q 0 i
       = -(burgersFlux (u i + lim (g (i + 1)) (g i) * (h / 2))
                        (u (i + 1) + lim (g (i + 1)) (g (i + 1 + 1)) * (-(h / 2)))
           - burgersFlux (u (i + n - 1) + lim (g (i + n - 1 + 1)) (g (i + n - 1)) * (h / 2))
                        (u i + lim (g i) (g (i + 1)) * (-(h / 2)))) / h) := by
  intro h u g
  have hn : 0 < n := NeZero.pos n
  have hd : (fun c => burgersC2P (fun l => q l c) 0) = q 0 := by
    funext c; simp only [burgersC2P]
  have hL1 := recLCyc_muscl lim hn h (q 0) (i + 1) i (by rw [show i + 1 + n - 1 = i + n by omega, Nat.add_mod_right])
  have hL0 := recLCyc_muscl lim hn h (q 0) i (i + n - 1) rfl
  have hR1 := recRCyc_muscl lim hn h (q 0) (i + 1)
  have hR0 := recRCyc_muscl lim hn h (q 0) i
  unfold mburgersDisc
  rw [rhs_periodic_uniform_eq_cyc n hn L x0 hL _ _ _ q 0 i hi]
  unfold rhsCyc
  simp only [burgersFluxV, vec1, hd]
  rw [hL1, hL0, hR1, hR0]
  rfl

/-- limited half-increment used for the LEFT state at the right face of cell `z`: `a_z = u_z + sP z` -/
def sP (lim : α → α → α) (h : α) (u : ZMod n → α) (z : ZMod n) : α :=
  lim ((u (z + 1) - u z) / h) ((u z - u (z - 1)) / h) * (h / 2)

/-- limited half-increment used for the RIGHT state at the left face of cell `z`: `b_z = u_z - sR z` -/
def sR (lim : α → α → α) (h : α) (u : ZMod n → α) (z : ZMod n) : α :=
  lim ((u z - u (z - 1)) / h) ((u (z + 1) - u z) / h) * (h / 2)

/-- residual on the cyclic index set `ZMod n` -/
theorem mburgers_rhs (lim : α → α → α) (L x0 : α) (hL : 0 < L) (q : ℕ → ℕ → α) (z : ZMod n) :
    (mburgersDisc lim n L x0).rhs q 0 z.val
      = -(burgersFlux (cycData q z + sP lim (L / n) (cycData q) z)
                       (cycData q (z + 1) - sR lim (L / n) (cycData q) (z + 1))
          - burgersFlux (cycData q (z - 1) + sP lim (L / n) (cycData q) (z - 1))
                       (cycData q z - sR lim (L / n) (cycData q) z)) / (L / n) := by
  have hn : 0 < n := NeZero.pos n
  have hn1 : 1 ≤ n := hn
  have cast_pred : ∀ j : ℕ, ((j + n - 1 : ℕ) : ZMod n) = (j : ZMod n) - 1 := by
    intro j
    rw [Nat.add_sub_assoc hn1, Nat.cast_add, Nat.cast_sub hn1, ZMod.natCast_self, Nat.cast_one, zero_sub,
      sub_eq_add_neg]
  have u_nat : ∀ j : ℕ, q 0 (j % n) = cycData q (j : ZMod n) := by
    intro j
    show _ = q 0 ((j : ZMod n).val)
    rw [ZMod.val_natCast]
  have := mburgers_rhs_nat lim L x0 hL q z.val (ZMod.val_lt z)
  simp only [] at this
  rw [this]
  simp only [u_nat, cast_pred, Nat.cast_add, Nat.cast_one, ZMod.natCast_zmod_val, sub_add_cancel,
    add_sub_cancel_right, sP, sR, mul_neg, ← sub_eq_add_neg]

/-! ## 2. admissible half-increments -/

/-- `x` is a fraction in `[0,1]` of `d`: same sign (or zero) and not larger in modulus -/
def Adm (x d : α) : Prop := 0 ≤ x * d ∧ |x| ≤ |d|

theorem Adm.cases {x d : α} (h : Adm x d) : (0 ≤ x ∧ x ≤ d) ∨ (d ≤ x ∧ x ≤ 0) := by
  obtain ⟨h1, h2⟩ := h
  rcases lt_trichotomy d 0 with hd | hd | hd
  · right
    have hx : x ≤ 0 := by
      by_contra hc
      have := mul_neg_of_pos_of_neg (not_le.mp hc) hd
      linarith
    rw [abs_of_nonpos hx, abs_of_neg hd] at h2
    exact ⟨by linarith, hx⟩
  · subst hd
    rw [abs_zero] at h2
    have : x = 0 := abs_eq_zero.mp (le_antisymm h2 (abs_nonneg x))
    left; rw [this]; exact ⟨le_rfl, le_rfl⟩
  · left
    have hx : 0 ≤ x := nonneg_of_mul_nonneg_left h1 hd
    rw [abs_of_nonneg hx, abs_of_pos hd] at h2
    exact ⟨hx, h2⟩

theorem Adm.ratio {x d : α} (h : Adm x d) : ∃ k, 0 ≤ k ∧ k ≤ 1 ∧ x = k * d := by
  by_cases hd : d = 0
  · subst hd
    rcases h.cases with ⟨a, b⟩ | ⟨a, b⟩ <;>
      exact ⟨0, le_rfl, zero_le_one, by rw [mul_zero]; exact le_antisymm b a⟩
  · refine ⟨x / d, ?_, ?_, by field_simp⟩
    · rcases h.cases with ⟨a, b⟩ | ⟨a, b⟩
      · exact div_nonneg a (le_trans a b)
      · exact div_nonneg_of_nonpos b (le_trans a b)
    · rcases h.cases with ⟨a, b⟩ | ⟨a, b⟩
      · have : 0 < d := lt_of_le_of_ne (le_trans a b) (Ne.symm hd)
        rw [div_le_one this]; exact b
      · have : d < 0 := lt_of_le_of_ne (le_trans a b) hd
        rw [div_le_one_of_neg this]; exact a

theorem Adm.zero_right {x : α} (h : Adm x 0) : x = 0 := by
  rcases h.cases with ⟨a, b⟩ | ⟨a, b⟩ <;> exact le_antisymm (by assumption) (by assumption)

/-- the half-increments built by a Sweby-region limiter from two consecutive differences `a`, `b` are admissible
fractions of both -/
theorem sweby_adm {lim : α → α → α} (hlim : Sweby lim) (h : α) (hh : 0 < h) (a b : α) :
    Adm (lim (a / h) (b / h) * (h / 2)) a ∧ Adm (lim (a / h) (b / h) * (h / 2)) b := by
  have hb := hlim.bound (a / h) (b / h)
  rw [abs_div, abs_div, abs_of_pos hh] at hb
  have habs : |lim (a / h) (b / h) * (h / 2)| = |lim (a / h) (b / h)| * (h / 2) := by
    rw [abs_mul, abs_of_pos (by positivity : 0 < h / 2)]
  have h2 : (0:α) < h / 2 := by positivity
  refine ⟨⟨?_, ?_⟩, ⟨?_, ?_⟩⟩
  · have := hlim.sign (a / h) (b / h)
    have e : lim (a / h) (b / h) * (h / 2) * a = lim (a / h) (b / h) * (a / h) * (h * h / 2) := by
      field_simp
    rw [e]; exact mul_nonneg this (by positivity)
  · rw [habs]
    have : |lim (a / h) (b / h)| ≤ 2 * (|a| / h) := le_trans hb (mul_le_mul_of_nonneg_left (min_le_left _ _) (by norm_num))
    calc |lim (a / h) (b / h)| * (h / 2) ≤ 2 * (|a| / h) * (h / 2) := mul_le_mul_of_nonneg_right this h2.le
      _ = |a| := by field_simp
  · have := hlim.sign_right (a / h) (b / h)
    have e : lim (a / h) (b / h) * (h / 2) * b = lim (a / h) (b / h) * (b / h) * (h * h / 2) := by
      field_simp
    rw [e]; exact mul_nonneg this (by positivity)
  · rw [habs]
    have : |lim (a / h) (b / h)| ≤ 2 * (|b| / h) := le_trans hb (mul_le_mul_of_nonneg_left (min_le_right _ _) (by norm_num))
    calc |lim (a / h) (b / h)| * (h / 2) ≤ 2 * (|b| / h) * (h / 2) := mul_le_mul_of_nonneg_right this h2.le
      _ = |b| := by field_simp

/-! ## 3. splitting of the face flux increments -/

/-- the part of `F(a_z, b_{z+1}) - f(u_z)` (`a_z = uz + pz`, `b_{z+1} = up - rp`) that is charged to the left
difference `u_z - u_{z-1}` -/
def piR (uz up pz rp : α) : α :=
  if 0 ≤ (uz + pz) + (up - rp) then (if 0 ≤ (uz + pz) + uz then (uz + pz) ^ 2 / 2 - uz ^ 2 / 2 else 0)
  else (if (up - rp) + uz ≤ 0 then 0 else -pz * ((up - rp) - uz) / 2)

/-- minus the part of `F(a_z, b_{z+1}) - f(u_z)` that is charged to the right difference `u_{z+1} - u_z` -/
def kaR (uz up pz rp : α) : α :=
  if 0 ≤ (uz + pz) + (up - rp) then (if 0 ≤ (uz + pz) + uz then 0 else uz ^ 2 / 2 - (uz + pz) ^ 2 / 2)
  else (if (up - rp) + uz ≤ 0 then uz ^ 2 / 2 - (up - rp) ^ 2 / 2
        else -((uz + pz) + (up - rp)) / 2 * ((up - rp) - uz))

theorem flux_split (uz up pz rp : α) :
    burgersFlux (uz + pz) (up - rp) - uz ^ 2 / 2 = piR uz up pz rp - kaR uz up pz rp := by
  unfold burgersFlux burgersFluxG piR kaR
  simp only []
  split_ifs <;> first | ring1 | (exfalso; linarith)

theorem burgersFlux_mirror (a b : α) : burgersFlux (-b) (-a) = burgersFlux a b := by
  unfold burgersFlux burgersFluxG
  simp only []
  split_ifs with h1 h2 h3 h4 h5 h6 <;> first | ring1 | (exfalso; linarith) | skip
  · have : a = -b := by linarith
    rw [this]

/-- both parts are nonnegative multiples of "their" difference, and the two multipliers add up to at most `M` -/
theorem right_coeffs (uz up dm pz rp M : α) (hpm : Adm pz dm) (hpp : Adm pz (up - uz)) (hrp : Adm rp (up - uz))
    (hz : |uz| ≤ M) (hp : |up| ≤ M) (hm : |uz - dm| ≤ M) :
    ∃ c d, 0 ≤ c ∧ 0 ≤ d ∧ piR uz up pz rp = c * dm ∧ kaR uz up pz rp = d * (up - uz) ∧ c + d ≤ M := by
  obtain ⟨g', hg'0, hg'1, hg'⟩ := hpm.ratio
  obtain ⟨g, hg0, hg1, hg⟩ := hpp.ratio
  obtain ⟨δ, hδ0, hδ1, hδ⟩ := hrp.ratio
  obtain ⟨hz1, hz2⟩ := abs_le.mp hz
  obtain ⟨hp1, hp2⟩ := abs_le.mp hp
  obtain ⟨hm1, hm2⟩ := abs_le.mp hm
  have hA : -M ≤ uz + pz ∧ uz + pz ≤ M := by
    rcases hpp.cases with ⟨a, b⟩ | ⟨a, b⟩ <;> constructor <;> linarith
  have hB : -M ≤ up - rp ∧ up - rp ≤ M := by
    rcases hrp.cases with ⟨a, b⟩ | ⟨a, b⟩ <;> constructor <;> linarith
  unfold piR kaR
  split_ifs with h1 h2 h3
  · refine ⟨(uz + pz / 2) * g', 0, ?_, le_rfl, ?_, ?_, ?_⟩
    · exact mul_nonneg (by linarith) hg'0
    · linear_combination (uz + pz / 2) * hg'
    · ring
    · have : (uz + pz / 2) * g' ≤ (uz + pz / 2) * 1 := mul_le_mul_of_nonneg_left hg'1 (by linarith)
      linarith [hA.2]
  · refine ⟨0, -(uz + pz / 2) * g, le_rfl, ?_, ?_, ?_, ?_⟩
    · exact mul_nonneg (by linarith) hg0
    · ring
    · linear_combination (-(uz + pz / 2)) * hg
    · have : -(uz + pz / 2) * g ≤ -(uz + pz / 2) * 1 := mul_le_mul_of_nonneg_left hg1 (by linarith)
      linarith [hA.1]
  · refine ⟨0, -(uz + (up - rp)) / 2 * (1 - δ), le_rfl, ?_, ?_, ?_, ?_⟩
    · exact mul_nonneg (by linarith) (by linarith)
    · ring
    · linear_combination ((uz + (up - rp)) / 2) * hδ
    · have : -(uz + (up - rp)) / 2 * (1 - δ) ≤ -(uz + (up - rp)) / 2 * 1 :=
        mul_le_mul_of_nonneg_left (by linarith) (by linarith)
      linarith [hB.1]
  · have hpz : pz < 0 := by linarith
    have hdm : dm ≤ pz := by
      rcases hpm.cases with ⟨a, b⟩ | ⟨a, b⟩
      · linarith
      · exact a
    have hdp : up - uz ≤ pz := by
      rcases hpp.cases with ⟨a, b⟩ | ⟨a, b⟩
      · linarith
      · exact a
    have hrp' : up - uz ≤ rp := by
      rcases hrp.cases with ⟨a, b⟩ | ⟨a, b⟩
      · linarith
      · exact a
    refine ⟨-g' * ((up - rp) - uz) / 2, -((uz + pz) + (up - rp)) / 2 * (1 - δ), ?_, ?_, ?_, ?_, ?_⟩
    · have : 0 ≤ g' * (uz - (up - rp)) := mul_nonneg hg'0 (by linarith)
      linarith
    · exact mul_nonneg (by linarith) (by linarith)
    · linear_combination (-((up - rp) - uz) / 2) * hg'
    · linear_combination (((uz + pz) + (up - rp)) / 2) * hδ
    · have e1 : g' * (uz - (up - rp)) ≤ 1 * (uz - (up - rp)) :=
        mul_le_mul_of_nonneg_right hg'1 (by linarith)
      have e2 : -((uz + pz) + (up - rp)) / 2 * (1 - δ) ≤ -((uz + pz) + (up - rp)) / 2 * 1 :=
        mul_le_mul_of_nonneg_left (by linarith) (by linarith)
      linarith

/-- the part charged to the left difference is bounded by the half-increment `pz` times the largest of the three
speeds `u_z`, `(u_z + a_z)/2`, `0` -/
theorem piR_bound (uz up pz rp : α) (hpp : Adm pz (up - uz)) (hrp : Adm rp (up - uz)) :
    |piR uz up pz rp| ≤ |pz| * max (max uz (uz + pz / 2)) 0 := by
  have hmax0 : 0 ≤ |pz| * max (max uz (uz + pz / 2)) 0 := mul_nonneg (abs_nonneg _) (le_max_right _ _)
  unfold piR
  split_ifs with h1 h2 h3
  · have e : (uz + pz) ^ 2 / 2 - uz ^ 2 / 2 = pz * (uz + pz / 2) := by ring
    rw [e, abs_mul, abs_of_nonneg (by linarith : 0 ≤ uz + pz / 2)]
    exact mul_le_mul_of_nonneg_left (le_trans (le_max_right _ _) (le_max_left _ _)) (abs_nonneg _)
  · rw [abs_zero]; exact hmax0
  · rw [abs_zero]; exact hmax0
  · have hpz : pz < 0 := by linarith
    have hdp : up - uz ≤ pz := by
      rcases hpp.cases with ⟨a, b⟩ | ⟨a, b⟩
      · linarith
      · exact a
    have hrp' : up - uz ≤ rp := by
      rcases hrp.cases with ⟨a, b⟩ | ⟨a, b⟩
      · linarith
      · exact a
    have e : -pz * ((up - rp) - uz) / 2 = pz * ((uz - (up - rp)) / 2) := by ring
    rw [e, abs_mul, abs_of_nonneg (by linarith : 0 ≤ (uz - (up - rp)) / 2)]
    refine mul_le_mul_of_nonneg_left (le_trans ?_ (le_trans (le_max_left _ _) (le_max_left _ _))) (abs_nonneg _)
    linarith

/-! ## 4. the face estimate (total variation) -/

theorem kaR_eval_nonneg (uz up pz rp : α) (hs : 0 ≤ (uz + pz) + (up - rp)) :
    kaR uz up pz rp = if 0 ≤ (uz + pz) + uz then 0 else uz ^ 2 / 2 - (uz + pz) ^ 2 / 2 := by
  unfold kaR; rw [if_pos hs]

/-- the mirrored piece at a face with positive speed -/
theorem kaR_mirror_eval_pos (ui uj pi rj : α) (hs : 0 < (ui + pi) + (uj - rj)) :
    kaR (-uj) (-ui) rj pi
      = if 0 ≤ (ui + pi) + uj then uj ^ 2 / 2 - (ui + pi) ^ 2 / 2
        else ((ui + pi) + (uj - rj)) / 2 * (uj - (ui + pi)) := by
  unfold kaR
  rw [if_neg (by linarith)]
  split_ifs with h1 h2 h2
  · ring
  · exfalso; linarith
  · exfalso; linarith
  · ring

/-- the mirrored piece at a face with zero speed -/
theorem kaR_mirror_eval_tie (ui uj pi rj : α) (hs : (ui + pi) + (uj - rj) = 0) :
    kaR (-uj) (-ui) rj pi
      = if (uj - rj) + uj ≤ 0 then 0 else uj ^ 2 / 2 - (ui + pi) ^ 2 / 2 := by
  unfold kaR
  rw [if_pos (by linarith)]
  have e : ui + pi = -(uj - rj) := by linarith
  split_ifs with h1 h2 h2
  · rfl
  · exfalso; linarith
  · exfalso; linarith
  · rw [e]; ring

theorem Adm.of_nonneg {x d : α} (h : Adm x d) (hd : 0 ≤ d) : 0 ≤ x ∧ x ≤ d := by
  rcases h.cases with ⟨a, b⟩ | ⟨a, b⟩
  · exact ⟨a, b⟩
  · exact ⟨by linarith, by linarith⟩

theorem Adm.of_nonpos {x d : α} (h : Adm x d) (hd : d ≤ 0) : d ≤ x ∧ x ≤ 0 := by
  rcases h.cases with ⟨a, b⟩ | ⟨a, b⟩
  · exact ⟨by linarith, by linarith⟩
  · exact ⟨a, b⟩

/-- face estimate, face speed `(a_i + b_{i+1})/2 ≥ 0` -/
theorem face_bound_aux (ui uj pi ri pj rj M : α)
    (hpi : Adm pi (uj - ui)) (hri : Adm ri (uj - ui)) (hpj : Adm pj (uj - ui)) (hrj : Adm rj (uj - ui))
    (hi : |ui| ≤ M) (hj : |uj| ≤ M) (hbi : |ui - ri| ≤ M) (haj : |uj + pj| ≤ M)
    (hs : 0 ≤ (ui + pi) + (uj - rj)) :
    |pj| * max (max uj (uj + pj / 2)) 0 + |ri| * max (max (-ui) (-ui + ri / 2)) 0
      + |kaR ui uj pi rj| + |kaR (-uj) (-ui) rj pi| ≤ 2 * M * |uj - ui| := by
  obtain ⟨hi1, hi2⟩ := abs_le.mp hi
  obtain ⟨hj1, hj2⟩ := abs_le.mp hj
  obtain ⟨hb1, hb2⟩ := abs_le.mp hbi
  obtain ⟨ha1, ha2⟩ := abs_le.mp haj
  have hM : 0 ≤ M := le_trans (abs_nonneg _) hi
  have haM : -M ≤ ui + pi ∧ ui + pi ≤ M := by
    rcases hpi.cases with ⟨x, y⟩ | ⟨x, y⟩ <;> constructor <;> linarith
  have hbM : -M ≤ uj - rj ∧ uj - rj ≤ M := by
    rcases hrj.cases with ⟨x, y⟩ | ⟨x, y⟩ <;> constructor <;> linarith
  have hK1 : |kaR ui uj pi rj| ≤ M * |pi| := by
    rw [kaR_eval_nonneg _ _ _ _ hs]
    split_ifs with h
    · rw [abs_zero]; exact mul_nonneg hM (abs_nonneg _)
    · have e : ui ^ 2 / 2 - (ui + pi) ^ 2 / 2 = -((ui + (ui + pi)) / 2) * pi := by ring
      rw [e, abs_mul]
      apply mul_le_mul_of_nonneg_right _ (abs_nonneg _)
      rw [abs_neg, abs_le]; constructor <;> linarith
  have hK2 : |kaR (-uj) (-ui) rj pi| ≤ M * |uj - (ui + pi)| := by
    have key : |uj ^ 2 / 2 - (ui + pi) ^ 2 / 2| ≤ M * |uj - (ui + pi)| := by
      have e : uj ^ 2 / 2 - (ui + pi) ^ 2 / 2 = ((uj + (ui + pi)) / 2) * (uj - (ui + pi)) := by ring
      rw [e, abs_mul]
      apply mul_le_mul_of_nonneg_right _ (abs_nonneg _)
      rw [abs_le]; constructor <;> linarith
    rcases hs.lt_or_eq with hs' | hs'
    · rw [kaR_mirror_eval_pos _ _ _ _ hs']
      split_ifs with h
      · exact key
      · rw [abs_mul]
        apply mul_le_mul_of_nonneg_right _ (abs_nonneg _)
        rw [abs_le]; constructor <;> linarith
    · rw [kaR_mirror_eval_tie _ _ _ _ hs'.symm]
      split_ifs with h
      · rw [abs_zero]; exact mul_nonneg hM (abs_nonneg _)
      · exact key
  rcases le_total 0 (uj - ui) with hd | hd
  · -- expansive face
    obtain ⟨p1, p2⟩ := hpi.of_nonneg hd
    obtain ⟨r1, r2⟩ := hri.of_nonneg hd
    obtain ⟨q1, q2⟩ := hpj.of_nonneg hd
    obtain ⟨s1, s2⟩ := hrj.of_nonneg hd
    have hK12 : |kaR ui uj pi rj| + |kaR (-uj) (-ui) rj pi| ≤ M * (uj - ui) := by
      rw [abs_of_nonneg p1] at hK1
      rw [abs_of_nonneg (by linarith : 0 ≤ uj - (ui + pi))] at hK2
      linarith
    rw [abs_of_nonneg hd, abs_of_nonneg q1, abs_of_nonneg r1,
      max_eq_right (by linarith : uj ≤ uj + pj / 2), max_eq_right (by linarith : -ui ≤ -ui + ri / 2)]
    have hT1 : pj * max (uj + pj / 2) 0 ≤ M * (uj - ui) := by
      have : max (uj + pj / 2) 0 ≤ M := max_le (by linarith) hM
      calc pj * max (uj + pj / 2) 0 ≤ pj * M := mul_le_mul_of_nonneg_left this q1
        _ ≤ M * (uj - ui) := by rw [mul_comm]; exact mul_le_mul_of_nonneg_left q2 hM
    have hT2 : ri * max (-ui + ri / 2) 0 ≤ M * (uj - ui) := by
      have : max (-ui + ri / 2) 0 ≤ M := max_le (by linarith) hM
      calc ri * max (-ui + ri / 2) 0 ≤ ri * M := mul_le_mul_of_nonneg_left this r1
        _ ≤ M * (uj - ui) := by rw [mul_comm]; exact mul_le_mul_of_nonneg_left r2 hM
    by_cases h1 : uj + pj / 2 ≤ 0
    · rw [max_eq_right h1, mul_zero]; linarith
    by_cases h2 : -ui + ri / 2 ≤ 0
    · rw [max_eq_right h2, mul_zero]; linarith
    have h1' := not_le.mp h1
    have h2' := not_le.mp h2
    rw [max_eq_left h1'.le, max_eq_left h2'.le]
    -- both outer pieces active
    have hK1' : |kaR ui uj pi rj| ≤ ui ^ 2 / 2 := by
      rw [kaR_eval_nonneg _ _ _ _ hs]
      split_ifs with h
      · rw [abs_zero]; positivity
      · have h3 := mul_nonneg p1 (by linarith : 0 ≤ -(ui + pi + ui))
        have : 0 ≤ ui ^ 2 / 2 - (ui + pi) ^ 2 / 2 := by linarith
        rw [abs_of_nonneg this]; linarith [sq_nonneg (ui + pi)]
    have hK2' : |kaR (-uj) (-ui) rj pi| ≤ uj ^ 2 / 2 := by
      rcases hs.lt_or_eq with hs' | hs'
      · rw [kaR_mirror_eval_pos _ _ _ _ hs', if_pos (by linarith)]
        have h3 := mul_nonneg (by linarith : 0 ≤ uj - (ui + pi)) (by linarith : 0 ≤ uj + (ui + pi))
        have : 0 ≤ uj ^ 2 / 2 - (ui + pi) ^ 2 / 2 := by linarith
        rw [abs_of_nonneg this]; linarith [sq_nonneg (ui + pi)]
      · rw [kaR_mirror_eval_tie _ _ _ _ hs'.symm]
        split_ifs with h
        · rw [abs_zero]; positivity
        · have h3 := mul_nonneg (by linarith : 0 ≤ uj - (ui + pi)) (by linarith : 0 ≤ uj + (ui + pi))
          have : 0 ≤ uj ^ 2 / 2 - (ui + pi) ^ 2 / 2 := by linarith
          rw [abs_of_nonneg this]; linarith [sq_nonneg (ui + pi)]
    have hA : (uj + pj) ^ 2 ≤ M * (uj + pj) := by
      have := mul_le_mul_of_nonneg_right ha2 (by linarith : 0 ≤ uj + pj)
      linarith
    have hB : (ui - ri) ^ 2 ≤ M * (-(ui - ri)) := by
      have := mul_le_mul_of_nonneg_right (by linarith : -(ui - ri) ≤ M) (by linarith : 0 ≤ -(ui - ri))
      linarith
    have hMd : M * pj ≤ M * (uj - ui) := mul_le_mul_of_nonneg_left q2 hM
    have hMr : M * ri ≤ M * (uj - ui) := mul_le_mul_of_nonneg_left r2 hM
    have hMD : 0 ≤ M * (uj - ui) := mul_nonneg hM hd
    linarith
  · -- compressive face
    obtain ⟨p1, p2⟩ := hpi.of_nonpos hd
    obtain ⟨r1, r2⟩ := hri.of_nonpos hd
    obtain ⟨q1, q2⟩ := hpj.of_nonpos hd
    obtain ⟨s1, s2⟩ := hrj.of_nonpos hd
    have hK12 : |kaR ui uj pi rj| + |kaR (-uj) (-ui) rj pi| ≤ M * (-(uj - ui)) := by
      rw [abs_of_nonpos p2] at hK1
      rw [abs_of_nonpos (by linarith : uj - (ui + pi) ≤ 0)] at hK2
      linarith
    rw [abs_of_nonpos hd, abs_of_nonpos q2, abs_of_nonpos r2,
      max_eq_left (by linarith : uj + pj / 2 ≤ uj), max_eq_left (by linarith : -ui + ri / 2 ≤ -ui)]
    have hMq : M * (-pj) ≤ M * (-(uj - ui)) := mul_le_mul_of_nonneg_left (by linarith) hM
    have hMr : M * (-ri) ≤ M * (-(uj - ui)) := mul_le_mul_of_nonneg_left (by linarith) hM
    by_cases h1 : uj ≤ 0
    · rw [max_eq_right h1, mul_zero]
      have : max (-ui) 0 ≤ M := max_le (by linarith) hM
      have := mul_le_mul_of_nonneg_left this (by linarith : 0 ≤ -ri)
      linarith
    · have h1' := not_le.mp h1
      rw [max_eq_right (by linarith : -ui ≤ 0), mul_zero]
      have : max uj 0 ≤ M := max_le (by linarith) hM
      have := mul_le_mul_of_nonneg_left this (by linarith : 0 ≤ -pj)
      linarith

/-- **face estimate**: the four pieces charged to the difference `u_{i+1} - u_i` (two from each neighbouring cell)
add up to at most `2 M |u_{i+1} - u_i|` -/
theorem face_bound (ui uj pi ri pj rj M : α)
    (hpi : Adm pi (uj - ui)) (hri : Adm ri (uj - ui)) (hpj : Adm pj (uj - ui)) (hrj : Adm rj (uj - ui))
    (hi : |ui| ≤ M) (hj : |uj| ≤ M) (hbi : |ui - ri| ≤ M) (haj : |uj + pj| ≤ M) :
    |pj| * max (max uj (uj + pj / 2)) 0 + |ri| * max (max (-ui) (-ui + ri / 2)) 0
      + |kaR ui uj pi rj| + |kaR (-uj) (-ui) rj pi| ≤ 2 * M * |uj - ui| := by
  rcases le_or_gt 0 ((ui + pi) + (uj - rj)) with hs | hs
  · exact face_bound_aux ui uj pi ri pj rj M hpi hri hpj hrj hi hj hbi haj hs
  · have e : -ui - -uj = uj - ui := by ring
    have := face_bound_aux (-uj) (-ui) rj pj ri pi M (by rw [e]; exact hrj) (by rw [e]; exact hpj)
      (by rw [e]; exact hri) (by rw [e]; exact hpi) (by rw [abs_neg]; exact hj) (by rw [abs_neg]; exact hi)
      (by rw [show -uj - pj = -(uj + pj) by ring, abs_neg]; exact haj)
      (by rw [show -ui + ri = -(ui - ri) by ring, abs_neg]; exact hbi) (by linarith)
    rw [e, neg_neg, neg_neg] at this
    linarith

/-! ## 5. Harten form of the MUSCL Burgers step on the cyclic index set -/

theorem ite_zero_mul (d x : α) : (if d = 0 then 0 else x) * d = x * d := by
  split_ifs with h
  · rw [h, mul_zero, mul_zero]
  · rfl

/-- **Harten form.**  `u` cell values with `|u_z| ≤ M`, `p`, `r` any admissible half-increments (fractions in `[0,1]`
of both neighbouring differences), face states `a_z = u_z + p_z` (left state of face `z+1/2`) and
`b_z = u_z - r_z` (right state of face `z-1/2`), the model's Burgers flux, `lam M ≤ 1/2`: the update is in
incremental form with coefficients `C, D ≥ 0`, `C_z + D_z ≤ 1`, `C_{z+1} + D_z ≤ 1`.  No sign condition on the data. -/
theorem burgers_muscl_harten (u p r : ZMod n → α) (lam M : α) (hlam : 0 ≤ lam) (hcfl : lam * M ≤ 1 / 2)
    (hu : ∀ z, |u z| ≤ M)
    (hp1 : ∀ z, Adm (p z) (u z - u (z - 1))) (hp2 : ∀ z, Adm (p z) (u (z + 1) - u z))
    (hr1 : ∀ z, Adm (r z) (u z - u (z - 1))) (hr2 : ∀ z, Adm (r z) (u (z + 1) - u z)) :
    ∃ C D : ZMod n → α, (∀ z, 0 ≤ C z) ∧ (∀ z, 0 ≤ D z) ∧ (∀ z, C z + D z ≤ 1) ∧ (∀ z, C (z + 1) + D z ≤ 1) ∧
      (fun z => u z - lam * (burgersFlux (u z + p z) (u (z + 1) - r (z + 1))
                  - burgersFlux (u (z - 1) + p (z - 1)) (u z - r z))) = incr u C D := by
  have hM : 0 ≤ M := le_trans (abs_nonneg _) (hu 0)
  have e : ∀ z, -u (z - 1) - -u z = u z - u (z - 1) := fun z => by ring
  have hr1' : ∀ z, Adm (r (z + 1)) (u (z + 1) - u z) := fun z => by
    have := hr1 (z + 1); rwa [add_sub_cancel_right] at this
  have hp1' : ∀ z, Adm (p (z + 1)) (u (z + 1) - u z) := fun z => by
    have := hp1 (z + 1); rwa [add_sub_cancel_right] at this
  have hp2' : ∀ z, Adm (p (z - 1)) (u z - u (z - 1)) := fun z => by
    have := hp2 (z - 1); rwa [sub_add_cancel] at this
  have hR : ∀ z, ∃ c d, 0 ≤ c ∧ 0 ≤ d ∧ piR (u z) (u (z + 1)) (p z) (r (z + 1)) = c * (u z - u (z - 1))
      ∧ kaR (u z) (u (z + 1)) (p z) (r (z + 1)) = d * (u (z + 1) - u z) ∧ c + d ≤ M := fun z =>
    right_coeffs (u z) (u (z + 1)) (u z - u (z - 1)) (p z) (r (z + 1)) M (hp1 z) (hp2 z) (hr1' z) (hu z) (hu (z + 1))
      (by rw [sub_sub_cancel]; exact hu (z - 1))
  have hL : ∀ z, ∃ c d, 0 ≤ c ∧ 0 ≤ d ∧ piR (-u z) (-u (z - 1)) (r z) (p (z - 1)) = c * (u (z + 1) - u z)
      ∧ kaR (-u z) (-u (z - 1)) (r z) (p (z - 1)) = d * (-u (z - 1) - -u z) ∧ c + d ≤ M := fun z =>
    right_coeffs (-u z) (-u (z - 1)) (u (z + 1) - u z) (r z) (p (z - 1)) M (hr2 z) (by rw [e]; exact hr1 z)
      (by rw [e]; exact hp2' z) (by rw [abs_neg]; exact hu z) (by rw [abs_neg]; exact hu (z - 1))
      (by rw [show -u z - (u (z + 1) - u z) = -u (z + 1) by ring, abs_neg]; exact hu (z + 1))
  choose cR dR hcR hdR hPR hKR hRM using hR
  choose cL dL hcL hdL hPL hKL hLM using hL
  refine ⟨fun z => if u z - u (z - 1) = 0 then 0 else lam * (cR z + dL z),
    fun z => if u (z + 1) - u z = 0 then 0 else lam * (dR z + cL z), ?_, ?_, ?_, ?_, ?_⟩
  · intro z; show 0 ≤ ite _ _ _
    split_ifs
    · exact le_rfl
    · exact mul_nonneg hlam (add_nonneg (hcR z) (hdL z))
  · intro z; show 0 ≤ ite _ _ _
    split_ifs
    · exact le_rfl
    · exact mul_nonneg hlam (add_nonneg (hdR z) (hcL z))
  · intro z
    have h1 : (if u z - u (z - 1) = 0 then 0 else lam * (cR z + dL z)) ≤ lam * (cR z + dL z) := by
      split_ifs
      · exact mul_nonneg hlam (add_nonneg (hcR z) (hdL z))
      · exact le_rfl
    have h2 : (if u (z + 1) - u z = 0 then 0 else lam * (dR z + cL z)) ≤ lam * (dR z + cL z) := by
      split_ifs
      · exact mul_nonneg hlam (add_nonneg (hdR z) (hcL z))
      · exact le_rfl
    have h3 : lam * (cR z + dL z + (dR z + cL z)) ≤ lam * (2 * M) :=
      mul_le_mul_of_nonneg_left (by linarith [hRM z, hLM z]) hlam
    show ite _ _ _ + ite _ _ _ ≤ 1
    linarith
  · intro z
    show ite _ _ _ + ite _ _ _ ≤ 1
    rw [add_sub_cancel_right]
    by_cases hd : u (z + 1) - u z = 0
    · rw [if_pos hd, if_pos hd]; norm_num
    · rw [if_neg hd, if_neg hd]
      have hdpos : 0 < |u (z + 1) - u z| := abs_pos.mpr hd
      -- the four pieces as absolute values
      have a1 : |piR (u (z + 1)) (u (z + 1 + 1)) (p (z + 1)) (r (z + 1 + 1))| = cR (z + 1) * |u (z + 1) - u z| := by
        rw [hPR (z + 1), add_sub_cancel_right, abs_mul, abs_of_nonneg (hcR (z + 1))]
      have a2 : |kaR (-u (z + 1)) (-u z) (r (z + 1)) (p z)| = dL (z + 1) * |u (z + 1) - u z| := by
        have := hKL (z + 1)
        rw [add_sub_cancel_right] at this
        rw [this, abs_mul, abs_of_nonneg (hdL (z + 1)), show -u z - -u (z + 1) = u (z + 1) - u z by ring]
      have a3 : |kaR (u z) (u (z + 1)) (p z) (r (z + 1))| = dR z * |u (z + 1) - u z| := by
        rw [hKR z, abs_mul, abs_of_nonneg (hdR z)]
      have a4 : |piR (-u z) (-u (z - 1)) (r z) (p (z - 1))| = cL z * |u (z + 1) - u z| := by
        rw [hPL z, abs_mul, abs_of_nonneg (hcL z)]
      have b1 := piR_bound (u (z + 1)) (u (z + 1 + 1)) (p (z + 1)) (r (z + 1 + 1)) (hp2 (z + 1)) (hr1' (z + 1))
      have b4 := piR_bound (-u z) (-u (z - 1)) (r z) (p (z - 1)) (by rw [e]; exact hr1 z) (by rw [e]; exact hp2' z)
      have hbi : |u z - r z| ≤ M := by
        have h1 := abs_le.mp (hu z)
        have h2 := abs_le.mp (hu (z - 1))
        rw [abs_le]
        rcases (hr1 z).cases with ⟨x, y⟩ | ⟨x, y⟩ <;> constructor <;> linarith
      have haj : |u (z + 1) + p (z + 1)| ≤ M := by
        have h1 := abs_le.mp (hu (z + 1))
        have h2 := abs_le.mp (hu (z + 1 + 1))
        rw [abs_le]
        rcases (hp2 (z + 1)).cases with ⟨x, y⟩ | ⟨x, y⟩ <;> constructor <;> linarith
      have fb := face_bound (u z) (u (z + 1)) (p z) (r z) (p (z + 1)) (r (z + 1)) M (hp2 z) (hr2 z) (hp1' z) (hr1' z)
        (hu z) (hu (z + 1)) hbi haj
      have hsum : (cR (z + 1) + dL (z + 1) + dR z + cL z) * |u (z + 1) - u z| ≤ 2 * M * |u (z + 1) - u z| := by
        calc (cR (z + 1) + dL (z + 1) + dR z + cL z) * |u (z + 1) - u z|
            = |piR (u (z + 1)) (u (z + 1 + 1)) (p (z + 1)) (r (z + 1 + 1))|
              + |piR (-u z) (-u (z - 1)) (r z) (p (z - 1))| + |kaR (u z) (u (z + 1)) (p z) (r (z + 1))|
              + |kaR (-u (z + 1)) (-u z) (r (z + 1)) (p z)| := by rw [a1, a2, a3, a4]; ring
          _ ≤ _ := by linarith
      have hle : cR (z + 1) + dL (z + 1) + dR z + cL z ≤ 2 * M := le_of_mul_le_mul_right hsum hdpos
      have := mul_le_mul_of_nonneg_left hle hlam
      linarith
  · funext z
    have hm : burgersFlux (-u z + r z) (-u (z - 1) - p (z - 1))
        = burgersFlux (u (z - 1) + p (z - 1)) (u z - r z) := by
      rw [← burgersFlux_mirror (u (z - 1) + p (z - 1)) (u z - r z)]
      congr 1 <;> ring
    have s1 := flux_split (u z) (u (z + 1)) (p z) (r (z + 1))
    have s2 := flux_split (-u z) (-u (z - 1)) (r z) (p (z - 1))
    rw [hm, hPL z, hKL z, e] at s2
    rw [hPR z, hKR z] at s1
    show _ = u z - (if u z - u (z - 1) = 0 then 0 else lam * (cR z + dL z)) * (u z - u (z - 1))
      + (if u (z + 1) - u z = 0 then 0 else lam * (dR z + cL z)) * (u (z + 1) - u z)
    rw [ite_zero_mul, ite_zero_mul]
    linear_combination (-lam) * s1 + lam * s2

/-! ## 6. the model: one forward-Euler step, SSP integrators, whole solves -/

/-- **MUSCL (any Sweby-region limiter) + Burgers flux, data of any sign, `|u_j| ≤ M`, `M dt / h ≤ 1/2`:
one forward-Euler step of the periodic uniform pipeline is TVD and keeps every range** -/
theorem mburgers_step_tvd (lim : α → α → α) (hlim : Sweby lim) (dt : α) (hdt : 0 ≤ dt) (L x0 : α) (hL : 0 < L)
    (M : α) (q : ℕ → ℕ → α) (hM : ∀ i, i < n → |q 0 i| ≤ M) (hcfl : M * dt / (L / n) ≤ 1 / 2) :
    (let u : ZMod n → α := fun z => q 0 z.val
     let u' : ZMod n → α := fun z => q 0 z.val + dt * (mburgersDisc lim n L x0).rhs q 0 z.val
     tv u' ≤ tv u ∧ ∀ lo hi, (∀ z, lo ≤ u z ∧ u z ≤ hi) → ∀ z, lo ≤ u' z ∧ u' z ≤ hi) := by
  intro u u'
  have hnα : (0 : α) < n := Nat.cast_pos.mpr (NeZero.pos n)
  have hpos : 0 < L / n := div_pos hL hnα
  have hu : ∀ z : ZMod n, |u z| ≤ M := fun z => hM z.val (ZMod.val_lt z)
  obtain ⟨C, D, hC, hD, hCD, hCD', hform⟩ :=
    burgers_muscl_harten u (sP lim (L / n) u) (sR lim (L / n) u) (dt / (L / n)) M (div_nonneg hdt hpos.le)
      (by rw [div_mul_eq_mul_div, mul_comm]; exact hcfl) hu
      (fun z => (sweby_adm hlim (L / n) hpos (u (z + 1) - u z) (u z - u (z - 1))).2)
      (fun z => (sweby_adm hlim (L / n) hpos (u (z + 1) - u z) (u z - u (z - 1))).1)
      (fun z => (sweby_adm hlim (L / n) hpos (u z - u (z - 1)) (u (z + 1) - u z)).1)
      (fun z => (sweby_adm hlim (L / n) hpos (u z - u (z - 1)) (u (z + 1) - u z)).2)
  have hu' : u' = incr u C D := by
    rw [← hform]
    funext z
    show q 0 z.val + dt * (mburgersDisc lim n L x0).rhs q 0 z.val = _
    rw [mburgers_rhs lim L x0 hL q z]
    show u z + dt * (-(burgersFlux (u z + sP lim (L / n) u z) (u (z + 1) - sR lim (L / n) u (z + 1))
        - burgersFlux (u (z - 1) + sP lim (L / n) u (z - 1)) (u z - sR lim (L / n) u z)) / (L / n)) = _
    ring
  rw [hu']
  exact ⟨harten_tvd u C D hC hD hCD', fun lo hi hb z =>
    harten_max_principle u C D hC hD hCD lo hi (fun z => (hb z).1) (fun z => (hb z).2) z⟩

/-- data-level form: on the set `|u_j| ≤ M` the Euler step keeps the set, is TVD and keeps every range -/
theorem mburgers_euler_tvd (lim : α → α → α) (hlim : Sweby lim) (dt : α) (hdt : 0 ≤ dt) (L x0 : α) (hL : 0 < L)
    (M : α) (hcfl : M * dt / (L / n) ≤ 1 / 2) (s : α) (q : ℕ → ℕ → α) (hq : q ∈ InRange n (-M) M) :
    C05.fe (fun _ x => (mburgersDisc lim n L x0).rhs x) dt s q ∈ InRange n (-M) M
    ∧ tv (cycData (n := n) (C05.fe (fun _ x => (mburgersDisc lim n L x0).rhs x) dt s q)) ≤ tv (cycData (n := n) q)
    ∧ ∀ lo hi, q ∈ InRange n lo hi →
        C05.fe (fun _ x => (mburgersDisc lim n L x0).rhs x) dt s q ∈ InRange n lo hi := by
  have key := mburgers_step_tvd lim hlim dt hdt L x0 hL M q (fun i hi => abs_le.mpr (hq i hi)) hcfl
  simp only [] at key
  have hr : ∀ lo hi, q ∈ InRange n lo hi →
      C05.fe (fun _ x => (mburgersDisc lim n L x0).rhs x) dt s q ∈ InRange n lo hi := by
    intro lo hi h
    rw [inRange_iff] at h ⊢
    exact key.2 lo hi h
  exact ⟨hr _ _ hq, key.1, hr⟩

/-- **MUSCL Burgers with `explicit`, `rk2_heun`, `rk3ssp`**: if `|u_j| ≤ M` at the beginning of the step and
`M dt / h ≤ 1/2`, the step is TVD and keeps every range `[lo, hi]` (in particular the sign of one-signed data and the
set `|u_j| ≤ M` itself, so the same `dt` remains admissible) -/
theorem mburgers_ssp_tvd (lim : α → α → α) (hlim : Sweby lim) (dt : α) (hdt : 0 ≤ dt) (L x0 : α) (hL : 0 < L)
    (M : α) (hcfl : M * dt / (L / n) ≤ 1 / 2) (t : α) (q : ℕ → ℕ → α) (hq : q ∈ InRange n (-M) M) :
    ∀ v ∈ sspSteps (fun _ x => (mburgersDisc lim n L x0).rhs x) dt t q,
      tv (cycData (n := n) v) ≤ tv (cycData (n := n) q) ∧ ∀ lo hi, q ∈ InRange n lo hi → v ∈ InRange n lo hi := by
  intro v hv
  exact (ssp_tvd_of_euler (n := n) _ dt (InRange n (-M) M) (inRange_convex _ _)
    (fun s x hx => mburgers_euler_tvd lim hlim dt hdt L x0 hL M hcfl s x hx) t q hq v hv).2

/-- data of one sign, `0 ≤ u_j ≤ M`: the SSP steps are TVD, keep the sign and the bound (convex invariant set
`InRange n 0 M`) -/
theorem mburgers_ssp_tvd_nonneg (lim : α → α → α) (hlim : Sweby lim) (dt : α) (hdt : 0 ≤ dt) (L x0 : α) (hL : 0 < L)
    (M : α) (hcfl : M * dt / (L / n) ≤ 1 / 2) (t : α) (q : ℕ → ℕ → α) (hq : q ∈ InRange n 0 M) :
    ∀ v ∈ sspSteps (fun _ x => (mburgersDisc lim n L x0).rhs x) dt t q,
      v ∈ InRange n 0 M ∧ tv (cycData (n := n) v) ≤ tv (cycData (n := n) q)
        ∧ ∀ lo hi, q ∈ InRange n lo hi → v ∈ InRange n lo hi := by
  intro v hv
  have hM0 : 0 ≤ M := le_trans (hq 0 (NeZero.pos n)).1 (hq 0 (NeZero.pos n)).2
  have := mburgers_ssp_tvd lim hlim dt hdt L x0 hL M hcfl t q
    (fun i hi => ⟨by linarith [(hq i hi).1], (hq i hi).2⟩) v hv
  exact ⟨this.2 _ _ hq, this.1, this.2⟩

/-- data of one sign, `-M ≤ u_j ≤ 0` -/
theorem mburgers_ssp_tvd_nonpos (lim : α → α → α) (hlim : Sweby lim) (dt : α) (hdt : 0 ≤ dt) (L x0 : α) (hL : 0 < L)
    (M : α) (hcfl : M * dt / (L / n) ≤ 1 / 2) (t : α) (q : ℕ → ℕ → α) (hq : q ∈ InRange n (-M) 0) :
    ∀ v ∈ sspSteps (fun _ x => (mburgersDisc lim n L x0).rhs x) dt t q,
      v ∈ InRange n (-M) 0 ∧ tv (cycData (n := n) v) ≤ tv (cycData (n := n) q)
        ∧ ∀ lo hi, q ∈ InRange n lo hi → v ∈ InRange n lo hi := by
  intro v hv
  have hM0 : 0 ≤ M := by
    have := (hq 0 (NeZero.pos n)); linarith [this.1, this.2]
  have := mburgers_ssp_tvd lim hlim dt hdt L x0 hL M hcfl t q
    (fun i hi => ⟨(hq i hi).1, by linarith [(hq i hi).2]⟩) v hv
  exact ⟨this.2 _ _ hq, this.1, this.2⟩

section Run
variable {σ D : Type}

/-- **MUSCL Burgers, whole solve** (any save times, stop criteria, monitors, fuel; global time step): for every state
`q` that is no worse than the initial data there is a bound `|q_j| ≤ M` with `M · min(dt) ≤ h/2` for the time step
computed from `q` (the code's `min_j cfl·h/|u_j|` gives this with `M = max_j |u_j|` for `cfl ≤ 1/2`).  Then the final
state, every stored snapshot and the whole trajectory have at most the initial total variation and lie in every range
containing the initial data. -/
theorem mburgers_run_tvd (lim : α → α → α) (hlim : Sweby lim) (L x0 : α) (hL : 0 < L)
    (c : DrvCfg σ α (ℕ → ℕ → α) D) (hloc : c.dtlocal = false)
    (hstep : ∀ s d t q, (c.step s (c.scalar d) t q).2.2
      ∈ sspSteps (fun _ x => (mburgersDisc lim n L x0).rhs x) d t q)
    (q0 : ℕ → ℕ → α)
    (hcfl : ∀ t q, TvdRel n q0 q → 0 ≤ c.minDt (c.calcDt t q)
      ∧ ∃ M, q ∈ InRange n (-M) M ∧ M * c.minDt (c.calcDt t q) / (L / n) ≤ 1 / 2)
    (fuel : ℕ) (s0 : σ) (t0 : α) :
    AllQ (TvdRel n q0) (c.run fuel s0 t0 q0).1 := by
  have hpos : 0 < L / n := div_pos hL (Nat.cast_pos.mpr (NeZero.pos n))
  refine ssp_run_tvd _ c hloc hstep q0 (fun t q hq => (hcfl t q hq).1) ?_ fuel s0 t0
  intro t q d hq hd0 hd
  obtain ⟨-, M, hM, hc⟩ := hcfl t q hq
  have hM0 : 0 ≤ M := by
    obtain ⟨h1, h2⟩ := hM 0 (NeZero.pos n)
    linarith
  refine mburgers_ssp_tvd lim hlim d hd0 L x0 hL M ?_ t q hM
  refine le_trans ?_ hc
  exact div_le_div_of_nonneg_right (mul_le_mul_of_nonneg_left hd hM0) hpos.le

end Run

/-! ## 7. the code's time step, non-vacuity, and a witness that the first-order bound `CFL ≤ 1` is not enough -/

/-- the code's Burgers time step `cfl·h/|u|` evaluated at the largest modulus `M > 0` meets the hypothesis for
`cfl ≤ 1/2` (and any smaller step does) -/
theorem cfl_of_burgersDt (cfl h M dt : α) (hh : 0 < h) (hM : 0 < M) (hcfl : cfl ≤ 1 / 2)
    (hdt : dt ≤ burgersDt cfl h M) : M * dt / h ≤ 1 / 2 := by
  unfold burgersDt at hdt
  rw [abs_of_pos hM] at hdt
  have h1 : M * dt ≤ M * (cfl * h / M) := mul_le_mul_of_nonneg_left hdt hM.le
  have h2 : M * (cfl * h / M) = cfl * h := by field_simp
  rw [div_le_iff₀ hh]
  have h3 : cfl * h ≤ 1 / 2 * h := mul_le_mul_of_nonneg_right hcfl hh.le
  linarith

/-- non-vacuity of `mburgers_step_tvd`: minmod, 4 cells of width 1/2, positive data `1, 2, 3, 2`, `M = 3`,
`dt = 1/12` (`M dt / h = 1/2`) -/
example :=
  mburgers_step_tvd (n := 4) minmod sweby_minmod (1/12 : ℚ) (by norm_num) 2 0 (by norm_num) 3
    (fun _ i => if i = 0 then 1 else if i = 1 then 2 else if i = 2 then 3 else 2)
    (fun i hi => by
      have : i = 0 ∨ i = 1 ∨ i = 2 ∨ i = 3 := by omega
      rcases this with rfl | rfl | rfl | rfl <;> norm_num [abs_le])
    (by norm_num)

/-- non-vacuity with sign changes, a sonic point (`u_1 + u_2 = 0`) and a transonic rarefaction across the seam
(`u_3 = -2 < 0 < u_0 = 2`): superbee, 5 cells, `M = 2`, `dt = 1/10`, `h = 2/5` -/
example :=
  mburgers_step_tvd (n := 5) superbee sweby_superbee (1/10 : ℚ) (by norm_num) 2 0 (by norm_num) 2
    (fun _ i => if i = 0 then 2 else if i = 1 then 1 else if i = 2 then -1 else if i = 3 then -2 else -1/2)
    (fun i hi => by
      have : i = 0 ∨ i = 1 ∨ i = 2 ∨ i = 3 ∨ i = 4 := by omega
      rcases this with rfl | rfl | rfl | rfl | rfl <;> norm_num [abs_le])
    (by norm_num)

/-- non-vacuity of `mburgers_ssp_tvd`: van Albada with the code's regularisation constants, any data with
`|u_j| ≤ 2` on 4 cells of width 1/2, `dt = 1/8` -/
example (q : ℕ → ℕ → ℚ) (hq : q ∈ InRange 4 (-2) 2) :
    ∀ v ∈ sspSteps (fun (_ : ℚ) x =>
        (mburgersDisc (vanalbada (Gen.vanalbada_pmin : ℚ) Gen.vanalbada_eps) 4 2 0).rhs x) (1/8) 0 q,
      tv (cycData (n := 4) v) ≤ tv (cycData (n := 4) q)
        ∧ ∀ lo hi : ℚ, q ∈ InRange 4 lo hi → v ∈ InRange 4 lo hi :=
  mburgers_ssp_tvd (n := 4) _
    (sweby_vanalbada _ _ (by norm_num [Gen.vanalbada_pmin]) (by norm_num [Gen.vanalbada_eps]))
    (1/8) (by norm_num) 2 0 (by norm_num) 2 (by norm_num) 0 q hq

/-- non-vacuity of `mburgers_ssp_tvd_nonneg`: minmod, any data with `0 ≤ u_j ≤ 3` on 5 cells of width 1, `dt = 1/6` -/
example (q : ℕ → ℕ → ℚ) (hq : q ∈ InRange 5 0 3) :
    ∀ v ∈ sspSteps (fun (_ : ℚ) x => (mburgersDisc minmod 5 5 0).rhs x) (1/6) 0 q,
      v ∈ InRange 5 0 3 ∧ tv (cycData (n := 5) v) ≤ tv (cycData (n := 5) q)
        ∧ ∀ lo hi : ℚ, q ∈ InRange 5 lo hi → v ∈ InRange 5 lo hi :=
  mburgers_ssp_tvd_nonneg (n := 5) minmod sweby_minmod (1/6) (by norm_num) 5 0 (by norm_num) 3 (by norm_num) 0 q hq

/-- non-vacuity of `mburgers_ssp_tvd_nonpos`: van Leer, any data with `-2 ≤ u_j ≤ 0` on 4 cells of width 1/2 -/
example (q : ℕ → ℕ → ℚ) (hq : q ∈ InRange 4 (-2) 0) :=
  mburgers_ssp_tvd_nonpos (n := 4) (vanleer (Gen.vanleer_pmin : ℚ) Gen.vanleer_eps)
    (sweby_vanleer _ _ (by norm_num [Gen.vanleer_pmin]) (by norm_num [Gen.vanleer_eps]))
    (1/8) (by norm_num) 2 0 (by norm_num) 2 (by norm_num) 0 q hq

/-- non-vacuity of `mburgers_run_tvd`: minmod, 4 cells of width 1/2, `rk3ssp`, initial data with `|u_j| ≤ 2` of any
sign, constant `dt = 1/8`, two save times and a monitor -/
example (fuel : ℕ) (q0 : ℕ → ℕ → ℚ) (h0 : q0 ∈ InRange 4 (-2) 2) :
    AllQ (TvdRel 4 q0) ((exampleCfg (mburgersDisc minmod 4 2 0).rhs 2 (1/2) (1/2)).run fuel () 0 q0).1 :=
  mburgers_run_tvd (n := 4) minmod sweby_minmod 2 0 (by norm_num) _ rfl
    (fun s d t q => by simp [exampleCfg, sspSteps]) q0
    (fun t q hq => ⟨by norm_num [exampleCfg, convDt], 2, hq.2 _ _ h0, by norm_num [exampleCfg, convDt]⟩)
    fuel () 0

/-- `cfl_of_burgersDt` is not vacuous -/
example : (2 : ℚ) * (1/8) / (1/2) ≤ 1 / 2 :=
  cfl_of_burgersDt (1/2) (1/2) 2 (1/8) (by norm_num) (by norm_num) le_rfl (by norm_num [burgersDt])

/-- data `0, 3, 2` on 3 cells of width 1 -/
def qOver : ℕ → ℕ → ℚ := fun _ i => if i = 0 then 0 else if i = 1 then 3 else 2

/-- **the first-order bound `M dt / h ≤ 1` is not enough for MUSCL**: minmod, data `0, 3, 2` (`M = 3`), `h = 1`,
`dt = 1/3` (so `M dt / h = 1`, admissible for first-order Burgers, C09c.burgers_step_tvd): the forward-Euler step
takes cell 2 from `2` to `25/8 > 3 = max u` — a new extremum.  (With `dt ≤ 1/6` this cannot happen, by
`mburgers_euler_tvd`.) -/
theorem mburgers_cfl_one_overshoot :
    qOver ∈ InRange 3 0 3 ∧ (3 : ℚ) * (1/3) / (3 / (3 : ℕ)) ≤ 1
      ∧ C05.fe (fun (_ : ℚ) x => (mburgersDisc minmod 3 3 0).rhs x) (1/3) 0 qOver 0 2 = 25 / 8
      ∧ C05.fe (fun (_ : ℚ) x => (mburgersDisc minmod 3 3 0).rhs x) (1/3) 0 qOver ∉ InRange 3 0 3 := by
  have hr : (mburgersDisc minmod 3 3 0).rhs qOver 0 2 = 27 / 8 := by
    have := mburgers_rhs_nat (n := 3) minmod (3 : ℚ) 0 (by norm_num) qOver 2 (by norm_num)
    simp only [] at this
    rw [this]
    norm_num [qOver, minmod, burgersFlux, burgersFluxG]
  have hv : C05.fe (fun (_ : ℚ) x => (mburgersDisc minmod 3 3 0).rhs x) (1/3) 0 qOver 0 2 = 25 / 8 := by
    show qOver 0 2 + (1/3 : ℚ) * (mburgersDisc minmod 3 3 0).rhs qOver 0 2 = 25 / 8
    rw [hr]; norm_num [qOver]
  refine ⟨?_, by norm_num, hv, ?_⟩
  · intro i hi
    have : i = 0 ∨ i = 1 ∨ i = 2 := by omega
    rcases this with rfl | rfl | rfl <;> norm_num [qOver]
  · intro h
    have := (h 2 (by norm_num)).2
    rw [hv] at this
    norm_num at this

end Flowdyn.C09d
