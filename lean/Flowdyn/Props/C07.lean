import Flowdyn.Model.Integrators
namespace Flowdyn.C07
end Flowdyn.C07
