/-
C07 / C08 — bookkeeping and purity of the driver state machine `Flowdyn/Model/Driver.lean`.

`adv` is one full step of the trajectory: `(σ, time, data) ↦ step σ dt time data` with
`dt = calcDt time data` (the array with `dtlocal`, its minimum otherwise).
Hypothesis `hkeep`: after a snapshot side step the solver state is the one before it (the repaired code
restores the multistep memory).  Hypothesis `hstep`: a step with a scalar `a` advances the time by `a`
(C05 `…_step`, C06 `…_time`).
-/
import Flowdyn.Model.Driver
import Mathlib.Algebra.Order.Field.Basic
import Mathlib.Logic.Function.Iterate
import Mathlib.Tactic.Ring
import Mathlib.Tactic.Linarith

namespace Flowdyn.C07
open Flowdyn
variable {σ α V D : Type} [Field α] [LinearOrder α] [IsStrictOrderedRing α]

/-- one full step of the trajectory -/
def adv (c : DrvCfg σ α V D) (x : σ × α × V) : σ × α × V :=
  let dt := c.calcDt x.2.1 x.2.2
  c.step x.1 (if c.dtlocal then dt else c.scalar (c.minDt dt)) x.2.1 x.2.2

def core (st : DrvState σ α V) : σ × α × V := (st.sol, st.time, st.data)

/-! ### side steps do not touch the trajectory state -/
theorem sideSnaps_core (c : DrvCfg σ α V D) (hkeep : ∀ s s', c.keep s s' = s) (m : α) (st : DrvState σ α V) (fuel : ℕ) :
    core (c.sideSnaps m st fuel) = core st ∧ (c.sideSnaps m st fuel).nit = st.nit
    ∧ (c.sideSnaps m st fuel).traj = st.traj ∧ (c.sideSnaps m st fuel).monlog = st.monlog := by
  induction fuel generalizing st with
  | zero => simp [DrvCfg.sideSnaps]
  | succ n ih =>
    rw [DrvCfg.sideSnaps]
    split
    · split_ifs
      · simp only [ih]; simp [core, hkeep]
      · simp only [ih]; simp [core]
      · simp
    · simp

/-- every snapshot produced by side steps is stamped with a requested save time, tagged with the
current iteration number, and was reached from the current state by a forward step `0 ≤ ts - t ≤ mindt`
(`hpend`: the pending save times are not in the past — the invariant maintained by `skipPast` and the loop
for an increasing save-time list) -/
theorem sideSnaps_results (c : DrvCfg σ α V D) (hstep : ∀ s a t q, (c.step s (c.scalar a) t q).2.1 = t + a)
    (m : α) (st : DrvState σ α V) (fuel : ℕ)
    (hpend : ∀ j ts, st.isave ≤ j → c.tsave[j]? = some ts → st.time ≤ ts) :
    ∃ new : List (Snap α V), (c.sideSnaps m st fuel).results = st.results ++ new
      ∧ (c.sideSnaps m st fuel).isave = st.isave + new.length
      ∧ ∀ k (hk : k < new.length), ∃ ts, c.tsave[st.isave + k]? = some ts ∧ (new[k]).time = ts
          ∧ (new[k]).it = ((c.itstart + st.nit : ℕ) : Int) ∧ st.time ≤ ts ∧ ts ≤ st.time + m
          ∧ (st.time < ts → ∃ s, (new[k]).data = (c.step s (c.scalar (ts - st.time)) st.time st.data).2.2)
          ∧ (¬ st.time < ts → (new[k]).data = st.data) := by
  induction fuel generalizing st with
  | zero => exact ⟨[], by simp [DrvCfg.sideSnaps]⟩
  | succ n ih =>
    rw [DrvCfg.sideSnaps]
    split
    · rename_i ts hts
      have htle : st.time ≤ ts := hpend _ _ le_rfl hts
      split_ifs with h1 h2
      · obtain ⟨new, hr, hi, hk⟩ := ih { st with
                                           sol := c.keep st.sol (c.step st.sol (c.scalar (ts - st.time)) st.time st.data).1,
                                           results := st.results ++ [⟨(c.step st.sol (c.scalar (ts - st.time)) st.time st.data).2.1, (c.itstart + st.nit : ℕ), (c.step st.sol (c.scalar (ts - st.time)) st.time st.data).2.2⟩],
                                           isave := st.isave + 1 } (fun j t hj ht => hpend j t (by simp at hj; omega) ht)
        refine ⟨(⟨(c.step st.sol (c.scalar (ts - st.time)) st.time st.data).2.1, (c.itstart + st.nit : ℕ), (c.step st.sol (c.scalar (ts - st.time)) st.time st.data).2.2⟩ : Snap α V) :: new, ?_, ?_, ?_⟩
        · simpa using hr
        · simp only [hi, List.length_cons]; omega
        · intro k hk'
          cases k with
          | zero =>
            refine ⟨ts, by simpa using hts, ?_, rfl, htle, h1, fun _ => ⟨st.sol, rfl⟩, fun h => absurd h2 h⟩
            simp [hstep]
          | succ k =>
            obtain ⟨t, ht⟩ := hk k (by simpa using hk')
            refine ⟨t, ?_⟩
            simpa [Nat.add_assoc, Nat.add_comm 1 k] using ht
      · obtain ⟨new, hr, hi, hk⟩ := ih { st with
                                           results := st.results ++ [⟨st.time, (c.itstart + st.nit : ℕ), st.data⟩],
                                           isave := st.isave + 1 } (fun j t hj ht => hpend j t (by simp at hj; omega) ht)
        refine ⟨(⟨st.time, (c.itstart + st.nit : ℕ), st.data⟩ : Snap α V) :: new, ?_, ?_, ?_⟩
        · simpa using hr
        · simp only [hi, List.length_cons]; omega
        · intro k hk'
          cases k with
          | zero =>
            have : ts = st.time := le_antisymm (not_lt.mp h2) htle
            refine ⟨ts, by simpa using hts, by simp [this], rfl, htle, h1, fun h => absurd h h2, fun h => rfl⟩
          | succ k =>
            obtain ⟨t, ht⟩ := hk k (by simpa using hk')
            refine ⟨t, ?_⟩
            simpa [Nat.add_assoc, Nat.add_comm 1 k] using ht
      · exact ⟨[], by simp⟩
    · exact ⟨[], by simp⟩

/-! ### one iteration = one `adv`, counter + 1 -/
theorem iteration_core (c : DrvCfg σ α V D) (hkeep : ∀ s s', c.keep s s' = s) (st : DrvState σ α V) :
    core (c.iteration st) = adv c (core st) ∧ (c.iteration st).nit = st.nit + 1 := by
  obtain ⟨h1, h2, -, -⟩ := sideSnaps_core c hkeep (c.minDt (c.calcDt st.time st.data)) st (c.tsave.length + 1)
  simp only [core, Prod.mk.injEq] at h1
  obtain ⟨hs, ht, hd⟩ := h1
  have key : ∀ (P : Prop) [Decidable P] (s : DrvState σ α V) (r : List (Snap α V)),
      core (if P then { s with results := r } else s) = core s
      ∧ (if P then { s with results := r } else s).nit = s.nit := by
    intro P _ s r; split <;> exact ⟨rfl, rfl⟩
  unfold DrvCfg.iteration
  dsimp only
  refine ⟨(key _ _ _).1.trans ?_, (key _ _ _).2.trans ?_⟩
  · simp [core, adv, DrvCfg.parseMonitors, hs, ht, hd]
  · simp [DrvCfg.parseMonitors, h2]

/-- the ghost trajectory records every full step: its length is `nit + 1` -/
theorem iteration_traj (c : DrvCfg σ α V D) (hkeep : ∀ s s', c.keep s s' = s) (st : DrvState σ α V) :
    (c.iteration st).traj = ((c.iteration st).time, (c.iteration st).data) :: st.traj := by
  obtain ⟨-, -, h3, -⟩ := sideSnaps_core c hkeep (c.minDt (c.calcDt st.time st.data)) st (c.tsave.length + 1)
  have key : ∀ (P : Prop) [Decidable P] (s : DrvState σ α V) (r : List (Snap α V)),
      (if P then { s with results := r } else s).traj
        = ((if P then { s with results := r } else s).time, (if P then { s with results := r } else s).data)
          :: st.traj ↔ s.traj = (s.time, s.data) :: st.traj := by
    intro P _ s r; split <;> exact Iff.rfl
  unfold DrvCfg.iteration
  dsimp only
  rw [key]
  simp [DrvCfg.parseMonitors, h3]

/-! ### the loop stops at the first state satisfying a stop criterion -/
theorem loop_stops_at_once (c : DrvCfg σ α V D) (st : DrvState σ α V) (fuel : ℕ) (h : c.checkEnd st = true) :
    c.loop (fuel + 1) st = (st, true) := by
  simp [DrvCfg.loop, h]
theorem loop_continues (c : DrvCfg σ α V D) (st : DrvState σ α V) (fuel : ℕ) (h : c.checkEnd st = false) :
    c.loop (fuel + 1) st = c.loop fuel (c.iteration st) := by
  simp [DrvCfg.loop, h]
theorem loop_finished_checkEnd (c : DrvCfg σ α V D) (st : DrvState σ α V) (fuel : ℕ)
    (h : (c.loop fuel st).2 = true) : c.checkEnd (c.loop fuel st).1 = true := by
  induction fuel generalizing st with
  | zero => simpa [DrvCfg.loop] using h
  | succ n ih =>
    cases hce : c.checkEnd st with
    | true => rw [loop_stops_at_once c st n hce]; exact hce
    | false =>
      rw [loop_continues c st n hce] at h ⊢
      exact ih _ h

/-- iteration counter = number of `adv` applications; with `maxit = m` only (no time criterion) the loop
performs exactly `m - nit` iterations and terminates (enough fuel is `m - nit`) -/
theorem loop_maxit (c : DrvCfg σ α V D) (hkeep : ∀ s s', c.keep s s' = s) (m : ℕ) (htt : c.tottime = none)
    (hmi : c.maxit = some m) (st : DrvState σ α V) (hn : st.nit ≤ m) (fuel : ℕ) (hf : m - st.nit ≤ fuel) :
    (c.loop fuel st).2 = true ∧ (c.loop fuel st).1.nit = m
    ∧ core (c.loop fuel st).1 = (adv c)^[m - st.nit] (core st) := by
  have hce : ∀ st : DrvState σ α V, c.checkEnd st = decide (m ≤ st.nit) := by
    intro st; simp [DrvCfg.checkEnd, htt, hmi]
  induction fuel generalizing st with
  | zero =>
    have : st.nit = m := by omega
    simp [DrvCfg.loop, hce, this]
  | succ n ih =>
    by_cases hm : m ≤ st.nit
    · have : st.nit = m := by omega
      rw [loop_stops_at_once c st n (by simp [hce, hm])]
      simp [this]
    · rw [loop_continues c st n (by simp [hce, hm])]
      obtain ⟨hc, hnit⟩ := iteration_core c hkeep st
      obtain ⟨h1, h2, h3⟩ := ih (c.iteration st) (by omega) (by omega)
      refine ⟨h1, h2, ?_⟩
      rw [h3, hnit, hc, ← Function.iterate_succ_apply]
      congr 2; omega

/-- general form: whatever the criteria, the final state is `adv` iterated `nit' - nit` times -/
theorem loop_core (c : DrvCfg σ α V D) (hkeep : ∀ s s', c.keep s s' = s) (st : DrvState σ α V) (fuel : ℕ) :
    st.nit ≤ (c.loop fuel st).1.nit
    ∧ core (c.loop fuel st).1 = (adv c)^[(c.loop fuel st).1.nit - st.nit] (core st) := by
  induction fuel generalizing st with
  | zero => simp [DrvCfg.loop]
  | succ n ih =>
    cases hce : c.checkEnd st with
    | true => rw [loop_stops_at_once c st n hce]; simp
    | false =>
      rw [loop_continues c st n hce]
      obtain ⟨hc, hnit⟩ := iteration_core c hkeep st
      obtain ⟨h1, h2⟩ := ih (c.iteration st)
      refine ⟨by omega, ?_⟩
      rw [h2, hnit, hc, ← Function.iterate_succ_apply]
      congr 2; omega

/-! ### C08: the trajectory does not depend on save times or monitors -/
/-- two configurations that differ only in `tsave` and `monitors` -/
def SameProblem (c c' : DrvCfg σ α V D) : Prop :=
  c.step = c'.step ∧ c.keep = c'.keep ∧ c.calcDt = c'.calcDt ∧ c.minDt = c'.minDt ∧ c.scalar = c'.scalar
  ∧ c.dtlocal = c'.dtlocal ∧ c.tottime = c'.tottime ∧ c.maxit = c'.maxit

theorem adv_congr (c c' : DrvCfg σ α V D) (h : SameProblem c c') : adv c = adv c' := by
  obtain ⟨h1, -, h3, h4, h5, h6, -, -⟩ := h
  funext x
  simp only [adv, h1, h3, h4, h5, h6]

theorem checkEnd_congr (c c' : DrvCfg σ α V D) (h : SameProblem c c') (st st' : DrvState σ α V)
    (hc : core st = core st') (hn : st.nit = st'.nit) : c.checkEnd st = c'.checkEnd st' := by
  obtain ⟨-, -, -, -, -, -, h7, h8⟩ := h
  simp only [core, Prod.mk.injEq] at hc
  simp only [DrvCfg.checkEnd, h7, h8, hc.2.1, hn]

theorem loop_indep_of_saves_and_monitors (c c' : DrvCfg σ α V D) (h : SameProblem c c')
    (hkeep : ∀ s s', c.keep s s' = s) (st st' : DrvState σ α V) (hc : core st = core st') (hn : st.nit = st'.nit)
    (fuel : ℕ) :
    core (c.loop fuel st).1 = core (c'.loop fuel st').1 ∧ (c.loop fuel st).1.nit = (c'.loop fuel st').1.nit
    ∧ (c.loop fuel st).2 = (c'.loop fuel st').2 := by
  have hkeep' : ∀ s s', c'.keep s s' = s := by
    intro s s'; rw [← h.2.1]; exact hkeep s s'
  induction fuel generalizing st st' with
  | zero => exact ⟨hc, hn, checkEnd_congr c c' h st st' hc hn⟩
  | succ n ih =>
    have hE := checkEnd_congr c c' h st st' hc hn
    cases hce : c.checkEnd st with
    | true =>
      rw [loop_stops_at_once c st n hce, loop_stops_at_once c' st' n (hE ▸ hce)]
      exact ⟨hc, hn, rfl⟩
    | false =>
      rw [loop_continues c st n hce, loop_continues c' st' n (hE ▸ hce)]
      obtain ⟨a1, a2⟩ := iteration_core c hkeep st
      obtain ⟨b1, b2⟩ := iteration_core c' hkeep' st'
      exact ih _ _ (by rw [a1, b1, hc, adv_congr c c' h]) (by rw [a2, b2, hn])

theorem initialSnaps_core (c : DrvCfg σ α V D) (st : DrvState σ α V) (fuel : ℕ) :
    core (c.initialSnaps st fuel) = core st ∧ (c.initialSnaps st fuel).nit = st.nit := by
  induction fuel generalizing st with
  | zero => simp [DrvCfg.initialSnaps]
  | succ n ih =>
    rw [DrvCfg.initialSnaps]
    split
    · split_ifs
      · simp only [ih]; simp [core]
      · simp
    · simp

theorem run_start (c : DrvCfg σ α V D) (fuel : ℕ) (s0 : σ) (t0 : α) (q0 : V) :
    ∃ st0 : DrvState σ α V, core st0 = (s0, t0, q0) ∧ st0.nit = 0 ∧ c.run fuel s0 t0 q0 = c.loop fuel st0 := by
  unfold DrvCfg.run
  dsimp only
  refine ⟨_, ?_, ?_, rfl⟩
  · rw [(initialSnaps_core c _ _).1]; simp [core, DrvCfg.parseMonitors]
  · rw [(initialSnaps_core c _ _).2]; simp [DrvCfg.parseMonitors]

theorem run_indep_of_saves_and_monitors (c c' : DrvCfg σ α V D) (h : SameProblem c c')
    (hkeep : ∀ s s', c.keep s s' = s) (fuel : ℕ) (s0 : σ) (t0 : α) (q0 : V) :
    core (c.run fuel s0 t0 q0).1 = core (c'.run fuel s0 t0 q0).1
    ∧ (c.run fuel s0 t0 q0).1.nit = (c'.run fuel s0 t0 q0).1.nit := by
  obtain ⟨st, a1, a2, a3⟩ := run_start c fuel s0 t0 q0
  obtain ⟨st', b1, b2, b3⟩ := run_start c' fuel s0 t0 q0
  rw [a3, b3]
  obtain ⟨r1, r2, -⟩ := loop_indep_of_saves_and_monitors c c' h hkeep st st' (a1.trans b1.symm) (a2.trans b2.symm) fuel
  exact ⟨r1, r2⟩

/-- the initial phase of `run` does not move the state -/
theorem run_eq_loop_core (c : DrvCfg σ α V D) (hkeep : ∀ s s', c.keep s s' = s) (fuel : ℕ) (s0 : σ) (t0 : α) (q0 : V) :
    ∃ st0 : DrvState σ α V, core st0 = (s0, t0, q0) ∧ st0.nit = 0 ∧ c.run fuel s0 t0 q0 = c.loop fuel st0 :=
  run_start c fuel s0 t0 q0

/-- **restart**: `N` iterations, then `M` more from the returned state (same solver object, hidden state
kept), reach the state, time and cumulative iteration count of a single run of `N + M` -/
theorem restart_split (c : DrvCfg σ α V D) (hkeep : ∀ s s', c.keep s s' = s) (htt : c.tottime = none)
    (N M : ℕ) (s0 : σ) (t0 : α) (q0 : V) :
    (let c1 := { c with maxit := some N }
     let r1 := (c1.run N s0 t0 q0).1
     let c2 := { c with maxit := some M, itstart := c.itstart + N }
     let r2 := (c2.run M r1.sol r1.time r1.data).1
     let cc := { c with maxit := some (N + M) }
     let rr := (cc.run (N + M) s0 t0 q0).1
     core r2 = core rr ∧ c2.itstart + r2.nit = cc.itstart + rr.nit ∧ rr.nit = N + M) := by
  intro c1 r1 c2 r2 cc rr
  have e1 : adv c1 = adv c := rfl
  have e2 : adv c2 = adv c := rfl
  have e3 : adv cc = adv c := rfl
  obtain ⟨st1, a1, a2, a3⟩ := run_eq_loop_core c1 hkeep N s0 t0 q0
  obtain ⟨-, a4, a5⟩ := loop_maxit c1 hkeep N htt rfl st1 (by omega) N (by omega)
  have hr1 : core r1 = (adv c)^[N] (s0, t0, q0) := by
    show core (c1.run N s0 t0 q0).1 = _
    rw [a3, a5, a2, a1, e1]; rfl
  obtain ⟨st2, b1, b2, b3⟩ := run_eq_loop_core c2 hkeep M r1.sol r1.time r1.data
  obtain ⟨-, b4, b5⟩ := loop_maxit c2 hkeep M htt rfl st2 (by omega) M (by omega)
  have hr2 : core r2 = (adv c)^[M] (core r1) := by
    show core (c2.run M r1.sol r1.time r1.data).1 = _
    rw [b3, b5, b2, b1, e2]; rfl
  have hn2 : r2.nit = M := by
    show (c2.run M r1.sol r1.time r1.data).1.nit = _
    rw [b3, b4]
  obtain ⟨st3, d1, d2, d3⟩ := run_eq_loop_core cc hkeep (N + M) s0 t0 q0
  obtain ⟨-, d4, d5⟩ := loop_maxit cc hkeep (N + M) htt rfl st3 (by omega) (N + M) (by omega)
  have hrr : core rr = (adv c)^[N + M] (s0, t0, q0) := by
    show core (cc.run (N + M) s0 t0 q0).1 = _
    rw [d3, d5, d2, d1, e3]; rfl
  have hnr : rr.nit = N + M := by
    show (cc.run (N + M) s0 t0 q0).1.nit = _
    rw [d3, d4]
  refine ⟨?_, ?_, hnr⟩
  · rw [hr2, hr1, hrr, Nat.add_comm N M, Function.iterate_add_apply]
  · rw [hn2, hnr]; show c.itstart + N + M = c.itstart + (N + M); omega

end Flowdyn.C07
