/-
C14 (part d) — periodic boundaries are seamless: whole solves of SYSTEMS of equations (Euler, shallow water) with the
implicit family.  Closes the gap left by C14c: "the flattening of systems of equations onto the vector of unknowns of
the implicit model".

`integration.py: implicitmodel` flattens `neq` equations on `nelem` cells onto `dim = neq*nelem` unknowns, unknown
number `i*neq + q` for cell `i`, equation `q` ("neq is the fast index"); the per-cell time steps are repeated `neq`
times (`np.repeat(1/dtloc, neq)`); the finite-difference perturbation of an unknown of equation `q` is
`eps[q] = epsdiff * (mean_i |data[q][i]| or 1.0)`.

1. flattening      `Sys α neq n = Fin neq → Fin n → α`, `idx i a` (value `i*neq + a`: `idx_val`), `cellOf j = j / neq`,
                   `compOf j = j % neq`; `flat`, `unflat` mutually inverse (`unflat_flat`, `flat_unflat`, `flatEquiv`,
                   `flat_bijective`), linear (`flatL`); `flat_mk`: entry `i*neq + a` is equation `a` of cell `i`.
2. shift           `shiftSys k` (every equation shifted by `k` cells) is through the flattening the permutation
                   `shiftPerm k : Equiv.Perm (Fin (n*neq))` of the unknowns, `π j = ((j/neq + k) mod n)*neq + j mod neq`
                   (`shiftPerm_val`) `= (j + k*neq) mod (n*neq)` (`shiftPerm_val_roll`: a roll by `k*neq`);
                   `shiftFlat k` the LINEAR map `T v j = v (π j)`; `flat_shiftSys`, `unflat_shiftFlat`,
                   `shiftFlat_reindex` (the form `T x j = 1 * x (π j)` of C14c B′).
3. operator        `flatOp Rsys v = flat (Rsys (unflat v))`; `flatOp_shift`: `Rsys ∘ shiftSys k = shiftSys k ∘ Rsys`
                   gives `R ∘ T = T ∘ R` (and conversely, `shiftSys_of_flatOp`).
4. time steps      `repeatCells d j = d (j / neq)`; `repeatCells_shift`: `dtv' j = dtv (π j)` for the shifted per-cell
                   array; `dtCompat_shiftFlat`.  Perturbations: `eps_shift_of_comp` (any rule seeing `j` only through
                   its equation and shift-invariant quantities), `compMean`, `epsRule` (the code's rule),
                   `epsRule_shift`, `epsRule_pos`, `epsRule_ne_zero`.
5. whole solves    `solve_theta_shift_flat/_gear_` (any operator on the unknowns commuting with `shiftFlat k`),
                   `solve_theta_shift_sys`, `solve_gear_shift_sys` (any system operator commuting with the cell shift;
                   initial data `flat (shiftSys k u0)`; gear from any initial memory), instances of C14c
                   `solve_theta_reindex`, `solve_gear_reindex` with `π = shiftPerm k`, `sg = 1`, `D = Vec α n`
                   (per-cell time-step values, `fD = shiftVec k`, `dtvOf = repeatCells`); global and local time step
                   (`p.dtlocal` either way).  Driver parameters: `ShiftParSys`.  `shiftedSys_of_map`: what the caller
                   sees, in system form (every equation of the final field and of every snapshot shifted by `k`).
   the model       `fieldOf`/`sysOf` (systems ↔ the pipeline's `ℕ → ℕ → α` data), `perSys` = `Disc1D.rhs` of C14a's
                   `perDisc` (periodic uniform mesh, any scheme, any kernels `c2p`, `Φ`, any `neq`), `perSys_shift`
                   (from C14a `rhs_shift`), `perSysVec` (`perSysVec_one`: C14c's `perVec` when `neq = 1`); `solve_theta_shift_perSys`, `solve_gear_shift_perSys`;
                   `eulerVec` (`eulerC2P`, `eulerFluxV γ fl`, `neq = 3`), `swVec` (`swC2P`, `swFluxV g fl`, `neq = 2`):
                   `solve_theta_shift_euler`, `solve_gear_shift_euler`, `solve_theta_shift_sw`, `solve_gear_shift_sw`
                   with the code's perturbation rule `epsRule epsdiff`.
   Solver hypotheses as in C14c B′: `StateOK` / `GearOK` at the states `Visited` by the full steps of the unshifted
   run, for the full step and the snapshot side steps.
6. non-vacuity     `Ex`: 3 cells, 2 equations: `flat`, `π`, `repeatCells` as explicit lists; the coupled linear system
                   `∂ₜ(u,w) + [[2,1],[1,2]] ∂ₓ(u,w) = 0` (upwind) in the model's pipeline: its flattened operator is
                   linear and dissipative, hence (`sysMat_inj_of_dissipative`, `det_ne_of_inj`, `stateOK_invSolve`) every
                   θ/ξ-system is regular and all hypotheses of `solve_theta_shift_perSys` / `solve_gear_shift_perSys`
                   hold at every state, with the code's perturbation rule and state-dependent per-cell time steps.
-/
import Flowdyn.Props.C14c
import Mathlib.Logic.Equiv.Fin.Basic
import Mathlib.Algebra.Order.BigOperators.Group.Finset
import Mathlib.Tactic.FinCases
import Mathlib.Tactic.Linarith

namespace Flowdyn.C14d
open Flowdyn Flowdyn.C07 Flowdyn.C13 Flowdyn.C06 Flowdyn.C14 Matrix

/-! ## 1. the flattening -/
section flatten
variable {α : Type} {n neq : ℕ}

/-- a system of `neq` equations on `n` cells: `u a i` is equation `a`, cell `i` (`field.data[a][i]`) -/
abbrev Sys (α : Type) (neq n : ℕ) := Fin neq → Fin n → α

/-- the unknown of cell `i`, equation `a`: number `i*neq + a` -/
def idx (i : Fin n) (a : Fin neq) : Fin (n * neq) := finProdFinEquiv (i, a)

/-- the cell of unknown `j`: `j / neq` -/
def cellOf (j : Fin (n * neq)) : Fin n := (finProdFinEquiv.symm j).1

/-- the equation (component) of unknown `j`: `j % neq` -/
def compOf (j : Fin (n * neq)) : Fin neq := (finProdFinEquiv.symm j).2

theorem idx_val (i : Fin n) (a : Fin neq) : (idx i a).val = i.val * neq + a.val := by
  show a.val + neq * i.val = i.val * neq + a.val
  rw [Nat.mul_comm, Nat.add_comm]

theorem cellOf_val (j : Fin (n * neq)) : (cellOf j).val = j.val / neq := rfl

theorem compOf_val (j : Fin (n * neq)) : (compOf j).val = j.val % neq := rfl

theorem idx_cellOf_compOf (j : Fin (n * neq)) : idx (cellOf j) (compOf j) = j :=
  finProdFinEquiv.apply_symm_apply j

theorem cellOf_idx (i : Fin n) (a : Fin neq) : cellOf (idx i a) = i :=
  congrArg Prod.fst (finProdFinEquiv.symm_apply_apply (i, a))

theorem compOf_idx (i : Fin n) (a : Fin neq) : compOf (idx i a) = a :=
  congrArg Prod.snd (finProdFinEquiv.symm_apply_apply (i, a))

/-- an unknown is determined by its cell and its equation -/
theorem unknown_ext {j j' : Fin (n * neq)} (hc : cellOf j = cellOf j') (ha : compOf j = compOf j') : j = j' := by
  rw [← idx_cellOf_compOf j, ← idx_cellOf_compOf j', hc, ha]

/-- the flattening: unknown `j` carries equation `j % neq` of cell `j / neq` -/
def flat (u : Sys α neq n) : Vec α (n * neq) := fun j => u (compOf j) (cellOf j)

/-- its inverse: `u a i = v (i*neq + a)` (the strided views `v[a :: neq]` of the code) -/
def unflat (v : Vec α (n * neq)) : Sys α neq n := fun a i => v (idx i a)

theorem unflat_flat (u : Sys α neq n) : unflat (flat u) = u := by
  funext a i
  show u (compOf (idx i a)) (cellOf (idx i a)) = u a i
  rw [compOf_idx, cellOf_idx]

theorem flat_unflat (v : Vec α (n * neq)) : flat (unflat v) = v := by
  funext j
  show v (idx (cellOf j) (compOf j)) = v j
  rw [idx_cellOf_compOf]

/-- **the flattening is a bijection** between systems and vectors of unknowns -/
def flatEquiv : Sys α neq n ≃ Vec α (n * neq) :=
  { toFun := flat, invFun := unflat, left_inv := unflat_flat, right_inv := flat_unflat }

theorem flat_bijective : Function.Bijective (flat : Sys α neq n → Vec α (n * neq)) := flatEquiv.bijective
theorem unflat_bijective : Function.Bijective (unflat : Vec α (n * neq) → Sys α neq n) := flatEquiv.symm.bijective

theorem flat_idx (u : Sys α neq n) (i : Fin n) (a : Fin neq) : flat u (idx i a) = u a i :=
  congrFun (congrFun (unflat_flat u) a) i

/-- the entry number `i*neq + a` of the flattened system is equation `a` of cell `i` (`calc_jacobian`:
"ordering is ncell x neq (neq is the fast index)") -/
theorem flat_mk (u : Sys α neq n) (i : Fin n) (a : Fin neq) (h : i.val * neq + a.val < n * neq) :
    flat u ⟨i.val * neq + a.val, h⟩ = u a i := by
  rw [← flat_idx u i a]
  exact congrArg (flat u) (Fin.ext (idx_val i a).symm)

/-- the flattening is linear -/
def flatL [Semiring α] : Sys α neq n ≃ₗ[α] Vec α (n * neq) :=
  { flatEquiv with map_add' := fun _ _ => rfl, map_smul' := fun _ _ => rfl }

theorem flatL_apply [Semiring α] (u : Sys α neq n) : flatL u = flat u := rfl
theorem flatL_symm_apply [Semiring α] (v : Vec α (n * neq)) : (flatL (α := α)).symm v = unflat v := rfl

end flatten

/-! ## 2. the cell shift of a system is a permutation of the unknowns -/
section shift
variable {α : Type} {n neq : ℕ} [NeZero n]

/-- cyclic shift of every equation of a system by `k` cells: `np.roll(q, -k)` for each `q in field.data` -/
def shiftSys (k : Fin n) (u : Sys α neq n) : Sys α neq n := fun a i => u a (i + k)

/-- the permutation of the unknowns induced by the shift by `k` cells: the unknown of (cell `i`, equation `a`)
goes to the unknown of (cell `i + k`, equation `a`) -/
def shiftPerm (k : Fin n) : Equiv.Perm (Fin (n * neq)) :=
  finProdFinEquiv.symm.trans ((Equiv.prodCongr (Equiv.addRight k) (Equiv.refl (Fin neq))).trans finProdFinEquiv)

theorem shiftPerm_apply (k : Fin n) (j : Fin (n * neq)) : shiftPerm k j = idx (cellOf j + k) (compOf j) := rfl

theorem shiftPerm_idx (k : Fin n) (i : Fin n) (a : Fin neq) : shiftPerm k (idx i a) = idx (i + k) a := by
  rw [shiftPerm_apply, cellOf_idx, compOf_idx]

theorem cellOf_shiftPerm (k : Fin n) (j : Fin (n * neq)) : cellOf (shiftPerm k j) = cellOf j + k := by
  rw [shiftPerm_apply, cellOf_idx]

theorem compOf_shiftPerm (k : Fin n) (j : Fin (n * neq)) : compOf (shiftPerm k j) = compOf j := by
  rw [shiftPerm_apply, compOf_idx]

/-- in numbers: unknown `j` is sent to `((j / neq + k) mod n) * neq + j mod neq` -/
theorem shiftPerm_val (k : Fin n) (j : Fin (n * neq)) :
    (shiftPerm k j).val = ((j.val / neq + k.val) % n) * neq + j.val % neq := by
  rw [shiftPerm_apply, idx_val, Fin.val_add, cellOf_val, compOf_val]

/-- the shift of the unknowns: `T v j = v (π j)` -/
def shiftFlat [Semiring α] (k : Fin n) : Vec α (n * neq) →ₗ[α] Vec α (n * neq) :=
  { toFun := fun v j => v (shiftPerm k j), map_add' := fun _ _ => rfl, map_smul' := fun _ _ => rfl }

theorem shiftFlat_apply [Semiring α] (k : Fin n) (v : Vec α (n * neq)) (j : Fin (n * neq)) :
    shiftFlat k v j = v (shiftPerm k j) := rfl

/-- **through the flattening the cell shift of a system is the permutation `shiftPerm k` of the unknowns** -/
theorem flat_shiftSys_apply (k : Fin n) (u : Sys α neq n) (j : Fin (n * neq)) :
    flat (shiftSys k u) j = flat u (shiftPerm k j) := by
  show u (compOf j) (cellOf j + k) = u (compOf (shiftPerm k j)) (cellOf (shiftPerm k j))
  rw [compOf_shiftPerm, cellOf_shiftPerm]

theorem flat_shiftSys [Semiring α] (k : Fin n) (u : Sys α neq n) : flat (shiftSys k u) = shiftFlat k (flat u) :=
  funext (flat_shiftSys_apply k u)

theorem unflat_shiftFlat [Semiring α] (k : Fin n) (v : Vec α (n * neq)) :
    unflat (shiftFlat k v) = shiftSys k (unflat v) := by
  funext a i
  show v (shiftPerm k (idx i a)) = v (idx (i + k) a)
  rw [shiftPerm_idx]

/-- `shiftFlat k` is the conjugate of `shiftSys k` by the flattening -/
theorem shiftFlat_eq [Semiring α] (k : Fin n) (v : Vec α (n * neq)) : shiftFlat k v = flat (shiftSys k (unflat v)) := by
  rw [flat_shiftSys, flat_unflat]

/-- the form required by `solve_theta_reindex` / `solve_gear_reindex` of C14c: a signed permutation with signs `1` -/
theorem shiftFlat_reindex [Semiring α] (k : Fin n) (x : Vec α (n * neq)) (j : Fin (n * neq)) :
    shiftFlat k x j = (fun _ => (1 : α)) j * x (shiftPerm k j) := by
  rw [shiftFlat_apply, one_mul]

/-- shifts compose: the shifts of the unknowns form an action of the cyclic group of the cells -/
theorem shiftPerm_add (k k' : Fin n) (j : Fin (n * neq)) :
    shiftPerm (neq := neq) k' (shiftPerm k j) = shiftPerm (k + k') j := by
  rw [shiftPerm_apply, cellOf_shiftPerm, compOf_shiftPerm, shiftPerm_apply, add_assoc]

theorem shiftPerm_zero (j : Fin (n * neq)) : shiftPerm (neq := neq) (0 : Fin n) j = j := by
  rw [shiftPerm_apply, add_zero, idx_cellOf_compOf]

end shift

/-! ## 3. the flattened operator -/
section operator
variable {α : Type} {n neq : ℕ}

/-- the operator on the vector of unknowns of a system operator: `R v = flat (Rsys (unflat v))` -/
def flatOp (Rsys : Sys α neq n → Sys α neq n) : Vec α (n * neq) → Vec α (n * neq) := fun v => flat (Rsys (unflat v))

theorem flatOp_flat (Rsys : Sys α neq n → Sys α neq n) (u : Sys α neq n) : flatOp Rsys (flat u) = flat (Rsys u) := by
  unfold flatOp; rw [unflat_flat]

/-- **a system operator commuting with the cell shift gives a flattened operator commuting with the permutation of
the unknowns** -/
theorem flatOp_shift [NeZero n] [Semiring α] (k : Fin n) (Rsys : Sys α neq n → Sys α neq n)
    (hR : ∀ u, Rsys (shiftSys k u) = shiftSys k (Rsys u)) (v : Vec α (n * neq)) :
    flatOp Rsys (shiftFlat k v) = shiftFlat k (flatOp Rsys v) := by
  unfold flatOp
  rw [unflat_shiftFlat, hR, flat_shiftSys]

/-- and conversely -/
theorem shiftSys_of_flatOp [NeZero n] [Semiring α] (k : Fin n) (Rsys : Sys α neq n → Sys α neq n)
    (hR : ∀ v, flatOp Rsys (shiftFlat k v) = shiftFlat k (flatOp Rsys v)) (u : Sys α neq n) :
    Rsys (shiftSys k u) = shiftSys k (Rsys u) := by
  have h := hR (flat u)
  rw [← flat_shiftSys, flatOp_flat, flatOp_flat, ← flat_shiftSys] at h
  exact flatEquiv.injective h

end operator

/-! ## 4. time steps and perturbations of the implicit model -/
section timestep
variable {α : Type} {n neq : ℕ}

/-- `np.repeat(dt_cell, neq)` (`solve_implicit`, "neq is the fast index"): unknown `j` gets the time step of its
cell `j / neq` -/
def repeatCells (d : Vec α n) : Vec α (n * neq) := fun j => d (cellOf j)

theorem repeatCells_apply (d : Vec α n) (j : Fin (n * neq)) :
    repeatCells d j = d ⟨j.val / neq, (cellOf j).isLt⟩ := rfl

theorem repeatCells_idx (d : Vec α n) (i : Fin n) (a : Fin neq) : repeatCells d (idx i a) = d i := by
  unfold repeatCells; rw [cellOf_idx]

/-- a scalar time step (`dtloc` a float) is the constant array -/
theorem repeatCells_const (a : α) : repeatCells (neq := neq) (fun _ : Fin n => a) = fun _ => a := rfl

/-- repeating the per-cell time steps is flattening the system whose equations all carry the per-cell array -/
theorem repeatCells_eq_flat (d : Vec α n) : repeatCells (neq := neq) d = flat (fun _ => d) := rfl

/-- **the time-step vector of the shifted per-cell time steps is the permuted time-step vector** -/
theorem repeatCells_shift [Field α] [NeZero n] (k : Fin n) (d : Vec α n) :
    repeatCells (neq := neq) (shiftVec k d) = fun j => repeatCells d (shiftPerm k j) := by
  funext j
  show d (cellOf j + k) = d (cellOf (shiftPerm k j))
  rw [cellOf_shiftPerm]

theorem repeatCells_shift' [Field α] [NeZero n] (k : Fin n) (d : Vec α n) :
    repeatCells (neq := neq) (shiftVec k d) = shiftFlat k (repeatCells d) := repeatCells_shift k d

/-- hence the shift of the unknowns intertwines the two diagonal scalings of `solve_implicit` (`DtCompat`, C06b) -/
theorem dtCompat_shiftFlat [Field α] [NeZero n] (k : Fin n) (d : Vec α n) :
    DtCompat (shiftFlat (α := α) (neq := neq) k) (repeatCells d) (repeatCells (shiftVec k d)) := by
  rw [repeatCells_shift]
  exact dtCompat_reindex (shiftFlat k) (shiftPerm k) (fun _ => 1) (shiftFlat_reindex k) (repeatCells d)

/-- a perturbation rule that sees the unknown `j` only through its equation `j % neq`, by quantities that the cell
shift does not change, commutes with the shift of the unknowns -/
theorem eps_shift_of_comp [Semiring α] [NeZero n] (k : Fin n) (g : Fin neq → Vec α (n * neq) → α)
    (hg : ∀ a v, g a (shiftFlat k v) = g a v) (v : Vec α (n * neq)) :
    (fun j => g (compOf j) (shiftFlat k v)) = shiftFlat k (fun j => g (compOf j) v) := by
  funext j
  rw [shiftFlat_apply, compOf_shiftPerm, hg]

variable [Field α] [LinearOrder α]

/-- mean magnitude of equation `a`: `np.sum(np.abs(q)) / field.nelem` for `q = field.data[a]` -/
def compMean (v : Vec α (n * neq)) (a : Fin neq) : α := (∑ i : Fin n, |v (idx i a)|) / (n : α)

/-- the perturbations of `calc_jacobian`: `eps[a] = epsdiff * (mean|q_a| or 1.0)` for every unknown of equation `a` -/
def epsRule (epsdiff : α) (v : Vec α (n * neq)) : Vec α (n * neq) :=
  fun j => epsdiff * (if compMean v (compOf j) = 0 then 1 else compMean v (compOf j))

/-- the mean magnitude of an equation does not see the cell shift -/
theorem compMean_shift [NeZero n] (k : Fin n) (v : Vec α (n * neq)) (a : Fin neq) :
    compMean (shiftFlat k v) a = compMean v a := by
  unfold compMean
  congr 1
  rw [← Equiv.sum_comp (Equiv.addRight k) (fun i => |v (idx i a)|)]
  refine Finset.sum_congr rfl fun i _ => ?_
  rw [shiftFlat_apply, shiftPerm_idx]
  rfl

/-- **the perturbation rule of the code commutes with the shift of the unknowns** -/
theorem epsRule_shift [NeZero n] (epsdiff : α) (k : Fin n) (v : Vec α (n * neq)) :
    epsRule epsdiff (shiftFlat k v) = shiftFlat k (epsRule epsdiff v) :=
  eps_shift_of_comp k (fun a v => epsdiff * (if compMean v a = 0 then 1 else compMean v a))
    (fun a v => by simp only [compMean_shift]) v

theorem compMean_nonneg [IsStrictOrderedRing α] (v : Vec α (n * neq)) (a : Fin neq) : 0 ≤ compMean v a :=
  div_nonneg (Finset.sum_nonneg fun _ _ => abs_nonneg _) (Nat.cast_nonneg n)

/-- the perturbations are never zero (positive for `epsdiff > 0`): the columns of `calc_jacobian` are defined -/
theorem epsRule_pos [IsStrictOrderedRing α] (epsdiff : α) (h : 0 < epsdiff) (v : Vec α (n * neq)) (j : Fin (n * neq)) :
    0 < epsRule epsdiff v j := by
  unfold epsRule
  split_ifs with h0
  · simpa using h
  · exact mul_pos h (lt_of_le_of_ne (compMean_nonneg v _) (Ne.symm h0))

theorem epsRule_ne_zero (epsdiff : α) (h : epsdiff ≠ 0) (v : Vec α (n * neq)) (j : Fin (n * neq)) :
    epsRule epsdiff v j ≠ 0 := by
  unfold epsRule
  split_ifs with h0
  · simpa using h
  · exact mul_ne_zero h h0

end timestep

/-! ## 5. whole solves of the implicit family for systems -/
section solve
variable {α : Type} [Field α] [LinearOrder α] [IsStrictOrderedRing α] {n neq : ℕ} [NeZero n]

/-- hypotheses on the driver parameters for the shift by `k` cells of a system: time-step values are per-CELL arrays
(`calc_timestep`; `dtlocal` either way), the unknowns are the `n * neq` flattened values.  The time-step rule commutes
with the shift, its minimum and the monitors do not see it, a scalar step is the constant array. -/
structure ShiftParSys (k : Fin n) (p : DrvPar α (Vec α (n * neq)) (Vec α n)) : Prop where
  calcDt : ∀ t q, p.calcDt t (shiftFlat k q) = shiftVec k (p.calcDt t q)
  minDt : ∀ d, p.minDt (shiftVec k d) = p.minDt d
  scalar : ∀ a, p.scalar a = fun _ => a
  mon : ∀ mon ∈ p.monitors, ∀ t q, mon.2 t (shiftFlat k q) = mon.2 t q

omit [LinearOrder α] [IsStrictOrderedRing α] in
theorem ShiftParSys.hom {k : Fin n} {p : DrvPar α (Vec α (n * neq)) (Vec α n)} (h : ShiftParSys k p) :
    ParHom p p (shiftFlat k) (shiftVec k) (fun _ => id) where
  calcDt := h.calcDt
  minDt := h.minDt
  scalar := fun a => by rw [h.scalar]; rfl
  dtlocal := rfl
  tottime := rfl
  maxit := rfl
  tsave := rfl
  itstart := rfl
  monitors_length := rfl
  monitors := fun i m m' hm hm' => by
    rw [hm] at hm'; cases hm'
    exact ⟨rfl, fun t q => h.mon m (List.mem_of_getElem? hm) t q⟩

/-- **C14, `implicit` / `cranknicolson`, operators on the flattened unknowns of a system**: ANY operator `R t` on the
`n * neq` unknowns commuting with the permutation `shiftFlat k` induced by the shift by `k` cells, shift-equivariant
perturbation rule (`epsRule_shift`: the code's rule is one), per-cell time-step arrays repeated `neq` times
(`repeatCells`; global or local time step according to `p.dtlocal`).  Solver hypotheses at the visited states:
`StateOK` (C14c). -/
theorem solve_theta_shift_flat (solve : Mat α (n * neq) → Vec α (n * neq) → Vec α (n * neq)) (θ : α)
    (R : α → Vec α (n * neq) → Vec α (n * neq)) (eps : Vec α (n * neq) → Vec α (n * neq))
    (p : DrvPar α (Vec α (n * neq)) (Vec α n)) (k : Fin n)
    (hR : ∀ t v, R t (shiftFlat k v) = shiftFlat k (R t v))
    (heps : ∀ q, eps (shiftFlat k q) = shiftFlat k (eps q))
    (hp : ShiftParSys k p) (fuel : ℕ) (t0 : α) (q0 : Vec α (n * neq))
    (hfull : ∀ x, Visited (thetaCfg solve θ R eps repeatCells p) ((), t0, q0) x →
      StateOK solve θ 0 (R x.2.1) (R x.2.1) (shiftFlat k) (eps x.2.2) (shiftFlat k (eps x.2.2))
        (repeatCells (p.stepDt x.2.1 x.2.2)) (shiftFlat k (repeatCells (p.stepDt x.2.1 x.2.2))) (fun _ => 0) x.2.2)
    (hside : ∀ x, Visited (thetaCfg solve θ R eps repeatCells p) ((), t0, q0) x →
      ∀ a, 0 < a → a ≤ p.minDt (p.calcDt x.2.1 x.2.2) →
      StateOK solve θ 0 (R x.2.1) (R x.2.1) (shiftFlat k) (eps x.2.2) (shiftFlat k (eps x.2.2))
        (repeatCells (p.scalar a)) (shiftFlat k (repeatCells (p.scalar a))) (fun _ => 0) x.2.2) :
    (thetaCfg solve θ R eps repeatCells p).run fuel () t0 (shiftFlat k q0)
      = (DrvState.map id id (shiftFlat k) (fun _ => id) ((thetaCfg solve θ R eps repeatCells p).run fuel () t0 q0).1,
         ((thetaCfg solve θ R eps repeatCells p).run fuel () t0 q0).2) :=
  solve_theta_reindex solve θ R R eps eps repeatCells repeatCells p p (shiftFlat k) (shiftPerm k) (fun _ => 1)
    (shiftFlat_reindex k) (fun _ => one_ne_zero) (shiftVec k) (fun _ => id) hp.hom hR heps (repeatCells_shift k)
    fuel t0 q0 hfull hside

/-- the same for `gear`: the memory (previous residual, flattened) is shifted too; from any initial memory -/
theorem solve_gear_shift_flat (solve : Mat α (n * neq) → Vec α (n * neq) → Vec α (n * neq))
    (R : α → Vec α (n * neq) → Vec α (n * neq)) (eps : Vec α (n * neq) → Vec α (n * neq))
    (p : DrvPar α (Vec α (n * neq)) (Vec α n)) (k : Fin n)
    (hR : ∀ t v, R t (shiftFlat k v) = shiftFlat k (R t v))
    (heps : ∀ q, eps (shiftFlat k q) = shiftFlat k (eps q))
    (hp : ShiftParSys k p) (fuel : ℕ) (s0 : Option (Vec α (n * neq))) (t0 : α) (q0 : Vec α (n * neq))
    (hfull : ∀ x, Visited (gearCfg solve R eps repeatCells p) (s0, t0, q0) x →
      GearOK solve (R x.2.1) (R x.2.1) (shiftFlat k) (eps x.2.2) (shiftFlat k (eps x.2.2))
        (repeatCells (p.stepDt x.2.1 x.2.2)) (shiftFlat k (repeatCells (p.stepDt x.2.1 x.2.2))) x.1 x.2.2)
    (hside : ∀ x, Visited (gearCfg solve R eps repeatCells p) (s0, t0, q0) x →
      ∀ a, 0 < a → a ≤ p.minDt (p.calcDt x.2.1 x.2.2) →
      GearOK solve (R x.2.1) (R x.2.1) (shiftFlat k) (eps x.2.2) (shiftFlat k (eps x.2.2))
        (repeatCells (p.scalar a)) (shiftFlat k (repeatCells (p.scalar a))) x.1 x.2.2) :
    (gearCfg solve R eps repeatCells p).run fuel (s0.map (shiftFlat k)) t0 (shiftFlat k q0)
      = (DrvState.map (Option.map (shiftFlat k)) id (shiftFlat k) (fun _ => id)
          ((gearCfg solve R eps repeatCells p).run fuel s0 t0 q0).1,
         ((gearCfg solve R eps repeatCells p).run fuel s0 t0 q0).2) :=
  solve_gear_reindex solve R R eps eps repeatCells repeatCells p p (shiftFlat k) (shiftPerm k) (fun _ => 1)
    (shiftFlat_reindex k) (fun _ => one_ne_zero) (shiftVec k) (fun _ => id) hp.hom hR heps (repeatCells_shift k)
    fuel s0 t0 q0 hfull hside

/-- **C14 for whole solves of SYSTEMS with `implicit` / `cranknicolson`**: `neq` equations on `n` cells, ANY system
operator `Rsys t` commuting with the cyclic shift of the cells (nonlinear fluxes, limiters, any coupling of the
equations), flattened onto the `n * neq` unknowns of the implicit model (`flatOp`, unknown `i*neq + a`).  The solve
from the initial system shifted by `k` cells is the solve from the initial system with everything permuted by
`shiftFlat k`, i.e. (`unflat_shiftFlat`, `shiftedSys_of_map`) every equation of the final field, of every snapshot
and of every trajectory state shifted by `k` cells; same flag, iteration count, times, tags, monitor logs. -/
theorem solve_theta_shift_sys (solve : Mat α (n * neq) → Vec α (n * neq) → Vec α (n * neq)) (θ : α)
    (Rsys : α → Sys α neq n → Sys α neq n) (eps : Vec α (n * neq) → Vec α (n * neq))
    (p : DrvPar α (Vec α (n * neq)) (Vec α n)) (k : Fin n)
    (hR : ∀ t u, Rsys t (shiftSys k u) = shiftSys k (Rsys t u))
    (heps : ∀ q, eps (shiftFlat k q) = shiftFlat k (eps q))
    (hp : ShiftParSys k p) (fuel : ℕ) (t0 : α) (u0 : Sys α neq n)
    (hfull : ∀ x, Visited (thetaCfg solve θ (fun t => flatOp (Rsys t)) eps repeatCells p) ((), t0, flat u0) x →
      StateOK solve θ 0 (flatOp (Rsys x.2.1)) (flatOp (Rsys x.2.1)) (shiftFlat k) (eps x.2.2)
        (shiftFlat k (eps x.2.2)) (repeatCells (p.stepDt x.2.1 x.2.2))
        (shiftFlat k (repeatCells (p.stepDt x.2.1 x.2.2))) (fun _ => 0) x.2.2)
    (hside : ∀ x, Visited (thetaCfg solve θ (fun t => flatOp (Rsys t)) eps repeatCells p) ((), t0, flat u0) x →
      ∀ a, 0 < a → a ≤ p.minDt (p.calcDt x.2.1 x.2.2) →
      StateOK solve θ 0 (flatOp (Rsys x.2.1)) (flatOp (Rsys x.2.1)) (shiftFlat k) (eps x.2.2)
        (shiftFlat k (eps x.2.2)) (repeatCells (p.scalar a)) (shiftFlat k (repeatCells (p.scalar a)))
        (fun _ => 0) x.2.2) :
    (thetaCfg solve θ (fun t => flatOp (Rsys t)) eps repeatCells p).run fuel () t0 (flat (shiftSys k u0))
      = (DrvState.map id id (shiftFlat k) (fun _ => id)
          ((thetaCfg solve θ (fun t => flatOp (Rsys t)) eps repeatCells p).run fuel () t0 (flat u0)).1,
         ((thetaCfg solve θ (fun t => flatOp (Rsys t)) eps repeatCells p).run fuel () t0 (flat u0)).2) := by
  rw [flat_shiftSys]
  exact solve_theta_shift_flat solve θ (fun t => flatOp (Rsys t)) eps p k
    (fun t v => flatOp_shift k (Rsys t) (hR t) v) heps hp fuel t0 (flat u0) hfull hside

/-- the same for `gear`; the memory is the flattened previous residual, shifted with the data -/
theorem solve_gear_shift_sys (solve : Mat α (n * neq) → Vec α (n * neq) → Vec α (n * neq))
    (Rsys : α → Sys α neq n → Sys α neq n) (eps : Vec α (n * neq) → Vec α (n * neq))
    (p : DrvPar α (Vec α (n * neq)) (Vec α n)) (k : Fin n)
    (hR : ∀ t u, Rsys t (shiftSys k u) = shiftSys k (Rsys t u))
    (heps : ∀ q, eps (shiftFlat k q) = shiftFlat k (eps q))
    (hp : ShiftParSys k p) (fuel : ℕ) (s0 : Option (Sys α neq n)) (t0 : α) (u0 : Sys α neq n)
    (hfull : ∀ x, Visited (gearCfg solve (fun t => flatOp (Rsys t)) eps repeatCells p) (s0.map flat, t0, flat u0) x →
      GearOK solve (flatOp (Rsys x.2.1)) (flatOp (Rsys x.2.1)) (shiftFlat k) (eps x.2.2)
        (shiftFlat k (eps x.2.2)) (repeatCells (p.stepDt x.2.1 x.2.2))
        (shiftFlat k (repeatCells (p.stepDt x.2.1 x.2.2))) x.1 x.2.2)
    (hside : ∀ x, Visited (gearCfg solve (fun t => flatOp (Rsys t)) eps repeatCells p) (s0.map flat, t0, flat u0) x →
      ∀ a, 0 < a → a ≤ p.minDt (p.calcDt x.2.1 x.2.2) →
      GearOK solve (flatOp (Rsys x.2.1)) (flatOp (Rsys x.2.1)) (shiftFlat k) (eps x.2.2)
        (shiftFlat k (eps x.2.2)) (repeatCells (p.scalar a)) (shiftFlat k (repeatCells (p.scalar a))) x.1 x.2.2) :
    (gearCfg solve (fun t => flatOp (Rsys t)) eps repeatCells p).run fuel ((s0.map (shiftSys k)).map flat) t0
        (flat (shiftSys k u0))
      = (DrvState.map (Option.map (shiftFlat k)) id (shiftFlat k) (fun _ => id)
          ((gearCfg solve (fun t => flatOp (Rsys t)) eps repeatCells p).run fuel (s0.map flat) t0 (flat u0)).1,
         ((gearCfg solve (fun t => flatOp (Rsys t)) eps repeatCells p).run fuel (s0.map flat) t0 (flat u0)).2) := by
  have hs : (s0.map (shiftSys k)).map flat = (s0.map flat).map (shiftFlat (α := α) k) := by
    cases s0 with
    | none => rfl
    | some l => simp only [Option.map_some, flat_shiftSys]
  rw [flat_shiftSys, hs]
  exact solve_gear_shift_flat solve (fun t => flatOp (Rsys t)) eps p k
    (fun t v => flatOp_shift k (Rsys t) (hR t) v) heps hp fuel (s0.map flat) t0 (flat u0) hfull hside

omit [LinearOrder α] [IsStrictOrderedRing α] in
/-- **what the caller sees, in system form**: from the conclusion of the theorems above — same flag, iteration
count, save index and final time; every equation of the final field shifted by `k` cells; the same number of
snapshots, with the same tags and times, every equation of every snapshot shifted by `k` cells -/
theorem shiftedSys_of_map {σ σ' : Type} {fσ : σ → σ'} {fm : ℕ → α → α} (k : Fin n)
    {r : DrvState σ α (Vec α (n * neq)) × Bool} {r' : DrvState σ' α (Vec α (n * neq)) × Bool}
    (E : r' = (DrvState.map fσ id (shiftFlat k) fm r.1, r.2)) :
    r'.2 = r.2 ∧ r'.1.nit = r.1.nit ∧ r'.1.isave = r.1.isave ∧ r'.1.time = r.1.time
    ∧ unflat r'.1.data = shiftSys k (unflat r.1.data)
    ∧ r'.1.results.length = r.1.results.length
    ∧ ∀ i (hi : i < r.1.results.length) (hi' : i < r'.1.results.length),
        (r'.1.results[i]).it = (r.1.results[i]).it ∧ (r'.1.results[i]).time = (r.1.results[i]).time
        ∧ unflat (r'.1.results[i]).data = shiftSys k (unflat (r.1.results[i]).data) := by
  obtain ⟨h1, h2, h3, h4, -⟩ := final_of_map E
  obtain ⟨-, h6, h7⟩ := results_of_map E
  refine ⟨h1, h2, by rw [E]; rfl, h3, by rw [h4, unflat_shiftFlat], h6, fun i hi hi' => ?_⟩
  obtain ⟨a, b, c⟩ := h7 i hi hi'
  exact ⟨a, b, by rw [c, unflat_shiftFlat]⟩

end solve

/-! ## 5′. the model's periodic uniform 1D pipeline for a system of `neq` equations -/
section model
variable {α : Type} [Field α] [LinearOrder α] [IsStrictOrderedRing α] {n neq : ℕ} [NeZero n] [NeZero neq]

/-- the cell data of a system as the pipeline `Disc1D.rhs` takes them (`ℕ → ℕ → α`: equation, cell; the models of
`Model/Models1D.lean` number their components by `ℕ`): cells `c ≥ n` carry the periodic continuation, equation
numbers `l ≥ neq` (which the kernels of a model with `neq` equations do not read) wrap around -/
def fieldOf (u : Sys α neq n) : ℕ → ℕ → α := fun l c => u (Fin.ofNat neq l) (Fin.ofNat n c)

/-- the system carried by the cells `c < n`, equations `l < neq` of pipeline data -/
def sysOf (q : ℕ → ℕ → α) : Sys α neq n := fun a i => q a.val i.val

omit [Field α] [LinearOrder α] [IsStrictOrderedRing α] in
theorem fieldOf_apply (u : Sys α neq n) (l c : ℕ) (hl : l < neq) (hc : c < n) : fieldOf u l c = u ⟨l, hl⟩ ⟨c, hc⟩ := by
  unfold fieldOf
  congr 1 <;> apply Fin.ext <;> simp only [Fin.val_ofNat] <;> exact Nat.mod_eq_of_lt ‹_›

omit [Field α] [LinearOrder α] [IsStrictOrderedRing α] in
theorem sysOf_fieldOf (u : Sys α neq n) : sysOf (fieldOf u) = u := by
  funext a i
  exact fieldOf_apply u a.val i.val a.isLt i.isLt

omit [Field α] [LinearOrder α] [IsStrictOrderedRing α] in
theorem fieldOf_shiftSys (k : Fin n) (u : Sys α neq n) : fieldOf (shiftSys k u) = shift n k.val (fieldOf u) := by
  funext l c
  show u (Fin.ofNat neq l) (Fin.ofNat n c + k) = u (Fin.ofNat neq l) (Fin.ofNat n ((c + k.val) % n))
  congr 1
  apply Fin.ext
  rw [Fin.val_add, Fin.val_ofNat, Fin.val_ofNat, Nat.mod_add_mod, Nat.mod_mod]

/-- `modeldisc.rhs` of a model with `neq` equations (kernels `c2p`, `Φ`) on the periodic uniform mesh of `n` cells
(`perDisc` of C14a: length `L`, origin `x0`, reconstruction `s`), as an operator on systems -/
def perSys (L x0 : α) (s : Scheme α) (c2p : (ℕ → α) → (ℕ → α)) (Φ : (ℕ → α) → (ℕ → α) → (ℕ → α)) :
    Sys α neq n → Sys α neq n :=
  fun u => sysOf ((perDisc n L x0 s c2p Φ).rhs (fieldOf u))

omit [LinearOrder α] [IsStrictOrderedRing α] in
theorem perSys_apply (L x0 : α) (s : Scheme α) (c2p : (ℕ → α) → (ℕ → α)) (Φ : (ℕ → α) → (ℕ → α) → (ℕ → α))
    (u : Sys α neq n) (a : Fin neq) (i : Fin n) :
    perSys L x0 s c2p Φ u a i = (perDisc n L x0 s c2p Φ).rhs (fieldOf u) a.val i.val := rfl

/-- **C14a for systems**: the operator of the periodic uniform pipeline commutes with the cell shift of the system —
every reconstruction (limited ones included), every `cons2prim`, every flux, any number of equations -/
theorem perSys_shift (L x0 : α) (hL : 0 < L) (s : Scheme α) (c2p : (ℕ → α) → (ℕ → α))
    (Φ : (ℕ → α) → (ℕ → α) → (ℕ → α)) (k : Fin n) (u : Sys α neq n) :
    perSys L x0 s c2p Φ (shiftSys k u) = shiftSys k (perSys L x0 s c2p Φ u) := by
  funext a i
  show (perDisc n L x0 s c2p Φ).rhs (fieldOf (shiftSys k u)) a.val i.val
    = (perDisc n L x0 s c2p Φ).rhs (fieldOf u) a.val (i + k : Fin n).val
  rw [fieldOf_shiftSys, rhs_shift n (Nat.pos_of_ne_zero (NeZero.ne n)) L x0 hL s c2p Φ (fieldOf u) k.val a.val
    i.val i.isLt, Fin.val_add]

/-- the operator of the implicit model: the pipeline on the flattened unknowns, unknown `i*neq + a` -/
def perSysVec (L x0 : α) (s : Scheme α) (c2p : (ℕ → α) → (ℕ → α)) (Φ : (ℕ → α) → (ℕ → α) → (ℕ → α)) :
    Vec α (n * neq) → Vec α (n * neq) := flatOp (perSys L x0 s c2p Φ)

omit [LinearOrder α] [IsStrictOrderedRing α] in
/-- entry `i*neq + a` of the flattened operator is the residual of equation `a` in cell `i` (`jacobian[qq::neq, …]`) -/
theorem perSysVec_idx (L x0 : α) (s : Scheme α) (c2p : (ℕ → α) → (ℕ → α)) (Φ : (ℕ → α) → (ℕ → α) → (ℕ → α))
    (v : Vec α (n * neq)) (i : Fin n) (a : Fin neq) :
    perSysVec L x0 s c2p Φ v (idx i a) = (perDisc n L x0 s c2p Φ).rhs (fieldOf (unflat v)) a.val i.val := by
  unfold perSysVec flatOp
  rw [flat_idx]
  rfl

omit [LinearOrder α] [IsStrictOrderedRing α] in
/-- consistency with the scalar case of C14c: for one equation the flattened operator is C14c's `perVec` on the `n` cell
values -/
theorem perSysVec_one (L x0 : α) (s : Scheme α) (c2p : (ℕ → α) → (ℕ → α)) (Φ : (ℕ → α) → (ℕ → α) → (ℕ → α))
    (v : Vec α (n * 1)) (i : Fin n) :
    perSysVec L x0 s c2p Φ v (idx i 0) = perVec L x0 s c2p Φ (fun c => v (idx c 0)) i := by
  rw [perSysVec_idx]
  show (perDisc n L x0 s c2p Φ).rhs (fieldOf (unflat v)) 0 i.val
    = (perDisc n L x0 s c2p Φ).rhs (cellsOf fun c => v (idx c 0)) 0 i.val
  congr 1
  funext l c
  show v (idx (Fin.ofNat n c) (Fin.ofNat 1 l)) = v (idx (Fin.ofNat n c) 0)
  rw [Subsingleton.elim (Fin.ofNat 1 l) 0]

theorem perSysVec_shift (L x0 : α) (hL : 0 < L) (s : Scheme α) (c2p : (ℕ → α) → (ℕ → α))
    (Φ : (ℕ → α) → (ℕ → α) → (ℕ → α)) (k : Fin n) (v : Vec α (n * neq)) :
    perSysVec L x0 s c2p Φ (shiftFlat k v) = shiftFlat k (perSysVec L x0 s c2p Φ v) :=
  flatOp_shift k _ (perSys_shift L x0 hL s c2p Φ k) v

/-- **C14, implicit family, systems of equations in the 1D pipeline** (any number of equations, every
reconstruction including the limited `muscl` ones, every `cons2prim`/flux kernel pair): whole solves with
`implicit` / `cranknicolson` on the periodic uniform mesh commute with every cyclic shift of the cells -/
theorem solve_theta_shift_perSys (solve : Mat α (n * neq) → Vec α (n * neq) → Vec α (n * neq)) (θ L x0 : α)
    (hL : 0 < L) (s : Scheme α) (c2p : (ℕ → α) → (ℕ → α)) (Φ : (ℕ → α) → (ℕ → α) → (ℕ → α))
    (eps : Vec α (n * neq) → Vec α (n * neq)) (p : DrvPar α (Vec α (n * neq)) (Vec α n)) (k : Fin n)
    (heps : ∀ q, eps (shiftFlat k q) = shiftFlat k (eps q)) (hp : ShiftParSys k p) (fuel : ℕ) (t0 : α)
    (u0 : Sys α neq n)
    (hfull : ∀ x, Visited (thetaCfg solve θ (fun _ => perSysVec L x0 s c2p Φ) eps repeatCells p) ((), t0, flat u0) x →
      StateOK solve θ 0 (perSysVec L x0 s c2p Φ) (perSysVec L x0 s c2p Φ) (shiftFlat k) (eps x.2.2)
        (shiftFlat k (eps x.2.2)) (repeatCells (p.stepDt x.2.1 x.2.2))
        (shiftFlat k (repeatCells (p.stepDt x.2.1 x.2.2))) (fun _ => 0) x.2.2)
    (hside : ∀ x, Visited (thetaCfg solve θ (fun _ => perSysVec L x0 s c2p Φ) eps repeatCells p) ((), t0, flat u0) x →
      ∀ a, 0 < a → a ≤ p.minDt (p.calcDt x.2.1 x.2.2) →
      StateOK solve θ 0 (perSysVec L x0 s c2p Φ) (perSysVec L x0 s c2p Φ) (shiftFlat k) (eps x.2.2)
        (shiftFlat k (eps x.2.2)) (repeatCells (p.scalar a)) (shiftFlat k (repeatCells (p.scalar a)))
        (fun _ => 0) x.2.2) :
    (thetaCfg solve θ (fun _ => perSysVec L x0 s c2p Φ) eps repeatCells p).run fuel () t0 (flat (shiftSys k u0))
      = (DrvState.map id id (shiftFlat k) (fun _ => id)
          ((thetaCfg solve θ (fun _ => perSysVec L x0 s c2p Φ) eps repeatCells p).run fuel () t0 (flat u0)).1,
         ((thetaCfg solve θ (fun _ => perSysVec L x0 s c2p Φ) eps repeatCells p).run fuel () t0 (flat u0)).2) :=
  solve_theta_shift_sys solve θ (fun _ => perSys L x0 s c2p Φ) eps p k (fun _ => perSys_shift L x0 hL s c2p Φ k) heps
    hp fuel t0 u0 hfull hside

/-- the same for `gear` -/
theorem solve_gear_shift_perSys (solve : Mat α (n * neq) → Vec α (n * neq) → Vec α (n * neq)) (L x0 : α)
    (hL : 0 < L) (s : Scheme α) (c2p : (ℕ → α) → (ℕ → α)) (Φ : (ℕ → α) → (ℕ → α) → (ℕ → α))
    (eps : Vec α (n * neq) → Vec α (n * neq)) (p : DrvPar α (Vec α (n * neq)) (Vec α n)) (k : Fin n)
    (heps : ∀ q, eps (shiftFlat k q) = shiftFlat k (eps q)) (hp : ShiftParSys k p) (fuel : ℕ)
    (s0 : Option (Sys α neq n)) (t0 : α) (u0 : Sys α neq n)
    (hfull : ∀ x, Visited (gearCfg solve (fun _ => perSysVec L x0 s c2p Φ) eps repeatCells p)
        (s0.map flat, t0, flat u0) x →
      GearOK solve (perSysVec L x0 s c2p Φ) (perSysVec L x0 s c2p Φ) (shiftFlat k) (eps x.2.2)
        (shiftFlat k (eps x.2.2)) (repeatCells (p.stepDt x.2.1 x.2.2))
        (shiftFlat k (repeatCells (p.stepDt x.2.1 x.2.2))) x.1 x.2.2)
    (hside : ∀ x, Visited (gearCfg solve (fun _ => perSysVec L x0 s c2p Φ) eps repeatCells p)
        (s0.map flat, t0, flat u0) x →
      ∀ a, 0 < a → a ≤ p.minDt (p.calcDt x.2.1 x.2.2) →
      GearOK solve (perSysVec L x0 s c2p Φ) (perSysVec L x0 s c2p Φ) (shiftFlat k) (eps x.2.2)
        (shiftFlat k (eps x.2.2)) (repeatCells (p.scalar a)) (shiftFlat k (repeatCells (p.scalar a))) x.1 x.2.2) :
    (gearCfg solve (fun _ => perSysVec L x0 s c2p Φ) eps repeatCells p).run fuel ((s0.map (shiftSys k)).map flat) t0
        (flat (shiftSys k u0))
      = (DrvState.map (Option.map (shiftFlat k)) id (shiftFlat k) (fun _ => id)
          ((gearCfg solve (fun _ => perSysVec L x0 s c2p Φ) eps repeatCells p).run fuel (s0.map flat) t0 (flat u0)).1,
         ((gearCfg solve (fun _ => perSysVec L x0 s c2p Φ) eps repeatCells p).run fuel (s0.map flat) t0
            (flat u0)).2) :=
  solve_gear_shift_sys solve (fun _ => perSys L x0 s c2p Φ) eps p k (fun _ => perSys_shift L x0 hL s c2p Φ k) heps
    hp fuel s0 t0 u0 hfull hside

end model

/-! ## 5″. the Euler and shallow-water models of flowdyn -/
section eulersw
variable {α : Type} [Field α] [LinearOrder α] [IsStrictOrderedRing α] [HasSqrt α] {n : ℕ} [NeZero n]

/-- `euler1d` (3 equations: kernels `eulerC2P γ`, `eulerFluxV γ fl` of `Model/Models1D.lean`, any of the registered
numerical fluxes `fl`) in the periodic uniform 1D pipeline, on the `n * 3` unknowns of the implicit model -/
def eulerVec (γ L x0 : α) (s : Scheme α) (fl : EulerFlux) : Vec α (n * 3) → Vec α (n * 3) :=
  perSysVec L x0 s (eulerC2P γ) (eulerFluxV γ fl)

/-- `shallowwater1d` (2 equations: kernels `swC2P`, `swFluxV g fl`) on the `n * 2` unknowns -/
def swVec (g L x0 : α) (s : Scheme α) (fl : SwFlux) : Vec α (n * 2) → Vec α (n * 2) :=
  perSysVec L x0 s swC2P (swFluxV g fl)

theorem eulerVec_shift (γ L x0 : α) (hL : 0 < L) (s : Scheme α) (fl : EulerFlux) (k : Fin n) (v : Vec α (n * 3)) :
    eulerVec γ L x0 s fl (shiftFlat k v) = shiftFlat k (eulerVec γ L x0 s fl v) :=
  perSysVec_shift L x0 hL s _ _ k v

theorem swVec_shift (g L x0 : α) (hL : 0 < L) (s : Scheme α) (fl : SwFlux) (k : Fin n) (v : Vec α (n * 2)) :
    swVec g L x0 s fl (shiftFlat k v) = shiftFlat k (swVec g L x0 s fl v) :=
  perSysVec_shift L x0 hL s _ _ k v

/-- **C14, `implicit` / `cranknicolson`, Euler 1D**: every registered flux (`centered`, `centeredmassflow`, `hlle`, `hllc`),
every reconstruction, the perturbation rule of `calc_jacobian` (`epsRule epsdiff`), per-cell time steps repeated 3 times -/
theorem solve_theta_shift_euler (solve : Mat α (n * 3) → Vec α (n * 3) → Vec α (n * 3)) (θ γ L x0 : α)
    (hL : 0 < L) (s : Scheme α) (fl : EulerFlux) (epsdiff : α) (p : DrvPar α (Vec α (n * 3)) (Vec α n)) (k : Fin n)
    (hp : ShiftParSys k p) (fuel : ℕ) (t0 : α) (u0 : Sys α 3 n)
    (hfull : ∀ x, Visited (thetaCfg solve θ (fun _ => eulerVec γ L x0 s fl) (epsRule epsdiff) repeatCells p) ((), t0, flat u0) x →
      StateOK solve θ 0 (eulerVec γ L x0 s fl) (eulerVec γ L x0 s fl) (shiftFlat k) (epsRule epsdiff x.2.2)
        (shiftFlat k (epsRule epsdiff x.2.2)) (repeatCells (p.stepDt x.2.1 x.2.2))
        (shiftFlat k (repeatCells (p.stepDt x.2.1 x.2.2))) (fun _ => 0) x.2.2)
    (hside : ∀ x, Visited (thetaCfg solve θ (fun _ => eulerVec γ L x0 s fl) (epsRule epsdiff) repeatCells p) ((), t0, flat u0) x →
      ∀ a, 0 < a → a ≤ p.minDt (p.calcDt x.2.1 x.2.2) →
      StateOK solve θ 0 (eulerVec γ L x0 s fl) (eulerVec γ L x0 s fl) (shiftFlat k) (epsRule epsdiff x.2.2)
        (shiftFlat k (epsRule epsdiff x.2.2)) (repeatCells (p.scalar a)) (shiftFlat k (repeatCells (p.scalar a)))
        (fun _ => 0) x.2.2) :
    (thetaCfg solve θ (fun _ => eulerVec γ L x0 s fl) (epsRule epsdiff) repeatCells p).run fuel () t0 (flat (shiftSys k u0))
      = (DrvState.map id id (shiftFlat k) (fun _ => id)
          ((thetaCfg solve θ (fun _ => eulerVec γ L x0 s fl) (epsRule epsdiff) repeatCells p).run fuel () t0 (flat u0)).1,
         ((thetaCfg solve θ (fun _ => eulerVec γ L x0 s fl) (epsRule epsdiff) repeatCells p).run fuel () t0 (flat u0)).2) :=
  solve_theta_shift_perSys solve θ L x0 hL s (eulerC2P γ) (eulerFluxV γ fl) (epsRule epsdiff) p k (epsRule_shift epsdiff k) hp fuel t0
    u0 hfull hside

/-- the same for `gear` -/
theorem solve_gear_shift_euler (solve : Mat α (n * 3) → Vec α (n * 3) → Vec α (n * 3)) (γ L x0 : α)
    (hL : 0 < L) (s : Scheme α) (fl : EulerFlux) (epsdiff : α) (p : DrvPar α (Vec α (n * 3)) (Vec α n)) (k : Fin n)
    (hp : ShiftParSys k p) (fuel : ℕ) (s0 : Option (Sys α 3 n)) (t0 : α) (u0 : Sys α 3 n)
    (hfull : ∀ x, Visited (gearCfg solve (fun _ => eulerVec γ L x0 s fl) (epsRule epsdiff) repeatCells p)
        (s0.map flat, t0, flat u0) x →
      GearOK solve (eulerVec γ L x0 s fl) (eulerVec γ L x0 s fl) (shiftFlat k) (epsRule epsdiff x.2.2)
        (shiftFlat k (epsRule epsdiff x.2.2)) (repeatCells (p.stepDt x.2.1 x.2.2))
        (shiftFlat k (repeatCells (p.stepDt x.2.1 x.2.2))) x.1 x.2.2)
    (hside : ∀ x, Visited (gearCfg solve (fun _ => eulerVec γ L x0 s fl) (epsRule epsdiff) repeatCells p)
        (s0.map flat, t0, flat u0) x →
      ∀ a, 0 < a → a ≤ p.minDt (p.calcDt x.2.1 x.2.2) →
      GearOK solve (eulerVec γ L x0 s fl) (eulerVec γ L x0 s fl) (shiftFlat k) (epsRule epsdiff x.2.2)
        (shiftFlat k (epsRule epsdiff x.2.2)) (repeatCells (p.scalar a)) (shiftFlat k (repeatCells (p.scalar a)))
        x.1 x.2.2) :
    (gearCfg solve (fun _ => eulerVec γ L x0 s fl) (epsRule epsdiff) repeatCells p).run fuel ((s0.map (shiftSys k)).map flat) t0
        (flat (shiftSys k u0))
      = (DrvState.map (Option.map (shiftFlat k)) id (shiftFlat k) (fun _ => id)
          ((gearCfg solve (fun _ => eulerVec γ L x0 s fl) (epsRule epsdiff) repeatCells p).run fuel (s0.map flat) t0 (flat u0)).1,
         ((gearCfg solve (fun _ => eulerVec γ L x0 s fl) (epsRule epsdiff) repeatCells p).run fuel (s0.map flat) t0 (flat u0)).2) :=
  solve_gear_shift_perSys solve L x0 hL s (eulerC2P γ) (eulerFluxV γ fl) (epsRule epsdiff) p k (epsRule_shift epsdiff k) hp fuel s0 t0
    u0 hfull hside

/-- **C14, `implicit` / `cranknicolson`, shallow water 1D**: every registered flux (`centered`, `rusanov`, `hll`), every
reconstruction, the perturbation rule of `calc_jacobian`, per-cell time steps repeated twice -/
theorem solve_theta_shift_sw (solve : Mat α (n * 2) → Vec α (n * 2) → Vec α (n * 2)) (θ g L x0 : α)
    (hL : 0 < L) (s : Scheme α) (fl : SwFlux) (epsdiff : α) (p : DrvPar α (Vec α (n * 2)) (Vec α n)) (k : Fin n)
    (hp : ShiftParSys k p) (fuel : ℕ) (t0 : α) (u0 : Sys α 2 n)
    (hfull : ∀ x, Visited (thetaCfg solve θ (fun _ => swVec g L x0 s fl) (epsRule epsdiff) repeatCells p) ((), t0, flat u0) x →
      StateOK solve θ 0 (swVec g L x0 s fl) (swVec g L x0 s fl) (shiftFlat k) (epsRule epsdiff x.2.2)
        (shiftFlat k (epsRule epsdiff x.2.2)) (repeatCells (p.stepDt x.2.1 x.2.2))
        (shiftFlat k (repeatCells (p.stepDt x.2.1 x.2.2))) (fun _ => 0) x.2.2)
    (hside : ∀ x, Visited (thetaCfg solve θ (fun _ => swVec g L x0 s fl) (epsRule epsdiff) repeatCells p) ((), t0, flat u0) x →
      ∀ a, 0 < a → a ≤ p.minDt (p.calcDt x.2.1 x.2.2) →
      StateOK solve θ 0 (swVec g L x0 s fl) (swVec g L x0 s fl) (shiftFlat k) (epsRule epsdiff x.2.2)
        (shiftFlat k (epsRule epsdiff x.2.2)) (repeatCells (p.scalar a)) (shiftFlat k (repeatCells (p.scalar a)))
        (fun _ => 0) x.2.2) :
    (thetaCfg solve θ (fun _ => swVec g L x0 s fl) (epsRule epsdiff) repeatCells p).run fuel () t0 (flat (shiftSys k u0))
      = (DrvState.map id id (shiftFlat k) (fun _ => id)
          ((thetaCfg solve θ (fun _ => swVec g L x0 s fl) (epsRule epsdiff) repeatCells p).run fuel () t0 (flat u0)).1,
         ((thetaCfg solve θ (fun _ => swVec g L x0 s fl) (epsRule epsdiff) repeatCells p).run fuel () t0 (flat u0)).2) :=
  solve_theta_shift_perSys solve θ L x0 hL s swC2P (swFluxV g fl) (epsRule epsdiff) p k (epsRule_shift epsdiff k) hp fuel t0
    u0 hfull hside

/-- the same for `gear` -/
theorem solve_gear_shift_sw (solve : Mat α (n * 2) → Vec α (n * 2) → Vec α (n * 2)) (g L x0 : α)
    (hL : 0 < L) (s : Scheme α) (fl : SwFlux) (epsdiff : α) (p : DrvPar α (Vec α (n * 2)) (Vec α n)) (k : Fin n)
    (hp : ShiftParSys k p) (fuel : ℕ) (s0 : Option (Sys α 2 n)) (t0 : α) (u0 : Sys α 2 n)
    (hfull : ∀ x, Visited (gearCfg solve (fun _ => swVec g L x0 s fl) (epsRule epsdiff) repeatCells p)
        (s0.map flat, t0, flat u0) x →
      GearOK solve (swVec g L x0 s fl) (swVec g L x0 s fl) (shiftFlat k) (epsRule epsdiff x.2.2)
        (shiftFlat k (epsRule epsdiff x.2.2)) (repeatCells (p.stepDt x.2.1 x.2.2))
        (shiftFlat k (repeatCells (p.stepDt x.2.1 x.2.2))) x.1 x.2.2)
    (hside : ∀ x, Visited (gearCfg solve (fun _ => swVec g L x0 s fl) (epsRule epsdiff) repeatCells p)
        (s0.map flat, t0, flat u0) x →
      ∀ a, 0 < a → a ≤ p.minDt (p.calcDt x.2.1 x.2.2) →
      GearOK solve (swVec g L x0 s fl) (swVec g L x0 s fl) (shiftFlat k) (epsRule epsdiff x.2.2)
        (shiftFlat k (epsRule epsdiff x.2.2)) (repeatCells (p.scalar a)) (shiftFlat k (repeatCells (p.scalar a)))
        x.1 x.2.2) :
    (gearCfg solve (fun _ => swVec g L x0 s fl) (epsRule epsdiff) repeatCells p).run fuel ((s0.map (shiftSys k)).map flat) t0
        (flat (shiftSys k u0))
      = (DrvState.map (Option.map (shiftFlat k)) id (shiftFlat k) (fun _ => id)
          ((gearCfg solve (fun _ => swVec g L x0 s fl) (epsRule epsdiff) repeatCells p).run fuel (s0.map flat) t0 (flat u0)).1,
         ((gearCfg solve (fun _ => swVec g L x0 s fl) (epsRule epsdiff) repeatCells p).run fuel (s0.map flat) t0 (flat u0)).2) :=
  solve_gear_shift_perSys solve L x0 hL s swC2P (swFluxV g fl) (epsRule epsdiff) p k (epsRule_shift epsdiff k) hp fuel s0 t0
    u0 hfull hside

end eulersw

/-! ## 6. the permutation in closed form; non-vacuity -/
section roll
variable {n neq : ℕ}

theorem mul_add_mod_mul (n neq m a : ℕ) (hn : 0 < n) (ha : a < neq) :
    (m * neq + a) % (n * neq) = (m % n) * neq + a := by
  have h1 : (m % n) * neq + a < n * neq := by
    have h : m % n + 1 ≤ n := Nat.mod_lt _ hn
    calc (m % n) * neq + a < (m % n) * neq + neq := by omega
      _ = (m % n + 1) * neq := by ring
      _ ≤ n * neq := Nat.mul_le_mul_right _ h
  conv_lhs => rw [← Nat.div_add_mod m n]
  rw [show (n * (m / n) + m % n) * neq + a = (m % n) * neq + a + (n * neq) * (m / n) by ring,
    Nat.add_mul_mod_self_left, Nat.mod_eq_of_lt h1]

/-- **the permutation in closed form**: shifting the cells by `k` is rolling the vector of unknowns by `k * neq`
(`np.roll(flat, -k*neq)`) -/
theorem shiftPerm_val_roll [NeZero n] (k : Fin n) (j : Fin (n * neq)) :
    (shiftPerm k j).val = (j.val + k.val * neq) % (n * neq) := by
  have hneq : 0 < neq := by
    rcases Nat.eq_zero_or_pos neq with h | h
    · subst h; exact absurd j.isLt (by simp)
    · exact h
  rw [shiftPerm_val]
  generalize j.val = m
  have hm : m + k.val * neq = (m / neq + k.val) * neq + m % neq := by
    have := Nat.div_add_mod' m neq
    rw [Nat.add_mul]; omega
  rw [hm, mul_add_mod_mul n neq _ _ (Nat.pos_of_ne_zero (NeZero.ne n)) (Nat.mod_lt _ hneq)]

end roll

section sums
variable {α : Type} {n neq : ℕ}

/-- a sum over the unknowns is the sum over the cells of the sums over the equations -/
theorem sum_unknowns [AddCommMonoid α] (f : Fin (n * neq) → α) : ∑ j, f j = ∑ i : Fin n, ∑ a : Fin neq, f (idx i a) := by
  rw [← Equiv.sum_comp finProdFinEquiv f, Fintype.sum_prod_type]
  rfl

end sums

section helpers
variable {α : Type} [Field α] {N : ℕ}

theorem det_ne_of_inj (A : Mat α N) (h : ∀ x, A.mulVec x = 0 → x = 0) : A.det ≠ 0 := by
  have hinj : Function.Injective A.mulVec := by
    intro x y hxy
    have := h (x - y) (by rw [Matrix.mulVec_sub, hxy, sub_self])
    exact sub_eq_zero.mp this
  exact ((Matrix.isUnit_iff_isUnit_det A).mp (Matrix.mulVec_injective_iff_isUnit.mp hinj)).ne_zero

/-- with the exact inverse-matrix solver the solver hypotheses at a state reduce to: both systems are regular -/
theorem stateOK_invSolve (θ ξ : α) (R R' : Vec α N → Vec α N) (T : Vec α N → Vec α N)
    (e e' dtv dtv' last q : Vec α N) (h : (sysMat θ ξ (fdJac R q e) dtv).det ≠ 0)
    (h' : (sysMat θ ξ (fdJac R' (T q) e') dtv').det ≠ 0) :
    StateOK invSolve θ ξ R R' T e e' dtv dtv' last q :=
  ⟨inj_of_det _ h', invSolve_solves _ h _, invSolve_solves _ h' _⟩

/-- a θ/ξ-system with a dissipative Jacobian (`x · J x ≤ 0`), `θ, ξ ≥ 0` and positive time steps is injective -/
theorem sysMat_inj_of_dissipative [LinearOrder α] [IsStrictOrderedRing α] (θ ξ : α) (hθ : 0 ≤ θ) (hξ : 0 ≤ ξ)
    (J : Mat α N) (hJ : ∀ x : Vec α N, ∑ i, x i * J.mulVec x i ≤ 0) (dtv : Vec α N) (hd : ∀ i, 0 < dtv i)
    (x : Vec α N) (hx : (sysMat θ ξ J dtv).mulVec x = 0) : x = 0 := by
  rw [sysMat_mulVec_eq] at hx
  have hi : ∀ i, (1 + ξ) * (x i / dtv i) = θ * J.mulVec x i := fun i => by
    have := congrFun hx i
    simp only [Pi.sub_apply, Pi.smul_apply, smul_eq_mul, Pi.zero_apply] at this
    linarith
  have hsum : ∑ i, (1 + ξ) * (x i * x i / dtv i) = θ * ∑ i, x i * J.mulVec x i := by
    rw [Finset.mul_sum]
    refine Finset.sum_congr rfl fun i _ => ?_
    have := hi i
    calc (1 + ξ) * (x i * x i / dtv i) = x i * ((1 + ξ) * (x i / dtv i)) := by ring
      _ = x i * (θ * J.mulVec x i) := by rw [this]
      _ = θ * (x i * J.mulVec x i) := by ring
  have hnn : ∀ i ∈ Finset.univ, 0 ≤ (1 + ξ) * (x i * x i / dtv i) := fun i _ =>
    mul_nonneg (by linarith) (div_nonneg (mul_self_nonneg _) (hd i).le)
  have hle : ∑ i, (1 + ξ) * (x i * x i / dtv i) ≤ 0 := by
    rw [hsum]; exact mul_nonpos_of_nonneg_of_nonpos hθ (hJ x)
  have hz := (Finset.sum_eq_zero_iff_of_nonneg hnn).mp (le_antisymm hle (Finset.sum_nonneg hnn))
  funext i
  have h0 := hz i (Finset.mem_univ i)
  have h1 : (1 + ξ) ≠ 0 := by have : 0 < 1 + ξ := by linarith
                              exact this.ne'
  rcases mul_eq_zero.mp h0 with h | h
  · exact absurd h h1
  · rcases div_eq_zero_iff.mp h with h | h
    · exact mul_self_eq_zero.mp h
    · exact absurd h (hd i).ne'

end helpers

namespace Ex

/-! #### π explicitly: 3 cells, 2 equations -/

/-- the flattening interleaves the equations: `[a₀, b₀, a₁, b₁, a₂, b₂]` -/
example (a b : Fin 3 → ℚ) :
    (fun j : Fin (3 * 2) => flat (![a, b] : Sys ℚ 2 3) j) = ![a 0, b 0, a 1, b 1, a 2, b 2] := by
  funext j; fin_cases j <;> rfl

/-- shift by one cell: `π = (2 3 4 5 0 1)`, i.e. `j ↦ j + 2 mod 6`; by two cells: `(4 5 0 1 2 3)` -/
example : (fun j : Fin (3 * 2) => (shiftPerm (neq := 2) (1 : Fin 3) j).val) = ![2, 3, 4, 5, 0, 1] := by decide
example : (fun j : Fin (3 * 2) => (shiftPerm (neq := 2) (2 : Fin 3) j).val) = ![4, 5, 0, 1, 2, 3] := by decide
/-- it is NOT the shift of the unknowns by `k` (which would mix the equations) -/
example : (shiftPerm (neq := 2) (1 : Fin 3) (0 : Fin (3 * 2))).val ≠ 1 := by decide

/-- the shifted system, flattened -/
example (a b : Fin 3 → ℚ) :
    (fun j : Fin (3 * 2) => flat (shiftSys 1 (![a, b] : Sys ℚ 2 3)) j) = ![a 1, b 1, a 2, b 2, a 0, b 0] := by
  funext j; fin_cases j <;> rfl

/-- `np.repeat(dt, 2)` -/
example (d : Vec ℚ 3) : (fun j : Fin (3 * 2) => repeatCells (neq := 2) d j) = ![d 0, d 0, d 1, d 1, d 2, d 2] := by
  funext j; fin_cases j <;> rfl


/-! #### a coupled linear hyperbolic system in the model's pipeline: `∂ₜ(u,w) + A ∂ₓ(u,w) = 0`, `A = [[2,1],[1,2]]`
(eigenvalues 1 and 3: the upwind flux is `A · left state`), 3 cells of width 1, first order, `cons2prim = id` -/

def Φ2 (L _R : ℕ → ℚ) : ℕ → ℚ := vec2 (2 * L 0 + L 1, L 0 + 2 * L 1)

/-- the operator of the implicit model on the 6 unknowns -/
def R2 : Vec ℚ (3 * 2) → Vec ℚ (3 * 2) := perSysVec 3 0 Scheme.extrapol1 id Φ2

theorem perSys2_eq (u : Sys ℚ 2 3) (i : Fin 3) :
    perSys 3 0 Scheme.extrapol1 id Φ2 u 0 i = -((2 * u 0 i + u 1 i) - (2 * u 0 (i - 1) + u 1 (i - 1)))
    ∧ perSys 3 0 Scheme.extrapol1 id Φ2 u 1 i = -((u 0 i + 2 * u 1 i) - (u 0 (i - 1) + 2 * u 1 (i - 1))) := by
  have hc : ∀ l c, fieldOf u l c = u (Fin.ofNat 2 l) (Fin.ofNat 3 c) := fun _ _ => rfl
  rw [perSys_apply, perSys_apply]
  unfold perDisc
  rw [rhs_periodic_uniform_eq_cyc 3 (by norm_num) 3 0 (by norm_num) _ _ _ _ _ _ i.isLt,
    rhs_periodic_uniform_eq_cyc 3 (by norm_num) 3 0 (by norm_num) _ _ _ _ _ _ i.isLt]
  fin_cases i <;>
    simp [rhsCyc, recLCyc, cyc, slopeL, Φ2, vec2, hc] <;> exact ⟨rfl, rfl⟩

theorem R2_idx0 (v : Vec ℚ (3 * 2)) (i : Fin 3) :
    R2 v (idx i 0) = -((2 * v (idx i 0) + v (idx i 1)) - (2 * v (idx (i - 1) 0) + v (idx (i - 1) 1))) := by
  unfold R2 perSysVec flatOp
  rw [flat_idx, (perSys2_eq (unflat v) i).1]
  rfl

theorem R2_idx1 (v : Vec ℚ (3 * 2)) (i : Fin 3) :
    R2 v (idx i 1) = -((v (idx i 0) + 2 * v (idx i 1)) - (v (idx (i - 1) 0) + 2 * v (idx (i - 1) 1))) := by
  unfold R2 perSysVec flatOp
  rw [flat_idx, (perSys2_eq (unflat v) i).2]
  rfl

/-- every unknown is `idx i 0` or `idx i 1` -/
theorem unknown_cases (P : Fin (3 * 2) → Prop) (h0 : ∀ i, P (idx i 0)) (h1 : ∀ i, P (idx i 1)) (j : Fin (3 * 2)) :
    P j := by
  rw [← idx_cellOf_compOf j]
  generalize compOf j = a
  fin_cases a
  · exact h0 _
  · exact h1 _

/-- the operator is linear -/
def R2lin : Vec ℚ (3 * 2) →ₗ[ℚ] Vec ℚ (3 * 2) :=
  { toFun := R2
    map_add' := fun u v => by
      funext j
      revert j
      apply unknown_cases
      · intro i
        rw [Pi.add_apply, R2_idx0, R2_idx0, R2_idx0]; simp only [Pi.add_apply]; ring
      · intro i
        rw [Pi.add_apply, R2_idx1, R2_idx1, R2_idx1]; simp only [Pi.add_apply]; ring
    map_smul' := fun c v => by
      funext j
      revert j
      apply unknown_cases
      · intro i
        rw [Pi.smul_apply, R2_idx0, R2_idx0]; simp only [Pi.smul_apply, smul_eq_mul, RingHom.id_apply]; ring
      · intro i
        rw [Pi.smul_apply, R2_idx1, R2_idx1]; simp only [Pi.smul_apply, smul_eq_mul, RingHom.id_apply]; ring }

/-- its matrix (the Jacobian) -/
def M2 : Mat ℚ (3 * 2) := LinearMap.toMatrix' R2lin

theorem R2_eq : R2 = fun v => M2.mulVec v + 0 := by
  funext v
  rw [add_zero]
  exact (LinearMap.toMatrix'_mulVec R2lin v).symm

/-- the finite-difference Jacobian is exact, at every state, for all non-zero perturbations -/
theorem fdJac_R2 (q e : Vec ℚ (3 * 2)) (he : ∀ j, e j ≠ 0) : fdJac R2 q e = M2 := by
  rw [R2_eq]
  exact fdJac_affine M2 0 q e he

/-- the operator is dissipative: `x · R x = -½ Σ_i (a_i² + b_i² + (a_i+b_i)²)` with the differences `a, b` of the two
components between neighbouring cells -/
theorem M2_dissipative (x : Vec ℚ (3 * 2)) : ∑ j, x j * M2.mulVec x j ≤ 0 := by
  have h : M2.mulVec x = R2 x := by rw [R2_eq]; exact (add_zero _).symm
  rw [h, sum_unknowns]
  simp only [Fin.sum_univ_three, Fin.sum_univ_two, R2_idx0, R2_idx1]
  have e0 : (0 : Fin 3) - 1 = 2 := rfl
  have e1 : (1 : Fin 3) - 1 = 0 := rfl
  have e2 : (2 : Fin 3) - 1 = 1 := rfl
  rw [e0, e1, e2]
  nlinarith [sq_nonneg (x (idx 0 0) - x (idx 2 0)), sq_nonneg (x (idx 1 0) - x (idx 0 0)),
    sq_nonneg (x (idx 2 0) - x (idx 1 0)), sq_nonneg (x (idx 0 1) - x (idx 2 1)),
    sq_nonneg (x (idx 1 1) - x (idx 0 1)), sq_nonneg (x (idx 2 1) - x (idx 1 1)),
    sq_nonneg (x (idx 0 0) - x (idx 2 0) + (x (idx 0 1) - x (idx 2 1))),
    sq_nonneg (x (idx 1 0) - x (idx 0 0) + (x (idx 1 1) - x (idx 0 1))),
    sq_nonneg (x (idx 2 0) - x (idx 1 0) + (x (idx 2 1) - x (idx 1 1)))]


/-- per-cell state-dependent time steps (both equations of the cell enter); `loc` is the directive `dtlocal`; the
monitor is the sum of all unknowns -/
def parS (loc : Bool) : DrvPar ℚ (Vec ℚ (3 * 2)) (Vec ℚ 3) :=
  { calcDt := fun _ q i => 1 / (1 + (q (idx i 0)) ^ 2 + (q (idx i 1)) ^ 2),
    minDt := fun d => min (d 0) (min (d 1) (d 2)),
    scalar := fun a _ => a, dtlocal := loc,
    tottime := some 2, maxit := some 20, tsave := [1/3, 2], itstart := 0,
    monitors := [(1, fun _ q => ∑ j, q j)] }

theorem parS_shift (loc : Bool) (k : Fin 3) : ShiftParSys k (parS loc) where
  calcDt := fun _ q => by
    funext i
    show 1 / (1 + (q (shiftPerm k (idx i 0))) ^ 2 + (q (shiftPerm k (idx i 1))) ^ 2)
      = 1 / (1 + (q (idx (i + k) 0)) ^ 2 + (q (idx (i + k) 1)) ^ 2)
    rw [shiftPerm_idx, shiftPerm_idx]
  minDt := (ExB.par3_shift loc k).minDt
  scalar := fun _ => rfl
  mon := fun mon hmon t q => by
    simp only [parS, List.mem_singleton] at hmon
    subst hmon
    exact Equiv.sum_comp (shiftPerm k) q

theorem parS_calc_pos (loc : Bool) (t : ℚ) (q : Vec ℚ (3 * 2)) (i : Fin 3) : 0 < (parS loc).calcDt t q i := by
  show 0 < 1 / (1 + (q (idx i 0)) ^ 2 + (q (idx i 1)) ^ 2)
  positivity

theorem parS_step_pos (loc : Bool) (t : ℚ) (q : Vec ℚ (3 * 2)) (i : Fin 3) : 0 < (parS loc).stepDt t q i := by
  unfold DrvPar.stepDt
  split_ifs
  · exact parS_calc_pos loc t q i
  · exact lt_min (parS_calc_pos loc t q 0) (lt_min (parS_calc_pos loc t q 1) (parS_calc_pos loc t q 2))

/-- the solver hypotheses hold at EVERY state, for all positive per-cell time steps and positive perturbations -/
theorem stateOK2 (θ ξ : ℚ) (hθ : 0 ≤ θ) (hξ : 0 ≤ ξ) (k : Fin 3) (q last e : Vec ℚ (3 * 2)) (d : Vec ℚ 3)
    (he : ∀ j, 0 < e j) (hd : ∀ i, 0 < d i) :
    StateOK invSolve θ ξ R2 R2 (shiftFlat k) e (shiftFlat k e) (repeatCells d) (shiftFlat k (repeatCells d))
      last q := by
  refine stateOK_invSolve θ ξ R2 R2 (shiftFlat k) _ _ _ _ last q ?_ ?_
  · rw [fdJac_R2 q e (fun j => (he j).ne')]
    exact det_ne_of_inj _ (sysMat_inj_of_dissipative θ ξ hθ hξ M2 M2_dissipative _ (fun j => hd (cellOf j)))
  · rw [fdJac_R2 (shiftFlat k q) (shiftFlat k e) (fun j => (he (shiftPerm k j)).ne')]
    exact det_ne_of_inj _ (sysMat_inj_of_dissipative θ ξ hθ hξ M2 M2_dissipative _
      (fun j => hd (cellOf (shiftPerm k j))))

theorem gearOK2 (k : Fin 3) (s : Option (Vec ℚ (3 * 2))) (q e : Vec ℚ (3 * 2)) (d : Vec ℚ 3)
    (he : ∀ j, 0 < e j) (hd : ∀ i, 0 < d i) :
    GearOK invSolve R2 R2 (shiftFlat k) e (shiftFlat k e) (repeatCells d) (shiftFlat k (repeatCells d)) s q := by
  cases s with
  | none => exact stateOK2 (1/2) 0 (by norm_num) le_rfl k q _ e d he hd
  | some l => exact stateOK2 1 (1/2) (by norm_num) (by norm_num) k q l e d he hd

/-- `solve_theta_shift_perSys` (hence `solve_theta_shift_sys`, `solve_theta_shift_flat`): Crank–Nicolson on the coupled
system in the model's pipeline, the perturbation rule of `calc_jacobian`, local or global time steps, any shift -/
example (loc : Bool) (k : Fin 3) (fuel : ℕ) (t0 : ℚ) (u0 : Sys ℚ 2 3) :
    (thetaCfg invSolve (1/2) (fun _ => perSysVec 3 0 Scheme.extrapol1 id Φ2) (epsRule (1/1000000)) repeatCells
        (parS loc)).run fuel () t0 (flat (shiftSys k u0))
      = (DrvState.map id id (shiftFlat k) (fun _ => id)
          ((thetaCfg invSolve (1/2) (fun _ => perSysVec 3 0 Scheme.extrapol1 id Φ2) (epsRule (1/1000000)) repeatCells
            (parS loc)).run fuel () t0 (flat u0)).1,
         ((thetaCfg invSolve (1/2) (fun _ => perSysVec 3 0 Scheme.extrapol1 id Φ2) (epsRule (1/1000000)) repeatCells
            (parS loc)).run fuel () t0 (flat u0)).2) :=
  solve_theta_shift_perSys invSolve (1/2) 3 0 (by norm_num) Scheme.extrapol1 id Φ2 (epsRule (1/1000000)) (parS loc) k
    (epsRule_shift _ k) (parS_shift loc k) fuel t0 u0
    (fun x _ => stateOK2 (1/2) 0 (by norm_num) le_rfl k x.2.2 _ _ _ (epsRule_pos _ (by norm_num) _)
      (parS_step_pos loc _ _))
    (fun x _ a ha _ => stateOK2 (1/2) 0 (by norm_num) le_rfl k x.2.2 _ _ _ (epsRule_pos _ (by norm_num) _)
      (fun _ => ha))

/-- `solve_gear_shift_perSys`, from any initial memory -/
example (loc : Bool) (k : Fin 3) (fuel : ℕ) (s0 : Option (Sys ℚ 2 3)) (t0 : ℚ) (u0 : Sys ℚ 2 3) :
    (gearCfg invSolve (fun _ => perSysVec 3 0 Scheme.extrapol1 id Φ2) (epsRule (1/1000000)) repeatCells
        (parS loc)).run fuel ((s0.map (shiftSys k)).map flat) t0 (flat (shiftSys k u0))
      = (DrvState.map (Option.map (shiftFlat k)) id (shiftFlat k) (fun _ => id)
          ((gearCfg invSolve (fun _ => perSysVec 3 0 Scheme.extrapol1 id Φ2) (epsRule (1/1000000)) repeatCells
            (parS loc)).run fuel (s0.map flat) t0 (flat u0)).1,
         ((gearCfg invSolve (fun _ => perSysVec 3 0 Scheme.extrapol1 id Φ2) (epsRule (1/1000000)) repeatCells
            (parS loc)).run fuel (s0.map flat) t0 (flat u0)).2) :=
  solve_gear_shift_perSys invSolve 3 0 (by norm_num) Scheme.extrapol1 id Φ2 (epsRule (1/1000000)) (parS loc) k
    (epsRule_shift _ k) (parS_shift loc k) fuel s0 t0 u0
    (fun x _ => gearOK2 k x.1 x.2.2 _ _ (epsRule_pos _ (by norm_num) _) (parS_step_pos loc _ _))
    (fun x _ a ha _ => gearOK2 k x.1 x.2.2 _ _ (epsRule_pos _ (by norm_num) _) (fun _ => ha))

end Ex

end Flowdyn.C14d
