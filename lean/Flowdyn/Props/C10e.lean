/-
C10e — HLLC and positivity (PARTIAL): what is true about the star states and the first-order update of `eHllc`.

(0) `contact`: the contact speed of `eHllc` / `C02.hllcCore` (`hllcSM_eq_contact`: it is `C13f.hllcSM`); `starK`: the HLLC
    star state behind an outer wave.
(1) sign of the star densities: `starK_rho_pos_iff` (`ρ* > 0 ⇔ (s-u)(s-sM) > 0`), `starL_rho_pos_iff` (`⇔ sL < sM`),
    `starR_rho_pos_iff` (`⇔ sM < sR`); the exact pressure-jump conditions `sL_lt_contact_iff`, `contact_lt_sR_iff`;
    `contact_eq_hll_velocity`: `sM` is the velocity of the HLL state `C10.star`.
(2) star admissibility: `pStar_eq`, `starK_energy`, `starK_adm_iff` (exact condition), `star_energy_pos` (Batten's
    condition `(γ-1) p < 2 r (s-u)²` makes the star internal energy positive for EVERY contact speed), `starK_adm`,
    `starK_not_adm`, `batten_of_einfeldt`, `eHllc_star_adm`.
(3) `hllcCore_left_form`, `hllcCore_right_form`: all four branches of the code's HLLC flux in wave form (three waves,
    speeds clipped at 0) when `sL < sM < sR`; `hllc_update_convex`: the first-order update is a combination of seven states
    with weights of sum one, nonnegative under the face condition; `adm_comb7`; `hllc_step_adm`: one forward-Euler step
    of one cell with `eHllc` keeps `ρ > 0`, `p > 0` under (a) `hllcSL < hllcSM < hllcSR` at its two faces and (b) the face
    condition `ν (max sR⁻ 0 - min sL⁺ 0) ≤ 1`.
NOT here: a proof or refutation of positivity when `sM` leaves `[sL, sR]` (possible for `γ ≤ 1.1`; a numerical search on
the real code found no positivity failure there); that (a) holds for `γ ≥ 1.2`; the lift of `hllc_step_adm` to the
pipeline (`Disc1D.rhs`), to wall boundaries and through the SSP integrators (C10b's `ssp_*_inv` apply verbatim once the
forward-Euler statement is lifted); a cell-CFL sufficient condition for (b).
-/
import Flowdyn.Props.C10b
import Flowdyn.Props.C13f
import Mathlib.Tactic.Ring
import Mathlib.Tactic.Linarith
import Mathlib.Tactic.FieldSimp
import Mathlib.Tactic.Positivity
import Mathlib.Tactic.NormNum
import Mathlib.Tactic.Module
import Mathlib.Tactic.LinearCombination

namespace Flowdyn.C10e
open Flowdyn Flowdyn.C10

set_option linter.unusedSimpArgs false
set_option linter.unnecessarySeqFocus false

/-! ## (0) the contact speed and the star states of the code's HLLC flux -/

/-- the contact speed computed by `eHllc` / `C02.hllcCore` from the two states and the outer speeds -/
noncomputable def contact (rL uL pL rR uR pR sL sR : ℝ) : ℝ :=
  (pL - pR - rL * uL * (sL - uL) + rR * uR * (sR - uR)) / (rR * (sR - uR) - rL * (sL - uL))

/-- `C13f.hllcSM` is `contact` at the code's outer speeds -/
theorem hllcSM_eq_contact (γ rL uL pL rR uR pR : ℝ) :
    C13f.hllcSM γ rL uL pL rR uR pR
      = contact rL uL pL rR uR pR (C13f.hllcSL γ rL uL pL rR uR pR) (C13f.hllcSR γ rL uL pL rR uR pR) := rfl

/-- HLLC star state `(ρ*, ρ* sM, E*)` behind the outer wave of speed `s`, next to the state `(r, u, p)` of specific
total energy `e` (the code's `eK = HK - pK/rK`):  `ρ* = r (s-u)/(s-sM)`, `E* = ρ* (e + (sM-u)(sM + p/(r (s-u))))` -/
noncomputable def starK (r u p e s sM : ℝ) : ℝ × ℝ × ℝ :=
  (r * ((s - u) / (s - sM)),
   r * ((s - u) / (s - sM)) * sM,
   r * ((s - u) / (s - sM)) * (e + (sM - u) * (sM + p / (r * (s - u)))))

/-- conservative state from `(r, u)` and specific total energy `e` -/
def consE (r u e : ℝ) : ℝ × ℝ × ℝ := (r, r * u, r * e)
/-- physical flux from `(r, u, p)` and total enthalpy `H` (as the upwind branches of `eHllc` write it) -/
def fluxH (r u p H : ℝ) : ℝ × ℝ × ℝ := (r * u, r * u ^ 2 + p, r * H * u)

/-! ## (1) sign of the star densities -/

/-- **exact sign condition**: the star density is positive iff `s - u` and `s - sM` have the same sign -/
theorem starK_rho_pos_iff (r u p e s sM : ℝ) (hr : 0 < r) (hne : s ≠ sM) :
    0 < (starK r u p e s sM).1 ↔ 0 < (s - u) * (s - sM) := by
  have h : s - sM ≠ 0 := sub_ne_zero.mpr hne
  have hsq : 0 < (s - sM) ^ 2 := by positivity
  have e : (starK r u p e s sM).1 = r / (s - sM) ^ 2 * ((s - u) * (s - sM)) := by
    unfold starK; field_simp
  rw [e]
  exact mul_pos_iff_of_pos_left (div_pos hr hsq)

/-- left star density (`sL < uL`): positive iff `sL < sM` -/
theorem starL_rho_pos_iff (r u p e sL sM : ℝ) (hr : 0 < r) (hs : sL < u) (hne : sL ≠ sM) :
    0 < (starK r u p e sL sM).1 ↔ sL < sM := by
  rw [starK_rho_pos_iff r u p e sL sM hr hne]
  constructor
  · intro h
    by_contra hc
    have : 0 ≤ sL - sM := by linarith
    nlinarith
  · intro h; nlinarith

/-- right star density (`uR < sR`): positive iff `sM < sR` -/
theorem starR_rho_pos_iff (r u p e sR sM : ℝ) (hr : 0 < r) (hs : u < sR) (hne : sR ≠ sM) :
    0 < (starK r u p e sR sM).1 ↔ sM < sR := by
  rw [starK_rho_pos_iff r u p e sR sM hr hne]
  constructor
  · intro h
    by_contra hc
    have : sR - sM ≤ 0 := by linarith
    nlinarith
  · intro h; nlinarith

/-- the contact speed lies to the right of `sL` iff the pressure jump is below an explicit bound -/
theorem sL_lt_contact_iff (rL uL pL rR uR pR sL sR : ℝ) (hrL : 0 < rL) (hrR : 0 < rR) (hL : sL < uL) (hR : uR < sR) :
    sL < contact rL uL pL rR uR pR sL sR ↔ pR - pL < rL * (uL - sL) ^ 2 + rR * (sR - uR) * (uR - sL) := by
  have hD : 0 < rR * (sR - uR) - rL * (sL - uL) := by nlinarith [mul_pos hrR (sub_pos.mpr hR), mul_pos hrL (sub_pos.mpr hL)]
  unfold contact
  rw [lt_div_iff₀ hD]
  constructor <;> intro h <;> nlinarith

/-- the contact speed lies to the left of `sR` iff the pressure jump is below an explicit bound -/
theorem contact_lt_sR_iff (rL uL pL rR uR pR sL sR : ℝ) (hrL : 0 < rL) (hrR : 0 < rR) (hL : sL < uL) (hR : uR < sR) :
    contact rL uL pL rR uR pR sL sR < sR ↔ pL - pR < rR * (sR - uR) ^ 2 + rL * (uL - sL) * (sR - uL) := by
  have hD : 0 < rR * (sR - uR) - rL * (sL - uL) := by nlinarith [mul_pos hrR (sub_pos.mpr hR), mul_pos hrL (sub_pos.mpr hL)]
  unfold contact
  rw [div_lt_iff₀ hD]
  constructor <;> intro h <;> nlinarith

/-- the contact speed is the velocity `m*/ρ*` of the HLL intermediate state `C10.star` -/
theorem contact_eq_hll_velocity (γ rL uL pL rR uR pR sL sR : ℝ) (hrL : 0 < rL) (hrR : 0 < rR) (hL : sL < uL)
    (hR : uR < sR) (hLR : sL < sR) :
    contact rL uL pL rR uR pR sL sR
      = (C10.star γ sL sR rL uL pL rR uR pR).2.1 / (C10.star γ sL sR rL uL pL rR uR pR).1 := by
  have hD : 0 < rR * (sR - uR) - rL * (sL - uL) := by nlinarith [mul_pos hrR (sub_pos.mpr hR), mul_pos hrL (sub_pos.mpr hL)]
  have hs : sR - sL ≠ 0 := by have : 0 < sR - sL := by linarith
                              exact this.ne'
  unfold contact C10.star consOf fluxOf ePrim2cons ePhys
  dsimp only
  rw [div_div_div_cancel_right₀ hs]
  congr 1 <;> ring

/-! ## (2) admissibility of the star states -/

/-- the two expressions of the star pressure agree (momentum jump conditions across the two outer waves): the code's
`pStar = rR (uR - sR)(uR - sM) + pR` equals `rL (uL - sL)(uL - sM) + pL` -/
theorem pStar_eq (rL uL pL rR uR pR sL sR : ℝ) (hD : rR * (sR - uR) - rL * (sL - uL) ≠ 0) :
    rR * (uR - sR) * (uR - contact rL uL pL rR uR pR sL sR) + pR
      = rL * (uL - sL) * (uL - contact rL uL pL rR uR pR sL sR) + pL := by
  have h : contact rL uL pL rR uR pR sL sR * (rR * (sR - uR) - rL * (sL - uL))
      = pL - pR - rL * uL * (sL - uL) + rR * uR * (sR - uR) := div_mul_cancel₀ _ hD
  linear_combination h

/-- `2 ρ* E* - m*² = 2 ρ*² (ε + x²/2 + x p/(r (s-u)))` with `x = sM - u` and `ε = e - u²/2` the specific internal energy -/
theorem starK_energy (r u p e s sM : ℝ) :
    2 * (starK r u p e s sM).1 * (starK r u p e s sM).2.2 - (starK r u p e s sM).2.1 ^ 2
      = 2 * (starK r u p e s sM).1 ^ 2
          * (e - 1/2 * u ^ 2 + 1/2 * (sM - u) ^ 2 + (sM - u) * (p / (r * (s - u)))) := by
  unfold starK; ring

/-- **exact admissibility condition of a star state**: positive density (sign condition of (1)) and positive star
internal energy `ε + (sM-u)²/2 + (sM-u) p/(r (s-u))` -/
theorem starK_adm_iff (r u p e s sM : ℝ) (hr : 0 < r) (hne : s ≠ sM) :
    Adm (starK r u p e s sM) ↔
      0 < (s - u) * (s - sM)
      ∧ 0 < e - 1/2 * u ^ 2 + 1/2 * (sM - u) ^ 2 + (sM - u) * (p / (r * (s - u))) := by
  unfold Adm
  rw [starK_energy, starK_rho_pos_iff r u p e s sM hr hne]
  constructor
  · rintro ⟨h1, h2⟩
    have hρ : 0 < (starK r u p e s sM).1 := (starK_rho_pos_iff r u p e s sM hr hne).mpr h1
    exact ⟨h1, (mul_pos_iff_of_pos_left (by positivity)).mp h2⟩
  · rintro ⟨h1, h2⟩
    have hρ : 0 < (starK r u p e s sM).1 := (starK_rho_pos_iff r u p e s sM hr hne).mpr h1
    exact ⟨h1, mul_pos (by positivity) h2⟩

/-- the star internal energy is positive for EVERY contact speed under Batten's condition
`(s - u)² > (γ-1)/(2γ) c²`, i.e. `(γ - 1) p < 2 r (s - u)²` -/
theorem star_energy_pos (γ r u p s sM : ℝ) (hγ : 1 < γ) (hr : 0 < r) (hp : 0 < p) (hsu : s ≠ u)
    (hB : (γ - 1) * p < 2 * r * (s - u) ^ 2) :
    0 < (p / ((γ - 1) * r) + 1/2 * u ^ 2) - 1/2 * u ^ 2 + 1/2 * (sM - u) ^ 2 + (sM - u) * (p / (r * (s - u))) := by
  have hg1 : 0 < γ - 1 := by linarith
  have h0 : s - u ≠ 0 := sub_ne_zero.mpr hsu
  have hsq : 0 < (s - u) ^ 2 := by positivity
  have key : (p / ((γ - 1) * r) + 1/2 * u ^ 2) - 1/2 * u ^ 2 + 1/2 * (sM - u) ^ 2 + (sM - u) * (p / (r * (s - u)))
      = 1/2 * ((sM - u) + p / (r * (s - u))) ^ 2
        + p * (2 * r * (s - u) ^ 2 - (γ - 1) * p) / (2 * (γ - 1) * r ^ 2 * (s - u) ^ 2) := by
    field_simp; ring
  rw [key]
  have h2 : 0 < p * (2 * r * (s - u) ^ 2 - (γ - 1) * p) / (2 * (γ - 1) * r ^ 2 * (s - u) ^ 2) := by
    apply div_pos
    · exact mul_pos hp (by linarith)
    · positivity
  nlinarith [sq_nonneg ((sM - u) + p / (r * (s - u)))]

/-- **star states are admissible under Batten's condition and the sign condition** (the state is an ideal gas:
`e = p/((γ-1) r) + u²/2`) -/
theorem starK_adm (γ r u p s sM : ℝ) (hγ : 1 < γ) (hr : 0 < r) (hp : 0 < p) (hsu : s ≠ u)
    (hsign : 0 < (s - u) * (s - sM)) (hB : (γ - 1) * p < 2 * r * (s - u) ^ 2) :
    Adm (starK r u p (p / ((γ - 1) * r) + 1/2 * u ^ 2) s sM) := by
  have hne : s ≠ sM := by
    rintro rfl
    simp at hsign
  exact (starK_adm_iff r u p _ s sM hr hne).mpr ⟨hsign, star_energy_pos γ r u p s sM hγ hr hp hsu hB⟩

/-- a star state whose sign condition fails is NOT admissible (negative density) -/
theorem starK_not_adm (r u p e s sM : ℝ) (hr : 0 < r) (hne : s ≠ sM) (hsign : (s - u) * (s - sM) ≤ 0) :
    ¬ Adm (starK r u p e s sM) := by
  intro h
  have := ((starK_adm_iff r u p e s sM hr hne).mp h).1
  linarith

/-- Einfeldt's one-sided bound `|s - u| ≥ c` implies Batten's condition -/
theorem batten_of_einfeldt (γ r u p s : ℝ) (hγ : 1 < γ) (hr : 0 < r) (hp : 0 < p)
    (hs : Real.sqrt (γ * p / r) ≤ |s - u|) : s ≠ u ∧ (γ - 1) * p < 2 * r * (s - u) ^ 2 := by
  have hc2 : 0 < γ * p / r := by positivity
  have hc : 0 < Real.sqrt (γ * p / r) := Real.sqrt_pos.mpr hc2
  have habs : 0 < |s - u| := lt_of_lt_of_le hc hs
  have hsq : γ * p / r ≤ (s - u) ^ 2 := by
    have := mul_self_le_mul_self hc.le hs
    rw [Real.mul_self_sqrt hc2.le, abs_mul_abs_self] at this
    linarith [this, sq (s - u)]
  have h2 : γ * p ≤ r * (s - u) ^ 2 := by
    rw [div_le_iff₀ hr] at hsq; linarith
  refine ⟨fun h => by rw [h, sub_self, abs_zero] at habs; exact lt_irrefl _ habs, ?_⟩
  have hgp : 0 < γ * p := by positivity
  linarith

/-! ## (3) the HLLC flux in wave form, and the first-order update as a convex combination -/

theorem contact_def (rL uL pL rR uR pR sL sR : ℝ) :
    (pL - pR - rL * uL * (sL - uL) + rR * uR * (sR - uR)) / (rR * (sR - uR) - rL * (sL - uL))
      = contact rL uL pL rR uR pR sL sR := rfl

set_option maxHeartbeats 400000 in
/-- **wave form seen from the left state**: when the three speeds are ordered, the code's HLLC flux is
`F(L) + sL⁻ (U*L - UL) + sM⁻ (U*R - U*L) + sR⁻ (UR - U*R)` with `x⁻ = min x 0` (all four branches of the code) -/
theorem hllcCore_left_form (rL uL pL HL eL rR uR pR HR eR sL sR : ℝ)
    (hrL : 0 < rL) (hrR : 0 < rR) (hHL : HL = eL + pL / rL) (hHR : HR = eR + pR / rR)
    (hL : sL < uL) (hR : uR < sR)
    (h1 : sL < contact rL uL pL rR uR pR sL sR) (h2 : contact rL uL pL rR uR pR sL sR < sR) :
    C02.hllcCore rL uL pL HL eL rR uR pR HR eR sL sR
      = fluxH rL uL pL HL
        + min sL 0 • (starK rL uL pL eL sL (contact rL uL pL rR uR pR sL sR) - consE rL uL eL)
        + min (contact rL uL pL rR uR pR sL sR) 0
            • (starK rR uR pR eR sR (contact rL uL pL rR uR pR sL sR)
                - starK rL uL pL eL sL (contact rL uL pL rR uR pR sL sR))
        + min sR 0 • (consE rR uR eR - starK rR uR pR eR sR (contact rL uL pL rR uR pR sL sR)) := by
  have hD : 0 < rR * (sR - uR) - rL * (sL - uL) := by
    nlinarith [mul_pos hrR (sub_pos.mpr hR), mul_pos hrL (sub_pos.mpr hL)]
  have hsMD : contact rL uL pL rR uR pR sL sR * (rR * (sR - uR) - rL * (sL - uL))
      = pL - pR - rL * uL * (sL - uL) + rR * uR * (sR - uR) := div_mul_cancel₀ _ hD.ne'
  simp only [C02.hllcCore]
  unfold contact at h1 h2 hsMD ⊢
  subst hHL hHR
  have n3 : sL - uL ≠ 0 := by have : sL - uL < 0 := by linarith
                              exact this.ne
  have n4 : sR - uR ≠ 0 := by have : 0 < sR - uR := by linarith
                              exact this.ne'
  have n5 : rL ≠ 0 := hrL.ne'
  have n6 : rR ≠ 0 := hrR.ne'
  have fin : ∀ sM : ℝ, sL < sM → sM < sR →
      sM * (rR * (sR - uR) - rL * (sL - uL)) = pL - pR - rL * uL * (sL - uL) + rR * uR * (sR - uR) →
      sL - sM ≠ 0 ∧ sR - sM ≠ 0
      ∧ pR = pL - rL * uL * (sL - uL) + rR * uR * (sR - uR) - sM * (rR * (sR - uR) - rL * (sL - uL)) := by
    intro sM k1 k2 k3
    refine ⟨?_, ?_, by linarith⟩
    · have : sL - sM < 0 := by linarith
      exact this.ne
    · have : 0 < sR - sM := by linarith
      exact this.ne'
  by_cases hm : 0 ≤ ((pL - pR - rL * uL * (sL - uL) + rR * uR * (sR - uR)) / (rR * (sR - uR) - rL * (sL - uL)))
  · have hb : 0 ≤ sR := by linarith
    by_cases ha : 0 ≤ sL
    · simp only [if_pos hm, if_pos ha, min_eq_right ha, min_eq_right hm, min_eq_right hb, zero_smul, add_zero]
      refine Prod.ext ?_ (Prod.ext ?_ ?_) <;> simp only [fluxH] <;> ring
    · have ha' : sL ≤ 0 := by linarith
      simp only [if_pos hm, if_neg ha, min_eq_left ha', min_eq_right hm, min_eq_right hb, zero_smul, add_zero]
      generalize ((pL - pR - rL * uL * (sL - uL) + rR * uR * (sR - uR)) / (rR * (sR - uR) - rL * (sL - uL))) = sM at h1 h2 hsMD ⊢
      obtain ⟨n1, n2, rfl⟩ := fin sM h1 h2 hsMD
      refine Prod.ext ?_ (Prod.ext ?_ ?_) <;>
        simp only [starK, consE, fluxH, Prod.fst_add, Prod.snd_add, Prod.smul_fst, Prod.smul_snd, Prod.fst_sub,
          Prod.snd_sub, smul_eq_mul] <;> field_simp <;> ring
  · have hm' : ((pL - pR - rL * uL * (sL - uL) + rR * uR * (sR - uR)) / (rR * (sR - uR) - rL * (sL - uL))) ≤ 0 := by linarith
    have ha' : sL ≤ 0 := by linarith
    by_cases hb : sR ≤ 0
    · simp only [if_neg hm, if_pos hb, min_eq_left ha', min_eq_left hm', min_eq_left hb]
      generalize ((pL - pR - rL * uL * (sL - uL) + rR * uR * (sR - uR)) / (rR * (sR - uR) - rL * (sL - uL))) = sM at h1 h2 hsMD ⊢
      obtain ⟨n1, n2, rfl⟩ := fin sM h1 h2 hsMD
      refine Prod.ext ?_ (Prod.ext ?_ ?_) <;>
        simp only [starK, consE, fluxH, Prod.fst_add, Prod.snd_add, Prod.smul_fst, Prod.smul_snd, Prod.fst_sub,
          Prod.snd_sub, smul_eq_mul] <;> field_simp <;> ring
    · have hb' : 0 ≤ sR := by linarith
      simp only [if_neg hm, if_neg hb, min_eq_left ha', min_eq_left hm', min_eq_right hb', zero_smul, add_zero]
      generalize ((pL - pR - rL * uL * (sL - uL) + rR * uR * (sR - uR)) / (rR * (sR - uR) - rL * (sL - uL))) = sM at h1 h2 hsMD ⊢
      obtain ⟨n1, n2, rfl⟩ := fin sM h1 h2 hsMD
      refine Prod.ext ?_ (Prod.ext ?_ ?_) <;>
        simp only [starK, consE, fluxH, Prod.fst_add, Prod.snd_add, Prod.smul_fst, Prod.smul_snd, Prod.fst_sub,
          Prod.snd_sub, smul_eq_mul] <;> field_simp <;> ring

set_option maxHeartbeats 400000 in
/-- **wave form seen from the right state**: `F(R) - sR⁺ (UR - U*R) - sM⁺ (U*R - U*L) - sL⁺ (U*L - UL)`, `x⁺ = max x 0` -/
theorem hllcCore_right_form (rL uL pL HL eL rR uR pR HR eR sL sR : ℝ)
    (hrL : 0 < rL) (hrR : 0 < rR) (hHL : HL = eL + pL / rL) (hHR : HR = eR + pR / rR)
    (hL : sL < uL) (hR : uR < sR)
    (h1 : sL < contact rL uL pL rR uR pR sL sR) (h2 : contact rL uL pL rR uR pR sL sR < sR) :
    C02.hllcCore rL uL pL HL eL rR uR pR HR eR sL sR
      = fluxH rR uR pR HR
        - max sR 0 • (consE rR uR eR - starK rR uR pR eR sR (contact rL uL pL rR uR pR sL sR))
        - max (contact rL uL pL rR uR pR sL sR) 0
            • (starK rR uR pR eR sR (contact rL uL pL rR uR pR sL sR)
                - starK rL uL pL eL sL (contact rL uL pL rR uR pR sL sR))
        - max sL 0 • (starK rL uL pL eL sL (contact rL uL pL rR uR pR sL sR) - consE rL uL eL) := by
  have hD : 0 < rR * (sR - uR) - rL * (sL - uL) := by
    nlinarith [mul_pos hrR (sub_pos.mpr hR), mul_pos hrL (sub_pos.mpr hL)]
  have hsMD : contact rL uL pL rR uR pR sL sR * (rR * (sR - uR) - rL * (sL - uL))
      = pL - pR - rL * uL * (sL - uL) + rR * uR * (sR - uR) := div_mul_cancel₀ _ hD.ne'
  simp only [C02.hllcCore]
  unfold contact at h1 h2 hsMD ⊢
  subst hHL hHR
  have n3 : sL - uL ≠ 0 := by have : sL - uL < 0 := by linarith
                              exact this.ne
  have n4 : sR - uR ≠ 0 := by have : 0 < sR - uR := by linarith
                              exact this.ne'
  have n5 : rL ≠ 0 := hrL.ne'
  have n6 : rR ≠ 0 := hrR.ne'
  have fin : ∀ sM : ℝ, sL < sM → sM < sR →
      sM * (rR * (sR - uR) - rL * (sL - uL)) = pL - pR - rL * uL * (sL - uL) + rR * uR * (sR - uR) →
      sL - sM ≠ 0 ∧ sR - sM ≠ 0
      ∧ pR = pL - rL * uL * (sL - uL) + rR * uR * (sR - uR) - sM * (rR * (sR - uR) - rL * (sL - uL)) := by
    intro sM k1 k2 k3
    refine ⟨?_, ?_, by linarith⟩
    · have : sL - sM < 0 := by linarith
      exact this.ne
    · have : 0 < sR - sM := by linarith
      exact this.ne'
  by_cases hm : 0 ≤ ((pL - pR - rL * uL * (sL - uL) + rR * uR * (sR - uR)) / (rR * (sR - uR) - rL * (sL - uL)))
  · have hb : 0 ≤ sR := by linarith
    by_cases ha : 0 ≤ sL
    · simp only [if_pos hm, if_pos ha, max_eq_left ha, max_eq_left hm, max_eq_left hb]
      generalize ((pL - pR - rL * uL * (sL - uL) + rR * uR * (sR - uR)) / (rR * (sR - uR) - rL * (sL - uL))) = sM at h1 h2 hsMD ⊢
      obtain ⟨n1, n2, rfl⟩ := fin sM h1 h2 hsMD
      refine Prod.ext ?_ (Prod.ext ?_ ?_) <;>
        simp only [starK, consE, fluxH, Prod.fst_add, Prod.snd_add, Prod.smul_fst, Prod.smul_snd, Prod.fst_sub,
          Prod.snd_sub, smul_eq_mul] <;> field_simp <;> ring
    · have ha' : sL ≤ 0 := by linarith
      simp only [if_pos hm, if_neg ha, max_eq_right ha', max_eq_left hm, max_eq_left hb, zero_smul, sub_zero]
      generalize ((pL - pR - rL * uL * (sL - uL) + rR * uR * (sR - uR)) / (rR * (sR - uR) - rL * (sL - uL))) = sM at h1 h2 hsMD ⊢
      obtain ⟨n1, n2, rfl⟩ := fin sM h1 h2 hsMD
      refine Prod.ext ?_ (Prod.ext ?_ ?_) <;>
        simp only [starK, consE, fluxH, Prod.fst_add, Prod.snd_add, Prod.smul_fst, Prod.smul_snd, Prod.fst_sub,
          Prod.snd_sub, smul_eq_mul] <;> field_simp <;> ring
  · have hm' : ((pL - pR - rL * uL * (sL - uL) + rR * uR * (sR - uR)) / (rR * (sR - uR) - rL * (sL - uL))) ≤ 0 := by linarith
    have ha' : sL ≤ 0 := by linarith
    by_cases hb : sR ≤ 0
    · simp only [if_neg hm, if_pos hb, max_eq_right ha', max_eq_right hm', max_eq_right hb, zero_smul, sub_zero]
      refine Prod.ext ?_ (Prod.ext ?_ ?_) <;> simp only [fluxH] <;> ring
    · have hb' : 0 ≤ sR := by linarith
      simp only [if_neg hm, if_neg hb, max_eq_right ha', max_eq_right hm', max_eq_left hb', zero_smul, sub_zero]
      generalize ((pL - pR - rL * uL * (sL - uL) + rR * uR * (sR - uR)) / (rR * (sR - uR) - rL * (sL - uL))) = sM at h1 h2 hsMD ⊢
      obtain ⟨n1, n2, rfl⟩ := fin sM h1 h2 hsMD
      refine Prod.ext ?_ (Prod.ext ?_ ?_) <;>
        simp only [starK, consE, fluxH, Prod.fst_add, Prod.snd_add, Prod.smul_fst, Prod.smul_snd, Prod.fst_sub,
          Prod.snd_sub, smul_eq_mul] <;> field_simp <;> ring

/-- **the first-order update with two wave-form HLLC fluxes is a combination of seven states** (cell state, the two
neighbours, the four star states); the weights sum to one and are nonnegative when the speeds are ordered at both faces
and `ν (sR⁻⁺ - sL⁺⁻) ≤ 1` (right speed of the left face, left speed of the right face, clipped at 0) -/
theorem hllc_update_convex {V : Type*} [AddCommGroup V] [Module ℝ V] (ν a m b c m' d : ℝ)
    (fu U Ul Ur SLp SRp SLm SRm : V) :
    U - ν • ((fu + min a 0 • (SLp - U) + min m 0 • (SRp - SLp) + min b 0 • (Ur - SRp))
            - (fu - max d 0 • (U - SRm) - max m' 0 • (SRm - SLm) - max c 0 • (SLm - Ul)))
      = (1 - ν * (max d 0 - min a 0)) • U + (ν * (min m 0 - min a 0)) • SLp + (ν * (min b 0 - min m 0)) • SRp
        + (ν * (-min b 0)) • Ur + (ν * (max d 0 - max m' 0)) • SRm + (ν * (max m' 0 - max c 0)) • SLm
        + (ν * max c 0) • Ul
    ∧ (1 - ν * (max d 0 - min a 0)) + ν * (min m 0 - min a 0) + ν * (min b 0 - min m 0) + ν * (-min b 0)
        + ν * (max d 0 - max m' 0) + ν * (max m' 0 - max c 0) + ν * max c 0 = 1
    ∧ (0 ≤ ν → a ≤ m → m ≤ b → c ≤ m' → m' ≤ d → ν * (max d 0 - min a 0) ≤ 1 →
        0 ≤ 1 - ν * (max d 0 - min a 0) ∧ 0 ≤ ν * (min m 0 - min a 0) ∧ 0 ≤ ν * (min b 0 - min m 0)
        ∧ 0 ≤ ν * (-min b 0) ∧ 0 ≤ ν * (max d 0 - max m' 0) ∧ 0 ≤ ν * (max m' 0 - max c 0) ∧ 0 ≤ ν * max c 0) := by
  refine ⟨by module, by ring, ?_⟩
  intro hν h1 h2 h3 h4 hcfl
  have k1 : min a 0 ≤ min m 0 := min_le_min h1 le_rfl
  have k2 : min m 0 ≤ min b 0 := min_le_min h2 le_rfl
  have k3 : min b 0 ≤ 0 := min_le_right _ _
  have k4 : max m' 0 ≤ max d 0 := max_le_max h4 le_rfl
  have k5 : max c 0 ≤ max m' 0 := max_le_max h3 le_rfl
  have k6 : 0 ≤ max c 0 := le_max_right _ _
  exact ⟨by linarith, mul_nonneg hν (by linarith), mul_nonneg hν (by linarith), mul_nonneg hν (by linarith),
    mul_nonneg hν (by linarith), mul_nonneg hν (by linarith), mul_nonneg hν k6⟩

/-- accumulate a nonnegative multiple of an admissible state -/
theorem adm_acc (w : ℝ × ℝ × ℝ) (tot k : ℝ) (v : ℝ × ℝ × ℝ) (h : (tot = 0 ∧ w = 0) ∨ (0 < tot ∧ Adm w)) (hk : 0 ≤ k)
    (hv : Adm v) : (tot + k = 0 ∧ w + k • v = 0) ∨ (0 < tot + k ∧ Adm (w + k • v)) := by
  rcases h with ⟨h0, hw⟩ | ⟨hpos, hw⟩
  · rcases hk.eq_or_lt with hk0 | hkpos
    · left; subst h0 hw; rw [← hk0]; simp
    · right; subst h0 hw; rw [zero_add, zero_add]; exact ⟨hkpos, adm_smul' k v hkpos hv⟩
  · right
    rcases hk.eq_or_lt with hk0 | hkpos
    · rw [← hk0, zero_smul, add_zero, add_zero]; exact ⟨hpos, hw⟩
    · exact ⟨by linarith, adm_add' _ _ hw (adm_smul' k v hkpos hv)⟩

/-- a combination of seven admissible states with nonnegative weights of sum one is admissible -/
theorem adm_comb7 (w0 w1 w2 w3 w4 w5 w6 : ℝ) (x0 x1 x2 x3 x4 x5 x6 : ℝ × ℝ × ℝ)
    (h0 : 0 ≤ w0) (h1 : 0 ≤ w1) (h2 : 0 ≤ w2) (h3 : 0 ≤ w3) (h4 : 0 ≤ w4) (h5 : 0 ≤ w5) (h6 : 0 ≤ w6)
    (hs : w0 + w1 + w2 + w3 + w4 + w5 + w6 = 1)
    (a0 : Adm x0) (a1 : Adm x1) (a2 : Adm x2) (a3 : Adm x3) (a4 : Adm x4) (a5 : Adm x5) (a6 : Adm x6) :
    Adm (w0 • x0 + w1 • x1 + w2 • x2 + w3 • x3 + w4 • x4 + w5 • x5 + w6 • x6) := by
  have s0 := adm_acc 0 0 w0 x0 (Or.inl ⟨rfl, rfl⟩) h0 a0
  have s1 := adm_acc _ _ w1 x1 s0 h1 a1
  have s2 := adm_acc _ _ w2 x2 s1 h2 a2
  have s3 := adm_acc _ _ w3 x3 s2 h3 a3
  have s4 := adm_acc _ _ w4 x4 s3 h4 a4
  have s5 := adm_acc _ _ w5 x5 s4 h5 a5
  have s6 := adm_acc _ _ w6 x6 s5 h6 a6
  rw [zero_add, zero_add] at s6
  rcases s6 with ⟨h, -⟩ | ⟨-, h⟩
  · rw [hs] at h; exact absurd h one_ne_zero
  · exact h

/-- the code's specific total energy `eK = HK - pK/rK` is the ideal-gas one -/
theorem eK_eq (γ r u p : ℝ) (hγ : 1 < γ) (hr : 0 < r) :
    γ * p / r / (γ - 1) + 1/2 * u ^ 2 - p / r = p / ((γ - 1) * r) + 1/2 * u ^ 2 := by
  have : γ - 1 ≠ 0 := by have : 0 < γ - 1 := by linarith
                         exact this.ne'
  field_simp; ring

theorem consE_eq_consOf (γ r u p : ℝ) (hγ : 1 < γ) (hr : 0 < r) :
    consE r u (γ * p / r / (γ - 1) + 1/2 * u ^ 2 - p / r) = consOf γ r u p := by
  have : γ - 1 ≠ 0 := by have : 0 < γ - 1 := by linarith
                         exact this.ne'
  unfold consE consOf ePrim2cons
  refine Prod.ext rfl (Prod.ext rfl ?_)
  simp only
  field_simp; ring

/-- the star state of the code's HLLC flux next to an admissible state is admissible as soon as the contact speed is on
the inner side of the outer wave (Einfeldt's bound, which the code's speeds satisfy, gives Batten's condition) -/
theorem eHllc_star_adm (γ r u p s sM : ℝ) (hγ : 1 < γ) (hr : 0 < r) (hp : 0 < p)
    (hs : Real.sqrt (γ * p / r) ≤ |s - u|) (hsign : 0 < (s - u) * (s - sM)) :
    Adm (starK r u p (γ * p / r / (γ - 1) + 1/2 * u ^ 2 - p / r) s sM) := by
  rw [eK_eq γ r u p hγ hr]
  obtain ⟨h1, h2⟩ := batten_of_einfeldt γ r u p s hγ hr hp hs
  exact starK_adm γ r u p s sM hγ hr hp h1 hsign h2

/-- **Euler / HLLC, one forward-Euler step of one cell.**  Cells `i-1, i, i+1` carry admissible primitive states.  If at
the two faces of cell `i` the code's contact speed lies strictly between its outer speeds (`hllcSL < hllcSM < hllcSR`;
NOT automatic for `γ ≤ 1.1`, see `sL_lt_contact_iff`) and `ν = dt/h ≥ 0` satisfies the face condition
`ν (max sR(face i) 0 - min sL(face i+1) 0) ≤ 1`, the updated conservative state of cell `i` is admissible
(`ρ > 0`, `p > 0`): it is a convex combination of the cell state, the two neighbours and the four HLLC star states. -/
theorem hllc_step_adm (γ ν rl ul pl r u p rr ur pr : ℝ) (hγ : 1 < γ) (hν : 0 ≤ ν)
    (hrl : 0 < rl) (hpl : 0 < pl) (hr : 0 < r) (hp : 0 < p) (hrr : 0 < rr) (hpr : 0 < pr)
    (o1 : C13f.hllcSL γ r u p rr ur pr < C13f.hllcSM γ r u p rr ur pr)
    (o2 : C13f.hllcSM γ r u p rr ur pr < C13f.hllcSR γ r u p rr ur pr)
    (o3 : C13f.hllcSL γ rl ul pl r u p < C13f.hllcSM γ rl ul pl r u p)
    (o4 : C13f.hllcSM γ rl ul pl r u p < C13f.hllcSR γ rl ul pl r u p)
    (hcfl : ν * (max (C13f.hllcSR γ rl ul pl r u p) 0 - min (C13f.hllcSL γ r u p rr ur pr) 0) ≤ 1) :
    Adm (consOf γ r u p - ν • (eHllc γ r u p rr ur pr - eHllc γ rl ul pl r u p)) := by
  have cpos : ∀ r p : ℝ, 0 < r → 0 < p → 0 < Real.sqrt (γ * p / r) := fun r p hr hp =>
    Real.sqrt_pos.mpr (by positivity)
  -- right face (U, Ur)
  have a1 := C13f.hllcSL_le γ r u p rr ur pr
  have a2 := C13f.le_hllcSR γ r u p rr ur pr
  have a1' : C13f.hllcSL γ r u p rr ur pr < u := by linarith [cpos r p hr hp]
  have a2' : ur < C13f.hllcSR γ r u p rr ur pr := by linarith [cpos rr pr hrr hpr]
  -- left face (Ul, U)
  have b1 := C13f.hllcSL_le γ rl ul pl r u p
  have b2 := C13f.le_hllcSR γ rl ul pl r u p
  have b1' : C13f.hllcSL γ rl ul pl r u p < ul := by linarith [cpos rl pl hrl hpl]
  have b2' : u < C13f.hllcSR γ rl ul pl r u p := by linarith [cpos r p hr hp]
  have e1 := hllcCore_left_form r u p _ _ rr ur pr _ _ _ _ hr hrr
    (show γ * p / r / (γ - 1) + 1/2 * u ^ 2 = (γ * p / r / (γ - 1) + 1/2 * u ^ 2 - p / r) + p / r by ring)
    (show γ * pr / rr / (γ - 1) + 1/2 * ur ^ 2 = (γ * pr / rr / (γ - 1) + 1/2 * ur ^ 2 - pr / rr) + pr / rr by ring)
    a1' a2' o1 o2
  have e2 := hllcCore_right_form rl ul pl _ _ r u p _ _ _ _ hrl hr
    (show γ * pl / rl / (γ - 1) + 1/2 * ul ^ 2 = (γ * pl / rl / (γ - 1) + 1/2 * ul ^ 2 - pl / rl) + pl / rl by ring)
    (show γ * p / r / (γ - 1) + 1/2 * u ^ 2 = (γ * p / r / (γ - 1) + 1/2 * u ^ 2 - p / r) + p / r by ring)
    b1' b2' o3 o4
  rw [C13f.eHllc_eq_core, C13f.eHllc_eq_core, e1, e2]
  rw [← hllcSM_eq_contact, ← hllcSM_eq_contact]
  obtain ⟨hid, hsum, hw⟩ := hllc_update_convex ν (C13f.hllcSL γ r u p rr ur pr) (C13f.hllcSM γ r u p rr ur pr)
    (C13f.hllcSR γ r u p rr ur pr) (C13f.hllcSL γ rl ul pl r u p) (C13f.hllcSM γ rl ul pl r u p)
    (C13f.hllcSR γ rl ul pl r u p)
    (fluxH r u p (γ * p / r / (γ - 1) + 1/2 * u ^ 2))
    (consE r u (γ * p / r / (γ - 1) + 1/2 * u ^ 2 - p / r))
    (consE rl ul (γ * pl / rl / (γ - 1) + 1/2 * ul ^ 2 - pl / rl))
    (consE rr ur (γ * pr / rr / (γ - 1) + 1/2 * ur ^ 2 - pr / rr))
    (starK r u p (γ * p / r / (γ - 1) + 1/2 * u ^ 2 - p / r) (C13f.hllcSL γ r u p rr ur pr)
      (C13f.hllcSM γ r u p rr ur pr))
    (starK rr ur pr (γ * pr / rr / (γ - 1) + 1/2 * ur ^ 2 - pr / rr) (C13f.hllcSR γ r u p rr ur pr)
      (C13f.hllcSM γ r u p rr ur pr))
    (starK rl ul pl (γ * pl / rl / (γ - 1) + 1/2 * ul ^ 2 - pl / rl) (C13f.hllcSL γ rl ul pl r u p)
      (C13f.hllcSM γ rl ul pl r u p))
    (starK r u p (γ * p / r / (γ - 1) + 1/2 * u ^ 2 - p / r) (C13f.hllcSR γ rl ul pl r u p)
      (C13f.hllcSM γ rl ul pl r u p))
  obtain ⟨w0, w1, w2, w3, w4, w5, w6⟩ := hw hν o1.le o2.le o3.le o4.le hcfl
  rw [← consE_eq_consOf γ r u p hγ hr, hid]
  have absL : ∀ s v c : ℝ, s ≤ v - c → 0 < c → c ≤ |s - v| := fun s v c h hc => by
    rw [abs_of_nonpos (by linarith)]; linarith
  have absR : ∀ s v c : ℝ, v + c ≤ s → 0 < c → c ≤ |s - v| := fun s v c h hc => by
    rw [abs_of_nonneg (by linarith)]; linarith
  refine adm_comb7 _ _ _ _ _ _ _ _ _ _ _ _ _ _ w0 w1 w2 w3 w4 w5 w6 hsum ?_ ?_ ?_ ?_ ?_ ?_ ?_
  · rw [consE_eq_consOf γ r u p hγ hr]; exact consOf_adm γ r u p hγ hr hp
  · exact eHllc_star_adm γ r u p _ _ hγ hr hp (absL _ _ _ a1 (cpos r p hr hp))
      (mul_pos_of_neg_of_neg (by linarith) (by linarith))
  · exact eHllc_star_adm γ rr ur pr _ _ hγ hrr hpr (absR _ _ _ a2 (cpos rr pr hrr hpr))
      (mul_pos (by linarith) (by linarith))
  · rw [consE_eq_consOf γ rr ur pr hγ hrr]; exact consOf_adm γ rr ur pr hγ hrr hpr
  · exact eHllc_star_adm γ r u p _ _ hγ hr hp (absR _ _ _ b2 (cpos r p hr hp))
      (mul_pos (by linarith) (by linarith))
  · exact eHllc_star_adm γ rl ul pl _ _ hγ hrl hpl (absL _ _ _ b1 (cpos rl pl hrl hpl))
      (mul_pos_of_neg_of_neg (by linarith) (by linarith))
  · rw [consE_eq_consOf γ rl ul pl hγ hrl]; exact consOf_adm γ rl ul pl hγ hrl hpl

/-- non-vacuity of `starK_adm` (and of the sign/Batten conditions): `γ = 7/5`, state `(1, 0, 1)`, left wave `s = -2`,
contact speed `1/2` -/
example : Adm (starK 1 0 1 (1 / ((7/5 - 1) * 1) + 1/2 * (0:ℝ) ^ 2) (-2) (1/2)) :=
  starK_adm (7/5) 1 0 1 (-2) (1/2) (by norm_num) (by norm_num) (by norm_num) (by norm_num) (by norm_num) (by norm_num)

/-- the sign condition is sharp: with the contact speed on the outer side of the left wave (`sM = -3 < s = -2 < u = 0`)
the star state has negative density -/
example : ¬ Adm (starK 1 0 1 (1 / ((7/5 - 1) * 1) + 1/2 * (0:ℝ) ^ 2) (-2) (-3)) :=
  starK_not_adm 1 0 1 _ (-2) (-3) (by norm_num) (by norm_num) (by norm_num)

/-- `sL_lt_contact_iff` at the data of `C13f.eHllc_mirror_counterexample`-type regimes: a large pressure jump pushes the
contact speed out of the fan (`L = (1, 0, 1)`, `R = (16, 0, 1000)`, `sL = -2`, `sR = 10`: `sM < sL`) -/
example : ¬ ((-2 : ℝ) < contact 1 0 1 16 0 1000 (-2) 10) := by
  rw [sL_lt_contact_iff 1 0 1 16 0 1000 (-2) 10 (by norm_num) (by norm_num) (by norm_num) (by norm_num)]
  norm_num
