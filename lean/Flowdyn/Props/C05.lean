/-
C05 — explicit Runge-Kutta integrators meet their order conditions for every RHS.

All statements are about the loop models of `Flowdyn/Model/Integrators.lean` run with the coefficient
tables extracted from /repo's source (`Flowdyn/Generated/Tables.lean`), for an arbitrary right-hand
side `R : α → V → V` on an arbitrary module `V`, any field, any `dt`.
-/
import Flowdyn.Model.Integrators
import Flowdyn.Generated.Tables
import Flowdyn.Lemmas.RKOrder
import Mathlib.Tactic.Module
import Mathlib.Tactic.Ring
import Mathlib.Tactic.NormNum
import Mathlib.Tactic.FieldSimp

namespace Flowdyn.C05
open Flowdyn Flowdyn.RK Flowdyn.Gen

/-! ## 1. order conditions on the extracted tables (finite decision, kernel evaluation) -/

/-- nominal order of each class name, as stated by the property -/
def nominal : String → Option ℕ
  | "explicit" => some 1 | "forwardeuler" => some 1
  | "rk2" => some 2 | "rk2_heun" => some 2
  | "rk3_heun" => some 3 | "rk3ssp" => some 3
  | "rk4" => some 4
  | "lsrk25bb" => some 2 | "lsrk26bb" => some 2 | "lsrk4" => some 2
  | _ => none

/-- every class driven by the generic Butcher loop meets all order conditions up to its nominal
order (and the table has the shape the loop assumes); weights sum to one is the order-1 condition -/
theorem butcher_tables_order :
    butcherTables.all (fun nt => match nominal nt.1 with
      | some p => orderOK p nt.2
      | none => false) = true := by decide +kernel

/-- the nominal orders are sharp: the next order's conditions fail (so a table silently replaced by
a higher- or lower-order one is noticed) -/
theorem butcher_tables_order_sharp :
    butcherTables.all (fun nt => match nominal nt.1 with
      | some p => p == 4 || !orderOK (p+1) nt.2
      | none => false) = true := by decide +kernel

/-- low-storage schemes are second order: `γ₁ = β_p = 1`, `γ₂ = β_p β_{p-1} = 1/2` -/
theorem ls_tables_order2 :
    betaTables.all (fun nt => nominal nt.1 == some 2 && lsOrder2 nt.2) = true := by decide +kernel

/-- every exported explicit integrator has a theorem bundle: it is `explicit`, `rk2`, a Butcher-loop
class or a low-storage class (so an added class without obligations is a failed obligation) -/
theorem exported_classes_covered :
    (List_Explicit_Integrators ++ List_RK_Integrators ++ List_LSRK_Integrators).all
      (fun c => (c == "explicit" || c == "rk2" || butcherClasses.contains c || lsrkClasses.contains c)
        && (nominal c).isSome) = true := by decide +kernel

/-- the loop each exported class uses is the one modelled for it -/
theorem exported_classes_loops :
    (List_Explicit_Integrators ++ List_RK_Integrators ++ List_LSRK_Integrators).all
      (fun c => match stepClassOf.lookup c with
        | some l => (l == "explicit" && c == "explicit") || (l == "rk2" && c == "rk2")
                    || (l == "rkmodel" && butcherClasses.contains c)
                    || (l == "LSrkmodelHH" && lsrkClasses.contains c)
        | none => false) = true := by decide +kernel

/-! ## 2. stability polynomials of the low-storage schemes -/

/-- `lsrk4`: the degree-4 Taylor polynomial `1 + z + z²/2 + z³/6 + z⁴/24` -/
theorem lsrk4_gammas : gammas beta_lsrk4 = [1, 1/2, 1/6, 1/24] := by decide +kernel

/-- Bogey & Bailly (JCP 194, 2004) optimised 5-stage coefficients γ₃, γ₄, γ₅ (trusted constants T6) -/
def bb5 : List ℚ := [1, 1/2, 165250353664/10^12, 39372585984/10^12, 7149096448/10^12]
/-- Bogey & Bailly optimised 6-stage coefficients γ₃ … γ₆ (trusted constants T6) -/
def bb6 : List ℚ := [1, 1/2, 165919771368/10^12, 40919732041/10^12, 7555704391/10^12, 891421261/10^12]

theorem lsrk25bb_gammas : closeTo (1/10^11) (gammas beta_lsrk25bb) bb5 = true := by decide +kernel
theorem lsrk26bb_gammas : closeTo (2/10^10) (gammas beta_lsrk26bb) bb6 = true := by decide +kernel

end Flowdyn.C05

/-! ## 3. each step loop is the Runge-Kutta map of its table, for every right-hand side

`R : α → V → V` arbitrary (time dependent, nonlinear), `V` an arbitrary module over a field `α` of
characteristic zero, any `dt`, any field `(t, q)`.  `calls` is the list of `(time, data)` pairs handed
to `modeldisc.rhs`: its times are the stage abscissae `t + c_i dt`. -/

namespace Flowdyn.C05
open Flowdyn Flowdyn.RK Flowdyn.Gen
variable {α : Type} [Field α] [CharZero α] {V : Type} [AddCommGroup V] [Module α V]

/-- the extracted rational tables read in the field `α` -/
def castT (t : List (List ℚ)) : List (List α) := t.map (fun r => r.map (fun x => (x : α)))
def castL (t : List ℚ) : List α := t.map (fun x => (x : α))

omit [CharZero α] in
theorem explicit_step (R : α → V → V) (dt t : α) (q : V) :
    let o := explicitStep R dt t q
    o.time = t + dt ∧ o.data = q + dt • R t q ∧ o.calls = [(t, q)] := by
  simp [explicitStep, explicitStepG]

theorem rk2_step (R : α → V → V) (dt t : α) (q : V) :
    let k1 := R t q
    let k2 := R (t + dt * (1/2)) (q + dt • ((1/2 : α) • k1))
    let o := rk2Step R dt t q
    o.time = t + dt ∧ o.data = q + dt • k2
    ∧ o.calls = [(t, q), (t + dt * (1/2), q + dt • ((1/2 : α) • k1))] := by
  intro k1 k2 o
  simp only [o, rk2Step, rk2StepG]
  simp [k1, k2, div_eq_mul_inv, mul_smul]

theorem rk2_heun_step (R : α → V → V) (dt t : α) (q : V) :
    let k1 := R t q
    let k2 := R (t + dt * 1) (q + dt • k1)
    let o := rkStep (castT butcher_rk2_heun) R dt t q
    o.time = t + dt ∧ o.data = q + dt • ((1/2 : α) • k1 + (1/2 : α) • k2)
    ∧ o.calls = [(t, q), (t + dt * 1, q + dt • k1)] := by
  intro k1 k2 o
  simp only [o, rkStep, rkStepG, castT, butcher_rk2_heun, List.map, List.foldl, rkStage, rkAggregate]
  simp
  refine ⟨by ring, ?_⟩
  simp [k1, k2]
  module

theorem rk3_heun_step (R : α → V → V) (dt t : α) (q : V) :
    let k1 := R t q
    let k2 := R (t + dt * (1/3)) (q + dt • ((1/3 : α) • k1))
    let k3 := R (t + dt * (2/3)) (q + dt • ((2/3 : α) • k2))
    let o := rkStep (castT butcher_rk3_heun) R dt t q
    o.time = t + dt ∧ o.data = q + dt • ((1/4 : α) • k1 + (3/4 : α) • k3)
    ∧ o.calls = [(t, q), (t + dt * (1/3), q + dt • ((1/3 : α) • k1)),
                 (t + dt * (2/3), q + dt • ((2/3 : α) • k2))] := by
  intro k1 k2 k3 o
  simp only [o, rkStep, rkStepG, castT, butcher_rk3_heun, List.map, List.foldl, rkStage, rkAggregate]
  simp
  refine ⟨by ring, ?_, ?_, ?_⟩ <;> simp only [k1, k2, k3] <;> norm_num <;> (try ac_nf) <;> (try module)

theorem rk3ssp_step (R : α → V → V) (dt t : α) (q : V) :
    let k1 := R t q
    let k2 := R (t + dt * 1) (q + dt • k1)
    let k3 := R (t + dt * (1/2)) (q + dt • ((1/4 : α) • k1 + (1/4 : α) • k2))
    let o := rkStep (castT butcher_rk3ssp) R dt t q
    o.time = t + dt ∧ o.data = q + dt • ((1/6 : α) • k1 + (1/6 : α) • k2 + (2/3 : α) • k3)
    ∧ o.calls = [(t, q), (t + dt * 1, q + dt • k1),
                 (t + dt * (1/2), q + dt • ((1/4 : α) • k1 + (1/4 : α) • k2))] := by
  intro k1 k2 k3 o
  simp only [o, rkStep, rkStepG, castT, butcher_rk3ssp, List.map, List.foldl, rkStage, rkAggregate]
  simp
  refine ⟨by ring, ?_, ?_, ?_⟩ <;> simp only [k1, k2, k3] <;> norm_num <;> (try ac_nf) <;> (try module)

theorem rk4_step (R : α → V → V) (dt t : α) (q : V) :
    let k1 := R t q
    let k2 := R (t + dt * (1/2)) (q + dt • ((1/2 : α) • k1))
    let k3 := R (t + dt * (1/2)) (q + dt • ((1/2 : α) • k2))
    let k4 := R (t + dt * 1) (q + dt • k3)
    let o := rkStep (castT butcher_rk4) R dt t q
    o.time = t + dt
    ∧ o.data = q + dt • ((1/6 : α) • k1 + (1/3 : α) • k2 + (1/3 : α) • k3 + (1/6 : α) • k4)
    ∧ o.calls = [(t, q), (t + dt * (1/2), q + dt • ((1/2 : α) • k1)),
                 (t + dt * (1/2), q + dt • ((1/2 : α) • k2)), (t + dt * 1, q + dt • k3)] := by
  intro k1 k2 k3 k4 o
  simp only [o, rkStep, rkStepG, castT, butcher_rk4, List.map, List.foldl, rkStage, rkAggregate]
  simp
  refine ⟨by ring, ?_, ?_, ?_, ?_⟩ <;> simp [k1, k2, k3, k4]
  module

/-! ### SSP: Shu-Osher convex combinations of forward-Euler steps -/

/-- forward Euler step -/
def fe (R : α → V → V) (dt t : α) (q : V) : V := q + dt • R t q

/-- rk2_heun = ½ q + ½ FE(FE(q)) : convex combination, SSP coefficient 1 -/
theorem rk2_heun_ssp (R : α → V → V) (dt t : α) (q : V) :
    (rkStep (castT butcher_rk2_heun) R dt t q).data
      = (1/2 : α) • q + (1/2 : α) • fe R dt (t + dt * 1) (fe R dt t q) := by
  obtain ⟨-, h, -⟩ := rk2_heun_step R dt t q
  rw [h]; simp only [fe]; module

/-- rk3ssp (Shu-Osher):  u1 = FE(q); u2 = ¾ q + ¼ FE(u1); result = ⅓ q + ⅔ FE(u2);
all weights in [0,1] and summing to one, each Euler step of length exactly `dt`. -/
theorem rk3ssp_ssp (R : α → V → V) (dt t : α) (q : V) :
    let u1 := fe R dt t q
    let u2 := (3/4 : α) • q + (1/4 : α) • fe R dt (t + dt * 1) u1
    (rkStep (castT butcher_rk3ssp) R dt t q).data
      = (1/3 : α) • q + (2/3 : α) • fe R dt (t + dt * (1/2)) u2 := by
  intro u1 u2
  obtain ⟨-, h, -⟩ := rk3ssp_step R dt t q
  rw [h]
  have e2 : q + dt • ((1/4 : α) • R t q + (1/4 : α) • R (t + dt * 1) (q + dt • R t q)) = u2 := by
    simp only [u2, u1, fe]; module
  rw [e2]; simp only [u2, u1, fe]; module

/-! ### low-storage loop (Hu-Hussaini form), any coefficient list -/

omit [CharZero α] in
/-- one more stage: `Q_s = Q_0 + dt β_s R(t_{s-1}, Q_{s-1})`, presented time `t_0 + β_s dt`
(sub-time coefficient 1 as in the repaired code) -/
theorem lsStep_snoc (bs : List α) (β : α) (R : α → V → V) (dt t : α) (q : V) :
    let p := lsStep bs R dt t q
    let o := lsStep (bs ++ [β]) R dt t q
    o.time = t + dt * β ∧ o.data = q + (β * dt) • R p.time p.data
    ∧ o.calls = p.calls ++ [(p.time, p.data)] := by
  simp [lsStep, lsStepG, List.foldl_append, lsStage, mul_smul, mul_comm]

omit [CharZero α] in
theorem lsStep_nil (R : α → V → V) (dt t : α) (q : V) :
    (lsStep [] R dt t q).time = t ∧ (lsStep [] R dt t q).data = q
    ∧ (lsStep ([] : List α) R dt t q).calls = [] := by
  simp [lsStep, lsStepG]

/-- Horner form of the stability polynomial: `P_0 = 1`, `P_s = 1 + β_s w P_{s-1}` -/
def lsPoly (bs : List α) (w : α) : α := bs.foldl (fun p β => 1 + β * w * p) 1

omit [CharZero α] in
/-- on the scalar test equation `R = z·` the low-storage step multiplies by `lsPoly betas (dt z)` -/
theorem lsStep_linear (bs : List α) (z dt t q : α) :
    (lsStep bs (fun _ y => z * y) dt t q).data = q * lsPoly bs (dt * z) := by
  induction bs using List.reverseRecOn with
  | nil => simp [lsStep, lsStepG, lsPoly]
  | append_singleton bs β ih =>
    obtain ⟨-, h, -⟩ := lsStep_snoc (V := α) bs β (fun _ y => z * y) dt t q
    rw [h, ih]
    simp only [lsPoly, List.foldl_append, List.foldl_cons, List.foldl_nil, smul_eq_mul]
    ring

/-- `lsrk4`: the degree-4 Taylor polynomial -/
theorem lsrk4_poly (w : α) :
    lsPoly (castL beta_lsrk4) w = 1 + w + w^2/2 + w^3/6 + w^4/24 := by
  simp [lsPoly, castL, beta_lsrk4]; ring

omit [CharZero α] in
theorem evalG_scale (β : α) (g : List α) (w : α) : evalG (g.map (β * ·)) w = β * evalG g w := by
  induction g with
  | nil => simp [evalG]
  | cons c g ih => simp only [List.map_cons, evalG, ih]; ring

omit [CharZero α] in
/-- for **any** coefficient list the stability polynomial of the low-storage loop is
`1 + Σ_k γ_k w^k` with `γ_k = β_p β_{p-1} ⋯ β_{p-k+1}` -/
theorem lsPoly_eq_gammas (bs : List α) (w : α) : lsPoly bs w = 1 + evalG (gammas bs) w := by
  induction bs using List.reverseRecOn with
  | nil => simp [lsPoly, gammas, gammasRev, evalG]
  | append_singleton bs β ih =>
    have h1 : lsPoly (bs ++ [β]) w = 1 + β * w * lsPoly bs w := by
      simp [lsPoly, List.foldl_append]
    rw [h1, ih]
    simp only [gammas, List.reverse_append, List.reverse_cons, List.reverse_nil, List.nil_append,
      List.cons_append, gammasRev, evalG, evalG_scale]
    ring

end Flowdyn.C05
