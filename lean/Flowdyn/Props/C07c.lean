/-
Driver (part c) — lifting symmetries (equivariance) of one integrator step to whole solves.

A *morphism* between two driver configurations `c : DrvCfg σ α V D` and `c' : DrvCfg σ' α V' D'` is a family
of maps `fσ : σ → σ'` (hidden solver state), `ft : α → α` (time; an order embedding compatible with `+`, `-`),
`fV : V → V'` (field data), `fD : D → D'` (time-step values), `fm : ℕ → α → α` (value of monitor number `i`)
with which every component of the configuration commutes.  Then the whole state machine `DrvCfg.run`
(`solve / restart / _solve`) commutes with them: same number of iterations, same termination flag, same
iteration tags, mapped times, mapped snapshots, mapped monitor logs, mapped trajectory.

`ft = id` covers mirror, cyclic shift, transposition (C13, C14); `ft = (τ * ·)`, `τ > 0`, a change of units.
The two configurations may differ (`c ≠ c'`, even `V ≠ V'`): restriction / extension of the data is a morphism too.

  `CfgHom`             the hypotheses (every component commutes with the maps), `TimeMap` those on `ft`
  `CfgHomOn Inv G`     guarded form: the data-dependent components commute on an invariant set `Inv` of trajectory
                       states and a guard `G` on the arguments of `step` only (symmetries valid for admissible states
                       and CFL-bounded steps); `CfgHom.on`: the unguarded form is the case `Inv = G = True`
  `checkEnd_map … loop_map`     one lemma per function of `Model/Driver.lean`
  `run_equivariant_on`, `run_equivariant`          the main theorems
  `results_of_map`, `final_of_map`, `monitors_of_map`, `traj_of_map`, `run_equivariant_results / _final / …`
                       what the caller sees
  `adv_equivariant`    the one-step map `adv` of C07
  `decay_hom`, `abs_hom_on`     non-vacuity (change of units ×3 in time, ×2 in value; two problems agreeing on `q ≥ 0`)
-/
import Flowdyn.Props.C07

namespace Flowdyn.C07
open Flowdyn

section maps
variable {σ σ' α V V' : Type}

/-! ### the maps -/

/-- image of a stored field: time by `ft`, iteration tag unchanged, data by `fV` -/
def Snap.map (ft : α → α) (fV : V → V') (s : Snap α V) : Snap α V' := ⟨ft s.time, s.it, fV s.data⟩

/-- image of the monitor logs: in the log of monitor number `k + i` the iteration is unchanged, the time is
mapped by `ft`, the value by `fm (k + i)` -/
def mapLogs (ft : α → α) (fm : ℕ → α → α) : ℕ → List (List (ℕ × α × α)) → List (List (ℕ × α × α))
  | _, [] => []
  | k, l :: ls => l.map (fun e => (e.1, ft e.2.1, fm k e.2.2)) :: mapLogs ft fm (k + 1) ls

/-- image of a loop state -/
def DrvState.map (fσ : σ → σ') (ft : α → α) (fV : V → V') (fm : ℕ → α → α) (st : DrvState σ α V) :
    DrvState σ' α V' :=
  { sol := fσ st.sol, time := ft st.time, data := fV st.data, nit := st.nit, isave := st.isave,
    results := st.results.map (Snap.map ft fV),
    monlog := mapLogs ft fm 0 st.monlog,
    traj := st.traj.map fun x => (ft x.1, fV x.2) }

/-! ### elementary facts on the maps -/
theorem mapLogs_length (ft : α → α) (fm : ℕ → α → α) (k : ℕ) (logs : List (List (ℕ × α × α))) :
    (mapLogs ft fm k logs).length = logs.length := by
  induction logs generalizing k with
  | nil => rfl
  | cons l ls ih => simp [mapLogs, ih]

theorem mapLogs_getElem? (ft : α → α) (fm : ℕ → α → α) (k : ℕ) (logs : List (List (ℕ × α × α))) (i : ℕ) :
    (mapLogs ft fm k logs)[i]? = (logs[i]?).map (List.map fun e => (e.1, ft e.2.1, fm (k + i) e.2.2)) := by
  induction logs generalizing k i with
  | nil => simp [mapLogs]
  | cons l ls ih =>
    cases i with
    | zero => simp [mapLogs]
    | succ i => simp [mapLogs, ih, Nat.add_assoc, Nat.add_comm 1 i]

theorem mapLogs_replicate_nil (ft : α → α) (fm : ℕ → α → α) (k n : ℕ) :
    mapLogs ft fm k (List.replicate n []) = List.replicate n [] := by
  induction n generalizing k with
  | zero => rfl
  | succ n ih => simp [List.replicate_succ, mapLogs, ih]

theorem mapLogs_id (k : ℕ) (logs : List (List (ℕ × α × α))) : mapLogs id (fun _ => id) k logs = logs := by
  induction logs generalizing k with
  | nil => rfl
  | cons l ls ih => simp [mapLogs, ih]

variable {D D' : Type}
/-- the update of the logs in `_parse_monitors` commutes with the maps -/
theorem zipLogs_map (ft : α → α) (fV : V → V') (fm : ℕ → α → α)
    (ms : List (ℕ × (α → V → α))) (ms' : List (ℕ × (α → V' → α))) (hl : ms'.length = ms.length) (k : ℕ)
    (t : α) (q : V)
    (h : ∀ i m m', ms[i]? = some m → ms'[i]? = some m' →
      m'.1 = m.1 ∧ m'.2 (ft t) (fV q) = fm (k + i) (m.2 t q))
    (tot : ℕ) (logs : List (List (ℕ × α × α))) :
    ((ms'.zip (mapLogs ft fm k logs)).map fun ml =>
        if tot % ml.1.1 = 0 then ml.2 ++ [(tot, ft t, ml.1.2 (ft t) (fV q))] else ml.2)
      = mapLogs ft fm k ((ms.zip logs).map fun ml =>
        if tot % ml.1.1 = 0 then ml.2 ++ [(tot, t, ml.1.2 t q)] else ml.2) := by
  induction ms generalizing ms' k logs with
  | nil =>
    cases ms' with
    | nil => simp [mapLogs]
    | cons _ _ => simp at hl
  | cons m ms ih =>
    cases ms' with
    | nil => simp at hl
    | cons m' ms' =>
      cases logs with
      | nil => simp [mapLogs]
      | cons l ls =>
        obtain ⟨hf, hv⟩ := h 0 m m' (by simp) (by simp)
        have htl := ih ms' (by simpa using hl) (k + 1)
          (fun i a a' ha ha' => by
            have := h (i + 1) a a' (by simpa using ha) (by simpa using ha')
            rwa [Nat.add_assoc, Nat.add_comm 1 i])
          ls
        simp only [mapLogs, List.zip_cons_cons, List.map_cons, htl, hf]
        congr 1
        split_ifs
        · rw [List.map_append, List.map_singleton, hv, Nat.add_zero]
        · rfl

end maps

section morphism
variable {σ σ' α V V' D D' : Type} [LinearOrder α] [Add α] [Sub α]

/-- the time map: an order embedding compatible with `+` and `-` -/
structure TimeMap (ft : α → α) : Prop where
  lt : ∀ a b, a < b ↔ ft a < ft b
  add : ∀ a b, ft (a + b) = ft a + ft b
  sub : ∀ a b, ft (a - b) = ft a - ft b

/-- morphism of driver configurations -/
structure CfgHom (c : DrvCfg σ α V D) (c' : DrvCfg σ' α V' D')
    (fσ : σ → σ') (ft : α → α) (fV : V → V') (fD : D → D') (fm : ℕ → α → α) : Prop where
  time : TimeMap ft
  step : ∀ s d t q, c'.step (fσ s) (fD d) (ft t) (fV q)
      = (fσ (c.step s d t q).1, ft (c.step s d t q).2.1, fV (c.step s d t q).2.2)
  keep : ∀ s s', c'.keep (fσ s) (fσ s') = fσ (c.keep s s')
  calcDt : ∀ t q, c'.calcDt (ft t) (fV q) = fD (c.calcDt t q)
  minDt : ∀ d, c'.minDt (fD d) = ft (c.minDt d)
  scalar : ∀ a, c'.scalar (ft a) = fD (c.scalar a)
  dtlocal : c'.dtlocal = c.dtlocal
  tottime : c'.tottime = c.tottime.map ft
  maxit : c'.maxit = c.maxit
  tsave : c'.tsave = c.tsave.map ft
  itstart : c'.itstart = c.itstart
  monitors_length : c'.monitors.length = c.monitors.length
  /-- monitor number `i`: same frequency, value mapped by `fm i` -/
  monitors : ∀ i m m', c.monitors[i]? = some m → c'.monitors[i]? = some m' →
      m'.1 = m.1 ∧ ∀ t q, m'.2 (ft t) (fV q) = fm i (m.2 t q)

/-- the time step handed to the full step of an iteration from `(t, q)` -/
def fullDt (c : DrvCfg σ α V D) (t : α) (q : V) : D :=
  if c.dtlocal then c.calcDt t q else c.scalar (c.minDt (c.calcDt t q))

/-- **guarded** morphism: the components that look at the data commute with the maps only on an admissible set.
`Inv s t q` is an invariant of the trajectory states (solver state, time, data), `G s d t q` a guard on the
arguments of `step`; the last four fields say that the driver calls `step` inside the guard only and that full
steps (and the solver state kept after a side step) stay in the invariant.  Typical use: `Inv = ` positivity,
`G = ` positivity and a CFL bound on the step, for symmetries of fluxes that hold for admissible states only. -/
structure CfgHomOn (Inv : σ → α → V → Prop) (G : σ → D → α → V → Prop)
    (c : DrvCfg σ α V D) (c' : DrvCfg σ' α V' D')
    (fσ : σ → σ') (ft : α → α) (fV : V → V') (fD : D → D') (fm : ℕ → α → α) : Prop where
  time : TimeMap ft
  step : ∀ s d t q, G s d t q → c'.step (fσ s) (fD d) (ft t) (fV q)
      = (fσ (c.step s d t q).1, ft (c.step s d t q).2.1, fV (c.step s d t q).2.2)
  keep : ∀ s s', c'.keep (fσ s) (fσ s') = fσ (c.keep s s')
  calcDt : ∀ s t q, Inv s t q → c'.calcDt (ft t) (fV q) = fD (c.calcDt t q)
  minDt : ∀ d, c'.minDt (fD d) = ft (c.minDt d)
  scalar : ∀ a, c'.scalar (ft a) = fD (c.scalar a)
  dtlocal : c'.dtlocal = c.dtlocal
  tottime : c'.tottime = c.tottime.map ft
  maxit : c'.maxit = c.maxit
  tsave : c'.tsave = c.tsave.map ft
  itstart : c'.itstart = c.itstart
  monitors_length : c'.monitors.length = c.monitors.length
  monitors : ∀ i m m', c.monitors[i]? = some m → c'.monitors[i]? = some m' →
      m'.1 = m.1 ∧ ∀ s t q, Inv s t q → m'.2 (ft t) (fV q) = fm i (m.2 t q)
  /-- the full step of an iteration is taken inside the guard … -/
  full_guard : ∀ s t q, Inv s t q → G s (fullDt c t q) t q
  /-- … and leads to an admissible state -/
  full_inv : ∀ s t q, Inv s t q →
      Inv (c.step s (fullDt c t q) t q).1 (c.step s (fullDt c t q) t q).2.1 (c.step s (fullDt c t q) t q).2.2
  /-- a side step to a save time `t < ts ≤ t + min dt` is taken inside the guard … -/
  side_guard : ∀ s t q ts, Inv s t q → t < ts → ts ≤ t + c.minDt (c.calcDt t q) → G s (c.scalar (ts - t)) t q
  /-- … and the solver state kept afterwards is admissible with the current field -/
  side_inv : ∀ s t q ts, Inv s t q → t < ts → ts ≤ t + c.minDt (c.calcDt t q) →
      Inv (c.keep s (c.step s (c.scalar (ts - t)) t q).1) t q

/-- an unguarded morphism is a guarded one with trivial invariant and guard -/
theorem CfgHom.on {c : DrvCfg σ α V D} {c' : DrvCfg σ' α V' D'}
    {fσ : σ → σ'} {ft : α → α} {fV : V → V'} {fD : D → D'} {fm : ℕ → α → α} (h : CfgHom c c' fσ ft fV fD fm) :
    CfgHomOn (fun _ _ _ => True) (fun _ _ _ _ => True) c c' fσ ft fV fD fm where
  time := h.time
  step := fun s d t q _ => h.step s d t q
  keep := h.keep
  calcDt := fun _ t q _ => h.calcDt t q
  minDt := h.minDt
  scalar := h.scalar
  dtlocal := h.dtlocal
  tottime := h.tottime
  maxit := h.maxit
  tsave := h.tsave
  itstart := h.itstart
  monitors_length := h.monitors_length
  monitors := fun i m m' hm hm' => ⟨(h.monitors i m m' hm hm').1, fun _ t q _ => (h.monitors i m m' hm hm').2 t q⟩
  full_guard := fun _ _ _ _ => trivial
  full_inv := fun _ _ _ _ => trivial
  side_guard := fun _ _ _ _ _ _ _ => trivial
  side_inv := fun _ _ _ _ _ _ _ => trivial

namespace TimeMap
variable {ft : α → α}
theorem le (h : TimeMap ft) (a b : α) : a ≤ b ↔ ft a ≤ ft b := by
  rw [← not_lt, ← not_lt, h.lt b a]
theorem inj (h : TimeMap ft) (a b : α) : ft a = ft b ↔ a = b := by
  constructor
  · intro e
    apply le_antisymm
    · rw [h.le, e]
    · rw [h.le, e]
  · intro e; rw [e]
end TimeMap

variable {c : DrvCfg σ α V D} {c' : DrvCfg σ' α V' D'}
  {fσ : σ → σ'} {ft : α → α} {fV : V → V'} {fD : D → D'} {fm : ℕ → α → α}
  {Inv : σ → α → V → Prop} {G : σ → D → α → V → Prop}

/-- the invariant at a loop state -/
def InvAt (Inv : σ → α → V → Prop) (st : DrvState σ α V) : Prop := Inv st.sol st.time st.data

/-! ### `_check_end` -/
theorem checkEnd_map (h : CfgHomOn Inv G c c' fσ ft fV fD fm) (st : DrvState σ α V) :
    c'.checkEnd (DrvState.map fσ ft fV fm st) = c.checkEnd st := by
  unfold DrvCfg.checkEnd
  rw [h.tottime, h.maxit]
  cases c.tottime with
  | none => rfl
  | some T =>
    simp only [Option.map_some]
    congr 1
    exact decide_eq_decide.2 (h.time.le T st.time).symm

/-! ### `_parse_monitors` -/
theorem parseMonitors_map (h : CfgHomOn Inv G c c' fσ ft fV fD fm) (st : DrvState σ α V) (hI : InvAt Inv st) :
    c'.parseMonitors (DrvState.map fσ ft fV fm st) = DrvState.map fσ ft fV fm (c.parseMonitors st) := by
  unfold DrvCfg.parseMonitors
  simp only [DrvState.map, h.itstart]
  congr 1
  exact zipLogs_map ft fV fm c.monitors c'.monitors h.monitors_length 0 st.time st.data
    (fun i m m' hm hm' => by
      rw [Nat.zero_add]
      exact ⟨(h.monitors i m m' hm hm').1, (h.monitors i m m' hm hm').2 _ _ _ hI⟩) _ _

/-! ### the start: skipping past save times, initial snapshots -/
theorem skipPast_map (ht : TimeMap ft) (t : α) (ts : List α) (i : ℕ) :
    skipPast (ft t) (ts.map ft) i = skipPast t ts i := by
  induction ts generalizing i with
  | nil => rfl
  | cons a ts ih =>
    simp only [List.map_cons, skipPast, ih, ← ht.lt]

theorem tsave_map (h : CfgHomOn Inv G c c' fσ ft fV fD fm) (i : ℕ) : c'.tsave[i]? = (c.tsave[i]?).map ft := by
  rw [h.tsave, List.getElem?_map]

omit [Add α] [Sub α] in
/-- the initial snapshots do not move the trajectory state -/
theorem initialSnaps_same (c : DrvCfg σ α V D) (st : DrvState σ α V) (fuel : ℕ) :
    (c.initialSnaps st fuel).sol = st.sol ∧ (c.initialSnaps st fuel).time = st.time
    ∧ (c.initialSnaps st fuel).data = st.data := by
  induction fuel generalizing st with
  | zero => exact ⟨rfl, rfl, rfl⟩
  | succ n ih =>
    rw [DrvCfg.initialSnaps]
    split
    · split_ifs
      · exact ih _
      · exact ⟨rfl, rfl, rfl⟩
    · exact ⟨rfl, rfl, rfl⟩

theorem initialSnaps_map (h : CfgHomOn Inv G c c' fσ ft fV fD fm) (st : DrvState σ α V) (fuel : ℕ) :
    c'.initialSnaps (DrvState.map fσ ft fV fm st) fuel = DrvState.map fσ ft fV fm (c.initialSnaps st fuel) := by
  induction fuel generalizing st with
  | zero => rfl
  | succ n ih =>
    rw [DrvCfg.initialSnaps, DrvCfg.initialSnaps]
    have hts : c'.tsave[(DrvState.map fσ ft fV fm st).isave]? = (c.tsave[st.isave]?).map ft := tsave_map h _
    rw [hts]
    cases c.tsave[st.isave]? with
    | none => rfl
    | some ts =>
      simp only [Option.map_some]
      by_cases h1 : ts = st.time
      · have h1' : ft ts = (DrvState.map fσ ft fV fm st).time := (h.time.inj _ _).2 h1
        rw [if_pos h1, if_pos h1', ← ih]
        congr 1
        simp [DrvState.map, Snap.map, h.itstart]
      · have h1' : ¬ ft ts = (DrvState.map fσ ft fV fm st).time := fun e => h1 ((h.time.inj _ _).1 e)
        rw [if_neg h1, if_neg h1']

/-! ### snapshots by side steps -/
/-- side steps do not move time and data (the solver state becomes `keep …`) -/
theorem sideSnaps_same (c : DrvCfg σ α V D) (m : α) (st : DrvState σ α V) (fuel : ℕ) :
    (c.sideSnaps m st fuel).time = st.time ∧ (c.sideSnaps m st fuel).data = st.data := by
  induction fuel generalizing st with
  | zero => exact ⟨rfl, rfl⟩
  | succ n ih =>
    rw [DrvCfg.sideSnaps]
    split
    · split_ifs
      · exact ih _
      · exact ih _
      · exact ⟨rfl, rfl⟩
    · exact ⟨rfl, rfl⟩

theorem sideSnaps_map (h : CfgHomOn Inv G c c' fσ ft fV fD fm) (m : α) (st : DrvState σ α V) (fuel : ℕ)
    (hm : m = c.minDt (c.calcDt st.time st.data)) (hI : InvAt Inv st) :
    c'.sideSnaps (ft m) (DrvState.map fσ ft fV fm st) fuel
      = DrvState.map fσ ft fV fm (c.sideSnaps m st fuel)
    ∧ InvAt Inv (c.sideSnaps m st fuel) := by
  induction fuel generalizing st with
  | zero => exact ⟨rfl, hI⟩
  | succ n ih =>
    rw [DrvCfg.sideSnaps, DrvCfg.sideSnaps]
    have hts : c'.tsave[(DrvState.map fσ ft fV fm st).isave]? = (c.tsave[st.isave]?).map ft := tsave_map h _
    rw [hts]
    cases c.tsave[st.isave]? with
    | none => exact ⟨rfl, hI⟩
    | some ts =>
      simp only [Option.map_some]
      have e1 : (DrvState.map fσ ft fV fm st).time + ft m = ft (st.time + m) := (h.time.add _ _).symm
      by_cases h1 : ts ≤ st.time + m
      · have h1' : ft ts ≤ (DrvState.map fσ ft fV fm st).time + ft m := by
          rw [e1]; exact (h.time.le _ _).1 h1
        rw [if_pos h1, if_pos h1']
        by_cases h2 : st.time < ts
        · have h2' : (DrvState.map fσ ft fV fm st).time < ft ts := (h.time.lt _ _).1 h2
          have hG : G st.sol (c.scalar (ts - st.time)) st.time st.data :=
            h.side_guard _ _ _ ts hI h2 (hm ▸ h1)
          have hI' : Inv (c.keep st.sol (c.step st.sol (c.scalar (ts - st.time)) st.time st.data).1) st.time st.data :=
            h.side_inv _ _ _ ts hI h2 (hm ▸ h1)
          rw [if_pos h2, if_pos h2']
          obtain ⟨ih1, ih2⟩ := ih
            { st with
              sol := c.keep st.sol (c.step st.sol (c.scalar (ts - st.time)) st.time st.data).1,
              results := st.results ++ [⟨(c.step st.sol (c.scalar (ts - st.time)) st.time st.data).2.1,
                (c.itstart + st.nit : ℕ), (c.step st.sol (c.scalar (ts - st.time)) st.time st.data).2.2⟩],
              isave := st.isave + 1 } hm hI'
          refine ⟨?_, ih2⟩
          rw [← ih1]
          congr 1
          have e2 : ft ts - (DrvState.map fσ ft fV fm st).time = ft (ts - st.time) := (h.time.sub _ _).symm
          rw [e2, h.scalar]
          simp [DrvState.map, Snap.map, h.itstart, h.step _ _ _ _ hG, h.keep]
        · have h2' : ¬ (DrvState.map fσ ft fV fm st).time < ft ts := fun e => h2 ((h.time.lt _ _).2 e)
          rw [if_neg h2, if_neg h2']
          obtain ⟨ih1, ih2⟩ := ih
            { st with
              results := st.results ++ [⟨st.time, (c.itstart + st.nit : ℕ), st.data⟩],
              isave := st.isave + 1 } hm hI
          refine ⟨?_, ih2⟩
          rw [← ih1]
          congr 1
          simp [DrvState.map, Snap.map, h.itstart]
      · have h1' : ¬ ft ts ≤ (DrvState.map fσ ft fV fm st).time + ft m := by
          rw [e1]; exact fun e => h1 ((h.time.le _ _).2 e)
        rw [if_neg h1, if_neg h1']
        exact ⟨rfl, hI⟩

/-! ### one pass of the main loop -/
/-- the state after the full step `r` taken from the state `st1` left by the side steps -/
def stepped (st1 : DrvState σ α V) (r : σ × α × V) : DrvState σ α V :=
  { st1 with sol := r.1, time := r.2.1, data := r.2.2, nit := st1.nit + 1, traj := (r.2.1, r.2.2) :: st1.traj }

/-- the part of `iteration` after the full step -/
def afterStep (c : DrvCfg σ α V D) (st1 : DrvState σ α V) (r : σ × α × V) : DrvState σ α V :=
  let st3 := c.parseMonitors (stepped st1 r)
  if c.checkEnd st3 ∧ st3.results.isEmpty then
    { st3 with results := [⟨st3.time, (c.itstart + st3.nit : ℕ), st3.data⟩] }
  else st3

omit [LinearOrder α] [Add α] [Sub α] in
theorem stepped_map (fσ : σ → σ') (ft : α → α) (fV : V → V') (fm : ℕ → α → α) (st1 : DrvState σ α V)
    (r : σ × α × V) :
    stepped (DrvState.map fσ ft fV fm st1) (fσ r.1, ft r.2.1, fV r.2.2)
      = DrvState.map fσ ft fV fm (stepped st1 r) := rfl

theorem iteration_eq_afterStep (c : DrvCfg σ α V D) (st : DrvState σ α V) :
    c.iteration st
      = afterStep c (c.sideSnaps (c.minDt (c.calcDt st.time st.data)) st (c.tsave.length + 1))
          (c.step (c.sideSnaps (c.minDt (c.calcDt st.time st.data)) st (c.tsave.length + 1)).sol
            (fullDt c st.time st.data)
            (c.sideSnaps (c.minDt (c.calcDt st.time st.data)) st (c.tsave.length + 1)).time
            (c.sideSnaps (c.minDt (c.calcDt st.time st.data)) st (c.tsave.length + 1)).data) := rfl

omit [Add α] [Sub α] in
theorem afterStep_same (c : DrvCfg σ α V D) (st1 : DrvState σ α V) (r : σ × α × V) :
    (afterStep c st1 r).sol = r.1 ∧ (afterStep c st1 r).time = r.2.1 ∧ (afterStep c st1 r).data = r.2.2 := by
  unfold afterStep
  dsimp only
  split_ifs <;> exact ⟨rfl, rfl, rfl⟩

theorem afterStep_map (h : CfgHomOn Inv G c c' fσ ft fV fD fm) (st1 : DrvState σ α V) (r : σ × α × V)
    (hI : Inv r.1 r.2.1 r.2.2) :
    afterStep c' (DrvState.map fσ ft fV fm st1) (fσ r.1, ft r.2.1, fV r.2.2)
      = DrvState.map fσ ft fV fm (afterStep c st1 r) := by
  unfold afterStep
  dsimp only
  rw [stepped_map, parseMonitors_map h (stepped st1 r) hI, checkEnd_map h]
  have e3 : ∀ s : DrvState σ α V, (DrvState.map fσ ft fV fm s).results.isEmpty = s.results.isEmpty := by
    intro s; simp [DrvState.map]
  rw [e3]
  split_ifs
  · simp [DrvState.map, Snap.map, h.itstart]
  · rfl

theorem iteration_map (h : CfgHomOn Inv G c c' fσ ft fV fD fm) (st : DrvState σ α V) (hI : InvAt Inv st) :
    c'.iteration (DrvState.map fσ ft fV fm st) = DrvState.map fσ ft fV fm (c.iteration st)
    ∧ InvAt Inv (c.iteration st) := by
  have hlen : c'.tsave.length = c.tsave.length := by rw [h.tsave, List.length_map]
  have e0 : c'.calcDt (DrvState.map fσ ft fV fm st).time (DrvState.map fσ ft fV fm st).data
      = fD (c.calcDt st.time st.data) := h.calcDt _ _ _ hI
  have e1 : fullDt c' (DrvState.map fσ ft fV fm st).time (DrvState.map fσ ft fV fm st).data
      = fD (fullDt c st.time st.data) := by
    unfold fullDt
    rw [e0, h.minDt, h.dtlocal, h.scalar]; split <;> rfl
  obtain ⟨hside, hI1⟩ := sideSnaps_map h (c.minDt (c.calcDt st.time st.data)) st (c.tsave.length + 1) rfl hI
  obtain ⟨ht1, hd1⟩ := sideSnaps_same c (c.minDt (c.calcDt st.time st.data)) st (c.tsave.length + 1)
  rw [iteration_eq_afterStep, iteration_eq_afterStep, e0, h.minDt, hlen, hside, e1]
  generalize c.sideSnaps (c.minDt (c.calcDt st.time st.data)) st (c.tsave.length + 1) = st1 at hI1 ht1 hd1 ⊢
  have e : fullDt c st1.time st1.data = fullDt c st.time st.data := by rw [ht1, hd1]
  have hG := h.full_guard _ _ _ hI1
  have hI2 := h.full_inv _ _ _ hI1
  rw [e] at hG hI2
  constructor
  · rw [← afterStep_map h st1 _ hI2]
    congr 1
    exact h.step _ _ _ _ hG
  · obtain ⟨a1, a2, a3⟩ := afterStep_same c st1 (c.step st1.sol (fullDt c st.time st.data) st1.time st1.data)
    unfold InvAt
    rw [a1, a2, a3]
    exact hI2

/-! ### the loop and the whole `_solve` -/
theorem loop_map (h : CfgHomOn Inv G c c' fσ ft fV fD fm) (fuel : ℕ) (st : DrvState σ α V) (hI : InvAt Inv st) :
    c'.loop fuel (DrvState.map fσ ft fV fm st)
      = (DrvState.map fσ ft fV fm (c.loop fuel st).1, (c.loop fuel st).2) := by
  induction fuel generalizing st with
  | zero => simp [DrvCfg.loop, checkEnd_map h]
  | succ n ih =>
    rw [DrvCfg.loop, DrvCfg.loop, checkEnd_map h]
    split_ifs
    · rfl
    · rw [(iteration_map h st hI).1, ih _ (iteration_map h st hI).2]

/-- **equivariance of `solve` / `restart`, guarded form**: from an admissible initial state -/
theorem run_equivariant_on (h : CfgHomOn Inv G c c' fσ ft fV fD fm) (fuel : ℕ) (s0 : σ) (t0 : α) (q0 : V)
    (h0 : Inv s0 t0 q0) :
    c'.run fuel (fσ s0) (ft t0) (fV q0)
      = (DrvState.map fσ ft fV fm (c.run fuel s0 t0 q0).1, (c.run fuel s0 t0 q0).2) := by
  have hlen : c'.tsave.length = c.tsave.length := by rw [h.tsave, List.length_map]
  unfold DrvCfg.run
  dsimp only
  have e0 : (⟨fσ s0, ft t0, fV q0, 0, 0, [], c'.monitors.map (fun _ => []), [(ft t0, fV q0)]⟩ : DrvState σ' α V')
      = DrvState.map fσ ft fV fm ⟨s0, t0, q0, 0, 0, [], c.monitors.map (fun _ => []), [(t0, q0)]⟩ := by
    simp only [DrvState.map, List.map_const', mapLogs_replicate_nil, h.monitors_length, List.map_nil,
      List.map_cons]
  rw [← loop_map h, ← initialSnaps_map h, hlen]
  · congr 2
    rw [e0, parseMonitors_map h ⟨s0, t0, q0, 0, 0, [], c.monitors.map (fun _ => []), [(t0, q0)]⟩ h0, h.tsave,
      skipPast_map h.time]
    rfl
  · obtain ⟨a1, a2, a3⟩ := initialSnaps_same c
      { c.parseMonitors ⟨s0, t0, q0, 0, 0, [], c.monitors.map (fun _ => []), [(t0, q0)]⟩ with
        isave := skipPast t0 c.tsave 0 } (c.tsave.length + 1)
    unfold InvAt
    rw [a1, a2, a3]
    exact h0

/-- **equivariance of `solve` / `restart`**: the run of the image problem from the image of the initial
state is the image of the run — same termination flag, same iteration count and save index, mapped
solver state, time, data, snapshots, monitor logs and trajectory -/
theorem run_equivariant (h : CfgHom c c' fσ ft fV fD fm) (fuel : ℕ) (s0 : σ) (t0 : α) (q0 : V) :
    c'.run fuel (fσ s0) (ft t0) (fV q0)
      = (DrvState.map fσ ft fV fm (c.run fuel s0 t0 q0).1, (c.run fuel s0 t0 q0).2) :=
  run_equivariant_on h.on fuel s0 t0 q0 trivial

/-! ### corollaries: what the caller of `solve` sees

The `…_of_map` lemmas read the components off an equation `r' = (map r.1, r.2)` (the conclusion of `run_equivariant`
and of `run_equivariant_on`); the `run_equivariant_…` theorems are their instances for unguarded morphisms. -/
omit [LinearOrder α] [Add α] [Sub α] in
/-- the returned snapshots of the image problem are the images of the returned snapshots: same number,
same iteration tags, times mapped by `ft`, data mapped by `fV` -/
theorem results_of_map {r : DrvState σ α V × Bool} {r' : DrvState σ' α V' × Bool}
    (E : r' = (DrvState.map fσ ft fV fm r.1, r.2)) :
    r'.1.results = r.1.results.map (Snap.map ft fV)
    ∧ r'.1.results.length = r.1.results.length
    ∧ ∀ k (hk : k < r.1.results.length) (hk' : k < r'.1.results.length),
        (r'.1.results[k]).it = (r.1.results[k]).it
        ∧ (r'.1.results[k]).time = ft (r.1.results[k]).time
        ∧ (r'.1.results[k]).data = fV (r.1.results[k]).data := by
  have e : r'.1.results = r.1.results.map (Snap.map ft fV) := by rw [E]; rfl
  refine ⟨e, by rw [e, List.length_map], ?_⟩
  intro k hk hk'
  have : r'.1.results[k] = Snap.map ft fV (r.1.results[k]) := by
    simp only [e, List.getElem_map]
  rw [this]
  exact ⟨rfl, rfl, rfl⟩

omit [LinearOrder α] [Add α] [Sub α] in
/-- termination flag, iteration count, final time, final data and final solver state -/
theorem final_of_map {r : DrvState σ α V × Bool} {r' : DrvState σ' α V' × Bool}
    (E : r' = (DrvState.map fσ ft fV fm r.1, r.2)) :
    r'.2 = r.2 ∧ r'.1.nit = r.1.nit ∧ r'.1.time = ft r.1.time ∧ r'.1.data = fV r.1.data ∧ r'.1.sol = fσ r.1.sol := by
  rw [E]
  exact ⟨rfl, rfl, rfl, rfl, rfl⟩

omit [LinearOrder α] [Add α] [Sub α] in
/-- the monitor logs: monitor number `i` has recorded at the same iterations, at the mapped times, the values
mapped by `fm i` -/
theorem monitors_of_map {r : DrvState σ α V × Bool} {r' : DrvState σ' α V' × Bool}
    (E : r' = (DrvState.map fσ ft fV fm r.1, r.2)) (i : ℕ) :
    r'.1.monlog[i]? = (r.1.monlog[i]?).map (List.map fun e => (e.1, ft e.2.1, fm i e.2.2)) := by
  rw [E]
  show (mapLogs ft fm 0 _)[i]? = _
  rw [mapLogs_getElem?, Nat.zero_add]

omit [LinearOrder α] [Add α] [Sub α] in
/-- the (ghost) trajectory of all full steps -/
theorem traj_of_map {r : DrvState σ α V × Bool} {r' : DrvState σ' α V' × Bool}
    (E : r' = (DrvState.map fσ ft fV fm r.1, r.2)) :
    r'.1.traj = r.1.traj.map fun x => (ft x.1, fV x.2) := by
  rw [E]; rfl

theorem run_equivariant_results (h : CfgHom c c' fσ ft fV fD fm) (fuel : ℕ) (s0 : σ) (t0 : α) (q0 : V) :
    (c'.run fuel (fσ s0) (ft t0) (fV q0)).1.results = (c.run fuel s0 t0 q0).1.results.map (Snap.map ft fV)
    ∧ (c'.run fuel (fσ s0) (ft t0) (fV q0)).1.results.length = (c.run fuel s0 t0 q0).1.results.length
    ∧ ∀ k (hk : k < (c.run fuel s0 t0 q0).1.results.length)
        (hk' : k < (c'.run fuel (fσ s0) (ft t0) (fV q0)).1.results.length),
        ((c'.run fuel (fσ s0) (ft t0) (fV q0)).1.results[k]).it = ((c.run fuel s0 t0 q0).1.results[k]).it
        ∧ ((c'.run fuel (fσ s0) (ft t0) (fV q0)).1.results[k]).time = ft ((c.run fuel s0 t0 q0).1.results[k]).time
        ∧ ((c'.run fuel (fσ s0) (ft t0) (fV q0)).1.results[k]).data = fV ((c.run fuel s0 t0 q0).1.results[k]).data :=
  results_of_map (run_equivariant h fuel s0 t0 q0)

theorem run_equivariant_final (h : CfgHom c c' fσ ft fV fD fm) (fuel : ℕ) (s0 : σ) (t0 : α) (q0 : V) :
    (c'.run fuel (fσ s0) (ft t0) (fV q0)).2 = (c.run fuel s0 t0 q0).2
    ∧ (c'.run fuel (fσ s0) (ft t0) (fV q0)).1.nit = (c.run fuel s0 t0 q0).1.nit
    ∧ (c'.run fuel (fσ s0) (ft t0) (fV q0)).1.time = ft (c.run fuel s0 t0 q0).1.time
    ∧ (c'.run fuel (fσ s0) (ft t0) (fV q0)).1.data = fV (c.run fuel s0 t0 q0).1.data
    ∧ (c'.run fuel (fσ s0) (ft t0) (fV q0)).1.sol = fσ (c.run fuel s0 t0 q0).1.sol :=
  final_of_map (run_equivariant h fuel s0 t0 q0)

theorem run_equivariant_monitors (h : CfgHom c c' fσ ft fV fD fm) (fuel : ℕ) (s0 : σ) (t0 : α) (q0 : V) (i : ℕ) :
    (c'.run fuel (fσ s0) (ft t0) (fV q0)).1.monlog[i]?
      = ((c.run fuel s0 t0 q0).1.monlog[i]?).map (List.map fun e => (e.1, ft e.2.1, fm i e.2.2)) :=
  monitors_of_map (run_equivariant h fuel s0 t0 q0) i

theorem run_equivariant_traj (h : CfgHom c c' fσ ft fV fD fm) (fuel : ℕ) (s0 : σ) (t0 : α) (q0 : V) :
    (c'.run fuel (fσ s0) (ft t0) (fV q0)).1.traj
      = (c.run fuel s0 t0 q0).1.traj.map fun x => (ft x.1, fV x.2) :=
  traj_of_map (run_equivariant h fuel s0 t0 q0)

/-- one full step of the trajectory (`adv` of C07) commutes with the maps -/
theorem adv_equivariant (h : CfgHom c c' fσ ft fV fD fm) (x : σ × α × V) :
    adv c' (fσ x.1, ft x.2.1, fV x.2.2) = (fσ (adv c x).1, ft (adv c x).2.1, fV (adv c x).2.2) := by
  unfold adv
  dsimp only
  rw [h.calcDt, h.minDt, h.scalar, h.dtlocal, ← h.step]
  congr 1
  split <;> rfl

/-! ### how to obtain the hypotheses -/
omit [LinearOrder α] [Add α] [Sub α] in
/-- the monitor condition of `CfgHom` from a condition on the pairs of corresponding monitors (one value map `g`) -/
theorem monitors_of_mem {ms : List (ℕ × (α → V → α))} {ms' : List (ℕ × (α → V' → α))} (ft : α → α) (fV : V → V')
    (g : α → α)
    (hz : ∀ p ∈ ms.zip ms', p.2.1 = p.1.1 ∧ ∀ t q, p.2.2 (ft t) (fV q) = g (p.1.2 t q)) :
    ∀ (i : ℕ) (m : ℕ × (α → V → α)) (m' : ℕ × (α → V' → α)), ms[i]? = some m → ms'[i]? = some m' →
      m'.1 = m.1 ∧ ∀ t q, m'.2 (ft t) (fV q) = g (m.2 t q) := by
  intro i m m' hm hm'
  have : (ms.zip ms')[i]? = some (m, m') := by
    rw [List.getElem?_zip_eq_some]; exact ⟨hm, hm'⟩
  exact hz (m, m') (List.mem_of_getElem? this)

theorem timeMap_id : TimeMap (id : α → α) := ⟨fun _ _ => Iff.rfl, fun _ _ => rfl, fun _ _ => rfl⟩

/-- the identity is a morphism -/
theorem CfgHom.refl (c : DrvCfg σ α V D) : CfgHom c c id id id id (fun _ => id) where
  time := timeMap_id
  step := fun _ _ _ _ => rfl
  keep := fun _ _ => rfl
  calcDt := fun _ _ => rfl
  minDt := fun _ => rfl
  scalar := fun _ => rfl
  dtlocal := rfl
  tottime := by simp
  maxit := rfl
  tsave := by simp
  itstart := rfl
  monitors_length := rfl
  monitors := fun i m m' hm hm' => by
    rw [hm] at hm'; cases hm'; exact ⟨rfl, fun _ _ => rfl⟩

end morphism

/-! ### time maps in an ordered field: identity and change of the time unit -/
section field
variable {α : Type} [Field α] [LinearOrder α] [IsStrictOrderedRing α]

theorem timeMap_mul (τ : α) (hτ : 0 < τ) : TimeMap (fun t : α => τ * t) where
  lt := fun a b => ⟨fun h => by nlinarith, fun h => by
    by_contra hc
    have := mul_le_mul_of_nonneg_left (not_lt.mp hc) hτ.le
    exact absurd h (not_lt.mpr this)⟩
  add := fun a b => by ring
  sub := fun a b => by ring
end field

/-! ### non-vacuity: forward Euler for `q' = -κ q`, change of the units of time (×3) and of `q` (×2) -/
/-- constant time step `δ`, stop at `tot`, two monitors (the value `q` at every iteration, the time at every
second iteration) -/
def decayCfg (κ δ tot : ℚ) (saves : List ℚ) : DrvCfg Unit ℚ ℚ ℚ :=
  { step := fun s d t q => (s, t + d, q - d * κ * q), keep := fun s _ => s,
    calcDt := fun _ _ => δ, minDt := id, scalar := id, dtlocal := false,
    tottime := some tot, maxit := none, tsave := saves, itstart := 0,
    monitors := [(1, fun _ q => q), (2, fun t _ => t)] }

/-- the decay problem in the new units is the image of the original one; the two monitors scale differently -/
theorem decay_hom :
    CfgHom (decayCfg 1 (1/10) 1 [1/4, 1/2, 1]) (decayCfg (1/3) (3/10) 3 [3/4, 3/2, 3])
      id (fun t => 3 * t) (fun q => 2 * q) (fun d => 3 * d) (fun i v => if i = 0 then 2 * v else 3 * v) where
  time := timeMap_mul 3 (by norm_num)
  step := fun s d t q => by
    simp only [decayCfg, id]
    refine Prod.ext rfl (Prod.ext ?_ ?_) <;> simp only <;> ring
  keep := fun _ _ => rfl
  calcDt := fun _ _ => by simp only [decayCfg]; norm_num
  minDt := fun _ => rfl
  scalar := fun _ => rfl
  dtlocal := rfl
  tottime := by simp only [decayCfg, Option.map_some]; norm_num
  maxit := rfl
  tsave := by simp only [decayCfg, List.map_cons, List.map_nil]; norm_num
  itstart := rfl
  monitors_length := rfl
  monitors := fun i m m' hm hm' => by
    rcases i with _ | _ | i
    · simp only [decayCfg, List.getElem?_cons_zero, Option.some.injEq] at hm hm'
      subst hm; subst hm'; exact ⟨rfl, fun _ _ => by simp⟩
    · simp only [decayCfg, List.getElem?_cons_succ, List.getElem?_cons_zero, Option.some.injEq] at hm hm'
      subst hm; subst hm'; exact ⟨rfl, fun _ _ => by simp⟩
    · simp [decayCfg] at hm

/-- the original problem stops after 10 iterations with 3 snapshots … -/
example : ((decayCfg 1 (1/10) 1 [1/4, 1/2, 1]).run 20 () 0 1).1.nit = 10
    ∧ ((decayCfg 1 (1/10) 1 [1/4, 1/2, 1]).run 20 () 0 1).1.results.length = 3
    ∧ ((decayCfg 1 (1/10) 1 [1/4, 1/2, 1]).run 20 () 0 1).2 = true := by decide +kernel

/-- … hence so does the problem in the new units, from the rescaled initial value -/
example : ((decayCfg (1/3) (3/10) 3 [3/4, 3/2, 3]).run 20 () (3 * 0) (2 * 1)).1.nit = 10
    ∧ ((decayCfg (1/3) (3/10) 3 [3/4, 3/2, 3]).run 20 () (3 * 0) (2 * 1)).1.results.length = 3 := by
  obtain ⟨-, h2, -⟩ := run_equivariant_final decay_hom 20 () 0 1
  obtain ⟨-, h3, -⟩ := run_equivariant_results decay_hom 20 () 0 1
  exact ⟨h2.trans (by decide +kernel), h3.trans (by decide +kernel)⟩

/-! ### non-vacuity of the guarded form: two problems that agree on `q ≥ 0` only -/
/-- forward Euler for `q' = -|q|` -/
def absCfg (δ tot : ℚ) (saves : List ℚ) : DrvCfg Unit ℚ ℚ ℚ :=
  { decayCfg 1 δ tot saves with step := fun s d t q => (s, t + d, q - d * |q|) }

/-- for `q ≥ 0` and steps `d ≤ 1` (which keep `q ≥ 0`) the `|q|` problem is the decay problem; not so for `q < 0`:
invariant `0 ≤ q`, guard `0 ≤ q ∧ d ≤ 1` -/
theorem abs_hom_on :
    CfgHomOn (fun _ _ q => (0 : ℚ) ≤ q) (fun _ d _ q => (0 : ℚ) ≤ q ∧ d ≤ 1)
      (decayCfg 1 (1/10) 1 [1/4, 1/2, 1]) (absCfg (1/10) 1 [1/4, 1/2, 1]) id id id id (fun _ => id) where
  time := timeMap_id
  step := fun s d t q hG => by simp [decayCfg, absCfg, abs_of_nonneg hG.1]
  keep := fun _ _ => rfl
  calcDt := fun _ _ _ _ => rfl
  minDt := fun _ => rfl
  scalar := fun _ => rfl
  dtlocal := rfl
  tottime := by simp [decayCfg, absCfg]
  maxit := rfl
  tsave := by simp [decayCfg, absCfg]
  itstart := rfl
  monitors_length := rfl
  monitors := fun i m m' hm hm' => by
    have : m' = m := by
      have e : (absCfg (1/10) 1 [1/4, 1/2, 1]).monitors = (decayCfg 1 (1/10) 1 [1/4, 1/2, 1]).monitors := rfl
      rw [e, hm] at hm'; exact (Option.some.inj hm').symm
    subst this
    exact ⟨rfl, fun _ _ _ _ => rfl⟩
  full_guard := fun s t q hI => ⟨hI, by simp only [fullDt, decayCfg, id]; norm_num⟩
  full_inv := fun s t q hI => by
    simp only [fullDt, decayCfg, id]
    norm_num
    nlinarith
  side_guard := fun s t q ts hI _ h2 => ⟨hI, by
    simp only [decayCfg, id] at h2 ⊢
    linarith⟩
  side_inv := fun s t q ts hI _ _ => hI

/-- the two solves coincide from every `q0 ≥ 0` -/
example (fuel : ℕ) (q0 : ℚ) (h0 : 0 ≤ q0) :
    (absCfg (1/10) 1 [1/4, 1/2, 1]).run fuel () 0 q0
      = (DrvState.map id id id (fun _ => id) ((decayCfg 1 (1/10) 1 [1/4, 1/2, 1]).run fuel () 0 q0).1,
         ((decayCfg 1 (1/10) 1 [1/4, 1/2, 1]).run fuel () 0 q0).2) :=
  run_equivariant_on abs_hom_on fuel () 0 q0 h0

end Flowdyn.C07
