/-
C17 — state conversions round-trip and named variables obey ideal-gas identities.

Conversions and rational variables: over any field (guards: ρ ≠ 0, γ ≠ 1 — where the code divides).
Variables with roots / powers / logs: over ℝ on admissible states (ρ > 0, p > 0, γ > 1).
Each named variable of the code is a function of the *conservative* data; the theorems evaluate it on
`prim2cons` of a primitive state `(ρ, u, p)` and show it equals its textbook definition in `(ρ, u, p)`.
-/
import Flowdyn.Model.Kernels.ShallowWater
import Flowdyn.Model.Kernels.Euler
import Flowdyn.Model.Kernels.Euler2D
import Flowdyn.Lemmas.RealInst
import Mathlib.Tactic.Ring
import Mathlib.Tactic.Linarith
import Mathlib.Tactic.FieldSimp
import Mathlib.Tactic.Positivity
import Mathlib.Tactic.NormNum

namespace Flowdyn.C17
open Flowdyn

section rational
variable {α : Type} [Field α] [LinearOrder α] [IsStrictOrderedRing α]

/-! ### round trips -/
theorem sw_cons2prim_prim2cons (h u : α) (hh : h ≠ 0) :
    swCons2prim (swPrim2cons h u).1 (swPrim2cons h u).2 = (h, u) := by
  simp only [swCons2prim, swPrim2cons]
  refine Prod.ext rfl ?_
  simp only
  field_simp
theorem sw_prim2cons_cons2prim (h q : α) (hh : h ≠ 0) :
    swPrim2cons (swCons2prim h q).1 (swCons2prim h q).2 = (h, q) := by
  simp only [swCons2prim, swPrim2cons]
  refine Prod.ext rfl ?_
  simp only
  field_simp
theorem e_cons2prim_prim2cons (γ r u p : α) (hr : r ≠ 0) (hγ : γ - 1 ≠ 0) :
    (let Q := ePrim2cons γ r u p; eCons2prim γ Q.1 Q.2.1 Q.2.2) = (r, u, p) := by
  simp only [ePrim2cons, eCons2prim, ePressure, eKinetic]
  refine Prod.ext rfl (Prod.ext ?_ ?_) <;> simp only <;> field_simp <;> ring
theorem e_prim2cons_cons2prim (γ r m E : α) (hr : r ≠ 0) (hγ : γ - 1 ≠ 0) :
    (let W := eCons2prim γ r m E; ePrim2cons γ W.1 W.2.1 W.2.2) = (r, m, E) := by
  simp only [ePrim2cons, eCons2prim, ePressure, eKinetic]
  refine Prod.ext rfl (Prod.ext ?_ ?_) <;> simp only <;> field_simp <;> ring
theorem e2_cons2prim_prim2cons (γ r ux uy p : α) (hr : r ≠ 0) (hγ : γ - 1 ≠ 0) :
    (let Q := e2Prim2cons γ r ux uy p; e2Cons2prim γ Q.1 Q.2.1 Q.2.2.1 Q.2.2.2) = (r, ux, uy, p) := by
  simp only [e2Prim2cons, e2Cons2prim, e2Pressure, e2Kinetic]
  refine Prod.ext rfl (Prod.ext ?_ (Prod.ext ?_ ?_)) <;> simp only <;> field_simp <;> ring
theorem e2_prim2cons_cons2prim (γ r mx my E : α) (hr : r ≠ 0) (hγ : γ - 1 ≠ 0) :
    (let W := e2Cons2prim γ r mx my E; e2Prim2cons γ W.1 W.2.1 W.2.2.1 W.2.2.2) = (r, mx, my, E) := by
  simp only [e2Prim2cons, e2Cons2prim, e2Pressure, e2Kinetic]
  refine Prod.ext rfl (Prod.ext ?_ (Prod.ext ?_ ?_)) <;> simp only <;> field_simp <;> ring

/-! ### rational named variables of euler1d on `prim2cons (ρ,u,p)` -/
theorem e_pressure (γ r u p : α) (hr : r ≠ 0) (hγ : γ - 1 ≠ 0) :
    (let Q := ePrim2cons γ r u p; ePressure γ Q.1 Q.2.1 Q.2.2) = p := by
  simp only [ePrim2cons, ePressure, eKinetic]
  field_simp
  ring
theorem e_velocity (γ r u p : α) (hr : r ≠ 0) :
    (let Q := ePrim2cons γ r u p; eVelocity Q.1 Q.2.1) = u := by
  simp only [ePrim2cons, eVelocity]
  field_simp
theorem e_velocitymag (γ r u p : α) (hr : 0 < r) :
    (let Q := ePrim2cons γ r u p; eVelocityMag Q.1 Q.2.1) = |u| := by
  simp only [ePrim2cons, eVelocityMag]
  rw [abs_mul, abs_of_pos hr]
  field_simp
theorem e_kinetic (γ r u p : α) (hr : r ≠ 0) :
    (let Q := ePrim2cons γ r u p; eKinetic Q.1 Q.2.1) = 1/2 * r * u ^ 2 := by
  simp only [ePrim2cons, eKinetic]
  field_simp
theorem e_massflow (γ r u p : α) :
    (let Q := ePrim2cons γ r u p; eMassflow Q.1 Q.2.1 Q.2.2) = r * u := by
  simp only [ePrim2cons, eMassflow]
/-- enthalpy = γ/(γ-1) p/ρ -/
theorem e_enthalpy (γ r u p : α) (hr : r ≠ 0) (hγ : γ - 1 ≠ 0) :
    (let Q := ePrim2cons γ r u p; eEnthalpy γ Q.1 Q.2.1 Q.2.2) = γ / (γ - 1) * p / r := by
  simp only [ePrim2cons, eEnthalpy]
  field_simp
  ring
/-- htot = enthalpy + u²/2 -/
theorem e_htot (γ r u p : α) (hr : r ≠ 0) (hγ : γ - 1 ≠ 0) :
    (let Q := ePrim2cons γ r u p; eHtot γ Q.1 Q.2.1 Q.2.2) = γ / (γ - 1) * p / r + u ^ 2 / 2 := by
  simp only [ePrim2cons, eHtot, eKinetic]
  field_simp
  ring
/-- rttot = (γ-1)/γ htot -/
theorem e_rttot (γ r u p : α) (hr : r ≠ 0) (hγ : γ - 1 ≠ 0) (hg0 : γ ≠ 0) :
    (let Q := ePrim2cons γ r u p; eRttot γ Q.1 Q.2.1 Q.2.2)
      = (γ - 1) / γ * (γ / (γ - 1) * p / r + u ^ 2 / 2) := by
  simp only [ePrim2cons, eRttot, eKinetic]
  field_simp
  ring

/-! ### rational named variables of euler2d -/
theorem e2_pressure (γ r ux uy p : α) (hr : r ≠ 0) (hγ : γ - 1 ≠ 0) :
    (let Q := e2Prim2cons γ r ux uy p; e2Pressure γ Q.1 Q.2.1 Q.2.2.1 Q.2.2.2) = p := by
  simp only [e2Prim2cons, e2Pressure, e2Kinetic]
  field_simp
  ring
theorem e2_velocity (γ r ux uy p : α) (hr : r ≠ 0) :
    (let Q := e2Prim2cons γ r ux uy p; (e2VelocityX Q.1 Q.2.1, e2VelocityY Q.1 Q.2.2.1)) = (ux, uy) := by
  simp only [e2Prim2cons, e2VelocityX, e2VelocityY]
  refine Prod.ext ?_ ?_ <;> simp only <;> field_simp
theorem e2_kinetic (γ r ux uy p : α) (hr : r ≠ 0) :
    (let Q := e2Prim2cons γ r ux uy p; e2Kinetic Q.1 Q.2.1 Q.2.2.1) = 1/2 * r * (ux ^ 2 + uy ^ 2) := by
  simp only [e2Prim2cons, e2Kinetic]
  field_simp
theorem e2_enthalpy (γ r ux uy p : α) (hr : r ≠ 0) (hγ : γ - 1 ≠ 0) :
    (let Q := e2Prim2cons γ r ux uy p; e2Enthalpy γ Q.1 Q.2.1 Q.2.2.1 Q.2.2.2) = γ / (γ - 1) * p / r := by
  simp only [e2Prim2cons, e2Enthalpy, e2Kinetic]
  field_simp
  ring
theorem e2_htot (γ r ux uy p : α) (hr : r ≠ 0) (hγ : γ - 1 ≠ 0) :
    (let Q := e2Prim2cons γ r ux uy p; e2Htot γ Q.1 Q.2.1 Q.2.2.1 Q.2.2.2)
      = γ / (γ - 1) * p / r + (ux ^ 2 + uy ^ 2) / 2 := by
  simp only [e2Prim2cons, e2Htot, e2Kinetic]
  field_simp
  ring
theorem e2_rttot (γ r ux uy p : α) (hr : r ≠ 0) (hγ : γ - 1 ≠ 0) (hg0 : γ ≠ 0) :
    (let Q := e2Prim2cons γ r ux uy p; e2Rttot γ Q.1 Q.2.1 Q.2.2.1 Q.2.2.2)
      = (γ - 1) / γ * (γ / (γ - 1) * p / r + (ux ^ 2 + uy ^ 2) / 2) := by
  simp only [e2Prim2cons, e2Rttot, e2Kinetic]
  field_simp
  ring
theorem sw_velocity (h u : α) (hh : h ≠ 0) :
    swVelocity (swPrim2cons h u).1 (swPrim2cons h u).2 = u := by
  simp only [swPrim2cons, swVelocity]
  field_simp
end rational

/-! ### variables with roots, powers, logarithms (ℝ, admissible states) -/

/-- the radicand of the 1D mach denominator on `prim2cons` -/
private theorem mach_den (γ r u p : ℝ) (hγ : 1 < γ) (hr : 0 < r) (hp : 0 < p) :
    Real.sqrt (γ * ((γ - 1) * (r * (p / (γ - 1) + 1/2 * r * u ^ 2) - 1/2 * (r * u) ^ 2)))
      = r * Real.sqrt (γ * p / r) := by
  have hg : γ - 1 ≠ 0 := by linarith
  have hr0 : r ≠ 0 := hr.ne'
  have h : γ * ((γ - 1) * (r * (p / (γ - 1) + 1/2 * r * u ^ 2) - 1/2 * (r * u) ^ 2))
      = r ^ 2 * (γ * p / r) := by
    field_simp
    ring
  rw [h, Real.sqrt_mul (sq_nonneg r), Real.sqrt_sq hr.le]

private theorem c_pos (γ r p : ℝ) (hγ : 1 < γ) (hr : 0 < r) (hp : 0 < p) :
    0 < Real.sqrt (γ * p / r) := by
  have : 0 < γ := by linarith
  exact Real.sqrt_pos.mpr (by positivity)

private theorem rhoU2 (r ux uy : ℝ) (hr : 0 < r) :
    Real.sqrt ((r * ux) ^ 2 + (r * uy) ^ 2) = r * Real.sqrt (ux ^ 2 + uy ^ 2) := by
  rw [show (r * ux) ^ 2 + (r * uy) ^ 2 = r ^ 2 * (ux ^ 2 + uy ^ 2) by ring,
    Real.sqrt_mul (sq_nonneg r), Real.sqrt_sq hr.le]

/-- asound² = γ p / ρ -/
theorem e_asound_sq (γ r u p : ℝ) (hγ : 1 < γ) (hr : 0 < r) (hp : 0 < p) :
    (let Q := ePrim2cons γ r u p; (eAsound γ Q.1 Q.2.1 Q.2.2) ^ 2) = γ * p / r := by
  have hg : 0 < γ := by linarith
  have h := e_pressure γ r u p hr.ne' (by linarith : γ - 1 ≠ 0)
  simp only at h ⊢
  simp only [eAsound, HasSqrt.sqrt_real]
  rw [h]
  simp only [ePrim2cons]
  rw [Real.sq_sqrt (by positivity)]
/-- the 1D `mach` of the code is the *signed* ratio velocity / asound … -/
theorem e_mach_signed (γ r u p : ℝ) (hγ : 1 < γ) (hr : 0 < r) (hp : 0 < p) :
    (let Q := ePrim2cons γ r u p; eMach γ Q.1 Q.2.1 Q.2.2) = u / Real.sqrt (γ * p / r) := by
  simp only [ePrim2cons, eMach, HasSqrt.sqrt_real]
  rw [mach_den γ r u p hγ hr hp]
  have hc := c_pos γ r p hγ hr hp
  field_simp
/-- … hence equals |velocity| / asound exactly when `u ≥ 0` (for `u < 0` the code returns the
negative of the property's definition: known finding K2) -/
theorem e_mach_partial (γ r u p : ℝ) (hγ : 1 < γ) (hr : 0 < r) (hp : 0 < p) (hu : 0 ≤ u) :
    (let Q := ePrim2cons γ r u p; eMach γ Q.1 Q.2.1 Q.2.2) = |u| / Real.sqrt (γ * p / r) := by
  have h := e_mach_signed γ r u p hγ hr hp
  simp only at h ⊢
  rw [h, abs_of_nonneg hu]
theorem e_mach_abs (γ r u p : ℝ) (hγ : 1 < γ) (hr : 0 < r) (hp : 0 < p) :
    (let Q := ePrim2cons γ r u p; |eMach γ Q.1 Q.2.1 Q.2.2|) = |u| / Real.sqrt (γ * p / r) := by
  have h := e_mach_signed γ r u p hγ hr hp
  have hc := c_pos γ r p hγ hr hp
  simp only at h ⊢
  rw [h, abs_div, abs_of_pos hc]
/-- ptot = p (1 + (γ-1)/2 M²)^(γ/(γ-1)) with M² = u² / (γ p/ρ) -/
theorem e_ptot (γ r u p : ℝ) (hγ : 1 < γ) (hr : 0 < r) (hp : 0 < p) :
    (let Q := ePrim2cons γ r u p; ePtot γ Q.1 Q.2.1 Q.2.2)
      = p * (1 + (γ - 1) / 2 * (u ^ 2 / (γ * p / r))) ^ (γ / (γ - 1)) := by
  have h := e_mach_signed γ r u p hγ hr hp
  have hP := e_pressure γ r u p hr.ne' (by linarith : γ - 1 ≠ 0)
  have hg : 0 < γ := by linarith
  simp only at h hP ⊢
  simp only [ePtot, HasRpow.rpow_real]
  rw [h, hP, div_pow, Real.sq_sqrt (by positivity)]
  congr 2
  ring
/-- entropy = ln(p/ρ^γ)/(γ-1) -/
theorem e_entropy (γ r u p : ℝ) (hγ : 1 < γ) (hr : 0 < r) (hp : 0 < p) :
    (let Q := ePrim2cons γ r u p; eEntropy γ Q.1 Q.2.1 Q.2.2) = Real.log (p / r ^ γ) / (γ - 1) := by
  have hP := e_pressure γ r u p hr.ne' (by linarith : γ - 1 ≠ 0)
  simp only at hP ⊢
  simp only [eEntropy, HasRpow.rpow_real, HasLog.log_real]
  rw [hP]
  simp only [ePrim2cons]

/-- 2D: mach = |V| / asound (non-negative) -/
theorem e2_mach (γ r ux uy p : ℝ) (hγ : 1 < γ) (hr : 0 < r) (hp : 0 < p) :
    (let Q := e2Prim2cons γ r ux uy p; e2Mach γ Q.1 Q.2.1 Q.2.2.1 Q.2.2.2)
      = Real.sqrt (ux ^ 2 + uy ^ 2) / Real.sqrt (γ * p / r) := by
  simp only [e2Prim2cons, e2Mach, HasSqrt.sqrt_real]
  rw [Real.sq_sqrt (by positivity), rhoU2 r ux uy hr]
  have hg : γ - 1 ≠ 0 := by linarith
  have hr0 : r ≠ 0 := hr.ne'
  have hc := c_pos γ r p hγ hr hp
  have h : γ * ((γ - 1) * (r * (p / (γ - 1) + 1/2 * r * (ux ^ 2 + uy ^ 2))
      - 1/2 * ((r * ux) ^ 2 + (r * uy) ^ 2))) = r ^ 2 * (γ * p / r) := by
    field_simp
    ring
  rw [h, Real.sqrt_mul (sq_nonneg r), Real.sqrt_sq hr.le]
  field_simp
theorem e2_asound_sq (γ r ux uy p : ℝ) (hγ : 1 < γ) (hr : 0 < r) (hp : 0 < p) :
    (let Q := e2Prim2cons γ r ux uy p; (e2Asound γ Q.1 Q.2.1 Q.2.2.1 Q.2.2.2) ^ 2) = γ * p / r := by
  have hg : 0 < γ := by linarith
  have h := e2_pressure γ r ux uy p hr.ne' (by linarith : γ - 1 ≠ 0)
  simp only at h ⊢
  simp only [e2Asound, HasSqrt.sqrt_real]
  rw [h]
  simp only [e2Prim2cons]
  rw [Real.sq_sqrt (by positivity)]
theorem e2_velocitymag (γ r ux uy p : ℝ) (hr : 0 < r) :
    (let Q := e2Prim2cons γ r ux uy p; e2VelocityMag Q.1 Q.2.1 Q.2.2.1) = Real.sqrt (ux ^ 2 + uy ^ 2) := by
  simp only [e2Prim2cons, e2VelocityMag, HasSqrt.sqrt_real]
  rw [rhoU2 r ux uy hr]
  field_simp
theorem e2_ptot (γ r ux uy p : ℝ) (hγ : 1 < γ) (hr : 0 < r) (hp : 0 < p) :
    (let Q := e2Prim2cons γ r ux uy p; e2Ptot γ Q.1 Q.2.1 Q.2.2.1 Q.2.2.2)
      = p * (1 + (γ - 1) / 2 * ((ux ^ 2 + uy ^ 2) / (γ * p / r))) ^ (γ / (γ - 1)) := by
  have h := e2_mach γ r ux uy p hγ hr hp
  have hP := e2_pressure γ r ux uy p hr.ne' (by linarith : γ - 1 ≠ 0)
  have hg : 0 < γ := by linarith
  simp only at h hP ⊢
  simp only [e2Ptot, HasRpow.rpow_real]
  rw [h, hP, div_pow, Real.sq_sqrt (by positivity), Real.sq_sqrt (by positivity)]
  congr 2
  ring
theorem e2_entropy (γ r ux uy p : ℝ) (hγ : 1 < γ) (hr : 0 < r) (hp : 0 < p) :
    (let Q := e2Prim2cons γ r ux uy p; e2Entropy γ Q.1 Q.2.1 Q.2.2.1 Q.2.2.2)
      = Real.log (p / r ^ γ) / (γ - 1) := by
  have hP := e2_pressure γ r ux uy p hr.ne' (by linarith : γ - 1 ≠ 0)
  simp only at hP ⊢
  simp only [e2Entropy, HasRpow.rpow_real, HasLog.log_real]
  rw [hP]
  simp only [e2Prim2cons]

/-! ### the negation on the unrepaired point (known finding K2): 1D mach is negative for u < 0 -/
theorem e_mach_negative_witness :
    (let Q := ePrim2cons (7/5 : ℝ) 1 (-1) 1; eMach (7/5) Q.1 Q.2.1 Q.2.2) < 0 := by
  have h := e_mach_signed (7/5) 1 (-1) 1 (by norm_num) (by norm_num) (by norm_num)
  have hc := c_pos (7/5) 1 1 (by norm_num) (by norm_num) (by norm_num)
  simp only at h ⊢
  rw [h]
  exact div_neg_of_neg_of_pos (by norm_num) hc

end Flowdyn.C17
