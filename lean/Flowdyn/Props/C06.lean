/-
C06 — implicit integrators solve the linearised θ / BDF2 system exactly.

`solve` is any function returning a solution of the linear system actually formed (hypothesis
`hsolve`, the trusted `np.linalg.solve`).  On a linear (affine) problem `R q = M q + b` the
finite-difference Jacobian *is* `M` for every non-zero perturbation, hence:
  implicit        (I - dt M) Q' = Q + dt b
  cranknicolson   (I - dt/2 M) Q' = (I + dt/2 M) Q + dt b
  gear            first step = Crank–Nicolson step of size dt (time advances by dt), then BDF2.
-/
import Flowdyn.Model.Implicit
import Mathlib.Data.Matrix.Mul
import Mathlib.Data.Complex.Basic
import Mathlib.Analysis.Complex.Norm
import Mathlib.Tactic.Ring
import Mathlib.Tactic.Linarith
import Mathlib.Tactic.FieldSimp
import Mathlib.Tactic.LinearCombination

namespace Flowdyn.C06
open Flowdyn Matrix
variable {α : Type} [Field α] {N : ℕ}

/-- row-wise expansion of the system matrix applied to a vector -/
theorem sysMat_mulVec (θ ξ : α) (J : Mat α N) (dtv x : Vec α N) (i : Fin N) :
    (sysMat θ ξ J dtv).mulVec x i = (1 + ξ) * (1 / dtv i) * x i - θ * (J.mulVec x) i := by
  simp only [sysMat, Matrix.mulVec, dotProduct, sub_mul, Finset.sum_sub_distrib, ite_mul, zero_mul,
    Finset.sum_ite_eq, Finset.mem_univ, if_true, Finset.mul_sum, mul_assoc]

/-- data of a θ-step with a scalar time step: `q + x` -/
theorem thetaStep_data (solve : Mat α N → Vec α N → Vec α N) (θ ξ : α) (J : Mat α N)
    (R : Vec α N → Vec α N) (dt dtm t : α) (hdt : dt ≠ 0) (last q : Vec α N) :
    (thetaStep solve θ ξ J R (fun _ => dt) dtm last t q).data
      = q + solve (sysMat θ ξ J (fun _ => dt)) (fun i => R q i + ξ * last i) := by
  funext i
  simp only [thetaStep, Pi.add_apply]
  field_simp

/-- the rows of the solved system, scalar time step -/
theorem thetaStep_rows (solve : Mat α N → Vec α N → Vec α N) (θ ξ : α) (J : Mat α N)
    (dt : α) (rhs : Vec α N)
    (hsolve : (sysMat θ ξ J (fun _ => dt)).mulVec (solve (sysMat θ ξ J (fun _ => dt)) rhs) = rhs)
    (i : Fin N) :
    (1 + ξ) * (1 / dt) * solve (sysMat θ ξ J (fun _ => dt)) rhs i
      - θ * (J.mulVec (solve (sysMat θ ξ J (fun _ => dt)) rhs)) i = rhs i := by
  have h := congrFun hsolve i
  rw [sysMat_mulVec] at h
  exact h

/-- the finite-difference Jacobian of an affine map is its matrix, for any non-zero perturbations -/
theorem fdJac_affine (M : Mat α N) (b q eps : Vec α N) (heps : ∀ j, eps j ≠ 0) :
    fdJac (fun v => M.mulVec v + b) q eps = M := by
  funext i j
  have hv : (fun l => if l = j then q l + eps j else q l) = q + Pi.single j (eps j) := by
    funext l
    by_cases h : l = j
    · subst h; simp
    · simp [h]
  unfold fdJac
  rw [hv]
  simp only [Matrix.mulVec_add, Matrix.mulVec_single, Pi.add_apply, Pi.smul_apply, Matrix.col_apply,
    MulOpposite.smul_eq_mul_unop, MulOpposite.unop_op]
  have := heps j
  field_simp
  ring

/-- every step advances the time by `min(dt)` (once) -/
theorem implicit_time (solve : Mat α N → Vec α N → Vec α N) (R : Vec α N → Vec α N) (eps dtv : Vec α N) (dtm t : α)
    (q : Vec α N) : (implicitStep solve R eps dtv dtm t q).time = t + dtm := by
  simp [implicitStep, thetaStep]
theorem trapezoidal_time (solve : Mat α N → Vec α N → Vec α N) (R : Vec α N → Vec α N) (eps dtv : Vec α N) (dtm t : α)
    (q : Vec α N) : (trapezoidalStep solve R eps dtv dtm t q).time = t + dtm := by
  simp [trapezoidalStep, thetaStep]
theorem gear_time (solve : Mat α N → Vec α N → Vec α N) (R : Vec α N → Vec α N) (eps dtv : Vec α N) (dtm t : α)
    (last : Option (Vec α N)) (q : Vec α N) : (gearStep solve R eps dtv dtm t last q).time = t + dtm := by
  cases last <;> simp [gearStep, trapezoidalStep, thetaStep]

/-- backward Euler on an affine problem, scalar step `dt ≠ 0` -/
theorem implicit_affine (solve : Mat α N → Vec α N → Vec α N) (M : Mat α N) (b q eps : Vec α N)
    (heps : ∀ j, eps j ≠ 0) (dt t : α) (hdt : dt ≠ 0)
    (hsolve : ∀ rhs : Vec α N, (sysMat 1 0 M (fun _ => dt)).mulVec (solve (sysMat 1 0 M (fun _ => dt)) rhs) = rhs) :
    (let Q' := (implicitStep solve (fun v => M.mulVec v + b) eps (fun _ => dt) dt t q).data
     Q' - dt • M.mulVec Q' = q + dt • b) := by
  intro Q'
  have hQ : Q' = q + solve (sysMat 1 0 M (fun _ => dt))
      (fun i => (M.mulVec q + b) i + 0 * (0 : α)) := by
    simp only [Q', implicitStep, fdJac_affine M b q eps heps]
    exact thetaStep_data solve 1 0 M _ dt dt t hdt _ q
  rw [hQ]
  set rhs : Vec α N := fun i => (M.mulVec q + b) i + 0 * (0 : α) with hrhs
  set x := solve (sysMat 1 0 M (fun _ => dt)) rhs with hx
  funext i
  have h := thetaStep_rows solve 1 0 M dt rhs (hsolve rhs) i
  rw [← hx] at h
  simp only [hrhs, Pi.add_apply] at h
  simp only [Matrix.mulVec_add, Pi.add_apply, Pi.sub_apply, Pi.smul_apply, smul_eq_mul]
  field_simp at h
  linear_combination h

/-- Crank–Nicolson on an affine problem -/
theorem trapezoidal_affine (solve : Mat α N → Vec α N → Vec α N) (M : Mat α N) (b q eps : Vec α N)
    (heps : ∀ j, eps j ≠ 0) (dt t : α) (hdt : dt ≠ 0) (h2 : (2 : α) ≠ 0)
    (hsolve : ∀ rhs : Vec α N, (sysMat (1/2) 0 M (fun _ => dt)).mulVec (solve (sysMat (1/2) 0 M (fun _ => dt)) rhs) = rhs) :
    (let Q' := (trapezoidalStep solve (fun v => M.mulVec v + b) eps (fun _ => dt) dt t q).data
     Q' - (dt / 2) • M.mulVec Q' = q + (dt / 2) • M.mulVec q + dt • b) := by
  intro Q'
  have hQ : Q' = q + solve (sysMat (1/2) 0 M (fun _ => dt))
      (fun i => (M.mulVec q + b) i + 0 * (0 : α)) := by
    simp only [Q', trapezoidalStep, fdJac_affine M b q eps heps]
    exact thetaStep_data solve (1/2) 0 M _ dt dt t hdt _ q
  rw [hQ]
  set rhs : Vec α N := fun i => (M.mulVec q + b) i + 0 * (0 : α) with hrhs
  set x := solve (sysMat (1/2) 0 M (fun _ => dt)) rhs with hx
  funext i
  have h := thetaStep_rows solve (1/2) 0 M dt rhs (hsolve rhs) i
  rw [← hx] at h
  simp only [hrhs, Pi.add_apply, add_zero, mul_zero] at h
  simp only [Matrix.mulVec_add, Pi.add_apply, Pi.sub_apply, Pi.smul_apply, smul_eq_mul]
  field_simp at h ⊢
  linear_combination h

/-- `gear` without memory is exactly one Crank–Nicolson step of size `dt` -/
theorem gear_first_is_trapezoidal (solve : Mat α N → Vec α N → Vec α N) (R : Vec α N → Vec α N) (eps dtv : Vec α N)
    (dtm t : α) (q : Vec α N) :
    gearStep solve R eps dtv dtm t none q = trapezoidalStep solve R eps dtv dtm t q := rfl

set_option linter.unusedVariables false in
/-- the memorised quantity is the increment divided by `dt` -/
theorem incr_is_increment (solve : Mat α N → Vec α N → Vec α N) (θ ξ : α) (J : Mat α N) (R : Vec α N → Vec α N)
    (dt t : α) (hdt : dt ≠ 0) (last q : Vec α N) :
    (let o := thetaStep solve θ ξ J R (fun _ => dt) dt last t q
     o.data = q + dt • o.incr) := by
  intro o
  funext i
  simp [o, thetaStep]

/-- BDF2 recurrence: with memory `last = (Q¹ - Q⁰)/dt` the next state satisfies
`(3 Q² - 4 Q¹ + Q⁰) / (2 dt) = M Q² + b` -/
theorem gear_bdf2 (solve : Mat α N → Vec α N → Vec α N) (M : Mat α N) (b q0 q1 eps : Vec α N)
    (heps : ∀ j, eps j ≠ 0) (dt t : α) (hdt : dt ≠ 0) (h2 : (2 : α) ≠ 0)
    (hsolve : ∀ rhs : Vec α N, (sysMat 1 (1/2) M (fun _ => dt)).mulVec (solve (sysMat 1 (1/2) M (fun _ => dt)) rhs) = rhs) :
    (let last : Vec α N := fun i => (q1 i - q0 i) / dt
     let Q2 := (gearStep solve (fun v => M.mulVec v + b) eps (fun _ => dt) dt t (some last) q1).data
     (3 : α) • Q2 - (4 : α) • q1 + q0 = (2 * dt) • (M.mulVec Q2 + b)) := by
  intro last Q2
  have hQ : Q2 = q1 + solve (sysMat 1 (1/2) M (fun _ => dt))
      (fun i => (M.mulVec q1 + b) i + (1/2) * last i) := by
    simp only [Q2, gearStep, fdJac_affine M b q1 eps heps]
    exact thetaStep_data solve 1 (1/2) M _ dt dt t hdt _ q1
  rw [hQ]
  set rhs : Vec α N := fun i => (M.mulVec q1 + b) i + (1/2) * last i with hrhs
  set x := solve (sysMat 1 (1/2) M (fun _ => dt)) rhs with hx
  funext i
  have h := thetaStep_rows solve 1 (1/2) M dt rhs (hsolve rhs) i
  rw [← hx] at h
  simp only [hrhs, last, Pi.add_apply] at h
  simp only [Matrix.mulVec_add, Pi.add_apply, Pi.sub_apply, Pi.smul_apply, smul_eq_mul]
  field_simp at h
  linear_combination h

/-! ### conservation and fixed points (used by C01, C03) -/

/-- a linear functional annihilating the operator annihilates every column of the FD Jacobian -/
theorem fdJac_conservative (w : Vec α N) (R : Vec α N → Vec α N) (hR : ∀ v, ∑ i, w i * R v i = 0)
    (q eps : Vec α N) (j : Fin N) : ∑ i, w i * fdJac R q eps i j = 0 := by
  unfold fdJac
  simp only [div_eq_mul_inv, ← mul_assoc, ← Finset.sum_mul, mul_sub, Finset.sum_sub_distrib, hR,
    sub_zero, zero_mul]

/-- with one global time step the increment of a θ-step (no memory term) conserves the functional -/
theorem thetaStep_conserves (solve : Mat α N → Vec α N → Vec α N) (θ : α) (w : Vec α N)
    (R : Vec α N → Vec α N) (hR : ∀ v, ∑ i, w i * R v i = 0) (q eps : Vec α N) (dt t : α) (hdt : dt ≠ 0)
    (hsolve : ∀ rhs : Vec α N, (sysMat θ 0 (fdJac R q eps) (fun _ => dt)).mulVec
                (solve (sysMat θ 0 (fdJac R q eps) (fun _ => dt)) rhs) = rhs) :
    (let o := thetaStep solve θ 0 (fdJac R q eps) R (fun _ => dt) dt (fun _ => 0) t q
     ∑ i, w i * o.data i = ∑ i, w i * q i) := by
  intro o
  have hQ : o.data = q + solve (sysMat θ 0 (fdJac R q eps) (fun _ => dt))
      (fun i => R q i + 0 * (0 : α)) :=
    thetaStep_data solve θ 0 (fdJac R q eps) R dt dt t hdt _ q
  rw [hQ]
  set rhs : Vec α N := fun i => R q i + 0 * (0 : α) with hrhs
  set x := solve (sysMat θ 0 (fdJac R q eps) (fun _ => dt)) rhs with hx
  have hrows : ∀ i, (1 / dt) * x i - θ * ((fdJac R q eps).mulVec x) i = R q i := by
    intro i
    have h := thetaStep_rows solve θ 0 (fdJac R q eps) dt rhs (hsolve rhs) i
    rw [← hx] at h
    simpa [hrhs] using h
  -- weighted sum of the Jacobian term vanishes
  have hJ : ∑ i, w i * ((fdJac R q eps).mulVec x) i = 0 := by
    simp only [Matrix.mulVec, dotProduct, Finset.mul_sum]
    rw [Finset.sum_comm]
    have : ∀ j, ∑ i, w i * (fdJac R q eps i j * x j) = (∑ i, w i * fdJac R q eps i j) * x j := by
      intro j
      rw [Finset.sum_mul]
      exact Finset.sum_congr rfl (fun i _ => (mul_assoc _ _ _).symm)
    simp only [this, fdJac_conservative w R hR q eps, zero_mul, Finset.sum_const_zero]
  have hsum : ∑ i, w i * ((1 / dt) * x i - θ * ((fdJac R q eps).mulVec x) i) = 0 := by
    simp only [hrows]; exact hR q
  have hwx : ∑ i, w i * x i = 0 := by
    have h1 : ∑ i, w i * ((1 / dt) * x i - θ * ((fdJac R q eps).mulVec x) i)
        = (1 / dt) * ∑ i, w i * x i - θ * ∑ i, w i * ((fdJac R q eps).mulVec x) i := by
      rw [Finset.mul_sum, Finset.mul_sum, ← Finset.sum_sub_distrib]
      exact Finset.sum_congr rfl (fun i _ => by ring)
    rw [h1, hJ, mul_zero, sub_zero] at hsum
    have hne : (1 / dt) ≠ 0 := one_div_ne_zero hdt
    exact (mul_eq_zero.mp hsum).resolve_left hne
  simp only [Pi.add_apply, mul_add, Finset.sum_add_distrib, hwx, add_zero]

set_option linter.unusedVariables false in
/-- a zero of the operator is a fixed point when the system matrix is injective -/
theorem thetaStep_fixed (solve : Mat α N → Vec α N → Vec α N) (θ : α) (J : Mat α N) (R : Vec α N → Vec α N)
    (q dtv : Vec α N) (dtm t : α) (hq : R q = 0) (hdtv : ∀ i, dtv i ≠ 0)
    (hinj : ∀ x : Vec α N, (sysMat θ 0 J dtv).mulVec x = 0 → x = 0)
    (hsolve : ∀ rhs : Vec α N, (sysMat θ 0 J dtv).mulVec (solve (sysMat θ 0 J dtv) rhs) = rhs) :
    (thetaStep solve θ 0 J R dtv dtm (fun _ => 0) t q).data = q := by
  have hrhs : (fun i => R q i + 0 * (0 : α)) = (0 : Vec α N) := by
    funext i; simp [hq]
  have hx : solve (sysMat θ 0 J dtv) (0 : Vec α N) = 0 := hinj _ (hsolve 0)
  funext i
  show q i + dtv i * (solve (sysMat θ 0 J dtv) (fun i => R q i + 0 * (0 : α)) i / dtv i) = q i
  rw [hrhs, hx]
  simp only [Pi.zero_apply, zero_div, mul_zero, add_zero]

/-! ### amplification factors: no growth for Re z ≤ 0, and order identities -/
theorem amp_implicit (z : ℂ) (hz : z.re ≤ 0) : ‖(1 - z)⁻¹‖ ≤ 1 := by
  have h1 : 1 ≤ ‖1 - z‖ := by
    rw [← Complex.one_le_normSq_iff, Complex.normSq_apply]
    simp only [Complex.sub_re, Complex.one_re, Complex.sub_im, Complex.one_im]
    nlinarith [mul_self_nonneg z.im, mul_self_nonneg z.re]
  have h2 : ‖(1 - z)⁻¹‖ = ‖1 - z‖⁻¹ := by
    rw [Complex.norm_def, Complex.normSq_inv, Real.sqrt_inv, ← Complex.norm_def]
  rw [h2]
  exact inv_le_one_of_one_le₀ h1
theorem amp_cranknicolson (z : ℂ) (hz : z.re ≤ 0) : ‖(1 + z / 2) / (1 - z / 2)‖ ≤ 1 := by
  have h1 : ‖1 + z / 2‖ ≤ ‖1 - z / 2‖ := by
    rw [Complex.norm_def, Complex.norm_def]
    apply Real.sqrt_le_sqrt
    rw [Complex.normSq_apply, Complex.normSq_apply]
    simp only [Complex.add_re, Complex.sub_re, Complex.one_re, Complex.add_im, Complex.sub_im,
      Complex.one_im, Complex.div_ofNat_re, Complex.div_ofNat_im]
    nlinarith
  rw [Complex.norm_div]
  exact div_le_one_of_le₀ h1 (norm_nonneg _)
/-- first order: `1/(1-z) - (1+z) = z²/(1-z)` -/
theorem order_implicit (z : ℂ) (hz : 1 - z ≠ 0) : (1 - z)⁻¹ - (1 + z) = z ^ 2 / (1 - z) := by
  field_simp
  ring
/-- second order: `(1+z/2)/(1-z/2) - (1+z+z²/2) = (z³/4)/(1-z/2)` -/
theorem order_cranknicolson (z : ℂ) (hz : 1 - z / 2 ≠ 0) :
    (1 + z / 2) / (1 - z / 2) - (1 + z + z ^ 2 / 2) = (z ^ 3 / 4) / (1 - z / 2) := by
  have e : 1 - z / 2 = (2 - z) / 2 := by ring
  have h' : 2 - z ≠ 0 := by
    intro h
    apply hz
    rw [e, h, zero_div]
  rw [e]
  field_simp
  ring

/-! ### non-vacuity: a 1×1 instance of the solver hypothesis -/
example : ∀ rhs : Vec ℚ 1, (sysMat 1 0 (fun _ _ => (-1 : ℚ)) (fun _ => 1)).mulVec
    ((fun A r => fun i => r i / A i i) (sysMat 1 0 (fun _ _ => (-1 : ℚ)) (fun _ => 1)) rhs) = rhs := by
  intro rhs
  funext i
  have hi : i = 0 := Subsingleton.elim _ _
  subst hi
  simp only [sysMat, Matrix.mulVec, dotProduct, Finset.univ_unique, Finset.sum_singleton]
  norm_num
  ring

end Flowdyn.C06
