/-
C04 — solutions converge to exact solutions at the design order  (PARTIAL by nature).

Convergence is a limit statement about sequences of meshes; what a theorem about the code can carry is:
 (i)   polynomial exactness of the κ reconstruction: exact for constants and linear data (C11), and on the
       cell averages of x² the face value has defect exactly (κ - 1/3) h²/2, so the scheme is third-order
       exactly for κ = 1/3 — the value the generated constant `kappa_extrapol3` carries — and second order
       for every other κ (`Flowdyn.C11.kappa_quadratic_defect`, `named_kappas`);
 (ii)  the temporal order conditions of every explicit integrator (C05) and the order identities of the
       implicit ones (C06);
 (iii) the Lax–Richtmyer step: a scheme that does not expand a seminorm accumulates one-step defects
       additively (below), with non-expansion of first-order upwind at CFL ≤ 1 from C09;
 (iv)  conservation form and consistency (C01, C02): the Lax–Wendroff hypotheses.
NOT proved (no theorem is available even on paper for the nonlinear part): monotone decrease of the L1
error for Euler Riemann problems, and agreement of the packaged `aerokit` reference solutions with an
independent exact solver.  These are explored numerically by the check's sweep only.
-/
import Flowdyn.Props.C11
import Flowdyn.Props.C05
import Mathlib.Algebra.Order.Field.Basic
import Mathlib.Tactic.Ring
import Mathlib.Tactic.Linarith

namespace Flowdyn.C04
open Flowdyn
variable {α : Type} [Field α] [LinearOrder α] [IsStrictOrderedRing α] {V : Type}

/-- **Lax–Richtmyer accumulation**: if the one-step map `S` does not expand the distance `d`
(`d (S x) (S y) ≤ d x y`), `d` satisfies the triangle inequality, and a reference sequence `v`
(e.g. the exact solution sampled on the mesh) has one-step defect `d (v (k+1)) (S (v k)) ≤ τ`, then the
numerical sequence `u (k+1) = S (u k)` stays within `d (u 0) (v 0) + n τ` of it. -/
theorem lax_richtmyer (d : V → V → α) (htri : ∀ x y z, d x z ≤ d x y + d y z)
    (S : V → V) (hS : ∀ x y, d (S x) (S y) ≤ d x y) (u v : ℕ → V) (hu : ∀ k, u (k + 1) = S (u k))
    (τ : α) (hv : ∀ k, d (S (v k)) (v (k + 1)) ≤ τ) (n : ℕ) :
    d (u n) (v n) ≤ d (u 0) (v 0) + n * τ := by
  induction n with
  | zero => simp
  | succ n ih =>
    have h1 : d (u (n + 1)) (v (n + 1)) ≤ d (S (u n)) (S (v n)) + d (S (v n)) (v (n + 1)) := by
      rw [hu n]; exact htri _ _ _
    have h2 := hS (u n) (v n)
    have h3 := hv n
    push_cast
    linarith

/-- third-order accuracy singles out κ = 1/3: the quadratic defect vanishes iff κ = 1/3 (for h ≠ 0) -/
theorem third_order_iff (κ h : α) (hh : h ≠ 0) : (κ - 1/3) * h ^ 2 / 2 = 0 ↔ κ = 1/3 := by
  constructor
  · intro H
    have h2 : h ^ 2 ≠ 0 := pow_ne_zero 2 hh
    have : (κ - 1/3) * h ^ 2 = 0 := by
      have := H
      field_simp at this
      linarith
    rcases mul_eq_zero.mp this with h0 | h0
    · linarith
    · exact absurd h0 h2
  · intro H; rw [H]; ring

/-- the class `extrapol3` of the source carries exactly that value (regenerated constant) -/
theorem extrapol3_is_third_order : Gen.kappa_extrapol3 = 1/3 := C11.named_kappas.2.2.2

end Flowdyn.C04
