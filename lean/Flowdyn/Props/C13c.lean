/-
C13 (part c) — (1) every explicit integrator commutes with any additive bijection `T` of the state space that
intertwines the space operators (`R' t (T q) = T (R t q)`) and the step scalings: reflection (reverse cells,
negate odd components), cyclic shift (C14) and unit changes are such maps, so equivariance of the operator
(C13a/b, C14) lifts to every step of every explicit integrator, stage calls included;
(2) mirror laws of the Euler boundary kernels: `bc(-dir, m w, params) = m (bc(dir, w, params))` with
`m (ρ,u,p) = (ρ,-u,p)` — together with C02 (`…_mirror`) and C12 (`…_odd`) these are the hypotheses of
`C13.rhs_mirror` for the Euler model;
(3) the instantiated statement for the Euler 1D model.
-/
import Flowdyn.Model.Integrators
import Flowdyn.Model.Models1D
import Flowdyn.Props.C13a
import Flowdyn.Props.C02a
import Flowdyn.Lemmas.RealInst
import Mathlib.Tactic.Ring
import Mathlib.Tactic.Linarith
import Mathlib.Tactic.FieldSimp
import Mathlib.Tactic.Module

namespace Flowdyn.C13
open Flowdyn

section integrators
variable {α : Type} [Field α] {V : Type} [AddCommGroup V] [Module α V]

/-- `T` is additive and commutes with the scalar action and with the (possibly local) step scaling -/
structure Intertwines (T : V → V) (R R' : α → V → V) (sc sc' : V → V) : Prop where
  add : ∀ x y, T (x + y) = T x + T y
  smul : ∀ (c : α) x, T (c • x) = c • T x
  rhs : ∀ t q, R' t (T q) = T (R t q)
  scale : ∀ x, sc' (T x) = T (sc x)

namespace Intertwines
variable {T : V → V} {R R' : α → V → V} {sc sc' : V → V}

theorem map_zero (h : Intertwines T R R' sc sc') : T 0 = 0 := by
  have := h.add 0 0
  rw [add_zero] at this
  exact left_eq_add.mp this

theorem zip_sum (h : Intertwines T R R' sc sc') (cs : List α) (ps : List V) :
    ((cs.zip (ps.map T)).map (fun ck => ck.1 • ck.2)).sum
      = T (((cs.zip ps).map (fun ck => ck.1 • ck.2)).sum) := by
  induction cs generalizing ps with
  | nil => simp [h.map_zero]
  | cons c cs ih =>
    cases ps with
    | nil => simp [h.map_zero]
    | cons p ps =>
      simp only [List.map_cons, List.zip_cons_cons, List.sum_cons]
      rw [ih ps, h.add, h.smul]

theorem rkAggregate (h : Intertwines T R R' sc sc') (row : List α) (prhs : List V) (r : V) :
    Flowdyn.rkAggregate row (prhs.map T) (T r) = T (Flowdyn.rkAggregate row prhs r) := by
  unfold Flowdyn.rkAggregate
  rw [h.add, h.smul, h.zip_sum]

theorem rk_fold (h : Intertwines T R R' sc sc') (dtm t0 : α) (q0 : V) (tbl : List (List α))
    (st st' : RkState α V) (h1 : st'.data = T st.data) (h2 : st'.time = st.time)
    (h3 : st'.prhs = st.prhs.map T) (h4 : st'.calls = st.calls.map (fun tc => (tc.1, T tc.2))) :
    (tbl.foldl (rkStage R' dtm sc' t0 (T q0)) st').data = T (tbl.foldl (rkStage R dtm sc t0 q0) st).data
    ∧ (tbl.foldl (rkStage R' dtm sc' t0 (T q0)) st').time = (tbl.foldl (rkStage R dtm sc t0 q0) st).time
    ∧ (tbl.foldl (rkStage R' dtm sc' t0 (T q0)) st').calls
        = (tbl.foldl (rkStage R dtm sc t0 q0) st).calls.map (fun tc => (tc.1, T tc.2)) := by
  induction tbl generalizing st st' with
  | nil => exact ⟨h1, h2, h4⟩
  | cons row tbl ih =>
    rw [List.foldl_cons, List.foldl_cons]
    apply ih
    · simp only [rkStage]
      rw [h3, h2, h1, h.rhs, h.rkAggregate, h.scale, h.add]
    · simp only [rkStage]
    · simp only [rkStage]
      rw [h3, h2, h1, h.rhs, List.map_append, List.map_singleton]
    · simp only [rkStage]
      rw [h4, h2, h1, List.map_append, List.map_singleton]

theorem ls_fold (h : Intertwines T R R' sc sc') (tc : α → α) (dtm t0 : α) (q0 : V) (bs : List α)
    (st st' : StepOut α V) (h1 : st'.data = T st.data) (h2 : st'.time = st.time) :
    (bs.foldl (lsStage tc R' dtm sc' t0 (T q0)) st').data = T (bs.foldl (lsStage tc R dtm sc t0 q0) st).data
    ∧ (bs.foldl (lsStage tc R' dtm sc' t0 (T q0)) st').time = (bs.foldl (lsStage tc R dtm sc t0 q0) st).time := by
  induction bs generalizing st st' with
  | nil => exact ⟨h1, h2⟩
  | cons b bs ih =>
    rw [List.foldl_cons, List.foldl_cons]
    apply ih
    · simp only [lsStage]
      rw [h2, h1, h.rhs, h.scale, h.add, h.smul]
    · simp only [lsStage]

end Intertwines

theorem explicit_equivariant (T : V → V) (R R' : α → V → V) (sc sc' : V → V) (h : Intertwines T R R' sc sc')
    (dtm t : α) (q : V) :
    (explicitStepG R' dtm sc' t (T q)).data = T (explicitStepG R dtm sc t q).data
    ∧ (explicitStepG R' dtm sc' t (T q)).time = (explicitStepG R dtm sc t q).time := by
  refine ⟨?_, rfl⟩
  simp only [explicitStepG]
  rw [h.rhs, h.scale, h.add]

theorem rk2_equivariant (T : V → V) (R R' : α → V → V) (sc sc' sch sch' : V → V) (h : Intertwines T R R' sc sc')
    (hh : ∀ x, sch' (T x) = T (sch x)) (dtm t : α) (q : V) :
    (rk2StepG R' dtm sc' sch' t (T q)).data = T (rk2StepG R dtm sc sch t q).data
    ∧ (rk2StepG R' dtm sc' sch' t (T q)).time = (rk2StepG R dtm sc sch t q).time := by
  refine ⟨?_, rfl⟩
  simp only [rk2StepG]
  rw [h.rhs, hh, ← h.add, h.rhs, h.scale, ← h.add]

/-- generic Butcher loop, **any** table -/
theorem rk_equivariant (tbl : List (List α)) (T : V → V) (R R' : α → V → V) (sc sc' : V → V)
    (h : Intertwines T R R' sc sc') (dtm t : α) (q : V) :
    (rkStepG tbl R' dtm sc' t (T q)).data = T (rkStepG tbl R dtm sc t q).data
    ∧ (rkStepG tbl R' dtm sc' t (T q)).time = (rkStepG tbl R dtm sc t q).time
    ∧ (rkStepG tbl R' dtm sc' t (T q)).calls = (rkStepG tbl R dtm sc t q).calls.map (fun tc => (tc.1, T tc.2)) := by
  simp only [rkStepG]
  exact h.rk_fold dtm t q tbl _ _ rfl rfl rfl rfl

/-- low-storage loop, **any** coefficient list -/
theorem ls_equivariant (tc : α → α) (bs : List α) (T : V → V) (R R' : α → V → V) (sc sc' : V → V)
    (h : Intertwines T R R' sc sc') (dtm t : α) (q : V) :
    (lsStepG tc bs R' dtm sc' t (T q)).data = T (lsStepG tc bs R dtm sc t q).data
    ∧ (lsStepG tc bs R' dtm sc' t (T q)).time = (lsStepG tc bs R dtm sc t q).time := by
  simp only [lsStepG]
  exact h.ls_fold tc dtm t q bs _ _ rfl rfl
end integrators

/-! ### mirror laws of the Euler 1D boundary kernels (over ℝ) -/
/-- `m (ρ, u, p) = (ρ, -u, p)` on component vectors -/
def mE (w : ℕ → ℝ) : ℕ → ℝ := fun k => if k = 1 then -w 1 else w k

/-- parity vector of the Euler components: `(+1, -1, +1, +1, …)` -/
def σE : ℕ → ℝ := fun k => if k = 1 then -1 else 1

theorem mE_eq_sig (w : ℕ → ℝ) : mE w = sig σE w := by
  funext k
  by_cases hk : k = 1
  · subst hk; simp [mE, sig, σE]
  · simp [mE, sig, σE, hk]

theorem mE_vec3 (a b c : ℝ) : mE (vec3 (a, b, c)) = vec3 (a, -b, c) := by
  funext k
  rcases k with _ | _ | k <;> simp [mE, vec3]

theorem mE_vec3' (t : ℝ × ℝ × ℝ) : mE (vec3 t) = vec3 (t.1, -t.2.1, t.2.2) := mE_vec3 t.1 t.2.1 t.2.2

theorem eBcInsubCbc_mirror (γ dir ptot rttot r u p : ℝ) :
    eBcInsubCbc γ (-dir) ptot rttot r (-u) p
      = ((eBcInsubCbc γ dir ptot rttot r u p).1, -(eBcInsubCbc γ dir ptot rttot r u p).2.1,
         (eBcInsubCbc γ dir ptot rttot r u p).2.2) := by
  simp only [eBcInsubCbc]
  set s := HasSqrt.sqrt (γ * p / r) with hs
  have hi : -u + -dir * 2 * s / (γ - 1) = -(u + dir * 2 * s / (γ - 1)) := by ring
  rw [hi]
  set invcm := u + dir * 2 * s / (γ - 1) with hinv
  rw [neg_sq, neg_mul_neg]
  set a1 := (dir * invcm + HasSqrt.sqrt (γ * (γ + 1) / (γ - 1) * rttot - 1 / 2 * (γ - 1) * invcm ^ 2))
      * (γ - 1) / (γ + 1) with ha1
  have hu : -invcm - -dir * 2 * a1 / (γ - 1) = -(invcm - dir * 2 * a1 / (γ - 1)) := by ring
  rw [hu, neg_div, neg_sq]

theorem eBcOutsubRh_mirror (γ dir pext r u p : ℝ) :
    eBcOutsubRh γ (-dir) pext r (-u) p
      = ((eBcOutsubRh γ dir pext r u p).1, -(eBcOutsubRh γ dir pext r u p).2.1,
         (eBcOutsubRh γ dir pext r u p).2.2) := by
  simp only [eBcOutsubRh]
  set s := HasSqrt.sqrt (γ * p / r * (1 + (pext / p - 1) * (γ + 1) / (2 * γ))) with hs
  refine Prod.ext rfl (Prod.ext ?_ rfl)
  simp only
  ring

theorem eBcOutsubNrcbc_mirror (γ dir pext r u p : ℝ) :
    eBcOutsubNrcbc γ (-dir) pext r (-u) p
      = ((eBcOutsubNrcbc γ dir pext r u p).1, -(eBcOutsubNrcbc γ dir pext r u p).2.1,
         (eBcOutsubNrcbc γ dir pext r u p).2.2) := by
  simp only [eBcOutsubNrcbc]
  refine Prod.ext rfl (Prod.ext ?_ rfl)
  simp only
  ring

/-- every registered Euler boundary condition obeys `bc(-dir, m w) = m (bc(dir, w))`
(`dirichlet` with the mirrored imposed state) -/
theorem eulerBC_mirror (γ dir : ℝ) (b : EulerBC ℝ) (w : ℕ → ℝ) :
    eulerBC γ (-dir) (match b with | .dirichlet prim => .dirichlet (mE prim) | b' => b') (mE w)
      = mE (eulerBC γ dir b w) := by
  have e0 : mE w 0 = w 0 := by simp [mE]
  have e1 : mE w 1 = -w 1 := by simp [mE]
  have e2 : mE w 2 = w 2 := by simp [mE]
  cases b with
  | dirichlet prim => rfl
  | sym => simp only [eulerBC, eBcSym, mE_vec3, e0, e1, e2]
  | insub ptot rttot =>
    simp only [eulerBC, eBcInsub, mE_vec3, e2, neg_neg, neg_mul]
  | insub_cbc ptot rttot =>
    simp only [eulerBC, e0, e1, e2, eBcInsubCbc_mirror, mE_vec3']
  | insup ptot rttot p =>
    simp only [eulerBC, eBcInsup, mE_vec3, neg_neg, neg_mul]
  | outsub p => simp only [eulerBC, eBcOutsub, mE_vec3, e0, e1]
  | outsub_qtot p => simp only [eulerBC, eBcOutsubQtot, mE_vec3, e0, e1, e2, neg_sq, neg_mul]
  | outsub_rh p =>
    simp only [eulerBC, e0, e1, e2, eBcOutsubRh_mirror, mE_vec3']
  | outsub_nrcbc p =>
    simp only [eulerBC, e0, e1, e2, eBcOutsubNrcbc_mirror, mE_vec3']
  | outsup => simp only [eulerBC, eBcOutsup, mE_vec3, e0, e1, e2]

/-- `cons2prim` of the Euler model commutes with the mirror -/
theorem eulerC2P_mirror (γ : ℝ) (Q : ℕ → ℝ) : eulerC2P γ (sig σE Q) = sig σE (eulerC2P γ Q) := by
  rw [← mE_eq_sig, ← mE_eq_sig]
  have e0 : mE Q 0 = Q 0 := by simp [mE]
  have e1 : mE Q 1 = -Q 1 := by simp [mE]
  have e2 : mE Q 2 = Q 2 := by simp [mE]
  simp only [eulerC2P, eCons2prim, ePressure, eKinetic, mE_vec3, e0, e1, e2, neg_sq, neg_div]

/-- the mirror law of `rhs_mirror` for the Euler fluxes other than HLLC (HLLC: C02 `eHllc_mirror`, away from `sM = 0`) -/
theorem eulerFlux_mirror (γ : ℝ) (fl : EulerFlux) (hfl : fl ≠ EulerFlux.hllc) (L R : ℕ → ℝ) (hL : 0 < L 0) (hR : 0 < R 0) (k : ℕ) :
    eulerFluxV γ fl (sig σE R) (sig σE L) k = -σE k * eulerFluxV γ fl L R k := by
  rw [← mE_eq_sig, ← mE_eq_sig]
  have e0 : ∀ w : ℕ → ℝ, mE w 0 = w 0 := fun w => by simp [mE]
  have e1 : ∀ w : ℕ → ℝ, mE w 1 = -w 1 := fun w => by simp [mE]
  have e2 : ∀ w : ℕ → ℝ, mE w 2 = w 2 := fun w => by simp [mE]
  have key : ∀ t : ℝ × ℝ × ℝ, vec3 (-t.1, t.2.1, -t.2.2) k = -σE k * vec3 t k := by
    intro t
    rcases k with _ | _ | k <;> simp [vec3, σE]
  cases fl with
  | centered =>
    simp only [eulerFluxV, e0, e1, e2, C02.eCentered_mirror]; exact key _
  | centeredmassflow =>
    simp only [eulerFluxV, e0, e1, e2, C02.eCenteredMassflow_mirror]; exact key _
  | hlle =>
    simp only [eulerFluxV, e0, e1, e2]
    rw [C02.eHlle_mirror γ _ _ _ _ _ _ hL hR]; exact key _
  | hllc => exact absurd rfl hfl

end Flowdyn.C13
