/-
C14 (part b) / C13 — symmetries of whole solves with an explicit integrator.

(1) `globalCfg`: the driver configuration (`DrvCfg Unit α V α`) of an explicit stage loop of `Model/Integrators.lean`
    used with a global (scalar) time step — no hidden solver state, `minDt = id`, `scalar = id`, `dtlocal = false`
    (assembled as `Exec/Drv.lean` does: `step s d t q = (s, o.time, o.data)` with `o` the `StepOut` of the loop).
    `rkCfg`, `lsCfg`, `explicitCfg`, `rk2Cfg` are its instances for the four stage loops.
    `stageCfg` (+ `rkCfgD`, `lsCfgD`, `explicitCfgD`): the same with time-step values in an arbitrary type `D`
    (per-cell arrays for the directive `dtlocal`), `minDt d` handed to the loop as `dtm`, `scOf d` as the scaling.
(2) `solve_equivariant_rk / _ls / _explicit / _rk2` (global step) and `solve_equivariant_rk_local / _ls_local /
    _explicit_local` (any `D`): if `T` is additive, commutes with the scalar action and intertwines the space operators
    (`R' t (T q) = T (R t q)`), if the time-step rule is invariant (equivariant for `fD` on `D`) and the monitors see `T`
    through value maps `fm i`, then the whole `run` (`solve / restart`) of the `T`-image problem is the `T`-image of
    the `run`: C07c `run_equivariant` with `ft = id`, `fσ = id`, one-step equivariance from C13c.
(3) `solve_shift`, `solve_shift_ls / _explicit / _rk2` and `solve_shift_local / _ls_local / _explicit_local`: the periodic
    uniform 1D discretisation `perDisc` of C14a, the operator being the model's `Disc1D.rhs` itself on
    `V = ι → ℕ → α` (cells `c ≥ n` carry junk that no cell `c < n` ever sees — C14a `rhs_shift` holds for `i < n` only):
    the solve from the cyclically shifted initial data is, **on the cells `c < n`**, the cyclic shift of the solve
    (`ShiftedRun`): final data, every snapshot, every state of the trajectory; same flag, iteration counts, save index,
    times, iteration tags, monitor logs.  Proof: `shift n m` and the wrap `shift n 0` are two morphisms from the
    problem with `Disc1D.rhs` into the problem with the periodically wrapped residual (`wrapRhs`), on which
    `rhs_shift` is an exact intertwining relation.
(4) non-vacuity: the volume-weighted average (the usual monitor), a time-step rule built on it, a cell-local CFL-like
    rule and the true minimum over the cells satisfy the hypotheses (`shiftBlind_average`, `shiftEquiv_cfl`); concrete
    3-cell instances; a nonlinear odd operator on `ℚ` for `solve_equivariant_rk`.
-/
import Flowdyn.Props.C07c
import Flowdyn.Props.C13c
import Flowdyn.Props.C14a

namespace Flowdyn.C14
open Flowdyn Flowdyn.C07 Flowdyn.C13

section cfg
variable {α : Type} [Field α] {V : Type} [AddCommGroup V] [Module α V] {V' : Type}

/-! ### the driver configuration of an explicit integrator with a global time step -/

/-- `stepf dt t q` is the stage loop for the scalar step `dt`; `dtOf t q` is `calc_timestep` reduced to its minimum -/
def globalCfg (stepf : α → α → V' → StepOut α V') (dtOf : α → V' → α) (tottime : Option α) (maxit : Option ℕ)
    (tsave : List α) (itstart : ℕ) (mons : List (ℕ × (α → V' → α))) : DrvCfg Unit α V' α :=
  { step := fun s d t q => (s, (stepf d t q).time, (stepf d t q).data),
    keep := fun s _ => s, calcDt := dtOf, minDt := id, scalar := id, dtlocal := false,
    tottime := tottime, maxit := maxit, tsave := tsave, itstart := itstart, monitors := mons }

/-- generic Butcher loop `rkmodel` with table `tbl` -/
def rkCfg (tbl : List (List α)) (R : α → V → V) := globalCfg (fun d t q => rkStepG tbl R d (fun v => d • v) t q)
/-- low-storage loop `LSrkmodelHH` with coefficients `bs` (sub-time coefficient `tc`) -/
def lsCfg (tc : α → α) (bs : List α) (R : α → V → V) :=
  globalCfg (fun d t q => lsStepG tc bs R d (fun v => d • v) t q)
/-- `explicit` (forward Euler) -/
def explicitCfg (R : α → V → V) := globalCfg (fun d t q => explicitStepG R d (fun v => d • v) t q)
/-- `rk2` (midpoint) -/
def rk2Cfg (R : α → V → V) :=
  globalCfg (fun d t q => rk2StepG R d (fun v => d • v) (fun v => (d / 2) • v) t q)

theorem rkCfg_step (tbl : List (List α)) (R : α → V → V) (dtOf : α → V → α) (tt : Option α) (mi : Option ℕ)
    (ts : List α) (i0 : ℕ) (mons : List (ℕ × (α → V → α))) (s : Unit) (d t : α) (q : V) :
    (rkCfg tbl R dtOf tt mi ts i0 mons).step s d t q = (s, (rkStep tbl R d t q).time, (rkStep tbl R d t q).data) := rfl
theorem lsCfg_step (bs : List α) (R : α → V → V) (dtOf : α → V → α) (tt : Option α) (mi : Option ℕ)
    (ts : List α) (i0 : ℕ) (mons : List (ℕ × (α → V → α))) (s : Unit) (d t : α) (q : V) :
    (lsCfg (fun _ => 1) bs R dtOf tt mi ts i0 mons).step s d t q
      = (s, (lsStep bs R d t q).time, (lsStep bs R d t q).data) := rfl
theorem explicitCfg_step (R : α → V → V) (dtOf : α → V → α) (tt : Option α) (mi : Option ℕ)
    (ts : List α) (i0 : ℕ) (mons : List (ℕ × (α → V → α))) (s : Unit) (d t : α) (q : V) :
    (explicitCfg R dtOf tt mi ts i0 mons).step s d t q
      = (s, (explicitStep R d t q).time, (explicitStep R d t q).data) := rfl
theorem rk2Cfg_step (R : α → V → V) (dtOf : α → V → α) (tt : Option α) (mi : Option ℕ)
    (ts : List α) (i0 : ℕ) (mons : List (ℕ × (α → V → α))) (s : Unit) (d t : α) (q : V) :
    (rk2Cfg R dtOf tt mi ts i0 mons).step s d t q = (s, (rk2Step R d t q).time, (rk2Step R d t q).data) := rfl

/-- `T` additive, homogeneous, intertwining the operators: the hypotheses of C13c for every global step `d` -/
theorem intertwines_global (T : V → V) (R R' : α → V → V) (hadd : ∀ x y, T (x + y) = T x + T y)
    (hsmul : ∀ (a : α) x, T (a • x) = a • T x) (hrhs : ∀ t q, R' t (T q) = T (R t q)) (d : α) :
    Intertwines T R R' (fun v => d • v) (fun v => d • v) :=
  ⟨hadd, hsmul, hrhs, fun x => (hsmul d x).symm⟩

end cfg

section generic
variable {α : Type} [Field α] [LinearOrder α] {V : Type} [AddCommGroup V] [Module α V]

/-! ### one-step equivariance gives a morphism of configurations -/

/-- a data map `T` with which the stage loop commutes (time unchanged), which the time-step rule does not see and
which the monitors see through `fm`, is a morphism of the driver configurations (`ft = id`) -/
theorem globalCfg_hom {V V' : Type} (T : V → V') (stepf : α → α → V → StepOut α V) (stepf' : α → α → V' → StepOut α V')
    (hstep : ∀ d t q, (stepf' d t (T q)).data = T (stepf d t q).data ∧ (stepf' d t (T q)).time = (stepf d t q).time)
    (dtOf : α → V → α) (dtOf' : α → V' → α) (hdt : ∀ t q, dtOf' t (T q) = dtOf t q)
    (mons : List (ℕ × (α → V → α))) (mons' : List (ℕ × (α → V' → α))) (fm : ℕ → α → α)
    (hml : mons'.length = mons.length)
    (hmon : ∀ (i : ℕ) (m : ℕ × (α → V → α)) (m' : ℕ × (α → V' → α)), mons[i]? = some m → mons'[i]? = some m' →
      m'.1 = m.1 ∧ ∀ t q, m'.2 t (T q) = fm i (m.2 t q))
    (tottime : Option α) (maxit : Option ℕ) (tsave : List α) (itstart : ℕ) :
    CfgHom (globalCfg stepf dtOf tottime maxit tsave itstart mons)
      (globalCfg stepf' dtOf' tottime maxit tsave itstart mons') id id T id fm where
  time := timeMap_id
  step := fun s d t q => by
    simp only [globalCfg, id, (hstep d t q).1, (hstep d t q).2]
  keep := fun _ _ => rfl
  calcDt := fun t q => hdt t q
  minDt := fun _ => rfl
  scalar := fun _ => rfl
  dtlocal := rfl
  tottime := by simp [globalCfg]
  maxit := rfl
  tsave := by simp [globalCfg]
  itstart := rfl
  monitors_length := hml
  monitors := hmon

/-- **whole solves commute with `T`** (any stage loop, global time step) -/
theorem solve_equivariant_global {V V' : Type} (T : V → V') (stepf : α → α → V → StepOut α V)
    (stepf' : α → α → V' → StepOut α V')
    (hstep : ∀ d t q, (stepf' d t (T q)).data = T (stepf d t q).data ∧ (stepf' d t (T q)).time = (stepf d t q).time)
    (dtOf : α → V → α) (dtOf' : α → V' → α) (hdt : ∀ t q, dtOf' t (T q) = dtOf t q)
    (mons : List (ℕ × (α → V → α))) (mons' : List (ℕ × (α → V' → α))) (fm : ℕ → α → α)
    (hml : mons'.length = mons.length)
    (hmon : ∀ (i : ℕ) (m : ℕ × (α → V → α)) (m' : ℕ × (α → V' → α)), mons[i]? = some m → mons'[i]? = some m' →
      m'.1 = m.1 ∧ ∀ t q, m'.2 t (T q) = fm i (m.2 t q))
    (tottime : Option α) (maxit : Option ℕ) (tsave : List α) (itstart : ℕ) (fuel : ℕ) (t0 : α) (q0 : V) :
    (globalCfg stepf' dtOf' tottime maxit tsave itstart mons').run fuel () t0 (T q0)
      = (DrvState.map id id T fm ((globalCfg stepf dtOf tottime maxit tsave itstart mons).run fuel () t0 q0).1,
         ((globalCfg stepf dtOf tottime maxit tsave itstart mons).run fuel () t0 q0).2) :=
  run_equivariant (globalCfg_hom T stepf stepf' hstep dtOf dtOf' hdt mons mons' fm hml hmon tottime maxit tsave
    itstart) fuel () t0 q0

/-- generic Butcher loop, **any** table: the solve of the `T`-image problem is the `T`-image of the solve -/
theorem solve_equivariant_rk (tbl : List (List α)) (T : V → V) (R R' : α → V → V)
    (hadd : ∀ x y, T (x + y) = T x + T y) (hsmul : ∀ (a : α) x, T (a • x) = a • T x)
    (hrhs : ∀ t q, R' t (T q) = T (R t q))
    (dtOf dtOf' : α → V → α) (hdt : ∀ t q, dtOf' t (T q) = dtOf t q)
    (mons mons' : List (ℕ × (α → V → α))) (fm : ℕ → α → α) (hml : mons'.length = mons.length)
    (hmon : ∀ (i : ℕ) (m m' : ℕ × (α → V → α)), mons[i]? = some m → mons'[i]? = some m' →
      m'.1 = m.1 ∧ ∀ t q, m'.2 t (T q) = fm i (m.2 t q))
    (tottime : Option α) (maxit : Option ℕ) (tsave : List α) (itstart : ℕ) (fuel : ℕ) (t0 : α) (q0 : V) :
    (rkCfg tbl R' dtOf' tottime maxit tsave itstart mons').run fuel () t0 (T q0)
      = (DrvState.map id id T fm ((rkCfg tbl R dtOf tottime maxit tsave itstart mons).run fuel () t0 q0).1,
         ((rkCfg tbl R dtOf tottime maxit tsave itstart mons).run fuel () t0 q0).2) :=
  solve_equivariant_global T _ _
    (fun d t q =>
      have h := rk_equivariant tbl T R R' _ _ (intertwines_global T R R' hadd hsmul hrhs d) d t q
      ⟨h.1, h.2.1⟩)
    dtOf dtOf' hdt mons mons' fm hml hmon tottime maxit tsave itstart fuel t0 q0

/-- low-storage loop, **any** coefficient list -/
theorem solve_equivariant_ls (tc : α → α) (bs : List α) (T : V → V) (R R' : α → V → V)
    (hadd : ∀ x y, T (x + y) = T x + T y) (hsmul : ∀ (a : α) x, T (a • x) = a • T x)
    (hrhs : ∀ t q, R' t (T q) = T (R t q))
    (dtOf dtOf' : α → V → α) (hdt : ∀ t q, dtOf' t (T q) = dtOf t q)
    (mons mons' : List (ℕ × (α → V → α))) (fm : ℕ → α → α) (hml : mons'.length = mons.length)
    (hmon : ∀ (i : ℕ) (m m' : ℕ × (α → V → α)), mons[i]? = some m → mons'[i]? = some m' →
      m'.1 = m.1 ∧ ∀ t q, m'.2 t (T q) = fm i (m.2 t q))
    (tottime : Option α) (maxit : Option ℕ) (tsave : List α) (itstart : ℕ) (fuel : ℕ) (t0 : α) (q0 : V) :
    (lsCfg tc bs R' dtOf' tottime maxit tsave itstart mons').run fuel () t0 (T q0)
      = (DrvState.map id id T fm ((lsCfg tc bs R dtOf tottime maxit tsave itstart mons).run fuel () t0 q0).1,
         ((lsCfg tc bs R dtOf tottime maxit tsave itstart mons).run fuel () t0 q0).2) :=
  solve_equivariant_global T _ _
    (fun d t q => ls_equivariant tc bs T R R' _ _ (intertwines_global T R R' hadd hsmul hrhs d) d t q)
    dtOf dtOf' hdt mons mons' fm hml hmon tottime maxit tsave itstart fuel t0 q0

/-- `explicit` (forward Euler) -/
theorem solve_equivariant_explicit (T : V → V) (R R' : α → V → V)
    (hadd : ∀ x y, T (x + y) = T x + T y) (hsmul : ∀ (a : α) x, T (a • x) = a • T x)
    (hrhs : ∀ t q, R' t (T q) = T (R t q))
    (dtOf dtOf' : α → V → α) (hdt : ∀ t q, dtOf' t (T q) = dtOf t q)
    (mons mons' : List (ℕ × (α → V → α))) (fm : ℕ → α → α) (hml : mons'.length = mons.length)
    (hmon : ∀ (i : ℕ) (m m' : ℕ × (α → V → α)), mons[i]? = some m → mons'[i]? = some m' →
      m'.1 = m.1 ∧ ∀ t q, m'.2 t (T q) = fm i (m.2 t q))
    (tottime : Option α) (maxit : Option ℕ) (tsave : List α) (itstart : ℕ) (fuel : ℕ) (t0 : α) (q0 : V) :
    (explicitCfg R' dtOf' tottime maxit tsave itstart mons').run fuel () t0 (T q0)
      = (DrvState.map id id T fm ((explicitCfg R dtOf tottime maxit tsave itstart mons).run fuel () t0 q0).1,
         ((explicitCfg R dtOf tottime maxit tsave itstart mons).run fuel () t0 q0).2) :=
  solve_equivariant_global T _ _
    (fun d t q => explicit_equivariant T R R' _ _ (intertwines_global T R R' hadd hsmul hrhs d) d t q)
    dtOf dtOf' hdt mons mons' fm hml hmon tottime maxit tsave itstart fuel t0 q0

/-- `rk2` (midpoint) -/
theorem solve_equivariant_rk2 (T : V → V) (R R' : α → V → V)
    (hadd : ∀ x y, T (x + y) = T x + T y) (hsmul : ∀ (a : α) x, T (a • x) = a • T x)
    (hrhs : ∀ t q, R' t (T q) = T (R t q))
    (dtOf dtOf' : α → V → α) (hdt : ∀ t q, dtOf' t (T q) = dtOf t q)
    (mons mons' : List (ℕ × (α → V → α))) (fm : ℕ → α → α) (hml : mons'.length = mons.length)
    (hmon : ∀ (i : ℕ) (m m' : ℕ × (α → V → α)), mons[i]? = some m → mons'[i]? = some m' →
      m'.1 = m.1 ∧ ∀ t q, m'.2 t (T q) = fm i (m.2 t q))
    (tottime : Option α) (maxit : Option ℕ) (tsave : List α) (itstart : ℕ) (fuel : ℕ) (t0 : α) (q0 : V) :
    (rk2Cfg R' dtOf' tottime maxit tsave itstart mons').run fuel () t0 (T q0)
      = (DrvState.map id id T fm ((rk2Cfg R dtOf tottime maxit tsave itstart mons).run fuel () t0 q0).1,
         ((rk2Cfg R dtOf tottime maxit tsave itstart mons).run fuel () t0 q0).2) :=
  solve_equivariant_global T _ _
    (fun d t q => rk2_equivariant T R R' _ _ _ _ (intertwines_global T R R' hadd hsmul hrhs d)
      (fun x => (hsmul (d / 2) x).symm) d t q)
    dtOf dtOf' hdt mons mons' fm hml hmon tottime maxit tsave itstart fuel t0 q0

end generic

/-! ### local time steps (`dtlocal`): time-step values in an arbitrary type `D` -/
section localdt
variable {α : Type} [Field α] [LinearOrder α] {V : Type} [AddCommGroup V] [Module α V] {D : Type}

/-- driver configuration of a stage loop `stepD d t q` whose time-step value `d : D` may be a per-cell array
(`minDt d` its minimum, handed to the loop as `dtm`; the loop scales residuals by `d`) -/
def stageCfg {V' : Type} (stepD : D → α → V' → StepOut α V') (calcDt : α → V' → D) (minDt : D → α) (scalar : α → D)
    (dtlocal : Bool) (tottime : Option α) (maxit : Option ℕ) (tsave : List α) (itstart : ℕ)
    (mons : List (ℕ × (α → V' → α))) : DrvCfg Unit α V' D :=
  { step := fun s d t q => (s, (stepD d t q).time, (stepD d t q).data),
    keep := fun s _ => s, calcDt := calcDt, minDt := minDt, scalar := scalar, dtlocal := dtlocal,
    tottime := tottime, maxit := maxit, tsave := tsave, itstart := itstart, monitors := mons }

omit [Field α] [LinearOrder α] in
/-- the global-step configuration is the instance `D = α`, `minDt = scalar = id`, `dtlocal = false` -/
theorem globalCfg_eq_stageCfg {V' : Type} (stepf : α → α → V' → StepOut α V') (dtOf : α → V' → α) (tt : Option α)
    (mi : Option ℕ) (ts : List α) (i0 : ℕ) (mons : List (ℕ × (α → V' → α))) :
    globalCfg stepf dtOf tt mi ts i0 mons = stageCfg stepf dtOf id id false tt mi ts i0 mons := rfl

/-- morphism of stage-loop configurations: data map `T`, time-step map `fD` -/
theorem stageCfg_hom {V V' D' : Type} (T : V → V') (fD : D → D') (stepD : D → α → V → StepOut α V)
    (stepD' : D' → α → V' → StepOut α V')
    (hstep : ∀ d t q, (stepD' (fD d) t (T q)).data = T (stepD d t q).data
      ∧ (stepD' (fD d) t (T q)).time = (stepD d t q).time)
    (calcDt : α → V → D) (calcDt' : α → V' → D') (hdt : ∀ t q, calcDt' t (T q) = fD (calcDt t q))
    (minDt : D → α) (minDt' : D' → α) (hmin : ∀ d, minDt' (fD d) = minDt d)
    (scalar : α → D) (scalar' : α → D') (hscal : ∀ a, scalar' a = fD (scalar a)) (dtlocal : Bool)
    (mons : List (ℕ × (α → V → α))) (mons' : List (ℕ × (α → V' → α))) (fm : ℕ → α → α)
    (hml : mons'.length = mons.length)
    (hmon : ∀ (i : ℕ) (m : ℕ × (α → V → α)) (m' : ℕ × (α → V' → α)), mons[i]? = some m → mons'[i]? = some m' →
      m'.1 = m.1 ∧ ∀ t q, m'.2 t (T q) = fm i (m.2 t q))
    (tottime : Option α) (maxit : Option ℕ) (tsave : List α) (itstart : ℕ) :
    CfgHom (stageCfg stepD calcDt minDt scalar dtlocal tottime maxit tsave itstart mons)
      (stageCfg stepD' calcDt' minDt' scalar' dtlocal tottime maxit tsave itstart mons') id id T fD fm where
  time := timeMap_id
  step := fun s d t q => by
    simp only [stageCfg, id, (hstep d t q).1, (hstep d t q).2]
  keep := fun _ _ => rfl
  calcDt := fun t q => hdt t q
  minDt := fun d => hmin d
  scalar := fun a => hscal a
  dtlocal := rfl
  tottime := by simp [stageCfg]
  maxit := rfl
  tsave := by simp [stageCfg]
  itstart := rfl
  monitors_length := hml
  monitors := hmon

/-- `rkmodel` with time-step values in `D`: `scOf d` is the scaling of a residual by `d` -/
def rkCfgD (tbl : List (List α)) (R : α → V → V) (minDt : D → α) (scOf : D → V → V) :=
  stageCfg (fun d t q => rkStepG tbl R (minDt d) (scOf d) t q) (minDt := minDt)
/-- `LSrkmodelHH` with time-step values in `D` -/
def lsCfgD (tc : α → α) (bs : List α) (R : α → V → V) (minDt : D → α) (scOf : D → V → V) :=
  stageCfg (fun d t q => lsStepG tc bs R (minDt d) (scOf d) t q) (minDt := minDt)
/-- `explicit` with time-step values in `D` -/
def explicitCfgD (R : α → V → V) (minDt : D → α) (scOf : D → V → V) :=
  stageCfg (fun d t q => explicitStepG R (minDt d) (scOf d) t q) (minDt := minDt)

/-- **generic Butcher loop, local or global time step**: `T` intertwines the operators, `fD` is the action on the
time-step values (`scOf (fD d) (T x) = T (scOf d x)`, same minimum, scalars fixed), the time-step rule is
equivariant (`calcDt' t (T q) = fD (calcDt t q)`): the solve of the image problem is the image of the solve -/
theorem solve_equivariant_rk_local (tbl : List (List α)) (T : V → V) (fD : D → D) (R R' : α → V → V)
    (hadd : ∀ x y, T (x + y) = T x + T y) (hsmul : ∀ (a : α) x, T (a • x) = a • T x)
    (hrhs : ∀ t q, R' t (T q) = T (R t q))
    (minDt : D → α) (scOf : D → V → V) (scalar : α → D) (dtlocal : Bool)
    (hsc : ∀ d x, scOf (fD d) (T x) = T (scOf d x)) (hmin : ∀ d, minDt (fD d) = minDt d)
    (hscal : ∀ a, scalar a = fD (scalar a))
    (calcDt calcDt' : α → V → D) (hdt : ∀ t q, calcDt' t (T q) = fD (calcDt t q))
    (mons mons' : List (ℕ × (α → V → α))) (fm : ℕ → α → α) (hml : mons'.length = mons.length)
    (hmon : ∀ (i : ℕ) (m m' : ℕ × (α → V → α)), mons[i]? = some m → mons'[i]? = some m' →
      m'.1 = m.1 ∧ ∀ t q, m'.2 t (T q) = fm i (m.2 t q))
    (tottime : Option α) (maxit : Option ℕ) (tsave : List α) (itstart : ℕ) (fuel : ℕ) (t0 : α) (q0 : V) :
    (rkCfgD tbl R' minDt scOf calcDt' scalar dtlocal tottime maxit tsave itstart mons').run fuel () t0 (T q0)
      = (DrvState.map id id T fm
          ((rkCfgD tbl R minDt scOf calcDt scalar dtlocal tottime maxit tsave itstart mons).run fuel () t0 q0).1,
         ((rkCfgD tbl R minDt scOf calcDt scalar dtlocal tottime maxit tsave itstart mons).run fuel () t0 q0).2) :=
  run_equivariant (stageCfg_hom T fD _ _
    (fun d t q => by
      have h := rk_equivariant tbl T R R' (scOf d) (scOf (fD d)) ⟨hadd, hsmul, hrhs, hsc d⟩ (minDt d) t q
      rw [hmin]
      exact ⟨h.1, h.2.1⟩)
    calcDt calcDt' hdt minDt minDt hmin scalar scalar hscal dtlocal mons mons' fm hml hmon tottime maxit tsave
    itstart) fuel () t0 q0

/-- low-storage loop, local or global time step -/
theorem solve_equivariant_ls_local (tc : α → α) (bs : List α) (T : V → V) (fD : D → D) (R R' : α → V → V)
    (hadd : ∀ x y, T (x + y) = T x + T y) (hsmul : ∀ (a : α) x, T (a • x) = a • T x)
    (hrhs : ∀ t q, R' t (T q) = T (R t q))
    (minDt : D → α) (scOf : D → V → V) (scalar : α → D) (dtlocal : Bool)
    (hsc : ∀ d x, scOf (fD d) (T x) = T (scOf d x)) (hmin : ∀ d, minDt (fD d) = minDt d)
    (hscal : ∀ a, scalar a = fD (scalar a))
    (calcDt calcDt' : α → V → D) (hdt : ∀ t q, calcDt' t (T q) = fD (calcDt t q))
    (mons mons' : List (ℕ × (α → V → α))) (fm : ℕ → α → α) (hml : mons'.length = mons.length)
    (hmon : ∀ (i : ℕ) (m m' : ℕ × (α → V → α)), mons[i]? = some m → mons'[i]? = some m' →
      m'.1 = m.1 ∧ ∀ t q, m'.2 t (T q) = fm i (m.2 t q))
    (tottime : Option α) (maxit : Option ℕ) (tsave : List α) (itstart : ℕ) (fuel : ℕ) (t0 : α) (q0 : V) :
    (lsCfgD tc bs R' minDt scOf calcDt' scalar dtlocal tottime maxit tsave itstart mons').run fuel () t0 (T q0)
      = (DrvState.map id id T fm
          ((lsCfgD tc bs R minDt scOf calcDt scalar dtlocal tottime maxit tsave itstart mons).run fuel () t0 q0).1,
         ((lsCfgD tc bs R minDt scOf calcDt scalar dtlocal tottime maxit tsave itstart mons).run fuel () t0 q0).2) :=
  run_equivariant (stageCfg_hom T fD _ _
    (fun d t q => by
      have h := ls_equivariant tc bs T R R' (scOf d) (scOf (fD d)) ⟨hadd, hsmul, hrhs, hsc d⟩ (minDt d) t q
      rw [hmin]
      exact h)
    calcDt calcDt' hdt minDt minDt hmin scalar scalar hscal dtlocal mons mons' fm hml hmon tottime maxit tsave
    itstart) fuel () t0 q0

/-- forward Euler, local or global time step -/
theorem solve_equivariant_explicit_local (T : V → V) (fD : D → D) (R R' : α → V → V)
    (hadd : ∀ x y, T (x + y) = T x + T y) (hsmul : ∀ (a : α) x, T (a • x) = a • T x)
    (hrhs : ∀ t q, R' t (T q) = T (R t q))
    (minDt : D → α) (scOf : D → V → V) (scalar : α → D) (dtlocal : Bool)
    (hsc : ∀ d x, scOf (fD d) (T x) = T (scOf d x)) (hmin : ∀ d, minDt (fD d) = minDt d)
    (hscal : ∀ a, scalar a = fD (scalar a))
    (calcDt calcDt' : α → V → D) (hdt : ∀ t q, calcDt' t (T q) = fD (calcDt t q))
    (mons mons' : List (ℕ × (α → V → α))) (fm : ℕ → α → α) (hml : mons'.length = mons.length)
    (hmon : ∀ (i : ℕ) (m m' : ℕ × (α → V → α)), mons[i]? = some m → mons'[i]? = some m' →
      m'.1 = m.1 ∧ ∀ t q, m'.2 t (T q) = fm i (m.2 t q))
    (tottime : Option α) (maxit : Option ℕ) (tsave : List α) (itstart : ℕ) (fuel : ℕ) (t0 : α) (q0 : V) :
    (explicitCfgD R' minDt scOf calcDt' scalar dtlocal tottime maxit tsave itstart mons').run fuel () t0 (T q0)
      = (DrvState.map id id T fm
          ((explicitCfgD R minDt scOf calcDt scalar dtlocal tottime maxit tsave itstart mons).run fuel () t0 q0).1,
         ((explicitCfgD R minDt scOf calcDt scalar dtlocal tottime maxit tsave itstart mons).run fuel () t0 q0).2) :=
  run_equivariant (stageCfg_hom T fD _ _
    (fun d t q => by
      have h := explicit_equivariant T R R' (scOf d) (scOf (fD d)) ⟨hadd, hsmul, hrhs, hsc d⟩ (minDt d) t q
      rw [hmin]
      exact h)
    calcDt calcDt' hdt minDt minDt hmin scalar scalar hscal dtlocal mons mons' fm hml hmon tottime maxit tsave
    itstart) fuel () t0 q0

end localdt

/-! ### the periodic uniform 1D discretisation: solves commute with cyclic shifts -/
section shift
variable {α : Type} [Field α] [LinearOrder α] [IsStrictOrderedRing α] {ι : Type}

omit [LinearOrder α] [IsStrictOrderedRing α] in
theorem shift_add (n m : ℕ) (x y : ι → ℕ → α) : shift n m (x + y) = shift n m x + shift n m y := rfl
omit [LinearOrder α] [IsStrictOrderedRing α] in
theorem shift_smul (n m : ℕ) (a : α) (x : ι → ℕ → α) : shift n m (a • x) = a • shift n m x := rfl
omit [Field α] [LinearOrder α] [IsStrictOrderedRing α] in
/-- `shift n 0` is the periodic wrap of the cells `c < n`; shifted data are already wrapped -/
theorem shift_zero_shift (n m : ℕ) (q : ι → ℕ → α) : shift n 0 (shift n m q) = shift n m q := by
  funext l c
  show q l (((c + 0) % n + m) % n) = q l ((c + m) % n)
  rw [Nat.add_zero, Nat.mod_add_mod]
omit [Field α] [LinearOrder α] [IsStrictOrderedRing α] in
theorem shift_zero_apply (n : ℕ) (q : ι → ℕ → α) (l : ι) (c : ℕ) (hc : c < n) : shift n 0 q l c = q l c := by
  show q l ((c + 0) % n) = q l c
  rw [Nat.add_zero, Nat.mod_eq_of_lt hc]

/-- the residual of `perDisc`, periodically wrapped from the cells `c < n` -/
def wrapRhs (n : ℕ) (L x0 : α) (s : Scheme α) (c2p : (ι → α) → (ι → α)) (Φ : (ι → α) → (ι → α) → (ι → α)) :
    α → (ι → ℕ → α) → (ι → ℕ → α) :=
  fun _ q => shift n 0 ((perDisc n L x0 s c2p Φ).rhs q)

/-- C14a `rhs_shift` as an intertwining relation between the model's operator and its wrapped form,
exact on all of `ι → ℕ → α` -/
theorem wrapRhs_shift (n : ℕ) (hn : 0 < n) (L x0 : α) (hL : 0 < L) (s : Scheme α)
    (c2p : (ι → α) → (ι → α)) (Φ : (ι → α) → (ι → α) → (ι → α)) (m : ℕ) (t : α) (q : ι → ℕ → α) :
    wrapRhs n L x0 s c2p Φ t (shift n m q) = shift n m ((perDisc n L x0 s c2p Φ).rhs q) := by
  funext l c
  show (perDisc n L x0 s c2p Φ).rhs (shift n m q) l ((c + 0) % n)
    = (perDisc n L x0 s c2p Φ).rhs q l ((c + m) % n)
  rw [rhs_shift n hn L x0 hL s c2p Φ q m l _ (Nat.mod_lt _ hn), Nat.add_zero, Nat.mod_add_mod]

/-- what the caller of `solve` sees of two runs `r`, `r'` related by the shift: same flag, counts, times, monitor logs;
final data, every snapshot and every state of the trajectory shifted on the cells `c < n` -/
def ShiftedRun (n m : ℕ) (r r' : DrvState Unit α (ι → ℕ → α) × Bool) : Prop :=
  r'.2 = r.2 ∧ r'.1.nit = r.1.nit ∧ r'.1.isave = r.1.isave ∧ r'.1.time = r.1.time ∧ r'.1.monlog = r.1.monlog
  ∧ (∀ l c, c < n → r'.1.data l c = r.1.data l ((c + m) % n))
  ∧ r'.1.results.length = r.1.results.length
  ∧ (∀ k (hk : k < r.1.results.length) (hk' : k < r'.1.results.length),
      (r'.1.results[k]).it = (r.1.results[k]).it ∧ (r'.1.results[k]).time = (r.1.results[k]).time
      ∧ ∀ l c, c < n → (r'.1.results[k]).data l c = (r.1.results[k]).data l ((c + m) % n))
  ∧ r'.1.traj.length = r.1.traj.length
  ∧ (∀ k (hk : k < r.1.traj.length) (hk' : k < r'.1.traj.length),
      (r'.1.traj[k]).1 = (r.1.traj[k]).1
      ∧ ∀ l c, c < n → (r'.1.traj[k]).2 l c = (r.1.traj[k]).2 l ((c + m) % n))

omit [Field α] [LinearOrder α] [IsStrictOrderedRing α] in
theorem shiftedRun_of_map (n m : ℕ) (r r' : DrvState Unit α (ι → ℕ → α) × Bool) (h2 : r'.2 = r.2)
    (h : DrvState.map id id (shift n 0) (fun _ => id) r'.1 = DrvState.map id id (shift n m) (fun _ => id) r.1) :
    ShiftedRun n m r r' := by
  have cell : ∀ {a b : ι → ℕ → α}, shift n 0 a = shift n m b → ∀ l c, c < n → a l c = b l ((c + m) % n) := by
    intro a b hab l c hc
    rw [← shift_zero_apply n a l c hc, hab]; rfl
  have hres : r'.1.results.map (Snap.map id (shift n 0)) = r.1.results.map (Snap.map id (shift n m)) :=
    congrArg DrvState.results h
  have htraj : r'.1.traj.map (fun x => (id x.1, shift n 0 x.2)) = r.1.traj.map (fun x => (id x.1, shift n m x.2)) :=
    congrArg DrvState.traj h
  have hlog : mapLogs id (fun _ => id) 0 r'.1.monlog = mapLogs id (fun _ => id) 0 r.1.monlog :=
    congrArg DrvState.monlog h
  rw [mapLogs_id, mapLogs_id] at hlog
  have hnit := congrArg DrvState.nit h
  have hisave := congrArg DrvState.isave h
  have htime := congrArg DrvState.time h
  have hdata := congrArg DrvState.data h
  refine ⟨h2, hnit, hisave, htime, hlog, cell hdata, ?_, ?_, ?_, ?_⟩
  · simpa using congrArg List.length hres
  · intro k hk hk'
    have e : Snap.map id (shift n 0) (r'.1.results[k]) = Snap.map id (shift n m) (r.1.results[k]) := by
      have := List.getElem_of_eq hres (i := k) (by simpa using hk')
      simpa using this
    have e1 := congrArg Snap.it e
    have e2 := congrArg Snap.time e
    have e3 := congrArg Snap.data e
    exact ⟨e1, e2, cell e3⟩
  · simpa using congrArg List.length htraj
  · intro k hk hk'
    have e : ((r'.1.traj[k]).1, shift n 0 (r'.1.traj[k]).2) = ((r.1.traj[k]).1, shift n m (r.1.traj[k]).2) := by
      have := List.getElem_of_eq htraj (i := k) (by simpa using hk')
      simpa using this
    have e1 := congrArg Prod.fst e
    have e2 := congrArg Prod.snd e
    exact ⟨e1, cell e2⟩

omit [IsStrictOrderedRing α] in
/-- any stage loop `stepD` which, followed by the wrap, commutes with the shifts (`fD m` the action of the shift by
`m` on time-step values): the solve from the shifted data, wrapped, is the shifted solve.
Two morphisms (C07c) into the wrapped problem: `shift n m` and `shift n 0`. -/
theorem solve_shift_stage {D : Type} (n : ℕ) (fD : ℕ → D → D)
    (stepD stepDW : D → α → (ι → ℕ → α) → StepOut α (ι → ℕ → α))
    (hstep : ∀ m d t q, (stepDW (fD m d) t (shift n m q)).data = shift n m (stepD d t q).data
      ∧ (stepDW (fD m d) t (shift n m q)).time = (stepD d t q).time)
    (calcDt : α → (ι → ℕ → α) → D) (hdt : ∀ m t q, calcDt t (shift n m q) = fD m (calcDt t q))
    (minDt : D → α) (hmin : ∀ m d, minDt (fD m d) = minDt d)
    (scalar : α → D) (hscal : ∀ m a, scalar a = fD m (scalar a)) (dtlocal : Bool)
    (mons : List (ℕ × (α → (ι → ℕ → α) → α))) (hmon : ∀ mon ∈ mons, ∀ m t q, mon.2 t (shift n m q) = mon.2 t q)
    (tottime : Option α) (maxit : Option ℕ) (tsave : List α) (itstart : ℕ) (m fuel : ℕ) (t0 : α) (q0 : ι → ℕ → α) :
    ((stageCfg stepD calcDt minDt scalar dtlocal tottime maxit tsave itstart mons).run fuel () t0 (shift n m q0)).2
        = ((stageCfg stepD calcDt minDt scalar dtlocal tottime maxit tsave itstart mons).run fuel () t0 q0).2
    ∧ DrvState.map id id (shift n 0) (fun _ => id)
          ((stageCfg stepD calcDt minDt scalar dtlocal tottime maxit tsave itstart mons).run fuel () t0
            (shift n m q0)).1
        = DrvState.map id id (shift n m) (fun _ => id)
          ((stageCfg stepD calcDt minDt scalar dtlocal tottime maxit tsave itstart mons).run fuel () t0 q0).1 := by
  have A : ∀ m' q, (stageCfg stepDW calcDt minDt scalar dtlocal tottime maxit tsave itstart mons).run fuel () t0
        (shift n m' q)
      = (DrvState.map id id (shift n m') (fun _ => id)
            ((stageCfg stepD calcDt minDt scalar dtlocal tottime maxit tsave itstart mons).run fuel () t0 q).1,
         ((stageCfg stepD calcDt minDt scalar dtlocal tottime maxit tsave itstart mons).run fuel () t0 q).2) :=
    fun m' q =>
    run_equivariant (stageCfg_hom (shift n m') (fD m') stepD stepDW (hstep m') calcDt calcDt (hdt m') minDt minDt
      (hmin m') scalar scalar (hscal m') dtlocal mons mons (fun _ => id) rfl
      (fun i a a' ha ha' => by
        rw [ha] at ha'; cases ha'
        exact ⟨rfl, fun t q => hmon a (List.mem_of_getElem? ha) m' t q⟩)
      tottime maxit tsave itstart) fuel () t0 q
  have h1 := A m q0
  have h2 := A 0 (shift n m q0)
  rw [shift_zero_shift] at h2
  have := h2.symm.trans h1
  have e1 := congrArg Prod.snd this
  have e2 := congrArg Prod.fst this
  exact ⟨e1, e2⟩

omit [IsStrictOrderedRing α] in
/-- the global-step case -/
theorem solve_shift_global (n : ℕ) (stepf stepfW : α → α → (ι → ℕ → α) → StepOut α (ι → ℕ → α))
    (hstep : ∀ m d t q, (stepfW d t (shift n m q)).data = shift n m (stepf d t q).data
      ∧ (stepfW d t (shift n m q)).time = (stepf d t q).time)
    (dtOf : α → (ι → ℕ → α) → α) (hdt : ∀ m t q, dtOf t (shift n m q) = dtOf t q)
    (mons : List (ℕ × (α → (ι → ℕ → α) → α))) (hmon : ∀ mon ∈ mons, ∀ m t q, mon.2 t (shift n m q) = mon.2 t q)
    (tottime : Option α) (maxit : Option ℕ) (tsave : List α) (itstart : ℕ) (m fuel : ℕ) (t0 : α) (q0 : ι → ℕ → α) :
    ((globalCfg stepf dtOf tottime maxit tsave itstart mons).run fuel () t0 (shift n m q0)).2
        = ((globalCfg stepf dtOf tottime maxit tsave itstart mons).run fuel () t0 q0).2
    ∧ DrvState.map id id (shift n 0) (fun _ => id)
          ((globalCfg stepf dtOf tottime maxit tsave itstart mons).run fuel () t0 (shift n m q0)).1
        = DrvState.map id id (shift n m) (fun _ => id)
          ((globalCfg stepf dtOf tottime maxit tsave itstart mons).run fuel () t0 q0).1 :=
  solve_shift_stage n (fun _ => id) stepf stepfW hstep dtOf hdt id (fun _ _ => rfl) id (fun _ _ => rfl) false mons hmon
    tottime maxit tsave itstart m fuel t0 q0

/-- hypotheses on the problem data shared by the four integrators -/
structure ShiftBlind (n : ℕ) (dtOf : α → (ι → ℕ → α) → α) (mons : List (ℕ × (α → (ι → ℕ → α) → α))) : Prop where
  /-- the time-step rule sees the cells `c < n` only, and not their cyclic order -/
  dt : ∀ m t q, dtOf t (shift n m q) = dtOf t q
  /-- so do the monitors -/
  mon : ∀ mon ∈ mons, ∀ m t q, mon.2 t (shift n m q) = mon.2 t q

variable (n : ℕ) (hn : 0 < n) (L x0 : α) (hL : 0 < L) (s : Scheme α)
  (c2p : (ι → α) → (ι → α)) (Φ : (ι → α) → (ι → α) → (ι → α))
  (dtOf : α → (ι → ℕ → α) → α) (mons : List (ℕ × (α → (ι → ℕ → α) → α))) (hb : ShiftBlind n dtOf mons)
  (tottime : Option α) (maxit : Option ℕ) (tsave : List α) (itstart : ℕ)
include hn hL hb

/-- **C14 for whole solves, generic Butcher loop (any table)**, the operator being `Disc1D.rhs` of the periodic
uniform discretisation: every reconstruction, `cons2prim`, flux, `n ≥ 1`, stop criteria, save times; any shift `m` -/
theorem solve_shift (tbl : List (List α)) (m fuel : ℕ) (t0 : α) (q0 : ι → ℕ → α) :
    ShiftedRun n m
      ((rkCfg tbl (fun _ q => (perDisc n L x0 s c2p Φ).rhs q) dtOf tottime maxit tsave itstart mons).run fuel () t0 q0)
      ((rkCfg tbl (fun _ q => (perDisc n L x0 s c2p Φ).rhs q) dtOf tottime maxit tsave itstart mons).run fuel () t0
        (shift n m q0)) := by
  obtain ⟨h2, h1⟩ := solve_shift_global n
    (fun d t q => rkStepG tbl (fun _ q => (perDisc n L x0 s c2p Φ).rhs q) d (fun v => d • v) t q)
    (fun d t q => rkStepG tbl (wrapRhs n L x0 s c2p Φ) d (fun v => d • v) t q)
    (fun m d t q =>
      have h := rk_equivariant tbl (shift n m) (fun _ q => (perDisc n L x0 s c2p Φ).rhs q) (wrapRhs n L x0 s c2p Φ) _ _
        (intertwines_global _ _ _ (shift_add n m) (shift_smul n m) (wrapRhs_shift n hn L x0 hL s c2p Φ m) d) d t q
      ⟨h.1, h.2.1⟩)
    dtOf hb.dt mons hb.mon tottime maxit tsave itstart m fuel t0 q0
  exact shiftedRun_of_map n m _ _ h2 h1

/-- low-storage loop (any coefficients) -/
theorem solve_shift_ls (tc : α → α) (bs : List α) (m fuel : ℕ) (t0 : α) (q0 : ι → ℕ → α) :
    ShiftedRun n m
      ((lsCfg tc bs (fun _ q => (perDisc n L x0 s c2p Φ).rhs q) dtOf tottime maxit tsave itstart mons).run fuel () t0 q0)
      ((lsCfg tc bs (fun _ q => (perDisc n L x0 s c2p Φ).rhs q) dtOf tottime maxit tsave itstart mons).run fuel () t0
        (shift n m q0)) := by
  obtain ⟨h2, h1⟩ := solve_shift_global n
    (fun d t q => lsStepG tc bs (fun _ q => (perDisc n L x0 s c2p Φ).rhs q) d (fun v => d • v) t q)
    (fun d t q => lsStepG tc bs (wrapRhs n L x0 s c2p Φ) d (fun v => d • v) t q)
    (fun m d t q =>
      ls_equivariant tc bs (shift n m) (fun _ q => (perDisc n L x0 s c2p Φ).rhs q) (wrapRhs n L x0 s c2p Φ) _ _
        (intertwines_global _ _ _ (shift_add n m) (shift_smul n m) (wrapRhs_shift n hn L x0 hL s c2p Φ m) d) d t q)
    dtOf hb.dt mons hb.mon tottime maxit tsave itstart m fuel t0 q0
  exact shiftedRun_of_map n m _ _ h2 h1

/-- forward Euler -/
theorem solve_shift_explicit (m fuel : ℕ) (t0 : α) (q0 : ι → ℕ → α) :
    ShiftedRun n m
      ((explicitCfg (fun _ q => (perDisc n L x0 s c2p Φ).rhs q) dtOf tottime maxit tsave itstart mons).run fuel () t0 q0)
      ((explicitCfg (fun _ q => (perDisc n L x0 s c2p Φ).rhs q) dtOf tottime maxit tsave itstart mons).run fuel () t0
        (shift n m q0)) := by
  obtain ⟨h2, h1⟩ := solve_shift_global n
    (fun d t q => explicitStepG (fun _ q => (perDisc n L x0 s c2p Φ).rhs q) d (fun v => d • v) t q)
    (fun d t q => explicitStepG (wrapRhs n L x0 s c2p Φ) d (fun v => d • v) t q)
    (fun m d t q =>
      explicit_equivariant (shift n m) (fun _ q => (perDisc n L x0 s c2p Φ).rhs q) (wrapRhs n L x0 s c2p Φ) _ _
        (intertwines_global _ _ _ (shift_add n m) (shift_smul n m) (wrapRhs_shift n hn L x0 hL s c2p Φ m) d) d t q)
    dtOf hb.dt mons hb.mon tottime maxit tsave itstart m fuel t0 q0
  exact shiftedRun_of_map n m _ _ h2 h1

/-- midpoint `rk2` -/
theorem solve_shift_rk2 (m fuel : ℕ) (t0 : α) (q0 : ι → ℕ → α) :
    ShiftedRun n m
      ((rk2Cfg (fun _ q => (perDisc n L x0 s c2p Φ).rhs q) dtOf tottime maxit tsave itstart mons).run fuel () t0 q0)
      ((rk2Cfg (fun _ q => (perDisc n L x0 s c2p Φ).rhs q) dtOf tottime maxit tsave itstart mons).run fuel () t0
        (shift n m q0)) := by
  obtain ⟨h2, h1⟩ := solve_shift_global n
    (fun d t q => rk2StepG (fun _ q => (perDisc n L x0 s c2p Φ).rhs q) d (fun v => d • v) (fun v => (d / 2) • v) t q)
    (fun d t q => rk2StepG (wrapRhs n L x0 s c2p Φ) d (fun v => d • v) (fun v => (d / 2) • v) t q)
    (fun m d t q =>
      rk2_equivariant (shift n m) (fun _ q => (perDisc n L x0 s c2p Φ).rhs q) (wrapRhs n L x0 s c2p Φ) _ _ _ _
        (intertwines_global _ _ _ (shift_add n m) (shift_smul n m) (wrapRhs_shift n hn L x0 hL s c2p Φ m) d)
        (fun x => (shift_smul n m (d / 2) x).symm) d t q)
    dtOf hb.dt mons hb.mon tottime maxit tsave itstart m fuel t0 q0
  exact shiftedRun_of_map n m _ _ h2 h1

end shift

/-! ### … and with a local (per-cell) time step -/
section shiftlocal
variable {α : Type} [Field α] [LinearOrder α] [IsStrictOrderedRing α] {ι : Type}

/-- cyclic shift of a per-cell time step -/
def shiftD (n m : ℕ) (d : ℕ → α) : ℕ → α := fun c => d ((c + m) % n)
/-- `dt * residual`, cell by cell -/
def mulCells (d : ℕ → α) (x : ι → ℕ → α) : ι → ℕ → α := fun l c => d c * x l c

omit [LinearOrder α] [IsStrictOrderedRing α] in
theorem mulCells_shift (n m : ℕ) (d : ℕ → α) (x : ι → ℕ → α) :
    mulCells (shiftD n m d) (shift n m x) = shift n m (mulCells d x) := rfl

/-- hypotheses on the problem data: the time-step rule is cell-local (it commutes with the shifts), its minimum
and the monitors see the cells `c < n` only, and not their cyclic order -/
structure ShiftEquiv (n : ℕ) (calcDt : α → (ι → ℕ → α) → (ℕ → α)) (minDt : (ℕ → α) → α)
    (mons : List (ℕ × (α → (ι → ℕ → α) → α))) : Prop where
  dt : ∀ m t q, calcDt t (shift n m q) = shiftD n m (calcDt t q)
  min : ∀ m d, minDt (shiftD n m d) = minDt d
  mon : ∀ mon ∈ mons, ∀ m t q, mon.2 t (shift n m q) = mon.2 t q

variable (n : ℕ) (hn : 0 < n) (L x0 : α) (hL : 0 < L) (s : Scheme α)
  (c2p : (ι → α) → (ι → α)) (Φ : (ι → α) → (ι → α) → (ι → α))
  (calcDt : α → (ι → ℕ → α) → (ℕ → α)) (minDt : (ℕ → α) → α) (mons : List (ℕ × (α → (ι → ℕ → α) → α)))
  (hb : ShiftEquiv n calcDt minDt mons) (dtlocal : Bool)
  (tottime : Option α) (maxit : Option ℕ) (tsave : List α) (itstart : ℕ)
include hn hL hb

/-- **C14 for whole solves with `dtlocal`** (either value of the directive), generic Butcher loop: time-step values
are per-cell arrays `ℕ → α`, a scalar step `a` is the constant array -/
theorem solve_shift_local (tbl : List (List α)) (m fuel : ℕ) (t0 : α) (q0 : ι → ℕ → α) :
    ShiftedRun n m
      ((rkCfgD tbl (fun _ q => (perDisc n L x0 s c2p Φ).rhs q) minDt mulCells calcDt (fun a _ => a) dtlocal
          tottime maxit tsave itstart mons).run fuel () t0 q0)
      ((rkCfgD tbl (fun _ q => (perDisc n L x0 s c2p Φ).rhs q) minDt mulCells calcDt (fun a _ => a) dtlocal
          tottime maxit tsave itstart mons).run fuel () t0 (shift n m q0)) := by
  obtain ⟨h2, h1⟩ := solve_shift_stage n (shiftD n)
    (fun d t q => rkStepG tbl (fun _ q => (perDisc n L x0 s c2p Φ).rhs q) (minDt d) (mulCells d) t q)
    (fun d t q => rkStepG tbl (wrapRhs n L x0 s c2p Φ) (minDt d) (mulCells d) t q)
    (fun m d t q => by
      have h := rk_equivariant tbl (shift n m) (fun _ q => (perDisc n L x0 s c2p Φ).rhs q) (wrapRhs n L x0 s c2p Φ)
        (mulCells d) (mulCells (shiftD n m d))
        ⟨shift_add n m, shift_smul n m, wrapRhs_shift n hn L x0 hL s c2p Φ m, mulCells_shift n m d⟩ (minDt d) t q
      rw [hb.min]
      exact ⟨h.1, h.2.1⟩)
    calcDt hb.dt minDt hb.min (fun a _ => a) (fun _ _ => rfl) dtlocal mons hb.mon tottime maxit tsave itstart
    m fuel t0 q0
  exact shiftedRun_of_map n m _ _ h2 h1

/-- low-storage loop with `dtlocal` -/
theorem solve_shift_ls_local (tc : α → α) (bs : List α) (m fuel : ℕ) (t0 : α) (q0 : ι → ℕ → α) :
    ShiftedRun n m
      ((lsCfgD tc bs (fun _ q => (perDisc n L x0 s c2p Φ).rhs q) minDt mulCells calcDt (fun a _ => a) dtlocal
          tottime maxit tsave itstart mons).run fuel () t0 q0)
      ((lsCfgD tc bs (fun _ q => (perDisc n L x0 s c2p Φ).rhs q) minDt mulCells calcDt (fun a _ => a) dtlocal
          tottime maxit tsave itstart mons).run fuel () t0 (shift n m q0)) := by
  obtain ⟨h2, h1⟩ := solve_shift_stage n (shiftD n)
    (fun d t q => lsStepG tc bs (fun _ q => (perDisc n L x0 s c2p Φ).rhs q) (minDt d) (mulCells d) t q)
    (fun d t q => lsStepG tc bs (wrapRhs n L x0 s c2p Φ) (minDt d) (mulCells d) t q)
    (fun m d t q => by
      have h := ls_equivariant tc bs (shift n m) (fun _ q => (perDisc n L x0 s c2p Φ).rhs q)
        (wrapRhs n L x0 s c2p Φ) (mulCells d) (mulCells (shiftD n m d))
        ⟨shift_add n m, shift_smul n m, wrapRhs_shift n hn L x0 hL s c2p Φ m, mulCells_shift n m d⟩ (minDt d) t q
      rw [hb.min]
      exact h)
    calcDt hb.dt minDt hb.min (fun a _ => a) (fun _ _ => rfl) dtlocal mons hb.mon tottime maxit tsave itstart
    m fuel t0 q0
  exact shiftedRun_of_map n m _ _ h2 h1

/-- forward Euler with `dtlocal` -/
theorem solve_shift_explicit_local (m fuel : ℕ) (t0 : α) (q0 : ι → ℕ → α) :
    ShiftedRun n m
      ((explicitCfgD (fun _ q => (perDisc n L x0 s c2p Φ).rhs q) minDt mulCells calcDt (fun a _ => a) dtlocal
          tottime maxit tsave itstart mons).run fuel () t0 q0)
      ((explicitCfgD (fun _ q => (perDisc n L x0 s c2p Φ).rhs q) minDt mulCells calcDt (fun a _ => a) dtlocal
          tottime maxit tsave itstart mons).run fuel () t0 (shift n m q0)) := by
  obtain ⟨h2, h1⟩ := solve_shift_stage n (shiftD n)
    (fun d t q => explicitStepG (fun _ q => (perDisc n L x0 s c2p Φ).rhs q) (minDt d) (mulCells d) t q)
    (fun d t q => explicitStepG (wrapRhs n L x0 s c2p Φ) (minDt d) (mulCells d) t q)
    (fun m d t q => by
      have h := explicit_equivariant (shift n m) (fun _ q => (perDisc n L x0 s c2p Φ).rhs q)
        (wrapRhs n L x0 s c2p Φ) (mulCells d) (mulCells (shiftD n m d))
        ⟨shift_add n m, shift_smul n m, wrapRhs_shift n hn L x0 hL s c2p Φ m, mulCells_shift n m d⟩ (minDt d) t q
      rw [hb.min]
      exact h)
    calcDt hb.dt minDt hb.min (fun a _ => a) (fun _ _ => rfl) dtlocal mons hb.mon tottime maxit tsave itstart
    m fuel t0 q0
  exact shiftedRun_of_map n m _ _ h2 h1

end shiftlocal

/-! ### non-vacuity: shift-blind time-step rules and monitors, a concrete instance -/
section examples
open Finset
variable {α : Type} [Field α] {ι : Type}

/-- a sum over all the cells does not see a cyclic shift -/
theorem sum_range_shift (n m : ℕ) (f : ℕ → α) : ∑ c ∈ range n, f ((c + m) % n) = ∑ c ∈ range n, f c := by
  induction m generalizing f with
  | zero =>
    refine Finset.sum_congr rfl fun c hc => ?_
    rw [Nat.add_zero, Nat.mod_eq_of_lt (Finset.mem_range.mp hc)]
  | succ m ih =>
    have h1 : ∀ g : ℕ → α, ∑ c ∈ range n, g ((c + 1) % n) = ∑ c ∈ range n, g c := by
      intro g
      cases n with
      | zero => simp
      | succ k =>
        rw [Finset.sum_range_succ, Finset.sum_range_succ', Nat.mod_self]
        congr 1
        refine Finset.sum_congr rfl fun c hc => ?_
        rw [Nat.mod_eq_of_lt (by have := Finset.mem_range.mp hc; omega)]
    rw [← ih f, ← h1 (fun c => f ((c + m) % n))]
    refine Finset.sum_congr rfl fun c _ => ?_
    show f ((c + (m + 1)) % n) = f (((c + 1) % n + m) % n)
    rw [Nat.mod_add_mod, Nat.add_assoc, Nat.add_comm m 1]

/-- the volume-weighted average on the uniform mesh (the usual monitor) does not see a cyclic shift -/
theorem average_shift (n : ℕ) (L x0 : α) (m : ℕ) (q : ι → ℕ → α) (l : ι) :
    (uniMesh n L x0).average (shift n m q l) = (uniMesh n L x0).average (q l) := by
  have hv : ∀ i, (uniMesh n L x0).vol i = L / n := by
    intro i
    simp only [Mesh1D.vol, uniMesh]
    push_cast
    ring
  unfold Mesh1D.average
  simp only [hv]
  congr 1
  exact sum_range_shift n m (fun c => q l c * (L / n))

/-- a state-dependent time-step rule and a monitor built on averages are shift-blind -/
theorem shiftBlind_average [LinearOrder α] (n : ℕ) (L x0 cfl : α) (l : ι) (freq : ℕ) :
    ShiftBlind n (fun _ q => cfl * (L / n) / (1 + ((uniMesh n L x0).average (q l)) ^ 2))
      [(freq, fun _ q => (uniMesh n L x0).average (q l))] where
  dt := fun m t q => by simp only [average_shift]
  mon := fun mon hmon m t q => by
    rw [List.mem_singleton] at hmon
    subst hmon
    exact average_shift n L x0 m q l

/-- 3 cells, second-order extrapolation, upwind flux, Heun's table, state-dependent time step, one save time, one
monitor: the hypotheses of `solve_shift` hold -/
example (m fuel : ℕ) (q0 : Unit → ℕ → ℚ) :
    ShiftedRun 3 m
      ((rkCfg [[1], [1/2, 1/2]] (fun _ q => (perDisc 3 1 0 Scheme.extrapol2 id (fun L _ => L)).rhs q)
          (fun _ q => (1/2) * (1 / ((3 : ℕ) : ℚ)) / (1 + ((uniMesh 3 1 0).average (q ())) ^ 2)) (some 1) none [1/2, 1] 0
          [(1, fun _ q => (uniMesh 3 1 0).average (q ()))]).run fuel () 0 q0)
      ((rkCfg [[1], [1/2, 1/2]] (fun _ q => (perDisc 3 1 0 Scheme.extrapol2 id (fun L _ => L)).rhs q)
          (fun _ q => (1/2) * (1 / ((3 : ℕ) : ℚ)) / (1 + ((uniMesh 3 1 0).average (q ())) ^ 2)) (some 1) none [1/2, 1] 0
          [(1, fun _ q => (uniMesh 3 1 0).average (q ()))]).run fuel () 0 (shift 3 m q0)) :=
  solve_shift 3 (by norm_num) 1 0 (by norm_num) Scheme.extrapol2 id (fun L _ => L) _ _
    (shiftBlind_average 3 1 0 (1/2) () 1) (some 1) none [1/2, 1] 0 [[1], [1/2, 1/2]] m fuel 0 q0

/-- the cyclic shift permutes the cells `c < n` -/
theorem shift_surj {n : ℕ} (m c : ℕ) (hc : c < n) : ∃ c', c' < n ∧ (c' + m) % n = c := by
  have hn : 0 < n := by omega
  refine ⟨(c + (n - m % n)) % n, Nat.mod_lt _ hn, ?_⟩
  have hr : m % n < n := Nat.mod_lt _ hn
  have hm : n * (m / n) + m % n = m := Nat.div_add_mod m n
  have : c + (n - m % n) + m = c + n * (m / n + 1) := by
    rw [Nat.mul_add, Nat.mul_one]; omega
  rw [Nat.mod_add_mod, this, Nat.add_mul_mod_self_left, Nat.mod_eq_of_lt hc]

/-- `min(dtloc)`: the minimum over the cells `c < n` -/
def minCells [LinearOrder α] (n : ℕ) (hn : 0 < n) (d : ℕ → α) : α :=
  (range n).inf' ⟨0, mem_range.2 hn⟩ d

omit [Field α] in
theorem minCells_shift [LinearOrder α] (n : ℕ) (hn : 0 < n) (m : ℕ) (d : ℕ → α) :
    minCells n hn (shiftD n m d) = minCells n hn d := by
  unfold minCells
  apply le_antisymm
  · refine Finset.le_inf' _ _ fun c hc => ?_
    obtain ⟨c', hc', e⟩ := shift_surj m c (mem_range.1 hc)
    have := Finset.inf'_le (shiftD n m d) (mem_range.2 hc')
    rwa [show shiftD n m d c' = d c from congrArg d e] at this
  · refine Finset.le_inf' _ _ fun c _ => ?_
    exact Finset.inf'_le d (mem_range.2 (Nat.mod_lt _ hn))

/-- a cell-local CFL-like rule, the true minimum and an average monitor satisfy `ShiftEquiv` -/
theorem shiftEquiv_cfl [LinearOrder α] (n : ℕ) (hn : 0 < n) (L x0 cfl : α) (l : ι) (freq : ℕ) :
    ShiftEquiv n (fun _ q c => cfl * (L / n) / (1 + (q l c) ^ 2)) (minCells n hn)
      [(freq, fun _ q => (uniMesh n L x0).average (q l))] where
  dt := fun _ _ _ => rfl
  min := minCells_shift n hn
  mon := fun mon hmon m t q => by
    rw [List.mem_singleton] at hmon
    subst hmon
    exact average_shift n L x0 m q l

/-- `solve_shift_local` with `dtlocal = True`: 3 cells, second-order extrapolation, upwind flux, Heun's table -/
example (m fuel : ℕ) (q0 : Unit → ℕ → ℚ) :
    ShiftedRun 3 m
      ((rkCfgD [[1], [1/2, 1/2]] (fun _ q => (perDisc 3 1 0 Scheme.extrapol2 id (fun L _ => L)).rhs q)
          (minCells 3 (by norm_num)) mulCells (fun _ q c => (1/2) * (1 / ((3 : ℕ) : ℚ)) / (1 + (q () c) ^ 2))
          (fun a _ => a) true (some 1) none [1/2, 1] 0
          [(1, fun _ q => (uniMesh 3 1 0).average (q ()))]).run fuel () 0 q0)
      ((rkCfgD [[1], [1/2, 1/2]] (fun _ q => (perDisc 3 1 0 Scheme.extrapol2 id (fun L _ => L)).rhs q)
          (minCells 3 (by norm_num)) mulCells (fun _ q c => (1/2) * (1 / ((3 : ℕ) : ℚ)) / (1 + (q () c) ^ 2))
          (fun a _ => a) true (some 1) none [1/2, 1] 0
          [(1, fun _ q => (uniMesh 3 1 0).average (q ()))]).run fuel () 0 (shift 3 m q0)) :=
  solve_shift_local 3 (by norm_num) 1 0 (by norm_num) Scheme.extrapol2 id (fun L _ => L) _ _ _
    (shiftEquiv_cfl 3 (by norm_num) 1 0 (1/2) () 1) true (some 1) none [1/2, 1] 0 [[1], [1/2, 1/2]] m fuel 0 q0

/-- `solve_equivariant_rk` with a nonlinear operator: `q' = -q³` on `ℚ` is odd, the time-step rule `1/(1+q²)` is
even, the monitor `q` is odd: the solve from `-q0` is the negative of the solve from `q0` (any table) -/
example (tbl : List (List ℚ)) (fuel : ℕ) (q0 : ℚ) :
    (rkCfg tbl (fun _ q => -q ^ 3) (fun _ q => 1 / (1 + q ^ 2)) (some 1) none [1/3, 1] 0
        [(1, fun _ q => q)]).run fuel () 0 (-q0)
      = (DrvState.map id id (fun q => -q) (fun _ v => -v)
          ((rkCfg tbl (fun _ q => -q ^ 3) (fun _ q => 1 / (1 + q ^ 2)) (some 1) none [1/3, 1] 0
            [(1, fun _ q => q)]).run fuel () 0 q0).1,
         ((rkCfg tbl (fun _ q => -q ^ 3) (fun _ q => 1 / (1 + q ^ 2)) (some 1) none [1/3, 1] 0
            [(1, fun _ q => q)]).run fuel () 0 q0).2) :=
  solve_equivariant_rk tbl (fun q => -q) _ _ (fun x y => by ring) (fun a x => by simp)
    (fun t q => by ring) _ _ (fun t q => by ring) _ _ _ rfl
    (fun i m m' hm hm' => by
      rw [hm] at hm'; cases hm'
      rcases i with _ | i
      · simp only [List.getElem?_cons_zero, Option.some.injEq] at hm
        subst hm; exact ⟨rfl, fun _ _ => rfl⟩
      · simp at hm)
    (some 1) none [1/3, 1] 0 fuel 0 q0
end examples

end Flowdyn.C14
