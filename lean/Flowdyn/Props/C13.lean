/-
C13 — the 1D solver commutes with reflection and with change of units.
Part a: reflection equivariance of the space operator for arbitrary kernels obeying the mirror laws
(proved for the concrete kernels in C02 `…_mirror`, C12 `…_odd`, C16).
Part b: units equivariance for kernels obeying the homogeneity laws.
-/
import Flowdyn.Props.C13a
import Flowdyn.Props.C13b
import Flowdyn.Props.C13c
