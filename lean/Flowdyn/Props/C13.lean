import Flowdyn.Model.FVM1D
namespace Flowdyn.C13
end Flowdyn.C13
