/-
C16 — boundary states satisfy the conditions that define them.

Over ℝ (`Real.sqrt`, `Real.rpow`).  `dir = -1` (left boundary) or `+1` (right boundary); regime
hypotheses are explicit.  Totals of a primitive state:
  ptotOf  = p (1 + (γ-1)/2 M²)^(γ/(γ-1)),   rttotOf = p/ρ (1 + (γ-1)/2 M²),   M² = u²/(γ p/ρ).
-/
import Flowdyn.Model.Kernels.ShallowWater
import Flowdyn.Model.Kernels.Euler
import Flowdyn.Model.Kernels.Euler2D
import Flowdyn.Lemmas.RealInst
import Mathlib.Tactic.Ring
import Mathlib.Tactic.Linarith
import Mathlib.Tactic.FieldSimp
import Mathlib.Tactic.Positivity
import Mathlib.Tactic.NormNum

namespace Flowdyn.C16
open Flowdyn

noncomputable def ptotOf (γ r u p : ℝ) : ℝ := p * (1 + (γ - 1) / 2 * (u ^ 2 / (γ * p / r))) ^ (γ / (γ - 1))
noncomputable def rttotOf (γ r u p : ℝ) : ℝ := p / r * (1 + (γ - 1) / 2 * (u ^ 2 / (γ * p / r)))


/-! ### helper lemmas: the isentropic relations behind the inlet conditions -/

private lemma X_eq (γ q : ℝ) (hγ : 1 < γ) (hq : 1 ≤ q) :
    0 ≤ max 0 ((q ^ ((γ - 1) / γ) - 1) * 2 / (γ - 1)) ∧
    1 + 1/2 * (γ - 1) * max 0 ((q ^ ((γ - 1) / γ) - 1) * 2 / (γ - 1)) = q ^ ((γ - 1) / γ) := by
  have hgmu : 0 < γ - 1 := by linarith
  have hg0 : 0 < γ := by linarith
  have hpow : 1 ≤ q ^ ((γ - 1) / γ) := Real.one_le_rpow hq (by positivity)
  have hm2 : max 0 ((q ^ ((γ - 1) / γ) - 1) * 2 / (γ - 1))
      = (q ^ ((γ - 1) / γ) - 1) * 2 / (γ - 1) := by
    apply max_eq_right; apply div_nonneg _ hgmu.le; nlinarith
  refine ⟨le_max_left _ _, ?_⟩
  rw [hm2]; field_simp; ring

private lemma X_pow (γ q : ℝ) (hγ : 1 < γ) (hq : 0 < q) :
    (q ^ ((γ - 1) / γ)) ^ (γ / (γ - 1)) = q ∧
    (q ^ ((γ - 1) / γ)) ^ (1 / (γ - 1)) * q ^ ((γ - 1) / γ) = q := by
  have hgmu : 0 < γ - 1 := by linarith
  have hg0 : 0 < γ := by linarith
  constructor
  · rw [← Real.rpow_mul hq.le]
    have : (γ - 1) / γ * (γ / (γ - 1)) = 1 := by field_simp
    rw [this, Real.rpow_one]
  · rw [← Real.rpow_mul hq.le, ← Real.rpow_add hq]
    have : (γ - 1) / γ * (1 / (γ - 1)) + (γ - 1) / γ = 1 := by field_simp; ring
    rw [this, Real.rpow_one]

/-- common core of `insub`, `insup`, `outsub_qtot` and their 2D versions -/
private lemma inlet_core (γ ptot rttot p v m2 rh : ℝ) (hγ : 1 < γ) (hp : 0 < p) (hpt : p ≤ ptot)
    (hrt : 0 < rttot)
    (hm2 : m2 = max 0 (((ptot / p) ^ ((γ - 1) / γ) - 1) * 2 / (γ - 1)))
    (hrh : rh = ptot / rttot / (1 + 1/2 * (γ - 1) * m2) ^ (1 / (γ - 1))) :
    0 ≤ m2 ∧ 0 < rh ∧
      (v ^ 2 = γ * m2 * p / rh → ptotOf γ rh v p = ptot ∧ rttotOf γ rh v p = rttot) := by
  have hgmu : 0 < γ - 1 := by linarith
  have hg0 : 0 < γ := by linarith
  have hptot : 0 < ptot := lt_of_lt_of_le hp hpt
  have hratio : 1 ≤ ptot / p := by rw [le_div_iff₀ hp]; linarith
  have hq : 0 < ptot / p := by positivity
  obtain ⟨hm0, hX⟩ := X_eq γ (ptot / p) hγ hratio
  obtain ⟨hP1, hP2⟩ := X_pow γ (ptot / p) hγ hq
  rw [← hm2] at hm0 hX
  rw [hX] at hrh
  set X := (ptot / p) ^ ((γ - 1) / γ) with hXdef
  have hXpos : 0 < X := by positivity
  have hXg : 0 < X ^ (1 / (γ - 1)) := by positivity
  have hrhpos : 0 < rh := by rw [hrh]; positivity
  refine ⟨hm0, hrhpos, fun hv => ?_⟩
  have hM : v ^ 2 / (γ * p / rh) = m2 := by rw [hv]; field_simp
  have hF : 1 + (γ - 1) / 2 * m2 = X := by rw [← hX]; ring
  constructor
  · unfold ptotOf
    rw [hM, hF, hP1]; field_simp
  · unfold rttotOf
    rw [hM, hF, hrh]
    have : p / (ptot / rttot / X ^ (1 / (γ - 1))) * X
        = p * rttot / ptot * (X ^ (1 / (γ - 1)) * X) := by field_simp
    rw [this, hP2]; field_simp


/-- with the totals of `(r,u,p)` itself the inlet computation recovers `M²` and `ρ` -/
private lemma compat_core (γ r u p : ℝ) (hγ : 1 < γ) (hr : 0 < r) (hp : 0 < p) :
    max 0 (((ptotOf γ r u p / p) ^ ((γ - 1) / γ) - 1) * 2 / (γ - 1)) = u ^ 2 / (γ * p / r) ∧
    ptotOf γ r u p / rttotOf γ r u p
      / (1 + 1/2 * (γ - 1) * (u ^ 2 / (γ * p / r))) ^ (1 / (γ - 1)) = r := by
  have hgmu : 0 < γ - 1 := by linarith
  have hg0 : 0 < γ := by linarith
  have hM0 : 0 ≤ u ^ 2 / (γ * p / r) := by positivity
  unfold ptotOf rttotOf
  set M2 := u ^ 2 / (γ * p / r) with hM2
  have hFF : 1 + 1/2 * (γ - 1) * M2 = 1 + (γ - 1) / 2 * M2 := by ring
  rw [hFF]
  set F := 1 + (γ - 1) / 2 * M2 with hF
  have hFpos : 0 < F := by rw [hF]; positivity
  have hq : p * F ^ (γ / (γ - 1)) / p = F ^ (γ / (γ - 1)) := by field_simp
  have hback : (F ^ (γ / (γ - 1))) ^ ((γ - 1) / γ) = F := by
    rw [← Real.rpow_mul hFpos.le]
    have : γ / (γ - 1) * ((γ - 1) / γ) = 1 := by field_simp
    rw [this, Real.rpow_one]
  have hadd : F ^ (1 / (γ - 1)) * F = F ^ (γ / (γ - 1)) := by
    have h1 : F ^ (1 / (γ - 1)) * F = F ^ (1 / (γ - 1)) * F ^ (1 : ℝ) := by rw [Real.rpow_one]
    rw [h1, ← Real.rpow_add hFpos]
    congr 1; field_simp; ring
  have hG : 0 < F ^ (1 / (γ - 1)) := by positivity
  constructor
  · rw [hq, hback]
    have : (F - 1) * 2 / (γ - 1) = M2 := by rw [hF]; field_simp; ring
    rw [this]; exact max_eq_right hM0
  · rw [← hadd]; field_simp

private lemma rh_alg (γ r p M : ℝ) (hγ : 1 < γ) (hr : 0 < r) (hp : 0 < p) (hM : 0 < M) :
    r * ((γ + 1) * M / (2 + (γ - 1) * M)) * (γ * p / r * M / ((γ + 1) * M / (2 + (γ - 1) * M)) ^ 2)
        + p * (1 + (M - 1) * (2 * γ) / (γ + 1)) = r * (γ * p / r * M) + p ∧
    γ / (γ - 1) * (p * (1 + (M - 1) * (2 * γ) / (γ + 1))) / (r * ((γ + 1) * M / (2 + (γ - 1) * M)))
        + (γ * p / r * M / ((γ + 1) * M / (2 + (γ - 1) * M)) ^ 2) / 2
      = γ / (γ - 1) * p / r + (γ * p / r * M) / 2 := by
  have hgmu : 0 < γ - 1 := by linarith
  have hg0 : 0 < γ := by linarith
  have hden : 0 < 2 + (γ - 1) * M := by have := mul_pos hgmu hM; linarith
  have h1 : γ - 1 ≠ 0 := hgmu.ne'
  have h2 : 2 + (γ - 1) * M ≠ 0 := hden.ne'
  have h3 : γ + 1 ≠ 0 := by linarith
  constructor
  · field_simp; ring
  · field_simp; ring


private lemma rpow_inv_mul_self (γ F : ℝ) (hγ : 1 < γ) (hF : 0 < F) :
    F ^ (1 / (γ - 1)) * F = F ^ (γ / (γ - 1)) := by
  have hgmu : 0 < γ - 1 := by linarith
  have h1 : F ^ (1 / (γ - 1)) * F = F ^ (1 / (γ - 1)) * F ^ (1 : ℝ) := by rw [Real.rpow_one]
  rw [h1, ← Real.rpow_add hF]
  congr 1; field_simp; ring

/-- the sound speed chosen by `insub_cbc` satisfies the energy relation `a1² + (γ-1)/2 u1² = γ r Tt` -/
private lemma cbc_alg (γ d I s rttot : ℝ) (hγ : 1 < γ) (hd : d = 1 ∨ d = -1)
    (hs2 : s ^ 2 = γ * (γ + 1) / (γ - 1) * rttot - 1/2 * (γ - 1) * I ^ 2) :
    ((d * I + s) * (γ - 1) / (γ + 1)) ^ 2
      + 1/2 * (γ - 1) * (I - d * 2 * ((d * I + s) * (γ - 1) / (γ + 1)) / (γ - 1)) ^ 2
      = γ * rttot := by
  have hgmu : 0 < γ - 1 := by linarith
  have hg0 : 0 < γ := by linarith
  have h1 : γ - 1 ≠ 0 := hgmu.ne'
  have h3 : γ + 1 ≠ 0 := by linarith
  have hrt : rttot = (s ^ 2 + 1/2 * (γ - 1) * I ^ 2) * (γ - 1) / (γ * (γ + 1)) := by
    rw [hs2]; field_simp; ring
  rw [hrt]
  rcases hd with h | h <;> subst h <;> field_simp <;> ring

/-! ### trivial conditions (any ordered field would do; stated on ℝ) -/
theorem sym_reverses_velocity_only (r u p : ℝ) : eBcSym r u p = (r, -u, p) := rfl
theorem outsup_copies (r u p : ℝ) : eBcOutsup r u p = (r, u, p) := rfl
theorem outsub_imposes_pressure (pext r u p : ℝ) : eBcOutsub pext r u p = (r, u, pext) := rfl
theorem sw_sym (h u : ℝ) : swBcSym h u = (h, -u) := rfl
theorem sw_inf (h u : ℝ) : swBcInf h u = (h, u) := rfl

/-! ### insub: imposed total pressure and temperature, interior pressure kept, inflow -/
theorem insub_def (γ dir ptot rttot r u p : ℝ) (hγ : 1 < γ) (hp : 0 < p) (hpt : p ≤ ptot)
    (hrt : 0 < rttot) (hdir : dir = 1 ∨ dir = -1) :
    (let W := eBcInsub γ dir ptot rttot r u p
     W.2.2 = p ∧ 0 < W.1 ∧ ptotOf γ W.1 W.2.1 W.2.2 = ptot ∧ rttotOf γ W.1 W.2.1 W.2.2 = rttot
     ∧ 0 ≤ -dir * W.2.1) := by
  simp only [eBcInsub, HasSqrt.sqrt_real, HasRpow.rpow_real]
  set m2 := max 0 (((ptot / p) ^ ((γ - 1) / γ) - 1) * 2 / (γ - 1)) with hm2
  set rh := ptot / rttot / (1 + 1/2 * (γ - 1) * m2) ^ (1 / (γ - 1)) with hrh
  have hg0 : 0 < γ := by linarith
  obtain ⟨hm0, hrhpos, hcore⟩ :=
    inlet_core γ ptot rttot p (-dir * Real.sqrt (γ * m2 * p / rh)) m2 rh hγ hp hpt hrt hm2 hrh
  have hrad : 0 ≤ γ * m2 * p / rh := by positivity
  have hd2 : dir ^ 2 = 1 := by rcases hdir with h | h <;> rw [h] <;> norm_num
  have hv : (-dir * Real.sqrt (γ * m2 * p / rh)) ^ 2 = γ * m2 * p / rh := by
    rw [mul_pow, Real.sq_sqrt hrad, neg_sq, hd2, one_mul]
  obtain ⟨h1, h2⟩ := hcore hv
  refine ⟨trivial, hrhpos, h1, h2, ?_⟩
  have : -dir * (-dir * Real.sqrt (γ * m2 * p / rh)) = dir ^ 2 * Real.sqrt (γ * m2 * p / rh) := by
    ring
  rw [this, hd2, one_mul]; exact Real.sqrt_nonneg _

/-! ### insup: imposed totals and static pressure, inflow -/
theorem insup_def (γ dir ptot rttot pin : ℝ) (hγ : 1 < γ) (hp : 0 < pin) (hpt : pin ≤ ptot)
    (hrt : 0 < rttot) (hdir : dir = 1 ∨ dir = -1) :
    (let W := eBcInsup γ dir ptot rttot pin
     W.2.2 = pin ∧ 0 < W.1 ∧ ptotOf γ W.1 W.2.1 W.2.2 = ptot ∧ rttotOf γ W.1 W.2.1 W.2.2 = rttot
     ∧ 0 ≤ -dir * W.2.1) := by
  have h := insub_def γ dir ptot rttot 1 0 pin hγ hp hpt hrt hdir
  exact h

/-! ### insub_cbc: imposed totals, outgoing Riemann invariant `u + dir·2c/(γ-1)` kept.
Regime: positive discriminant and positive resulting sound speed `a1`. -/
theorem insub_cbc_def (γ dir ptot rttot r u p : ℝ) (hγ : 1 < γ) (hr : 0 < r) (hp : 0 < p)
    (hpt : 0 < ptot) (hrt : 0 < rttot) (hdir : dir = 1 ∨ dir = -1)
    (hdisc : 0 ≤ γ * (γ + 1) / (γ - 1) * rttot
                 - 1/2 * (γ - 1) * (u + dir * 2 * Real.sqrt (γ * p / r) / (γ - 1)) ^ 2)
    (ha1 : 0 < dir * (u + dir * 2 * Real.sqrt (γ * p / r) / (γ - 1))
               + Real.sqrt (γ * (γ + 1) / (γ - 1) * rttot
                   - 1/2 * (γ - 1) * (u + dir * 2 * Real.sqrt (γ * p / r) / (γ - 1)) ^ 2)) :
    (let W := eBcInsubCbc γ dir ptot rttot r u p
     0 < W.1 ∧ 0 < W.2.2
     ∧ ptotOf γ W.1 W.2.1 W.2.2 = ptot ∧ rttotOf γ W.1 W.2.1 W.2.2 = rttot
     ∧ W.2.1 + dir * 2 * Real.sqrt (γ * W.2.2 / W.1) / (γ - 1)
         = u + dir * 2 * Real.sqrt (γ * p / r) / (γ - 1)) := by
  simp only [eBcInsubCbc, HasSqrt.sqrt_real, HasRpow.rpow_real]
  have hgmu : 0 < γ - 1 := by linarith
  have hg0 : 0 < γ := by linarith
  set I := u + dir * 2 * Real.sqrt (γ * p / r) / (γ - 1) with hI
  set D := γ * (γ + 1) / (γ - 1) * rttot - 1/2 * (γ - 1) * I ^ 2 with hD
  set s := Real.sqrt D with hs
  have hs2 : s ^ 2 = γ * (γ + 1) / (γ - 1) * rttot - 1/2 * (γ - 1) * I ^ 2 := Real.sq_sqrt hdisc
  have hE := cbc_alg γ dir I s rttot hγ hdir hs2
  set a1 := (dir * I + s) * (γ - 1) / (γ + 1) with ha1def
  set u1 := I - dir * 2 * a1 / (γ - 1) with hu1
  have ha1pos : 0 < a1 := by rw [ha1def]; positivity
  set f := 1 + 1/2 * (γ - 1) * (u1 / a1) ^ 2 with hf
  have hfpos : 0 < f := by rw [hf]; positivity
  clear_value f u1 a1 s D I
  have hfa : a1 ^ 2 * f = γ * rttot := by rw [hf, ← hE]; field_simp
  have hG1 : 0 < f ^ (1 / (γ - 1)) := by positivity
  have hG2 : 0 < f ^ (γ / (γ - 1)) := by positivity
  have hadd := rpow_inv_mul_self γ f hγ hfpos
  have hrho : 0 < ptot / rttot / f ^ (1 / (γ - 1)) := by positivity
  have hp1 : 0 < ptot / f ^ (γ / (γ - 1)) := by positivity
  have hratio : ptot / f ^ (γ / (γ - 1)) / (ptot / rttot / f ^ (1 / (γ - 1))) = rttot / f := by
    rw [← hadd]; field_simp
  have hc2 : γ * (ptot / f ^ (γ / (γ - 1))) / (ptot / rttot / f ^ (1 / (γ - 1))) = a1 ^ 2 := by
    rw [mul_div_assoc, hratio]
    have : γ * rttot = a1 ^ 2 * f := hfa.symm
    field_simp; linarith
  have hM : 1 + (γ - 1) / 2 * (u1 ^ 2 / a1 ^ 2) = f := by rw [hf, div_pow]; ring
  refine ⟨hrho, hp1, ?_, ?_, ?_⟩
  · unfold ptotOf
    rw [hc2, hM]; field_simp
  · unfold rttotOf
    rw [hc2, hM, hratio]; field_simp
  · rw [hc2, Real.sqrt_sq ha1pos.le, hu1]; field_simp; ring

/-! ### outsub_qtot: interior totals kept, pressure imposed, outflow -/
theorem outsub_qtot_def (γ dir pext r u p : ℝ) (hγ : 1 < γ) (hr : 0 < r) (hp : 0 < p) (hpe : 0 < pext)
    (hreg : pext ≤ ptotOf γ r u p) (hdir : dir = 1 ∨ dir = -1) :
    (let W := eBcOutsubQtot γ dir pext r u p
     W.2.2 = pext ∧ 0 < W.1 ∧ ptotOf γ W.1 W.2.1 W.2.2 = ptotOf γ r u p
     ∧ rttotOf γ W.1 W.2.1 W.2.2 = rttotOf γ r u p ∧ 0 ≤ dir * W.2.1) := by
  have hg0 : 0 < γ := by linarith
  have hgmu : 0 < γ - 1 := by linarith
  have hPt : p * (1 + 1/2 * (γ - 1) * (u ^ 2 / (γ * p / r))) ^ (γ / (γ - 1)) = ptotOf γ r u p := by
    unfold ptotOf; congr 2; ring
  have hRt : p / r * (1 + 1/2 * (γ - 1) * (u ^ 2 / (γ * p / r))) = rttotOf γ r u p := by
    unfold rttotOf; ring
  have hrt : 0 < rttotOf γ r u p := by
    unfold rttotOf
    have : 0 ≤ u ^ 2 / (γ * p / r) := by positivity
    have : 0 < 1 + (γ - 1) / 2 * (u ^ 2 / (γ * p / r)) := by positivity
    positivity
  simp only [eBcOutsubQtot, HasSqrt.sqrt_real, HasRpow.rpow_real]
  rw [hPt, hRt]
  set ptot := ptotOf γ r u p with hptot
  set rttot := rttotOf γ r u p with hrttot
  set m2 := max 0 (((ptot / pext) ^ ((γ - 1) / γ) - 1) * 2 / (γ - 1)) with hm2
  set rh := ptot / rttot / (1 + 1/2 * (γ - 1) * m2) ^ (1 / (γ - 1)) with hrh
  obtain ⟨hm0, hrhpos, hcore⟩ :=
    inlet_core γ ptot rttot pext (dir * Real.sqrt (γ * m2 * pext / rh)) m2 rh hγ hpe hreg hrt hm2 hrh
  have hrad : 0 ≤ γ * m2 * pext / rh := by positivity
  have hd2 : dir ^ 2 = 1 := by rcases hdir with h | h <;> rw [h] <;> norm_num
  have hv : (dir * Real.sqrt (γ * m2 * pext / rh)) ^ 2 = γ * m2 * pext / rh := by
    rw [mul_pow, Real.sq_sqrt hrad, hd2, one_mul]
  obtain ⟨h1, h2⟩ := hcore hv
  refine ⟨trivial, hrhpos, h1, h2, ?_⟩
  have : dir * (dir * Real.sqrt (γ * m2 * pext / rh)) = dir ^ 2 * Real.sqrt (γ * m2 * pext / rh) := by
    ring
  rw [this, hd2, one_mul]; exact Real.sqrt_nonneg _

/-! ### outsub_nrcbc: entropy `p/ρ^γ` and outgoing invariant `u - dir·2c/(γ-1)` kept, pressure imposed -/
theorem outsub_nrcbc_def (γ dir pext r u p : ℝ) (hγ : 1 < γ) (hr : 0 < r) (hp : 0 < p) (hpe : 0 < pext) :
    (let W := eBcOutsubNrcbc γ dir pext r u p
     W.2.2 = pext ∧ 0 < W.1 ∧ W.2.2 / W.1 ^ γ = p / r ^ γ
     ∧ W.2.1 - dir * 2 / (γ - 1) * Real.sqrt (γ * W.2.2 / W.1)
         = u - dir * 2 / (γ - 1) * Real.sqrt (γ * p / r)) := by
  simp only [eBcOutsubNrcbc, HasSqrt.sqrt_real, HasRpow.rpow_real]
  have hg0 : 0 < γ := by linarith
  have hq : 0 < pext / p := by positivity
  have hqg : 0 < (pext / p) ^ (1 / γ) := by positivity
  have hrg : 0 < r ^ γ := by positivity
  have hpow : (r * (pext / p) ^ (1 / γ)) ^ γ = r ^ γ * (pext / p) := by
    rw [Real.mul_rpow hr.le hqg.le, ← Real.rpow_mul hq.le]
    have : 1 / γ * γ = 1 := by field_simp
    rw [this, Real.rpow_one]
  refine ⟨trivial, by positivity, ?_, by ring⟩
  rw [hpow]; field_simp

/-! ### outsub_rh: the three Rankine–Hugoniot relations across a shock of speed `Ws` -/
theorem outsub_rh_def (γ dir pext r u p : ℝ) (hγ : 1 < γ) (hr : 0 < r) (hp : 0 < p)
    (hpe : 0 < pext) (hdir : dir = 1 ∨ dir = -1) :
    (let W := eBcOutsubRh γ dir pext r u p
     let Ms2 := 1 + (pext / p - 1) * (γ + 1) / (2 * γ)
     let Ws := u - dir * Real.sqrt (γ * p / r * Ms2)
     W.2.2 = pext
     ∧ W.1 * (W.2.1 - Ws) = r * (u - Ws)
     ∧ W.1 * (W.2.1 - Ws) ^ 2 + W.2.2 = r * (u - Ws) ^ 2 + p
     ∧ γ / (γ - 1) * W.2.2 / W.1 + (W.2.1 - Ws) ^ 2 / 2 = γ / (γ - 1) * p / r + (u - Ws) ^ 2 / 2) := by
  simp only [eBcOutsubRh, HasSqrt.sqrt_real]
  have hgmu : 0 < γ - 1 := by linarith
  have hg0 : 0 < γ := by linarith
  have hMpos : 0 < 1 + (pext / p - 1) * (γ + 1) / (2 * γ) := by
    have : 1 + (pext / p - 1) * (γ + 1) / (2 * γ) = ((γ - 1) + pext / p * (γ + 1)) / (2 * γ) := by
      field_simp; ring
    rw [this]; exact div_pos (add_pos hgmu (by positivity)) (by positivity)
  have hpe' : pext = p * (1 + ((1 + (pext / p - 1) * (γ + 1) / (2 * γ)) - 1) * (2 * γ) / (γ + 1)) := by
    have : γ + 1 ≠ 0 := by linarith
    field_simp; ring
  generalize 1 + (pext / p - 1) * (γ + 1) / (2 * γ) = M at hMpos hpe' ⊢
  set s := Real.sqrt (γ * p / r * M) with hs
  have hs2 : s ^ 2 = γ * p / r * M := Real.sq_sqrt (by positivity)
  have hden : 0 < 2 + (γ - 1) * M := by have := mul_pos hgmu hMpos; linarith
  set rr := (γ + 1) * M / (2 + (γ - 1) * M) with hrr
  have hrrpos : 0 < rr := div_pos (by positivity) hden
  have hd2 : dir ^ 2 = 1 := by rcases hdir with h | h <;> rw [h] <;> norm_num
  have e1 : u - dir * s + (u - (u - dir * s)) / rr - (u - dir * s) = dir * s / rr := by ring
  have e2 : u - (u - dir * s) = dir * s := by ring
  rw [e1, e2]
  have hq : (dir * s / rr) ^ 2 = γ * p / r * M / rr ^ 2 := by
    rw [div_pow, mul_pow, hd2, hs2, one_mul]
  have hq2 : (dir * s) ^ 2 = γ * p / r * M := by rw [mul_pow, hd2, hs2, one_mul]
  obtain ⟨a1, a2⟩ := rh_alg γ r p M hγ hr hp hMpos
  rw [← hrr, ← hpe'] at a1 a2
  refine ⟨trivial, by field_simp, ?_, ?_⟩
  · rw [hq, hq2]; exact a1
  · rw [hq, hq2]; exact a2

/-! ### 2D: wall, outlet, inlets with a unit normal `(nx, ny)` -/
/-- `sym` reverses the normal velocity and keeps the tangential one, density and pressure -/
theorem sym2d_def (nx ny r ux uy p : ℝ) (hn : nx ^ 2 + ny ^ 2 = 1) :
    (let W := e2BcSym nx ny r ux uy p
     W.1 = r ∧ W.2.2.2 = p
     ∧ W.2.1 * nx + W.2.2.1 * ny = -(ux * nx + uy * ny)
     ∧ W.2.1 * (-ny) + W.2.2.1 * nx = ux * (-ny) + uy * nx) := by
  simp only [e2BcSym]
  refine ⟨trivial, trivial, ?_, ?_⟩
  · have : (ux - 2 * ((ux * nx + uy * ny) * nx)) * nx + (uy - 2 * ((ux * nx + uy * ny) * ny)) * ny
        = (ux * nx + uy * ny) * (1 - 2 * (nx ^ 2 + ny ^ 2)) := by ring
    rw [this, hn]; ring
  · ring
theorem outsub2d_def (pext r ux uy p : ℝ) : e2BcOutsub pext r ux uy p = (r, ux, uy, pext) := rfl
theorem outsup2d_def (r ux uy p : ℝ) : e2BcOutsup r ux uy p = (r, ux, uy, p) := rfl
/-- 2D `insub`: velocity along `-n` (into the domain), interior pressure, imposed totals
(totals evaluated with the velocity magnitude) -/
theorem insub2d_def (γ nx ny ptot rttot r ux uy p : ℝ) (hγ : 1 < γ) (hp : 0 < p) (hpt : p ≤ ptot)
    (hrt : 0 < rttot) (hn : nx ^ 2 + ny ^ 2 = 1) :
    (let W := e2BcInsub γ nx ny ptot rttot r ux uy p
     let vmag := Real.sqrt (W.2.1 ^ 2 + W.2.2.1 ^ 2)
     W.2.2.2 = p ∧ 0 < W.1 ∧ ptotOf γ W.1 vmag W.2.2.2 = ptot ∧ rttotOf γ W.1 vmag W.2.2.2 = rttot
     ∧ W.2.1 * nx + W.2.2.1 * ny ≤ 0 ∧ W.2.1 * (-ny) + W.2.2.1 * nx = 0) := by
  simp only [e2BcInsub, HasSqrt.sqrt_real, HasRpow.rpow_real]
  set m2 := max 0 (((ptot / p) ^ ((γ - 1) / γ) - 1) * 2 / (γ - 1)) with hm2
  set rh := ptot / rttot / (1 + 1/2 * (γ - 1) * m2) ^ (1 / (γ - 1)) with hrh
  set s := Real.sqrt (γ * p * m2 / rh) with hs
  have hg0 : 0 < γ := by linarith
  obtain ⟨hm0, hrhpos, hcore⟩ :=
    inlet_core γ ptot rttot p (Real.sqrt ((-s * nx) ^ 2 + (-s * ny) ^ 2)) m2 rh hγ hp hpt hrt hm2 hrh
  have hrad : 0 ≤ γ * p * m2 / rh := by positivity
  have hs0 : 0 ≤ s := Real.sqrt_nonneg _
  have hs2 : s ^ 2 = γ * p * m2 / rh := Real.sq_sqrt hrad
  have hsum : (-s * nx) ^ 2 + (-s * ny) ^ 2 = s ^ 2 := by
    have : (-s * nx) ^ 2 + (-s * ny) ^ 2 = s ^ 2 * (nx ^ 2 + ny ^ 2) := by ring
    rw [this, hn, mul_one]
  have hv : (Real.sqrt ((-s * nx) ^ 2 + (-s * ny) ^ 2)) ^ 2 = γ * m2 * p / rh := by
    rw [hsum, Real.sq_sqrt (sq_nonneg s), hs2]; ring
  obtain ⟨h1, h2⟩ := hcore hv
  refine ⟨trivial, hrhpos, h1, h2, ?_, by ring⟩
  have : -s * nx * nx + -s * ny * ny = -s * (nx ^ 2 + ny ^ 2) := by ring
  rw [this, hn]; linarith
/-- 2D `insup` with inflow direction `(dx, dy)` (unit): imposed totals and pressure, velocity along it -/
theorem insup2d_def (γ dx dy ptot rttot pin : ℝ) (hγ : 1 < γ) (hp : 0 < pin) (hpt : pin ≤ ptot)
    (hrt : 0 < rttot) (hd : dx ^ 2 + dy ^ 2 = 1) :
    (let W := e2BcInsup γ dx dy ptot rttot pin
     let vmag := Real.sqrt (W.2.1 ^ 2 + W.2.2.1 ^ 2)
     W.2.2.2 = pin ∧ 0 < W.1 ∧ ptotOf γ W.1 vmag W.2.2.2 = ptot ∧ rttotOf γ W.1 vmag W.2.2.2 = rttot
     ∧ 0 ≤ W.2.1 * dx + W.2.2.1 * dy ∧ W.2.1 * (-dy) + W.2.2.1 * dx = 0) := by
  simp only [e2BcInsup, HasSqrt.sqrt_real, HasRpow.rpow_real]
  set m2 := max 0 (((ptot / pin) ^ ((γ - 1) / γ) - 1) * 2 / (γ - 1)) with hm2
  set rh := ptot / rttot / (1 + 1/2 * (γ - 1) * m2) ^ (1 / (γ - 1)) with hrh
  set s := Real.sqrt (γ * pin * m2 / rh) with hs
  have hg0 : 0 < γ := by linarith
  obtain ⟨hm0, hrhpos, hcore⟩ :=
    inlet_core γ ptot rttot pin (Real.sqrt ((s * dx) ^ 2 + (s * dy) ^ 2)) m2 rh hγ hp hpt hrt hm2 hrh
  have hrad : 0 ≤ γ * pin * m2 / rh := by positivity
  have hs0 : 0 ≤ s := Real.sqrt_nonneg _
  have hs2 : s ^ 2 = γ * pin * m2 / rh := Real.sq_sqrt hrad
  have hsum : (s * dx) ^ 2 + (s * dy) ^ 2 = s ^ 2 := by
    have : (s * dx) ^ 2 + (s * dy) ^ 2 = s ^ 2 * (dx ^ 2 + dy ^ 2) := by ring
    rw [this, hd, mul_one]
  have hv : (Real.sqrt ((s * dx) ^ 2 + (s * dy) ^ 2)) ^ 2 = γ * m2 * pin / rh := by
    rw [hsum, Real.sq_sqrt (sq_nonneg s), hs2]; ring
  obtain ⟨h1, h2⟩ := hcore hv
  refine ⟨trivial, hrhpos, h1, h2, ?_, by ring⟩
  have : s * dx * dx + s * dy * dy = s * (dx ^ 2 + dy ^ 2) := by ring
  rw [this, hd]; linarith

/-! ### compatibility (used by C03): with the parameters of the interior state itself the
inlet/outlet conditions return the interior state -/
theorem insub_compatible (γ dir r u p : ℝ) (hγ : 1 < γ) (hr : 0 < r) (hp : 0 < p)
    (hdir : dir = 1 ∨ dir = -1) (hin : 0 ≤ -dir * u) :
    eBcInsub γ dir (ptotOf γ r u p) (rttotOf γ r u p) r u p = (r, u, p) := by
  have hg0 : 0 < γ := by linarith
  obtain ⟨c1, c2⟩ := compat_core γ r u p hγ hr hp
  simp only [eBcInsub, HasSqrt.sqrt_real, HasRpow.rpow_real]
  rw [c1, c2]
  have hrad : γ * (u ^ 2 / (γ * p / r)) * p / r = u ^ 2 := by field_simp
  rw [hrad, Real.sqrt_sq_eq_abs]
  refine Prod.ext rfl (Prod.ext ?_ rfl)
  simp only
  rcases hdir with h | h <;> rw [h] at hin ⊢
  · rw [abs_of_nonpos (by linarith)]; ring
  · rw [abs_of_nonneg (by linarith)]; ring
theorem insup_compatible (γ dir r u p : ℝ) (hγ : 1 < γ) (hr : 0 < r) (hp : 0 < p)
    (hdir : dir = 1 ∨ dir = -1) (hin : 0 ≤ -dir * u) :
    eBcInsup γ dir (ptotOf γ r u p) (rttotOf γ r u p) p = (r, u, p) :=
  insub_compatible γ dir r u p hγ hr hp hdir hin
theorem outsub_compatible (r u p : ℝ) : eBcOutsub p r u p = (r, u, p) := rfl
theorem outsub_qtot_compatible (γ dir r u p : ℝ) (hγ : 1 < γ) (hr : 0 < r) (hp : 0 < p)
    (hdir : dir = 1 ∨ dir = -1) (hout : 0 ≤ dir * u) :
    eBcOutsubQtot γ dir p r u p = (r, u, p) := by
  have hg0 : 0 < γ := by linarith
  obtain ⟨c1, c2⟩ := compat_core γ r u p hγ hr hp
  have hPt : p * (1 + 1/2 * (γ - 1) * (u ^ 2 / (γ * p / r))) ^ (γ / (γ - 1)) = ptotOf γ r u p := by
    unfold ptotOf; congr 2; ring
  have hRt : p / r * (1 + 1/2 * (γ - 1) * (u ^ 2 / (γ * p / r))) = rttotOf γ r u p := by
    unfold rttotOf; ring
  simp only [eBcOutsubQtot, HasSqrt.sqrt_real, HasRpow.rpow_real]
  rw [hPt, hRt, c1, c2]
  have hrad : γ * (u ^ 2 / (γ * p / r)) * p / r = u ^ 2 := by field_simp
  rw [hrad, Real.sqrt_sq_eq_abs]
  refine Prod.ext rfl (Prod.ext ?_ rfl)
  simp only
  rcases hdir with h | h <;> rw [h] at hout ⊢
  · rw [abs_of_nonneg (by linarith)]; ring
  · rw [abs_of_nonpos (by linarith)]; ring
theorem outsub_nrcbc_compatible (γ dir r u p : ℝ) (hγ : 1 < γ) (hr : 0 < r) (hp : 0 < p) :
    eBcOutsubNrcbc γ dir p r u p = (r, u, p) := by
  simp only [eBcOutsubNrcbc, HasSqrt.sqrt_real, HasRpow.rpow_real]
  rw [div_self hp.ne', Real.one_rpow, mul_one, sub_self, mul_zero, add_zero]
theorem outsub_rh_compatible (γ dir r u p : ℝ) (hγ : 1 < γ) (hr : 0 < r) (hp : 0 < p) :
    eBcOutsubRh γ dir p r u p = (r, u, p) := by
  simp only [eBcOutsubRh, HasSqrt.sqrt_real]
  have hg0 : 0 < γ := by linarith
  have hM : 1 + (p / p - 1) * (γ + 1) / (2 * γ) = 1 := by rw [div_self hp.ne']; ring
  rw [hM]
  have hrr : (γ + 1) * 1 / (2 + (γ - 1) * 1) = 1 := by
    have : γ + 1 ≠ 0 := by linarith
    rw [show 2 + (γ - 1) * 1 = (γ + 1) * 1 by ring]; exact div_self (by simpa using this)
  rw [hrr]
  refine Prod.ext (by simp) (Prod.ext ?_ rfl)
  simp only; ring

end Flowdyn.C16
