import Flowdyn.Model.Kernels.Euler
namespace Flowdyn.C16
end Flowdyn.C16
