/-
C15c — row-by-row reduction of the 2D operator to the 1D operator with SLIP WALLS (`sym`) at top / bottom.

`C15.rhs_rows_eq_1d` treats periodic top/bottom.  Here:

1. generic (`rhs_rows_eq_1d_of_fixes`): for y-independent data, if the top/bottom treatment of `D` (periodic, or
   boundary kernels) leaves the primitive state of column `i` unchanged, every y-face of the column (wall faces
   included) carries the flux `Φ(0,1)(P_i, P_i)` (`yflux_of_yindep_fixes`; the y-reconstruction of constants is
   exact for any scheme, `C11.lL0_const/lR0_const` through `C03.lFlux_const_bc`), the y-fluxes cancel, and
   the 2D residual of EVERY component in cell `(i, j)` equals the residual of the row discretisation `rowDisc D`.
   This contains `C15.rhs_rows_eq_1d` (`rhs_rows_eq_1d_periodic'`).
2. Euler 2D (`rhs_rows_eq_1d_walls`): `bcy = open (sym, normal (0,-1)) (sym, normal (0,1))`, y-independent data
   with zero y-momentum in column `i`: the ghost state `V - 2 (V·n) n` equals the interior state, so (1) applies:
   for ANY flux function, scheme (first order / any κ), x-boundary treatment and mesh, all four components.
3. the y-fluxes themselves for the `centered` / `hlle` fluxes (`euler2d_yflux_walls`): `(0, 0, p_i, 0)` at every
   y-face including the walls — no mass / x-momentum / energy flux, wall pressure force `+p/dy − p/dy` cancels.
4. the y-momentum residual vanishes (`ymom_rhs_zero_walls`) when the x-boundary treatment keeps `uy = 0`
   (`KeepsUy0`: periodic, `sym`, `outsup`, `outsub`, `dirichlet` with `uy = 0`): both x-face states have `uy = 0`
   (reconstruction of zeros), so the y-momentum component of the x-flux is zero for `centered` and `hlle`.
5. the row discretisation `rowDisc D` (a 1D pipeline on the four 2D components with the x-normal flux) IS the
   model's genuine 1D Euler pipeline for data with `my = 0` (`rowDisc_eq_euler1d`): components `ρ, mx, E` of its
   residual are the residuals of `euler1dRow` (`eulerC2P`, `eulerFluxV centered/hlle`, `extrapol1`/`extrapolk κ`,
   uniform mesh, 1D boundary kernels corresponding to the 2D x-kernels: `BCMatch`, instances periodic, `sym`,
   `outsup`, `outsub`), the `my` component is 0.  Proved on the line pipeline (`lL_agree`, `lR_agree`,
   `flux_agree` from `C02.e2Hlle_reduces_1d` / `C02.e2Centered_reduces_1d`, `c2p_agree`).
6. `euler2d_rows_walls`: the property as stated (density, x-momentum, energy residuals of the 2D solver equal the
   residuals of the 1D Euler solver row by row; y-momentum residual zero); `euler2d_rows_periodic` the same with
   periodic top/bottom; non-vacuity on a 3×2 box with slip walls on all four sides.
-/
import Flowdyn.Model.Models1D
import Flowdyn.Model.Models2D
import Flowdyn.Props.C15
import Flowdyn.Props.C11b
import Flowdyn.Props.C03b
import Flowdyn.Props.C02b
import Flowdyn.Props.C01b
import Mathlib.Tactic.IntervalCases

namespace Flowdyn.C15
open Flowdyn

section generic
variable {α : Type} [Field α] {ι : Type}

/-- **y-fluxes of a y-independent field**: if the top/bottom treatment fixes the primitive state `P_i` of column
`i`, every y-face `j ≤ ny` of the column carries `Φ(0,1)(P_i, P_i)` — any scheme, any flux -/
theorem yflux_of_yindep_fixes (D : Disc2D α ι) (hny : D.mesh.ny ≠ 0) (q1 : ι → ℕ → α) (i : ℕ)
    (hfix : C03.BCFixes2d D.bcy (D.c2p (fun l => q1 l i))) (k : ι) (j : ℕ) (hj : j ≤ D.mesh.ny) :
    D.yFlux (fun l a _ => q1 l a) k i j
      = D.flux 0 1 (D.c2p (fun l => q1 l i)) (D.c2p (fun l => q1 l i)) k := by
  rw [yFlux_line]
  exact C03.lFlux_const_bc hny D.bcy _ _ (D.flux 0 1) _ (D.c2p (fun l => q1 l i)) (fun _ _ _ => rfl) hfix k hj

/-- both y-face states of a y-independent field are the column state (the y-reconstruction of constants is exact,
and the boundary closure returns the column state) -/
theorem yfaces_of_yindep_fixes (D : Disc2D α ι) (hny : D.mesh.ny ≠ 0) (q1 : ι → ℕ → α) (i : ℕ)
    (hfix : C03.BCFixes2d D.bcy (D.c2p (fun l => q1 l i))) (k : ι) (j : ℕ) (hj : j ≤ D.mesh.ny) :
    D.yL (fun l a _ => q1 l a) k i j = D.c2p (fun l => q1 l i) k
    ∧ D.yR (fun l a _ => q1 l a) k i j = D.c2p (fun l => q1 l i) k := by
  rw [C11.yL_line, C11.yR_line]
  exact ⟨C03.lL_const hny D.bcy _ _ _ (D.c2p (fun l => q1 l i)) (fun _ _ _ => rfl) hfix k hj,
    C03.lR_const hny D.bcy _ _ _ (D.c2p (fun l => q1 l i)) (fun _ _ _ => rfl) hfix k hj⟩

/-- **row by row the 2D operator is the 1D operator** for y-independent data whenever the top/bottom treatment
fixes the column state: all components, any scheme / flux / x-boundary treatment (`nx·dx = lx`) -/
theorem rhs_rows_eq_1d_of_fixes [CharZero α] (D : Disc2D α ι) (hny : D.mesh.ny ≠ 0) (hnx : 0 < D.mesh.nx)
    (hlx : D.mesh.lx ≠ 0) (q1 : ι → ℕ → α) (k : ι) (i j : ℕ) (hj : j < D.mesh.ny)
    (hfix : C03.BCFixes2d D.bcy (D.c2p (fun l => q1 l i))) :
    D.rhs (fun l a _ => q1 l a) k i j = (rowDisc D).rhs q1 k i := by
  rw [rowDisc_eq]
  show _ = -((mkRow D.mesh.nx D.mesh.lx D.scheme D.bcx D.c2p (D.flux 1 0)).faceFluxes q1 k (i + 1)
      - (mkRow D.mesh.nx D.mesh.lx D.scheme D.bcx D.c2p (D.flux 1 0)).faceFluxes q1 k i)
      / (uniMesh D.mesh.nx D.mesh.lx 0).vol i
  rw [mkRow_flux _ hnx _ hlx, mkRow_flux _ hnx _ hlx, uni_vol']
  unfold Disc2D.rhs
  rw [yflux_of_yindep_fixes D hny q1 i hfix k (j + 1) (by omega),
    yflux_of_yindep_fixes D hny q1 i hfix k j (by omega), xFlux_line, xFlux_line,
    sub_self, zero_div, add_zero, zero_sub, neg_div]
  rfl

/-- the periodic case `C15.rhs_rows_eq_1d` is an instance -/
theorem rhs_rows_eq_1d_periodic' [CharZero α] (D : Disc2D α ι) (hy : D.bcy = BCPair.periodic)
    (hny : D.mesh.ny ≠ 0) (hnx : 0 < D.mesh.nx) (hlx : D.mesh.lx ≠ 0) (q1 : ι → ℕ → α) (k : ι) (i j : ℕ)
    (hj : j < D.mesh.ny) : D.rhs (fun l a _ => q1 l a) k i j = (rowDisc D).rhs q1 k i :=
  rhs_rows_eq_1d_of_fixes D hny hnx hlx q1 k i j hj (by rw [hy]; trivial)

end generic

/-! ### Euler 2D between slip walls at top and bottom -/

section euler
variable {α : Type} [Field α] [LinearOrder α] [IsStrictOrderedRing α] [HasSqrt α] [HasRpow α]
set_option linter.unusedSectionVars false

/-- slip walls at the bottom (outward normal `(0,-1)`) and at the top (outward normal `(0,1)`) -/
def symY (γ : α) : BCPair α ℕ := BCPair.open (euler2dBC γ 0 (-1) Euler2DBC.sym) (euler2dBC γ 0 1 Euler2DBC.sym)

/-- zero y-momentum gives zero y-velocity -/
theorem euler2dC2P_uy_zero (γ : α) (Q : ℕ → α) (h : Q 2 = 0) : euler2dC2P γ Q 2 = 0 := by
  show Q 2 / Q 0 = 0
  rw [h, zero_div]

/-- the slip walls at top/bottom leave the primitive state of a conservative state with `my = 0` unchanged: the
ghost state `V - 2 (V·n) n` of a velocity tangent to the wall is the velocity itself -/
theorem symY_fixes (γ : α) (Q : ℕ → α) (h : Q 2 = 0) : C03.BCFixes2d (symY γ) (euler2dC2P γ Q) := by
  have e : euler2dC2P γ Q = vec4 (Q 0, Q 1 / Q 0, 0, e2Pressure γ (Q 0) (Q 1) (Q 2) (Q 3)) := by
    unfold euler2dC2P e2Cons2prim
    rw [h, zero_div]
  rw [e]
  exact C03.sym_pair_y_fixes γ _ _ _

/-- **row by row the 2D Euler operator between slip walls is the 1D operator**: y-independent data with zero
y-momentum in column `i`, `sym` at bottom and top.  ALL four components of the 2D residual in cell `(i, j)` equal
the residual of the row discretisation — for any flux function, any scheme (first order or κ), any x-boundary
treatment, any mesh. -/
theorem rhs_rows_eq_1d_walls (γ : α) (D : Disc2D α ℕ) (hc : D.c2p = euler2dC2P γ) (hby : D.bcy = symY γ)
    (hny : D.mesh.ny ≠ 0) (hnx : 0 < D.mesh.nx) (hlx : D.mesh.lx ≠ 0) (q1 : ℕ → ℕ → α) (k i j : ℕ)
    (hj : j < D.mesh.ny) (hmy : q1 2 i = 0) :
    D.rhs (fun l a _ => q1 l a) k i j = (rowDisc D).rhs q1 k i := by
  refine rhs_rows_eq_1d_of_fixes D hny hnx hlx q1 k i j hj ?_
  rw [hby, hc]
  exact symY_fixes γ (fun l => q1 l i) hmy

/-- at every y-face of the column (walls included) both face states are the column state -/
theorem yfaces_walls (γ : α) (D : Disc2D α ℕ) (hc : D.c2p = euler2dC2P γ) (hby : D.bcy = symY γ)
    (hny : D.mesh.ny ≠ 0) (q1 : ℕ → ℕ → α) (k i j : ℕ) (hj : j ≤ D.mesh.ny) (hmy : q1 2 i = 0) :
    D.yL (fun l a _ => q1 l a) k i j = euler2dC2P γ (fun l => q1 l i) k
    ∧ D.yR (fun l a _ => q1 l a) k i j = euler2dC2P γ (fun l => q1 l i) k := by
  have h := yfaces_of_yindep_fixes D hny q1 i (by rw [hby, hc]; exact symY_fixes γ (fun l => q1 l i) hmy) k j hj
  rw [hc] at h
  exact h

/-- the x-boundary treatment returns `uy = 0` for interior states with `uy = 0` -/
def KeepsUy0 : BCPair α ℕ → Prop
  | .periodic => True
  | .open lo hi => (∀ W : ℕ → α, W 2 = 0 → lo W 2 = 0) ∧ (∀ W : ℕ → α, W 2 = 0 → hi W 2 = 0)

/-- the named kernels `sym` (on x-sides), `outsup`, `outsub`, and `dirichlet` with `uy = 0` keep `uy = 0` -/
theorem keepsUy0_sym_x (γ : α) :
    KeepsUy0 (BCPair.open (euler2dBC γ (-1) 0 Euler2DBC.sym) (euler2dBC γ 1 0 Euler2DBC.sym)) := by
  constructor <;> intro W hW
  · show W 2 - 2 * ((W 1 * (-1) + W 2 * 0) * 0) = 0
    rw [hW]; ring
  · show W 2 - 2 * ((W 1 * 1 + W 2 * 0) * 0) = 0
    rw [hW]; ring
theorem keepsUy0_outsup (γ nx ny nx' ny' : α) :
    KeepsUy0 (BCPair.open (euler2dBC γ nx ny Euler2DBC.outsup) (euler2dBC γ nx' ny' Euler2DBC.outsup)) :=
  ⟨fun _ h => h, fun _ h => h⟩
theorem keepsUy0_outsub (γ nx ny nx' ny' p p' : α) :
    KeepsUy0 (BCPair.open (euler2dBC γ nx ny (Euler2DBC.outsub p)) (euler2dBC γ nx' ny' (Euler2DBC.outsub p'))) :=
  ⟨fun _ h => h, fun _ h => h⟩
theorem keepsUy0_dirichlet (γ nx ny nx' ny' : α) (P P' : ℕ → α) (h : P 2 = 0) (h' : P' 2 = 0) :
    KeepsUy0 (BCPair.open (euler2dBC γ nx ny (Euler2DBC.dirichlet P)) (euler2dBC γ nx' ny' (Euler2DBC.dirichlet P'))) :=
  ⟨fun _ _ => h, fun _ _ => h'⟩

/-- through an x-face the y-momentum flux of `centered` and `hlle` vanishes when both states have `uy = 0` -/
theorem euler2dFluxV_x_uy_zero (γ : α) (fl : Euler2DFlux) (L R : ℕ → α) (hL : L 2 = 0) (hR : R 2 = 0) :
    euler2dFluxV γ fl 1 0 L R 2 = 0 := by
  cases fl with
  | centered =>
    show (e2Centered γ 1 0 (L 0) (L 1) (L 2) (L 3) (R 0) (R 1) (R 2) (R 3)).2.2.1 = 0
    simp only [e2Centered, hL, hR]; ring
  | hlle =>
    show (e2Hlle γ 1 0 (L 0) (L 1) (L 2) (L 3) (R 0) (R 1) (R 2) (R 3)).2.2.1 = 0
    simp only [e2Hlle, hL, hR, mul_zero, add_zero, sub_self, zero_div]

/-- both x-face states of a row whose cells all have `uy = 0` have `uy = 0` (any scheme: the κ-extrapolation of
zeros is zero; boundary faces by `KeepsUy0`) -/
theorem xfaces_uy_zero (D : Disc2D α ℕ) (hbx : KeepsUy0 D.bcx) (hnx : D.mesh.nx ≠ 0) (q : ℕ → ℕ → ℕ → α) (j : ℕ)
    (h0 : ∀ a, a < D.mesh.nx → D.pdata q 2 a j = 0) (i : ℕ) (hi : i ≤ D.mesh.nx) :
    D.xL q 2 i j = 0 ∧ D.xR q 2 i j = 0 := by
  have hL := fun i h0' hi => C11.lL0_const hnx D.bcx.isPer D.scheme.km D.scheme.kp
    (fun a => D.pdata q 2 a j) 0 h0 (a := i) h0' hi
  have hR := fun i hi => C11.lR0_const hnx D.bcx.isPer D.scheme.km D.scheme.kp
    (fun a => D.pdata q 2 a j) 0 h0 (a := i) hi
  unfold Disc2D.xL Disc2D.xR
  constructor
  · by_cases hi0 : i = 0
    · rw [if_pos hi0]
      rcases hb : D.bcx with _ | ⟨lo, hi'⟩
      · exact hL _ hnx le_rfl
      · rw [hb] at hbx
        exact hbx.1 _ (hR 0 (by omega))
    · rw [if_neg hi0]; exact hL _ hi0 hi
  · by_cases hin : i = D.mesh.nx
    · rw [if_pos hin]
      rcases hb : D.bcx with _ | ⟨lo, hi'⟩
      · exact hR 0 (by omega)
      · rw [hb] at hbx
        exact hbx.2 _ (hL _ hnx le_rfl)
    · rw [if_neg hin]; exact hR _ (by omega)

/-- **the y-momentum residual vanishes**: y-independent data with zero y-momentum everywhere, slip walls at top and
bottom, `centered` or `hlle` flux, x-sides periodic or with kernels keeping `uy = 0`: the y-momentum x-fluxes are
zero and the two y-faces of every cell carry the same y-momentum flux (the wall pressure forces cancel) -/
theorem ymom_rhs_zero_walls (γ : α) (fl : Euler2DFlux) (D : Disc2D α ℕ) (hc : D.c2p = euler2dC2P γ)
    (hflux : D.flux = euler2dFluxV γ fl) (hby : D.bcy = symY γ) (hbx : KeepsUy0 D.bcx)
    (hny : D.mesh.ny ≠ 0) (hnx : D.mesh.nx ≠ 0) (q1 : ℕ → ℕ → α) (hmy : ∀ a, a < D.mesh.nx → q1 2 a = 0)
    (i j : ℕ) (hi : i < D.mesh.nx) (hj : j < D.mesh.ny) :
    D.rhs (fun l a _ => q1 l a) 2 i j = 0 := by
  have hfix : C03.BCFixes2d D.bcy (D.c2p (fun l => q1 l i)) := by
    rw [hby, hc]; exact symY_fixes γ (fun l => q1 l i) (hmy i hi)
  have hp : ∀ a, a < D.mesh.nx → D.pdata (fun l a _ => q1 l a) 2 a j = 0 := by
    intro a ha
    show D.c2p (fun l => q1 l a) 2 = 0
    rw [hc]; exact euler2dC2P_uy_zero γ _ (hmy a ha)
  have hx : ∀ i', i' ≤ D.mesh.nx → D.xFlux (fun l a _ => q1 l a) 2 i' j = 0 := by
    intro i' hi'
    obtain ⟨h1, h2⟩ := xfaces_uy_zero D hbx hnx _ j hp i' hi'
    unfold Disc2D.xFlux
    rw [hflux]
    exact euler2dFluxV_x_uy_zero γ fl _ _ h1 h2
  unfold Disc2D.rhs
  rw [hx (i + 1) (by omega), hx i (by omega), yflux_of_yindep_fixes D hny q1 i hfix 2 (j + 1) (by omega),
    yflux_of_yindep_fixes D hny q1 i hfix 2 j (by omega)]
  simp

end euler

/-! ### the y-fluxes themselves (`centered`, `hlle` over ℝ): `(0, 0, p, 0)` at every y-face, walls included -/

/-- the `centered` / `hlle` flux through a y-face between two copies of a state with `uy = 0` is the physical
flux with zero normal velocity: `(0, 0, p, 0)` (HLLE: by consistency, needs `γ > 1`, `ρ > 0`, `p > 0`) -/
theorem euler2dFluxV_y_tangent (γ : ℝ) (fl : Euler2DFlux) (r ux p : ℝ)
    (hpos : fl = Euler2DFlux.hlle → 1 < γ ∧ 0 < r ∧ 0 < p) :
    euler2dFluxV γ fl 0 1 (vec4 (r, ux, 0, p)) (vec4 (r, ux, 0, p)) = vec4 (0, 0, p, 0) := by
  have hphys : e2Phys γ 0 1 r ux 0 p = (0, 0, p, 0) := by
    simp only [e2Phys, mul_zero, zero_mul, add_zero, mul_one, zero_add]
  cases fl with
  | centered =>
    show vec4 (e2Centered γ 0 1 r ux 0 p r ux 0 p) = _
    rw [C02.e2Centered_consistent, hphys]
  | hlle =>
    obtain ⟨hγ, hr, hp⟩ := hpos rfl
    show vec4 (e2Hlle γ 0 1 r ux 0 p r ux 0 p) = _
    rw [C02.e2Hlle_consistent γ 0 1 r ux 0 p hγ hr hp, hphys]

/-- **the y-fluxes between slip walls**: y-independent data, zero y-momentum in column `i`: every y-face `j ≤ ny`
of the column — the two wall faces `j = 0`, `j = ny` included — carries `(0, 0, p_i, 0)`: no mass, x-momentum or
energy flux, and the y-momentum flux is the column pressure at both faces of every cell (`+p/dy − p/dy = 0`) -/
theorem euler2d_yflux_walls (γ : ℝ) (fl : Euler2DFlux) (D : Disc2D ℝ ℕ) (hc : D.c2p = euler2dC2P γ)
    (hflux : D.flux = euler2dFluxV γ fl) (hby : D.bcy = symY γ) (hny : D.mesh.ny ≠ 0) (q1 : ℕ → ℕ → ℝ)
    (k i j : ℕ) (hj : j ≤ D.mesh.ny) (hmy : q1 2 i = 0)
    (hpos : fl = Euler2DFlux.hlle →
      1 < γ ∧ 0 < q1 0 i ∧ 0 < e2Pressure γ (q1 0 i) (q1 1 i) (q1 2 i) (q1 3 i)) :
    D.yFlux (fun l a _ => q1 l a) k i j
      = vec4 (0, 0, e2Pressure γ (q1 0 i) (q1 1 i) (q1 2 i) (q1 3 i), 0) k := by
  have hfix : C03.BCFixes2d D.bcy (D.c2p (fun l => q1 l i)) := by
    rw [hby, hc]; exact symY_fixes γ (fun l => q1 l i) hmy
  rw [yflux_of_yindep_fixes D hny q1 i hfix k j hj, hflux, hc]
  have e : euler2dC2P γ (fun l => q1 l i)
      = vec4 (q1 0 i, q1 1 i / q1 0 i, 0, e2Pressure γ (q1 0 i) (q1 1 i) (q1 2 i) (q1 3 i)) := by
    simp only [euler2dC2P, e2Cons2prim, hmy, zero_div]
  rw [e, euler2dFluxV_y_tangent γ fl _ _ _ hpos]

/-! ### the row discretisation with `uy = 0` IS the 1D Euler discretisation

`rowDisc D` is a 1D pipeline on the four 2D components with the x-normal flux.  For data with zero y-momentum its
components `ρ, mx, E` are the residuals of the genuine 1D Euler pipeline (`eulerC2P`, `eulerFluxV`, `eulerBC`)
on the same uniform mesh with the same scheme, and its y-momentum residual is zero. -/

section congr
variable {α : Type} [Field α]

theorem lgrad_congr {n : ℕ} (hn : n ≠ 0) (per : Bool) (d d' : ℕ → α) (h : ∀ c, c < n → d c = d' c) {a : ℕ}
    (ha : a ≤ n) : lgrad n per d a = lgrad n per d' a := by
  unfold lgrad
  by_cases h0 : a = 0 ∨ a = n
  · rw [if_pos h0, if_pos h0, h 0 (by omega), h (n - 1) (by omega)]
  · rw [if_neg h0, if_neg h0, h a (by omega), h (a - 1) (by omega)]

/-- the extrapolations at the faces `a ≤ n` of a line only read the cells `< n` -/
theorem lL0_congr {n : ℕ} (hn : n ≠ 0) (per : Bool) (km kp : α) (d d' : ℕ → α) (h : ∀ c, c < n → d c = d' c)
    {a : ℕ} (ha : a ≤ n) : lL0 n per km kp d a = lL0 n per km kp d' a := by
  unfold lL0
  by_cases h0 : a = 0
  · rw [if_pos h0, if_pos h0]
  · rw [if_neg h0, if_neg h0, h (a - 1) (by omega), lgrad_congr hn per d d' h (by omega : a - 1 ≤ n),
      lgrad_congr hn per d d' h ha]

theorem lR0_congr {n : ℕ} (hn : n ≠ 0) (per : Bool) (km kp : α) (d d' : ℕ → α) (h : ∀ c, c < n → d c = d' c)
    {a : ℕ} (ha : a ≤ n) : lR0 n per km kp d a = lR0 n per km kp d' a := by
  unfold lR0
  by_cases h0 : a = n
  · rw [if_pos h0, if_pos h0]
  · rw [if_neg h0, if_neg h0, h a (by omega), lgrad_congr hn per d d' h (by omega : a + 1 ≤ n),
      lgrad_congr hn per d d' h ha]

theorem lL0_zero {n : ℕ} (hn : n ≠ 0) (per : Bool) (km kp : α) (d : ℕ → α) (h : ∀ c, c < n → d c = 0)
    {a : ℕ} (ha : a ≤ n) : lL0 n per km kp d a = 0 := by
  by_cases h0 : a = 0
  · unfold lL0; rw [if_pos h0]
  · exact C11.lL0_const hn per km kp d 0 h h0 ha

theorem lR0_zero {n : ℕ} (hn : n ≠ 0) (per : Bool) (km kp : α) (d : ℕ → α) (h : ∀ c, c < n → d c = 0)
    {a : ℕ} (ha : a ≤ n) : lR0 n per km kp d a = 0 := by
  by_cases h0 : a = n
  · unfold lR0; rw [if_pos h0]
  · exact C11.lR0_const hn per km kp d 0 h (lt_of_le_of_ne ha h0)

end congr

/-- a 1D Euler vector `(ρ, u, p)` / `(ρ, m, E)` and a 2D one `(ρ, ux, uy, p)` / `(ρ, mx, my, E)` agree:
same first, second and last component, and zero y-component -/
def Agree (W3 W4 : ℕ → ℝ) : Prop := W3 0 = W4 0 ∧ W3 1 = W4 1 ∧ W3 2 = W4 3 ∧ W4 2 = 0

/-- the 1D boundary treatment `b3` and the x-boundary treatment `b4` of the 2D problem correspond: both periodic,
or kernels that map agreeing states to agreeing states -/
def BCMatch : BCPair ℝ ℕ → BCPair ℝ ℕ → Prop
  | .periodic, .periodic => True
  | .open lo3 hi3, .open lo4 hi4 =>
      (∀ W3 W4, Agree W3 W4 → Agree (lo3 W3) (lo4 W4)) ∧ (∀ W3 W4, Agree W3 W4 → Agree (hi3 W3) (hi4 W4))
  | .periodic, .open _ _ => False
  | .open _ _, .periodic => False

/-- slip walls: the 1D `sym` kernels correspond to the 2D `sym` kernels with normals `(∓1, 0)` -/
theorem BCMatch_sym (γ : ℝ) :
    BCMatch (BCPair.open (eulerBC γ (-1) EulerBC.sym) (eulerBC γ 1 EulerBC.sym))
      (BCPair.open (euler2dBC γ (-1) 0 Euler2DBC.sym) (euler2dBC γ 1 0 Euler2DBC.sym)) := by
  constructor <;> rintro W3 W4 ⟨h0, h1, h2, h3⟩
  · refine ⟨h0, ?_, h2, ?_⟩
    · show -(W3 1) = W4 1 - 2 * ((W4 1 * (-1) + W4 2 * 0) * (-1))
      rw [h1]; ring
    · show W4 2 - 2 * ((W4 1 * (-1) + W4 2 * 0) * 0) = 0
      rw [h3]; ring
  · refine ⟨h0, ?_, h2, ?_⟩
    · show -(W3 1) = W4 1 - 2 * ((W4 1 * 1 + W4 2 * 0) * 1)
      rw [h1]; ring
    · show W4 2 - 2 * ((W4 1 * 1 + W4 2 * 0) * 0) = 0
      rw [h3]; ring

theorem BCMatch_periodic : BCMatch BCPair.periodic BCPair.periodic := trivial

/-- supersonic outlet / pressure outlet on the right, wall on the left, etc.: the copies correspond -/
theorem BCMatch_outsup (γ : ℝ) (lo3 lo4 : (ℕ → ℝ) → (ℕ → ℝ)) (hlo : ∀ W3 W4, Agree W3 W4 → Agree (lo3 W3) (lo4 W4)) :
    BCMatch (BCPair.open lo3 (eulerBC γ 1 EulerBC.outsup)) (BCPair.open lo4 (euler2dBC γ 1 0 Euler2DBC.outsup)) :=
  ⟨hlo, fun _ _ h => h⟩
theorem BCMatch_outsub (γ p : ℝ) (lo3 lo4 : (ℕ → ℝ) → (ℕ → ℝ)) (hlo : ∀ W3 W4, Agree W3 W4 → Agree (lo3 W3) (lo4 W4)) :
    BCMatch (BCPair.open lo3 (eulerBC γ 1 (EulerBC.outsub p)))
      (BCPair.open lo4 (euler2dBC γ 1 0 (Euler2DBC.outsub p))) :=
  ⟨hlo, fun _ _ h => ⟨h.1, h.2.1, rfl, h.2.2.2⟩⟩

theorem BCMatch_isPer (b3 b4 : BCPair ℝ ℕ) (h : BCMatch b3 b4) : b3.isPer = b4.isPer := by
  cases b3 <;> cases b4 <;> first | rfl | exact absurd h id

theorem lL0_agree {n : ℕ} (hn : n ≠ 0) (per : Bool) (km kp : ℝ) (d3 d4 : ℕ → ℕ → ℝ)
    (hd : ∀ c, c < n → Agree (fun l => d3 l c) (fun l => d4 l c)) {a : ℕ} (ha : a ≤ n) :
    Agree (fun l => lL0 n per km kp (d3 l) a) (fun l => lL0 n per km kp (d4 l) a) :=
  ⟨lL0_congr hn per km kp _ _ (fun c hc => (hd c hc).1) ha,
    lL0_congr hn per km kp _ _ (fun c hc => (hd c hc).2.1) ha,
    lL0_congr hn per km kp _ _ (fun c hc => (hd c hc).2.2.1) ha,
    lL0_zero hn per km kp _ (fun c hc => (hd c hc).2.2.2) ha⟩

theorem lR0_agree {n : ℕ} (hn : n ≠ 0) (per : Bool) (km kp : ℝ) (d3 d4 : ℕ → ℕ → ℝ)
    (hd : ∀ c, c < n → Agree (fun l => d3 l c) (fun l => d4 l c)) {a : ℕ} (ha : a ≤ n) :
    Agree (fun l => lR0 n per km kp (d3 l) a) (fun l => lR0 n per km kp (d4 l) a) :=
  ⟨lR0_congr hn per km kp _ _ (fun c hc => (hd c hc).1) ha,
    lR0_congr hn per km kp _ _ (fun c hc => (hd c hc).2.1) ha,
    lR0_congr hn per km kp _ _ (fun c hc => (hd c hc).2.2.1) ha,
    lR0_zero hn per km kp _ (fun c hc => (hd c hc).2.2.2) ha⟩

/-- the left face states of the two line pipelines agree at every face -/
theorem lL_agree {n : ℕ} (hn : n ≠ 0) (b3 b4 : BCPair ℝ ℕ) (hbc : BCMatch b3 b4) (km kp : ℝ)
    (d3 d4 : ℕ → ℕ → ℝ) (hd : ∀ c, c < n → Agree (fun l => d3 l c) (fun l => d4 l c)) {a : ℕ} (ha : a ≤ n) :
    Agree (fun l => lL n b3 km kp d3 l a) (fun l => lL n b4 km kp d4 l a) := by
  rcases b3 with _ | ⟨lo3, hi3⟩ <;> rcases b4 with _ | ⟨lo4, hi4⟩
  · by_cases h0 : a = 0
    · simp only [lL, if_pos h0]; exact lL0_agree hn _ km kp d3 d4 hd le_rfl
    · simp only [lL, if_neg h0]; exact lL0_agree hn _ km kp d3 d4 hd ha
  · exact absurd hbc id
  · exact absurd hbc id
  · by_cases h0 : a = 0
    · simp only [lL, if_pos h0]; exact hbc.1 _ _ (lR0_agree hn _ km kp d3 d4 hd (Nat.zero_le n))
    · simp only [lL, if_neg h0]; exact lL0_agree hn _ km kp d3 d4 hd ha

/-- the right face states of the two line pipelines agree at every face -/
theorem lR_agree {n : ℕ} (hn : n ≠ 0) (b3 b4 : BCPair ℝ ℕ) (hbc : BCMatch b3 b4) (km kp : ℝ)
    (d3 d4 : ℕ → ℕ → ℝ) (hd : ∀ c, c < n → Agree (fun l => d3 l c) (fun l => d4 l c)) {a : ℕ} (ha : a ≤ n) :
    Agree (fun l => lR n b3 km kp d3 l a) (fun l => lR n b4 km kp d4 l a) := by
  rcases b3 with _ | ⟨lo3, hi3⟩ <;> rcases b4 with _ | ⟨lo4, hi4⟩
  · by_cases h0 : a = n
    · simp only [lR, if_pos h0]; exact lR0_agree hn _ km kp d3 d4 hd (Nat.zero_le n)
    · simp only [lR, if_neg h0]; exact lR0_agree hn _ km kp d3 d4 hd ha
  · exact absurd hbc id
  · exact absurd hbc id
  · by_cases h0 : a = n
    · simp only [lR, if_pos h0]; exact hbc.2 _ _ (lL0_agree hn _ km kp d3 d4 hd le_rfl)
    · simp only [lR, if_neg h0]; exact lR0_agree hn _ km kp d3 d4 hd ha

/-- the 1D flux name corresponding to a 2D flux name -/
def flux1 : Euler2DFlux → EulerFlux
  | .centered => .centered
  | .hlle => .hlle

/-- through an x-face, between states with `uy = 0`, the 2D flux is the 1D flux (mass, normal momentum, energy)
and carries no y-momentum (`C02.e2Hlle_reduces_1d`, `C02.e2Centered_reduces_1d`) -/
theorem flux_agree (γ : ℝ) (fl : Euler2DFlux) (L3 R3 L4 R4 : ℕ → ℝ) (hL : Agree L3 L4) (hR : Agree R3 R4) :
    Agree (eulerFluxV γ (flux1 fl) L3 R3) (euler2dFluxV γ fl 1 0 L4 R4) := by
  obtain ⟨a0, a1, a2, a3⟩ := hL
  obtain ⟨b0, b1, b2, b3⟩ := hR
  cases fl with
  | centered =>
    have h := C02.e2Centered_reduces_1d γ (L4 0) (L4 1) (L4 3) (R4 0) (R4 1) (R4 3)
    simp only [Agree, eulerFluxV, euler2dFluxV, flux1, vec3, vec4, a0, a1, a2, a3, b0, b1, b2, b3, h, and_self]
  | hlle =>
    have h := C02.e2Hlle_reduces_1d γ (L4 0) (L4 1) (L4 3) (R4 0) (R4 1) (R4 3)
    simp only [Agree, eulerFluxV, euler2dFluxV, flux1, vec3, vec4, a0, a1, a2, a3, b0, b1, b2, b3, h, and_self]

/-- the primitive states agree when the conservative states do -/
theorem c2p_agree (γ : ℝ) (Q3 Q4 : ℕ → ℝ) (h : Agree Q3 Q4) : Agree (eulerC2P γ Q3) (euler2dC2P γ Q4) := by
  obtain ⟨h0, h1, h2, h3⟩ := h
  refine ⟨h0, ?_, ?_, ?_⟩
  · show Q3 1 / Q3 0 = Q4 1 / Q4 0
    rw [h0, h1]
  · show ePressure γ (Q3 0) (Q3 1) (Q3 2) = e2Pressure γ (Q4 0) (Q4 1) (Q4 2) (Q4 3)
    unfold ePressure e2Pressure eKinetic e2Kinetic
    rw [h0, h1, h2, h3]; ring
  · show Q4 2 / Q4 0 = 0
    rw [h3, zero_div]

/-- the 1D conservative field `(ρ, mx, E)` extracted from the 2D one -/
def cons3 (q1 : ℕ → ℕ → ℝ) : ℕ → ℕ → ℝ := fun k a => vec3 (q1 0 a, q1 1 a, q1 3 a) k

/-- the genuine 1D Euler discretisation of the model on the uniform mesh `uniMesh nx lx 0`: `eulerC2P`,
`eulerFluxV`, scheme `extrapol1` / `extrapolk κ`, boundary treatment `b3`, no sources -/
noncomputable def euler1dRow (γ : ℝ) (fl : Euler2DFlux) (D : Disc2D ℝ ℕ) (b3 : BCPair ℝ ℕ) : Disc1D ℝ ℕ :=
  mkRow D.mesh.nx D.mesh.lx D.scheme b3 (eulerC2P γ) (eulerFluxV γ (flux1 fl))

/-- what `euler1dRow` is, spelled out for slip walls and first order / κ -/
example (γ : ℝ) (D : Disc2D ℝ ℕ) (κ : ℝ) (hs : D.scheme = Scheme2D.kappa κ) :
    euler1dRow γ Euler2DFlux.hlle D (BCPair.open (eulerBC γ (-1) EulerBC.sym) (eulerBC γ 1 EulerBC.sym))
      = { mesh := uniMesh D.mesh.nx D.mesh.lx 0, scheme := Scheme.extrapolk κ,
          bc := BC1D.open (eulerBC γ (-1) EulerBC.sym) (eulerBC γ 1 EulerBC.sym),
          c2p := eulerC2P γ, flux := eulerFluxV γ EulerFlux.hlle, src := fun _ => none } := by
  unfold euler1dRow mkRow; rw [hs]; rfl

/-- every face flux of the row discretisation agrees with the face flux of the 1D Euler discretisation -/
theorem row_faceFluxes_agree (γ : ℝ) (fl : Euler2DFlux) (D : Disc2D ℝ ℕ) (hc : D.c2p = euler2dC2P γ)
    (hflux : D.flux = euler2dFluxV γ fl) (b3 : BCPair ℝ ℕ) (hbc : BCMatch b3 D.bcx) (hnx : 0 < D.mesh.nx)
    (hlx : D.mesh.lx ≠ 0) (q1 : ℕ → ℕ → ℝ) (hmy : ∀ a, a < D.mesh.nx → q1 2 a = 0) (a : ℕ) (ha : a ≤ D.mesh.nx) :
    Agree (fun k => (euler1dRow γ fl D b3).faceFluxes (cons3 q1) k a) (fun k => (rowDisc D).faceFluxes q1 k a) := by
  have hd : ∀ c, c < D.mesh.nx →
      Agree (fun l => eulerC2P γ (fun l' => cons3 q1 l' c) l) (fun l => euler2dC2P γ (fun l' => q1 l' c) l) :=
    fun c hc' => c2p_agree γ _ _ ⟨rfl, rfl, rfl, hmy c hc'⟩
  have hL := lL_agree (by omega : D.mesh.nx ≠ 0) b3 D.bcx hbc D.scheme.km D.scheme.kp _ _ hd ha
  have hR := lR_agree (by omega : D.mesh.nx ≠ 0) b3 D.bcx hbc D.scheme.km D.scheme.kp _ _ hd ha
  have h := flux_agree γ fl _ _ _ _ hL hR
  rw [rowDisc_eq]
  unfold euler1dRow
  simp only [mkRow_flux _ hnx _ hlx, hc, hflux]
  exact h

/-- **the row discretisation is the 1D Euler discretisation**: for data with zero y-momentum the components
`ρ, mx, E` of the row residual are the residuals of the 1D Euler pipeline, and the `my` component vanishes -/
theorem rowDisc_eq_euler1d (γ : ℝ) (fl : Euler2DFlux) (D : Disc2D ℝ ℕ) (hc : D.c2p = euler2dC2P γ)
    (hflux : D.flux = euler2dFluxV γ fl) (b3 : BCPair ℝ ℕ) (hbc : BCMatch b3 D.bcx) (hnx : 0 < D.mesh.nx)
    (hlx : D.mesh.lx ≠ 0) (q1 : ℕ → ℕ → ℝ) (hmy : ∀ a, a < D.mesh.nx → q1 2 a = 0) (i : ℕ) (hi : i < D.mesh.nx) :
    (rowDisc D).rhs q1 0 i = (euler1dRow γ fl D b3).rhs (cons3 q1) 0 i
    ∧ (rowDisc D).rhs q1 1 i = (euler1dRow γ fl D b3).rhs (cons3 q1) 1 i
    ∧ (rowDisc D).rhs q1 3 i = (euler1dRow γ fl D b3).rhs (cons3 q1) 2 i
    ∧ (rowDisc D).rhs q1 2 i = 0 := by
  obtain ⟨a0, a1, a2, a3⟩ := row_faceFluxes_agree γ fl D hc hflux b3 hbc hnx hlx q1 hmy (i + 1) (by omega)
  obtain ⟨b0, b1, b2, b3'⟩ := row_faceFluxes_agree γ fl D hc hflux b3 hbc hnx hlx q1 hmy i (by omega)
  have hm : (rowDisc D).mesh = (euler1dRow γ fl D b3).mesh := by rw [rowDisc_eq]; rfl
  have hr4 : ∀ k, (rowDisc D).rhs q1 k i
      = -((rowDisc D).faceFluxes q1 k (i + 1) - (rowDisc D).faceFluxes q1 k i) / (rowDisc D).mesh.vol i := by
    intro k; rw [rowDisc_eq]; rfl
  have hr3 : ∀ k, (euler1dRow γ fl D b3).rhs (cons3 q1) k i
      = -((euler1dRow γ fl D b3).faceFluxes (cons3 q1) k (i + 1) - (euler1dRow γ fl D b3).faceFluxes (cons3 q1) k i)
        / (euler1dRow γ fl D b3).mesh.vol i := fun k => rfl
  simp only at a0 a1 a2 a3 b0 b1 b2 b3'
  refine ⟨?_, ?_, ?_, ?_⟩
  · rw [hr4, hr3, a0, b0, hm]
  · rw [hr4, hr3, a1, b1, hm]
  · rw [hr4, hr3, a2, b2, hm]
  · rw [hr4, a3, b3', sub_self, neg_zero, zero_div]

/-- `BCMatch` gives `KeepsUy0` -/
theorem keepsUy0_of_match (b3 b4 : BCPair ℝ ℕ) (h : BCMatch b3 b4) : KeepsUy0 b4 := by
  rcases b3 with _ | ⟨lo3, hi3⟩ <;> rcases b4 with _ | ⟨lo4, hi4⟩
  · trivial
  · exact absurd h id
  · exact absurd h id
  · constructor <;> intro W hW
    · exact (h.1 (vec3 (W 0, W 1, W 3)) W ⟨rfl, rfl, rfl, hW⟩).2.2.2
    · exact (h.2 (vec3 (W 0, W 1, W 3)) W ⟨rfl, rfl, rfl, hW⟩).2.2.2

/-- **C15 with slip walls at top/bottom, as stated**: y-independent data with zero y-momentum, `sym` at bottom and
top, `centered` or `hlle` flux, any scheme (first order / any κ), x-sides periodic or with kernels corresponding to
1D kernels (`BCMatch`: slip walls, outlets, …), any `nx × ny` mesh.  In every cell `(i, j)` the 2D residuals of
density, x-momentum and energy are the residuals of the 1D Euler solver on the row, and the y-momentum residual is 0. -/
theorem euler2d_rows_walls (γ : ℝ) (fl : Euler2DFlux) (D : Disc2D ℝ ℕ) (hc : D.c2p = euler2dC2P γ)
    (hflux : D.flux = euler2dFluxV γ fl) (hby : D.bcy = symY γ) (b3 : BCPair ℝ ℕ) (hbc : BCMatch b3 D.bcx)
    (hny : D.mesh.ny ≠ 0) (hnx : 0 < D.mesh.nx) (hlx : D.mesh.lx ≠ 0) (q1 : ℕ → ℕ → ℝ)
    (hmy : ∀ a, a < D.mesh.nx → q1 2 a = 0) (i j : ℕ) (hi : i < D.mesh.nx) (hj : j < D.mesh.ny) :
    D.rhs (fun l a _ => q1 l a) 0 i j = (euler1dRow γ fl D b3).rhs (cons3 q1) 0 i
    ∧ D.rhs (fun l a _ => q1 l a) 1 i j = (euler1dRow γ fl D b3).rhs (cons3 q1) 1 i
    ∧ D.rhs (fun l a _ => q1 l a) 3 i j = (euler1dRow γ fl D b3).rhs (cons3 q1) 2 i
    ∧ D.rhs (fun l a _ => q1 l a) 2 i j = 0 := by
  obtain ⟨h0, h1, h3, h2⟩ := rowDisc_eq_euler1d γ fl D hc hflux b3 hbc hnx hlx q1 hmy i hi
  have hrow := fun k => rhs_rows_eq_1d_walls γ D hc hby hny hnx hlx q1 k i j hj (hmy i hi)
  exact ⟨(hrow 0).trans h0, (hrow 1).trans h1, (hrow 3).trans h3, (hrow 2).trans h2⟩

/-- the same with periodic top/bottom (`C15.rhs_rows_eq_1d` carried to the genuine 1D Euler discretisation) -/
theorem euler2d_rows_periodic (γ : ℝ) (fl : Euler2DFlux) (D : Disc2D ℝ ℕ) (hc : D.c2p = euler2dC2P γ)
    (hflux : D.flux = euler2dFluxV γ fl) (hby : D.bcy = BCPair.periodic) (b3 : BCPair ℝ ℕ) (hbc : BCMatch b3 D.bcx)
    (hny : D.mesh.ny ≠ 0) (hnx : 0 < D.mesh.nx) (hlx : D.mesh.lx ≠ 0) (q1 : ℕ → ℕ → ℝ)
    (hmy : ∀ a, a < D.mesh.nx → q1 2 a = 0) (i j : ℕ) (hi : i < D.mesh.nx) (hj : j < D.mesh.ny) :
    D.rhs (fun l a _ => q1 l a) 0 i j = (euler1dRow γ fl D b3).rhs (cons3 q1) 0 i
    ∧ D.rhs (fun l a _ => q1 l a) 1 i j = (euler1dRow γ fl D b3).rhs (cons3 q1) 1 i
    ∧ D.rhs (fun l a _ => q1 l a) 3 i j = (euler1dRow γ fl D b3).rhs (cons3 q1) 2 i
    ∧ D.rhs (fun l a _ => q1 l a) 2 i j = 0 := by
  obtain ⟨h0, h1, h3, h2⟩ := rowDisc_eq_euler1d γ fl D hc hflux b3 hbc hnx hlx q1 hmy i hi
  have hrow := fun k => rhs_rows_eq_1d_periodic' D hby hny hnx hlx q1 k i j hj
  exact ⟨(hrow 0).trans h0, (hrow 1).trans h1, (hrow 3).trans h3, (hrow 2).trans h2⟩

/-! ### non-vacuity: a 3×2 box with slip walls on all four sides -/

section examples

/-- 3×2 mesh (`dx = dy = 1`), κ = 1/3 scheme, HLLE flux, `γ = 7/5`, slip walls left/right and bottom/top -/
noncomputable def exBoxC : Disc2D ℝ ℕ :=
  { mesh := { nx := 3, ny := 2, lx := 3, ly := 2 }, scheme := Scheme2D.kappa (1/3),
    bcx := BCPair.open (euler2dBC (7/5) (-1) 0 Euler2DBC.sym) (euler2dBC (7/5) 1 0 Euler2DBC.sym),
    bcy := symY (7/5), c2p := euler2dC2P (7/5), flux := euler2dFluxV (7/5) Euler2DFlux.hlle }

/-- y-independent, x-dependent data with zero y-momentum: `ρ = 1 + a`, `mx = a`, `my = 0`, `E = 10` in column `a` -/
def exRowQ : ℕ → ℕ → ℝ := fun k a => match k with | 0 => 1 + a | 1 => a | 2 => 0 | _ => 10

/-- non-vacuity of `euler2d_rows_walls` (and of `rhs_rows_eq_1d_walls`, `rowDisc_eq_euler1d`, `ymom_rhs_zero_walls`
through it): in every cell of the 3×2 box the 2D residuals of `ρ, mx, E` are those of the 1D Euler solver between
walls on the row, and the `my` residual is zero -/
example (i j : ℕ) (hi : i < 3) (hj : j < 2) :
    exBoxC.rhs (fun l a _ => exRowQ l a) 0 i j
        = (euler1dRow (7/5) Euler2DFlux.hlle exBoxC
            (BCPair.open (eulerBC (7/5) (-1) EulerBC.sym) (eulerBC (7/5) 1 EulerBC.sym))).rhs (cons3 exRowQ) 0 i
    ∧ exBoxC.rhs (fun l a _ => exRowQ l a) 1 i j
        = (euler1dRow (7/5) Euler2DFlux.hlle exBoxC
            (BCPair.open (eulerBC (7/5) (-1) EulerBC.sym) (eulerBC (7/5) 1 EulerBC.sym))).rhs (cons3 exRowQ) 1 i
    ∧ exBoxC.rhs (fun l a _ => exRowQ l a) 3 i j
        = (euler1dRow (7/5) Euler2DFlux.hlle exBoxC
            (BCPair.open (eulerBC (7/5) (-1) EulerBC.sym) (eulerBC (7/5) 1 EulerBC.sym))).rhs (cons3 exRowQ) 2 i
    ∧ exBoxC.rhs (fun l a _ => exRowQ l a) 2 i j = 0 :=
  euler2d_rows_walls (7/5) Euler2DFlux.hlle exBoxC rfl rfl rfl _ (BCMatch_sym (7/5))
    (show (2 : ℕ) ≠ 0 by decide) (show 0 < 3 by decide) (show (3 : ℝ) ≠ 0 by norm_num) exRowQ
    (fun _ _ => rfl) i j hi hj

/-- non-vacuity of `euler2d_yflux_walls`: on the same box every y-face `j = 0, 1, 2` of column `i` (the bottom
wall, the interior face and the top wall) carries `(0, 0, p_i, 0)` with `p_i = 2/5 (10 - i²/(2(1+i))) > 0` -/
example (k i j : ℕ) (hi : i < 3) (hj : j ≤ 2) :
    exBoxC.yFlux (fun l a _ => exRowQ l a) k i j
      = vec4 (0, 0, e2Pressure (7/5) (exRowQ 0 i) (exRowQ 1 i) (exRowQ 2 i) (exRowQ 3 i), 0) k := by
  refine euler2d_yflux_walls (7/5) Euler2DFlux.hlle exBoxC rfl rfl rfl (show (2 : ℕ) ≠ 0 by decide) exRowQ
    k i j hj rfl (fun _ => ⟨by norm_num, ?_, ?_⟩)
  · interval_cases i <;> norm_num [exRowQ]
  · interval_cases i <;> norm_num [exRowQ, e2Pressure, e2Kinetic]

/-- the 1D discretisation on the right-hand side is the model's 1D Euler pipeline between walls: uniform mesh of
3 cells of length 1, `extrapolk 1/3`, `sym` at both ends, `hlle` -/
example : euler1dRow (7/5) Euler2DFlux.hlle exBoxC
      (BCPair.open (eulerBC (7/5) (-1) EulerBC.sym) (eulerBC (7/5) 1 EulerBC.sym))
    = { mesh := uniMesh 3 3 0, scheme := Scheme.extrapolk (1/3),
        bc := BC1D.open (eulerBC (7/5) (-1) EulerBC.sym) (eulerBC (7/5) 1 EulerBC.sym),
        c2p := eulerC2P (7/5), flux := eulerFluxV (7/5) EulerFlux.hlle, src := fun _ => none } := rfl

end examples

end Flowdyn.C15
