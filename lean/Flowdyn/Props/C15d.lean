/-
C15d — the row-by-row reduction of the 2D Euler operator to the 1D Euler operator (C15c) for ALL named x-boundary
kernels that both models have: `dirichlet`, `sym`, `insub`, `insup`, `outsub`, `outsup` (and periodicity).

`C15c.euler2d_rows_walls / euler2d_rows_periodic` are parametrised by `BCMatch b3 D.bcx` ("the 1D kernels `b3` and
the 2D x-kernels map agreeing states to agreeing states") and C15c instantiates it for periodic, `sym`, and
`outsup` / `outsub` on the right side.  Here:

1. kernel level, any ordered field with `sqrt` / `rpow` (`e2BcInsub_x`, `e2BcInsup_x`, `e2BcSym_x`): on a side of
   outward normal `(dir, 0)` the 2D inlet kernels return the density, velocity and pressure of the 1D kernels called
   with `dir`, and zero y-velocity.  Sign conventions: 1D `-dir * sqrt(γ m2 p/ρ)`, 2D `(-sqrt(γ p m2/ρ)) * (nx, ny)`
   (`insub`) and `sqrt(γ p m2/ρ) * (-nx, -ny)` (`insup` without angle): the same number for `(nx, ny) = (dir, 0)`,
   so the inflow velocity is `+s` on the left side (`dir = -1`) and `-s` on the right side (`dir = +1`) in both.
2. `SideMatch k3 k4` (one side of `BCMatch`), the name map `name1 : Euler2DBC → EulerBC` (`dirichlet (ρ,ux,uy,p) ↦
   dirichlet (ρ,ux,p)`, the others to the kernel of the same name) and the side condition `NormalX dir k`
   (`dirichlet`: prescribed `uy = 0`; `insup` with an angle: inflow direction `(-dir, 0)`; nothing for the others);
   `sideMatch_named`: every 2D kernel name with `NormalX` matches its 1D name, both sides (`dir = ∓1`);
   `BCMatch_named`: hence any left/right combination of named kernels is matched.
3. `euler2d_rows_walls'`, `euler2d_rows_periodic'`: C15 for all named x-kernels at once (slip walls / periodicity
   at top and bottom); `euler2d_rows_named`: both top/bottom treatments and x-sides periodic or named (`XMatch`).
4. the side conditions are sharp (`insup_angle_match_iff`, `dirichlet_match_iff`): an `insup` angle matches iff it
   gives the normal inflow direction (or the inlet speed is zero), a `dirichlet` state matches iff `uy = 0`;
   concrete: angle 0 (`(cos, sin) = (1, 0)`) on the RIGHT side gives `ux = +21/2` in 2D against `u = -21/2` in 1D
   (`insup_angle0_right_mismatch`) — a parameter choice of the user, not a defect of the kernels.
5. non-vacuity with numbers: `γ = 7/5`, totals of the state `(1, 1/2, 1)` (`insub`, both sides), `ptot = 128`,
   `rttot = 21`, `p = 1` (`insup`: state `(4/21, ±21/2, 1)`), and the residual identities on a 3×2 box for the pairs
   `insub/outsub`, `insup/outsup`, `outsub/insub` (flow from the right), `dirichlet/insup with angle 180°`.

The 1D kernels `insub_cbc`, `outsub_qtot`, `outsub_rh`, `outsub_nrcbc` have no 2D counterpart in the code
(`euler2d` registers only the six names above), so there is nothing to match for them.
-/
import Flowdyn.Props.C15c
import Flowdyn.Props.C16
import Flowdyn.Lemmas.RealInst

namespace Flowdyn.C15d
open Flowdyn Flowdyn.C15

/-! ### kernel level: the 2D kernels on a side of normal `(dir, 0)` are the 1D kernels with `dir` -/

section kernels
variable {α : Type} [Field α] [LinearOrder α] [IsStrictOrderedRing α] [HasSqrt α] [HasRpow α]
set_option linter.unusedSectionVars false

/-- 2D `insub` on a side of outward normal `(dir, 0)`: density, x-velocity and pressure of the 1D `insub` called
with `dir`, zero y-velocity — whatever the interior densities and velocities (both kernels only read the pressure) -/
theorem e2BcInsub_x (γ dir ptot rttot r ux uy r' u' p : α) :
    e2BcInsub γ dir 0 ptot rttot r ux uy p
      = ((eBcInsub γ dir ptot rttot r' u' p).1, (eBcInsub γ dir ptot rttot r' u' p).2.1, 0,
          (eBcInsub γ dir ptot rttot r' u' p).2.2) := by
  simp only [e2BcInsub, eBcInsub]
  refine Prod.ext rfl (Prod.ext ?_ (Prod.ext ?_ rfl))
  · simp only
    rw [mul_right_comm γ p]; ring
  · simp only
    rw [mul_zero]

/-- 2D `insup` with inflow direction `(-dir, 0)` (no angle on a side of normal `(dir, 0)`, or the angle of the
inward normal): the 1D `insup` called with `dir`, zero y-velocity -/
theorem e2BcInsup_x (γ dir ptot rttot pin : α) :
    e2BcInsup γ (-dir) 0 ptot rttot pin
      = ((eBcInsup γ dir ptot rttot pin).1, (eBcInsup γ dir ptot rttot pin).2.1, 0,
          (eBcInsup γ dir ptot rttot pin).2.2) := by
  simp only [e2BcInsup, eBcInsup]
  refine Prod.ext rfl (Prod.ext ?_ (Prod.ext ?_ rfl))
  · simp only
    rw [mul_right_comm γ pin]; ring
  · simp only
    rw [mul_zero]

/-- 2D `sym` on a side of normal `(dir, 0)`, `dir = ∓1`, for a state with `uy = 0`: the 1D `sym` -/
theorem e2BcSym_x (dir r ux p : α) (hdir : dir = -1 ∨ dir = 1) :
    e2BcSym dir 0 r ux 0 p = ((eBcSym r ux p).1, (eBcSym r ux p).2.1, 0, (eBcSym r ux p).2.2) := by
  simp only [e2BcSym, eBcSym]
  refine Prod.ext rfl (Prod.ext ?_ (Prod.ext ?_ rfl))
  · simp only
    rcases hdir with h | h <;> rw [h] <;> ring
  · simp only
    ring

end kernels

/-! ### matching of the named kernels, side by side -/

/-- one side of `C15.BCMatch`: the 1D kernel `k3` and the 2D kernel `k4` map agreeing states to agreeing states -/
def SideMatch (k3 k4 : (ℕ → ℝ) → (ℕ → ℝ)) : Prop := ∀ W3 W4, Agree W3 W4 → Agree (k3 W3) (k4 W4)

/-- `BCMatch` of two open pairs is `SideMatch` on each side -/
theorem BCMatch_open_iff (lo3 hi3 lo4 hi4 : (ℕ → ℝ) → (ℕ → ℝ)) :
    BCMatch (BCPair.open lo3 hi3) (BCPair.open lo4 hi4) ↔ SideMatch lo3 lo4 ∧ SideMatch hi3 hi4 := Iff.rfl

/-- the 1D kernel name corresponding to a 2D kernel name; a prescribed state `(ρ, ux, uy, p)` gives `(ρ, ux, p)` -/
def name1 : Euler2DBC ℝ → EulerBC ℝ
  | .dirichlet P => .dirichlet (vec3 (P 0, P 1, P 3))
  | .sym => .sym
  | .insub ptot rttot => .insub ptot rttot
  | .insup ptot rttot p _ => .insup ptot rttot p
  | .outsub p => .outsub p
  | .outsup => .outsup

/-- the 2D kernel acts normally to the x-side of outward normal `(dir, 0)`: a prescribed `dirichlet` state has
`uy = 0`, an `insup` inflow direction given by an angle is the inward normal `(-dir, 0)` (angle 0 on the left side,
180° on the right side); no condition on `sym`, `insub`, `insup` without angle, `outsub`, `outsup` -/
def NormalX (dir : ℝ) : Euler2DBC ℝ → Prop
  | .dirichlet P => P 2 = 0
  | .insup _ _ _ (some d) => d = (-dir, 0)
  | _ => True

/-- `dirichlet`: the prescribed states agree -/
theorem sideMatch_dirichlet (γ dir nx ny : ℝ) (P3 P4 : ℕ → ℝ) (h : Agree P3 P4) :
    SideMatch (eulerBC γ dir (EulerBC.dirichlet P3)) (euler2dBC γ nx ny (Euler2DBC.dirichlet P4)) :=
  fun _ _ _ => h

/-- `dirichlet` with the 2D state `(ρ, u, 0, p)` against the 1D state `(ρ, u, p)` -/
theorem sideMatch_dirichlet' (γ dir nx ny r u p : ℝ) :
    SideMatch (eulerBC γ dir (EulerBC.dirichlet (vec3 (r, u, p))))
      (euler2dBC γ nx ny (Euler2DBC.dirichlet (vec4 (r, u, 0, p)))) :=
  fun _ _ _ => ⟨rfl, rfl, rfl, rfl⟩

/-- `sym` on a side of normal `(dir, 0)`, `dir = ∓1` -/
theorem sideMatch_sym (γ dir : ℝ) (hdir : dir = -1 ∨ dir = 1) :
    SideMatch (eulerBC γ dir EulerBC.sym) (euler2dBC γ dir 0 Euler2DBC.sym) := by
  rintro W3 W4 ⟨h0, h1, h2, h3⟩
  show Agree (vec3 (eBcSym (W3 0) (W3 1) (W3 2))) (vec4 (e2BcSym dir 0 (W4 0) (W4 1) (W4 2) (W4 3)))
  rw [h3, e2BcSym_x dir _ _ _ hdir, h0, h1, h2]
  exact ⟨rfl, rfl, rfl, rfl⟩

/-- **subsonic inlet**: 2D `insub` on the side of normal `(dir, 0)` against 1D `insub` with `dir` — any `dir`,
any totals, any `γ` -/
theorem sideMatch_insub (γ dir ptot rttot : ℝ) :
    SideMatch (eulerBC γ dir (EulerBC.insub ptot rttot)) (euler2dBC γ dir 0 (Euler2DBC.insub ptot rttot)) := by
  rintro W3 W4 ⟨_, _, h2, _⟩
  show Agree (vec3 (eBcInsub γ dir ptot rttot (W3 0) (W3 1) (W3 2)))
    (vec4 (e2BcInsub γ dir 0 ptot rttot (W4 0) (W4 1) (W4 2) (W4 3)))
  rw [e2BcInsub_x γ dir ptot rttot _ _ _ (W3 0) (W3 1), h2]
  exact ⟨rfl, rfl, rfl, rfl⟩

/-- **supersonic inlet** without angle: inflow along `-n = (-dir, 0)` against 1D `insup` with `dir` -/
theorem sideMatch_insup (γ dir ptot rttot p : ℝ) :
    SideMatch (eulerBC γ dir (EulerBC.insup ptot rttot p))
      (euler2dBC γ dir 0 (Euler2DBC.insup ptot rttot p none)) := by
  intro W3 W4 _
  show Agree (vec3 (eBcInsup γ dir ptot rttot p)) (vec4 (e2BcInsup γ (-dir) (-0) ptot rttot p))
  rw [neg_zero, e2BcInsup_x]
  exact ⟨rfl, rfl, rfl, rfl⟩

/-- supersonic inlet with an angle whose direction is the inward normal `(-dir, 0)` -/
theorem sideMatch_insup_angle (γ dir nx ny ptot rttot p : ℝ) :
    SideMatch (eulerBC γ dir (EulerBC.insup ptot rttot p))
      (euler2dBC γ nx ny (Euler2DBC.insup ptot rttot p (some (-dir, 0)))) := by
  intro W3 W4 _
  show Agree (vec3 (eBcInsup γ dir ptot rttot p)) (vec4 (e2BcInsup γ (-dir) 0 ptot rttot p))
  rw [e2BcInsup_x]
  exact ⟨rfl, rfl, rfl, rfl⟩

/-- pressure outlet, either side -/
theorem sideMatch_outsub (γ dir nx ny p : ℝ) :
    SideMatch (eulerBC γ dir (EulerBC.outsub p)) (euler2dBC γ nx ny (Euler2DBC.outsub p)) :=
  fun _ _ h => ⟨h.1, h.2.1, rfl, h.2.2.2⟩

/-- supersonic outlet, either side -/
theorem sideMatch_outsup (γ dir nx ny : ℝ) :
    SideMatch (eulerBC γ dir EulerBC.outsup) (euler2dBC γ nx ny Euler2DBC.outsup) :=
  fun _ _ h => h

/-- **every named 2D kernel matches its 1D name** on an x-side of outward normal `(dir, 0)`, `dir = -1` (left) or
`dir = +1` (right), under the side condition `NormalX` -/
theorem sideMatch_named (γ dir : ℝ) (hdir : dir = -1 ∨ dir = 1) (k : Euler2DBC ℝ) (hk : NormalX dir k) :
    SideMatch (eulerBC γ dir (name1 k)) (euler2dBC γ dir 0 k) := by
  cases k with
  | dirichlet P => exact sideMatch_dirichlet γ dir dir 0 _ P ⟨rfl, rfl, rfl, hk⟩
  | sym => exact sideMatch_sym γ dir hdir
  | insub ptot rttot => exact sideMatch_insub γ dir ptot rttot
  | insup ptot rttot p d =>
    cases d with
    | none => exact sideMatch_insup γ dir ptot rttot p
    | some d =>
      have hd : d = (-dir, 0) := hk
      rw [hd]
      exact sideMatch_insup_angle γ dir dir 0 ptot rttot p
  | outsub p => exact sideMatch_outsub γ dir dir 0 p
  | outsup => exact sideMatch_outsup γ dir dir 0

/-- the x-boundary treatment of the 2D problem by named kernels: outward normals `(-1, 0)` (left), `(1, 0)` (right) -/
noncomputable def bcx2 (γ : ℝ) (kl kr : Euler2DBC ℝ) : BCPair ℝ ℕ :=
  BCPair.open (euler2dBC γ (-1) 0 kl) (euler2dBC γ 1 0 kr)

/-- the corresponding boundary treatment of the 1D problem: `dir = -1` (left), `dir = +1` (right) as `fvm1d` calls
`namedBC` -/
noncomputable def bc1d (γ : ℝ) (kl kr : Euler2DBC ℝ) : BCPair ℝ ℕ :=
  BCPair.open (eulerBC γ (-1) (name1 kl)) (eulerBC γ 1 (name1 kr))

/-- **any left/right combination of named kernels is matched** -/
theorem BCMatch_named (γ : ℝ) (kl kr : Euler2DBC ℝ) (hl : NormalX (-1) kl) (hr : NormalX 1 kr) :
    BCMatch (bc1d γ kl kr) (bcx2 γ kl kr) :=
  ⟨sideMatch_named γ (-1) (Or.inl rfl) kl hl, sideMatch_named γ 1 (Or.inr rfl) kr hr⟩

/-- the matched kernels keep `uy = 0` (so `C15.ymom_rhs_zero_walls` applies to them as well) -/
theorem keepsUy0_named (γ : ℝ) (kl kr : Euler2DBC ℝ) (hl : NormalX (-1) kl) (hr : NormalX 1 kr) :
    KeepsUy0 (bcx2 γ kl kr) :=
  keepsUy0_of_match _ _ (BCMatch_named γ kl kr hl hr)

/-- the instances of C15c are contained: slip walls on both sides -/
example (γ : ℝ) :
    BCMatch (BCPair.open (eulerBC γ (-1) EulerBC.sym) (eulerBC γ 1 EulerBC.sym))
      (BCPair.open (euler2dBC γ (-1) 0 Euler2DBC.sym) (euler2dBC γ 1 0 Euler2DBC.sym)) :=
  BCMatch_named γ Euler2DBC.sym Euler2DBC.sym trivial trivial

/-! ### the side conditions are sharp -/

/-- a `dirichlet` pair matches iff the prescribed states agree; in particular the 2D state must have `uy = 0` -/
theorem dirichlet_match_iff (γ dir nx ny : ℝ) (P3 P4 : ℕ → ℝ) :
    SideMatch (eulerBC γ dir (EulerBC.dirichlet P3)) (euler2dBC γ nx ny (Euler2DBC.dirichlet P4))
      ↔ Agree P3 P4 :=
  ⟨fun h => h (fun _ => 0) (fun _ => 0) ⟨rfl, rfl, rfl, rfl⟩, sideMatch_dirichlet γ dir nx ny P3 P4⟩

/-- an `insup` with an inflow direction `d` given by an angle matches the 1D `insup` iff `d` is the inward normal
`(-dir, 0)` — as soon as the inlet speed is not zero -/
theorem insup_angle_match_iff (γ dir nx ny ptot rttot p : ℝ) (d : ℝ × ℝ)
    (hu : (eBcInsup γ dir ptot rttot p).2.1 ≠ 0) :
    SideMatch (eulerBC γ dir (EulerBC.insup ptot rttot p))
        (euler2dBC γ nx ny (Euler2DBC.insup ptot rttot p (some d)))
      ↔ d = (-dir, 0) := by
  constructor
  · intro h
    obtain ⟨_, h1, _, h3⟩ := h (fun _ => 0) (fun _ => 0) ⟨rfl, rfl, rfl, rfl⟩
    have h1' : (eBcInsup γ dir ptot rttot p).2.1 = (e2BcInsup γ d.1 d.2 ptot rttot p).2.1 := h1
    have h3' : (e2BcInsup γ d.1 d.2 ptot rttot p).2.2.1 = 0 := h3
    simp only [e2BcInsup, eBcInsup] at h1' h3' hu
    rw [mul_right_comm γ _ p] at h1' hu
    set s := HasSqrt.sqrt (γ * p * max 0 ((HasRpow.rpow (ptot / p) ((γ - 1) / γ) - 1) * 2 / (γ - 1))
      / (ptot / rttot / HasRpow.rpow (1 + 1 / 2 * (γ - 1)
        * max 0 ((HasRpow.rpow (ptot / p) ((γ - 1) / γ) - 1) * 2 / (γ - 1))) (1 / (γ - 1)))) with hs
    have hs0 : s ≠ 0 := fun h0 => hu (by rw [h0, mul_zero])
    have e1 : d.1 = -dir := mul_left_cancel₀ hs0 (by rw [← h1']; ring)
    have e2 : d.2 = 0 := (mul_eq_zero.mp h3').resolve_left hs0
    exact Prod.ext e1 e2
  · rintro rfl
    exact sideMatch_insup_angle γ dir nx ny ptot rttot p

/-! ### C15 for all named x-boundary kernels at once -/

/-- **C15 with slip walls at top/bottom and ANY named kernels on the x-sides**: y-independent data with zero
y-momentum, `sym` at bottom and top, `centered` or `hlle` flux, any scheme (first order / any κ), any `nx × ny`
mesh, left kernel `kl` (normal `(-1, 0)`) and right kernel `kr` (normal `(1, 0)`) among `dirichlet` (with `uy = 0`),
`sym`, `insub`, `insup` (without angle or with the angle of the inward normal), `outsub`, `outsup`.  In every cell
`(i, j)` the 2D residuals of density, x-momentum and energy are the residuals of the 1D Euler solver on the row with
the kernels of the same names called with `dir = -1` / `dir = +1`, and the y-momentum residual is 0. -/
theorem euler2d_rows_walls' (γ : ℝ) (fl : Euler2DFlux) (D : Disc2D ℝ ℕ) (hc : D.c2p = euler2dC2P γ)
    (hflux : D.flux = euler2dFluxV γ fl) (hby : D.bcy = symY γ) (kl kr : Euler2DBC ℝ)
    (hbx : D.bcx = bcx2 γ kl kr) (hl : NormalX (-1) kl) (hr : NormalX 1 kr)
    (hny : D.mesh.ny ≠ 0) (hnx : 0 < D.mesh.nx) (hlx : D.mesh.lx ≠ 0) (q1 : ℕ → ℕ → ℝ)
    (hmy : ∀ a, a < D.mesh.nx → q1 2 a = 0) (i j : ℕ) (hi : i < D.mesh.nx) (hj : j < D.mesh.ny) :
    D.rhs (fun l a _ => q1 l a) 0 i j = (euler1dRow γ fl D (bc1d γ kl kr)).rhs (cons3 q1) 0 i
    ∧ D.rhs (fun l a _ => q1 l a) 1 i j = (euler1dRow γ fl D (bc1d γ kl kr)).rhs (cons3 q1) 1 i
    ∧ D.rhs (fun l a _ => q1 l a) 3 i j = (euler1dRow γ fl D (bc1d γ kl kr)).rhs (cons3 q1) 2 i
    ∧ D.rhs (fun l a _ => q1 l a) 2 i j = 0 :=
  euler2d_rows_walls γ fl D hc hflux hby (bc1d γ kl kr) (by rw [hbx]; exact BCMatch_named γ kl kr hl hr)
    hny hnx hlx q1 hmy i j hi hj

/-- the same with periodic top/bottom -/
theorem euler2d_rows_periodic' (γ : ℝ) (fl : Euler2DFlux) (D : Disc2D ℝ ℕ) (hc : D.c2p = euler2dC2P γ)
    (hflux : D.flux = euler2dFluxV γ fl) (hby : D.bcy = BCPair.periodic) (kl kr : Euler2DBC ℝ)
    (hbx : D.bcx = bcx2 γ kl kr) (hl : NormalX (-1) kl) (hr : NormalX 1 kr)
    (hny : D.mesh.ny ≠ 0) (hnx : 0 < D.mesh.nx) (hlx : D.mesh.lx ≠ 0) (q1 : ℕ → ℕ → ℝ)
    (hmy : ∀ a, a < D.mesh.nx → q1 2 a = 0) (i j : ℕ) (hi : i < D.mesh.nx) (hj : j < D.mesh.ny) :
    D.rhs (fun l a _ => q1 l a) 0 i j = (euler1dRow γ fl D (bc1d γ kl kr)).rhs (cons3 q1) 0 i
    ∧ D.rhs (fun l a _ => q1 l a) 1 i j = (euler1dRow γ fl D (bc1d γ kl kr)).rhs (cons3 q1) 1 i
    ∧ D.rhs (fun l a _ => q1 l a) 3 i j = (euler1dRow γ fl D (bc1d γ kl kr)).rhs (cons3 q1) 2 i
    ∧ D.rhs (fun l a _ => q1 l a) 2 i j = 0 :=
  euler2d_rows_periodic γ fl D hc hflux hby (bc1d γ kl kr) (by rw [hbx]; exact BCMatch_named γ kl kr hl hr)
    hny hnx hlx q1 hmy i j hi hj

/-- the x-boundary treatment of a 2D problem and the corresponding 1D treatment: both periodic, or named kernels -/
inductive XMatch (γ : ℝ) : BCPair ℝ ℕ → BCPair ℝ ℕ → Prop
  | periodic : XMatch γ BCPair.periodic BCPair.periodic
  | named (kl kr : Euler2DBC ℝ) (hl : NormalX (-1) kl) (hr : NormalX 1 kr) : XMatch γ (bc1d γ kl kr) (bcx2 γ kl kr)

theorem XMatch.bcMatch {γ : ℝ} {b3 b4 : BCPair ℝ ℕ} (h : XMatch γ b3 b4) : BCMatch b3 b4 := by
  cases h with
  | periodic => exact BCMatch_periodic
  | named kl kr hl hr => exact BCMatch_named γ kl kr hl hr

/-- **C15, all treatments at once**: top/bottom slip walls or periodic; x-sides periodic or any named kernels -/
theorem euler2d_rows_named (γ : ℝ) (fl : Euler2DFlux) (D : Disc2D ℝ ℕ) (hc : D.c2p = euler2dC2P γ)
    (hflux : D.flux = euler2dFluxV γ fl) (hby : D.bcy = symY γ ∨ D.bcy = BCPair.periodic)
    (b3 : BCPair ℝ ℕ) (hbx : XMatch γ b3 D.bcx)
    (hny : D.mesh.ny ≠ 0) (hnx : 0 < D.mesh.nx) (hlx : D.mesh.lx ≠ 0) (q1 : ℕ → ℕ → ℝ)
    (hmy : ∀ a, a < D.mesh.nx → q1 2 a = 0) (i j : ℕ) (hi : i < D.mesh.nx) (hj : j < D.mesh.ny) :
    D.rhs (fun l a _ => q1 l a) 0 i j = (euler1dRow γ fl D b3).rhs (cons3 q1) 0 i
    ∧ D.rhs (fun l a _ => q1 l a) 1 i j = (euler1dRow γ fl D b3).rhs (cons3 q1) 1 i
    ∧ D.rhs (fun l a _ => q1 l a) 3 i j = (euler1dRow γ fl D b3).rhs (cons3 q1) 2 i
    ∧ D.rhs (fun l a _ => q1 l a) 2 i j = 0 := by
  rcases hby with hby | hby
  · exact euler2d_rows_walls γ fl D hc hflux hby b3 hbx.bcMatch hny hnx hlx q1 hmy i j hi hj
  · exact euler2d_rows_periodic γ fl D hc hflux hby b3 hbx.bcMatch hny hnx hlx q1 hmy i j hi hj

/-! ### non-vacuity with numbers -/

section examples

/-- total pressure and total temperature (times `R`) of the state `ρ = 1, |u| = 1/2, p = 1` for `γ = 7/5`
(Mach number `≈ 0.42`): `rttot = 29/28`, `ptot = (29/28)^(7/2) ≈ 1.13` -/
noncomputable def exPt : ℝ := C16.ptotOf (7/5) 1 (1/2) 1
noncomputable def exRt : ℝ := C16.rttotOf (7/5) 1 (1/2) 1

example : exRt = 29/28 := by norm_num [exRt, C16.rttotOf]
example : exPt = (29/28 : ℝ) ^ ((7 : ℝ)/2) := by
  unfold exPt C16.ptotOf
  norm_num

/-- `insub` on the LEFT side (`dir = -1`, normal `(-1, 0)`), interior pressure 1: both kernels return the inflow
state `ρ = 1, u = +1/2, p = 1` (2D: `uy = 0`) -/
theorem ex_insub_left (W3 W4 : ℕ → ℝ) (h3 : W3 2 = 1) (h4 : W4 3 = 1) :
    eulerBC (7/5) (-1) (EulerBC.insub exPt exRt) W3 = vec3 (1, 1/2, 1)
    ∧ euler2dBC (7/5) (-1) 0 (Euler2DBC.insub exPt exRt) W4 = vec4 (1, 1/2, 0, 1) := by
  have h : eBcInsub (7/5) (-1) exPt exRt 1 (1/2) 1 = (1, 1/2, 1) :=
    C16.insub_compatible (7/5) (-1) 1 (1/2) 1 (by norm_num) (by norm_num) (by norm_num) (Or.inr rfl)
      (by norm_num)
  constructor
  · show vec3 (eBcInsub (7/5) (-1) exPt exRt (W3 0) (W3 1) (W3 2)) = _
    rw [h3]; exact congrArg vec3 h
  · show vec4 (e2BcInsub (7/5) (-1) 0 exPt exRt (W4 0) (W4 1) (W4 2) (W4 3)) = _
    rw [h4, e2BcInsub_x (7/5) (-1) exPt exRt _ _ _ 1 (1/2) 1, h]

/-- `insub` on the RIGHT side (`dir = +1`, normal `(1, 0)`): both kernels return the inflow state
`ρ = 1, u = -1/2, p = 1` — the inflow velocity points in the negative x-direction in both -/
theorem ex_insub_right (W3 W4 : ℕ → ℝ) (h3 : W3 2 = 1) (h4 : W4 3 = 1) :
    eulerBC (7/5) 1 (EulerBC.insub exPt exRt) W3 = vec3 (1, -1/2, 1)
    ∧ euler2dBC (7/5) 1 0 (Euler2DBC.insub exPt exRt) W4 = vec4 (1, -1/2, 0, 1) := by
  have hpt : exPt = C16.ptotOf (7/5) 1 (-1/2) 1 := by unfold exPt C16.ptotOf; norm_num
  have hrt : exRt = C16.rttotOf (7/5) 1 (-1/2) 1 := by unfold exRt C16.rttotOf; norm_num
  have h : eBcInsub (7/5) 1 exPt exRt 1 (-1/2) 1 = (1, -1/2, 1) := by
    rw [hpt, hrt]
    exact C16.insub_compatible (7/5) 1 1 (-1/2) 1 (by norm_num) (by norm_num) (by norm_num) (Or.inl rfl)
      (by norm_num)
  constructor
  · show vec3 (eBcInsub (7/5) 1 exPt exRt (W3 0) (W3 1) (W3 2)) = _
    rw [h3]; exact congrArg vec3 h
  · show vec4 (e2BcInsub (7/5) 1 0 exPt exRt (W4 0) (W4 1) (W4 2) (W4 3)) = _
    rw [h4, e2BcInsub_x (7/5) 1 exPt exRt _ _ _ 1 (-1/2) 1, h]

/-- non-vacuity of `sideMatch_insub`: the two `insub` states of `ex_insub_left` agree -/
example : Agree (vec3 ((1 : ℝ), 1/2, 1)) (vec4 ((1 : ℝ), 1/2, 0, 1)) := ⟨rfl, rfl, rfl, rfl⟩

private theorem rpow_128 : (128 : ℝ) ^ ((2 : ℝ) / 7) = 4 := by
  have h : (128 : ℝ) = (2 : ℝ) ^ (7 : ℕ) := by norm_num
  rw [h, ← Real.rpow_natCast, ← Real.rpow_mul (by norm_num)]
  have e : ((7 : ℕ) : ℝ) * (2 / 7) = ((2 : ℕ) : ℝ) := by norm_num
  rw [e, Real.rpow_natCast]; norm_num

private theorem rpow_4 : (4 : ℝ) ^ ((5 : ℝ) / 2) = 32 := by
  have h : (4 : ℝ) = (2 : ℝ) ^ (2 : ℕ) := by norm_num
  rw [h, ← Real.rpow_natCast, ← Real.rpow_mul (by norm_num)]
  have e : ((2 : ℕ) : ℝ) * (5 / 2) = ((5 : ℕ) : ℝ) := by norm_num
  rw [e, Real.rpow_natCast]; norm_num

/-- the 1D supersonic inlet for `γ = 7/5`, `ptot = 128`, `rttot = 21`, `p = 1` (`M² = 15`): `ρ = 4/21`, speed
`21/2`, velocity `-dir · 21/2` -/
theorem ex_insup_1d (dir : ℝ) : eBcInsup (7/5) dir 128 21 1 = (4/21, -dir * (21/2), 1) := by
  simp only [eBcInsup, HasSqrt.sqrt_real, HasRpow.rpow_real]
  have e1 : ((7 : ℝ) / 5 - 1) / (7 / 5) = 2 / 7 := by norm_num
  have e2 : (128 : ℝ) / 1 = 128 := by norm_num
  have e3 : max (0 : ℝ) ((4 - 1) * 2 / (7 / 5 - 1)) = 15 := by norm_num
  have e4 : (1 : ℝ) + 1 / 2 * (7 / 5 - 1) * 15 = 4 := by norm_num
  have e5 : (1 : ℝ) / (7 / 5 - 1) = 5 / 2 := by norm_num
  have e6 : (128 : ℝ) / 21 / 32 = 4 / 21 := by norm_num
  have e7 : (7 : ℝ) / 5 * 15 * 1 / (4 / 21) = (21 / 2) ^ 2 := by norm_num
  rw [e1, e2, rpow_128, e3, e4, e5, rpow_4, e6, e7, Real.sqrt_sq (by norm_num)]

/-- `insup` without angle on the LEFT side: `(4/21, +21/2, 1)` in 1D, `(4/21, +21/2, 0, 1)` in 2D; on the RIGHT
side: `(4/21, -21/2, 1)` and `(4/21, -21/2, 0, 1)` -/
theorem ex_insup_sides (W3 W4 : ℕ → ℝ) :
    eulerBC (7/5) (-1) (EulerBC.insup 128 21 1) W3 = vec3 (4/21, 21/2, 1)
    ∧ euler2dBC (7/5) (-1) 0 (Euler2DBC.insup 128 21 1 none) W4 = vec4 (4/21, 21/2, 0, 1)
    ∧ eulerBC (7/5) 1 (EulerBC.insup 128 21 1) W3 = vec3 (4/21, -21/2, 1)
    ∧ euler2dBC (7/5) 1 0 (Euler2DBC.insup 128 21 1 none) W4 = vec4 (4/21, -21/2, 0, 1) := by
  have hl : eBcInsup (7/5 : ℝ) (-1) 128 21 1 = (4/21, 21/2, 1) := by rw [ex_insup_1d]; norm_num
  have hr : eBcInsup (7/5 : ℝ) 1 128 21 1 = (4/21, -21/2, 1) := by rw [ex_insup_1d]; norm_num
  refine ⟨?_, ?_, ?_, ?_⟩
  · exact congrArg vec3 hl
  · show vec4 (e2BcInsup (7/5) (-(-1)) (-0) 128 21 1) = _
    rw [neg_zero, e2BcInsup_x, hl]
  · exact congrArg vec3 hr
  · show vec4 (e2BcInsup (7/5) (-1) (-0) 128 21 1) = _
    rw [neg_zero, e2BcInsup_x, hr]

/-- **an angle that is not the inward normal does not match**: `insup` with angle 0 (direction `(cos 0, sin 0) =
(1, 0)`) on the RIGHT side sends the flow OUT of the 2D domain with `ux = +21/2`, the 1D `insup` with `dir = +1`
sends it in with `u = -21/2` -/
theorem insup_angle0_right_mismatch :
    ¬ SideMatch (eulerBC (7/5) 1 (EulerBC.insup 128 21 1))
        (euler2dBC (7/5) 1 0 (Euler2DBC.insup 128 21 1 (some (1, 0))))
    ∧ eulerBC (7/5 : ℝ) 1 (EulerBC.insup 128 21 1) (fun _ => 0) 1 = -21/2
    ∧ euler2dBC (7/5 : ℝ) 1 0 (Euler2DBC.insup 128 21 1 (some (1, 0))) (fun _ => 0) 1 = 21/2 := by
  have hr : eBcInsup (7/5 : ℝ) 1 128 21 1 = (4/21, -21/2, 1) := by rw [ex_insup_1d]; norm_num
  refine ⟨?_, ?_, ?_⟩
  · rw [insup_angle_match_iff (7/5) 1 1 0 128 21 1 (1, 0) (by rw [hr]; norm_num)]
    intro h
    have := congrArg Prod.fst h
    norm_num at this
  · show (eBcInsup (7/5 : ℝ) 1 128 21 1).2.1 = _
    rw [hr]
  · show (e2BcInsup (7/5 : ℝ) 1 0 128 21 1).2.1 = _
    have h := e2BcInsup_x (7/5) (-1 : ℝ) 128 21 1
    rw [neg_neg, ex_insup_1d] at h
    rw [h]; norm_num

/-- the 3×2 box of C15c (`dx = dy = 1`, κ = 1/3, HLLE, `γ = 7/5`, slip walls at bottom/top) with named kernels
`kl`, `kr` on the left / right side -/
noncomputable def exBoxN (kl kr : Euler2DBC ℝ) : Disc2D ℝ ℕ :=
  { mesh := { nx := 3, ny := 2, lx := 3, ly := 2 }, scheme := Scheme2D.kappa (1/3),
    bcx := bcx2 (7/5) kl kr, bcy := symY (7/5), c2p := euler2dC2P (7/5),
    flux := euler2dFluxV (7/5) Euler2DFlux.hlle }

/-- non-vacuity of `euler2d_rows_walls'`: on the 3×2 box with data `exRowQ` (`ρ = 1 + a`, `mx = a`, `my = 0`,
`E = 10`), for EVERY pair of named kernels satisfying the side conditions -/
theorem ex_rows (kl kr : Euler2DBC ℝ) (hl : NormalX (-1) kl) (hr : NormalX 1 kr) (i j : ℕ) (hi : i < 3)
    (hj : j < 2) :
    (exBoxN kl kr).rhs (fun l a _ => exRowQ l a) 0 i j
        = (euler1dRow (7/5) Euler2DFlux.hlle (exBoxN kl kr) (bc1d (7/5) kl kr)).rhs (cons3 exRowQ) 0 i
    ∧ (exBoxN kl kr).rhs (fun l a _ => exRowQ l a) 1 i j
        = (euler1dRow (7/5) Euler2DFlux.hlle (exBoxN kl kr) (bc1d (7/5) kl kr)).rhs (cons3 exRowQ) 1 i
    ∧ (exBoxN kl kr).rhs (fun l a _ => exRowQ l a) 3 i j
        = (euler1dRow (7/5) Euler2DFlux.hlle (exBoxN kl kr) (bc1d (7/5) kl kr)).rhs (cons3 exRowQ) 2 i
    ∧ (exBoxN kl kr).rhs (fun l a _ => exRowQ l a) 2 i j = 0 :=
  euler2d_rows_walls' (7/5) Euler2DFlux.hlle (exBoxN kl kr) rfl rfl rfl kl kr rfl hl hr
    (show (2 : ℕ) ≠ 0 by decide) (show 0 < 3 by decide) (show (3 : ℝ) ≠ 0 by norm_num) exRowQ
    (fun _ _ => rfl) i j hi hj

/-- subsonic channel: `insub` (totals `exPt`, `exRt`) on the left, pressure outlet `p = 1` on the right -/
example (i j : ℕ) (hi : i < 3) (hj : j < 2) :=
  ex_rows (Euler2DBC.insub exPt exRt) (Euler2DBC.outsub 1) trivial trivial i j hi hj
/-- the same channel with the flow entering from the RIGHT (`dir = +1`) -/
example (i j : ℕ) (hi : i < 3) (hj : j < 2) :=
  ex_rows (Euler2DBC.outsub 1) (Euler2DBC.insub exPt exRt) trivial trivial i j hi hj
/-- supersonic channel: `insup` (`ptot = 128`, `rttot = 21`, `p = 1`) on the left, `outsup` on the right -/
example (i j : ℕ) (hi : i < 3) (hj : j < 2) :=
  ex_rows (Euler2DBC.insup 128 21 1 none) Euler2DBC.outsup trivial trivial i j hi hj
/-- `dirichlet` state `(1, 1/2, 0, 1)` on the left, `insup` with the angle 180° (direction `(-1, 0)`) on the right -/
example (i j : ℕ) (hi : i < 3) (hj : j < 2) :=
  ex_rows (Euler2DBC.dirichlet (vec4 (1, 1/2, 0, 1))) (Euler2DBC.insup 128 21 1 (some (-1, 0))) rfl rfl
    i j hi hj
/-- `insup` with the angle 0 (direction `(1, 0)`) on the left, slip wall on the right -/
example (i j : ℕ) (hi : i < 3) (hj : j < 2) :=
  ex_rows (Euler2DBC.insup 128 21 1 (some (1, 0))) Euler2DBC.sym (by show ((1 : ℝ), (0 : ℝ)) = (-(-1), 0); norm_num)
    trivial i j hi hj

/-- the 1D problem on the right-hand side for the subsonic channel is the model's 1D Euler pipeline: uniform mesh
of 3 cells of length 1, `extrapolk 1/3`, `insub` with `dir = -1` on the left, `outsub` on the right, `hlle` -/
example : euler1dRow (7/5) Euler2DFlux.hlle (exBoxN (Euler2DBC.insub exPt exRt) (Euler2DBC.outsub 1))
      (bc1d (7/5) (Euler2DBC.insub exPt exRt) (Euler2DBC.outsub 1))
    = { mesh := uniMesh 3 3 0, scheme := Scheme.extrapolk (1/3),
        bc := BC1D.open (eulerBC (7/5) (-1) (EulerBC.insub exPt exRt)) (eulerBC (7/5) 1 (EulerBC.outsub 1)),
        c2p := eulerC2P (7/5), flux := eulerFluxV (7/5) EulerFlux.hlle, src := fun _ => none } := rfl

/-- the 1D `dirichlet` state corresponding to the 2D state `(ρ, u, 0, p)` is `(ρ, u, p)` -/
example (r u p : ℝ) : name1 (Euler2DBC.dirichlet (vec4 (r, u, 0, p))) = EulerBC.dirichlet (vec3 (r, u, p)) := rfl

end examples

end Flowdyn.C15d
