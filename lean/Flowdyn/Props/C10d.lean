/-
C10d — positivity with the total-quantity, characteristic and shock/isentropic boundary kernels.

C10c proves the pipeline positivity theorems for open ends with ANY boundary kernels preserving admissibility of the
primitive state (`PAdm W : ρ > 0 ∧ p > 0`) and lists `dirichlet`, `sym`, `outsup`, `outsub p` (the code registers
`bc_outsub_prim` under both names `outsub_prim` and `outsub`; the model has the one constructor `EulerBC.outsub`).
Here the remaining named kernels of `euler1d` are shown to preserve admissibility as well, each with the exact
condition on its parameters (over ℝ, `γ > 1`):

  kernel            ghost `ρ > 0 ∧ p > 0`  ⇔                                   interior state needed
  `insub`           `0 < ptot / rttot`  (and interior `p > 0`)                  `p > 0` only (the kept pressure)
  `insup`           `0 < ptot / rttot ∧ 0 < p`                                  none (interior state is not read)
  `insub_cbc`       `0 < ptot ∧ 0 < rttot`                                      none for the real-number model (*)
  `outsub_qtot`     `0 < pext`                                                  `ρ > 0`, `p > 0`
  `outsub_rh`       `0 < pext`                                                  `ρ > 0`, `p > 0`
  `outsub_nrcbc`    `0 < pext`                                                  `ρ > 0`, `p > 0`

No kernel can lose positivity for an admissible interior state and positive parameters: the Mach number of the
total-quantity kernels is clamped by `max 0`, so the isentropic factor `1 + (γ-1)/2 M²` is `≥ 1`; the shock density
ratio of `outsub_rh` is positive because `Ms² = ((γ-1) + (γ+1) pext/p)/(2γ) > 0`.

(*) `insub_cbc` contains an unclamped `sqrt(adiscri)` and a division by `a1`.  In the real-number model
(`Real.sqrt x = 0` for `x < 0`, `x / 0 = 0`) positivity holds unconditionally; in floating point a negative
discriminant gives NaN.  `insubCbc_regular` gives the regime in which the root and the quotient are genuine
(`adiscri ≥ 0`, inflow velocity below `2c/(γ-1)`), and `insubCbc_discr_neg_example` shows that an admissible
interior state and positive parameters do NOT imply `adiscri ≥ 0`.  For the other kernels the `*_regular` theorems
show that every radicand is `≥ 0`, every base of a real power is `> 0` and every divisor is `≠ 0` under the
positivity hypotheses alone.

Then `EulerBCAdm'` (all ten constructors of `EulerBC`), `eulerBC_padm'`, `EulerBCAdm.to'` (generalises C10c), and the
pipeline theorems `hlle_fe_positive_named'`, `hlle_rk2_heun_positive_named'`, `hlle_rk3ssp_positive_named'`,
`hlle_explicit_positive_named'` by instantiating C10c's `*_open` theorems.

Shallow water: `SwBC` has exactly the kernels `dirichlet`, `sym`, `inf` (shallowwater.py registers `bc_sym`, `bc_inf`;
`bc_dirichlet` is inherited) and C10c's `SwBCAdm` covers all three; `swBCAdm_iff` records that `SwBCAdm` is exact.
-/
import Flowdyn.Props.C10c
import Flowdyn.Props.C16

namespace Flowdyn.C10d
open Flowdyn Flowdyn.C10

/-! ## 0. the shared subexpressions of the total-quantity kernels -/

/-- clamped squared Mach number from a total and a static pressure:
`max(0, ((ptot/p)^((γ-1)/γ) - 1) 2/(γ-1))` (euler.py `bc_insub`, `bc_insup`, `bc_outsub_qtot`) -/
noncomputable def totM2 (γ ptot p : ℝ) : ℝ := max 0 (((ptot / p) ^ ((γ - 1) / γ) - 1) * 2 / (γ - 1))

/-- density from the totals and the static pressure: `ptot/rttot / (1 + (γ-1)/2 M²)^(1/(γ-1))` -/
noncomputable def totRho (γ ptot rttot p : ℝ) : ℝ :=
  ptot / rttot / (1 + 1/2 * (γ - 1) * totM2 γ ptot p) ^ (1 / (γ - 1))

theorem totM2_nonneg (γ ptot p : ℝ) : 0 ≤ totM2 γ ptot p := le_max_left _ _

/-- the isentropic factor with a nonnegative squared Mach number is at least one -/
theorem isenF_ge_one (γ x : ℝ) (hγ : 1 < γ) (hx : 0 ≤ x) : 1 ≤ 1 + 1/2 * (γ - 1) * x := by
  have : 0 ≤ 1/2 * (γ - 1) * x := mul_nonneg (mul_nonneg (by norm_num) (by linarith)) hx
  linarith

theorem isenF_pos (γ x : ℝ) (hγ : 1 < γ) (hx : 0 ≤ x) : 0 < 1 + 1/2 * (γ - 1) * x :=
  lt_of_lt_of_le one_pos (isenF_ge_one γ x hγ hx)

theorem totF_pow_pos (γ ptot p e : ℝ) (hγ : 1 < γ) : 0 < (1 + 1/2 * (γ - 1) * totM2 γ ptot p) ^ e :=
  Real.rpow_pos_of_pos (isenF_pos γ _ hγ (totM2_nonneg γ ptot p)) e

/-- the density of the total-quantity kernels is positive exactly when `ptot / rttot > 0`, for ANY pressures -/
theorem totRho_pos_iff (γ ptot rttot p : ℝ) (hγ : 1 < γ) : 0 < totRho γ ptot rttot p ↔ 0 < ptot / rttot :=
  div_pos_iff_of_pos_right (totF_pow_pos γ ptot p _ hγ)

theorem totRho_pos (γ ptot rttot p : ℝ) (hγ : 1 < γ) (hpt : 0 < ptot) (hrt : 0 < rttot) :
    0 < totRho γ ptot rttot p :=
  (totRho_pos_iff γ ptot rttot p hγ).mpr (div_pos hpt hrt)

/-! ## 1a. `insub`: total pressure and total temperature imposed, interior pressure kept -/

/-- the model kernel in terms of `totM2`, `totRho` -/
theorem eBcInsub_eq (γ dir ptot rttot r u p : ℝ) :
    eBcInsub γ dir ptot rttot r u p
      = (totRho γ ptot rttot p, -dir * Real.sqrt (γ * totM2 γ ptot p * p / totRho γ ptot rttot p), p) := rfl

/-- **`insub` keeps positivity**: `ptot > 0`, `rttot > 0` and interior pressure `p > 0`; nothing else is needed
(no condition `p ≤ ptot`: the Mach number is clamped; the interior density and velocity are not read) -/
theorem insub_pos (γ dir ptot rttot r u p : ℝ) (hγ : 1 < γ) (hpt : 0 < ptot) (hrt : 0 < rttot) (hp : 0 < p) :
    0 < (eBcInsub γ dir ptot rttot r u p).1 ∧ 0 < (eBcInsub γ dir ptot rttot r u p).2.2 :=
  ⟨totRho_pos γ ptot rttot p hγ hpt hrt, hp⟩

/-- exact condition for `insub` -/
theorem insub_pos_iff (γ dir ptot rttot r u p : ℝ) (hγ : 1 < γ) :
    (0 < (eBcInsub γ dir ptot rttot r u p).1 ∧ 0 < (eBcInsub γ dir ptot rttot r u p).2.2)
      ↔ (0 < ptot / rttot ∧ 0 < p) :=
  and_congr (totRho_pos_iff γ ptot rttot p hγ) Iff.rfl

/-- nothing in `insub` is undefined: base of the first power, base of the second power, divisors, radicand -/
theorem insub_regular (γ ptot rttot p : ℝ) (hγ : 1 < γ) (hpt : 0 < ptot) (hrt : 0 < rttot) (hp : 0 < p) :
    0 < ptot / p ∧ 0 < 1 + 1/2 * (γ - 1) * totM2 γ ptot p ∧ rttot ≠ 0 ∧ γ - 1 ≠ 0 ∧ γ ≠ 0
      ∧ 0 < totRho γ ptot rttot p ∧ 0 ≤ γ * totM2 γ ptot p * p / totRho γ ptot rttot p := by
  have hr := totRho_pos γ ptot rttot p hγ hpt hrt
  have hm := totM2_nonneg γ ptot p
  have hg0 : 0 < γ := by linarith
  refine ⟨div_pos hpt hp, isenF_pos γ _ hγ hm, hrt.ne', by linarith, hg0.ne', hr, ?_⟩
  positivity

/-! ## 1b. `insup`: totals and static pressure imposed -/

theorem eBcInsup_eq (γ dir ptot rttot pin : ℝ) :
    eBcInsup γ dir ptot rttot pin
      = (totRho γ ptot rttot pin, -dir * Real.sqrt (γ * totM2 γ ptot pin * pin / totRho γ ptot rttot pin), pin) :=
  rfl

/-- **`insup` keeps positivity** (`ptot, rttot, p > 0`; the interior state is not read) -/
theorem insup_pos (γ dir ptot rttot pin : ℝ) (hγ : 1 < γ) (hpt : 0 < ptot) (hrt : 0 < rttot) (hp : 0 < pin) :
    0 < (eBcInsup γ dir ptot rttot pin).1 ∧ 0 < (eBcInsup γ dir ptot rttot pin).2.2 :=
  ⟨totRho_pos γ ptot rttot pin hγ hpt hrt, hp⟩

theorem insup_pos_iff (γ dir ptot rttot pin : ℝ) (hγ : 1 < γ) :
    (0 < (eBcInsup γ dir ptot rttot pin).1 ∧ 0 < (eBcInsup γ dir ptot rttot pin).2.2)
      ↔ (0 < ptot / rttot ∧ 0 < pin) :=
  and_congr (totRho_pos_iff γ ptot rttot pin hγ) Iff.rfl

/-! ## 1c. `insub_cbc`: totals imposed, outgoing Riemann invariant kept -/

/-- outgoing invariant `u + dir·2c/(γ-1)` of the interior state -/
noncomputable def cbcI (γ dir r u p : ℝ) : ℝ := u + dir * 2 * Real.sqrt (γ * p / r) / (γ - 1)
/-- discriminant `adiscri` -/
noncomputable def cbcD (γ dir rttot r u p : ℝ) : ℝ :=
  γ * (γ + 1) / (γ - 1) * rttot - 1/2 * (γ - 1) * cbcI γ dir r u p ^ 2
/-- ghost sound speed `a1` -/
noncomputable def cbcA (γ dir rttot r u p : ℝ) : ℝ :=
  (dir * cbcI γ dir r u p + Real.sqrt (cbcD γ dir rttot r u p)) * (γ - 1) / (γ + 1)
/-- ghost velocity `u1` -/
noncomputable def cbcU (γ dir rttot r u p : ℝ) : ℝ :=
  cbcI γ dir r u p - dir * 2 * cbcA γ dir rttot r u p / (γ - 1)
/-- isentropic factor `1 + (γ-1)/2 (u1/a1)²` -/
noncomputable def cbcF (γ dir rttot r u p : ℝ) : ℝ :=
  1 + 1/2 * (γ - 1) * (cbcU γ dir rttot r u p / cbcA γ dir rttot r u p) ^ 2

theorem eBcInsubCbc_eq (γ dir ptot rttot r u p : ℝ) :
    eBcInsubCbc γ dir ptot rttot r u p
      = (ptot / rttot / cbcF γ dir rttot r u p ^ (1 / (γ - 1)), cbcU γ dir rttot r u p,
         ptot / cbcF γ dir rttot r u p ^ (γ / (γ - 1))) := rfl

theorem cbcF_ge_one (γ dir rttot r u p : ℝ) (hγ : 1 < γ) : 1 ≤ cbcF γ dir rttot r u p :=
  isenF_ge_one γ _ hγ (sq_nonneg _)

theorem cbcF_pow_pos (γ dir rttot r u p e : ℝ) (hγ : 1 < γ) : 0 < cbcF γ dir rttot r u p ^ e :=
  Real.rpow_pos_of_pos (lt_of_lt_of_le one_pos (cbcF_ge_one γ dir rttot r u p hγ)) e

/-- **`insub_cbc` keeps positivity** (`ptot > 0`, `rttot > 0`); in the real-number model no condition on the
interior state is needed (see the header for the floating-point caveat and `insubCbc_regular`) -/
theorem insubCbc_pos (γ dir ptot rttot r u p : ℝ) (hγ : 1 < γ) (hpt : 0 < ptot) (hrt : 0 < rttot) :
    0 < (eBcInsubCbc γ dir ptot rttot r u p).1 ∧ 0 < (eBcInsubCbc γ dir ptot rttot r u p).2.2 := by
  rw [eBcInsubCbc_eq]
  exact ⟨div_pos (div_pos hpt hrt) (cbcF_pow_pos γ dir rttot r u p _ hγ),
    div_pos hpt (cbcF_pow_pos γ dir rttot r u p _ hγ)⟩

/-- exact condition for `insub_cbc`: both totals positive -/
theorem insubCbc_pos_iff (γ dir ptot rttot r u p : ℝ) (hγ : 1 < γ) :
    (0 < (eBcInsubCbc γ dir ptot rttot r u p).1 ∧ 0 < (eBcInsubCbc γ dir ptot rttot r u p).2.2)
      ↔ (0 < ptot ∧ 0 < rttot) := by
  rw [eBcInsubCbc_eq]
  simp only
  rw [div_pos_iff_of_pos_right (cbcF_pow_pos γ dir rttot r u p _ hγ),
    div_pos_iff_of_pos_right (cbcF_pow_pos γ dir rttot r u p _ hγ)]
  constructor
  · rintro ⟨h1, h2⟩
    refine ⟨h2, ?_⟩
    by_contra h
    have h' : rttot ≤ 0 := not_lt.mp h
    have : ptot / rttot ≤ 0 := div_nonpos_of_nonneg_of_nonpos h2.le h'
    linarith
  · rintro ⟨h1, h2⟩
    exact ⟨div_pos h1 h2, h1⟩

/-- **regime of `insub_cbc`**: for `dir = ±1`, an admissible interior state, a nonnegative discriminant and an
inflow velocity `-dir·u` below `2c/(γ-1)` (any subsonic in- or outflow for `γ ≤ 3`), the root is a genuine root,
the ghost sound speed is positive (the quotient `u1/a1` is genuine) and the radicand of `c` is positive -/
theorem insubCbc_regular (γ dir rttot r u p : ℝ) (hγ : 1 < γ) (hdir : dir = 1 ∨ dir = -1) (hr : 0 < r) (hp : 0 < p)
    (hD : 0 ≤ cbcD γ dir rttot r u p) (hin : -dir * u < 2 * Real.sqrt (γ * p / r) / (γ - 1)) :
    0 < γ * p / r ∧ Real.sqrt (cbcD γ dir rttot r u p) ^ 2 = cbcD γ dir rttot r u p
      ∧ 0 < dir * cbcI γ dir r u p ∧ 0 < cbcA γ dir rttot r u p ∧ γ + 1 ≠ 0 := by
  have hg0 : 0 < γ := by linarith
  have hgmu : 0 < γ - 1 := by linarith
  have hd2 : dir * dir = 1 := by rcases hdir with h | h <;> rw [h] <;> norm_num
  have hI : 0 < dir * cbcI γ dir r u p := by
    have e : dir * cbcI γ dir r u p = dir * u + (dir * dir) * (2 * Real.sqrt (γ * p / r) / (γ - 1)) := by
      unfold cbcI; ring
    rw [e, hd2]; linarith
  have hs : 0 ≤ Real.sqrt (cbcD γ dir rttot r u p) := Real.sqrt_nonneg _
  refine ⟨by positivity, Real.sq_sqrt hD, hI, ?_, by linarith⟩
  unfold cbcA
  have : 0 < dir * cbcI γ dir r u p + Real.sqrt (cbcD γ dir rttot r u p) := by linarith
  positivity

/-- an admissible interior state and positive totals do NOT imply a nonnegative discriminant:
`γ = 2`, left end, interior `(ρ, u, p) = (2, -5, 4)` (`c = 2`, invariant `-9`), `rttot = 9/4`: `adiscri = -27` -/
theorem insubCbc_discr_neg_example : PAdm (vec3 ((2 : ℝ), -5, 4)) ∧ cbcD 2 (-1) (9/4) 2 (-5) 4 = -27 := by
  refine ⟨⟨by norm_num [vec3], by norm_num [vec3]⟩, ?_⟩
  have hs : Real.sqrt (2 * 4 / 2) = 2 := by
    rw [show (2 : ℝ) * 4 / 2 = 2 ^ 2 by norm_num]; exact Real.sqrt_sq (by norm_num)
  unfold cbcD cbcI
  rw [hs]; norm_num

/-! ## 1d. `outsub_qtot`: interior totals kept, static pressure imposed -/

/-- isentropic factor of the interior state, `1 + (γ-1)/2 u²/(γp/ρ)` -/
noncomputable def qtotF (γ r u p : ℝ) : ℝ := 1 + 1/2 * (γ - 1) * (u ^ 2 / (γ * p / r))
/-- total temperature and total pressure of the interior state as the kernel computes them -/
noncomputable def qtotRt (γ r u p : ℝ) : ℝ := p / r * qtotF γ r u p
noncomputable def qtotPt (γ r u p : ℝ) : ℝ := p * qtotF γ r u p ^ (γ / (γ - 1))

theorem eBcOutsubQtot_eq (γ dir pext r u p : ℝ) :
    eBcOutsubQtot γ dir pext r u p
      = (totRho γ (qtotPt γ r u p) (qtotRt γ r u p) pext,
         dir * Real.sqrt (γ * totM2 γ (qtotPt γ r u p) pext * pext / totRho γ (qtotPt γ r u p) (qtotRt γ r u p) pext),
         pext) := rfl

theorem qtotF_ge_one (γ r u p : ℝ) (hγ : 1 < γ) (hr : 0 < r) (hp : 0 < p) : 1 ≤ qtotF γ r u p := by
  have hg0 : 0 < γ := by linarith
  exact isenF_ge_one γ _ hγ (by positivity)

theorem qtotRt_pos (γ r u p : ℝ) (hγ : 1 < γ) (hr : 0 < r) (hp : 0 < p) : 0 < qtotRt γ r u p :=
  mul_pos (div_pos hp hr) (lt_of_lt_of_le one_pos (qtotF_ge_one γ r u p hγ hr hp))

theorem qtotPt_pos (γ r u p : ℝ) (hγ : 1 < γ) (hr : 0 < r) (hp : 0 < p) : 0 < qtotPt γ r u p :=
  mul_pos hp (Real.rpow_pos_of_pos (lt_of_lt_of_le one_pos (qtotF_ge_one γ r u p hγ hr hp)) _)

/-- **`outsub_qtot` keeps positivity** (`pext > 0`, admissible interior state; no condition `pext ≤ ptot`) -/
theorem outsubQtot_pos (γ dir pext r u p : ℝ) (hγ : 1 < γ) (hr : 0 < r) (hp : 0 < p) (hpe : 0 < pext) :
    0 < (eBcOutsubQtot γ dir pext r u p).1 ∧ 0 < (eBcOutsubQtot γ dir pext r u p).2.2 :=
  ⟨totRho_pos γ _ _ pext hγ (qtotPt_pos γ r u p hγ hr hp) (qtotRt_pos γ r u p hγ hr hp), hpe⟩

theorem outsubQtot_pos_iff (γ dir pext r u p : ℝ) (hγ : 1 < γ) (hr : 0 < r) (hp : 0 < p) :
    (0 < (eBcOutsubQtot γ dir pext r u p).1 ∧ 0 < (eBcOutsubQtot γ dir pext r u p).2.2) ↔ 0 < pext :=
  ⟨fun h => h.2, outsubQtot_pos γ dir pext r u p hγ hr hp⟩

/-- nothing in `outsub_qtot` is undefined -/
theorem outsubQtot_regular (γ pext r u p : ℝ) (hγ : 1 < γ) (hr : 0 < r) (hp : 0 < p) (hpe : 0 < pext) :
    γ * p / r ≠ 0 ∧ 0 < qtotF γ r u p ∧ qtotRt γ r u p ≠ 0 ∧ 0 < qtotPt γ r u p / pext
      ∧ 0 < 1 + 1/2 * (γ - 1) * totM2 γ (qtotPt γ r u p) pext
      ∧ 0 < totRho γ (qtotPt γ r u p) (qtotRt γ r u p) pext
      ∧ 0 ≤ γ * totM2 γ (qtotPt γ r u p) pext * pext / totRho γ (qtotPt γ r u p) (qtotRt γ r u p) pext := by
  have hg0 : 0 < γ := by linarith
  have hPt := qtotPt_pos γ r u p hγ hr hp
  have hRt := qtotRt_pos γ r u p hγ hr hp
  have hrho := totRho_pos γ _ _ pext hγ hPt hRt
  have hm := totM2_nonneg γ (qtotPt γ r u p) pext
  refine ⟨by positivity, lt_of_lt_of_le one_pos (qtotF_ge_one γ r u p hγ hr hp), hRt.ne', div_pos hPt hpe,
    isenF_pos γ _ hγ hm, hrho, ?_⟩
  positivity

/-! ## 1e. `outsub_rh`: state behind a shock of pressure ratio `pext/p` -/

/-- squared shock Mach number `1 + (pext/p - 1)(γ+1)/(2γ)` and density ratio `(γ+1)Ms²/(2 + (γ-1)Ms²)` -/
noncomputable def rhMs2 (γ pext p : ℝ) : ℝ := 1 + (pext / p - 1) * (γ + 1) / (2 * γ)
noncomputable def rhRatio (γ pext p : ℝ) : ℝ := ((γ + 1) * rhMs2 γ pext p) / (2 + (γ - 1) * rhMs2 γ pext p)

theorem eBcOutsubRh_eq (γ dir pext r u p : ℝ) :
    eBcOutsubRh γ dir pext r u p
      = (r * rhRatio γ pext p,
         (u - dir * Real.sqrt (γ * p / r * rhMs2 γ pext p))
           + (u - (u - dir * Real.sqrt (γ * p / r * rhMs2 γ pext p))) / rhRatio γ pext p,
         pext) := rfl

/-- `Ms² = ((γ-1) + (γ+1) pext/p)/(2γ) > 0` for ANY positive pressure ratio (also expansions `pext < p`) -/
theorem rhMs2_pos (γ pext p : ℝ) (hγ : 1 < γ) (hp : 0 < p) (hpe : 0 < pext) : 0 < rhMs2 γ pext p := by
  have hg0 : 0 < γ := by linarith
  have hgmu : 0 < γ - 1 := by linarith
  have e : rhMs2 γ pext p = ((γ - 1) + pext / p * (γ + 1)) / (2 * γ) := by
    unfold rhMs2; field_simp; ring
  rw [e]
  exact div_pos (add_pos hgmu (by positivity)) (by positivity)

theorem rhRatio_pos (γ pext p : ℝ) (hγ : 1 < γ) (hp : 0 < p) (hpe : 0 < pext) : 0 < rhRatio γ pext p := by
  have hM := rhMs2_pos γ pext p hγ hp hpe
  have hgmu : 0 < γ - 1 := by linarith
  have hden : 0 < 2 + (γ - 1) * rhMs2 γ pext p := by have := mul_pos hgmu hM; linarith
  unfold rhRatio
  exact div_pos (mul_pos (by linarith) hM) hden

/-- **`outsub_rh` keeps positivity** (`pext > 0`, admissible interior state; any pressure ratio) -/
theorem outsubRh_pos (γ dir pext r u p : ℝ) (hγ : 1 < γ) (hr : 0 < r) (hp : 0 < p) (hpe : 0 < pext) :
    0 < (eBcOutsubRh γ dir pext r u p).1 ∧ 0 < (eBcOutsubRh γ dir pext r u p).2.2 :=
  ⟨mul_pos hr (rhRatio_pos γ pext p hγ hp hpe), hpe⟩

theorem outsubRh_pos_iff (γ dir pext r u p : ℝ) (hγ : 1 < γ) (hr : 0 < r) (hp : 0 < p) :
    (0 < (eBcOutsubRh γ dir pext r u p).1 ∧ 0 < (eBcOutsubRh γ dir pext r u p).2.2) ↔ 0 < pext :=
  ⟨fun h => h.2, outsubRh_pos γ dir pext r u p hγ hr hp⟩

/-- nothing in `outsub_rh` is undefined: divisors, radicand of the shock speed, density ratio -/
theorem outsubRh_regular (γ pext r p : ℝ) (hγ : 1 < γ) (hr : 0 < r) (hp : 0 < p) (hpe : 0 < pext) :
    p ≠ 0 ∧ 2 * γ ≠ 0 ∧ 0 < 2 + (γ - 1) * rhMs2 γ pext p ∧ 0 < γ * p / r * rhMs2 γ pext p
      ∧ 0 < rhRatio γ pext p := by
  have hM := rhMs2_pos γ pext p hγ hp hpe
  have hg0 : 0 < γ := by linarith
  have hgmu : 0 < γ - 1 := by linarith
  refine ⟨hp.ne', by positivity, ?_, by positivity, rhRatio_pos γ pext p hγ hp hpe⟩
  have := mul_pos hgmu hM; linarith

/-! ## 1f. `outsub_nrcbc`: entropy and outgoing invariant kept, pressure imposed -/

theorem eBcOutsubNrcbc_eq (γ dir pext r u p : ℝ) :
    eBcOutsubNrcbc γ dir pext r u p
      = (r * (pext / p) ^ (1 / γ),
         u + dir * 2 / (γ - 1) * (Real.sqrt (γ * pext / (r * (pext / p) ^ (1 / γ))) - Real.sqrt (γ * p / r)),
         pext) := rfl

/-- **`outsub_nrcbc` keeps positivity** (`pext > 0`, admissible interior state); `γ > 1` is not needed -/
theorem outsubNrcbc_pos (γ dir pext r u p : ℝ) (hr : 0 < r) (hp : 0 < p) (hpe : 0 < pext) :
    0 < (eBcOutsubNrcbc γ dir pext r u p).1 ∧ 0 < (eBcOutsubNrcbc γ dir pext r u p).2.2 :=
  ⟨mul_pos hr (Real.rpow_pos_of_pos (div_pos hpe hp) _), hpe⟩

theorem outsubNrcbc_pos_iff (γ dir pext r u p : ℝ) (hr : 0 < r) (hp : 0 < p) :
    (0 < (eBcOutsubNrcbc γ dir pext r u p).1 ∧ 0 < (eBcOutsubNrcbc γ dir pext r u p).2.2) ↔ 0 < pext :=
  ⟨fun h => h.2, outsubNrcbc_pos γ dir pext r u p hr hp⟩

/-- nothing in `outsub_nrcbc` is undefined: base of the power, the two radicands -/
theorem outsubNrcbc_regular (γ pext r p : ℝ) (hγ : 1 < γ) (hr : 0 < r) (hp : 0 < p) (hpe : 0 < pext) :
    0 < pext / p ∧ γ ≠ 0 ∧ γ - 1 ≠ 0 ∧ 0 < γ * p / r ∧ 0 < γ * pext / (r * (pext / p) ^ (1 / γ)) := by
  have hg0 : 0 < γ := by linarith
  have hq : 0 < pext / p := div_pos hpe hp
  have hpow : 0 < (pext / p) ^ (1 / γ) := Real.rpow_pos_of_pos hq _
  exact ⟨hq, hg0.ne', by linarith, by positivity, by positivity⟩

/-! ## 2. all named Euler boundary kernels preserve admissibility -/

/-- parameter conditions of ALL named Euler boundary conditions: `dirichlet` with an admissible state, `sym`, `outsup`
(none), the inlets with positive totals (`insup`: and positive static pressure), the outlets with positive pressure -/
def EulerBCAdm' : EulerBC ℝ → Prop
  | .dirichlet prim => PAdm prim
  | .sym => True
  | .insub ptot rttot => 0 < ptot ∧ 0 < rttot
  | .insub_cbc ptot rttot => 0 < ptot ∧ 0 < rttot
  | .insup ptot rttot p => 0 < ptot ∧ 0 < rttot ∧ 0 < p
  | .outsub p => 0 < p
  | .outsub_qtot p => 0 < p
  | .outsub_rh p => 0 < p
  | .outsub_nrcbc p => 0 < p
  | .outsup => True

/-- C10c's predicate is the restriction of `EulerBCAdm'` to `dirichlet`, `sym`, `outsup`, `outsub` -/
theorem EulerBCAdm.to' (bc : EulerBC ℝ) (h : EulerBCAdm bc) : EulerBCAdm' bc := by
  cases bc <;> first | exact h | exact absurd h id

/-- **every named Euler boundary kernel maps admissible primitive states to admissible primitive states**, for both
directions (any `dir`), under `EulerBCAdm'`; generalises `C10.eulerBC_padm` -/
theorem eulerBC_padm' (γ dir : ℝ) (hγ : 1 < γ) (bc : EulerBC ℝ) (hbc : EulerBCAdm' bc) (W : ℕ → ℝ) (hW : PAdm W) :
    PAdm (eulerBC γ dir bc W) := by
  cases bc with
  | dirichlet prim => exact hbc
  | sym => exact hW
  | outsup => exact hW
  | outsub p => exact ⟨hW.1, hbc⟩
  | insub ptot rttot => exact insub_pos γ dir ptot rttot (W 0) (W 1) (W 2) hγ hbc.1 hbc.2 hW.2
  | insub_cbc ptot rttot => exact insubCbc_pos γ dir ptot rttot (W 0) (W 1) (W 2) hγ hbc.1 hbc.2
  | insup ptot rttot p => exact insup_pos γ dir ptot rttot p hγ hbc.1 hbc.2.1 hbc.2.2
  | outsub_qtot p => exact outsubQtot_pos γ dir p (W 0) (W 1) (W 2) hγ hW.1 hW.2 hbc
  | outsub_rh p => exact outsubRh_pos γ dir p (W 0) (W 1) (W 2) hγ hW.1 hW.2 hbc
  | outsub_nrcbc p => exact outsubNrcbc_pos γ dir p (W 0) (W 1) (W 2) hW.1 hW.2 hbc

/-- `eulerBC_padm'` restricted to C10c's kernels is `C10.eulerBC_padm` -/
example (γ dir : ℝ) (hγ : 1 < γ) (bc : EulerBC ℝ) (hbc : EulerBCAdm bc) (W : ℕ → ℝ) (hW : PAdm W) :
    PAdm (eulerBC γ dir bc W) := eulerBC_padm' γ dir hγ bc (EulerBCAdm.to' bc hbc) W hW

/-- the exact parameter conditions (real-number model): as `EulerBCAdm'`, but for `insub`/`insup` only the sign of
`ptot / rttot` matters -/
def EulerBCAdmExact : EulerBC ℝ → Prop
  | .dirichlet prim => PAdm prim
  | .sym => True
  | .insub ptot rttot => 0 < ptot / rttot
  | .insub_cbc ptot rttot => 0 < ptot ∧ 0 < rttot
  | .insup ptot rttot p => 0 < ptot / rttot ∧ 0 < p
  | .outsub p => 0 < p
  | .outsub_qtot p => 0 < p
  | .outsub_rh p => 0 < p
  | .outsub_nrcbc p => 0 < p
  | .outsup => True

theorem EulerBCAdm'.exact (bc : EulerBC ℝ) (h : EulerBCAdm' bc) : EulerBCAdmExact bc := by
  cases bc with
  | insub ptot rttot => exact div_pos h.1 h.2
  | insup ptot rttot p => exact ⟨div_pos h.1 h.2.1, h.2.2⟩
  | _ => exact h

/-- **characterisation**: at an admissible interior state, the ghost state of a named kernel is admissible if and
only if the parameters satisfy `EulerBCAdmExact`; in particular the conditions of `EulerBCAdm'` on the imposed
pressures (outlets, `insup`) and on the totals of `insub_cbc` are necessary, not only sufficient -/
theorem eulerBC_padm_iff (γ dir : ℝ) (hγ : 1 < γ) (bc : EulerBC ℝ) (W : ℕ → ℝ) (hW : PAdm W) :
    PAdm (eulerBC γ dir bc W) ↔ EulerBCAdmExact bc := by
  cases bc with
  | dirichlet prim => exact Iff.rfl
  | sym => exact ⟨fun _ => trivial, fun _ => hW⟩
  | outsup => exact ⟨fun _ => trivial, fun _ => hW⟩
  | outsub p => exact ⟨fun h => h.2, fun h => ⟨hW.1, h⟩⟩
  | insub ptot rttot =>
    exact (insub_pos_iff γ dir ptot rttot (W 0) (W 1) (W 2) hγ).trans (and_iff_left hW.2)
  | insub_cbc ptot rttot => exact insubCbc_pos_iff γ dir ptot rttot (W 0) (W 1) (W 2) hγ
  | insup ptot rttot p => exact insup_pos_iff γ dir ptot rttot p hγ
  | outsub_qtot p => exact outsubQtot_pos_iff γ dir p (W 0) (W 1) (W 2) hγ hW.1 hW.2
  | outsub_rh p => exact outsubRh_pos_iff γ dir p (W 0) (W 1) (W 2) hγ hW.1 hW.2
  | outsub_nrcbc p => exact outsubNrcbc_pos_iff γ dir p (W 0) (W 1) (W 2) hW.1 hW.2

/-! ## 3. the pipeline theorems with any pair of named boundary conditions -/

section pipeline
open Flowdyn.C05 Flowdyn.Gen

/-- **Euler / HLLE, forward Euler, ANY pair of named boundary conditions** (`dirichlet`, `sym`, `insub`, `insub_cbc`,
`insup`, `outsub`, `outsub_qtot`, `outsub_rh`, `outsub_nrcbc`, `outsup`) with parameters as in `EulerBCAdm'`:
first-order reconstruction, any mesh with positive cell volumes, face condition with the ghost states at the ends -/
theorem hlle_fe_positive_named' (γ dt : ℝ) (hγ : 1 < γ) (hdt : 0 ≤ dt) (m : Mesh1D ℝ) (hn : 0 < m.n)
    (hvol : ∀ i, i < m.n → 0 < m.vol i) (bcL bcR : EulerBC ℝ) (hbcL : EulerBCAdm' bcL) (hbcR : EulerBCAdm' bcR)
    (q : ℕ → ℕ → ℝ) (hq : EAdmField γ m.n q)
    (hcfl : EFaceCFLOpen γ dt m (eulerBC γ (-1) bcL) (eulerBC γ 1 bcR) q) :
    EAdmField γ m.n (q + dt • (eulerHlleOpen γ m (eulerBC γ (-1) bcL) (eulerBC γ 1 bcR)).rhs q) :=
  hlle_fe_positive_open γ dt hγ hdt m hn hvol _ _ (eulerBC_padm' γ (-1) hγ bcL hbcL)
    (eulerBC_padm' γ 1 hγ bcR hbcR) q hq hcfl

/-- **`rk2_heun`**, any pair of named boundary conditions: the face condition at both stage states -/
theorem hlle_rk2_heun_positive_named' (γ dt t : ℝ) (hγ : 1 < γ) (hdt : 0 ≤ dt) (m : Mesh1D ℝ) (hn : 0 < m.n)
    (hvol : ∀ i, i < m.n → 0 < m.vol i) (bcL bcR : EulerBC ℝ) (hbcL : EulerBCAdm' bcL) (hbcR : EulerBCAdm' bcR)
    (q : ℕ → ℕ → ℝ) (hq : EAdmField γ m.n q)
    (c0 : EFaceCFLOpen γ dt m (eulerBC γ (-1) bcL) (eulerBC γ 1 bcR) q)
    (c1 : EFaceCFLOpen γ dt m (eulerBC γ (-1) bcL) (eulerBC γ 1 bcR)
            (fe (fun _ v => (eulerHlleOpen γ m (eulerBC γ (-1) bcL) (eulerBC γ 1 bcR)).rhs v) dt t q)) :
    EAdmField γ m.n (rkStep (castT butcher_rk2_heun)
      (fun _ v => (eulerHlleOpen γ m (eulerBC γ (-1) bcL) (eulerBC γ 1 bcR)).rhs v) dt t q).data :=
  hlle_rk2_heun_positive_open γ dt t hγ hdt m hn hvol _ _ (eulerBC_padm' γ (-1) hγ bcL hbcL)
    (eulerBC_padm' γ 1 hγ bcR hbcR) q hq c0 c1

/-- **`rk3ssp`**, any pair of named boundary conditions: the face condition at the three Shu-Osher stage states -/
theorem hlle_rk3ssp_positive_named' (γ dt t : ℝ) (hγ : 1 < γ) (hdt : 0 ≤ dt) (m : Mesh1D ℝ) (hn : 0 < m.n)
    (hvol : ∀ i, i < m.n → 0 < m.vol i) (bcL bcR : EulerBC ℝ) (hbcL : EulerBCAdm' bcL) (hbcR : EulerBCAdm' bcR)
    (q : ℕ → ℕ → ℝ) (hq : EAdmField γ m.n q)
    (c0 : EFaceCFLOpen γ dt m (eulerBC γ (-1) bcL) (eulerBC γ 1 bcR) q)
    (c1 : EFaceCFLOpen γ dt m (eulerBC γ (-1) bcL) (eulerBC γ 1 bcR)
            (fe (fun _ v => (eulerHlleOpen γ m (eulerBC γ (-1) bcL) (eulerBC γ 1 bcR)).rhs v) dt t q))
    (c2 : EFaceCFLOpen γ dt m (eulerBC γ (-1) bcL) (eulerBC γ 1 bcR) ((3/4 : ℝ) • q + (1/4 : ℝ) •
            fe (fun _ v => (eulerHlleOpen γ m (eulerBC γ (-1) bcL) (eulerBC γ 1 bcR)).rhs v) dt (t + dt * 1)
              (fe (fun _ v => (eulerHlleOpen γ m (eulerBC γ (-1) bcL) (eulerBC γ 1 bcR)).rhs v) dt t q))) :
    EAdmField γ m.n (rkStep (castT butcher_rk3ssp)
      (fun _ v => (eulerHlleOpen γ m (eulerBC γ (-1) bcL) (eulerBC γ 1 bcR)).rhs v) dt t q).data :=
  hlle_rk3ssp_positive_open γ dt t hγ hdt m hn hvol _ _ (eulerBC_padm' γ (-1) hγ bcL hbcL)
    (eulerBC_padm' γ 1 hγ bcR hbcR) q hq c0 c1 c2

/-- the model's `explicitStep`, any pair of named boundary conditions -/
theorem hlle_explicit_positive_named' (γ dt t : ℝ) (hγ : 1 < γ) (hdt : 0 ≤ dt) (m : Mesh1D ℝ) (hn : 0 < m.n)
    (hvol : ∀ i, i < m.n → 0 < m.vol i) (bcL bcR : EulerBC ℝ) (hbcL : EulerBCAdm' bcL) (hbcR : EulerBCAdm' bcR)
    (q : ℕ → ℕ → ℝ) (hq : EAdmField γ m.n q)
    (hcfl : EFaceCFLOpen γ dt m (eulerBC γ (-1) bcL) (eulerBC γ 1 bcR) q) :
    EAdmField γ m.n (explicitStep
      (fun _ v => (eulerHlleOpen γ m (eulerBC γ (-1) bcL) (eulerBC γ 1 bcR)).rhs v) dt t q).data :=
  hlle_explicit_positive_open γ dt t hγ hdt m hn hvol _ _ (eulerBC_padm' γ (-1) hγ bcL hbcL)
    (eulerBC_padm' γ 1 hγ bcR hbcR) q hq hcfl

end pipeline

/-! ## 4. shallow water: `SwBCAdm` already covers every kernel of the model, and is exact -/

/-- the shallow-water model has the three boundary kernels `dirichlet`, `sym`, `inf` only (no inlet/outlet kernels);
`C10.SwBCAdm` is exactly the condition under which a kernel maps positive depths to positive depths -/
theorem swBCAdm_iff (bc : SwBC ℝ) : SwBCAdm bc ↔ ∀ W, PAdmSW W → PAdmSW (swBC bc W) := by
  refine ⟨fun h W hW => swBC_padm bc h W hW, fun h => ?_⟩
  cases bc with
  | dirichlet prim => exact h (fun _ => 1) (by unfold PAdmSW; norm_num)
  | sym => trivial
  | inf => trivial

/-! ## 5. non-vacuity: concrete ghost states (`γ = 2`: the powers are `x^(1/2)`, `x^1`, `x^2`) -/

section examples
open Flowdyn.C05 Flowdyn.Gen

theorem rpow_half (x y : ℝ) (hy : 0 ≤ y) (h : y ^ 2 = x) : x ^ ((2 - 1 : ℝ) / 2) = y := by
  rw [show ((2 - 1 : ℝ) / 2) = 1 / 2 by norm_num, ← Real.sqrt_eq_rpow, ← h, Real.sqrt_sq hy]

/-- `insub`, left end, `ptot = 25`, `rttot = 5`, interior `(3, 1/2, 16)`: Mach² `1/2`, ghost `(4, 2, 16)` ≠ interior -/
example : eBcInsub 2 (-1) 25 5 3 (1/2) 16 = ((4, 2, 16) : ℝ × ℝ × ℝ) := by
  have hm : totM2 2 25 16 = 1/2 := by
    unfold totM2; rw [rpow_half (25/16) (5/4) (by norm_num) (by norm_num)]; norm_num
  have hr : totRho 2 25 5 16 = 4 := by unfold totRho; rw [hm]; norm_num
  rw [eBcInsub_eq, hm, hr]
  norm_num

example : PAdm (eulerBC 2 (-1) (EulerBC.insub 25 5) (vec3 (3, 1/2, 16))) :=
  eulerBC_padm' 2 (-1) (by norm_num) (EulerBC.insub 25 5) ⟨by norm_num, by norm_num⟩ _
    ⟨by norm_num [vec3], by norm_num [vec3]⟩

/-- `insup` with `ptot = 25`, `rttot = 5`, `p = 16`: the same ghost state `(4, 2, 16)` -/
example : eBcInsup 2 (-1) 25 5 16 = ((4, 2, 16) : ℝ × ℝ × ℝ) := by
  have hm : totM2 2 25 16 = 1/2 := by
    unfold totM2; rw [rpow_half (25/16) (5/4) (by norm_num) (by norm_num)]; norm_num
  have hr : totRho 2 25 5 16 = 4 := by unfold totRho; rw [hm]; norm_num
  rw [eBcInsup_eq, hm, hr]
  norm_num

example (W : ℕ → ℝ) : PAdm (eulerBC 2 (-1) (EulerBC.insup 25 5 16) W) :=
  (eulerBC_padm_iff 2 (-1) (by norm_num) (EulerBC.insup 25 5 16) (vec3 (1, 0, 1))
    ⟨by norm_num [vec3], by norm_num [vec3]⟩).mpr ⟨by norm_num, by norm_num⟩

/-- `insub_cbc`, left end, `ptot = 81`, `rttot = 4`, interior at rest `(2, 0, 4)` (`c = 2`, invariant `-4`):
`adiscri = 16`, `a1 = 8/3`, ghost `(18, 4/3, 64)` (Mach `1/2`); in the regime of `insubCbc_regular` -/
example : eBcInsubCbc 2 (-1) 81 4 2 0 4 = ((18, 4/3, 64) : ℝ × ℝ × ℝ) := by
  have hI : cbcI 2 (-1) 2 0 4 = -4 := by unfold cbcI; norm_num
  have hD : cbcD 2 (-1) 4 2 0 4 = 16 := by unfold cbcD; rw [hI]; norm_num
  have hA : cbcA 2 (-1) 4 2 0 4 = 8/3 := by unfold cbcA; rw [hI, hD]; norm_num
  have hU : cbcU 2 (-1) 4 2 0 4 = 4/3 := by unfold cbcU; rw [hI, hA]; norm_num
  have hF : cbcF 2 (-1) 4 2 0 4 = 9/8 := by unfold cbcF; rw [hU, hA]; norm_num
  rw [eBcInsubCbc_eq, hU, hF]
  norm_num

example : 0 ≤ cbcD 2 (-1) 4 2 0 4 ∧ -(-1 : ℝ) * 0 < 2 * Real.sqrt (2 * 4 / 2) / (2 - 1) := by
  have hI : cbcI 2 (-1) 2 0 4 = -4 := by unfold cbcI; norm_num
  have hD : cbcD 2 (-1) 4 2 0 4 = 16 := by unfold cbcD; rw [hI]; norm_num
  rw [hD]; norm_num

example : PAdm (eulerBC 2 (-1) (EulerBC.insub_cbc 81 4) (vec3 (2, 0, 4))) :=
  eulerBC_padm' 2 (-1) (by norm_num) (EulerBC.insub_cbc 81 4) ⟨by norm_num, by norm_num⟩ _
    ⟨by norm_num [vec3], by norm_num [vec3]⟩

/-- `outsub_qtot`, right end, interior `(2, 1, 4)` (`ptot = 81/16`, `rttot = 9/4`), `pext = 729/256 < p`:
the flow is accelerated to Mach² `2/3`, ghost `(27/16, 3/2, 729/256)` -/
example : eBcOutsubQtot 2 1 (729/256) 2 1 4 = ((27/16, 3/2, 729/256) : ℝ × ℝ × ℝ) := by
  have hF : qtotF 2 2 1 4 = 9/8 := by unfold qtotF; norm_num
  have hRt : qtotRt 2 2 1 4 = 9/4 := by unfold qtotRt; rw [hF]; norm_num
  have hPt : qtotPt 2 2 1 4 = 81/16 := by unfold qtotPt; rw [hF]; norm_num
  have hm : totM2 2 (81/16) (729/256) = 2/3 := by
    unfold totM2; rw [rpow_half (81/16 / (729/256)) (4/3) (by norm_num) (by norm_num)]; norm_num
  have hr : totRho 2 (81/16) (9/4) (729/256) = 27/16 := by unfold totRho; rw [hm]; norm_num
  rw [eBcOutsubQtot_eq, hRt, hPt, hm, hr]
  norm_num

/-- `outsub_qtot` with `pext > ptot` (outside the regime of `C16.outsub_qtot_def`): the Mach number is clamped to
zero and the ghost state is the stagnation state at the interior total temperature; positivity holds all the same -/
example : PAdm (eulerBC 2 1 (EulerBC.outsub_qtot 100) (vec3 (2, 1, 4))) :=
  eulerBC_padm' 2 1 (by norm_num) _ (by norm_num [EulerBCAdm']) _ ⟨by norm_num [vec3], by norm_num [vec3]⟩

/-- `outsub_rh`, right end, interior `(2, 1, 4)`, `pext = 20`: `Ms² = 4`, density ratio `2`, shock speed `-3`,
ghost `(4, -1, 20)` -/
example : eBcOutsubRh 2 1 20 2 1 4 = ((4, -1, 20) : ℝ × ℝ × ℝ) := by
  have hM : rhMs2 2 20 4 = 4 := by unfold rhMs2; norm_num
  have hR : rhRatio 2 20 4 = 2 := by unfold rhRatio; rw [hM]; norm_num
  rw [eBcOutsubRh_eq, hM, hR]
  norm_num

/-- `outsub_rh` with an expansion ratio `pext/p = 1/100` (no physical shock): `Ms² = 103/400 > 0`, still admissible -/
example : PAdm (eulerBC 2 1 (EulerBC.outsub_rh (1/25)) (vec3 (2, 1, 4))) :=
  eulerBC_padm' 2 1 (by norm_num) _ (by norm_num [EulerBCAdm']) _ ⟨by norm_num [vec3], by norm_num [vec3]⟩

/-- `outsub_nrcbc`, right end, interior `(2, 1, 4)`, `pext = 64`: `ρ1 = 2·16^(1/2) = 8`, `a1 = 4`, ghost `(8, 5, 64)` -/
example : eBcOutsubNrcbc 2 1 64 2 1 4 = ((8, 5, 64) : ℝ × ℝ × ℝ) := by
  have hq : ((64 : ℝ) / 4) ^ ((1 : ℝ) / 2) = 4 := by
    rw [← Real.sqrt_eq_rpow]; norm_num
  rw [eBcOutsubNrcbc_eq, hq]
  norm_num

example : PAdm (eulerBC 2 1 (EulerBC.outsub_nrcbc 64) (vec3 (2, 1, 4))) :=
  eulerBC_padm' 2 1 (by norm_num) _ (by norm_num [EulerBCAdm']) _ ⟨by norm_num [vec3], by norm_num [vec3]⟩

/-- necessity: a nonpositive outlet pressure gives an inadmissible ghost state for EVERY admissible interior state -/
example (W : ℕ → ℝ) (hW : PAdm W) : ¬ PAdm (eulerBC 2 1 (EulerBC.outsub_rh 0) W) := by
  rw [eulerBC_padm_iff 2 1 (by norm_num) _ W hW]
  norm_num [EulerBCAdmExact]

/-! ### the pipeline with the new kernels: uniform flow `(ρ, u, p) = (2, 1, 4)`, `γ = 2` (`c = 2`, Mach `1/2`,
`ptot = 81/16`, `rttot = 9/4`), three cells, parameters matched to the flow (ghost states = flow state) -/

/-- conservative `(ρ, ρu, E) = (2, 2, 5)` in every cell -/
noncomputable def exU : ℕ → ℕ → ℝ := fun k _ => if k = 0 then 2 else if k = 1 then 2 else 5

theorem exU_adm : EAdmField 2 3 exU := by
  intro i _
  norm_num [exU, ePressure, eKinetic]

theorem exU_prim (c : ℕ) : eulerC2P 2 (fun l => exU l c) = vec3 (2, 1, 4) := by
  unfold eulerC2P
  congr 1
  norm_num [exU, eCons2prim, ePressure, eKinetic]

/-- face condition for ANY boundary kernels that return the flow state at the flow state: `sR = 3`, `sL = -1` at
every face, `dt/dx = 1/4`, equality -/
theorem exU_cfl (lo hi : (ℕ → ℝ) → (ℕ → ℝ)) (hlo : lo (vec3 (2, 1, 4)) = vec3 (2, 1, 4))
    (hhi : hi (vec3 (2, 1, 4)) = vec3 (2, 1, 4)) : EFaceCFLOpen 2 (1/12) (uniMesh 3 1 0) lo hi exU := by
  have s1 : hlleSR 2 2 1 4 2 1 4 = 3 := by
    unfold hlleSR eRoe; simp only [HasSqrt.sqrt_real]; norm_num
  have s2 : hlleSL 2 2 1 4 2 1 4 = -1 := by
    unfold hlleSL eRoe; simp only [HasSqrt.sqrt_real]; norm_num
  have hnn : (uniMesh 3 (1:ℝ) 0).n = 3 := rfl
  intro i hi'
  rw [hnn] at hi'
  rw [uni_vol]
  unfold nbL nbR hlleSRv hlleSLv
  simp only [exU_prim, hnn]
  interval_cases i <;> norm_num [hlo, hhi, vec3, s1, s2]

theorem exU_ptot : C16.ptotOf 2 2 1 4 = 81/16 := by unfold C16.ptotOf; norm_num
theorem exU_rttot : C16.rttotOf 2 2 1 4 = 9/4 := by unfold C16.rttotOf; norm_num

theorem exU_insub : eulerBC (2 : ℝ) (-1) (EulerBC.insub (81/16) (9/4)) (vec3 (2, 1, 4)) = vec3 (2, 1, 4) := by
  have h := C16.insub_compatible 2 (-1) 2 1 4 (by norm_num) (by norm_num) (by norm_num) (Or.inr rfl) (by norm_num)
  rw [exU_ptot, exU_rttot] at h
  show vec3 (eBcInsub (2 : ℝ) (-1) (81/16) (9/4) 2 1 4) = _
  rw [h]

theorem exU_insup : eulerBC (2 : ℝ) (-1) (EulerBC.insup (81/16) (9/4) 4) (vec3 (2, 1, 4)) = vec3 (2, 1, 4) := by
  have h := C16.insup_compatible 2 (-1) 2 1 4 (by norm_num) (by norm_num) (by norm_num) (Or.inr rfl) (by norm_num)
  rw [exU_ptot, exU_rttot] at h
  show vec3 (eBcInsup (2 : ℝ) (-1) (81/16) (9/4) 4) = _
  rw [h]

theorem exU_insubCbc : eulerBC (2 : ℝ) (-1) (EulerBC.insub_cbc (81/16) (9/4)) (vec3 (2, 1, 4)) = vec3 (2, 1, 4) := by
  have hI : cbcI 2 (-1) 2 1 4 = -3 := by unfold cbcI; norm_num
  have hD : cbcD 2 (-1) (9/4) 2 1 4 = 9 := by unfold cbcD; rw [hI]; norm_num
  have hA : cbcA 2 (-1) (9/4) 2 1 4 = 2 := by unfold cbcA; rw [hI, hD]; norm_num
  have hU : cbcU 2 (-1) (9/4) 2 1 4 = 1 := by unfold cbcU; rw [hI, hA]; norm_num
  have hF : cbcF 2 (-1) (9/4) 2 1 4 = 9/8 := by unfold cbcF; rw [hU, hA]; norm_num
  show vec3 (eBcInsubCbc (2 : ℝ) (-1) (81/16) (9/4) 2 1 4) = _
  rw [eBcInsubCbc_eq, hU, hF]
  norm_num

theorem exU_outsubQtot : eulerBC (2 : ℝ) 1 (EulerBC.outsub_qtot 4) (vec3 (2, 1, 4)) = vec3 (2, 1, 4) := by
  show vec3 (eBcOutsubQtot (2 : ℝ) 1 4 2 1 4) = _
  rw [C16.outsub_qtot_compatible 2 1 2 1 4 (by norm_num) (by norm_num) (by norm_num) (Or.inl rfl) (by norm_num)]

theorem exU_outsubRh : eulerBC (2 : ℝ) 1 (EulerBC.outsub_rh 4) (vec3 (2, 1, 4)) = vec3 (2, 1, 4) := by
  show vec3 (eBcOutsubRh (2 : ℝ) 1 4 2 1 4) = _
  rw [C16.outsub_rh_compatible 2 1 2 1 4 (by norm_num) (by norm_num) (by norm_num)]

theorem exU_outsubNrcbc : eulerBC (2 : ℝ) 1 (EulerBC.outsub_nrcbc 4) (vec3 (2, 1, 4)) = vec3 (2, 1, 4) := by
  show vec3 (eBcOutsubNrcbc (2 : ℝ) 1 4 2 1 4) = _
  rw [C16.outsub_nrcbc_compatible 2 1 2 1 4 (by norm_num) (by norm_num) (by norm_num)]

/-- non-vacuity of `hlle_fe_positive_named'`: total-quantity inlet on the left, `outsub_qtot` on the right -/
example : EAdmField 2 3 (exU + (1/12 : ℝ) • (eulerHlleOpen 2 (uniMesh 3 1 0)
    (eulerBC 2 (-1) (EulerBC.insub (81/16) (9/4))) (eulerBC 2 1 (EulerBC.outsub_qtot 4))).rhs exU) :=
  hlle_fe_positive_named' 2 (1/12) (by norm_num) (by norm_num) (uniMesh 3 1 0) (by decide)
    (fun i _ => by rw [uni_vol]; norm_num) (EulerBC.insub (81/16) (9/4)) (EulerBC.outsub_qtot 4)
    ⟨by norm_num, by norm_num⟩ (by norm_num [EulerBCAdm']) exU exU_adm (exU_cfl _ _ exU_insub exU_outsubQtot)

/-- characteristic inlet on the left, `outsub_nrcbc` on the right -/
example : EAdmField 2 3 (exU + (1/12 : ℝ) • (eulerHlleOpen 2 (uniMesh 3 1 0)
    (eulerBC 2 (-1) (EulerBC.insub_cbc (81/16) (9/4))) (eulerBC 2 1 (EulerBC.outsub_nrcbc 4))).rhs exU) :=
  hlle_fe_positive_named' 2 (1/12) (by norm_num) (by norm_num) (uniMesh 3 1 0) (by decide)
    (fun i _ => by rw [uni_vol]; norm_num) (EulerBC.insub_cbc (81/16) (9/4)) (EulerBC.outsub_nrcbc 4)
    ⟨by norm_num, by norm_num⟩ (by norm_num [EulerBCAdm']) exU exU_adm (exU_cfl _ _ exU_insubCbc exU_outsubNrcbc)

/-- `insup` on the left, `outsub_rh` on the right, with the model's `explicitStep` -/
example (t : ℝ) : EAdmField 2 3 (explicitStep (fun _ v => (eulerHlleOpen 2 (uniMesh 3 1 0)
    (eulerBC 2 (-1) (EulerBC.insup (81/16) (9/4) 4)) (eulerBC 2 1 (EulerBC.outsub_rh 4))).rhs v) (1/12) t exU).data :=
  hlle_explicit_positive_named' 2 (1/12) t (by norm_num) (by norm_num) (uniMesh 3 1 0) (by decide)
    (fun i _ => by rw [uni_vol]; norm_num) (EulerBC.insup (81/16) (9/4) 4) (EulerBC.outsub_rh 4)
    ⟨by norm_num, by norm_num, by norm_num⟩ (by norm_num [EulerBCAdm']) exU exU_adm
    (exU_cfl _ _ exU_insup exU_outsubRh)

/-- the stage conditions of `rk2_heun` / `rk3ssp` on the uniform flow, for ANY kernels fixing the flow state -/
theorem exU_stage_cfl (lo hi : (ℕ → ℝ) → (ℕ → ℝ)) (hlo : lo (vec3 (2, 1, 4)) = vec3 (2, 1, 4))
    (hhi : hi (vec3 (2, 1, 4)) = vec3 (2, 1, 4)) (t : ℝ) :
    EFaceCFLOpen 2 (1/12) (uniMesh 3 1 0) lo hi
        (fe (fun _ v => (eulerHlleOpen 2 (uniMesh 3 1 0) lo hi).rhs v) (1/12) t exU)
    ∧ EFaceCFLOpen 2 (1/12) (uniMesh 3 1 0) lo hi ((3/4 : ℝ) • exU + (1/4 : ℝ) •
        fe (fun _ v => (eulerHlleOpen 2 (uniMesh 3 1 0) lo hi).rhs v) (1/12) (t + 1/12 * 1)
          (fe (fun _ v => (eulerHlleOpen 2 (uniMesh 3 1 0) lo hi).rhs v) (1/12) t exU)) := by
  have hn : 0 < (uniMesh 3 (1:ℝ) 0).n := by decide
  have e1 : ∀ (s : ℝ) (k c : ℕ), c < (uniMesh 3 (1:ℝ) 0).n →
      fe (fun _ v => (eulerHlleOpen 2 (uniMesh 3 1 0) lo hi).rhs v) (1/12 : ℝ) s exU k c = exU k c :=
    fun s k c hc => fe_fo1Open_const _ _ _ _ _ hn _ s _ (vec3 (2, 1, 4)) (fun i _ => exU_prim i) hlo hhi k c hc
  have e2 : ∀ (s s' : ℝ) (k c : ℕ), c < (uniMesh 3 (1:ℝ) 0).n →
      fe (fun _ v => (eulerHlleOpen 2 (uniMesh 3 1 0) lo hi).rhs v) (1/12 : ℝ) s'
        (fe (fun _ v => (eulerHlleOpen 2 (uniMesh 3 1 0) lo hi).rhs v) (1/12 : ℝ) s exU) k c = exU k c := by
    intro s s' k c hc
    rw [show eulerHlleOpen 2 (uniMesh 3 1 0) lo hi = fo1Open _ _ _ _ _ from rfl,
      fe_fo1Open_const _ _ _ _ _ hn _ s' _ (vec3 (2, 1, 4)) (fun i hi' => ?_) hlo hhi k c hc]
    · exact e1 s k c hc
    · rw [← exU_prim i]
      congr 1
      funext l
      exact e1 s l i hi'
  refine ⟨eFaceCFLOpen_congr 2 (1/12) (uniMesh 3 1 0) hn _ _ _ _ (fun k c hc => (e1 t k c hc).symm)
    (exU_cfl lo hi hlo hhi), ?_⟩
  refine eFaceCFLOpen_congr 2 (1/12) (uniMesh 3 1 0) hn _ _ exU _ (fun k c hc => ?_) (exU_cfl lo hi hlo hhi)
  simp only [Pi.add_apply, Pi.smul_apply, smul_eq_mul, e2 t _ k c hc]; ring

/-- non-vacuity of `hlle_rk2_heun_positive_named'` and `hlle_rk3ssp_positive_named'`: characteristic inlet on the
left, `outsub_qtot` on the right; all stage conditions hold (steady uniform flow, `dt > 0`) -/
example (t : ℝ) :
    EAdmField 2 3 (rkStep (castT butcher_rk2_heun) (fun _ v => (eulerHlleOpen 2 (uniMesh 3 1 0)
      (eulerBC 2 (-1) (EulerBC.insub_cbc (81/16) (9/4))) (eulerBC 2 1 (EulerBC.outsub_qtot 4))).rhs v)
        (1/12) t exU).data
    ∧ EAdmField 2 3 (rkStep (castT butcher_rk3ssp) (fun _ v => (eulerHlleOpen 2 (uniMesh 3 1 0)
      (eulerBC 2 (-1) (EulerBC.insub_cbc (81/16) (9/4))) (eulerBC 2 1 (EulerBC.outsub_qtot 4))).rhs v)
        (1/12) t exU).data := by
  obtain ⟨c1, c2⟩ := exU_stage_cfl _ _ exU_insubCbc exU_outsubQtot t
  have hA : EulerBCAdm' (EulerBC.insub_cbc (81/16 : ℝ) (9/4)) := ⟨by norm_num, by norm_num⟩
  have hB : EulerBCAdm' (EulerBC.outsub_qtot (4 : ℝ)) := by norm_num [EulerBCAdm']
  exact ⟨hlle_rk2_heun_positive_named' 2 (1/12) t (by norm_num) (by norm_num) (uniMesh 3 1 0) (by decide)
      (fun i _ => by rw [uni_vol]; norm_num) _ _ hA hB exU exU_adm (exU_cfl _ _ exU_insubCbc exU_outsubQtot) c1,
    hlle_rk3ssp_positive_named' 2 (1/12) t (by norm_num) (by norm_num) (uniMesh 3 1 0) (by decide)
      (fun i _ => by rw [uni_vol]; norm_num) _ _ hA hB exU exU_adm (exU_cfl _ _ exU_insubCbc exU_outsubQtot) c1 c2⟩

/-! ### a transient: gas at rest `(ρ, u, p) = (2, 0, 4)` (`γ = 2`, `c = 2`), total-quantity inlet on the left with
totals above the static state (`ptot = 81/16 > 4`: the ghost state is the inflow `(2, 1, 4)` ≠ cell state),
non-reflecting outlet `outsub_nrcbc 4` on the right -/

/-- conservative `(2, 0, 4)` in every cell -/
noncomputable def exQ : ℕ → ℕ → ℝ := fun k _ => if k = 0 then 2 else if k = 1 then 0 else 4

theorem exQ_adm : EAdmField 2 3 exQ := by
  intro i _
  norm_num [exQ, ePressure, eKinetic]

theorem exQ_prim (c : ℕ) : eulerC2P 2 (fun l => exQ l c) = vec3 (2, 0, 4) := by
  unfold eulerC2P
  congr 1
  norm_num [exQ, eCons2prim, ePressure, eKinetic]

/-- the inlet ghost state only reads the interior pressure: inflow at Mach `1/2` -/
theorem exQ_insub : eulerBC (2 : ℝ) (-1) (EulerBC.insub (81/16) (9/4)) (vec3 (2, 0, 4)) = vec3 (2, 1, 4) := by
  have h : eBcInsub (2 : ℝ) (-1) (81/16) (9/4) 2 0 4 = eBcInsub 2 (-1) (81/16) (9/4) 2 1 4 := rfl
  have h' := C16.insub_compatible 2 (-1) 2 1 4 (by norm_num) (by norm_num) (by norm_num) (Or.inr rfl) (by norm_num)
  rw [exU_ptot, exU_rttot] at h'
  show vec3 (eBcInsub (2 : ℝ) (-1) (81/16) (9/4) 2 0 4) = _
  rw [h, h']

theorem exQ_outsubNrcbc : eulerBC (2 : ℝ) 1 (EulerBC.outsub_nrcbc 4) (vec3 (2, 0, 4)) = vec3 (2, 0, 4) := by
  show vec3 (eBcOutsubNrcbc (2 : ℝ) 1 4 2 0 4) = _
  rw [C16.outsub_nrcbc_compatible 2 1 2 0 4 (by norm_num) (by norm_num) (by norm_num)]

/-- inlet face: Roe state `ũ = 1/2`, `c̃ = √(33/8) ≤ 5/2`, so `sR ≤ 3`; all other faces `sL = -2`, `sR = 2`;
`dt/dx = 1/5`: equality-free face condition `(3 + 2)/5 ≤ 1` in the inlet cell -/
theorem exQ_cfl : EFaceCFLOpen 2 (1/15) (uniMesh 3 1 0) (eulerBC 2 (-1) (EulerBC.insub (81/16) (9/4)))
    (eulerBC 2 1 (EulerBC.outsub_nrcbc 4)) exQ := by
  have s0 : hlleSR 2 2 1 4 2 0 4 ≤ 3 := by
    unfold hlleSR eRoe; simp only [HasSqrt.sqrt_real]
    norm_num
    have h : √33 / √8 ≤ 5/2 := by
      rw [← Real.sqrt_div (by norm_num : (0:ℝ) ≤ 33), Real.sqrt_le_iff]
      norm_num
    linarith
  have s1 : hlleSR 2 2 0 4 2 0 4 = 2 := by
    unfold hlleSR eRoe; simp only [HasSqrt.sqrt_real]; norm_num
  have s2 : hlleSL 2 2 0 4 2 0 4 = -2 := by
    unfold hlleSL eRoe; simp only [HasSqrt.sqrt_real]; norm_num
  have hnn : (uniMesh 3 (1:ℝ) 0).n = 3 := rfl
  intro i hi'
  rw [hnn] at hi'
  rw [uni_vol]
  unfold nbL nbR hlleSRv hlleSLv
  simp only [exQ_prim, hnn, exQ_insub, exQ_outsubNrcbc]
  interval_cases i <;> norm_num [vec3, s1, s2]
  linarith

/-- non-vacuity of `hlle_fe_positive_named'` on a transient (the inlet ghost state differs from the cell state) -/
example : EAdmField 2 3 (exQ + (1/15 : ℝ) • (eulerHlleOpen 2 (uniMesh 3 1 0)
    (eulerBC 2 (-1) (EulerBC.insub (81/16) (9/4))) (eulerBC 2 1 (EulerBC.outsub_nrcbc 4))).rhs exQ) :=
  hlle_fe_positive_named' 2 (1/15) (by norm_num) (by norm_num) (uniMesh 3 1 0) (by decide)
    (fun i _ => by rw [uni_vol]; norm_num) (EulerBC.insub (81/16) (9/4)) (EulerBC.outsub_nrcbc 4)
    ⟨by norm_num, by norm_num⟩ (by norm_num [EulerBCAdm']) exQ exQ_adm exQ_cfl

end examples

end Flowdyn.C10d
