/-
C11 (2D) — the 2D reconstructions `extrapol2d1` / `extrapol2dk` (model: `Disc2D.xL0/xR0/yL0/yR0` and their
boundary closures `xL/xR/yL/yR`):

  (i)   constants are reproduced at every face (row-wise for x-faces, column-wise for y-faces);
  (ii)  for every κ, data linear in x are reproduced exactly at the x-faces whose stencil is interior
        (`2 ≤ i`, `i + 1 ≤ nx` for the left state, `1 ≤ i`, `i + 2 ≤ nx` for the right state), same in y;
        the first-order scheme is not exact (counterexample);
  (iii) the directional κ stencil in terms of the cell values of the row / column, at interior faces for any
        boundary treatment, at the faces next to an open boundary (one-sided, the boundary difference is 0),
        and at **all** faces with indices modulo `n` for the periodic closure.

Everything is proved once on the line pipeline of C15 (`lgrad`, `lL0`, `lR0`, `lL`, `lR`) and transported to
rows (x-sweep) and columns (y-sweep) by `rfl`.
-/
import Flowdyn.Model.FVM2D
import Flowdyn.Props.C15
import Mathlib.Tactic.Ring
import Mathlib.Tactic.Linarith
import Mathlib.Tactic.FieldSimp
import Mathlib.Tactic.NormNum

namespace Flowdyn.C11
open Flowdyn

variable {α : Type} [Field α] {ι : Type}
set_option linter.unusedSectionVars false

/-! ### the four extrapolations are line extrapolations of a row / a column -/

theorem xgrad_line (D : Disc2D α ι) (q : ι → ℕ → ℕ → α) (k : ι) (i j : ℕ) :
    D.xgrad q k i j = C15.lgrad D.mesh.nx D.bcx.isPer (fun a => D.pdata q k a j) i := rfl
theorem ygrad_line (D : Disc2D α ι) (q : ι → ℕ → ℕ → α) (k : ι) (i j : ℕ) :
    D.ygrad q k i j = C15.lgrad D.mesh.ny D.bcy.isPer (fun b => D.pdata q k i b) j := rfl
theorem xL0_line (D : Disc2D α ι) (q : ι → ℕ → ℕ → α) (k : ι) (i j : ℕ) :
    D.xL0 q k i j = C15.lL0 D.mesh.nx D.bcx.isPer D.scheme.km D.scheme.kp (fun a => D.pdata q k a j) i := rfl
theorem xR0_line (D : Disc2D α ι) (q : ι → ℕ → ℕ → α) (k : ι) (i j : ℕ) :
    D.xR0 q k i j = C15.lR0 D.mesh.nx D.bcx.isPer D.scheme.km D.scheme.kp (fun a => D.pdata q k a j) i := rfl
theorem yL0_line (D : Disc2D α ι) (q : ι → ℕ → ℕ → α) (k : ι) (i j : ℕ) :
    D.yL0 q k i j = C15.lL0 D.mesh.ny D.bcy.isPer D.scheme.km D.scheme.kp (fun b => D.pdata q k i b) j := rfl
theorem yR0_line (D : Disc2D α ι) (q : ι → ℕ → ℕ → α) (k : ι) (i j : ℕ) :
    D.yR0 q k i j = C15.lR0 D.mesh.ny D.bcy.isPer D.scheme.km D.scheme.kp (fun b => D.pdata q k i b) j := rfl
theorem xL_line (D : Disc2D α ι) (q : ι → ℕ → ℕ → α) (k : ι) (i j : ℕ) :
    D.xL q k i j = C15.lL D.mesh.nx D.bcx D.scheme.km D.scheme.kp (fun l a => D.pdata q l a j) k i := rfl
theorem xR_line (D : Disc2D α ι) (q : ι → ℕ → ℕ → α) (k : ι) (i j : ℕ) :
    D.xR q k i j = C15.lR D.mesh.nx D.bcx D.scheme.km D.scheme.kp (fun l a => D.pdata q l a j) k i := rfl
theorem yL_line (D : Disc2D α ι) (q : ι → ℕ → ℕ → α) (k : ι) (i j : ℕ) :
    D.yL q k i j = C15.lL D.mesh.ny D.bcy D.scheme.km D.scheme.kp (fun l b => D.pdata q l i b) k j := rfl
theorem yR_line (D : Disc2D α ι) (q : ι → ℕ → ℕ → α) (k : ι) (i j : ℕ) :
    D.yR q k i j = C15.lR D.mesh.ny D.bcy D.scheme.km D.scheme.kp (fun l b => D.pdata q l i b) k j := rfl

/-- away from the boundary faces the closure is the extrapolation -/
theorem xL_interior (D : Disc2D α ι) (q : ι → ℕ → ℕ → α) (k : ι) {i : ℕ} (j : ℕ) (h0 : i ≠ 0) :
    D.xL q k i j = D.xL0 q k i j := by unfold Disc2D.xL; rw [if_neg h0]
theorem xR_interior (D : Disc2D α ι) (q : ι → ℕ → ℕ → α) (k : ι) {i : ℕ} (j : ℕ) (hn : i ≠ D.mesh.nx) :
    D.xR q k i j = D.xR0 q k i j := by unfold Disc2D.xR; rw [if_neg hn]
theorem yL_interior (D : Disc2D α ι) (q : ι → ℕ → ℕ → α) (k : ι) (i : ℕ) {j : ℕ} (h0 : j ≠ 0) :
    D.yL q k i j = D.yL0 q k i j := by unfold Disc2D.yL; rw [if_neg h0]
theorem yR_interior (D : Disc2D α ι) (q : ι → ℕ → ℕ → α) (k : ι) (i : ℕ) {j : ℕ} (hn : j ≠ D.mesh.ny) :
    D.yR q k i j = D.yR0 q k i j := by unfold Disc2D.yR; rw [if_neg hn]

/-! ### (i) constant lines: zero differences at every face (boundary faces included), the extrapolations
return the constant.  Only the cells `< n` of the line are constrained. -/

theorem lgrad_const {n : ℕ} (hn : n ≠ 0) (per : Bool) (d : ℕ → α) (c : α) (hd : ∀ a, a < n → d a = c)
    {a : ℕ} (ha : a ≤ n) : C15.lgrad n per d a = 0 := by
  unfold C15.lgrad
  by_cases h0 : a = 0 ∨ a = n
  · rw [if_pos h0]
    cases per
    · rfl
    · rw [if_pos rfl, hd 0 (by omega), hd (n - 1) (by omega), sub_self]
  · rw [if_neg h0, hd a (by omega), hd (a - 1) (by omega), sub_self]

theorem lL0_const {n : ℕ} (hn : n ≠ 0) (per : Bool) (km kp : α) (d : ℕ → α) (c : α)
    (hd : ∀ a, a < n → d a = c) {a : ℕ} (h0 : a ≠ 0) (ha : a ≤ n) : C15.lL0 n per km kp d a = c := by
  unfold C15.lL0
  rw [if_neg h0, lgrad_const hn per d c hd ha, lgrad_const hn per d c hd (by omega : a - 1 ≤ n),
    hd (a - 1) (by omega), mul_zero, mul_zero, add_zero, add_zero]

theorem lR0_const {n : ℕ} (hn : n ≠ 0) (per : Bool) (km kp : α) (d : ℕ → α) (c : α)
    (hd : ∀ a, a < n → d a = c) {a : ℕ} (ha : a < n) : C15.lR0 n per km kp d a = c := by
  unfold C15.lR0
  rw [if_neg (by omega), lgrad_const hn per d c hd (by omega : a ≤ n),
    lgrad_const hn per d c hd (by omega : a + 1 ≤ n), hd a ha, mul_zero, mul_zero, sub_zero, sub_zero]

/-- **constants are reproduced at every face**: a component that is constant along row `j` is returned by
both x-extrapolations at every x-face of the row where they are defined (left state: faces `1 … nx`, right
state: faces `0 … nx-1`); the same along a column.  Any scheme, periodic or not. -/
theorem const_exact2d (D : Disc2D α ι) (q : ι → ℕ → ℕ → α) (k : ι) (c : α) :
    (∀ j, D.mesh.nx ≠ 0 → (∀ a, a < D.mesh.nx → D.pdata q k a j = c) →
        (∀ i, i ≠ 0 → i ≤ D.mesh.nx → D.xL0 q k i j = c) ∧ (∀ i, i < D.mesh.nx → D.xR0 q k i j = c))
    ∧ (∀ i, D.mesh.ny ≠ 0 → (∀ b, b < D.mesh.ny → D.pdata q k i b = c) →
        (∀ j, j ≠ 0 → j ≤ D.mesh.ny → D.yL0 q k i j = c) ∧ (∀ j, j < D.mesh.ny → D.yR0 q k i j = c)) :=
  ⟨fun j hn hd => ⟨fun _ h0 hi => lL0_const hn _ _ _ (fun a => D.pdata q k a j) c hd h0 hi,
      fun _ hi => lR0_const hn _ _ _ (fun a => D.pdata q k a j) c hd hi⟩,
    fun i hn hd => ⟨fun _ h0 hj => lL0_const hn _ _ _ (fun b => D.pdata q k i b) c hd h0 hj,
      fun _ hj => lR0_const hn _ _ _ (fun b => D.pdata q k i b) c hd hj⟩⟩

/-- with a periodic closure the constant is also returned at the two boundary faces -/
theorem const_exact2d_periodic_x (D : Disc2D α ι) (hper : D.bcx = BCPair.periodic) (hnx : D.mesh.nx ≠ 0)
    (q : ι → ℕ → ℕ → α) (k : ι) (c : α) (j : ℕ) (hd : ∀ a, a < D.mesh.nx → D.pdata q k a j = c)
    {i : ℕ} (hi : i ≤ D.mesh.nx) : D.xL q k i j = c ∧ D.xR q k i j = c := by
  have hL := fun i h0 hi => lL0_const hnx D.bcx.isPer D.scheme.km D.scheme.kp
    (fun a => D.pdata q k a j) c hd (a := i) h0 hi
  have hR := fun i hi => lR0_const hnx D.bcx.isPer D.scheme.km D.scheme.kp
    (fun a => D.pdata q k a j) c hd (a := i) hi
  unfold Disc2D.xL Disc2D.xR
  rw [hper]
  constructor
  · by_cases h0 : i = 0
    · rw [if_pos h0]; exact hL _ hnx le_rfl
    · rw [if_neg h0]; exact hL _ h0 hi
  · by_cases h0 : i = D.mesh.nx
    · rw [if_pos h0]; exact hR _ (by omega)
    · rw [if_neg h0]; exact hR _ (by omega)
theorem const_exact2d_periodic_y (D : Disc2D α ι) (hper : D.bcy = BCPair.periodic) (hny : D.mesh.ny ≠ 0)
    (q : ι → ℕ → ℕ → α) (k : ι) (c : α) (i : ℕ) (hd : ∀ b, b < D.mesh.ny → D.pdata q k i b = c)
    {j : ℕ} (hj : j ≤ D.mesh.ny) : D.yL q k i j = c ∧ D.yR q k i j = c := by
  have hL := fun j h0 hj => lL0_const hny D.bcy.isPer D.scheme.km D.scheme.kp
    (fun b => D.pdata q k i b) c hd (a := j) h0 hj
  have hR := fun j hj => lR0_const hny D.bcy.isPer D.scheme.km D.scheme.kp
    (fun b => D.pdata q k i b) c hd (a := j) hj
  unfold Disc2D.yL Disc2D.yR
  rw [hper]
  constructor
  · by_cases h0 : j = 0
    · rw [if_pos h0]; exact hL _ hny le_rfl
    · rw [if_neg h0]; exact hL _ h0 hj
  · by_cases h0 : j = D.mesh.ny
    · rw [if_pos h0]; exact hR _ (by omega)
    · rw [if_neg h0]; exact hR _ (by omega)

/-! ### (iii) the stencil of the line extrapolations -/

theorem lgrad_interior (n : ℕ) (per : Bool) (d : ℕ → α) {a : ℕ} (h0 : a ≠ 0) (hn : a ≠ n) :
    C15.lgrad n per d a = d a - d (a - 1) := by
  unfold C15.lgrad
  rw [if_neg (by omega)]

theorem lgrad_end_open (n : ℕ) (d : ℕ → α) {a : ℕ} (h : a = 0 ∨ a = n) : C15.lgrad n false d a = 0 := by
  unfold C15.lgrad
  rw [if_pos h]; rfl

/-- interior faces, any boundary treatment -/
theorem lL0_stencil_line (n : ℕ) (per : Bool) (km kp : α) (d : ℕ → α) {a : ℕ} (h2 : 2 ≤ a) (hn : a + 1 ≤ n) :
    C15.lL0 n per km kp d a = d (a - 1) + km * (d (a - 1) - d (a - 2)) + kp * (d a - d (a - 1)) := by
  unfold C15.lL0
  rw [if_neg (by omega), lgrad_interior n per d (by omega : a - 1 ≠ 0) (by omega),
    lgrad_interior n per d (by omega : a ≠ 0) (by omega), show a - 1 - 1 = a - 2 by omega]
theorem lR0_stencil_line (n : ℕ) (per : Bool) (km kp : α) (d : ℕ → α) {a : ℕ} (h1 : 1 ≤ a) (hn : a + 2 ≤ n) :
    C15.lR0 n per km kp d a = d a - km * (d (a + 1) - d a) - kp * (d a - d (a - 1)) := by
  unfold C15.lR0
  rw [if_neg (by omega), lgrad_interior n per d (by omega : a + 1 ≠ 0) (by omega),
    lgrad_interior n per d (by omega : a ≠ 0) (by omega), Nat.add_sub_cancel]

/-- faces next to an open (non-periodic) boundary: the boundary difference is zero, the stencil is one-sided -/
theorem lL0_stencil_open_lo (n : ℕ) (km kp : α) (d : ℕ → α) (hn : 2 ≤ n) :
    C15.lL0 n false km kp d 1 = d 0 + kp * (d 1 - d 0) := by
  unfold C15.lL0
  rw [if_neg (by omega), lgrad_end_open n d (Or.inl rfl : 1 - 1 = 0 ∨ 1 - 1 = n),
    lgrad_interior n false d (by omega : 1 ≠ 0) (by omega), mul_zero, add_zero]
theorem lL0_stencil_open_hi (n : ℕ) (km kp : α) (d : ℕ → α) (hn : 2 ≤ n) :
    C15.lL0 n false km kp d n = d (n - 1) + km * (d (n - 1) - d (n - 2)) := by
  unfold C15.lL0
  rw [if_neg (by omega), lgrad_end_open n d (Or.inr rfl),
    lgrad_interior n false d (by omega : n - 1 ≠ 0) (by omega), mul_zero, add_zero,
    show n - 1 - 1 = n - 2 by omega]
theorem lR0_stencil_open_lo (n : ℕ) (km kp : α) (d : ℕ → α) (hn : 2 ≤ n) :
    C15.lR0 n false km kp d 0 = d 0 - km * (d 1 - d 0) := by
  unfold C15.lR0
  rw [if_neg (by omega), lgrad_end_open n d (Or.inl rfl),
    lgrad_interior n false d (by omega : 0 + 1 ≠ 0) (by omega), mul_zero, sub_zero]
theorem lR0_stencil_open_hi (n : ℕ) (km kp : α) (d : ℕ → α) (hn : 2 ≤ n) :
    C15.lR0 n false km kp d (n - 1) = d (n - 1) - kp * (d (n - 1) - d (n - 2)) := by
  unfold C15.lR0
  rw [if_neg (by omega), show n - 1 + 1 = n by omega, lgrad_end_open n d (Or.inr rfl),
    lgrad_interior n false d (by omega : n - 1 ≠ 0) (by omega), mul_zero, sub_zero,
    show n - 1 - 1 = n - 2 by omega]

/-- periodic closure: at **every** face `a ≤ n` the states are the stencil read modulo `n` -/
theorem lL_stencil_periodic {n : ℕ} (hn : n ≠ 0) (km kp : α) (d : ι → ℕ → α) (k : ι) {a : ℕ} (ha : a ≤ n) :
    C15.lL n (BCPair.periodic : BCPair α ι) km kp d k a
      = d k ((a + n - 1) % n) + km * (d k ((a + n - 1) % n) - d k ((a + 2 * n - 2) % n))
        + kp * (d k (a % n) - d k ((a + n - 1) % n)) := by
  rw [C15.lL_eq_lC (Nat.pos_of_ne_zero hn) km kp d k ha]
  unfold C15.lC C15.gC
  rw [show a + n - 1 + n - 1 = a + 2 * n - 2 by omega]
theorem lR_stencil_periodic {n : ℕ} (hn : n ≠ 0) (km kp : α) (d : ι → ℕ → α) (k : ι) {a : ℕ} (ha : a ≤ n) :
    C15.lR n (BCPair.periodic : BCPair α ι) km kp d k a
      = d k (a % n) - km * (d k ((a + 1) % n) - d k (a % n)) - kp * (d k (a % n) - d k ((a + n - 1) % n)) := by
  rw [C15.lR_eq_rC (Nat.pos_of_ne_zero hn) km kp d k ha]
  unfold C15.rC C15.gC
  rw [show a + 1 + n - 1 = a + n by omega, Nat.add_mod_right]

/-! #### the 2D stencils: `d = pdata` along row `j` (x) or along column `i` (y) -/

/-- `extrapol2d1` returns the adjacent cell values (all faces where the state is defined) -/
theorem x_first (D : Disc2D α ι) (hs : D.scheme = .first) (q : ι → ℕ → ℕ → α) (k : ι) (i j : ℕ) :
    (i ≠ 0 → D.xL0 q k i j = D.pdata q k (i - 1) j) ∧ (i ≠ D.mesh.nx → D.xR0 q k i j = D.pdata q k i j) := by
  unfold Disc2D.xL0 Disc2D.xR0
  rw [hs]
  constructor
  · intro h; rw [if_neg h]; simp only [Scheme2D.km, Scheme2D.kp]; ring
  · intro h; rw [if_neg h]; simp only [Scheme2D.km, Scheme2D.kp]; ring
theorem y_first (D : Disc2D α ι) (hs : D.scheme = .first) (q : ι → ℕ → ℕ → α) (k : ι) (i j : ℕ) :
    (j ≠ 0 → D.yL0 q k i j = D.pdata q k i (j - 1)) ∧ (j ≠ D.mesh.ny → D.yR0 q k i j = D.pdata q k i j) := by
  unfold Disc2D.yL0 Disc2D.yR0
  rw [hs]
  constructor
  · intro h; rw [if_neg h]; simp only [Scheme2D.km, Scheme2D.kp]; ring
  · intro h; rw [if_neg h]; simp only [Scheme2D.km, Scheme2D.kp]; ring

/-- κ stencil of the left state at the x-faces `2 ≤ i ≤ nx-1` (any boundary treatment) -/
theorem xL0_stencil (D : Disc2D α ι) (κ : α) (hs : D.scheme = .kappa κ) (q : ι → ℕ → ℕ → α) (k : ι)
    {i : ℕ} (j : ℕ) (h2 : 2 ≤ i) (hn : i + 1 ≤ D.mesh.nx) :
    D.xL0 q k i j = D.pdata q k (i - 1) j + (1 - κ) / 4 * (D.pdata q k (i - 1) j - D.pdata q k (i - 2) j)
      + (1 + κ) / 4 * (D.pdata q k i j - D.pdata q k (i - 1) j) := by
  rw [xL0_line, hs]
  exact lL0_stencil_line _ _ _ _ _ h2 hn
/-- κ stencil of the right state at the x-faces `1 ≤ i ≤ nx-2` -/
theorem xR0_stencil (D : Disc2D α ι) (κ : α) (hs : D.scheme = .kappa κ) (q : ι → ℕ → ℕ → α) (k : ι)
    {i : ℕ} (j : ℕ) (h1 : 1 ≤ i) (hn : i + 2 ≤ D.mesh.nx) :
    D.xR0 q k i j = D.pdata q k i j - (1 - κ) / 4 * (D.pdata q k (i + 1) j - D.pdata q k i j)
      - (1 + κ) / 4 * (D.pdata q k i j - D.pdata q k (i - 1) j) := by
  rw [xR0_line, hs]
  exact lR0_stencil_line _ _ _ _ _ h1 hn
theorem yL0_stencil (D : Disc2D α ι) (κ : α) (hs : D.scheme = .kappa κ) (q : ι → ℕ → ℕ → α) (k : ι)
    (i : ℕ) {j : ℕ} (h2 : 2 ≤ j) (hn : j + 1 ≤ D.mesh.ny) :
    D.yL0 q k i j = D.pdata q k i (j - 1) + (1 - κ) / 4 * (D.pdata q k i (j - 1) - D.pdata q k i (j - 2))
      + (1 + κ) / 4 * (D.pdata q k i j - D.pdata q k i (j - 1)) := by
  rw [yL0_line, hs]
  exact lL0_stencil_line _ _ _ _ _ h2 hn
theorem yR0_stencil (D : Disc2D α ι) (κ : α) (hs : D.scheme = .kappa κ) (q : ι → ℕ → ℕ → α) (k : ι)
    (i : ℕ) {j : ℕ} (h1 : 1 ≤ j) (hn : j + 2 ≤ D.mesh.ny) :
    D.yR0 q k i j = D.pdata q k i j - (1 - κ) / 4 * (D.pdata q k i (j + 1) - D.pdata q k i j)
      - (1 + κ) / 4 * (D.pdata q k i j - D.pdata q k i (j - 1)) := by
  rw [yR0_line, hs]
  exact lR0_stencil_line _ _ _ _ _ h1 hn

/-- the index ranges are sharp: at face `1` (resp. `nx`) of an open pair the left state is one-sided, at
face `0` (resp. `nx-1`) the right state is one-sided — the boundary difference is `0`, not a cell difference -/
theorem x_stencil_open (D : Disc2D α ι) (κ : α) (hs : D.scheme = .kappa κ) (lo hi : (ι → α) → (ι → α))
    (hbc : D.bcx = .open lo hi) (hnx : 2 ≤ D.mesh.nx) (q : ι → ℕ → ℕ → α) (k : ι) (j : ℕ) :
    D.xL0 q k 1 j = D.pdata q k 0 j + (1 + κ) / 4 * (D.pdata q k 1 j - D.pdata q k 0 j)
    ∧ D.xL0 q k D.mesh.nx j = D.pdata q k (D.mesh.nx - 1) j
        + (1 - κ) / 4 * (D.pdata q k (D.mesh.nx - 1) j - D.pdata q k (D.mesh.nx - 2) j)
    ∧ D.xR0 q k 0 j = D.pdata q k 0 j - (1 - κ) / 4 * (D.pdata q k 1 j - D.pdata q k 0 j)
    ∧ D.xR0 q k (D.mesh.nx - 1) j = D.pdata q k (D.mesh.nx - 1) j
        - (1 + κ) / 4 * (D.pdata q k (D.mesh.nx - 1) j - D.pdata q k (D.mesh.nx - 2) j) := by
  simp only [xL0_line, xR0_line, hs, hbc, BCPair.isPer]
  exact ⟨lL0_stencil_open_lo _ _ _ _ hnx, lL0_stencil_open_hi _ _ _ _ hnx,
    lR0_stencil_open_lo _ _ _ _ hnx, lR0_stencil_open_hi _ _ _ _ hnx⟩
theorem y_stencil_open (D : Disc2D α ι) (κ : α) (hs : D.scheme = .kappa κ) (lo hi : (ι → α) → (ι → α))
    (hbc : D.bcy = .open lo hi) (hny : 2 ≤ D.mesh.ny) (q : ι → ℕ → ℕ → α) (k : ι) (i : ℕ) :
    D.yL0 q k i 1 = D.pdata q k i 0 + (1 + κ) / 4 * (D.pdata q k i 1 - D.pdata q k i 0)
    ∧ D.yL0 q k i D.mesh.ny = D.pdata q k i (D.mesh.ny - 1)
        + (1 - κ) / 4 * (D.pdata q k i (D.mesh.ny - 1) - D.pdata q k i (D.mesh.ny - 2))
    ∧ D.yR0 q k i 0 = D.pdata q k i 0 - (1 - κ) / 4 * (D.pdata q k i 1 - D.pdata q k i 0)
    ∧ D.yR0 q k i (D.mesh.ny - 1) = D.pdata q k i (D.mesh.ny - 1)
        - (1 + κ) / 4 * (D.pdata q k i (D.mesh.ny - 1) - D.pdata q k i (D.mesh.ny - 2)) := by
  simp only [yL0_line, yR0_line, hs, hbc, BCPair.isPer]
  exact ⟨lL0_stencil_open_lo _ _ _ _ hny, lL0_stencil_open_hi _ _ _ _ hny,
    lR0_stencil_open_lo _ _ _ _ hny, lR0_stencil_open_hi _ _ _ _ hny⟩

/-- periodic closure in x: the κ stencil holds at **every** x-face `0 ≤ i ≤ nx`, indices modulo `nx`
(all `nx ≥ 1`) -/
theorem x_stencil_periodic (D : Disc2D α ι) (κ : α) (hs : D.scheme = .kappa κ) (hper : D.bcx = .periodic)
    (hnx : D.mesh.nx ≠ 0) (q : ι → ℕ → ℕ → α) (k : ι) {i : ℕ} (j : ℕ) (hi : i ≤ D.mesh.nx) :
    D.xL q k i j = D.pdata q k ((i + D.mesh.nx - 1) % D.mesh.nx) j
        + (1 - κ) / 4 * (D.pdata q k ((i + D.mesh.nx - 1) % D.mesh.nx) j
                          - D.pdata q k ((i + 2 * D.mesh.nx - 2) % D.mesh.nx) j)
        + (1 + κ) / 4 * (D.pdata q k (i % D.mesh.nx) j - D.pdata q k ((i + D.mesh.nx - 1) % D.mesh.nx) j)
    ∧ D.xR q k i j = D.pdata q k (i % D.mesh.nx) j
        - (1 - κ) / 4 * (D.pdata q k ((i + 1) % D.mesh.nx) j - D.pdata q k (i % D.mesh.nx) j)
        - (1 + κ) / 4 * (D.pdata q k (i % D.mesh.nx) j - D.pdata q k ((i + D.mesh.nx - 1) % D.mesh.nx) j) := by
  rw [xL_line, xR_line, hs, hper]
  exact ⟨lL_stencil_periodic hnx _ _ (fun l a => D.pdata q l a j) k hi,
    lR_stencil_periodic hnx _ _ (fun l a => D.pdata q l a j) k hi⟩
theorem y_stencil_periodic (D : Disc2D α ι) (κ : α) (hs : D.scheme = .kappa κ) (hper : D.bcy = .periodic)
    (hny : D.mesh.ny ≠ 0) (q : ι → ℕ → ℕ → α) (k : ι) (i : ℕ) {j : ℕ} (hj : j ≤ D.mesh.ny) :
    D.yL q k i j = D.pdata q k i ((j + D.mesh.ny - 1) % D.mesh.ny)
        + (1 - κ) / 4 * (D.pdata q k i ((j + D.mesh.ny - 1) % D.mesh.ny)
                          - D.pdata q k i ((j + 2 * D.mesh.ny - 2) % D.mesh.ny))
        + (1 + κ) / 4 * (D.pdata q k i (j % D.mesh.ny) - D.pdata q k i ((j + D.mesh.ny - 1) % D.mesh.ny))
    ∧ D.yR q k i j = D.pdata q k i (j % D.mesh.ny)
        - (1 - κ) / 4 * (D.pdata q k i ((j + 1) % D.mesh.ny) - D.pdata q k i (j % D.mesh.ny))
        - (1 + κ) / 4 * (D.pdata q k i (j % D.mesh.ny) - D.pdata q k i ((j + D.mesh.ny - 1) % D.mesh.ny)) := by
  rw [yL_line, yR_line, hs, hper]
  exact ⟨lL_stencil_periodic hny _ _ (fun l b => D.pdata q l i b) k hj,
    lR_stencil_periodic hny _ _ (fun l b => D.pdata q l i b) k hj⟩

/-! ### (ii) linear data are reproduced exactly at the faces whose stencil is interior, for every κ -/

/-- line version: cell centres `(a + 1/2) h`, face `a` at `a h`; any weights with `km + kp = 1/2`
(`2 ≠ 0`: in characteristic 2 the statement is false, `1/2 = 0` there) -/
theorem lL0_linear (n : ℕ) (per : Bool) (km kp : α) (h2ne : (2 : α) ≠ 0) (hk : km + kp = 1 / 2) (d : ℕ → α) (A B h : α)
    (hd : ∀ a, a < n → d a = A + B * ((a : α) * h + 1 / 2 * h)) {a : ℕ} (h2 : 2 ≤ a) (hn : a + 1 ≤ n) :
    C15.lL0 n per km kp d a = A + B * ((a : α) * h) := by
  obtain ⟨b, rfl⟩ : ∃ b, a = b + 2 := ⟨a - 2, by omega⟩
  rw [lL0_stencil_line n per km kp d h2 hn, show b + 2 - 1 = b + 1 from rfl, show b + 2 - 2 = b from rfl,
    hd (b + 1) (by omega), hd b (by omega), hd (b + 2) (by omega)]
  have hkp : kp = 1 / 2 - km := by rw [← hk]; ring
  rw [hkp]
  push_cast
  field_simp
  ring
theorem lR0_linear (n : ℕ) (per : Bool) (km kp : α) (h2ne : (2 : α) ≠ 0) (hk : km + kp = 1 / 2) (d : ℕ → α) (A B h : α)
    (hd : ∀ a, a < n → d a = A + B * ((a : α) * h + 1 / 2 * h)) {a : ℕ} (h1 : 1 ≤ a) (hn : a + 2 ≤ n) :
    C15.lR0 n per km kp d a = A + B * ((a : α) * h) := by
  obtain ⟨b, rfl⟩ : ∃ b, a = b + 1 := ⟨a - 1, by omega⟩
  rw [lR0_stencil_line n per km kp d h1 hn, show b + 1 - 1 = b from rfl,
    hd (b + 1) (by omega), hd b (by omega), hd (b + 1 + 1) (by omega)]
  have hkp : kp = 1 / 2 - km := by rw [← hk]; ring
  rw [hkp]
  push_cast
  field_simp
  ring

theorem kappa_weights (h2ne : (2 : α) ≠ 0) (κ : α) :
    (Scheme2D.kappa κ).km + (Scheme2D.kappa κ).kp = 1 / 2 := by
  have h4 : (4 : α) ≠ 0 := by
    have : (4 : α) = 2 * 2 := by norm_num
    rw [this]; exact mul_ne_zero h2ne h2ne
  simp only [Scheme2D.km, Scheme2D.kp]
  field_simp
  ring

/-- **data linear in x** (`pdata = A + B·xc` along row `j`; e.g. identity `cons2prim` and `q = A + B·xc`) are
reproduced exactly, `A + B·x_f` with `x_f = i·dx`, by the left state at the x-faces `2 ≤ i ≤ nx-1` and by the
right state at the x-faces `1 ≤ i ≤ nx-2`, for every κ, whatever the boundary treatment in x and in y
(no hypothesis on `bcx`, `bcy`, `dx`) -/
theorem x_linear_exact (D : Disc2D α ι) (h2ne : (2 : α) ≠ 0) (κ : α) (hs : D.scheme = .kappa κ)
    (q : ι → ℕ → ℕ → α) (k : ι) (A B : α) (j : ℕ)
    (hd : ∀ a, a < D.mesh.nx → D.pdata q k a j = A + B * D.mesh.xc a) :
    (∀ i, 2 ≤ i → i + 1 ≤ D.mesh.nx →
        D.xL0 q k i j = A + B * ((i : α) * D.mesh.dx) ∧ D.xL q k i j = A + B * ((i : α) * D.mesh.dx))
    ∧ (∀ i, 1 ≤ i → i + 2 ≤ D.mesh.nx →
        D.xR0 q k i j = A + B * ((i : α) * D.mesh.dx) ∧ D.xR q k i j = A + B * ((i : α) * D.mesh.dx)) := by
  have hk : D.scheme.km + D.scheme.kp = 1 / 2 := by rw [hs]; exact kappa_weights h2ne κ
  have hL : ∀ i, 2 ≤ i → i + 1 ≤ D.mesh.nx → D.xL0 q k i j = A + B * ((i : α) * D.mesh.dx) :=
    fun i h2 hn => lL0_linear _ _ _ _ h2ne hk (fun a => D.pdata q k a j) A B D.mesh.dx hd h2 hn
  have hR : ∀ i, 1 ≤ i → i + 2 ≤ D.mesh.nx → D.xR0 q k i j = A + B * ((i : α) * D.mesh.dx) :=
    fun i h1 hn => lR0_linear _ _ _ _ h2ne hk (fun a => D.pdata q k a j) A B D.mesh.dx hd h1 hn
  refine ⟨fun i h2 hn => ⟨hL i h2 hn, ?_⟩, fun i h1 hn => ⟨hR i h1 hn, ?_⟩⟩
  · rw [xL_interior D q k j (by omega)]; exact hL i h2 hn
  · rw [xR_interior D q k j (by omega)]; exact hR i h1 hn

/-- **data linear in y** along column `i`: exact at the y-faces `2 ≤ j ≤ ny-1` (state from below) and
`1 ≤ j ≤ ny-2` (state from above), `y_f = j·dy` -/
theorem y_linear_exact (D : Disc2D α ι) (h2ne : (2 : α) ≠ 0) (κ : α) (hs : D.scheme = .kappa κ)
    (q : ι → ℕ → ℕ → α) (k : ι) (A B : α) (i : ℕ)
    (hd : ∀ b, b < D.mesh.ny → D.pdata q k i b = A + B * D.mesh.yc b) :
    (∀ j, 2 ≤ j → j + 1 ≤ D.mesh.ny →
        D.yL0 q k i j = A + B * ((j : α) * D.mesh.dy) ∧ D.yL q k i j = A + B * ((j : α) * D.mesh.dy))
    ∧ (∀ j, 1 ≤ j → j + 2 ≤ D.mesh.ny →
        D.yR0 q k i j = A + B * ((j : α) * D.mesh.dy) ∧ D.yR q k i j = A + B * ((j : α) * D.mesh.dy)) := by
  have hk : D.scheme.km + D.scheme.kp = 1 / 2 := by rw [hs]; exact kappa_weights h2ne κ
  have hL : ∀ j, 2 ≤ j → j + 1 ≤ D.mesh.ny → D.yL0 q k i j = A + B * ((j : α) * D.mesh.dy) :=
    fun j h2 hn => lL0_linear _ _ _ _ h2ne hk (fun b => D.pdata q k i b) A B D.mesh.dy hd h2 hn
  have hR : ∀ j, 1 ≤ j → j + 2 ≤ D.mesh.ny → D.yR0 q k i j = A + B * ((j : α) * D.mesh.dy) :=
    fun j h1 hn => lR0_linear _ _ _ _ h2ne hk (fun b => D.pdata q k i b) A B D.mesh.dy hd h1 hn
  refine ⟨fun j h2 hn => ⟨hL j h2 hn, ?_⟩, fun j h1 hn => ⟨hR j h1 hn, ?_⟩⟩
  · rw [yL_interior D q k i (by omega)]; exact hL j h2 hn
  · rw [yR_interior D q k i (by omega)]; exact hR j h1 hn

/-- fully linear data `A + B·x + C·y`: both face states of every x-face `2 ≤ i ≤ nx-2` of row `j` equal
`A + B·x_f + C·yc_j`, both face states of every y-face `2 ≤ j ≤ ny-2` of column `i` equal `A + B·xc_i + C·y_f`
— the two states of the face coincide, so a consistent flux sees the exact point value -/
theorem xy_linear_exact (D : Disc2D α ι) (h2ne : (2 : α) ≠ 0) (κ : α) (hs : D.scheme = .kappa κ)
    (q : ι → ℕ → ℕ → α) (k : ι) (A B C : α)
    (hd : ∀ a b, a < D.mesh.nx → b < D.mesh.ny → D.pdata q k a b = A + B * D.mesh.xc a + C * D.mesh.yc b) :
    (∀ i j, 2 ≤ i → i + 2 ≤ D.mesh.nx → j < D.mesh.ny →
        D.xL q k i j = A + B * ((i : α) * D.mesh.dx) + C * D.mesh.yc j
        ∧ D.xR q k i j = A + B * ((i : α) * D.mesh.dx) + C * D.mesh.yc j)
    ∧ (∀ i j, i < D.mesh.nx → 2 ≤ j → j + 2 ≤ D.mesh.ny →
        D.yL q k i j = A + B * D.mesh.xc i + C * ((j : α) * D.mesh.dy)
        ∧ D.yR q k i j = A + B * D.mesh.xc i + C * ((j : α) * D.mesh.dy)) := by
  constructor
  · intro i j h2 hn hj
    obtain ⟨hL, hR⟩ := x_linear_exact D h2ne κ hs q k (A + C * D.mesh.yc j) B j
      (fun a ha => by rw [hd a j ha hj]; ring)
    rw [(hL i h2 (by omega)).2, (hR i (by omega) hn).2]
    constructor <;> ring
  · intro i j hi h2 hn
    obtain ⟨hL, hR⟩ := y_linear_exact D h2ne κ hs q k (A + B * D.mesh.xc i) C i
      (fun b hb => by rw [hd i b hi hb])
    rw [(hL j h2 (by omega)).2, (hR j (by omega) hn).2]
    exact ⟨rfl, rfl⟩

/-! ### non-vacuity and sharpness (scalar field, identity `cons2prim`, `ℚ`) -/

/-- a 5 × 4 mesh on `[0,5] × [0,2]`, κ = 1/3, open in x, periodic in y, data `1 + 2 x - 3 y` -/
def exD (s : Scheme2D ℚ) : Disc2D ℚ Unit :=
  { mesh := { nx := 5, ny := 4, lx := 5, ly := 2 }, scheme := s,
    bcx := .open (fun w => w) (fun w => w), bcy := .periodic, c2p := fun w => w,
    flux := fun nx ny L R => fun k => (nx + ny) * (L k + R k) / 2 }
def exQ : Unit → ℕ → ℕ → ℚ := fun _ i j => 1 + 2 * (exD .first).mesh.xc i + (-3) * (exD .first).mesh.yc j

/-- `xy_linear_exact` applies: x-face `(2, 1)` (at `x = 2`, row centre `y = 3/4`) and y-face `(3, 2)` -/
example : (exD (.kappa (1/3))).xL exQ () 2 1 = 1 + 2 * 2 + (-3) * (3/4)
    ∧ (exD (.kappa (1/3))).xR exQ () 2 1 = 1 + 2 * 2 + (-3) * (3/4)
    ∧ (exD (.kappa (1/3))).yL exQ () 3 2 = 1 + 2 * (7/2) + (-3) * 1
    ∧ (exD (.kappa (1/3))).yR exQ () 3 2 = 1 + 2 * (7/2) + (-3) * 1 := by
  obtain ⟨hx, hy⟩ := xy_linear_exact (exD (.kappa (1/3))) two_ne_zero (1/3) rfl exQ () 1 2 (-3)
    (fun _ _ _ _ => rfl)
  have h1 := hx 2 1 (by decide) (by decide) (by decide)
  have h2 := hy 3 2 (by decide) (by decide) (by decide)
  have e1 : ((2 : ℕ) : ℚ) * (exD (.kappa (1/3))).mesh.dx = 2 := by norm_num [exD, Mesh2D.dx]
  have e2 : (exD (.kappa (1/3))).mesh.yc 1 = 3/4 := by norm_num [exD, Mesh2D.yc, Mesh2D.dy]
  have e3 : (exD (.kappa (1/3))).mesh.xc 3 = 7/2 := by norm_num [exD, Mesh2D.xc, Mesh2D.dx]
  have e4 : ((2 : ℕ) : ℚ) * (exD (.kappa (1/3))).mesh.dy = 1 := by norm_num [exD, Mesh2D.dy]
  rw [e1, e2] at h1
  rw [e3, e4] at h2
  exact ⟨h1.1, h1.2, h2.1, h2.2⟩

/-- the first-order scheme is **not** exact on linear data (hence `scheme = kappa κ` above): at the x-face
`(2, 1)` it returns the cell value at `x = 3/2` -/
example : (exD .first).xL exQ () 2 1 ≠ 1 + 2 * 2 + (-3) * (3/4) := by
  rw [xL_interior _ _ _ _ (by decide), ((x_first (exD .first) rfl exQ () 2 1).1 (by decide))]
  norm_num [Disc2D.pdata, exD, exQ, Mesh2D.xc, Mesh2D.yc, Mesh2D.dx, Mesh2D.dy]

/-- the range `2 ≤ i` is sharp: at the x-face `(1, 1)` next to the open boundary the κ = 1/3 left state of the
linear data is not the point value at `x = 1` -/
example : (exD (.kappa (1/3))).xL0 exQ () 1 1 ≠ 1 + 2 * 1 + (-3) * (3/4) := by
  rw [(x_stencil_open (exD (.kappa (1/3))) (1/3) rfl _ _ rfl (by decide) exQ () 1).1]
  norm_num [Disc2D.pdata, exD, exQ, Mesh2D.xc, Mesh2D.yc, Mesh2D.dx, Mesh2D.dy]

/-- the stencil theorems apply on this mesh (faces `i = 2 … 4` for `xL0`, `i = 1 … 3` for `xR0`, all y-faces
by periodicity) -/
example : (exD (.kappa (1/3))).xL0 exQ () 4 0
      = (exD (.kappa (1/3))).pdata exQ () 3 0
        + (1 - 1/3) / 4 * ((exD (.kappa (1/3))).pdata exQ () 3 0 - (exD (.kappa (1/3))).pdata exQ () 2 0)
        + (1 + 1/3) / 4 * ((exD (.kappa (1/3))).pdata exQ () 4 0 - (exD (.kappa (1/3))).pdata exQ () 3 0) :=
  xL0_stencil (exD (.kappa (1/3))) (1/3) rfl exQ () 0 (by decide) (by decide)
example : (exD (.kappa (1/3))).xR0 exQ () 1 0
      = (exD (.kappa (1/3))).pdata exQ () 1 0
        - (1 - 1/3) / 4 * ((exD (.kappa (1/3))).pdata exQ () 2 0 - (exD (.kappa (1/3))).pdata exQ () 1 0)
        - (1 + 1/3) / 4 * ((exD (.kappa (1/3))).pdata exQ () 1 0 - (exD (.kappa (1/3))).pdata exQ () 0 0) :=
  xR0_stencil (exD (.kappa (1/3))) (1/3) rfl exQ () 0 (by decide) (by decide)
/-- periodic in y: bottom face `j = 0` of column 2 reads the rows `3, 2` (left state) and `0, 1, 3` (right) -/
example : (exD (.kappa (1/3))).yL exQ () 2 0
      = (exD (.kappa (1/3))).pdata exQ () 2 3
        + (1 - 1/3) / 4 * ((exD (.kappa (1/3))).pdata exQ () 2 3 - (exD (.kappa (1/3))).pdata exQ () 2 2)
        + (1 + 1/3) / 4 * ((exD (.kappa (1/3))).pdata exQ () 2 0 - (exD (.kappa (1/3))).pdata exQ () 2 3) :=
  (y_stencil_periodic (exD (.kappa (1/3))) (1/3) rfl rfl (by decide) exQ () 2 (by decide)).1
/-- constants: a row-wise constant field is reproduced at every x-face of the row -/
example (i : ℕ) (h0 : i ≠ 0) (hi : i ≤ 5) :
    (exD (.kappa (1/3))).xL0 (fun _ _ j => (j : ℚ)) () i 2 = 2 :=
  ((const_exact2d (exD (.kappa (1/3))) (fun _ _ j => (j : ℚ)) () 2).1 2 (by decide) (fun _ _ => rfl)).1 i h0 hi

end Flowdyn.C11
