/-
C13 (part g) — reflection and change of units for **whole solves with the directive `dtlocal`** (per-cell time steps).

C13d proves `solve_units*` and `solve_mirror*` for the explicit integrators with a GLOBAL (scalar) time step
(`globalCfg`: `dtlocal = false`).  Here the time-step values are per-cell arrays `ℕ → α` (C14b `stageCfg`, `rkCfgD`,
`lsCfgD`, `explicitCfgD`, and `rk2CfgD` below): `calcDt t q c` is the step of cell `c`, `minDt` its minimum, a residual
is scaled cell by cell (`mulCells d`), the time advances by the minimum, and a scalar step `a` (side steps to the save
times, or every step when `dtlocal = false`) is the constant array.  All theorems hold for EITHER value of the
directive `dtlocal`; `dtlocal = true` is the case that was only checked by the sweep.

(0) `rk2CfgD`: the midpoint rule with time-step values in `D` (`rk2Cfg_eq_rk2CfgD`: C14b `rk2Cfg` is the scalar instance).
(1) change of units, abstract: `stageCfg_hom_time`, `solve_units_stage` (C07c morphism with `ft = (τ * ·)`, any map
    `fD` on time-step values), `UnitsHomD`, `solve_units_rk_local / _ls_local / _explicit_local / _rk2_local`.
(2) change of units, the model's `Disc1D.rhs` (C13d `UnitsPair`): `fD d = fun c => l / b * d c`,
    `unitsHomD_disc`, `solve_units_local` (any Butcher table), `solve_units_disc_ls_local / _explicit_local / _rk2_local`;
    `solve_units_burgers_local` (+ `_ls`, `_explicit`, `_rk2`): all hypotheses discharged for the Burgers model with
    its cell-wise CFL rule `burgersDtCells` (whose minimum is C13d `burgersCfl`), any mesh.
(3) reflection: `mirrorD` (reversal of a per-cell array), `clampD`; `MirrorEquiv` (the per-cell time-step array of the
    mirror problem on the mirror data is the mirrored array; locality; the minimum does not see the order of the cells);
    `solve_mirror_stage` (two morphisms into the continued mirror problem, as C13d `solve_mirror_global`),
    `solve_mirror_local` (any Butcher table), `solve_mirror_ls_local / _explicit_local / _rk2_local`;
    `solve_mirror_burgers_local` (+ `_ls`, `_explicit`, `_rk2`).
(4) non-vacuity: concrete 3-cell instances with `dtlocal = true` (uniform and non-uniform mesh, MUSCL/minmod, Dirichlet
    states, Heun's table); an evaluated run on the non-uniform mesh (`exCfg`: 2 iterations, 2 snapshots; it differs
    from the global-step run) whose mirror (`exCfg'`) and rescaled (`exCfgU`) runs are evaluated independently of the
    theorems and agree with `ex_mirrored`, `ex_scaled`.
-/
import Flowdyn.Props.C13d

namespace Flowdyn.C13g
open Flowdyn Flowdyn.C07 Flowdyn.C13 Flowdyn.C14

/-! ## (0) the midpoint rule with time-step values in `D` -/
section cfg
variable {α : Type} [Field α] {V : Type} [AddCommGroup V] [Module α V] {D : Type}

/-- `rk2` with time-step values in `D`: `scOf d` scales a residual by `d`, `schOf d` by `d / 2`
(`add_res(pfield, dtloc/2)`); the time advances by `minDt d / 2`, then by `minDt d` -/
def rk2CfgD (R : α → V → V) (minDt : D → α) (scOf schOf : D → V → V) :=
  stageCfg (fun d t q => rk2StepG R (minDt d) (scOf d) (schOf d) t q) (minDt := minDt)

/-- C14b `rk2Cfg` (global step) is the instance `D = α` -/
theorem rk2Cfg_eq_rk2CfgD (R : α → V → V) (dtOf : α → V → α) (tt : Option α) (mi : Option ℕ) (ts : List α) (i0 : ℕ)
    (mons : List (ℕ × (α → V → α))) :
    rk2Cfg R dtOf tt mi ts i0 mons
      = rk2CfgD R id (fun d v => d • v) (fun d v => (d / 2) • v) dtOf id false tt mi ts i0 mons := rfl

end cfg

/-! ## (1) change of units, any stage loop, time-step values in `D` -/
section unitsStage
variable {α : Type} [Field α] [LinearOrder α] [IsStrictOrderedRing α]

/-- morphism of stage-loop configurations with `ft = (τ * ·)`: data map `T`, time-step map `fD` with
`minDt' (fD d) = τ minDt d` and `scalar' (τ a) = fD (scalar a)` -/
theorem stageCfg_hom_time {V V' D D' : Type} (τ : α) (hτ : 0 < τ) (T : V → V') (fD : D → D')
    (stepD : D → α → V → StepOut α V) (stepD' : D' → α → V' → StepOut α V')
    (hstep : ∀ d t q, (stepD' (fD d) (τ * t) (T q)).data = T (stepD d t q).data
      ∧ (stepD' (fD d) (τ * t) (T q)).time = τ * (stepD d t q).time)
    (calcDt : α → V → D) (calcDt' : α → V' → D') (hdt : ∀ t q, calcDt' (τ * t) (T q) = fD (calcDt t q))
    (minDt : D → α) (minDt' : D' → α) (hmin : ∀ d, minDt' (fD d) = τ * minDt d)
    (scalar : α → D) (scalar' : α → D') (hscal : ∀ a, scalar' (τ * a) = fD (scalar a)) (dtlocal : Bool)
    (mons : List (ℕ × (α → V → α))) (mons' : List (ℕ × (α → V' → α))) (fm : ℕ → α → α)
    (hml : mons'.length = mons.length)
    (hmon : ∀ (i : ℕ) (m : ℕ × (α → V → α)) (m' : ℕ × (α → V' → α)), mons[i]? = some m → mons'[i]? = some m' →
      m'.1 = m.1 ∧ ∀ t q, m'.2 (τ * t) (T q) = fm i (m.2 t q))
    (tottime : Option α) (maxit : Option ℕ) (tsave : List α) (itstart : ℕ) :
    CfgHom (stageCfg stepD calcDt minDt scalar dtlocal tottime maxit tsave itstart mons)
      (stageCfg stepD' calcDt' minDt' scalar' dtlocal (tottime.map (τ * ·)) maxit (tsave.map (τ * ·)) itstart mons')
      id (τ * ·) T fD fm where
  time := timeMap_mul τ hτ
  step := fun s d t q => by
    simp only [stageCfg, id, (hstep d t q).1, (hstep d t q).2]
  keep := fun _ _ => rfl
  calcDt := fun t q => hdt t q
  minDt := fun d => hmin d
  scalar := fun a => hscal a
  dtlocal := rfl
  tottime := rfl
  maxit := rfl
  tsave := rfl
  itstart := rfl
  monitors_length := hml
  monitors := hmon

/-- **whole solves under a change of units, any stage loop, local or global time step** -/
theorem solve_units_stage {V V' D D' : Type} (τ : α) (hτ : 0 < τ) (T : V → V') (fD : D → D')
    (stepD : D → α → V → StepOut α V) (stepD' : D' → α → V' → StepOut α V')
    (hstep : ∀ d t q, (stepD' (fD d) (τ * t) (T q)).data = T (stepD d t q).data
      ∧ (stepD' (fD d) (τ * t) (T q)).time = τ * (stepD d t q).time)
    (calcDt : α → V → D) (calcDt' : α → V' → D') (hdt : ∀ t q, calcDt' (τ * t) (T q) = fD (calcDt t q))
    (minDt : D → α) (minDt' : D' → α) (hmin : ∀ d, minDt' (fD d) = τ * minDt d)
    (scalar : α → D) (scalar' : α → D') (hscal : ∀ a, scalar' (τ * a) = fD (scalar a)) (dtlocal : Bool)
    (mons : List (ℕ × (α → V → α))) (mons' : List (ℕ × (α → V' → α))) (fm : ℕ → α → α)
    (hml : mons'.length = mons.length)
    (hmon : ∀ (i : ℕ) (m : ℕ × (α → V → α)) (m' : ℕ × (α → V' → α)), mons[i]? = some m → mons'[i]? = some m' →
      m'.1 = m.1 ∧ ∀ t q, m'.2 (τ * t) (T q) = fm i (m.2 t q))
    (tottime : Option α) (maxit : Option ℕ) (tsave : List α) (itstart : ℕ) (fuel : ℕ) (t0 : α) (q0 : V) :
    (stageCfg stepD' calcDt' minDt' scalar' dtlocal (tottime.map (τ * ·)) maxit (tsave.map (τ * ·)) itstart mons').run
        fuel () (τ * t0) (T q0)
      = (DrvState.map id (τ * ·) T fm
          ((stageCfg stepD calcDt minDt scalar dtlocal tottime maxit tsave itstart mons).run fuel () t0 q0).1,
         ((stageCfg stepD calcDt minDt scalar dtlocal tottime maxit tsave itstart mons).run fuel () t0 q0).2) :=
  run_equivariant (stageCfg_hom_time τ hτ T fD stepD stepD' hstep calcDt calcDt' hdt minDt minDt' hmin scalar scalar'
    hscal dtlocal mons mons' fm hml hmon tottime maxit tsave itstart) fuel () t0 q0

variable {V V' D : Type} [AddCommGroup V] [Module α V] [AddCommGroup V'] [Module α V']

/-- the hypotheses on the pair of problems shared by the four integrators, time-step values in `D`:
`T` additive and homogeneous, `R' (τ t) (T q) = τ⁻¹ • T (R t q)`; `fD` is the action of the change of units on the
time-step values: the scaling by `fD d` of a residual in the new units is the image of the scaling by `d`, the minimum
is multiplied by `τ`, the scalar step `τ a` is the image of the scalar step `a`; the time-step rule is equivariant;
monitor `i` of the image problem has the same frequency and sees `fm i` of the value -/
structure UnitsHomD (τ : α) (T : V → V') (fD : D → D) (R : α → V → V) (R' : α → V' → V') (minDt : D → α)
    (scOf : D → V → V) (scOf' : D → V' → V') (scalar : α → D) (calcDt : α → V → D) (calcDt' : α → V' → D)
    (mons : List (ℕ × (α → V → α))) (mons' : List (ℕ × (α → V' → α))) (fm : ℕ → α → α) : Prop where
  pos : 0 < τ
  add : ∀ x y, T (x + y) = T x + T y
  smul : ∀ (a : α) x, T (a • x) = a • T x
  rhs : ∀ t q, R' (τ * t) (T q) = τ⁻¹ • T (R t q)
  sc : ∀ d x, scOf' (fD d) (τ⁻¹ • T x) = T (scOf d x)
  min : ∀ d, minDt (fD d) = τ * minDt d
  scal : ∀ a, scalar (τ * a) = fD (scalar a)
  dt : ∀ t q, calcDt' (τ * t) (T q) = fD (calcDt t q)
  mon_length : mons'.length = mons.length
  mon : ∀ (i : ℕ) (m : ℕ × (α → V → α)) (m' : ℕ × (α → V' → α)), mons[i]? = some m → mons'[i]? = some m' →
      m'.1 = m.1 ∧ ∀ t q, m'.2 (τ * t) (T q) = fm i (m.2 t q)

variable {τ : α} {T : V → V'} {fD : D → D} {R : α → V → V} {R' : α → V' → V'} {minDt : D → α}
  {scOf : D → V → V} {scOf' : D → V' → V'} {scalar : α → D} {calcDt : α → V → D} {calcDt' : α → V' → D}
  {mons : List (ℕ × (α → V → α))} {mons' : List (ℕ × (α → V' → α))} {fm : ℕ → α → α}

omit [IsStrictOrderedRing α] in
theorem UnitsHomD.intertwinesT (h : UnitsHomD τ T fD R R' minDt scOf scOf' scalar calcDt calcDt' mons mons' fm)
    (d : D) : IntertwinesT τ T R R' (scOf d) (scOf' (fD d)) :=
  ⟨h.add, h.smul, h.rhs, h.sc d⟩

/-- **generic Butcher loop, any table, local or global time step**: the solve of the problem in the new units (stop and
save times `× τ`, same `maxit`, `itstart`, same directive `dtlocal`) from `(τ t0, T q0)` is the image of the solve -/
theorem solve_units_rk_local (tbl : List (List α))
    (h : UnitsHomD τ T fD R R' minDt scOf scOf' scalar calcDt calcDt' mons mons' fm) (dtlocal : Bool)
    (tottime : Option α) (maxit : Option ℕ) (tsave : List α) (itstart : ℕ) (fuel : ℕ) (t0 : α) (q0 : V) :
    (rkCfgD tbl R' minDt scOf' calcDt' scalar dtlocal (tottime.map (τ * ·)) maxit (tsave.map (τ * ·)) itstart mons').run
        fuel () (τ * t0) (T q0)
      = (DrvState.map id (τ * ·) T fm
          ((rkCfgD tbl R minDt scOf calcDt scalar dtlocal tottime maxit tsave itstart mons).run fuel () t0 q0).1,
         ((rkCfgD tbl R minDt scOf calcDt scalar dtlocal tottime maxit tsave itstart mons).run fuel () t0 q0).2) :=
  solve_units_stage τ h.pos T fD _ _
    (fun d t q => by
      have e := rk_equivariant_time tbl τ T R R' _ _ (h.intertwinesT d) (minDt d) t q
      rw [h.min]
      exact ⟨e.1, e.2.1⟩)
    calcDt calcDt' h.dt minDt minDt h.min scalar scalar h.scal dtlocal mons mons' fm h.mon_length h.mon tottime maxit
    tsave itstart fuel t0 q0

/-- low-storage loop, any coefficients, any sub-time convention, local or global time step -/
theorem solve_units_ls_local (tc : α → α) (bs : List α)
    (h : UnitsHomD τ T fD R R' minDt scOf scOf' scalar calcDt calcDt' mons mons' fm) (dtlocal : Bool)
    (tottime : Option α) (maxit : Option ℕ) (tsave : List α) (itstart : ℕ) (fuel : ℕ) (t0 : α) (q0 : V) :
    (lsCfgD tc bs R' minDt scOf' calcDt' scalar dtlocal (tottime.map (τ * ·)) maxit (tsave.map (τ * ·)) itstart
        mons').run fuel () (τ * t0) (T q0)
      = (DrvState.map id (τ * ·) T fm
          ((lsCfgD tc bs R minDt scOf calcDt scalar dtlocal tottime maxit tsave itstart mons).run fuel () t0 q0).1,
         ((lsCfgD tc bs R minDt scOf calcDt scalar dtlocal tottime maxit tsave itstart mons).run fuel () t0 q0).2) :=
  solve_units_stage τ h.pos T fD _ _
    (fun d t q => by
      have e := ls_equivariant_time tc bs τ T R R' _ _ (h.intertwinesT d) (minDt d) t q
      rw [h.min]
      exact ⟨e.1, e.2.1⟩)
    calcDt calcDt' h.dt minDt minDt h.min scalar scalar h.scal dtlocal mons mons' fm h.mon_length h.mon tottime maxit
    tsave itstart fuel t0 q0

/-- forward Euler, local or global time step -/
theorem solve_units_explicit_local
    (h : UnitsHomD τ T fD R R' minDt scOf scOf' scalar calcDt calcDt' mons mons' fm) (dtlocal : Bool)
    (tottime : Option α) (maxit : Option ℕ) (tsave : List α) (itstart : ℕ) (fuel : ℕ) (t0 : α) (q0 : V) :
    (explicitCfgD R' minDt scOf' calcDt' scalar dtlocal (tottime.map (τ * ·)) maxit (tsave.map (τ * ·)) itstart
        mons').run fuel () (τ * t0) (T q0)
      = (DrvState.map id (τ * ·) T fm
          ((explicitCfgD R minDt scOf calcDt scalar dtlocal tottime maxit tsave itstart mons).run fuel () t0 q0).1,
         ((explicitCfgD R minDt scOf calcDt scalar dtlocal tottime maxit tsave itstart mons).run fuel () t0 q0).2) :=
  solve_units_stage τ h.pos T fD _ _
    (fun d t q => by
      have e := explicit_equivariant_time τ T R R' _ _ (h.intertwinesT d) (minDt d) t q
      rw [h.min]
      exact ⟨e.1, e.2.1⟩)
    calcDt calcDt' h.dt minDt minDt h.min scalar scalar h.scal dtlocal mons mons' fm h.mon_length h.mon tottime maxit
    tsave itstart fuel t0 q0

/-- midpoint `rk2`, local or global time step: the half-step scalings `schOf`, `schOf'` are related like `scOf`, `scOf'` -/
theorem solve_units_rk2_local (schOf : D → V → V) (schOf' : D → V' → V')
    (h : UnitsHomD τ T fD R R' minDt scOf scOf' scalar calcDt calcDt' mons mons' fm)
    (hh : ∀ d x, schOf' (fD d) (τ⁻¹ • T x) = T (schOf d x)) (dtlocal : Bool)
    (tottime : Option α) (maxit : Option ℕ) (tsave : List α) (itstart : ℕ) (fuel : ℕ) (t0 : α) (q0 : V) :
    (rk2CfgD R' minDt scOf' schOf' calcDt' scalar dtlocal (tottime.map (τ * ·)) maxit (tsave.map (τ * ·)) itstart
        mons').run fuel () (τ * t0) (T q0)
      = (DrvState.map id (τ * ·) T fm
          ((rk2CfgD R minDt scOf schOf calcDt scalar dtlocal tottime maxit tsave itstart mons).run fuel () t0 q0).1,
         ((rk2CfgD R minDt scOf schOf calcDt scalar dtlocal tottime maxit tsave itstart mons).run fuel () t0 q0).2) :=
  solve_units_stage τ h.pos T fD _ _
    (fun d t q => by
      have e := rk2_equivariant_time τ T R R' _ _ _ _ (h.intertwinesT d) (hh d) (minDt d) t q
      rw [h.min]
      exact ⟨e.1, e.2.1⟩)
    calcDt calcDt' h.dt minDt minDt h.min scalar scalar h.scal dtlocal mons mons' fm h.mon_length h.mon tottime maxit
    tsave itstart fuel t0 q0

end unitsStage

/-! ## (2) change of units for the model's 1D operator, per-cell time steps -/
section units1d
variable {α : Type} [Field α] [LinearOrder α] [IsStrictOrderedRing α] {ι : Type}

/-- a per-cell time-step array in the new units: every cell `× τ` -/
def sclD (τ : α) (d : ℕ → α) : ℕ → α := fun c => τ * d c

/-- the half steps `dtloc / 2` of `rk2` -/
def halfD (d : ℕ → α) : ℕ → α := fun c => d c / 2

omit [LinearOrder α] [IsStrictOrderedRing α] in
/-- `dt_c * residual_c` in the new units is the rescaled `dt_c * residual_c`: the residual is data per unit time -/
theorem mulCells_units (τ : α) (hτ : τ ≠ 0) (s : ι → α) (d : ℕ → α) (x : ι → ℕ → α) :
    mulCells (sclD τ d) (τ⁻¹ • sclData s x) = sclData s (mulCells d x) := by
  funext k c
  show τ * d c * (τ⁻¹ * (s k * x k c)) = s k * (d c * x k c)
  field_simp

omit [LinearOrder α] [IsStrictOrderedRing α] in
theorem mulCells_half_units (τ : α) (hτ : τ ≠ 0) (s : ι → α) (d : ℕ → α) (x : ι → ℕ → α) :
    mulCells (halfD (sclD τ d)) (τ⁻¹ • sclData s x) = sclData s (mulCells (halfD d) x) := by
  funext k c
  show τ * d c / 2 * (τ⁻¹ * (s k * x k c)) = s k * (d c / 2 * x k c)
  field_simp

/-- the hypotheses of `solve_units_rk_local` … for a pair of discretisations in two systems of units (C13d `UnitsPair`),
per-cell time-step arrays, a scalar step being the constant array: what remains to be assumed is that the time-step
rule is multiplied by `l / b` in every cell, that `minDt` commutes with the multiplication by `l / b`, and that the
monitors see the rescaling through `fm` -/
theorem unitsHomD_disc {l b : α} {s p : ι → α} {D D' : Disc1D α ι} (h : UnitsPair l b s p D D')
    (calcDt calcDt' : α → (ι → ℕ → α) → (ℕ → α))
    (hdt : ∀ t q, calcDt' (l / b * t) (sclData s q) = sclD (l / b) (calcDt t q))
    (minDt : (ℕ → α) → α) (hmin : ∀ d, minDt (sclD (l / b) d) = l / b * minDt d)
    (mons mons' : List (ℕ × (α → (ι → ℕ → α) → α))) (fm : ℕ → α → α) (hml : mons'.length = mons.length)
    (hmon : ∀ (i : ℕ) (m m' : ℕ × (α → (ι → ℕ → α) → α)), mons[i]? = some m → mons'[i]? = some m' →
      m'.1 = m.1 ∧ ∀ t q, m'.2 (l / b * t) (sclData s q) = fm i (m.2 t q)) :
    UnitsHomD (l / b) (sclData s) (sclD (l / b)) (fun _ q => D.rhs q) (fun _ q => D'.rhs q) minDt mulCells mulCells
      (fun a _ => a) calcDt calcDt' mons mons' fm where
  pos := div_pos h.l_pos h.b_pos
  add := sclData_add s
  smul := sclData_smul s
  rhs := fun _ q => rhs_units_time h q
  sc := fun d x => mulCells_units _ (div_pos h.l_pos h.b_pos).ne' s d x
  min := hmin
  scal := fun _ => rfl
  dt := hdt
  mon_length := hml
  mon := hmon

variable {l b : α} {s p : ι → α} {D D' : Disc1D α ι} (h : UnitsPair l b s p D D')
  (calcDt calcDt' : α → (ι → ℕ → α) → (ℕ → α))
  (hdt : ∀ t q, calcDt' (l / b * t) (sclData s q) = sclD (l / b) (calcDt t q))
  (minDt : (ℕ → α) → α) (hmin : ∀ d, minDt (sclD (l / b) d) = l / b * minDt d)
  (mons mons' : List (ℕ × (α → (ι → ℕ → α) → α))) (fm : ℕ → α → α) (hml : mons'.length = mons.length)
  (hmon : ∀ (i : ℕ) (m m' : ℕ × (α → (ι → ℕ → α) → α)), mons[i]? = some m → mons'[i]? = some m' →
    m'.1 = m.1 ∧ ∀ t q, m'.2 (l / b * t) (sclData s q) = fm i (m.2 t q))
  (dtlocal : Bool) (tottime : Option α) (maxit : Option ℕ) (tsave : List α) (itstart : ℕ)
include h hdt hmin hml hmon

/-- **C13 (b) for whole solves with `dtlocal`** (either value of the directive), **generic Butcher loop (any table)**,
the operators being the model's `Disc1D.rhs` of the two discretisations: every cell advances with its own step
`calcDt t q c`, the time with `minDt`.  The solve in the new units from the rescaled data, with stop and save times
`× l / b`, is the rescaled solve (on every cell index), with the same flag, iteration counts and iteration tags, and
the times `× l / b` -/
theorem solve_units_local (tbl : List (List α)) (fuel : ℕ) (t0 : α) (q0 : ι → ℕ → α) :
    (rkCfgD tbl (fun _ q => D'.rhs q) minDt mulCells calcDt' (fun a _ => a) dtlocal (tottime.map (l / b * ·)) maxit
        (tsave.map (l / b * ·)) itstart mons').run fuel () (l / b * t0) (sclData s q0)
      = (DrvState.map id (l / b * ·) (sclData s) fm
          ((rkCfgD tbl (fun _ q => D.rhs q) minDt mulCells calcDt (fun a _ => a) dtlocal tottime maxit tsave itstart
            mons).run fuel () t0 q0).1,
         ((rkCfgD tbl (fun _ q => D.rhs q) minDt mulCells calcDt (fun a _ => a) dtlocal tottime maxit tsave itstart
            mons).run fuel () t0 q0).2) :=
  solve_units_rk_local tbl (unitsHomD_disc h calcDt calcDt' hdt minDt hmin mons mons' fm hml hmon) dtlocal tottime maxit
    tsave itstart fuel t0 q0

/-- low-storage loop with `dtlocal` -/
theorem solve_units_disc_ls_local (tc : α → α) (bs : List α) (fuel : ℕ) (t0 : α) (q0 : ι → ℕ → α) :
    (lsCfgD tc bs (fun _ q => D'.rhs q) minDt mulCells calcDt' (fun a _ => a) dtlocal (tottime.map (l / b * ·)) maxit
        (tsave.map (l / b * ·)) itstart mons').run fuel () (l / b * t0) (sclData s q0)
      = (DrvState.map id (l / b * ·) (sclData s) fm
          ((lsCfgD tc bs (fun _ q => D.rhs q) minDt mulCells calcDt (fun a _ => a) dtlocal tottime maxit tsave itstart
            mons).run fuel () t0 q0).1,
         ((lsCfgD tc bs (fun _ q => D.rhs q) minDt mulCells calcDt (fun a _ => a) dtlocal tottime maxit tsave itstart
            mons).run fuel () t0 q0).2) :=
  solve_units_ls_local tc bs (unitsHomD_disc h calcDt calcDt' hdt minDt hmin mons mons' fm hml hmon) dtlocal tottime
    maxit tsave itstart fuel t0 q0

/-- forward Euler with `dtlocal` -/
theorem solve_units_disc_explicit_local (fuel : ℕ) (t0 : α) (q0 : ι → ℕ → α) :
    (explicitCfgD (fun _ q => D'.rhs q) minDt mulCells calcDt' (fun a _ => a) dtlocal (tottime.map (l / b * ·)) maxit
        (tsave.map (l / b * ·)) itstart mons').run fuel () (l / b * t0) (sclData s q0)
      = (DrvState.map id (l / b * ·) (sclData s) fm
          ((explicitCfgD (fun _ q => D.rhs q) minDt mulCells calcDt (fun a _ => a) dtlocal tottime maxit tsave itstart
            mons).run fuel () t0 q0).1,
         ((explicitCfgD (fun _ q => D.rhs q) minDt mulCells calcDt (fun a _ => a) dtlocal tottime maxit tsave itstart
            mons).run fuel () t0 q0).2) :=
  solve_units_explicit_local (unitsHomD_disc h calcDt calcDt' hdt minDt hmin mons mons' fm hml hmon) dtlocal tottime
    maxit tsave itstart fuel t0 q0

/-- midpoint `rk2` with `dtlocal`: half steps `dtloc / 2` cell by cell -/
theorem solve_units_disc_rk2_local (fuel : ℕ) (t0 : α) (q0 : ι → ℕ → α) :
    (rk2CfgD (fun _ q => D'.rhs q) minDt mulCells (fun d => mulCells (halfD d)) calcDt' (fun a _ => a) dtlocal
        (tottime.map (l / b * ·)) maxit (tsave.map (l / b * ·)) itstart mons').run fuel () (l / b * t0) (sclData s q0)
      = (DrvState.map id (l / b * ·) (sclData s) fm
          ((rk2CfgD (fun _ q => D.rhs q) minDt mulCells (fun d => mulCells (halfD d)) calcDt (fun a _ => a) dtlocal
            tottime maxit tsave itstart mons).run fuel () t0 q0).1,
         ((rk2CfgD (fun _ q => D.rhs q) minDt mulCells (fun d => mulCells (halfD d)) calcDt (fun a _ => a) dtlocal
            tottime maxit tsave itstart mons).run fuel () t0 q0).2) :=
  solve_units_rk2_local _ _ (unitsHomD_disc h calcDt calcDt' hdt minDt hmin mons mons' fm hml hmon)
    (fun d x => mulCells_half_units _ (div_pos h.l_pos h.b_pos).ne' s d x) dtlocal tottime maxit tsave itstart fuel t0 q0

end units1d

/-! ### the Burgers model with its cell-wise CFL rule (`dtlocal`), change of units -/
section burgersUnits
variable {α : Type} [Field α] [LinearOrder α] [IsStrictOrderedRing α]

/-- `calc_timestep` of the Burgers model as the code returns it: the array `cfl * dx_c / |u_c|` -/
def burgersDtCells (cfl : α) (m : Mesh1D α) (q : ℕ → ℕ → α) : ℕ → α := fun c => burgersDt cfl (m.vol c) (q 0 c)

omit [IsStrictOrderedRing α] in
/-- C13d `burgersCfl` (the rule of the global-step theorems) is the minimum of this array -/
theorem burgersCfl_eq_min (cfl : α) (m : Mesh1D α) (hn : 0 < m.n) (q : ℕ → ℕ → α) :
    burgersCfl cfl m hn q = minCells m.n hn (burgersDtCells cfl m q) := rfl

/-- the cell-wise CFL rule in the new units: every cell `× l / b` (C18: `dt = cfl dx / |u|`) -/
theorem burgersDtCells_units (cfl l b : α) (hb : 0 < b) (m : Mesh1D α) (q : ℕ → ℕ → α) :
    burgersDtCells cfl (scaleMesh l m) (sclData (fun _ => b) q) = sclD (l / b) (burgersDtCells cfl m q) := by
  funext c
  simp only [burgersDtCells, sclD, burgersDt, sclData, vol_scale, abs_mul, abs_of_pos hb]
  have := hb.ne'
  by_cases hq : |q 0 c| = 0
  · simp [hq]
  · field_simp

/-- `min(dtloc)` commutes with the multiplication by a nonnegative factor -/
theorem minCells_sclD (n : ℕ) (hn : 0 < n) (τ : α) (hτ : 0 ≤ τ) (d : ℕ → α) :
    minCells n hn (sclD τ d) = τ * minCells n hn d := minCells_mul n hn τ hτ d

/-- the hypotheses of `solve_units_local` for the Burgers model: **any** mesh with `n ≥ 1` cells, any positively
homogeneous reconstruction, periodic or rescaled boundary kernels, the cell-wise CFL rule, the average as monitor -/
theorem unitsHomD_burgers (cfl l b : α) (hl : 0 < l) (hb : 0 < b) (m : Mesh1D α) (hn : 0 < m.n) (sch : Scheme α)
    (hs : HomScheme sch) (bc bc' : BC1D α ℕ) (hbc : BCScaled (fun _ => b) bc bc') (freq : ℕ) :
    UnitsHomD (l / b) (sclData fun _ => b) (sclD (l / b)) (fun _ q => (burgersDisc m sch bc).rhs q)
      (fun _ q => (burgersDisc (scaleMesh l m) sch bc').rhs q) (minCells m.n hn) mulCells mulCells (fun a _ => a)
      (fun _ q => burgersDtCells cfl m q) (fun _ q => burgersDtCells cfl (scaleMesh l m) q)
      [(freq, fun _ q => m.average (q 0))] [(freq, fun _ q => (scaleMesh l m).average (q 0))] (fun _ v => b * v) :=
  unitsHomD_disc (unitsPair_burgers l b hl hb m sch hs bc bc' hbc) _ _
    (fun _ q => burgersDtCells_units cfl l b hb m q) (minCells m.n hn)
    (fun d => minCells_sclD m.n hn (l / b) (div_pos hl hb).le d) _ _ _ rfl
    (fun i mo mo' hm hm' => by
      rcases i with _ | i
      · simp only [List.getElem?_cons_zero, Option.some.injEq] at hm hm'
        subst hm; subst hm'
        exact ⟨rfl, fun _ q => average_scale l b hl.ne' m (q 0)⟩
      · simp at hm)

/-- **Burgers, `dtlocal`, any Butcher table**: the solve in the new units (lengths `× l`, velocities `× b`) with per-cell
time steps is the rescaled solve, times `× l / b` (`ScaledRun` of C13d) -/
theorem solve_units_burgers_local (cfl l b : α) (hl : 0 < l) (hb : 0 < b) (m : Mesh1D α) (hn : 0 < m.n) (sch : Scheme α)
    (hs : HomScheme sch) (bc bc' : BC1D α ℕ) (hbc : BCScaled (fun _ => b) bc bc') (freq : ℕ) (dtlocal : Bool)
    (tottime : Option α) (maxit : Option ℕ) (tsave : List α) (itstart : ℕ)
    (tbl : List (List α)) (fuel : ℕ) (t0 : α) (q0 : ℕ → ℕ → α) :
    ScaledRun (l / b) (sclData fun _ => b) (fun _ v => b * v)
      ((rkCfgD tbl (fun _ q => (burgersDisc m sch bc).rhs q) (minCells m.n hn) mulCells
        (fun _ q => burgersDtCells cfl m q) (fun a _ => a) dtlocal tottime maxit tsave itstart
        [(freq, fun _ q => m.average (q 0))]).run fuel () t0 q0)
      ((rkCfgD tbl (fun _ q => (burgersDisc (scaleMesh l m) sch bc').rhs q) (minCells m.n hn) mulCells
        (fun _ q => burgersDtCells cfl (scaleMesh l m) q) (fun a _ => a) dtlocal (tottime.map (l / b * ·)) maxit
        (tsave.map (l / b * ·)) itstart
        [(freq, fun _ q => (scaleMesh l m).average (q 0))]).run fuel () (l / b * t0) (sclData (fun _ => b) q0)) :=
  scaledRun_of_map _ _ _ _ _
    (solve_units_rk_local tbl (unitsHomD_burgers cfl l b hl hb m hn sch hs bc bc' hbc freq) dtlocal tottime maxit tsave
      itstart fuel t0 q0)

/-- Burgers, `dtlocal`, low-storage loop -/
theorem solve_units_burgers_ls_local (cfl l b : α) (hl : 0 < l) (hb : 0 < b) (m : Mesh1D α) (hn : 0 < m.n)
    (sch : Scheme α) (hs : HomScheme sch) (bc bc' : BC1D α ℕ) (hbc : BCScaled (fun _ => b) bc bc') (freq : ℕ)
    (dtlocal : Bool) (tottime : Option α) (maxit : Option ℕ) (tsave : List α) (itstart : ℕ)
    (tc : α → α) (bs : List α) (fuel : ℕ) (t0 : α) (q0 : ℕ → ℕ → α) :
    ScaledRun (l / b) (sclData fun _ => b) (fun _ v => b * v)
      ((lsCfgD tc bs (fun _ q => (burgersDisc m sch bc).rhs q) (minCells m.n hn) mulCells
        (fun _ q => burgersDtCells cfl m q) (fun a _ => a) dtlocal tottime maxit tsave itstart
        [(freq, fun _ q => m.average (q 0))]).run fuel () t0 q0)
      ((lsCfgD tc bs (fun _ q => (burgersDisc (scaleMesh l m) sch bc').rhs q) (minCells m.n hn) mulCells
        (fun _ q => burgersDtCells cfl (scaleMesh l m) q) (fun a _ => a) dtlocal (tottime.map (l / b * ·)) maxit
        (tsave.map (l / b * ·)) itstart
        [(freq, fun _ q => (scaleMesh l m).average (q 0))]).run fuel () (l / b * t0) (sclData (fun _ => b) q0)) :=
  scaledRun_of_map _ _ _ _ _
    (solve_units_ls_local tc bs (unitsHomD_burgers cfl l b hl hb m hn sch hs bc bc' hbc freq) dtlocal tottime maxit
      tsave itstart fuel t0 q0)

/-- Burgers, `dtlocal`, forward Euler -/
theorem solve_units_burgers_explicit_local (cfl l b : α) (hl : 0 < l) (hb : 0 < b) (m : Mesh1D α) (hn : 0 < m.n)
    (sch : Scheme α) (hs : HomScheme sch) (bc bc' : BC1D α ℕ) (hbc : BCScaled (fun _ => b) bc bc') (freq : ℕ)
    (dtlocal : Bool) (tottime : Option α) (maxit : Option ℕ) (tsave : List α) (itstart : ℕ)
    (fuel : ℕ) (t0 : α) (q0 : ℕ → ℕ → α) :
    ScaledRun (l / b) (sclData fun _ => b) (fun _ v => b * v)
      ((explicitCfgD (fun _ q => (burgersDisc m sch bc).rhs q) (minCells m.n hn) mulCells
        (fun _ q => burgersDtCells cfl m q) (fun a _ => a) dtlocal tottime maxit tsave itstart
        [(freq, fun _ q => m.average (q 0))]).run fuel () t0 q0)
      ((explicitCfgD (fun _ q => (burgersDisc (scaleMesh l m) sch bc').rhs q) (minCells m.n hn) mulCells
        (fun _ q => burgersDtCells cfl (scaleMesh l m) q) (fun a _ => a) dtlocal (tottime.map (l / b * ·)) maxit
        (tsave.map (l / b * ·)) itstart
        [(freq, fun _ q => (scaleMesh l m).average (q 0))]).run fuel () (l / b * t0) (sclData (fun _ => b) q0)) :=
  scaledRun_of_map _ _ _ _ _
    (solve_units_explicit_local (unitsHomD_burgers cfl l b hl hb m hn sch hs bc bc' hbc freq) dtlocal tottime maxit
      tsave itstart fuel t0 q0)

/-- Burgers, `dtlocal`, midpoint `rk2` -/
theorem solve_units_burgers_rk2_local (cfl l b : α) (hl : 0 < l) (hb : 0 < b) (m : Mesh1D α) (hn : 0 < m.n)
    (sch : Scheme α) (hs : HomScheme sch) (bc bc' : BC1D α ℕ) (hbc : BCScaled (fun _ => b) bc bc') (freq : ℕ)
    (dtlocal : Bool) (tottime : Option α) (maxit : Option ℕ) (tsave : List α) (itstart : ℕ)
    (fuel : ℕ) (t0 : α) (q0 : ℕ → ℕ → α) :
    ScaledRun (l / b) (sclData fun _ => b) (fun _ v => b * v)
      ((rk2CfgD (fun _ q => (burgersDisc m sch bc).rhs q) (minCells m.n hn) mulCells (fun d => mulCells (halfD d))
        (fun _ q => burgersDtCells cfl m q) (fun a _ => a) dtlocal tottime maxit tsave itstart
        [(freq, fun _ q => m.average (q 0))]).run fuel () t0 q0)
      ((rk2CfgD (fun _ q => (burgersDisc (scaleMesh l m) sch bc').rhs q) (minCells m.n hn) mulCells
        (fun d => mulCells (halfD d))
        (fun _ q => burgersDtCells cfl (scaleMesh l m) q) (fun a _ => a) dtlocal (tottime.map (l / b * ·)) maxit
        (tsave.map (l / b * ·)) itstart
        [(freq, fun _ q => (scaleMesh l m).average (q 0))]).run fuel () (l / b * t0) (sclData (fun _ => b) q0)) :=
  scaledRun_of_map _ _ _ _ _
    (solve_units_rk2_local _ _ (unitsHomD_burgers cfl l b hl hb m hn sch hs bc bc' hbc freq)
      (fun d x => mulCells_half_units _ (div_pos hl hb).ne' _ d x) dtlocal tottime maxit tsave itstart fuel t0 q0)

/-- concrete instance with `dtlocal = true`: 3 uniform cells on `[0, 1]`, MUSCL with the minmod limiter, Dirichlet states
at both ends, Heun's table, CFL 1/2, stop at `t = 1` with save times `1/2`, `1`; new units: lengths `× 2`, velocities
`× 4`, times `× 1/2` -/
example (fuel : ℕ) (q0 : ℕ → ℕ → ℚ) :
    ScaledRun ((2 : ℚ) / 4) (sclData fun _ => 4) (fun _ v => 4 * v)
      ((rkCfgD [[1], [1/2, 1/2]]
        (fun _ q => (burgersDisc (uniMesh 3 1 0) (.muscl minmod)
          (.open (bcDirichlet (vec1 1)) (bcDirichlet (vec1 (1/2))))).rhs q)
        (minCells 3 (by decide)) mulCells
        (fun _ q => burgersDtCells (1/2) (uniMesh 3 1 0) q) (fun a _ => a) true (some 1) none [1/2, 1] 0
        [(1, fun _ q => (uniMesh 3 1 0).average (q 0))]).run fuel () 0 q0)
      ((rkCfgD [[1], [1/2, 1/2]]
        (fun _ q => (burgersDisc (scaleMesh 2 (uniMesh 3 1 0)) (.muscl minmod)
          (.open (bcDirichlet (vec1 4)) (bcDirichlet (vec1 2)))).rhs q)
        (minCells 3 (by decide)) mulCells
        (fun _ q => burgersDtCells (1/2) (scaleMesh 2 (uniMesh 3 1 0)) q) (fun a _ => a) true
        ((some 1).map ((2 : ℚ) / 4 * ·)) none ([1/2, 1].map ((2 : ℚ) / 4 * ·)) 0
        [(1, fun _ q => (scaleMesh 2 (uniMesh 3 1 0)).average (q 0))]).run fuel () (2 / 4 * 0)
        (sclData (fun _ => 4) q0)) :=
  solve_units_burgers_local (1/2) 2 4 (by norm_num) (by norm_num) (uniMesh 3 1 0) (by decide) (.muscl minmod)
    (fun c a b hc => C12.minmod_homogeneous c a b hc)
    (.open (bcDirichlet (vec1 1)) (bcDirichlet (vec1 (1/2)))) (.open (bcDirichlet (vec1 4)) (bcDirichlet (vec1 2)))
    ⟨fun w => by funext k; simp [bcDirichlet, scl, vec1], fun w => by funext k; simp [bcDirichlet, scl, vec1]; norm_num⟩
    1 true (some 1) none [1/2, 1] 0 [[1], [1/2, 1/2]] fuel 0 q0

end burgersUnits

/-! ## (3) reflection, per-cell time steps -/
section mirror1d
variable {α : Type} [Field α] {ι : Type}

/-- reversal of a per-cell time-step array -/
def mirrorD (n : ℕ) (d : ℕ → α) : ℕ → α := fun c => d (n - 1 - c)
/-- continuation of a per-cell array from the cells `c < n` by the last one (as C13d `clampCells`) -/
def clampD (n : ℕ) (d : ℕ → α) : ℕ → α := fun c => d (min c (n - 1))

/-- `dt_c * residual_c` commutes with the cell reversal -/
theorem mulCells_mirror (σ : ι → α) (n : ℕ) (d : ℕ → α) (x : ι → ℕ → α) :
    mulCells (mirrorD n d) (mirrorData σ n x) = mirrorData σ n (mulCells d x) := by
  funext k c
  show d (n - 1 - c) * (σ k * x k (n - 1 - c)) = σ k * (d (n - 1 - c) * x k (n - 1 - c))
  ring

omit [Field α] in
theorem clampD_apply (n : ℕ) (d : ℕ → α) (c : ℕ) (hc : c < n) : clampD n d c = d c := by
  show d (min c (n - 1)) = d c
  rw [Nat.min_eq_left (by omega)]

/-- … and with the continuation -/
theorem mulCells_clamp (n : ℕ) (d : ℕ → α) (x : ι → ℕ → α) :
    mulCells (clampD n d) (clampCells n x) = clampCells n (mulCells d x) := rfl

theorem mirrorData_half (σ : ι → α) (n : ℕ) (d : ℕ → α) (x : ι → ℕ → α) :
    mulCells (halfD (mirrorD n d)) (mirrorData σ n x) = mirrorData σ n (mulCells (halfD d) x) :=
  mulCells_mirror σ n (halfD d) x

variable [LinearOrder α]

/-- hypotheses on the problem data with per-cell time steps: the time-step **array** of the mirror problem on the mirror
data is the reversed array of the problem (on the cells `c < n`), the rule is local (cell `c < n` of the array sees the
cells `< n` of the data only), `minDt` sees the cells `c < n` only and not their order; monitors as in C13d
`MirrorBlind` -/
structure MirrorEquiv (σ : ι → α) (n : ℕ) (calcDt calcDt' : α → (ι → ℕ → α) → (ℕ → α)) (minDt : (ℕ → α) → α)
    (mons mons' : List (ℕ × (α → (ι → ℕ → α) → α))) (fm : ℕ → α → α) : Prop where
  dt : ∀ t q c, c < n → calcDt' t (mirrorData σ n q) c = calcDt t q (n - 1 - c)
  dt_local : ∀ t q q', (∀ k c, c < n → q k c = q' k c) → ∀ c, c < n → calcDt' t q c = calcDt' t q' c
  min : ∀ d, minDt (mirrorD n d) = minDt d
  min_local : ∀ d d', (∀ c, c < n → d c = d' c) → minDt d = minDt d'
  mon_length : mons'.length = mons.length
  mon : ∀ (i : ℕ) (m m' : ℕ × (α → (ι → ℕ → α) → α)), mons[i]? = some m → mons'[i]? = some m' →
      m'.1 = m.1 ∧ ∀ t q, m'.2 t (mirrorData σ n q) = fm i (m.2 t q)
  mon_local : ∀ m' ∈ mons', ∀ t q q', (∀ k c, c < n → q k c = q' k c) → m'.2 t q = m'.2 t q'

/-- any three stage loops `stepD` (problem), `stepD'` (mirror problem), `stepDW` (continued mirror operator) related by
the mirror (time-step arrays reversed) and by the continuation (time-step arrays continued): two morphisms (C07c) into
the continued problem, whose time-step rule is the continued rule of the mirror problem.  Either value of `dtlocal`. -/
theorem solve_mirror_stage (σ : ι → α) (n : ℕ) (hn : 0 < n)
    (stepD stepD' stepDW : (ℕ → α) → α → (ι → ℕ → α) → StepOut α (ι → ℕ → α))
    (hA : ∀ d t q, (stepDW (mirrorD n d) t (mirrorData σ n q)).data = mirrorData σ n (stepD d t q).data
      ∧ (stepDW (mirrorD n d) t (mirrorData σ n q)).time = (stepD d t q).time)
    (hB : ∀ d t q, (stepDW (clampD n d) t (clampCells n q)).data = clampCells n (stepD' d t q).data
      ∧ (stepDW (clampD n d) t (clampCells n q)).time = (stepD' d t q).time)
    (calcDt calcDt' : α → (ι → ℕ → α) → (ℕ → α)) (minDt : (ℕ → α) → α)
    (mons mons' : List (ℕ × (α → (ι → ℕ → α) → α))) (fm : ℕ → α → α)
    (hb : MirrorEquiv σ n calcDt calcDt' minDt mons mons' fm) (dtlocal : Bool)
    (tottime : Option α) (maxit : Option ℕ) (tsave : List α) (itstart : ℕ) (fuel : ℕ) (t0 : α) (q0 : ι → ℕ → α) :
    MirroredRun σ n fm
      ((stageCfg stepD calcDt minDt (fun a _ => a) dtlocal tottime maxit tsave itstart mons).run fuel () t0 q0)
      ((stageCfg stepD' calcDt' minDt (fun a _ => a) dtlocal tottime maxit tsave itstart mons').run fuel () t0
        (mirrorData σ n q0)) := by
  have agree : ∀ q : ι → ℕ → α, ∀ k c, c < n → clampCells n q k c = q k c :=
    fun q k c hc => clampCells_apply n q k c hc
  have hlt : ∀ c, min c (n - 1) < n := fun c => by omega
  have A := run_equivariant (stageCfg_hom (mirrorData σ n) (mirrorD n) stepD stepDW hA calcDt
    (fun t q => clampD n (calcDt' t q))
    (fun t q => by
      funext c
      show calcDt' t (mirrorData σ n q) (min c (n - 1)) = calcDt t q (n - 1 - c)
      rw [hb.dt t q _ (hlt c)]
      congr 1
      omega)
    minDt minDt hb.min (fun a _ => a) (fun a _ => a) (fun _ => rfl) dtlocal mons mons' fm hb.mon_length hb.mon
    tottime maxit tsave itstart) fuel () t0 q0
  have B := run_equivariant (stageCfg_hom (clampCells n) (clampD n) stepD' stepDW hB calcDt'
    (fun t q => clampD n (calcDt' t q))
    (fun t q => by
      funext c
      exact hb.dt_local t _ _ (agree q) _ (hlt c))
    minDt minDt (fun d => hb.min_local _ _ fun c hc => clampD_apply n d c hc)
    (fun a _ => a) (fun a _ => a) (fun _ => rfl) dtlocal mons' mons' (fun _ => id) rfl
    (fun i a a' ha ha' => by
      rw [ha] at ha'; cases ha'
      exact ⟨rfl, fun t q => hb.mon_local a (List.mem_of_getElem? ha) t _ _ (agree q)⟩)
    tottime maxit tsave itstart) fuel () t0 (mirrorData σ n q0)
  rw [clampCells_mirrorData] at B
  have := B.symm.trans A
  have e1 := congrArg Prod.snd this
  have e2 := congrArg Prod.fst this
  exact mirroredRun_of_map σ n fm _ _ e1 e2

variable {σ : ι → α} {D : Disc1D α ι} (h : MirrorLaws σ D)
  (calcDt calcDt' : α → (ι → ℕ → α) → (ℕ → α)) (minDt : (ℕ → α) → α)
  (mons mons' : List (ℕ × (α → (ι → ℕ → α) → α))) (fm : ℕ → α → α)
  (hb : MirrorEquiv σ D.mesh.n calcDt calcDt' minDt mons mons' fm) (dtlocal : Bool)
  (tottime : Option α) (maxit : Option ℕ) (tsave : List α) (itstart : ℕ)
include h hb

/-- **C13 (a) for whole solves with `dtlocal`** (either value of the directive), **generic Butcher loop (any table)**, the
operators being the model's `Disc1D.rhs` of the discretisation and of its mirror `mirrorDisc σ D`: every cell advances
with its own step, the time with the minimum.  The solve of the mirror problem from the mirror data is, on the cells
`c < n`, the mirror of the solve (C13d `MirroredRun`: same flag, iteration counts, times, tags; data mirrored). -/
theorem solve_mirror_local (tbl : List (List α)) (fuel : ℕ) (t0 : α) (q0 : ι → ℕ → α) :
    MirroredRun σ D.mesh.n fm
      ((rkCfgD tbl (fun _ q => D.rhs q) minDt mulCells calcDt (fun a _ => a) dtlocal tottime maxit tsave itstart
        mons).run fuel () t0 q0)
      ((rkCfgD tbl (fun _ q => (mirrorDisc σ D).rhs q) minDt mulCells calcDt' (fun a _ => a) dtlocal tottime maxit
        tsave itstart mons').run fuel () t0 (mirrorData σ D.mesh.n q0)) :=
  solve_mirror_stage σ D.mesh.n h.n_pos
    (fun d t q => rkStepG tbl (fun _ q => D.rhs q) (minDt d) (mulCells d) t q)
    (fun d t q => rkStepG tbl (fun _ q => (mirrorDisc σ D).rhs q) (minDt d) (mulCells d) t q)
    (fun d t q => rkStepG tbl (clampRhs σ D) (minDt d) (mulCells d) t q)
    (fun d t q => by
      have e := rk_equivariant tbl (mirrorData σ D.mesh.n) (fun _ q => D.rhs q) (clampRhs σ D) (mulCells d)
        (mulCells (mirrorD D.mesh.n d))
        ⟨mirrorData_add σ _, mirrorData_smul σ _, clampRhs_mirror h, mulCells_mirror σ _ d⟩ (minDt d) t q
      rw [hb.min]
      exact ⟨e.1, e.2.1⟩)
    (fun d t q => by
      have e := rk_equivariant tbl (clampCells D.mesh.n) (fun _ q => (mirrorDisc σ D).rhs q) (clampRhs σ D)
        (mulCells d) (mulCells (clampD D.mesh.n d))
        ⟨fun _ _ => rfl, fun _ _ => rfl, clampRhs_clamp h, mulCells_clamp _ d⟩ (minDt d) t q
      rw [hb.min_local _ d fun c hc => clampD_apply _ d c hc]
      exact ⟨e.1, e.2.1⟩)
    calcDt calcDt' minDt mons mons' fm hb dtlocal tottime maxit tsave itstart fuel t0 q0

/-- low-storage loop (any coefficients) with `dtlocal` -/
theorem solve_mirror_ls_local (tc : α → α) (bs : List α) (fuel : ℕ) (t0 : α) (q0 : ι → ℕ → α) :
    MirroredRun σ D.mesh.n fm
      ((lsCfgD tc bs (fun _ q => D.rhs q) minDt mulCells calcDt (fun a _ => a) dtlocal tottime maxit tsave itstart
        mons).run fuel () t0 q0)
      ((lsCfgD tc bs (fun _ q => (mirrorDisc σ D).rhs q) minDt mulCells calcDt' (fun a _ => a) dtlocal tottime maxit
        tsave itstart mons').run fuel () t0 (mirrorData σ D.mesh.n q0)) :=
  solve_mirror_stage σ D.mesh.n h.n_pos
    (fun d t q => lsStepG tc bs (fun _ q => D.rhs q) (minDt d) (mulCells d) t q)
    (fun d t q => lsStepG tc bs (fun _ q => (mirrorDisc σ D).rhs q) (minDt d) (mulCells d) t q)
    (fun d t q => lsStepG tc bs (clampRhs σ D) (minDt d) (mulCells d) t q)
    (fun d t q => by
      have e := ls_equivariant tc bs (mirrorData σ D.mesh.n) (fun _ q => D.rhs q) (clampRhs σ D) (mulCells d)
        (mulCells (mirrorD D.mesh.n d))
        ⟨mirrorData_add σ _, mirrorData_smul σ _, clampRhs_mirror h, mulCells_mirror σ _ d⟩ (minDt d) t q
      rw [hb.min]
      exact e)
    (fun d t q => by
      have e := ls_equivariant tc bs (clampCells D.mesh.n) (fun _ q => (mirrorDisc σ D).rhs q) (clampRhs σ D)
        (mulCells d) (mulCells (clampD D.mesh.n d))
        ⟨fun _ _ => rfl, fun _ _ => rfl, clampRhs_clamp h, mulCells_clamp _ d⟩ (minDt d) t q
      rw [hb.min_local _ d fun c hc => clampD_apply _ d c hc]
      exact e)
    calcDt calcDt' minDt mons mons' fm hb dtlocal tottime maxit tsave itstart fuel t0 q0

/-- forward Euler with `dtlocal` -/
theorem solve_mirror_explicit_local (fuel : ℕ) (t0 : α) (q0 : ι → ℕ → α) :
    MirroredRun σ D.mesh.n fm
      ((explicitCfgD (fun _ q => D.rhs q) minDt mulCells calcDt (fun a _ => a) dtlocal tottime maxit tsave itstart
        mons).run fuel () t0 q0)
      ((explicitCfgD (fun _ q => (mirrorDisc σ D).rhs q) minDt mulCells calcDt' (fun a _ => a) dtlocal tottime maxit
        tsave itstart mons').run fuel () t0 (mirrorData σ D.mesh.n q0)) :=
  solve_mirror_stage σ D.mesh.n h.n_pos
    (fun d t q => explicitStepG (fun _ q => D.rhs q) (minDt d) (mulCells d) t q)
    (fun d t q => explicitStepG (fun _ q => (mirrorDisc σ D).rhs q) (minDt d) (mulCells d) t q)
    (fun d t q => explicitStepG (clampRhs σ D) (minDt d) (mulCells d) t q)
    (fun d t q => by
      have e := explicit_equivariant (mirrorData σ D.mesh.n) (fun _ q => D.rhs q) (clampRhs σ D) (mulCells d)
        (mulCells (mirrorD D.mesh.n d))
        ⟨mirrorData_add σ _, mirrorData_smul σ _, clampRhs_mirror h, mulCells_mirror σ _ d⟩ (minDt d) t q
      rw [hb.min]
      exact e)
    (fun d t q => by
      have e := explicit_equivariant (clampCells D.mesh.n) (fun _ q => (mirrorDisc σ D).rhs q) (clampRhs σ D)
        (mulCells d) (mulCells (clampD D.mesh.n d))
        ⟨fun _ _ => rfl, fun _ _ => rfl, clampRhs_clamp h, mulCells_clamp _ d⟩ (minDt d) t q
      rw [hb.min_local _ d fun c hc => clampD_apply _ d c hc]
      exact e)
    calcDt calcDt' minDt mons mons' fm hb dtlocal tottime maxit tsave itstart fuel t0 q0

/-- midpoint `rk2` with `dtlocal`: half steps `dtloc / 2` cell by cell -/
theorem solve_mirror_rk2_local (fuel : ℕ) (t0 : α) (q0 : ι → ℕ → α) :
    MirroredRun σ D.mesh.n fm
      ((rk2CfgD (fun _ q => D.rhs q) minDt mulCells (fun d => mulCells (halfD d)) calcDt (fun a _ => a) dtlocal tottime
        maxit tsave itstart mons).run fuel () t0 q0)
      ((rk2CfgD (fun _ q => (mirrorDisc σ D).rhs q) minDt mulCells (fun d => mulCells (halfD d)) calcDt' (fun a _ => a)
        dtlocal tottime maxit tsave itstart mons').run fuel () t0 (mirrorData σ D.mesh.n q0)) :=
  solve_mirror_stage σ D.mesh.n h.n_pos
    (fun d t q => rk2StepG (fun _ q => D.rhs q) (minDt d) (mulCells d) (mulCells (halfD d)) t q)
    (fun d t q => rk2StepG (fun _ q => (mirrorDisc σ D).rhs q) (minDt d) (mulCells d) (mulCells (halfD d)) t q)
    (fun d t q => rk2StepG (clampRhs σ D) (minDt d) (mulCells d) (mulCells (halfD d)) t q)
    (fun d t q => by
      have e := rk2_equivariant (mirrorData σ D.mesh.n) (fun _ q => D.rhs q) (clampRhs σ D) (mulCells d)
        (mulCells (mirrorD D.mesh.n d)) (mulCells (halfD d)) (mulCells (halfD (mirrorD D.mesh.n d)))
        ⟨mirrorData_add σ _, mirrorData_smul σ _, clampRhs_mirror h, mulCells_mirror σ _ d⟩
        (mirrorData_half σ _ d) (minDt d) t q
      rw [hb.min]
      exact e)
    (fun d t q => by
      have e := rk2_equivariant (clampCells D.mesh.n) (fun _ q => (mirrorDisc σ D).rhs q) (clampRhs σ D)
        (mulCells d) (mulCells (clampD D.mesh.n d)) (mulCells (halfD d)) (mulCells (halfD (clampD D.mesh.n d)))
        ⟨fun _ _ => rfl, fun _ _ => rfl, clampRhs_clamp h, mulCells_clamp _ d⟩
        (fun _ => rfl) (minDt d) t q
      rw [hb.min_local _ d fun c hc => clampD_apply _ d c hc]
      exact e)
    calcDt calcDt' minDt mons mons' fm hb dtlocal tottime maxit tsave itstart fuel t0 q0

end mirror1d

/-! ### the Burgers model with its cell-wise CFL rule (`dtlocal`), reflection -/
section burgersMirror
variable {α : Type} [Field α] [LinearOrder α] [IsStrictOrderedRing α]

omit [IsStrictOrderedRing α] in
/-- the cell-wise CFL array of the mirror problem on the mirror data is the reversed array (cell by cell: the statement
behind C13d `burgersCfl_mirror`) -/
theorem burgersDtCells_mirror (cfl : α) (m : Mesh1D α) (q : ℕ → ℕ → α) (c : ℕ) (hc : c < m.n) :
    burgersDtCells cfl (mirrorMesh m) (mirrorData (fun _ => (-1 : α)) m.n q) c
      = burgersDtCells cfl m q (m.n - 1 - c) := by
  simp only [burgersDtCells, burgersDt, mirrorData]
  rw [vol_mirror m c hc, neg_one_mul, abs_neg]

omit [IsStrictOrderedRing α] in
/-- cell `c` of the CFL array sees cell `c` of the data only (behind C13d `burgersCfl_local`) -/
theorem burgersDtCells_local (cfl : α) (m : Mesh1D α) (q q' : ℕ → ℕ → α) (n : ℕ)
    (hq : ∀ k c, c < n → q k c = q' k c) (c : ℕ) (hc : c < n) :
    burgersDtCells cfl m q c = burgersDtCells cfl m q' c := by
  simp only [burgersDtCells]
  rw [hq 0 c hc]

omit [IsStrictOrderedRing α] in
/-- the minimum of the reversed CFL array is C13d `burgersCfl` of the problem: `burgersCfl_mirror` from its cell-wise
form -/
example (cfl : α) (m : Mesh1D α) (hn : 0 < m.n) (q : ℕ → ℕ → α) :
    minCells m.n hn (burgersDtCells cfl (mirrorMesh m) (mirrorData (fun _ => (-1 : α)) m.n q))
      = burgersCfl cfl m hn q :=
  burgersCfl_mirror cfl m hn q

omit [IsStrictOrderedRing α] in
/-- the cell-wise CFL rule, the true minimum `min(dtloc)` and the average monitor satisfy the hypotheses on the problem
data -/
theorem mirrorEquiv_burgers (cfl : α) (m : Mesh1D α) (hn : 0 < m.n) (freq : ℕ) :
    MirrorEquiv (fun _ => (-1 : α)) m.n (fun _ q => burgersDtCells cfl m q)
      (fun _ q => burgersDtCells cfl (mirrorMesh m) q) (minCells m.n hn)
      [(freq, fun _ q => m.average (q 0))] [(freq, fun _ q => (mirrorMesh m).average (q 0))] (fun _ v => -v) where
  dt := fun _ q c hc => burgersDtCells_mirror cfl m q c hc
  dt_local := fun _ q q' hq c hc => burgersDtCells_local cfl (mirrorMesh m) q q' m.n hq c hc
  min := fun d => minCells_reflect m.n hn d
  min_local := fun d d' hd => minCells_congr m.n hn d d' hd
  mon_length := rfl
  mon := (mirrorBlind_burgers cfl m hn freq).mon
  mon_local := (mirrorBlind_burgers cfl m hn freq).mon_local

/-- **Burgers, `dtlocal`, any Butcher table**: any mesh with `n ≥ 1` cells, any reconstruction with an odd limiter, any
boundary kernels, the cell-wise CFL rule, the average as monitor, any stop criteria -/
theorem solve_mirror_burgers_local (cfl : α) (m : Mesh1D α) (hn : 0 < m.n) (sch : Scheme α) (hs : OddScheme sch)
    (bc : BC1D α ℕ) (freq : ℕ) (dtlocal : Bool) (tottime : Option α) (maxit : Option ℕ) (tsave : List α) (itstart : ℕ)
    (tbl : List (List α)) (fuel : ℕ) (t0 : α) (q0 : ℕ → ℕ → α) :
    MirroredRun (fun _ => (-1 : α)) m.n (fun _ v => -v)
      ((rkCfgD tbl (fun _ q => (burgersDisc m sch bc).rhs q) (minCells m.n hn) mulCells
        (fun _ q => burgersDtCells cfl m q) (fun a _ => a) dtlocal tottime maxit tsave itstart
        [(freq, fun _ q => m.average (q 0))]).run fuel () t0 q0)
      ((rkCfgD tbl (fun _ q => (mirrorDisc (fun _ => (-1 : α)) (burgersDisc m sch bc)).rhs q) (minCells m.n hn) mulCells
        (fun _ q => burgersDtCells cfl (mirrorMesh m) q) (fun a _ => a) dtlocal tottime maxit tsave itstart
        [(freq, fun _ q => (mirrorMesh m).average (q 0))]).run fuel () t0 (mirrorData (fun _ => (-1 : α)) m.n q0)) :=
  solve_mirror_local (D := burgersDisc m sch bc) (mirrorLaws_burgers m hn sch hs bc) _ _ _ _ _ _
    (mirrorEquiv_burgers cfl m hn freq) dtlocal tottime maxit tsave itstart tbl fuel t0 q0

/-- Burgers, `dtlocal`, low-storage loop -/
theorem solve_mirror_burgers_ls_local (cfl : α) (m : Mesh1D α) (hn : 0 < m.n) (sch : Scheme α) (hs : OddScheme sch)
    (bc : BC1D α ℕ) (freq : ℕ) (dtlocal : Bool) (tottime : Option α) (maxit : Option ℕ) (tsave : List α) (itstart : ℕ)
    (tc : α → α) (bs : List α) (fuel : ℕ) (t0 : α) (q0 : ℕ → ℕ → α) :
    MirroredRun (fun _ => (-1 : α)) m.n (fun _ v => -v)
      ((lsCfgD tc bs (fun _ q => (burgersDisc m sch bc).rhs q) (minCells m.n hn) mulCells
        (fun _ q => burgersDtCells cfl m q) (fun a _ => a) dtlocal tottime maxit tsave itstart
        [(freq, fun _ q => m.average (q 0))]).run fuel () t0 q0)
      ((lsCfgD tc bs (fun _ q => (mirrorDisc (fun _ => (-1 : α)) (burgersDisc m sch bc)).rhs q) (minCells m.n hn)
        mulCells (fun _ q => burgersDtCells cfl (mirrorMesh m) q) (fun a _ => a) dtlocal tottime maxit tsave itstart
        [(freq, fun _ q => (mirrorMesh m).average (q 0))]).run fuel () t0 (mirrorData (fun _ => (-1 : α)) m.n q0)) :=
  solve_mirror_ls_local (D := burgersDisc m sch bc) (mirrorLaws_burgers m hn sch hs bc) _ _ _ _ _ _
    (mirrorEquiv_burgers cfl m hn freq) dtlocal tottime maxit tsave itstart tc bs fuel t0 q0

/-- Burgers, `dtlocal`, forward Euler -/
theorem solve_mirror_burgers_explicit_local (cfl : α) (m : Mesh1D α) (hn : 0 < m.n) (sch : Scheme α)
    (hs : OddScheme sch) (bc : BC1D α ℕ) (freq : ℕ) (dtlocal : Bool) (tottime : Option α) (maxit : Option ℕ)
    (tsave : List α) (itstart : ℕ) (fuel : ℕ) (t0 : α) (q0 : ℕ → ℕ → α) :
    MirroredRun (fun _ => (-1 : α)) m.n (fun _ v => -v)
      ((explicitCfgD (fun _ q => (burgersDisc m sch bc).rhs q) (minCells m.n hn) mulCells
        (fun _ q => burgersDtCells cfl m q) (fun a _ => a) dtlocal tottime maxit tsave itstart
        [(freq, fun _ q => m.average (q 0))]).run fuel () t0 q0)
      ((explicitCfgD (fun _ q => (mirrorDisc (fun _ => (-1 : α)) (burgersDisc m sch bc)).rhs q) (minCells m.n hn)
        mulCells (fun _ q => burgersDtCells cfl (mirrorMesh m) q) (fun a _ => a) dtlocal tottime maxit tsave itstart
        [(freq, fun _ q => (mirrorMesh m).average (q 0))]).run fuel () t0 (mirrorData (fun _ => (-1 : α)) m.n q0)) :=
  solve_mirror_explicit_local (D := burgersDisc m sch bc) (mirrorLaws_burgers m hn sch hs bc) _ _ _ _ _ _
    (mirrorEquiv_burgers cfl m hn freq) dtlocal tottime maxit tsave itstart fuel t0 q0

/-- Burgers, `dtlocal`, midpoint `rk2` -/
theorem solve_mirror_burgers_rk2_local (cfl : α) (m : Mesh1D α) (hn : 0 < m.n) (sch : Scheme α)
    (hs : OddScheme sch) (bc : BC1D α ℕ) (freq : ℕ) (dtlocal : Bool) (tottime : Option α) (maxit : Option ℕ)
    (tsave : List α) (itstart : ℕ) (fuel : ℕ) (t0 : α) (q0 : ℕ → ℕ → α) :
    MirroredRun (fun _ => (-1 : α)) m.n (fun _ v => -v)
      ((rk2CfgD (fun _ q => (burgersDisc m sch bc).rhs q) (minCells m.n hn) mulCells (fun d => mulCells (halfD d))
        (fun _ q => burgersDtCells cfl m q) (fun a _ => a) dtlocal tottime maxit tsave itstart
        [(freq, fun _ q => m.average (q 0))]).run fuel () t0 q0)
      ((rk2CfgD (fun _ q => (mirrorDisc (fun _ => (-1 : α)) (burgersDisc m sch bc)).rhs q) (minCells m.n hn)
        mulCells (fun d => mulCells (halfD d)) (fun _ q => burgersDtCells cfl (mirrorMesh m) q) (fun a _ => a) dtlocal
        tottime maxit tsave itstart
        [(freq, fun _ q => (mirrorMesh m).average (q 0))]).run fuel () t0 (mirrorData (fun _ => (-1 : α)) m.n q0)) :=
  solve_mirror_rk2_local (D := burgersDisc m sch bc) (mirrorLaws_burgers m hn sch hs bc) _ _ _ _ _ _
    (mirrorEquiv_burgers cfl m hn freq) dtlocal tottime maxit tsave itstart fuel t0 q0

/-- concrete instance with `dtlocal = true`: 3 cells with faces `0, 1, 4, 9` (a non-uniform mesh: the per-cell steps
differ even for constant data), MUSCL with the minmod limiter, Dirichlet states `1` (left) and `-1/2` (right), Heun's
table, CFL 1/2, stop at `t = 1` with save times `1/2`, `1` -/
example (fuel : ℕ) (q0 : ℕ → ℕ → ℚ) :
    MirroredRun (fun _ => (-1 : ℚ)) 3 (fun _ v => -v)
      ((rkCfgD [[1], [1/2, 1/2]]
        (fun _ q => (burgersDisc (facesMesh 3 (fun i => (i : ℚ) * i) 9) (.muscl minmod)
          (.open (bcDirichlet (vec1 1)) (bcDirichlet (vec1 (-1/2))))).rhs q)
        (minCells 3 (by decide)) mulCells
        (fun _ q => burgersDtCells (1/2) (facesMesh 3 (fun i => (i : ℚ) * i) 9) q) (fun a _ => a) true (some 1) none
        [1/2, 1] 0
        [(1, fun _ q => (facesMesh 3 (fun i => (i : ℚ) * i) 9).average (q 0))]).run fuel () 0 q0)
      ((rkCfgD [[1], [1/2, 1/2]]
        (fun _ q => (mirrorDisc (fun _ => (-1 : ℚ)) (burgersDisc (facesMesh 3 (fun i => (i : ℚ) * i) 9) (.muscl minmod)
          (.open (bcDirichlet (vec1 1)) (bcDirichlet (vec1 (-1/2)))))).rhs q)
        (minCells 3 (by decide)) mulCells
        (fun _ q => burgersDtCells (1/2) (mirrorMesh (facesMesh 3 (fun i => (i : ℚ) * i) 9)) q) (fun a _ => a) true
        (some 1) none [1/2, 1] 0
        [(1, fun _ q => (mirrorMesh (facesMesh 3 (fun i => (i : ℚ) * i) 9)).average (q 0))]).run fuel () 0
        (mirrorData (fun _ => (-1 : ℚ)) 3 q0)) :=
  solve_mirror_burgers_local (1/2) (facesMesh 3 (fun i => (i : ℚ) * i) 9) (by decide) (.muscl minmod)
    (fun a b => C12.minmod_odd a b) _ 1 true (some 1) none [1/2, 1] 0 [[1], [1/2, 1/2]] fuel 0 q0

/-- the per-cell steps of this instance are not all equal (so `dtlocal = true` is not the global-step solve in disguise):
for the constant data `q = 1` the CFL array is `(1/2, 3/2, 5/2)` -/
example : (fun c => burgersDtCells (1/2 : ℚ) (facesMesh 3 (fun i => (i : ℚ) * i) 9) (fun _ _ => 1) c) 0 = 1/2
    ∧ burgersDtCells (1/2 : ℚ) (facesMesh 3 (fun i => (i : ℚ) * i) 9) (fun _ _ => 1) 1 = 3/2
    ∧ burgersDtCells (1/2 : ℚ) (facesMesh 3 (fun i => (i : ℚ) * i) 9) (fun _ _ => 1) 2 = 5/2 := by
  simp only [burgersDtCells, burgersDt, Mesh1D.vol, facesMesh]
  norm_num

/-! ### an evaluated run with `dtlocal = true` -/

/-- the problem of the instance above, with either value of the directive -/
def exCfg (loc : Bool) : DrvCfg Unit ℚ (ℕ → ℕ → ℚ) (ℕ → ℚ) :=
  rkCfgD [[1], [1/2, 1/2]]
    (fun _ q => (burgersDisc (facesMesh 3 (fun i => (i : ℚ) * i) 9) (.muscl minmod)
      (.open (bcDirichlet (vec1 1)) (bcDirichlet (vec1 (-1/2))))).rhs q)
    (minCells 3 (by decide)) mulCells
    (fun _ q => burgersDtCells (1/2) (facesMesh 3 (fun i => (i : ℚ) * i) 9) q) (fun a _ => a) loc (some 1) none
    [1/2, 1] 0 [(1, fun _ q => (facesMesh 3 (fun i => (i : ℚ) * i) 9).average (q 0))]

/-- its mirror problem -/
def exCfg' (loc : Bool) : DrvCfg Unit ℚ (ℕ → ℕ → ℚ) (ℕ → ℚ) :=
  rkCfgD [[1], [1/2, 1/2]]
    (fun _ q => (mirrorDisc (fun _ => (-1 : ℚ)) (burgersDisc (facesMesh 3 (fun i => (i : ℚ) * i) 9) (.muscl minmod)
      (.open (bcDirichlet (vec1 1)) (bcDirichlet (vec1 (-1/2)))))).rhs q)
    (minCells 3 (by decide)) mulCells
    (fun _ q => burgersDtCells (1/2) (mirrorMesh (facesMesh 3 (fun i => (i : ℚ) * i) 9)) q) (fun a _ => a) loc
    (some 1) none [1/2, 1] 0 [(1, fun _ q => (mirrorMesh (facesMesh 3 (fun i => (i : ℚ) * i) 9)).average (q 0))]

/-- initial data `(1, 2, 1/2)` -/
def exQ0 : ℕ → ℕ → ℚ := fun _ c => if c = 0 then 1 else if c = 1 then 2 else 1/2

/-- the solve with `dtlocal = true` stops by the time criterion after 2 iterations and returns 2 snapshots, at `t = 1/2`
(tag 0) and `t = 1` (tag 1) … -/
example : ((exCfg true).run 20 () 0 exQ0).2 = true ∧ ((exCfg true).run 20 () 0 exQ0).1.nit = 2
    ∧ (((exCfg true).run 20 () 0 exQ0).1.results.map fun s => (s.time, s.it)) = [(1/2, 0), (1, 1)] := by
  decide +kernel

/-- … it is NOT the solve with the global step (the directive matters: the middle cell of the last snapshot differs) … -/
example : (((exCfg true).run 20 () 0 exQ0).1.results.map fun s => s.data 0 1)
    ≠ (((exCfg false).run 20 () 0 exQ0).1.results.map fun s => s.data 0 1) := by
  decide +kernel

/-- … and the solve of the mirror problem from the mirror data is its mirror (`solve_mirror_burgers_local`) -/
theorem ex_mirrored : MirroredRun (fun _ => (-1 : ℚ)) 3 (fun _ v => -v)
    ((exCfg true).run 20 () 0 exQ0) ((exCfg' true).run 20 () 0 (mirrorData (fun _ => (-1 : ℚ)) 3 exQ0)) :=
  solve_mirror_burgers_local (1/2) (facesMesh 3 (fun i => (i : ℚ) * i) 9) (by decide) (.muscl minmod)
    (fun a b => C12.minmod_odd a b) _ 1 true (some 1) none [1/2, 1] 0 [[1], [1/2, 1/2]] 20 0 exQ0

/-- the same, evaluated independently of the theorem: 2 iterations, the same snapshot times and tags, and the three
cells of every snapshot reversed with the opposite sign -/
example : ((exCfg' true).run 20 () 0 (mirrorData (fun _ => (-1 : ℚ)) 3 exQ0)).1.nit = 2
    ∧ (((exCfg' true).run 20 () 0 (mirrorData (fun _ => (-1 : ℚ)) 3 exQ0)).1.results.map
        fun s => (s.time, s.it, s.data 0 0, s.data 0 1, s.data 0 2))
      = (((exCfg true).run 20 () 0 exQ0).1.results.map
        fun s => (s.time, s.it, -s.data 0 2, -s.data 0 1, -s.data 0 0)) := by
  decide +kernel

/-- the same problem in new units: lengths `× 2`, velocities `× 4`, times `× 1/2` (stop at `1/2`, save times `1/4`, `1/2`,
boundary states `4`, `-2`) -/
def exCfgU (loc : Bool) : DrvCfg Unit ℚ (ℕ → ℕ → ℚ) (ℕ → ℚ) :=
  rkCfgD [[1], [1/2, 1/2]]
    (fun _ q => (burgersDisc (scaleMesh 2 (facesMesh 3 (fun i => (i : ℚ) * i) 9)) (.muscl minmod)
      (.open (bcDirichlet (vec1 4)) (bcDirichlet (vec1 (-2))))).rhs q)
    (minCells 3 (by decide)) mulCells
    (fun _ q => burgersDtCells (1/2) (scaleMesh 2 (facesMesh 3 (fun i => (i : ℚ) * i) 9)) q) (fun a _ => a) loc
    ((some 1).map ((2 : ℚ) / 4 * ·)) none ([1/2, 1].map ((2 : ℚ) / 4 * ·)) 0
    [(1, fun _ q => (scaleMesh 2 (facesMesh 3 (fun i => (i : ℚ) * i) 9)).average (q 0))]

/-- the solve with `dtlocal = true` in the new units is the rescaled solve (`solve_units_burgers_local`) … -/
theorem ex_scaled : ScaledRun ((2 : ℚ) / 4) (sclData fun _ => 4) (fun _ v => 4 * v)
    ((exCfg true).run 20 () 0 exQ0) ((exCfgU true).run 20 () (2 / 4 * 0) (sclData (fun _ => 4) exQ0)) :=
  solve_units_burgers_local (1/2) 2 4 (by norm_num) (by norm_num) (facesMesh 3 (fun i => (i : ℚ) * i) 9) (by decide)
    (.muscl minmod) (fun c a b hc => C12.minmod_homogeneous c a b hc)
    (.open (bcDirichlet (vec1 1)) (bcDirichlet (vec1 (-1/2)))) (.open (bcDirichlet (vec1 4)) (bcDirichlet (vec1 (-2))))
    ⟨fun w => by funext k; simp [bcDirichlet, scl, vec1], fun w => by funext k; simp [bcDirichlet, scl, vec1]; norm_num⟩
    1 true (some 1) none [1/2, 1] 0 [[1], [1/2, 1/2]] 20 0 exQ0

/-- … evaluated independently of the theorem: snapshot times `× 1/2`, same tags, data `× 4` -/
example : ((exCfgU true).run 20 () 0 (sclData (fun _ => 4) exQ0)).1.nit = 2
    ∧ (((exCfgU true).run 20 () 0 (sclData (fun _ => 4) exQ0)).1.results.map
        fun s => (s.time, s.it, s.data 0 0, s.data 0 1, s.data 0 2))
      = (((exCfg true).run 20 () 0 exQ0).1.results.map
        fun s => (1/2 * s.time, s.it, 4 * s.data 0 0, 4 * s.data 0 1, 4 * s.data 0 2)) := by
  decide +kernel

end burgersMirror

end Flowdyn.C13g
