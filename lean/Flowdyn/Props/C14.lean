/-
C14 — periodic boundaries are seamless (translation invariance).  Part a: 1D.
-/
import Flowdyn.Props.C14a
