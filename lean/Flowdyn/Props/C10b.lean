/-
C10b — the one-step lemma of C10: first-order schemes with HLL-type Riemann fluxes keep density, pressure and
depth positive.

1. Abstract (`hllFlux`, `hllStar` on any module over an ordered field): the flux identities
   `F = f_L + s_L (U* - U_L) = f_R + s_R (U* - U_R)`, and `hll_update_convex`: the first-order update
   `U - ν (F(U,Ur) - F(Ul,U))` is the combination of `U`, `U*(U,Ur)`, `U*(Ul,U)` with weights
   `1 - ν (sR⁻ - sL⁺)`, `-ν sL⁺`, `ν sR⁻` (sum one; nonnegative iff `ν (sR⁻ - sL⁺) ≤ 1`, given `sL⁺ ≤ 0 ≤ sR⁻`);
   `hll_update_adm`: a convex cone containing the three states contains the update.
2. Euler: the code's `eHlle` is `hllFlux` with the code's own speeds `hlleSL/hlleSR` (`eHlle_eq_hllFlux`);
   `hlle_step_positive`: one cell update keeps `ρ > 0`, `p > 0` under the *face* condition
   `ν (sR(face i) - sL(face i+1)) ≤ 1`.  (A CFL bound on the cell speeds `|u| + c` does not imply it: the
   Roe-average speed can exceed both cell speeds, see C10.)
3. Shallow water: `swHll`, `swRusanov` are `hllFlux` with their own speeds; `swHll_step_positive`,
   `swRusanov_step_positive`.  Here the face speeds *are* bounded by the cell speeds (`swHll_speeds_le_rus`).
4. Pipeline: for `Scheme.extrapol1`, periodic ends, no sources, on ANY mesh (`fo1`, `fo1_rhs`), cell `i` of
   `Disc1D.rhs` is the flux difference of the Riemann problems with the cyclic neighbours.  Hence
   `hlle_fe_positive` (Euler, face condition), `sw_fe_positive` (shallow water, cell CFL ≤ 1/2) and
   `sw_uniform_fe_positive` (uniform mesh, `dt ≤ swDt` of every cell with `cfl ≤ 1/2`: the property as stated).
5. SSP: `ssp_rk2_heun_inv`, `ssp_rk3ssp_inv` lift a forward-Euler invariant cone through C05's Shu-Osher forms;
   instances `hlle_rk2_heun_positive`, `hlle_rk3ssp_positive`, `sw_rk2_heun_positive`, `sw_rk3ssp_positive`.
   The step condition is required at every stage state (the code computes `dt` once per step, from the first).

NOT here: HLLC; boundary cells of non-periodic meshes; a cell-based sufficient condition for the Euler face
condition; that the stage conditions follow from the condition at the initial state.
-/
import Flowdyn.Props.C10
import Flowdyn.Model.Models1D
import Flowdyn.Lemmas.Cyclic1D
import Flowdyn.Props.C05
import Mathlib.Algebra.Module.Prod
import Mathlib.Algebra.Module.Pi
import Mathlib.Tactic.Module
import Mathlib.Tactic.LinearCombination
import Mathlib.Tactic.NormNum
import Mathlib.Tactic.NormNum.RealSqrt
import Mathlib.Tactic.IntervalCases

namespace Flowdyn.C10
open Flowdyn

section abstract
variable {α : Type*} [Field α] [LinearOrder α] [IsStrictOrderedRing α]
variable {V : Type*} [AddCommGroup V] [Module α V]

/-- HLL-type flux between states `L`, `R` with physical fluxes `fL`, `fR` and wave-speed bounds `sL`, `sR` -/
def hllFlux (sL sR : α) (fL fR L R : V) : V :=
  (sR - sL)⁻¹ • (sR • fL - sL • fR + (sL * sR) • (R - L))

/-- HLL intermediate state -/
def hllStar (sL sR : α) (fL fR L R : V) : V :=
  (sR - sL)⁻¹ • (sR • R - sL • L - (fR - fL))

omit [LinearOrder α] [IsStrictOrderedRing α] in
/-- `F = f_L + s_L (U* - U_L)` -/
theorem hllFlux_left (sL sR : α) (fL fR L R : V) (h : sR - sL ≠ 0) :
    hllFlux sL sR fL fR L R = fL + sL • (hllStar sL sR fL fR L R - L) := by
  have hk : (sR - sL)⁻¹ * (sR - sL) = 1 := inv_mul_cancel₀ h
  unfold hllFlux hllStar
  linear_combination (norm := module) hk • (fL - sL • L)

omit [LinearOrder α] [IsStrictOrderedRing α] in
/-- `F = f_R + s_R (U* - U_R)` -/
theorem hllFlux_right (sL sR : α) (fL fR L R : V) (h : sR - sL ≠ 0) :
    hllFlux sL sR fL fR L R = fR + sR • (hllStar sL sR fL fR L R - R) := by
  have hk : (sR - sL)⁻¹ * (sR - sL) = 1 := inv_mul_cancel₀ h
  unfold hllFlux hllStar
  linear_combination (norm := module) hk • (fR - sR • R)

omit [LinearOrder α] [IsStrictOrderedRing α] in
/-- consistency: `F(U,U) = f(U)` -/
theorem hllFlux_self (sL sR : α) (f U : V) (h : sR - sL ≠ 0) : hllFlux sL sR f f U U = f := by
  have hk : (sR - sL)⁻¹ * (sR - sL) = 1 := inv_mul_cancel₀ h
  unfold hllFlux
  linear_combination (norm := module) hk • f

/-- **one-step lemma** (identity part).  Cell value `U` (flux `fu`) with left neighbour `Ul` (flux `fl`) and right
neighbour `Ur` (flux `fr`); right face with speeds `a = sL⁺`, `b = sR⁺`, left face with `c = sL⁻`, `d = sR⁻`.
The first-order update is the combination of `U`, `U*(U,Ur)` and `U*(Ul,U)` with the weights
`1 - ν (sR⁻ - sL⁺)`, `-ν sL⁺`, `ν sR⁻`; they sum to one and are nonnegative when `ν ≥ 0`, `sL⁺ ≤ 0 ≤ sR⁻`
and `ν (sR⁻ - sL⁺) ≤ 1`. -/
theorem hll_update_convex (ν a b c d : α) (fl fu fr Ul U Ur : V) (hab : a < b) (hcd : c < d) :
    U - ν • (hllFlux a b fu fr U Ur - hllFlux c d fl fu Ul U)
      = (1 - ν * (d - a)) • U + (ν * (-a)) • hllStar a b fu fr U Ur + (ν * d) • hllStar c d fl fu Ul U
    ∧ (1 - ν * (d - a)) + ν * (-a) + ν * d = 1
    ∧ (0 ≤ ν → a ≤ 0 → 0 ≤ d → ν * (d - a) ≤ 1 → 0 ≤ 1 - ν * (d - a) ∧ 0 ≤ ν * (-a) ∧ 0 ≤ ν * d) := by
  refine ⟨?_, by ring, ?_⟩
  · rw [hllFlux_left a b fu fr U Ur (sub_ne_zero.mpr hab.ne'),
      hllFlux_right c d fl fu Ul U (sub_ne_zero.mpr hcd.ne')]
    module
  · intro hν ha hd hcfl
    exact ⟨by linarith, mul_nonneg hν (by linarith), mul_nonneg hν hd⟩

/-- a convex cone is closed under nonnegative combinations with positive total weight -/
theorem cone_comb3 (Adm : V → Prop) (hadd : ∀ x y, Adm x → Adm y → Adm (x + y))
    (hsmul : ∀ (k : α) x, 0 < k → Adm x → Adm (k • x))
    (a b c : α) (x y z : V) (ha : 0 ≤ a) (hb : 0 ≤ b) (hc : 0 ≤ c) (hsum : 0 < a + b + c)
    (hx : Adm x) (hy : Adm y) (hz : Adm z) : Adm (a • x + b • y + c • z) := by
  have step : ∀ (w : V) (k : α) (v : V), Adm w → 0 ≤ k → Adm v → Adm (w + k • v) := by
    intro w k v hw hk hv
    rcases hk.eq_or_lt with h | h
    · rw [← h, zero_smul, add_zero]; exact hw
    · exact hadd _ _ hw (hsmul k v h hv)
  rcases ha.eq_or_lt with ha0 | ha0
  · rcases hb.eq_or_lt with hb0 | hb0
    · have hc0 : 0 < c := by rw [← ha0, ← hb0] at hsum; linarith
      rw [← ha0, ← hb0, zero_smul, zero_smul, zero_add, zero_add]
      exact hsmul c z hc0 hz
    · rw [← ha0, zero_smul, zero_add]
      exact step _ c z (hsmul b y hb0 hy) hc hz
  · exact step _ c z (step _ b y (hsmul a x ha0 hx) hb hy) hc hz

/-- **one-step lemma**: if `Adm` is a convex cone containing the cell state and the two star states, the
first-order update with an HLL-type flux is in `Adm` as soon as `ν (sR⁻ - sL⁺) ≤ 1`
(in particular when `ν max|s| ≤ 1/2` at both faces). -/
theorem hll_update_adm (Adm : V → Prop) (hadd : ∀ x y, Adm x → Adm y → Adm (x + y))
    (hsmul : ∀ (k : α) x, 0 < k → Adm x → Adm (k • x))
    (ν a b c d : α) (fl fu fr Ul U Ur : V) (hν : 0 ≤ ν) (ha : a ≤ 0) (hab : a < b) (hd : 0 ≤ d) (hcd : c < d)
    (hcfl : ν * (d - a) ≤ 1)
    (hU : Adm U) (hSp : Adm (hllStar a b fu fr U Ur)) (hSm : Adm (hllStar c d fl fu Ul U)) :
    Adm (U - ν • (hllFlux a b fu fr U Ur - hllFlux c d fl fu Ul U)) := by
  obtain ⟨e, hs, hpos⟩ := hll_update_convex ν a b c d fl fu fr Ul U Ur hab hcd
  obtain ⟨h0, h1, h2⟩ := hpos hν ha hd hcfl
  rw [e]
  exact cone_comb3 Adm hadd hsmul _ _ _ _ _ _ h0 h1 h2 (by rw [hs]; exact one_pos) hU hSp hSm

/-- non-vacuity of `hll_update_convex` / `hll_update_adm`: scalar Burgers-type data over ℚ (`f = u²/2`,
`Ul, U, Ur = 2, 1, 3`), cone `{x > 0}`, face speeds `(-1, 3)` and `(-1, 2)`, `ν (sR⁻ - sL⁺) = 1` -/
example : (0 : ℚ) < 1 - (1/3 : ℚ) • (hllFlux (-1 : ℚ) 3 (1/2 : ℚ) (9/2) 1 3 - hllFlux (-1 : ℚ) 2 (2 : ℚ) (1/2) 2 1) :=
  hll_update_adm (α := ℚ) (fun x : ℚ => 0 < x) (fun _ _ hx hy => add_pos hx hy) (fun _ _ hk hx => mul_pos hk hx)
    (1/3) (-1) 3 (-1) 2 2 (1/2) (9/2) 2 1 3 (by norm_num) (by norm_num) (by norm_num) (by norm_num)
    (by norm_num) (by norm_num) (by norm_num) (by norm_num [hllStar]) (by norm_num [hllStar])

/-- the face condition follows from the usual `ν max|s| ≤ 1/2` at the two faces -/
theorem cfl_half_suffices (ν a d : α) (h1 : ν * (-a) ≤ 1 / 2) (h2 : ν * d ≤ 1 / 2) : ν * (d - a) ≤ 1 := by
  have : ν * (d - a) = ν * d + ν * (-a) := by ring
  rw [this]; linarith

end abstract

/-! ## Euler: the HLLE flux of the code -/

/-- the left wave-speed bound computed by `eHlle` -/
noncomputable def hlleSL (γ rL uL pL rR uR pR : ℝ) : ℝ :=
  let cL2 := γ * pL / rL
  let cR2 := γ * pR / rR
  let HL := cL2 / (γ - 1) + 1/2 * uL ^ 2
  let HR := cR2 / (γ - 1) + 1/2 * uR ^ 2
  let roe := eRoe γ rL uL HL rR uR HR
  min 0 (min (roe.1 - roe.2) (uL - HasSqrt.sqrt cL2))

/-- the right wave-speed bound computed by `eHlle` -/
noncomputable def hlleSR (γ rL uL pL rR uR pR : ℝ) : ℝ :=
  let cL2 := γ * pL / rL
  let cR2 := γ * pR / rR
  let HL := cL2 / (γ - 1) + 1/2 * uL ^ 2
  let HR := cR2 / (γ - 1) + 1/2 * uR ^ 2
  let roe := eRoe γ rL uL HL rR uR HR
  max 0 (max (roe.1 + roe.2) (uR + HasSqrt.sqrt cR2))

set_option linter.unnecessarySeqFocus false in
/-- the code's `eHlle` is the abstract HLL flux of the conservative states / physical fluxes with the code's speeds -/
theorem eHlle_eq_hllFlux (γ rL uL pL rR uR pR : ℝ) (hγ : γ - 1 ≠ 0) (hrL : rL ≠ 0) (hrR : rR ≠ 0) :
    eHlle γ rL uL pL rR uR pR
      = hllFlux (hlleSL γ rL uL pL rR uR pR) (hlleSR γ rL uL pL rR uR pR)
          (fluxOf γ rL uL pL) (fluxOf γ rR uR pR) (consOf γ rL uL pL) (consOf γ rR uR pR) := by
  unfold eHlle hlleSL hlleSR hllFlux fluxOf consOf ePhys ePrim2cons
  dsimp only
  generalize min 0 _ = sL
  generalize max 0 _ = sR
  simp only [Prod.smul_mk, Prod.mk_add_mk, Prod.mk_sub_mk, smul_eq_mul, Prod.mk.injEq]
  refine ⟨?_, ?_, ?_⟩ <;> rw [div_eq_inv_mul] <;> congr 1 <;> field_simp <;> ring

/-- C10's `star` is the abstract star state -/
theorem star_eq_hllStar (γ sL sR rL uL pL rR uR pR : ℝ) :
    star γ sL sR rL uL pL rR uR pR
      = hllStar sL sR (fluxOf γ rL uL pL) (fluxOf γ rR uR pR) (consOf γ rL uL pL) (consOf γ rR uR pR) := by
  unfold star hllStar
  dsimp only
  generalize fluxOf γ rL uL pL = FL
  generalize fluxOf γ rR uR pR = FR
  generalize consOf γ rL uL pL = UL
  generalize consOf γ rR uR pR = UR
  obtain ⟨a1, a2, a3⟩ := FL
  obtain ⟨b1, b2, b3⟩ := FR
  obtain ⟨c1, c2, c3⟩ := UL
  obtain ⟨d1, d2, d3⟩ := UR
  simp only [Prod.smul_mk, Prod.mk_sub_mk, smul_eq_mul, Prod.mk.injEq]
  refine ⟨?_, ?_, ?_⟩ <;> rw [div_eq_inv_mul]

/-- the code's wave speeds: two-sided Einfeldt bounds, sign, and strict ordering -/
theorem hlle_speeds (γ rL uL pL rR uR pR : ℝ) (hγ : 1 < γ) (hrL : 0 < rL) (hpL : 0 < pL) (hrR : 0 < rR)
    (hpR : 0 < pR) :
    hlleSL γ rL uL pL rR uR pR ≤ uL - Real.sqrt (γ * pL / rL)
    ∧ uR + Real.sqrt (γ * pR / rR) ≤ hlleSR γ rL uL pL rR uR pR
    ∧ hlleSL γ rL uL pL rR uR pR ≤ 0 ∧ 0 ≤ hlleSR γ rL uL pL rR uR pR
    ∧ hlleSL γ rL uL pL rR uR pR < hlleSR γ rL uL pL rR uR pR := by
  unfold hlleSL hlleSR
  dsimp only
  simp only [HasSqrt.sqrt_real]
  set cL2 := γ * pL / rL with hcL2d
  set cR2 := γ * pR / rR with hcR2d
  set HL := cL2 / (γ - 1) + 1/2 * uL ^ 2 with hHLd
  set HR := cR2 / (γ - 1) + 1/2 * uR ^ 2 with hHRd
  set roe := eRoe γ rL uL HL rR uR HR with hroed
  have hg1 : 0 < γ - 1 := by linarith
  have hcL2 : 0 < cL2 := by positivity
  have hcR2 : 0 < cR2 := by positivity
  have hHL : 0 < HL - 1/2 * uL ^ 2 := by
    have : HL - 1/2 * uL ^ 2 = cL2 / (γ - 1) := by rw [hHLd]; ring
    rw [this]; positivity
  have hHR : 0 < HR - 1/2 * uR ^ 2 := by
    have : HR - 1/2 * uR ^ 2 = cR2 / (γ - 1) := by rw [hHRd]; ring
    rw [this]; positivity
  have hc : 0 < roe.2 := roe_c_pos γ rL uL HL rR uR HR hγ hrL hrR hHL hHR
  have h1 : min 0 (min (roe.1 - roe.2) (uL - Real.sqrt cL2)) ≤ roe.1 - roe.2 :=
    le_trans (min_le_right _ _) (min_le_left _ _)
  have h2 : roe.1 + roe.2 ≤ max 0 (max (roe.1 + roe.2) (uR + Real.sqrt cR2)) :=
    le_trans (le_max_left _ _) (le_max_right _ _)
  refine ⟨le_trans (min_le_right _ _) (min_le_right _ _), le_trans (le_max_right _ _) (le_max_right _ _),
    min_le_left _ _, le_max_left _ _, by linarith⟩

/-- why the hypothesis of `hlle_step_positive` is on the *face* speeds: for `γ = 7/5`, `ρ_L = ρ_R = 7/5`,
`(u,p)_L = (6,1)`, `(u,p)_R = (0,49)` both cell speeds `|u| + c` equal 7, while the code's right speed bound
(Roe average: `u = 3`, `c = √26.8`) exceeds 8 -/
example : max (|(6:ℝ)| + Real.sqrt (7/5 * 1 / (7/5))) (|(0:ℝ)| + Real.sqrt (7/5 * 49 / (7/5))) = 7
    ∧ (8 : ℝ) < hlleSR (7/5) (7/5) 6 1 (7/5) 0 49 := by
  constructor
  · norm_num
  · unfold hlleSR eRoe
    simp only [HasSqrt.sqrt_real]
    refine lt_of_lt_of_le ?_ (le_max_of_le_right (le_max_left _ _))
    norm_num
    rw [← Real.sqrt_div (by norm_num)]
    have : (5:ℝ) < Real.sqrt (134/5) := (Real.lt_sqrt (by norm_num)).mpr (by norm_num)
    linarith

theorem adm_add' (U W : ℝ × ℝ × ℝ) (hU : Adm U) (hW : Adm W) : Adm (U + W) := adm_add U W hU hW
theorem adm_smul' (k : ℝ) (U : ℝ × ℝ × ℝ) (hk : 0 < k) (hU : Adm U) : Adm (k • U) := adm_smul k hk U hU

theorem consOf_adm (γ r u p : ℝ) (hγ : 1 < γ) (hr : 0 < r) (hp : 0 < p) : Adm (consOf γ r u p) := by
  have hg1 : 0 < γ - 1 := by linarith
  unfold Adm consOf ePrim2cons
  dsimp only
  refine ⟨hr, ?_⟩
  have : 2 * r * (p / (γ - 1) + 1 / 2 * r * u ^ 2) - (r * u) ^ 2 = 2 * r * p / (γ - 1) := by
    field_simp; ring
  rw [this]; positivity

/-- **Euler / HLLE, one forward-Euler step, primitive form.**  Cells `i-1, i, i+1` carry the primitive states
`(rl,ul,pl)`, `(r,u,p)`, `(rr,ur,pr)` (positive density and pressure).  If `ν = dt/h ≥ 0` satisfies
`ν (sR(face i) - sL(face i+1)) ≤ 1` for the wave-speed bounds the code computes at the two faces of cell `i`,
the updated conservative state of cell `i` is admissible. -/
theorem hlle_step_adm (γ ν rl ul pl r u p rr ur pr : ℝ) (hγ : 1 < γ) (hν : 0 ≤ ν)
    (hrl : 0 < rl) (hpl : 0 < pl) (hr : 0 < r) (hp : 0 < p) (hrr : 0 < rr) (hpr : 0 < pr)
    (hcfl : ν * (hlleSR γ rl ul pl r u p - hlleSL γ r u p rr ur pr) ≤ 1) :
    Adm (consOf γ r u p - ν • (eHlle γ r u p rr ur pr - eHlle γ rl ul pl r u p)) := by
  have hg1 : γ - 1 ≠ 0 := by have : 0 < γ - 1 := by linarith
                             exact ne_of_gt this
  obtain ⟨a1, a2, a3, -, a5⟩ := hlle_speeds γ r u p rr ur pr hγ hr hp hrr hpr
  obtain ⟨b1, b2, -, b4, b5⟩ := hlle_speeds γ rl ul pl r u p hγ hrl hpl hr hp
  rw [eHlle_eq_hllFlux γ r u p rr ur pr hg1 hr.ne' hrr.ne', eHlle_eq_hllFlux γ rl ul pl r u p hg1 hrl.ne' hr.ne']
  refine hll_update_adm Adm adm_add' adm_smul' ν _ _ _ _ _ _ _ _ _ _ hν a3 a5 b4 b5 hcfl
    (consOf_adm γ r u p hγ hr hp) ?_ ?_
  · rw [← star_eq_hllStar]
    exact star_adm γ _ _ r u p rr ur pr hγ hr hp hrr hpr a1 a2 a5
  · rw [← star_eq_hllStar]
    exact star_adm γ _ _ rl ul pl r u p hγ hrl hpl hr hp b1 b2 b5

set_option linter.unnecessarySeqFocus false in
/-- `prim2cons ∘ cons2prim = id` on states with `ρ ≠ 0` -/
theorem consOf_cons2prim (γ : ℝ) (hγ : γ - 1 ≠ 0) (q : ℝ × ℝ × ℝ) (hr : q.1 ≠ 0) :
    consOf γ (eCons2prim γ q.1 q.2.1 q.2.2).1 (eCons2prim γ q.1 q.2.1 q.2.2).2.1
      (eCons2prim γ q.1 q.2.1 q.2.2).2.2 = q := by
  obtain ⟨r, m, E⟩ := q
  simp only [consOf, ePrim2cons, eCons2prim, ePressure, eKinetic] at hr ⊢
  refine Prod.ext rfl (Prod.ext ?_ ?_) <;> simp only <;> field_simp <;> ring

/-- **Euler / HLLE, one forward-Euler step of the first-order scheme, conservative form.**
`ql, q, qr` are the conservative states `(ρ, m, E)` of cells `i-1, i, i+1`, all with `ρ > 0`, `p > 0`; the
fluxes are evaluated, as in the pipeline, on `cons2prim` of the cell states.  Under
`ν (sR(face i) - sL(face i+1)) ≤ 1` (the code's own wave-speed bounds at the two faces of the cell) the
updated state `q - ν (F_{i+1} - F_i)` has positive density and pressure. -/
theorem hlle_step_positive (γ ν : ℝ) (hγ : 1 < γ) (hν : 0 ≤ ν) (ql q qr : ℝ × ℝ × ℝ)
    (hl : 0 < ql.1 ∧ 0 < ePressure γ ql.1 ql.2.1 ql.2.2)
    (hq : 0 < q.1 ∧ 0 < ePressure γ q.1 q.2.1 q.2.2)
    (hr : 0 < qr.1 ∧ 0 < ePressure γ qr.1 qr.2.1 qr.2.2) :
    let wl := eCons2prim γ ql.1 ql.2.1 ql.2.2
    let w := eCons2prim γ q.1 q.2.1 q.2.2
    let wr := eCons2prim γ qr.1 qr.2.1 qr.2.2
    ν * (hlleSR γ wl.1 wl.2.1 wl.2.2 w.1 w.2.1 w.2.2 - hlleSL γ w.1 w.2.1 w.2.2 wr.1 wr.2.1 wr.2.2) ≤ 1 →
    let q' := q - ν • (eHlle γ w.1 w.2.1 w.2.2 wr.1 wr.2.1 wr.2.2 - eHlle γ wl.1 wl.2.1 wl.2.2 w.1 w.2.1 w.2.2)
    0 < q'.1 ∧ 0 < ePressure γ q'.1 q'.2.1 q'.2.2 := by
  intro wl w wr hcfl q'
  have hg1 : γ - 1 ≠ 0 := by have : 0 < γ - 1 := by linarith
                             exact ne_of_gt this
  have h := hlle_step_adm γ ν wl.1 wl.2.1 wl.2.2 w.1 w.2.1 w.2.2 wr.1 wr.2.1 wr.2.2 hγ hν
    hl.1 hl.2 hq.1 hq.2 hr.1 hr.2 hcfl
  rw [show consOf γ w.1 w.2.1 w.2.2 = q from consOf_cons2prim γ hg1 q hq.1.ne'] at h
  exact (adm_iff_pressure γ q'.1 q'.2.1 q'.2.2 hγ h.1).mp h

/-- non-vacuity of `hlle_step_positive`: a low-pressure cell `(ρ,u,p) = (7/5, 1/2, 1)` between two cells with
`p = 49`, `γ = 7/5`, `ν = 1/10`; the code's face speeds are `sR(face i) = 11/2`, `sL(face i+1) = -9/2`, so the
face condition holds with equality -/
example :
    let q' := ((7/5, 7/10, 107/40) : ℝ × ℝ × ℝ) - (1/10 : ℝ) •
      (eHlle (7/5) (7/5) (1/2) 1 (7/5) (1/2) 49 - eHlle (7/5) (7/5) (1/2) 49 (7/5) (1/2) 1)
    0 < q'.1 ∧ 0 < ePressure (7/5) q'.1 q'.2.1 q'.2.2 := by
  have sR : hlleSR (7/5) (7/5) (1/2) 49 (7/5) (1/2) 1 = 11/2 := by
    unfold hlleSR eRoe; simp only [HasSqrt.sqrt_real]; norm_num
  have sL : hlleSL (7/5) (7/5) (1/2) 1 (7/5) (1/2) 49 = -9/2 := by
    unfold hlleSL eRoe; simp only [HasSqrt.sqrt_real]; norm_num
  have e1 : eCons2prim (7/5 : ℝ) (7/5) (7/10) (107/40) = (7/5, 1/2, 1) := by
    norm_num [eCons2prim, ePressure, eKinetic]
  have e2 : eCons2prim (7/5 : ℝ) (7/5) (7/10) (4907/40) = (7/5, 1/2, 49) := by
    norm_num [eCons2prim, ePressure, eKinetic]
  have h := hlle_step_positive (7/5) (1/10) (by norm_num) (by norm_num)
    (7/5, 7/10, 4907/40) (7/5, 7/10, 107/40) (7/5, 7/10, 4907/40)
    (by norm_num [ePressure, eKinetic]) (by norm_num [ePressure, eKinetic]) (by norm_num [ePressure, eKinetic])
  simp only [e1, e2] at h
  exact h (by rw [sR, sL]; norm_num)

/-! ## shallow water: `swHll` and `swRusanov` keep the depth positive -/

/-- wave-speed bounds computed by `swHll` -/
noncomputable def swHllSL (g hL uL hR uR : ℝ) : ℝ :=
  min 0 (min (uL - HasSqrt.sqrt (g * hL)) (uR - HasSqrt.sqrt (g * hR)))
noncomputable def swHllSR (g hL uL hR uR : ℝ) : ℝ :=
  max 0 (max (uL + HasSqrt.sqrt (g * hL)) (uR + HasSqrt.sqrt (g * hR)))
/-- the Rusanov speed `cmax` computed by `swRusanov`: the larger of the two cell speeds `|u| + c` -/
noncomputable def swRusS (g hL uL hR uR : ℝ) : ℝ :=
  max (|uL| + HasSqrt.sqrt (g * hL)) (|uR| + HasSqrt.sqrt (g * hR))

/-- admissible shallow-water states (conservative `(h, q)`): positive depth; a convex cone -/
def AdmSW (U : ℝ × ℝ) : Prop := 0 < U.1

theorem admSW_add (U W : ℝ × ℝ) (hU : AdmSW U) (hW : AdmSW W) : AdmSW (U + W) := by
  unfold AdmSW at *; rw [Prod.fst_add]; linarith
theorem admSW_smul (k : ℝ) (U : ℝ × ℝ) (hk : 0 < k) (hU : AdmSW U) : AdmSW (k • U) := by
  unfold AdmSW at *; rw [Prod.smul_fst, smul_eq_mul]; exact mul_pos hk hU

theorem swHll_eq_hllFlux (g hL uL hR uR : ℝ) :
    swHll g hL uL hR uR = hllFlux (swHllSL g hL uL hR uR) (swHllSR g hL uL hR uR)
      (swPhys g hL uL) (swPhys g hR uR) (swPrim2cons hL uL) (swPrim2cons hR uR) := by
  unfold swHll swHllSL swHllSR hllFlux swPhys swPrim2cons
  dsimp only
  generalize min 0 _ = sL
  generalize max 0 _ = sR
  simp only [Prod.smul_mk, Prod.mk_add_mk, Prod.mk_sub_mk, smul_eq_mul, Prod.mk.injEq, div_eq_mul_inv]
  constructor <;> ring

theorem swRusanov_eq_hllFlux (g hL uL hR uR : ℝ) (hs : swRusS g hL uL hR uR ≠ 0) :
    swRusanov g hL uL hR uR = hllFlux (-swRusS g hL uL hR uR) (swRusS g hL uL hR uR)
      (swPhys g hL uL) (swPhys g hR uR) (swPrim2cons hL uL) (swPrim2cons hR uR) := by
  unfold swRusanov swRusanovG hllFlux swPhys swPrim2cons
  unfold swRusS at *
  dsimp only
  generalize (max (|uL| + HasSqrt.sqrt (g * hL)) (|uR| + HasSqrt.sqrt (g * hR)) : ℝ) = s at *
  simp only [Prod.smul_mk, Prod.mk_add_mk, Prod.mk_sub_mk, smul_eq_mul, Prod.mk.injEq]
  constructor <;> field_simp <;> ring

/-- depth component of the abstract star state -/
theorem sw_star_fst (g sL sR hL uL hR uR : ℝ) :
    (hllStar sL sR (swPhys g hL uL) (swPhys g hR uR) (swPrim2cons hL uL) (swPrim2cons hR uR)).1
      = (sR * hR - sL * hL - (hR * uR - hL * uL)) / (sR - sL) := by
  unfold hllStar swPhys swPrim2cons
  simp only [Prod.smul_mk, Prod.mk_sub_mk, smul_eq_mul, div_eq_inv_mul]

theorem swHll_speeds (g hL uL hR uR : ℝ) (hg : 0 < g) (hhL : 0 < hL) :
    swHllSL g hL uL hR uR ≤ uL - Real.sqrt (g * hL) ∧ uR + Real.sqrt (g * hR) ≤ swHllSR g hL uL hR uR
    ∧ swHllSL g hL uL hR uR ≤ 0 ∧ 0 ≤ swHllSR g hL uL hR uR
    ∧ swHllSL g hL uL hR uR < swHllSR g hL uL hR uR := by
  unfold swHllSL swHllSR
  simp only [HasSqrt.sqrt_real]
  have hc : 0 < Real.sqrt (g * hL) := Real.sqrt_pos.mpr (by positivity)
  have h1 : min 0 (min (uL - Real.sqrt (g * hL)) (uR - Real.sqrt (g * hR))) ≤ uL - Real.sqrt (g * hL) :=
    le_trans (min_le_right _ _) (min_le_left _ _)
  have h2 : uL + Real.sqrt (g * hL) ≤ max 0 (max (uL + Real.sqrt (g * hL)) (uR + Real.sqrt (g * hR))) :=
    le_trans (le_max_left _ _) (le_max_right _ _)
  exact ⟨h1, le_trans (le_max_right _ _) (le_max_right _ _), min_le_left _ _, le_max_left _ _, by linarith⟩

/-- the `swHll` speeds are bounded by the Rusanov speed, i.e. by the larger of the two *cell* speeds -/
theorem swHll_speeds_le_rus (g hL uL hR uR : ℝ) :
    -swRusS g hL uL hR uR ≤ swHllSL g hL uL hR uR ∧ swHllSR g hL uL hR uR ≤ swRusS g hL uL hR uR := by
  unfold swHllSL swHllSR swRusS
  simp only [HasSqrt.sqrt_real]
  set cL := Real.sqrt (g * hL)
  set cR := Real.sqrt (g * hR)
  have hcL : 0 ≤ cL := Real.sqrt_nonneg _
  have hcR : 0 ≤ cR := Real.sqrt_nonneg _
  have a1 : |uL| + cL ≤ max (|uL| + cL) (|uR| + cR) := le_max_left _ _
  have a2 : |uR| + cR ≤ max (|uL| + cL) (|uR| + cR) := le_max_right _ _
  have b1 := abs_nonneg uL
  have b2 := le_abs_self uL
  have b3 := neg_abs_le uL
  have b4 := le_abs_self uR
  have b5 := neg_abs_le uR
  constructor
  · refine le_min (by linarith) (le_min (by linarith) (by linarith))
  · refine max_le (by linarith) (max_le (by linarith) (by linarith))

theorem swRus_speeds (g hL uL hR uR : ℝ) (hg : 0 < g) (hhL : 0 < hL) :
    -swRusS g hL uL hR uR ≤ uL - Real.sqrt (g * hL) ∧ uR + Real.sqrt (g * hR) ≤ swRusS g hL uL hR uR
    ∧ 0 < swRusS g hL uL hR uR := by
  have hc : 0 < Real.sqrt (g * hL) := Real.sqrt_pos.mpr (by positivity)
  unfold swRusS
  simp only [HasSqrt.sqrt_real]
  have a1 : |uL| + Real.sqrt (g * hL) ≤ max (|uL| + Real.sqrt (g * hL)) (|uR| + Real.sqrt (g * hR)) :=
    le_max_left _ _
  have a2 : |uR| + Real.sqrt (g * hR) ≤ max (|uL| + Real.sqrt (g * hL)) (|uR| + Real.sqrt (g * hR)) :=
    le_max_right _ _
  have b1 := abs_nonneg uL
  have b3 := neg_abs_le uL
  have b4 := le_abs_self uR
  exact ⟨by linarith, by linarith, by linarith⟩

/-- **shallow water / HLL, one forward-Euler step of the first-order scheme**: cells `i-1, i, i+1` with
primitive states `(hl,ul)`, `(h,u)`, `(hr,ur)`, positive depths; under
`ν (sR(face i) - sL(face i+1)) ≤ 1` (the code's speeds) the new depth `h - ν (F_{i+1} - F_i)_h` is positive. -/
theorem swHll_step_positive (g ν hl ul h u hr ur : ℝ) (hg : 0 < g) (hν : 0 ≤ ν)
    (hhl : 0 < hl) (hh : 0 < h) (hhr : 0 < hr)
    (hcfl : ν * (swHllSR g hl ul h u - swHllSL g h u hr ur) ≤ 1) :
    0 < h - ν * ((swHll g h u hr ur).1 - (swHll g hl ul h u).1) := by
  obtain ⟨a1, a2, a3, -, a5⟩ := swHll_speeds g h u hr ur hg hh
  obtain ⟨b1, b2, -, b4, b5⟩ := swHll_speeds g hl ul h u hg hhl
  have key := hll_update_adm AdmSW admSW_add admSW_smul ν _ _ _ _
    (swPhys g hl ul) (swPhys g h u) (swPhys g hr ur) (swPrim2cons hl ul) (swPrim2cons h u) (swPrim2cons hr ur)
    hν a3 a5 b4 b5 hcfl (show AdmSW (swPrim2cons h u) from hh)
    (by unfold AdmSW; rw [sw_star_fst]; exact sw_star_depth_pos g _ _ h u hr ur hg hh hhr a1 a2 a5)
    (by unfold AdmSW; rw [sw_star_fst]; exact sw_star_depth_pos g _ _ hl ul h u hg hhl hh b1 b2 b5)
  rw [← swHll_eq_hllFlux, ← swHll_eq_hllFlux] at key
  unfold AdmSW at key
  simpa only [Prod.fst_sub, Prod.smul_fst, smul_eq_mul, swPrim2cons] using key

/-- **shallow water / Rusanov, one forward-Euler step of the first-order scheme**: the Rusanov speed encloses the
physical speeds, so `ν s ≤ 1/2` at the two faces of the cell is all that is needed. -/
theorem swRusanov_step_positive (g ν hl ul h u hr ur : ℝ) (hg : 0 < g) (hν : 0 ≤ ν)
    (hhl : 0 < hl) (hh : 0 < h) (hhr : 0 < hr)
    (hcflL : ν * swRusS g hl ul h u ≤ 1 / 2) (hcflR : ν * swRusS g h u hr ur ≤ 1 / 2) :
    0 < h - ν * ((swRusanov g h u hr ur).1 - (swRusanov g hl ul h u).1) := by
  obtain ⟨a1, a2, a3⟩ := swRus_speeds g h u hr ur hg hh
  obtain ⟨b1, b2, b3⟩ := swRus_speeds g hl ul h u hg hhl
  have hcfl : ν * (swRusS g hl ul h u - -swRusS g h u hr ur) ≤ 1 :=
    cfl_half_suffices ν _ _ (by rw [neg_neg]; exact hcflR) hcflL
  have key := hll_update_adm AdmSW admSW_add admSW_smul ν
    (-swRusS g h u hr ur) (swRusS g h u hr ur) (-swRusS g hl ul h u) (swRusS g hl ul h u)
    (swPhys g hl ul) (swPhys g h u) (swPhys g hr ur) (swPrim2cons hl ul) (swPrim2cons h u) (swPrim2cons hr ur)
    hν (by linarith) (by linarith) b3.le (by linarith) hcfl (show AdmSW (swPrim2cons h u) from hh)
    (by unfold AdmSW; rw [sw_star_fst]
        exact sw_star_depth_pos g _ _ h u hr ur hg hh hhr a1 a2 (by linarith))
    (by unfold AdmSW; rw [sw_star_fst]
        exact sw_star_depth_pos g _ _ hl ul h u hg hhl hh b1 b2 (by linarith))
  rw [← swRusanov_eq_hllFlux g h u hr ur a3.ne', ← swRusanov_eq_hllFlux g hl ul h u b3.ne'] at key
  unfold AdmSW at key
  simpa only [Prod.fst_sub, Prod.smul_fst, smul_eq_mul, swPrim2cons] using key

/-- non-vacuity of `swHll_step_positive`: a shallow cell `(h,u) = (1,0)` between two deep cells `(4,±1)` flowing
towards it, `g = 1`, face speeds `sR = 3`, `sL = -3`, `ν = 1/6` (equality in the face condition) -/
example : 0 < (1 : ℝ) - 1/6 * ((swHll 1 1 0 4 (-1)).1 - (swHll 1 4 1 1 0).1) := by
  apply swHll_step_positive 1 (1/6) 4 1 1 0 4 (-1) <;> try norm_num
  have e1 : swHllSR 1 4 1 1 0 = 3 := by unfold swHllSR; simp only [HasSqrt.sqrt_real]; norm_num
  have e2 : swHllSL 1 1 0 4 (-1) = -3 := by unfold swHllSL; simp only [HasSqrt.sqrt_real]; norm_num
  rw [e1, e2]; norm_num

/-- non-vacuity of `swRusanov_step_positive`: same data, Rusanov speed `3` at both faces, `ν s = 1/2` -/
example : 0 < (1 : ℝ) - 1/6 * ((swRusanov 1 1 0 4 (-1)).1 - (swRusanov 1 4 1 1 0).1) := by
  have e1 : swRusS 1 4 1 1 0 = 3 := by unfold swRusS; simp only [HasSqrt.sqrt_real]; norm_num
  have e2 : swRusS 1 1 0 4 (-1) = 3 := by unfold swRusS; simp only [HasSqrt.sqrt_real]; norm_num
  apply swRusanov_step_positive 1 (1/6) 4 1 1 0 4 (-1) <;> try norm_num
  · rw [e1]; norm_num
  · rw [e2]; norm_num

/-! ## the pipeline: first-order reconstruction, periodic ends, any mesh -/

section pipeline
variable {α : Type} [Field α] {ι : Type}

/-- the first-order (`extrapol1`) periodic discretisation without sources on an arbitrary mesh -/
def fo1 (m : Mesh1D α) (c2p : (ι → α) → (ι → α)) (Φ : (ι → α) → (ι → α) → (ι → α)) : Disc1D α ι :=
  { mesh := m, scheme := Scheme.extrapol1, bc := BC1D.periodic, c2p := c2p, flux := Φ, src := fun _ => none }

/-- left state at face `f ≤ n`: the primitive state of the cell to the left, cyclically -/
theorem fo1_pL (m : Mesh1D α) (c2p : (ι → α) → (ι → α)) (Φ : (ι → α) → (ι → α) → (ι → α)) (hn : 0 < m.n)
    (q : ι → ℕ → α) (j : ι) (f : ℕ) (hf : f ≤ m.n) :
    (fo1 m c2p Φ).pL q j f = c2p (fun l => q l ((f + m.n - 1) % m.n)) j := by
  simp only [Disc1D.pL, bcFaceL, fo1, Disc1D.pL0, recL, slopeL, Disc1D.pdata]
  by_cases h0 : f = 0
  · subst h0
    have hne : m.n ≠ 0 := by omega
    have hmod : (0 + m.n - 1) % m.n = m.n - 1 := by
      rw [Nat.zero_add]; exact Nat.mod_eq_of_lt (by omega)
    rw [hmod]
    simp [hne]
  · have hmod : (f + m.n - 1) % m.n = f - 1 := by
      rw [show f + m.n - 1 = (f - 1) + m.n by omega, Nat.add_mod_right]
      exact Nat.mod_eq_of_lt (by omega)
    rw [hmod]
    simp [h0]

/-- right state at face `f ≤ n`: the primitive state of the cell to the right, cyclically -/
theorem fo1_pR (m : Mesh1D α) (c2p : (ι → α) → (ι → α)) (Φ : (ι → α) → (ι → α) → (ι → α)) (hn : 0 < m.n)
    (q : ι → ℕ → α) (j : ι) (f : ℕ) (hf : f ≤ m.n) :
    (fo1 m c2p Φ).pR q j f = c2p (fun l => q l (f % m.n)) j := by
  simp only [Disc1D.pR, bcFaceR, fo1, Disc1D.pR0, recR, slopeR, Disc1D.pdata]
  by_cases h0 : f = m.n
  · subst h0
    have hne : (0 : ℕ) ≠ m.n := by omega
    rw [Nat.mod_self]
    simp [hne]
  · rw [Nat.mod_eq_of_lt (by omega)]
    simp [h0]

/-- residual of cell `i` of the first-order periodic pipeline: the flux difference between the Riemann problems
`(cell i, cell i+1)` and `(cell i-1, cell i)`, indices cyclic -/
theorem fo1_rhs (m : Mesh1D α) (c2p : (ι → α) → (ι → α)) (Φ : (ι → α) → (ι → α) → (ι → α)) (hn : 0 < m.n)
    (q : ι → ℕ → α) (k : ι) (i : ℕ) (hi : i < m.n) :
    (fo1 m c2p Φ).rhs q k i
      = -(Φ (c2p (fun l => q l i)) (c2p (fun l => q l ((i + 1) % m.n))) k
          - Φ (c2p (fun l => q l ((i + m.n - 1) % m.n))) (c2p (fun l => q l i)) k) / m.vol i := by
  have hmod : (i + 1 + m.n - 1) % m.n = i := by
    rw [show i + 1 + m.n - 1 = i + m.n by omega, Nat.add_mod_right]
    exact Nat.mod_eq_of_lt hi
  have hL1 : ∀ j, (fo1 m c2p Φ).pL q j (i + 1) = c2p (fun l => q l i) j := fun j => by
    rw [fo1_pL m c2p Φ hn q j (i + 1) (by omega), hmod]
  have hL0 : ∀ j, (fo1 m c2p Φ).pL q j i = c2p (fun l => q l ((i + m.n - 1) % m.n)) j := fun j =>
    fo1_pL m c2p Φ hn q j i (by omega)
  have hR1 : ∀ j, (fo1 m c2p Φ).pR q j (i + 1) = c2p (fun l => q l ((i + 1) % m.n)) j := fun j =>
    fo1_pR m c2p Φ hn q j (i + 1) (by omega)
  have hR0 : ∀ j, (fo1 m c2p Φ).pR q j i = c2p (fun l => q l i) j := fun j => by
    rw [fo1_pR m c2p Φ hn q j i (by omega), Nat.mod_eq_of_lt hi]
  show -(Φ (fun j => (fo1 m c2p Φ).pL q j (i + 1)) (fun j => (fo1 m c2p Φ).pR q j (i + 1)) k
        - Φ (fun j => (fo1 m c2p Φ).pL q j i) (fun j => (fo1 m c2p Φ).pR q j i) k) / m.vol i = _
  simp only [hL1, hL0, hR1, hR0]

/-- a uniform field is steady for the first-order periodic pipeline, whatever the flux -/
theorem fo1_rhs_const (m : Mesh1D α) (c2p : (ι → α) → (ι → α)) (Φ : (ι → α) → (ι → α) → (ι → α)) (hn : 0 < m.n)
    (q : ι → ℕ → α) (hq : ∀ l i j, i < m.n → j < m.n → q l i = q l j) (k : ι) (i : ℕ) (hi : i < m.n) :
    (fo1 m c2p Φ).rhs q k i = 0 := by
  rw [fo1_rhs m c2p Φ hn q k i hi]
  have e1 : (fun l => q l ((i + 1) % m.n)) = (fun l => q l i) :=
    funext fun l => hq l _ _ (Nat.mod_lt _ hn) hi
  have e2 : (fun l => q l ((i + m.n - 1) % m.n)) = (fun l => q l i) :=
    funext fun l => hq l _ _ (Nat.mod_lt _ hn) hi
  rw [e1, e2, sub_self, neg_zero, zero_div]

/-- `fo1` on the uniform mesh is the discretisation of `rhs_periodic_uniform_eq_cyc` with `s = extrapol1` -/
example (n : ℕ) (L x0 : α) (c2p : (ι → α) → (ι → α)) (Φ : (ι → α) → (ι → α) → (ι → α)) :
    fo1 (uniMesh n L x0) c2p Φ
      = { mesh := uniMesh n L x0, scheme := Scheme.extrapol1, bc := BC1D.periodic, c2p := c2p, flux := Φ,
          src := fun _ => none } := rfl

end pipeline

/-! ### Euler / HLLE on the pipeline -/

/-- the first-order periodic Euler discretisation with the `hlle` flux, as assembled by the code -/
noncomputable def eulerHlleDisc (γ : ℝ) (m : Mesh1D ℝ) : Disc1D ℝ ℕ :=
  fo1 m (eulerC2P γ) (eulerFluxV γ EulerFlux.hlle)

/-- primitive state of cell `c` as the pipeline computes it -/
noncomputable def ePrimAt (γ : ℝ) (q : ℕ → ℕ → ℝ) (c : ℕ) : ℝ × ℝ × ℝ := eCons2prim γ (q 0 c) (q 1 c) (q 2 c)

/-- the wave-speed bounds the code computes at face `f` of the periodic mesh (between cells `f-1`, `f`, cyclically) -/
noncomputable def eFaceSL (γ : ℝ) (n : ℕ) (q : ℕ → ℕ → ℝ) (f : ℕ) : ℝ :=
  hlleSL γ (ePrimAt γ q ((f + n - 1) % n)).1 (ePrimAt γ q ((f + n - 1) % n)).2.1 (ePrimAt γ q ((f + n - 1) % n)).2.2
    (ePrimAt γ q (f % n)).1 (ePrimAt γ q (f % n)).2.1 (ePrimAt γ q (f % n)).2.2
noncomputable def eFaceSR (γ : ℝ) (n : ℕ) (q : ℕ → ℕ → ℝ) (f : ℕ) : ℝ :=
  hlleSR γ (ePrimAt γ q ((f + n - 1) % n)).1 (ePrimAt γ q ((f + n - 1) % n)).2.1 (ePrimAt γ q ((f + n - 1) % n)).2.2
    (ePrimAt γ q (f % n)).1 (ePrimAt γ q (f % n)).2.1 (ePrimAt γ q (f % n)).2.2

/-- every cell `i < n` has positive density and pressure -/
def EAdmField (γ : ℝ) (n : ℕ) (q : ℕ → ℕ → ℝ) : Prop :=
  ∀ i, i < n → 0 < q 0 i ∧ 0 < ePressure γ (q 0 i) (q 1 i) (q 2 i)

/-- face condition of cell `i`: `dt/vol_i (sR(face i) - sL(face i+1)) ≤ 1` with the code's speeds, for every cell -/
def EFaceCFL (γ dt : ℝ) (m : Mesh1D ℝ) (q : ℕ → ℕ → ℝ) : Prop :=
  ∀ i, i < m.n → dt / m.vol i * (eFaceSR γ m.n q i - eFaceSL γ m.n q (i + 1)) ≤ 1

/-- cell `i` of `q + dt • rhs q`, as a conservative triple -/
theorem euler_fo1_cell (γ dt : ℝ) (m : Mesh1D ℝ) (hn : 0 < m.n) (q : ℕ → ℕ → ℝ) (i : ℕ) (hi : i < m.n) :
    ((q + dt • (eulerHlleDisc γ m).rhs q) 0 i, (q + dt • (eulerHlleDisc γ m).rhs q) 1 i,
        (q + dt • (eulerHlleDisc γ m).rhs q) 2 i)
      = ((q 0 i, q 1 i, q 2 i) : ℝ × ℝ × ℝ) - (dt / m.vol i) •
        (eHlle γ (ePrimAt γ q i).1 (ePrimAt γ q i).2.1 (ePrimAt γ q i).2.2
            (ePrimAt γ q ((i + 1) % m.n)).1 (ePrimAt γ q ((i + 1) % m.n)).2.1 (ePrimAt γ q ((i + 1) % m.n)).2.2
          - eHlle γ (ePrimAt γ q ((i + m.n - 1) % m.n)).1 (ePrimAt γ q ((i + m.n - 1) % m.n)).2.1
              (ePrimAt γ q ((i + m.n - 1) % m.n)).2.2 (ePrimAt γ q i).1 (ePrimAt γ q i).2.1 (ePrimAt γ q i).2.2) := by
  simp only [Pi.add_apply, Pi.smul_apply, smul_eq_mul, eulerHlleDisc, fo1_rhs m _ _ hn q _ i hi]
  simp only [eulerFluxV, eulerC2P, vec3, ePrimAt]
  refine Prod.ext ?_ (Prod.ext ?_ ?_) <;>
    simp only [Prod.fst_sub, Prod.snd_sub, Prod.smul_fst, Prod.smul_snd, smul_eq_mul] <;> ring

/-- **Euler / HLLE on the pipeline, forward Euler**: first-order reconstruction, periodic ends, any mesh with
positive cell volumes.  If every cell has positive density and pressure and every cell satisfies the face
condition, every cell of `q + dt • rhs q` has positive density and pressure. -/
theorem hlle_fe_positive (γ dt : ℝ) (hγ : 1 < γ) (hdt : 0 ≤ dt) (m : Mesh1D ℝ) (hn : 0 < m.n)
    (hvol : ∀ i, i < m.n → 0 < m.vol i) (q : ℕ → ℕ → ℝ) (hq : EAdmField γ m.n q) (hcfl : EFaceCFL γ dt m q) :
    EAdmField γ m.n (q + dt • (eulerHlleDisc γ m).rhs q) := by
  intro i hi
  have hil : (i + m.n - 1) % m.n < m.n := Nat.mod_lt _ hn
  have hir : (i + 1) % m.n < m.n := Nat.mod_lt _ hn
  have hν : 0 ≤ dt / m.vol i := div_nonneg hdt (hvol i hi).le
  have hc := hcfl i hi
  unfold eFaceSR eFaceSL at hc
  rw [Nat.mod_eq_of_lt hi, show i + 1 + m.n - 1 = i + m.n by omega, Nat.add_mod_right,
    Nat.mod_eq_of_lt hi] at hc
  have h := hlle_step_positive γ (dt / m.vol i) hγ hν
    (q 0 ((i + m.n - 1) % m.n), q 1 ((i + m.n - 1) % m.n), q 2 ((i + m.n - 1) % m.n))
    (q 0 i, q 1 i, q 2 i) (q 0 ((i + 1) % m.n), q 1 ((i + 1) % m.n), q 2 ((i + 1) % m.n))
    (hq _ hil) (hq i hi) (hq _ hir) hc
  have e := euler_fo1_cell γ dt m hn q i hi
  simp only [ePrimAt] at e
  dsimp only at h
  rw [← e] at h
  exact h

/-- the same on the uniform periodic mesh `uniMesh n L x0` (`dx = L/n`), the setting of `rhs_periodic_uniform_eq_cyc` -/
theorem hlle_uniform_fe_positive (γ dt L x0 : ℝ) (n : ℕ) (hγ : 1 < γ) (hdt : 0 ≤ dt) (hn : 0 < n) (hL : 0 < L)
    (q : ℕ → ℕ → ℝ) (hq : EAdmField γ n q)
    (hcfl : ∀ i, i < n → dt / (L / n) * (eFaceSR γ n q i - eFaceSL γ n q (i + 1)) ≤ 1) :
    EAdmField γ n (q + dt • (eulerHlleDisc γ (uniMesh n L x0)).rhs q) := by
  have hdx : 0 < L / (n : ℝ) := div_pos hL (Nat.cast_pos.mpr hn)
  refine hlle_fe_positive γ dt hγ hdt (uniMesh n L x0) hn (fun i _ => by rw [uni_vol]; exact hdx) q hq ?_
  intro i hi
  rw [uni_vol]
  exact hcfl i hi

/-! ### shallow water on the pipeline: here the face speeds are bounded by the *cell* speeds `|u| + c` -/

/-- the first-order periodic shallow-water discretisation with flux `fl`, as assembled by the code -/
noncomputable def swDisc (g : ℝ) (fl : SwFlux) (m : Mesh1D ℝ) : Disc1D ℝ ℕ := fo1 m swC2P (swFluxV g fl)

/-- cell speed `|q/h| + sqrt(g h)` on conservative data: the denominator of the code's `swDt` -/
noncomputable def swCellSpeed (g : ℝ) (q : ℕ → ℕ → ℝ) (c : ℕ) : ℝ := |q 1 c / q 0 c| + HasSqrt.sqrt (g * q 0 c)

/-- every cell `i < n` has positive depth -/
def SwAdmField (n : ℕ) (q : ℕ → ℕ → ℝ) : Prop := ∀ i, i < n → 0 < q 0 i

/-- cell CFL condition: `dt/vol_i (|u_j| + c_j) ≤ 1/2` for cell `i` and its two (cyclic) neighbours `j` -/
def SwCellCFL (g dt : ℝ) (m : Mesh1D ℝ) (q : ℕ → ℕ → ℝ) : Prop :=
  ∀ i, i < m.n → dt / m.vol i * swCellSpeed g q ((i + m.n - 1) % m.n) ≤ 1 / 2
    ∧ dt / m.vol i * swCellSpeed g q i ≤ 1 / 2 ∧ dt / m.vol i * swCellSpeed g q ((i + 1) % m.n) ≤ 1 / 2

theorem mul_max_le_of (ν a b c : ℝ) (ha : ν * a ≤ c) (hb : ν * b ≤ c) : ν * max a b ≤ c := by
  rcases le_total a b with h | h
  · rw [max_eq_right h]; exact hb
  · rw [max_eq_left h]; exact ha

/-- depth of cell `i` of `q + dt • rhs q` -/
theorem sw_fo1_cell (g dt : ℝ) (fl : SwFlux) (m : Mesh1D ℝ) (hn : 0 < m.n) (q : ℕ → ℕ → ℝ) (i : ℕ) (hi : i < m.n) :
    (q + dt • (swDisc g fl m).rhs q) 0 i
      = q 0 i - dt / m.vol i *
        (swFluxV g fl (swC2P (fun l => q l i)) (swC2P (fun l => q l ((i + 1) % m.n))) 0
          - swFluxV g fl (swC2P (fun l => q l ((i + m.n - 1) % m.n))) (swC2P (fun l => q l i)) 0) := by
  simp only [Pi.add_apply, Pi.smul_apply, smul_eq_mul, swDisc, fo1_rhs m _ _ hn q _ i hi]
  ring

/-- **shallow water on the pipeline, forward Euler, `rusanov` and `hll` fluxes**: first-order reconstruction,
periodic ends, any mesh with positive cell volumes.  Positive depths and the cell CFL condition
`dt/vol_i (|u| + c) ≤ 1/2` (cell and neighbours) give positive depths after `q + dt • rhs q`. -/
theorem sw_fe_positive (g dt : ℝ) (hg : 0 < g) (hdt : 0 ≤ dt) (fl : SwFlux) (hfl : fl ≠ SwFlux.centered)
    (m : Mesh1D ℝ) (hn : 0 < m.n) (hvol : ∀ i, i < m.n → 0 < m.vol i) (q : ℕ → ℕ → ℝ)
    (hq : SwAdmField m.n q) (hcfl : SwCellCFL g dt m q) :
    SwAdmField m.n (q + dt • (swDisc g fl m).rhs q) := by
  intro i hi
  have hil : (i + m.n - 1) % m.n < m.n := Nat.mod_lt _ hn
  have hir : (i + 1) % m.n < m.n := Nat.mod_lt _ hn
  have hν : 0 ≤ dt / m.vol i := div_nonneg hdt (hvol i hi).le
  obtain ⟨c1, c2, c3⟩ := hcfl i hi
  rw [sw_fo1_cell g dt fl m hn q i hi]
  set il := (i + m.n - 1) % m.n
  set ir := (i + 1) % m.n
  have hSl : dt / m.vol i * swRusS g (q 0 il) (q 1 il / q 0 il) (q 0 i) (q 1 i / q 0 i) ≤ 1 / 2 :=
    mul_max_le_of _ _ _ _ c1 c2
  have hSr : dt / m.vol i * swRusS g (q 0 i) (q 1 i / q 0 i) (q 0 ir) (q 1 ir / q 0 ir) ≤ 1 / 2 :=
    mul_max_le_of _ _ _ _ c2 c3
  cases fl with
  | centered => exact absurd rfl hfl
  | rusanov =>
    exact swRusanov_step_positive g _ (q 0 il) (q 1 il / q 0 il) (q 0 i) (q 1 i / q 0 i) (q 0 ir) (q 1 ir / q 0 ir)
      hg hν (hq il hil) (hq i hi) (hq ir hir) hSl hSr
  | hll =>
    refine swHll_step_positive g _ (q 0 il) (q 1 il / q 0 il) (q 0 i) (q 1 i / q 0 i) (q 0 ir) (q 1 ir / q 0 ir)
      hg hν (hq il hil) (hq i hi) (hq ir hir) ?_
    have b1 := (swHll_speeds_le_rus g (q 0 il) (q 1 il / q 0 il) (q 0 i) (q 1 i / q 0 i)).2
    have b2 := (swHll_speeds_le_rus g (q 0 i) (q 1 i / q 0 i) (q 0 ir) (q 1 ir / q 0 ir)).1
    have b3 := mul_le_mul_of_nonneg_left b1 hν
    have b4 := mul_le_mul_of_nonneg_left b2 hν
    rw [mul_sub]
    linarith

/-- on a uniform mesh, a time step not larger than the code's `swDt` of any cell with `cfl ≤ 1/2` satisfies the
cell CFL condition (the code takes `dt = min_j swDt_j`) -/
theorem sw_cellCFL_of_swDt (g cfl dt L x0 : ℝ) (n : ℕ) (hn : 0 < n) (hL : 0 < L) (hg : 0 < g)
    (hcfl : cfl ≤ 1 / 2) (q : ℕ → ℕ → ℝ) (hq : SwAdmField n q)
    (hle : ∀ j, j < n → dt ≤ swDt g cfl (L / n) (q 0 j) (q 1 j)) :
    SwCellCFL g dt (uniMesh n L x0) q := by
  have hdx : 0 < L / (n : ℝ) := div_pos hL (Nat.cast_pos.mpr hn)
  have key : ∀ j, j < n → dt / (L / n) * swCellSpeed g q j ≤ 1 / 2 := by
    intro j hj
    have hs : 0 < swCellSpeed g q j := by
      unfold swCellSpeed
      have : 0 < Real.sqrt (g * q 0 j) := Real.sqrt_pos.mpr (mul_pos hg (hq j hj))
      have := abs_nonneg (q 1 j / q 0 j)
      simp only [HasSqrt.sqrt_real]; linarith
    have h1 : dt ≤ cfl * (L / n) / swCellSpeed g q j := hle j hj
    rw [le_div_iff₀ hs] at h1
    rw [div_mul_eq_mul_div, div_le_iff₀ hdx]
    nlinarith
  intro i hi
  have hnn : (uniMesh n L x0).n = n := rfl
  rw [hnn] at hi ⊢
  rw [uni_vol]
  exact ⟨key _ (Nat.mod_lt _ hn), key i hi, key _ (Nat.mod_lt _ hn)⟩

/-- **shallow water, the property as stated**: uniform periodic mesh, first-order scheme with the `rusanov` or
`hll` flux, `0 ≤ dt ≤ swDt_j` for every cell with `cfl ≤ 1/2`: one forward-Euler step keeps every depth positive. -/
theorem sw_uniform_fe_positive (g cfl dt L x0 : ℝ) (n : ℕ) (hn : 0 < n) (hL : 0 < L) (hg : 0 < g) (hdt : 0 ≤ dt)
    (hcfl : cfl ≤ 1 / 2) (fl : SwFlux) (hfl : fl ≠ SwFlux.centered) (q : ℕ → ℕ → ℝ) (hq : SwAdmField n q)
    (hle : ∀ j, j < n → dt ≤ swDt g cfl (L / n) (q 0 j) (q 1 j)) :
    SwAdmField n (q + dt • (swDisc g fl (uniMesh n L x0)).rhs q) := by
  have hdx : 0 < L / (n : ℝ) := div_pos hL (Nat.cast_pos.mpr hn)
  exact sw_fe_positive g dt hg hdt fl hfl (uniMesh n L x0) hn (fun i _ => by rw [uni_vol]; exact hdx) q hq
    (sw_cellCFL_of_swDt g cfl dt L x0 n hn hL hg hcfl q hq hle)

/-! ## SSP integrators: convex combinations of forward-Euler steps -/

section ssp
variable {α : Type} [Field α] [LinearOrder α] [IsStrictOrderedRing α] {V : Type} [AddCommGroup V] [Module α V]
open Flowdyn.C05 Flowdyn.Gen

/-- generic SSP lift for `rk2_heun`: an invariant convex cone `Inv` that forward Euler preserves under a
step condition `C` is preserved by `rk2_heun` when `C` holds at both stage states -/
theorem ssp_rk2_heun_inv (Inv C : V → Prop) (hadd : ∀ x y, Inv x → Inv y → Inv (x + y))
    (hsmul : ∀ (k : α) x, 0 < k → Inv x → Inv (k • x)) (R : α → V → V) (dt t : α) (q : V)
    (step : ∀ s v, Inv v → C v → Inv (fe R dt s v))
    (h0 : Inv q) (c0 : C q) (c1 : C (fe R dt t q)) :
    Inv (rkStep (castT butcher_rk2_heun) R dt t q).data := by
  rw [rk2_heun_ssp]
  have h1 := step t q h0 c0
  have h2 := step (t + dt * 1) _ h1 c1
  exact hadd _ _ (hsmul _ _ (by norm_num) h0) (hsmul _ _ (by norm_num) h2)

/-- generic SSP lift for `rk3ssp` (Shu-Osher form): `C` is needed at the three stage states
`q`, `u1 = FE(q)`, `u2 = ¾ q + ¼ FE(u1)` -/
theorem ssp_rk3ssp_inv (Inv C : V → Prop) (hadd : ∀ x y, Inv x → Inv y → Inv (x + y))
    (hsmul : ∀ (k : α) x, 0 < k → Inv x → Inv (k • x)) (R : α → V → V) (dt t : α) (q : V)
    (step : ∀ s v, Inv v → C v → Inv (fe R dt s v))
    (h0 : Inv q) (c0 : C q) (c1 : C (fe R dt t q))
    (c2 : C ((3/4 : α) • q + (1/4 : α) • fe R dt (t + dt * 1) (fe R dt t q))) :
    Inv (rkStep (castT butcher_rk3ssp) R dt t q).data := by
  have e := rk3ssp_ssp R dt t q
  dsimp only at e
  rw [e]
  have h1 := step t q h0 c0
  have h1' := step (t + dt * 1) _ h1 c1
  have h2 : Inv ((3/4 : α) • q + (1/4 : α) • fe R dt (t + dt * 1) (fe R dt t q)) :=
    hadd _ _ (hsmul _ _ (by norm_num) h0) (hsmul _ _ (by norm_num) h1')
  have h3 := step (t + dt * (1/2)) _ h2 c2
  exact hadd _ _ (hsmul _ _ (by norm_num) h0) (hsmul _ _ (by norm_num) h3)

end ssp

/-! ### the admissible fields are convex cones -/

theorem eAdmField_iff (γ : ℝ) (hγ : 1 < γ) (n : ℕ) (q : ℕ → ℕ → ℝ) :
    EAdmField γ n q ↔ ∀ i, i < n → Adm (q 0 i, q 1 i, q 2 i) := by
  constructor
  · intro h i hi
    exact (adm_iff_pressure γ _ _ _ hγ (h i hi).1).mpr (h i hi)
  · intro h i hi
    exact (adm_iff_pressure γ _ _ _ hγ (h i hi).1).mp (h i hi)

theorem eAdmField_add (γ : ℝ) (hγ : 1 < γ) (n : ℕ) (q q' : ℕ → ℕ → ℝ) (h : EAdmField γ n q)
    (h' : EAdmField γ n q') : EAdmField γ n (q + q') := by
  rw [eAdmField_iff γ hγ] at *
  intro i hi
  exact adm_add _ _ (h i hi) (h' i hi)

theorem eAdmField_smul (γ : ℝ) (hγ : 1 < γ) (n : ℕ) (k : ℝ) (q : ℕ → ℕ → ℝ) (hk : 0 < k)
    (h : EAdmField γ n q) : EAdmField γ n (k • q) := by
  rw [eAdmField_iff γ hγ] at *
  intro i hi
  exact adm_smul k hk _ (h i hi)

theorem swAdmField_add (n : ℕ) (q q' : ℕ → ℕ → ℝ) (h : SwAdmField n q) (h' : SwAdmField n q') :
    SwAdmField n (q + q') := fun i hi => add_pos (h i hi) (h' i hi)

theorem swAdmField_smul (n : ℕ) (k : ℝ) (q : ℕ → ℕ → ℝ) (hk : 0 < k) (h : SwAdmField n q) :
    SwAdmField n (k • q) := fun i hi => mul_pos hk (h i hi)

open Flowdyn.C05 Flowdyn.Gen in
/-- **Euler / HLLE, `rk2_heun`** (first order in space, periodic, any mesh): positivity of density and pressure is
kept if the face condition holds at both stage states `q` and `FE(q)`. -/
theorem hlle_rk2_heun_positive (γ dt t : ℝ) (hγ : 1 < γ) (hdt : 0 ≤ dt) (m : Mesh1D ℝ) (hn : 0 < m.n)
    (hvol : ∀ i, i < m.n → 0 < m.vol i) (q : ℕ → ℕ → ℝ) (hq : EAdmField γ m.n q)
    (c0 : EFaceCFL γ dt m q)
    (c1 : EFaceCFL γ dt m (fe (fun _ v => (eulerHlleDisc γ m).rhs v) dt t q)) :
    EAdmField γ m.n (rkStep (castT butcher_rk2_heun) (fun _ v => (eulerHlleDisc γ m).rhs v) dt t q).data :=
  ssp_rk2_heun_inv (EAdmField γ m.n) (EFaceCFL γ dt m) (eAdmField_add γ hγ m.n)
    (fun k x hk hx => eAdmField_smul γ hγ m.n k x hk hx) _ dt t q
    (fun _ v hv cv => hlle_fe_positive γ dt hγ hdt m hn hvol v hv cv) hq c0 c1

open Flowdyn.C05 Flowdyn.Gen in
/-- **Euler / HLLE, `rk3ssp`**: the face condition is needed at the three Shu-Osher stage states. -/
theorem hlle_rk3ssp_positive (γ dt t : ℝ) (hγ : 1 < γ) (hdt : 0 ≤ dt) (m : Mesh1D ℝ) (hn : 0 < m.n)
    (hvol : ∀ i, i < m.n → 0 < m.vol i) (q : ℕ → ℕ → ℝ) (hq : EAdmField γ m.n q)
    (c0 : EFaceCFL γ dt m q)
    (c1 : EFaceCFL γ dt m (fe (fun _ v => (eulerHlleDisc γ m).rhs v) dt t q))
    (c2 : EFaceCFL γ dt m ((3/4 : ℝ) • q + (1/4 : ℝ) • fe (fun _ v => (eulerHlleDisc γ m).rhs v) dt (t + dt * 1)
            (fe (fun _ v => (eulerHlleDisc γ m).rhs v) dt t q))) :
    EAdmField γ m.n (rkStep (castT butcher_rk3ssp) (fun _ v => (eulerHlleDisc γ m).rhs v) dt t q).data :=
  ssp_rk3ssp_inv (EAdmField γ m.n) (EFaceCFL γ dt m) (eAdmField_add γ hγ m.n)
    (fun k x hk hx => eAdmField_smul γ hγ m.n k x hk hx) _ dt t q
    (fun _ v hv cv => hlle_fe_positive γ dt hγ hdt m hn hvol v hv cv) hq c0 c1 c2

open Flowdyn.C05 Flowdyn.Gen in
/-- **shallow water, `rk2_heun`**, `rusanov` / `hll`: depth positivity under the cell CFL condition at both stages -/
theorem sw_rk2_heun_positive (g dt t : ℝ) (hg : 0 < g) (hdt : 0 ≤ dt) (fl : SwFlux) (hfl : fl ≠ SwFlux.centered)
    (m : Mesh1D ℝ) (hn : 0 < m.n) (hvol : ∀ i, i < m.n → 0 < m.vol i) (q : ℕ → ℕ → ℝ)
    (hq : SwAdmField m.n q) (c0 : SwCellCFL g dt m q)
    (c1 : SwCellCFL g dt m (fe (fun _ v => (swDisc g fl m).rhs v) dt t q)) :
    SwAdmField m.n (rkStep (castT butcher_rk2_heun) (fun _ v => (swDisc g fl m).rhs v) dt t q).data :=
  ssp_rk2_heun_inv (SwAdmField m.n) (SwCellCFL g dt m) (swAdmField_add m.n)
    (fun k x hk hx => swAdmField_smul m.n k x hk hx) _ dt t q
    (fun _ v hv cv => sw_fe_positive g dt hg hdt fl hfl m hn hvol v hv cv) hq c0 c1

open Flowdyn.C05 Flowdyn.Gen in
/-- **shallow water, `rk3ssp`**, `rusanov` / `hll`: the cell CFL condition at the three Shu-Osher stage states -/
theorem sw_rk3ssp_positive (g dt t : ℝ) (hg : 0 < g) (hdt : 0 ≤ dt) (fl : SwFlux) (hfl : fl ≠ SwFlux.centered)
    (m : Mesh1D ℝ) (hn : 0 < m.n) (hvol : ∀ i, i < m.n → 0 < m.vol i) (q : ℕ → ℕ → ℝ)
    (hq : SwAdmField m.n q) (c0 : SwCellCFL g dt m q)
    (c1 : SwCellCFL g dt m (fe (fun _ v => (swDisc g fl m).rhs v) dt t q))
    (c2 : SwCellCFL g dt m ((3/4 : ℝ) • q + (1/4 : ℝ) • fe (fun _ v => (swDisc g fl m).rhs v) dt (t + dt * 1)
            (fe (fun _ v => (swDisc g fl m).rhs v) dt t q))) :
    SwAdmField m.n (rkStep (castT butcher_rk3ssp) (fun _ v => (swDisc g fl m).rhs v) dt t q).data :=
  ssp_rk3ssp_inv (SwAdmField m.n) (SwCellCFL g dt m) (swAdmField_add m.n)
    (fun k x hk hx => swAdmField_smul m.n k x hk hx) _ dt t q
    (fun _ v hv cv => sw_fe_positive g dt hg hdt fl hfl m hn hvol v hv cv) hq c0 c1 c2

/-! ### the `explicit` integrator of the model is the forward-Euler step -/

/-- Euler / HLLE with the model's `explicitStep` -/
theorem hlle_explicit_positive (γ dt t : ℝ) (hγ : 1 < γ) (hdt : 0 ≤ dt) (m : Mesh1D ℝ) (hn : 0 < m.n)
    (hvol : ∀ i, i < m.n → 0 < m.vol i) (q : ℕ → ℕ → ℝ) (hq : EAdmField γ m.n q) (hcfl : EFaceCFL γ dt m q) :
    EAdmField γ m.n (explicitStep (fun _ v => (eulerHlleDisc γ m).rhs v) dt t q).data := by
  rw [(C05.explicit_step (fun _ v => (eulerHlleDisc γ m).rhs v) dt t q).2.1]
  exact hlle_fe_positive γ dt hγ hdt m hn hvol q hq hcfl

/-- shallow water (`rusanov` / `hll`) with the model's `explicitStep` -/
theorem sw_explicit_positive (g dt t : ℝ) (hg : 0 < g) (hdt : 0 ≤ dt) (fl : SwFlux) (hfl : fl ≠ SwFlux.centered)
    (m : Mesh1D ℝ) (hn : 0 < m.n) (hvol : ∀ i, i < m.n → 0 < m.vol i) (q : ℕ → ℕ → ℝ)
    (hq : SwAdmField m.n q) (hcfl : SwCellCFL g dt m q) :
    SwAdmField m.n (explicitStep (fun _ v => (swDisc g fl m).rhs v) dt t q).data := by
  rw [(C05.explicit_step (fun _ v => (swDisc g fl m).rhs v) dt t q).2.1]
  exact sw_fe_positive g dt hg hdt fl hfl m hn hvol q hq hcfl

/-! ## non-vacuity of the pipeline and SSP theorems (two-cell periodic meshes, `uniMesh 2 1 0`, `dx = 1/2`) -/

section examples
open Flowdyn.C05 Flowdyn.Gen

/-- two-cell periodic Euler field (conservative): cell 0 = `(ρ,u,p) = (7/5, 1/2, 49)`, cell 1 = `(7/5, 1/2, 1)` -/
noncomputable def exEuler : ℕ → ℕ → ℝ :=
  fun k i => if k = 0 then 7/5 else if k = 1 then 7/10 else if i = 0 then 4907/40 else 107/40

theorem exEuler_adm : EAdmField (7/5) 2 exEuler := by
  intro i hi
  interval_cases i <;> norm_num [exEuler, ePressure, eKinetic]

/-- face speeds of the code: `(15/2, -13/2)` around cell 0, `(11/2, -9/2)` around cell 1; `dt/dx = 1/14` -/
theorem exEuler_cfl : EFaceCFL (7/5) (1/28) (uniMesh 2 1 0) exEuler := by
  have hp0 : ePrimAt (7/5) exEuler 0 = (7/5, 1/2, 49) := by
    norm_num [ePrimAt, exEuler, eCons2prim, ePressure, eKinetic]
  have hp1 : ePrimAt (7/5) exEuler 1 = (7/5, 1/2, 1) := by
    norm_num [ePrimAt, exEuler, eCons2prim, ePressure, eKinetic]
  have s1 : hlleSR (7/5) (7/5) (1/2) 1 (7/5) (1/2) 49 = 15/2 := by
    unfold hlleSR eRoe; simp only [HasSqrt.sqrt_real]; norm_num
  have s2 : hlleSL (7/5) (7/5) (1/2) 49 (7/5) (1/2) 1 = -13/2 := by
    unfold hlleSL eRoe; simp only [HasSqrt.sqrt_real]; norm_num
  have s3 : hlleSR (7/5) (7/5) (1/2) 49 (7/5) (1/2) 1 = 11/2 := by
    unfold hlleSR eRoe; simp only [HasSqrt.sqrt_real]; norm_num
  have s4 : hlleSL (7/5) (7/5) (1/2) 1 (7/5) (1/2) 49 = -9/2 := by
    unfold hlleSL eRoe; simp only [HasSqrt.sqrt_real]; norm_num
  intro i hi
  change i < 2 at hi
  rw [uni_vol]
  change _ * (eFaceSR (7/5) 2 exEuler i - eFaceSL (7/5) 2 exEuler (i + 1)) ≤ 1
  unfold eFaceSR eFaceSL
  interval_cases i
  · norm_num [hp0, hp1, s1, s2]
  · norm_num [hp0, hp1, s3, s4]

/-- non-vacuity of `hlle_fe_positive` (non-uniform data, `dt > 0`) -/
example : EAdmField (7/5) 2 (exEuler + (1/28 : ℝ) • (eulerHlleDisc (7/5) (uniMesh 2 1 0)).rhs exEuler) :=
  hlle_fe_positive (7/5) (1/28) (by norm_num) (by norm_num) (uniMesh 2 1 0) (by decide)
    (fun i _ => by rw [uni_vol]; norm_num) exEuler exEuler_adm exEuler_cfl

/-- the face condition only sees the cells `< n` -/
theorem eFaceCFL_congr (γ dt : ℝ) (m : Mesh1D ℝ) (hn : 0 < m.n) (q q' : ℕ → ℕ → ℝ)
    (h : ∀ k c, c < m.n → q k c = q' k c) (H : EFaceCFL γ dt m q) : EFaceCFL γ dt m q' := by
  intro i hi
  have := H i hi
  unfold eFaceSR eFaceSL ePrimAt at *
  simpa only [h _ _ (Nat.mod_lt _ hn)] using this

/-- uniform two-cell Euler field `(ρ,u,p) = (7/5, 1/2, 1)` -/
noncomputable def exEulerU : ℕ → ℕ → ℝ := fun k _ => if k = 0 then 7/5 else if k = 1 then 7/10 else 107/40

theorem exEulerU_adm : EAdmField (7/5) 2 exEulerU := by
  intro i _
  norm_num [exEulerU, ePressure, eKinetic]

/-- speeds `sR = 3/2`, `sL = -1/2`, `dt/dx = 1/2`: equality in the face condition -/
theorem exEulerU_cfl : EFaceCFL (7/5) (1/4) (uniMesh 2 1 0) exEulerU := by
  have hp : ∀ c, ePrimAt (7/5) exEulerU c = (7/5, 1/2, 1) := fun c => by
    norm_num [ePrimAt, exEulerU, eCons2prim, ePressure, eKinetic]
  have s1 : hlleSR (7/5) (7/5) (1/2) 1 (7/5) (1/2) 1 = 3/2 := by
    unfold hlleSR eRoe; simp only [HasSqrt.sqrt_real]; norm_num
  have s2 : hlleSL (7/5) (7/5) (1/2) 1 (7/5) (1/2) 1 = -1/2 := by
    unfold hlleSL eRoe; simp only [HasSqrt.sqrt_real]; norm_num
  intro i _
  rw [uni_vol]
  unfold eFaceSR eFaceSL
  norm_num [hp, s1, s2]

/-- a forward-Euler step of the first-order periodic pipeline leaves a uniform field unchanged on the cells `< n` -/
theorem fe_fo1_const {ι : Type} (m : Mesh1D ℝ) (c2p : (ι → ℝ) → (ι → ℝ)) (Φ : (ι → ℝ) → (ι → ℝ) → (ι → ℝ))
    (hn : 0 < m.n) (dt t : ℝ) (q : ι → ℕ → ℝ) (hq : ∀ l i j, i < m.n → j < m.n → q l i = q l j) (k : ι) (c : ℕ)
    (hc : c < m.n) : fe (fun _ v => (fo1 m c2p Φ).rhs v) dt t q k c = q k c := by
  unfold fe
  simp only [Pi.add_apply, Pi.smul_apply, smul_eq_mul, fo1_rhs_const m c2p Φ hn q hq k c hc, mul_zero, add_zero]

/-- non-vacuity of `hlle_rk2_heun_positive` and `hlle_rk3ssp_positive`: all stage conditions hold (uniform state,
`dt > 0`; with non-uniform data the stage states have irrational Roe speeds, not attempted) -/
example (t : ℝ) :
    EAdmField (7/5) 2 (rkStep (castT butcher_rk2_heun)
      (fun _ v => (eulerHlleDisc (7/5) (uniMesh 2 1 0)).rhs v) (1/4) t exEulerU).data
    ∧ EAdmField (7/5) 2 (rkStep (castT butcher_rk3ssp)
      (fun _ v => (eulerHlleDisc (7/5) (uniMesh 2 1 0)).rhs v) (1/4) t exEulerU).data := by
  have hu : ∀ l i j, i < (uniMesh 2 (1:ℝ) 0).n → j < (uniMesh 2 (1:ℝ) 0).n → exEulerU l i = exEulerU l j :=
    fun _ _ _ _ _ => rfl
  have e1 : ∀ (s : ℝ) (k c : ℕ), c < (uniMesh 2 (1:ℝ) 0).n →
      fe (fun _ v => (eulerHlleDisc (7/5) (uniMesh 2 1 0)).rhs v) (1/4 : ℝ) s exEulerU k c = exEulerU k c :=
    fun s k c hc => fe_fo1_const _ _ _ (by decide) _ s _ hu k c hc
  have e2 : ∀ (s s' : ℝ) (k c : ℕ), c < (uniMesh 2 (1:ℝ) 0).n →
      fe (fun _ v => (eulerHlleDisc (7/5) (uniMesh 2 1 0)).rhs v) (1/4 : ℝ) s'
        (fe (fun _ v => (eulerHlleDisc (7/5) (uniMesh 2 1 0)).rhs v) (1/4 : ℝ) s exEulerU) k c = exEulerU k c := by
    intro s s' k c hc
    rw [show eulerHlleDisc (7/5) (uniMesh 2 1 0) = fo1 _ _ _ from rfl,
      fe_fo1_const _ _ _ (by decide) _ s' _ (fun l i j hi hj => ?_) k c hc]
    · exact e1 s k c hc
    · exact (e1 s l i hi).trans (e1 s l j hj).symm
  have c1 := eFaceCFL_congr (7/5) (1/4) (uniMesh 2 1 0) (by decide) _ _ (fun k c hc => (e1 t k c hc).symm) exEulerU_cfl
  have c2 := eFaceCFL_congr (7/5) (1/4) (uniMesh 2 1 0) (by decide) exEulerU
    ((3/4 : ℝ) • exEulerU + (1/4 : ℝ) • fe (fun _ v => (eulerHlleDisc (7/5) (uniMesh 2 1 0)).rhs v) (1/4) (t + 1/4 * 1)
      (fe (fun _ v => (eulerHlleDisc (7/5) (uniMesh 2 1 0)).rhs v) (1/4) t exEulerU))
    (fun k c hc => by
      simp only [Pi.add_apply, Pi.smul_apply, smul_eq_mul, e2 t _ k c hc]; ring) exEulerU_cfl
  exact ⟨hlle_rk2_heun_positive (7/5) (1/4) t (by norm_num) (by norm_num) (uniMesh 2 1 0) (by decide)
      (fun i _ => by rw [uni_vol]; norm_num) exEulerU exEulerU_adm exEulerU_cfl c1,
    hlle_rk3ssp_positive (7/5) (1/4) t (by norm_num) (by norm_num) (uniMesh 2 1 0) (by decide)
      (fun i _ => by rw [uni_vol]; norm_num) exEulerU exEulerU_adm exEulerU_cfl c1 c2⟩

/-- two-cell periodic shallow-water field (conservative `(h, q)`): cell 0 = `(4, 4)` (`u = 1`), cell 1 = `(1, 0)` -/
noncomputable def exSw : ℕ → ℕ → ℝ :=
  fun k i => if k = 0 then (if i = 0 then 4 else 1) else (if i = 0 then 4 else 0)

theorem exSw_adm : SwAdmField 2 exSw := by
  intro i hi
  interval_cases i <;> norm_num [exSw]

theorem exSw_speed0 : swCellSpeed 1 exSw 0 = 3 := by
  unfold swCellSpeed; simp only [HasSqrt.sqrt_real]; norm_num [exSw]
theorem exSw_speed1 : swCellSpeed 1 exSw 1 = 1 := by
  unfold swCellSpeed; simp only [HasSqrt.sqrt_real]; norm_num [exSw]

/-- the cell CFL condition on the two-cell uniform mesh -/
theorem swCellCFL_two (g dt : ℝ) (q : ℕ → ℕ → ℝ) (h0 : dt / (1 / ((2:ℕ):ℝ)) * swCellSpeed g q 0 ≤ 1/2)
    (h1 : dt / (1 / ((2:ℕ):ℝ)) * swCellSpeed g q 1 ≤ 1/2) : SwCellCFL g dt (uniMesh 2 1 0) q := by
  intro i hi
  change i < 2 at hi
  rw [uni_vol]
  change _ * swCellSpeed g q ((i + 2 - 1) % 2) ≤ 1 / 2 ∧ _ * swCellSpeed g q i ≤ 1 / 2 ∧
    _ * swCellSpeed g q ((i + 1) % 2) ≤ 1 / 2
  interval_cases i <;> exact ⟨by assumption, by assumption, by assumption⟩

/-- `dt/dx = 1/6`, largest cell speed 3: equality in the cell CFL condition -/
theorem exSw_cfl : SwCellCFL 1 (1/12) (uniMesh 2 1 0) exSw := by
  apply swCellCFL_two <;> norm_num [exSw_speed0, exSw_speed1]

/-- non-vacuity of `sw_fe_positive` (both fluxes, non-uniform data, `dt > 0`) -/
example (fl : SwFlux) (hfl : fl ≠ SwFlux.centered) :
    SwAdmField 2 (exSw + (1/12 : ℝ) • (swDisc 1 fl (uniMesh 2 1 0)).rhs exSw) :=
  sw_fe_positive 1 (1/12) (by norm_num) (by norm_num) fl hfl (uniMesh 2 1 0) (by decide)
    (fun i _ => by rw [uni_vol]; norm_num) exSw exSw_adm exSw_cfl

/-- non-vacuity of `sw_uniform_fe_positive`: `dt = 1/12 = min_j swDt_j` with `cfl = 1/2` -/
example (fl : SwFlux) (hfl : fl ≠ SwFlux.centered) :
    SwAdmField 2 (exSw + (1/12 : ℝ) • (swDisc 1 fl (uniMesh 2 1 0)).rhs exSw) := by
  refine sw_uniform_fe_positive 1 (1/2) (1/12) 1 0 2 (by decide) (by norm_num) (by norm_num) (by norm_num)
    le_rfl fl hfl exSw exSw_adm ?_
  intro j hj
  have e : ∀ j, swDt 1 (1/2) (1 / ((2:ℕ):ℝ)) (exSw 0 j) (exSw 1 j)
      = (1/2) * (1 / ((2:ℕ):ℝ)) / swCellSpeed 1 exSw j := fun j => rfl
  rw [e]
  interval_cases j
  · rw [exSw_speed0]; norm_num
  · rw [exSw_speed1]; norm_num

/-- the forward-Euler state of `exSw` with the Rusanov flux: both cells become `(h, q) = (5/2, 2)` -/
theorem exSw_fe (t : ℝ) (k i : ℕ) (hi : i < 2) :
    fe (fun _ v => (swDisc 1 SwFlux.rusanov (uniMesh 2 1 0)).rhs v) (1/12) t exSw k i
      = if k = 0 then 5/2 else 2 := by
  unfold fe
  simp only [Pi.add_apply, Pi.smul_apply, smul_eq_mul, swDisc]
  rw [fo1_rhs _ _ _ (by decide) _ _ i hi, uni_vol]
  change exSw k i + 1/12 * (-(swFluxV 1 SwFlux.rusanov (swC2P fun l => exSw l i)
      (swC2P fun l => exSw l ((i + 1) % 2)) k
    - swFluxV 1 SwFlux.rusanov (swC2P fun l => exSw l ((i + 2 - 1) % 2)) (swC2P fun l => exSw l i) k)
      / (1 / ((2:ℕ):ℝ))) = _
  rcases k with _ | k <;> interval_cases i <;>
    norm_num [swFluxV, swC2P, vec2, swRusanov, swRusanovG, swCons2prim, exSw]

/-- a second forward-Euler step leaves the (now uniform) state unchanged -/
theorem exSw_fe2 (t t' : ℝ) (k i : ℕ) (hi : i < 2) :
    fe (fun _ v => (swDisc 1 SwFlux.rusanov (uniMesh 2 1 0)).rhs v) (1/12) t'
      (fe (fun _ v => (swDisc 1 SwFlux.rusanov (uniMesh 2 1 0)).rhs v) (1/12) t exSw) k i
      = if k = 0 then 5/2 else 2 := by
  rw [show swDisc 1 SwFlux.rusanov (uniMesh 2 1 0) = fo1 _ _ _ from rfl,
    fe_fo1_const _ _ _ (by decide) _ t' _ (fun l i j hi hj => ?_) k i hi]
  · exact exSw_fe t k i hi
  · exact (exSw_fe t l i hi).trans (exSw_fe t l j hj).symm

/-- bound of a cell speed through a rational bound of the square root -/
theorem swCellSpeed_le (g : ℝ) (q : ℕ → ℕ → ℝ) (j : ℕ) (h m c B : ℝ) (e0 : q 0 j = h) (e1 : q 1 j = m)
    (hc : 0 ≤ c) (h1 : g * h ≤ c ^ 2) (h2 : |m / h| + c ≤ B) : swCellSpeed g q j ≤ B := by
  unfold swCellSpeed
  rw [e0, e1]
  have : Real.sqrt (g * h) ≤ c := Real.sqrt_le_iff.mpr ⟨hc, h1⟩
  simp only [HasSqrt.sqrt_real]; linarith

/-- stage 2 of rk2_heun / rk3ssp: state `(5/2, 2)` in both cells, speed `4/5 + √(5/2) ≤ 3` -/
theorem exSw_cfl1 (t : ℝ) : SwCellCFL 1 (1/12) (uniMesh 2 1 0)
    (fe (fun _ v => (swDisc 1 SwFlux.rusanov (uniMesh 2 1 0)).rhs v) (1/12) t exSw) := by
  have k0 := swCellSpeed_le 1 _ 0 (5/2) 2 (11/5) 3 (exSw_fe t 0 0 (by norm_num)) (exSw_fe t 1 0 (by norm_num))
    (by norm_num) (by norm_num) (by norm_num [abs_of_nonneg])
  have k1 := swCellSpeed_le 1 _ 1 (5/2) 2 (11/5) 3 (exSw_fe t 0 1 (by norm_num)) (exSw_fe t 1 1 (by norm_num))
    (by norm_num) (by norm_num) (by norm_num [abs_of_nonneg])
  apply swCellCFL_two <;> norm_num <;> linarith

/-- stage 3 of rk3ssp: `u2 = ¾ q + ¼ FE(FE(q))`, cells `(29/8, 7/2)` and `(11/8, 1/2)`, speeds `≤ 3` -/
theorem exSw_cfl2 (t : ℝ) : SwCellCFL 1 (1/12) (uniMesh 2 1 0)
    ((3/4 : ℝ) • exSw + (1/4 : ℝ) • fe (fun _ v => (swDisc 1 SwFlux.rusanov (uniMesh 2 1 0)).rhs v) (1/12)
      (t + 1/12 * 1) (fe (fun _ v => (swDisc 1 SwFlux.rusanov (uniMesh 2 1 0)).rhs v) (1/12) t exSw)) := by
  have k0 := swCellSpeed_le 1 ((3/4 : ℝ) • exSw + (1/4 : ℝ) • fe (fun _ v =>
      (swDisc 1 SwFlux.rusanov (uniMesh 2 1 0)).rhs v) (1/12) (t + 1/12 * 1)
      (fe (fun _ v => (swDisc 1 SwFlux.rusanov (uniMesh 2 1 0)).rhs v) (1/12) t exSw)) 0 (29/8) (7/2) 2 3
    (by simp only [Pi.add_apply, Pi.smul_apply, smul_eq_mul, exSw_fe2 t _ _ 0 (by norm_num)]; norm_num [exSw])
    (by simp only [Pi.add_apply, Pi.smul_apply, smul_eq_mul, exSw_fe2 t _ _ 0 (by norm_num)]; norm_num [exSw])
    (by norm_num) (by norm_num) (by norm_num [abs_of_nonneg])
  have k1 := swCellSpeed_le 1 ((3/4 : ℝ) • exSw + (1/4 : ℝ) • fe (fun _ v =>
      (swDisc 1 SwFlux.rusanov (uniMesh 2 1 0)).rhs v) (1/12) (t + 1/12 * 1)
      (fe (fun _ v => (swDisc 1 SwFlux.rusanov (uniMesh 2 1 0)).rhs v) (1/12) t exSw)) 1 (11/8) (1/2) 2 3
    (by simp only [Pi.add_apply, Pi.smul_apply, smul_eq_mul, exSw_fe2 t _ _ 1 (by norm_num)]; norm_num [exSw])
    (by simp only [Pi.add_apply, Pi.smul_apply, smul_eq_mul, exSw_fe2 t _ _ 1 (by norm_num)]; norm_num [exSw])
    (by norm_num) (by norm_num) (by norm_num [abs_of_nonneg])
  apply swCellCFL_two <;> norm_num <;> linarith

/-- non-vacuity of `sw_rk2_heun_positive` and `sw_rk3ssp_positive` (Rusanov flux, non-uniform data, `dt > 0`,
all stage conditions verified on the computed stage states) -/
example (t : ℝ) :
    SwAdmField 2 (rkStep (castT butcher_rk2_heun)
      (fun _ v => (swDisc 1 SwFlux.rusanov (uniMesh 2 1 0)).rhs v) (1/12) t exSw).data
    ∧ SwAdmField 2 (rkStep (castT butcher_rk3ssp)
      (fun _ v => (swDisc 1 SwFlux.rusanov (uniMesh 2 1 0)).rhs v) (1/12) t exSw).data :=
  ⟨sw_rk2_heun_positive 1 (1/12) t (by norm_num) (by norm_num) SwFlux.rusanov (fun h => by cases h)
      (uniMesh 2 1 0) (by decide) (fun i _ => by rw [uni_vol]; norm_num) exSw exSw_adm exSw_cfl (exSw_cfl1 t),
   sw_rk3ssp_positive 1 (1/12) t (by norm_num) (by norm_num) SwFlux.rusanov (fun h => by cases h)
      (uniMesh 2 1 0) (by decide) (fun i _ => by rw [uni_vol]; norm_num) exSw exSw_adm exSw_cfl (exSw_cfl1 t)
      (exSw_cfl2 t)⟩

end examples

end Flowdyn.C10
