/-
C13 (units) — the 1D space operator commutes with a change of units.

Scaled problem: faces `ℓ * xf`, length `ℓ * length`, conservative component `k` multiplied by `s k`,
primitive component by `p k`, flux of equation `k` by `f k` (ℓ > 0, all factors positive).  Kernel laws:
  * `cons2prim (s·Q) = p·(cons2prim Q)`;
  * the limiter of a MUSCL scheme is positively homogeneous: `lim (λ a) (λ b) = λ lim a b` for `λ > 0`
    (exact for minmod / superbee, C12; for the regularised limiters only up to the C12 bound —
    known finding K1);
  * the flux and boundary kernels of the scaled problem are `Φ' (p·L) (p·R) k = f k * Φ L R k`,
    `bc' (p·w) = p·(bc w)`.
Then `rhs' (s·q) k i = f k / ℓ * rhs q k i`.
-/
import Flowdyn.Model.FVM1D
import Mathlib.Algebra.Order.Field.Basic
import Mathlib.Tactic.Ring
import Mathlib.Tactic.Linarith
import Mathlib.Tactic.FieldSimp
import Mathlib.Tactic.Positivity

namespace Flowdyn.C13
open Flowdyn
variable {α : Type} [Field α] [LinearOrder α] [IsStrictOrderedRing α] {ι : Type}

def scl (s : ι → α) (w : ι → α) : ι → α := fun k => s k * w k

def scaleMesh (l : α) (m : Mesh1D α) : Mesh1D α := { n := m.n, xf := fun i => l * m.xf i, length := l * m.length }

/-- positively homogeneous limiter (or no limiter) -/
def HomScheme : Scheme α → Prop
  | .muscl lim => ∀ (c a b : α), 0 < c → lim (c * a) (c * b) = c * lim a b
  | _ => True

/-- boundary kernels of the scaled problem -/
def BCScaled (p : ι → α) : BC1D α ι → BC1D α ι → Prop
  | .periodic, .periodic => True
  | .open bcL bcR, .open bcL' bcR' => (∀ w, bcL' (scl p w) = scl p (bcL w)) ∧ (∀ w, bcR' (scl p w) = scl p (bcR w))
  | _, _ => False

theorem xc_scale (l : α) (m : Mesh1D α) (i : ℕ) : (scaleMesh l m).xc i = l * m.xc i := by
  simp only [Mesh1D.xc, scaleMesh]; ring

omit [LinearOrder α] [IsStrictOrderedRing α] in
theorem vol_scale (l : α) (m : Mesh1D α) (i : ℕ) : (scaleMesh l m).vol i = l * m.vol i := by
  simp only [Mesh1D.vol, scaleMesh]; ring

theorem grad1d_scale (l c : α) (m : Mesh1D α) (per : Bool) (d : ℕ → α) :
    grad1d (scaleMesh l m) per (fun i => c * d i) = fun f => c / l * grad1d m per d f := by
  funext f
  unfold grad1d
  simp only [xc_scale]
  have hn : (scaleMesh l m).n = m.n := rfl
  have hL : (scaleMesh l m).length = l * m.length := rfl
  rw [hn, hL]
  split_ifs
  · rw [div_mul_div_comm]; congr 1 <;> ring
  · simp
  · rw [div_mul_div_comm]; congr 1 <;> ring

theorem slopeL_scale (s : Scheme α) (hs : HomScheme s) (c : α) (hc : 0 < c) (g : ℕ → α) (f : ℕ) :
    slopeL s (fun i => c * g i) f = c * slopeL s g f := by
  cases s with
  | extrapol1 => simp [slopeL]
  | extrapol2 => simp [slopeL]
  | extrapolk k => simp only [slopeL]; ring
  | muscl lim => simp only [slopeL]; exact hs c _ _ hc

theorem slopeR_scale (s : Scheme α) (hs : HomScheme s) (c : α) (hc : 0 < c) (g : ℕ → α) (f : ℕ) :
    slopeR s (fun i => c * g i) f = c * slopeR s g f := by
  cases s with
  | extrapol1 => simp [slopeR]
  | extrapol2 => simp [slopeR]
  | extrapolk k => simp only [slopeR]; ring
  | muscl lim => simp only [slopeR]; exact hs c _ _ hc

theorem recL_scale (s : Scheme α) (hs : HomScheme s) (l a : α) (hl : 0 < l) (ha : 0 < a)
    (m : Mesh1D α) (d g : ℕ → α) :
    recL s (scaleMesh l m) (fun i => a * d i) (fun i => a / l * g i) = fun f => a * recL s m d g f := by
  funext f
  unfold recL
  rw [slopeL_scale s hs (a / l) (div_pos ha hl), xc_scale]
  have : (scaleMesh l m).xf f = l * m.xf f := rfl
  rw [this]
  split_ifs
  · simp
  · field_simp

theorem recR_scale (s : Scheme α) (hs : HomScheme s) (l a : α) (hl : 0 < l) (ha : 0 < a)
    (m : Mesh1D α) (d g : ℕ → α) :
    recR s (scaleMesh l m) (fun i => a * d i) (fun i => a / l * g i) = fun f => a * recR s m d g f := by
  funext f
  unfold recR
  rw [slopeR_scale s hs (a / l) (div_pos ha hl), xc_scale]
  have : (scaleMesh l m).xf f = l * m.xf f := rfl
  have hn : (scaleMesh l m).n = m.n := rfl
  rw [this, hn]
  split_ifs
  · simp
  · field_simp

/-- **units equivariance of the space operator** (no sources) -/
theorem rhs_units (l : α) (hl : 0 < l) (s p f : ι → α) (hp : ∀ k, 0 < p k)
    (D D' : Disc1D α ι) (hmesh : D'.mesh = scaleMesh l D.mesh) (hsch : D'.scheme = D.scheme)
    (hs : HomScheme D.scheme) (hsrc : ∀ k, D.src k = none) (hsrc' : ∀ k, D'.src k = none)
    (hc2p : ∀ Q, D'.c2p (scl s Q) = scl p (D.c2p Q))
    (hflux : ∀ L R k, D'.flux (scl p L) (scl p R) k = f k * D.flux L R k)
    (hbc : BCScaled p D.bc D'.bc)
    (q : ι → ℕ → α) (k : ι) (i : ℕ) (hi : i < D.mesh.n) :
    D'.rhs (fun j c => s j * q j c) k i = f k / l * D.rhs q k i := by
  obtain ⟨mesh', sch', bc', c2p', flux', src'⟩ := D'
  obtain ⟨mesh, sch, bc, c2p, flux, src⟩ := D
  simp only at hmesh hsch hs hsrc hsrc' hc2p hflux hbc hi
  subst hmesh hsch
  set D : Disc1D α ι := ⟨mesh, sch', bc, c2p, flux, src⟩ with hD
  set D' : Disc1D α ι := ⟨scaleMesh l mesh, sch', bc', c2p', flux', src'⟩ with hD'
  set q' : ι → ℕ → α := fun j c => s j * q j c with hq'
  have hper : bc'.isPer = bc.isPer := by
    cases bc <;> cases bc' <;> simp_all [BCScaled, BC1D.isPer]
  have h1 : ∀ j, D'.pdata q' j = fun c => p j * D.pdata q j c := by
    intro j; funext c
    have := congrFun (hc2p (fun j => q j c)) j
    exact this
  have h2 : ∀ j, D'.grad q' j = fun c => p j / l * D.grad q j c := by
    intro j
    simp only [Disc1D.grad, h1]
    simp only [hD', hD, hper]
    exact grad1d_scale l (p j) mesh bc.isPer _
  have h3 : ∀ j, D'.pL0 q' j = fun c => p j * D.pL0 q j c := by
    intro j
    simp only [Disc1D.pL0, h1, h2]
    exact recL_scale sch' hs l (p j) hl (hp j) mesh _ _
  have h4 : ∀ j, D'.pR0 q' j = fun c => p j * D.pR0 q j c := by
    intro j
    simp only [Disc1D.pR0, h1, h2]
    exact recR_scale sch' hs l (p j) hl (hp j) mesh _ _
  have h5 : ∀ j, D'.pL q' j = fun c => p j * D.pL q j c := by
    intro j; funext c
    simp only [Disc1D.pL, bcFaceL]
    split_ifs with hc
    · cases bc with
      | periodic =>
        cases bc' with
        | periodic => simp only [hD, hD']; rw [h3]; rfl
        | «open» a b => exact hbc.elim
      | «open» bcL bcR =>
        cases bc' with
        | periodic => exact hbc.elim
        | «open» bcL' bcR' =>
          simp only [hD, hD']
          have e : (fun j => D'.pR0 q' j 0) = scl p (fun j => D.pR0 q j 0) := by
            funext j; rw [h4]; rfl
          rw [e, hbc.1]; rfl
    · rw [h3]
  have h6 : ∀ j, D'.pR q' j = fun c => p j * D.pR q j c := by
    intro j; funext c
    simp only [Disc1D.pR, bcFaceR]
    have hn : D'.mesh.n = D.mesh.n := rfl
    rw [hn]
    split_ifs with hc
    · cases bc with
      | periodic =>
        cases bc' with
        | periodic => simp only [hD, hD']; rw [h4]
        | «open» a b => exact hbc.elim
      | «open» bcL bcR =>
        cases bc' with
        | periodic => exact hbc.elim
        | «open» bcL' bcR' =>
          simp only [hD, hD']
          have e : (fun j => D'.pL0 q' j mesh.n) = scl p (fun j => D.pL0 q j mesh.n) := by
            funext j; rw [h3]; rfl
          rw [e, hbc.2]; rfl
    · rw [h4]
  have h7 : ∀ c, D'.faceFluxes q' k c = f k * D.faceFluxes q k c := by
    intro c
    simp only [Disc1D.faceFluxes, faceFlux]
    have eL : (fun j => D'.pL q' j c) = scl p (fun j => D.pL q j c) := by
      funext j; rw [h5]; rfl
    have eR : (fun j => D'.pR q' j c) = scl p (fun j => D.pR q j c) := by
      funext j; rw [h6]; rfl
    rw [eL, eR]; exact hflux _ _ k
  have h8 : D'.rhs q' k i = D'.resNoSrc q' k i := by
    simp only [Disc1D.rhs, addSource]
    have : D'.src k = none := hsrc' k
    rw [this]
  have h9 : D.rhs q k i = D.resNoSrc q k i := by
    simp only [Disc1D.rhs, addSource]
    have : D.src k = none := hsrc k
    rw [this]
  rw [h8, h9]
  simp only [Disc1D.resNoSrc, calcRes, h7]
  have hv : D'.mesh.vol i = l * D.mesh.vol i := vol_scale l mesh i
  rw [hv, div_mul_div_comm]
  congr 1; ring

set_option linter.unusedSectionVars false in
/-- the unlimited schemes are homogeneous -/
theorem hom_extrapol : HomScheme (Scheme.extrapol1 (α := α)) ∧ HomScheme (Scheme.extrapol2 (α := α))
    ∧ ∀ κ : α, HomScheme (Scheme.extrapolk κ) := ⟨trivial, trivial, fun _ => trivial⟩

end Flowdyn.C13
