/-
C20 (1D) — meshes are valid partitions: `ncell+1` strictly increasing faces spanning exactly
`[x0, x0+length]` (its image for a morphing), centres at face midpoints, positive volumes summing to
the length, volume-weighted averages exact for constants; a refined mesh has two uniform zones whose
size ratio is the requested one whenever the zone proportion is a whole number of cells.
-/
import Flowdyn.Model.Mesh
import Mathlib.Algebra.BigOperators.Intervals
import Mathlib.Algebra.BigOperators.Ring.Finset
import Mathlib.Algebra.Order.Field.Basic
import Mathlib.Tactic.Ring
import Mathlib.Tactic.Linarith
import Mathlib.Tactic.FieldSimp
import Mathlib.Tactic.Positivity
import Mathlib.Algebra.Order.Floor.Ring

namespace Flowdyn.C20
open Flowdyn Finset
variable {α : Type} [Field α] [LinearOrder α] [IsStrictOrderedRing α]
set_option linter.unusedSectionVars false

/-! ### any mesh -/
theorem centres_are_midpoints (m : Mesh1D α) (i : ℕ) : m.xc i = (m.xf i + m.xf (i + 1)) / 2 := rfl
theorem volumes_sum (m : Mesh1D α) : ∑ i ∈ range m.n, m.vol i = m.xf m.n - m.xf 0 := by
  simp only [Mesh1D.vol]
  exact Finset.sum_range_sub m.xf m.n
theorem volumes_pos (m : Mesh1D α) (hm : ∀ i, i < m.n → m.xf i < m.xf (i + 1)) (i : ℕ) (hi : i < m.n) :
    0 < m.vol i := by
  simp only [Mesh1D.vol]
  exact sub_pos.mpr (hm i hi)
/-- the weighted average of a constant is the constant -/
theorem average_const (m : Mesh1D α) (c : α) (hv : ∑ i ∈ range m.n, m.vol i ≠ 0) :
    m.average (fun _ => c) = c := by
  simp only [Mesh1D.average]
  rw [← Finset.mul_sum, mul_div_assoc, div_self hv, mul_one]

/-! ### uniform mesh -/
theorem uni_first (n : ℕ) (L x0 : α) : (uniMesh n L x0).xf 0 = x0 := by
  simp [uniMesh]
theorem uni_last (n : ℕ) (hn : 0 < n) (L x0 : α) : (uniMesh n L x0).xf n = x0 + L := by
  have hn' : (n : α) ≠ 0 := Nat.cast_ne_zero.mpr hn.ne'
  simp only [uniMesh]
  field_simp
  ring
theorem uni_increasing (n : ℕ) (hn : 0 < n) (L x0 : α) (hL : 0 < L) (i : ℕ) :
    (uniMesh n L x0).xf i < (uniMesh n L x0).xf (i + 1) := by
  have hn' : (0 : α) < n := Nat.cast_pos.mpr hn
  have h : 0 < L / n := div_pos hL hn'
  simp only [uniMesh]
  push_cast
  linarith
theorem uni_vol (n : ℕ) (L x0 : α) (i : ℕ) : (uniMesh n L x0).vol i = L / n := by
  simp only [Mesh1D.vol, uniMesh]
  push_cast
  ring
theorem uni_total (n : ℕ) (hn : 0 < n) (L x0 : α) : ∑ i ∈ range n, (uniMesh n L x0).vol i = L := by
  have hn' : (n : α) ≠ 0 := Nat.cast_ne_zero.mpr hn.ne'
  simp only [uni_vol, Finset.sum_const, Finset.card_range, nsmul_eq_mul]
  field_simp

/-! ### morphed mesh: image of the uniform one under a strictly monotone map -/
theorem morphed_faces (n : ℕ) (L x0 : α) (morph : α → α) (i : ℕ) :
    (morphedMesh n L x0 morph).xf i = morph ((uniMesh n L x0).xf i) := rfl
theorem morphed_increasing (n : ℕ) (hn : 0 < n) (L x0 : α) (hL : 0 < L) (morph : α → α)
    (hm : StrictMono morph) (i : ℕ) :
    (morphedMesh n L x0 morph).xf i < (morphedMesh n L x0 morph).xf (i + 1) := by
  rw [morphed_faces, morphed_faces]
  exact hm (uni_increasing n hn L x0 hL i)
theorem morphed_span (n : ℕ) (hn : 0 < n) (L x0 : α) (morph : α → α) :
    (morphedMesh n L x0 morph).xf 0 = morph x0 ∧ (morphedMesh n L x0 morph).xf n = morph (x0 + L) := by
  rw [morphed_faces, morphed_faces, uni_first, uni_last n hn]
  exact ⟨rfl, rfl⟩

/-! ### refined mesh: `nc1` cells of size `dx1` then `n - nc1` cells of size `dx2` -/
/-- first face 0, last face `L` (both zones non-empty, or one empty) -/
theorem refined_span (n : ℕ) (L ratio a b : α) (nc1 : ℕ) (h1 : nc1 < n) :
    (refinedMesh n L ratio a b nc1).xf 0 = 0 ∧ (refinedMesh n L ratio a b nc1).xf n = L := by
  constructor
  · simp only [refinedMesh]
    split_ifs with h
    · simp
    · have : nc1 = 0 := by omega
      subst this
      simp
  · simp only [refinedMesh]
    rw [if_neg (by omega)]
    have : ((n - nc1 : ℕ) : α) ≠ 0 := Nat.cast_ne_zero.mpr (by omega)
    field_simp
    ring
/-- zone 1 is uniform with cell size `dx1` -/
theorem refined_zone1 (n : ℕ) (L ratio a b : α) (nc1 : ℕ) (i : ℕ) (hi : i + 1 < nc1) :
    (refinedMesh n L ratio a b nc1).vol i = (a + b) * L / ((a + ratio * b) * n) := by
  have hnc : (nc1 : α) ≠ 0 := Nat.cast_ne_zero.mpr (by omega)
  simp only [Mesh1D.vol, refinedMesh]
  rw [if_pos hi, if_pos (by omega), mul_div_cancel_right₀ _ hnc]
  push_cast
  ring
/-- the cell straddling… there is none: face `nc1` is exactly `dx1*nc1`, so cell `nc1-1` also has size dx1 -/
theorem refined_zone1_last (n : ℕ) (L ratio a b : α) (nc1 : ℕ) (h0 : 0 < nc1) (h1 : nc1 ≤ n) :
    (refinedMesh n L ratio a b nc1).vol (nc1 - 1) = (a + b) * L / ((a + ratio * b) * n) := by
  have hnc : (nc1 : α) ≠ 0 := Nat.cast_ne_zero.mpr (by omega)
  simp only [Mesh1D.vol, refinedMesh]
  rw [if_neg (by omega), if_pos (by omega), mul_div_cancel_right₀ _ hnc]
  have e1 : nc1 - 1 + 1 - nc1 = 0 := by omega
  have e2 : ((nc1 - 1 : ℕ) : α) = (nc1 : α) - 1 := by
    rw [Nat.cast_sub (by omega)]; simp
  rw [e1, e2]
  push_cast
  ring
/-- zone 2 is uniform with cell size `(L - dx1*nc1)/(n - nc1)` -/
theorem refined_zone2 (n : ℕ) (L ratio a b : α) (nc1 : ℕ) (i : ℕ) (h1 : nc1 ≤ i) (h2 : i < n) :
    (refinedMesh n L ratio a b nc1).vol i
      = (L - (a + b) * L / ((a + ratio * b) * n) * nc1) / ((n - nc1 : ℕ) : α) := by
  simp only [Mesh1D.vol, refinedMesh]
  rw [if_neg (by omega), if_neg (by omega)]
  have e : ((i + 1 - nc1 : ℕ) : α) = ((i - nc1 : ℕ) : α) + 1 := by
    rw [show i + 1 - nc1 = (i - nc1) + 1 by omega]; push_cast; ring
  rw [e]
  ring
/-- the implementation's count `nc1 = int(n a/(a+b) * (1+1e-12))` IS the whole number of cells `k` whenever the requested
zone proportion corresponds to one (`k (a+b) = n a`, any `k < 10^12`): the hypothesis `hwhole` of `refined_ratio` and
`refined_increasing` is met by the value the constructor computes. -/
theorem refined_nc1_whole (n k : ℕ) (a b : ℚ) (hab : 0 < a + b) (hk : (k : ℚ) * (a + b) = n * a)
    (hlt : k < 10 ^ 12) : refinedNc1 n a b = k := by
  have hq : (n : ℚ) * a / (a + b) = k := by rw [← hk]; field_simp
  have hk0 : (0 : ℚ) ≤ k := Nat.cast_nonneg k
  have hk1 : (k : ℚ) < 10 ^ 12 := by exact_mod_cast hlt
  have hfl : ⌊(k : ℚ) * (1 + 1 / 10 ^ 12)⌋ = (k : ℤ) := by
    rw [Int.floor_eq_iff]
    constructor
    · push_cast; nlinarith
    · push_cast
      have : (k : ℚ) * (1 / 10 ^ 12) < 1 := by
        rw [mul_one_div, div_lt_one (by positivity)]; exact hk1
      nlinarith
  simp only [refinedNc1, hq, hfl, Int.toNat_natCast]

/-- whole number of cells (`nc1 (a+b) = n a` exactly): the zone size ratio is the requested `ratio` -/
theorem refined_ratio (n : ℕ) (L ratio a b : α) (nc1 : ℕ) (h1 : nc1 < n) (hn : 0 < n)
    (ha : 0 < a) (hb : 0 < b) (hr : 0 < ratio) (hwhole : (nc1 : α) * (a + b) = n * a) :
    (L - (a + b) * L / ((a + ratio * b) * n) * nc1) / ((n - nc1 : ℕ) : α)
      = ratio * ((a + b) * L / ((a + ratio * b) * n)) := by
  have hn' : (n : α) ≠ 0 := Nat.cast_ne_zero.mpr hn.ne'
  have hab : a + b ≠ 0 := (add_pos ha hb).ne'
  have harb : a + ratio * b ≠ 0 := (add_pos ha (mul_pos hr hb)).ne'
  have hsub : ((n - nc1 : ℕ) : α) = (n : α) - nc1 := Nat.cast_sub h1.le
  have hnc : (nc1 : α) = n * a / (a + b) := by
    rw [eq_div_iff hab]; exact hwhole
  have hd : (n : α) - nc1 = n * b / (a + b) := by
    rw [hnc]; field_simp; ring
  have hd0 : (n : α) * b / (a + b) ≠ 0 := div_ne_zero (mul_ne_zero hn' hb.ne') hab
  rw [hsub, hd, hnc]
  field_simp
  ring
/-- strictly increasing faces -/
theorem refined_increasing (n : ℕ) (L ratio a b : α) (nc1 : ℕ) (h1 : nc1 < n) (hn : 0 < n) (hL : 0 < L)
    (ha : 0 < a) (hb : 0 < b) (hr : 0 < ratio) (hwhole : (nc1 : α) * (a + b) = n * a) (i : ℕ) (hi : i < n) :
    (refinedMesh n L ratio a b nc1).xf i < (refinedMesh n L ratio a b nc1).xf (i + 1) := by
  have hn' : (0 : α) < n := Nat.cast_pos.mpr hn
  have hdx1 : 0 < (a + b) * L / ((a + ratio * b) * n) :=
    div_pos (mul_pos (add_pos ha hb) hL) (mul_pos (add_pos ha (mul_pos hr hb)) hn')
  have hvol : 0 < (refinedMesh n L ratio a b nc1).vol i := by
    rcases lt_trichotomy (i + 1) nc1 with h | h | h
    · rw [refined_zone1 n L ratio a b nc1 i h]; exact hdx1
    · have hi' : i = nc1 - 1 := by omega
      rw [hi', refined_zone1_last n L ratio a b nc1 (by omega) h1.le]; exact hdx1
    · rw [refined_zone2 n L ratio a b nc1 i (by omega) hi,
        refined_ratio n L ratio a b nc1 h1 hn ha hb hr hwhole]
      exact mul_pos hr hdx1
  simp only [Mesh1D.vol] at hvol
  exact sub_pos.mp hvol

end Flowdyn.C20
