import Flowdyn.Model.FVM2D
namespace Flowdyn.C15
end Flowdyn.C15
