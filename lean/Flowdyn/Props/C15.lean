/-
C15 — the 2D Cartesian solver agrees with grid symmetries and with the 1D solver; plus the 2D parts of
C01 (conservation) and C14 (translation invariance), all on the structured model `Flowdyn/Model/FVM2D.lean`.

Generic kernels with kernel laws (proved for the concrete Euler 2D kernels in C02b: `e2Hlle_transpose`,
`e2Centered_transpose`, `e2Hlle_mirror_x/_y`, `e2…_reduces_1d`).

Proof organisation: both sweeps of the 2D pipeline are instances of one *line pipeline*
(`lgrad`, `lL0`, `lR0`, `lL`, `lR`, `lFlux`) acting on the data of one row / one column
(`xFlux_line`, `yFlux_line`, by `rfl`).  Shift invariance, transposition, constancy and the comparison
with the 1D model are proved once for the line pipeline.
-/
import Flowdyn.Model.FVM2D
import Flowdyn.Model.FVM1D
import Mathlib.Algebra.BigOperators.Intervals
import Mathlib.Algebra.BigOperators.Group.Finset.Basic
import Mathlib.Algebra.BigOperators.Ring.Finset
import Mathlib.Tactic.Ring
import Mathlib.Tactic.Linarith
import Mathlib.Tactic.FieldSimp

namespace Flowdyn.C15
open Flowdyn Finset
variable {α : Type} [Field α] {ι : Type}

/-! ### the line pipeline shared by the x-sweep and the y-sweep -/

/-- differences at the faces `0 … n` of a line of `n` cells -/
def lgrad (n : ℕ) (per : Bool) (d : ℕ → α) (a : ℕ) : α :=
  if a = 0 ∨ a = n then (if per then d 0 - d (n - 1) else 0) else d a - d (a - 1)
def lL0 (n : ℕ) (per : Bool) (km kp : α) (d : ℕ → α) (a : ℕ) : α :=
  if a = 0 then 0 else d (a - 1) + km * lgrad n per d (a - 1) + kp * lgrad n per d a
def lR0 (n : ℕ) (per : Bool) (km kp : α) (d : ℕ → α) (a : ℕ) : α :=
  if a = n then 0 else d a - km * lgrad n per d (a + 1) - kp * lgrad n per d a
def lL (n : ℕ) (bc : BCPair α ι) (km kp : α) (d : ι → ℕ → α) (k : ι) (a : ℕ) : α :=
  if a = 0 then
    match bc with
    | .periodic => lL0 n bc.isPer km kp (d k) n
    | .open lo _ => lo (fun l => lR0 n bc.isPer km kp (d l) 0) k
  else lL0 n bc.isPer km kp (d k) a
def lR (n : ℕ) (bc : BCPair α ι) (km kp : α) (d : ι → ℕ → α) (k : ι) (a : ℕ) : α :=
  if a = n then
    match bc with
    | .periodic => lR0 n bc.isPer km kp (d k) 0
    | .open _ hi => hi (fun l => lL0 n bc.isPer km kp (d l) n) k
  else lR0 n bc.isPer km kp (d k) a
def lFlux (n : ℕ) (bc : BCPair α ι) (km kp : α) (Φ : (ι → α) → (ι → α) → (ι → α))
    (d : ι → ℕ → α) (k : ι) (a : ℕ) : α :=
  Φ (fun l => lL n bc km kp d l a) (fun l => lR n bc km kp d l a) k

theorem xFlux_line (D : Disc2D α ι) (q : ι → ℕ → ℕ → α) (k : ι) (i j : ℕ) :
    D.xFlux q k i j
      = lFlux D.mesh.nx D.bcx D.scheme.km D.scheme.kp (D.flux 1 0) (fun l a => D.pdata q l a j) k i := rfl

theorem yFlux_line (D : Disc2D α ι) (q : ι → ℕ → ℕ → α) (k : ι) (i j : ℕ) :
    D.yFlux q k i j
      = lFlux D.mesh.ny D.bcy D.scheme.km D.scheme.kp (D.flux 0 1) (fun l b => D.pdata q l i b) k j := rfl

/-! ### cyclic form of the periodic line pipeline -/

theorem mod_add_congr {n a b : ℕ} (hab : a % n = b % n) (c : ℕ) : (a + c) % n = (b + c) % n := by
  rw [Nat.add_mod a, Nat.add_mod b, hab]

theorem mod_pred_congr {n a b : ℕ} (hn : 0 < n) (hab : a % n = b % n) :
    (a + n - 1) % n = (b + n - 1) % n := by
  rw [Nat.add_sub_assoc hn, Nat.add_sub_assoc hn]; exact mod_add_congr hab _

def gC (n : ℕ) (d : ℕ → α) (a : ℕ) : α := d (a % n) - d ((a + n - 1) % n)
def lC (n : ℕ) (km kp : α) (d : ℕ → α) (a : ℕ) : α :=
  d ((a + n - 1) % n) + km * gC n d (a + n - 1) + kp * gC n d a
def rC (n : ℕ) (km kp : α) (d : ℕ → α) (a : ℕ) : α :=
  d (a % n) - km * gC n d (a + 1) - kp * gC n d a
def fC (n : ℕ) (km kp : α) (Φ : (ι → α) → (ι → α) → (ι → α)) (d : ι → ℕ → α) (k : ι) (a : ℕ) : α :=
  Φ (fun l => lC n km kp (d l) a) (fun l => rC n km kp (d l) a) k

theorem gC_congr {n a b : ℕ} (hn : 0 < n) (d : ℕ → α) (hab : a % n = b % n) : gC n d a = gC n d b := by
  unfold gC; rw [hab, mod_pred_congr hn hab]

theorem lC_congr {n a b : ℕ} (hn : 0 < n) (km kp : α) (d : ℕ → α) (hab : a % n = b % n) :
    lC n km kp d a = lC n km kp d b := by
  unfold lC
  rw [mod_pred_congr hn hab, gC_congr hn d hab, gC_congr hn d (mod_pred_congr hn hab)]

theorem rC_congr {n a b : ℕ} (hn : 0 < n) (km kp : α) (d : ℕ → α) (hab : a % n = b % n) :
    rC n km kp d a = rC n km kp d b := by
  unfold rC
  rw [hab, gC_congr hn d hab, gC_congr hn d (mod_add_congr hab 1)]

theorem fC_congr {n a b : ℕ} (hn : 0 < n) (km kp : α) (Φ : (ι → α) → (ι → α) → (ι → α))
    (d : ι → ℕ → α) (k : ι) (hab : a % n = b % n) : fC n km kp Φ d k a = fC n km kp Φ d k b := by
  unfold fC
  have h1 : ∀ l, lC n km kp (d l) a = lC n km kp (d l) b := fun l => lC_congr hn km kp (d l) hab
  have h2 : ∀ l, rC n km kp (d l) a = rC n km kp (d l) b := fun l => rC_congr hn km kp (d l) hab
  simp only [h1, h2]

theorem lgrad_eq_gC {n : ℕ} (hn : 0 < n) (d : ℕ → α) {a : ℕ} (ha : a ≤ n) :
    lgrad n true d a = gC n d a := by
  unfold lgrad gC
  by_cases h0 : a = 0 ∨ a = n
  · rw [if_pos h0, if_pos rfl]
    have e1 : a % n = 0 := by
      rcases h0 with h | h
      · rw [h]; exact Nat.zero_mod n
      · rw [h]; exact Nat.mod_self n
    have e2 : (a + n - 1) % n = n - 1 := by
      rcases h0 with h | h
      · rw [h, Nat.zero_add, Nat.mod_eq_of_lt (by omega)]
      · rw [h, show n + n - 1 = (n - 1) + n by omega, Nat.add_mod_right, Nat.mod_eq_of_lt (by omega)]
    rw [e1, e2]
  · rw [if_neg h0]
    have hf0 : a ≠ 0 := fun h => h0 (Or.inl h)
    have hfn : a < n := lt_of_le_of_ne ha (fun h => h0 (Or.inr h))
    rw [Nat.mod_eq_of_lt hfn, show a + n - 1 = (a - 1) + n by omega, Nat.add_mod_right,
      Nat.mod_eq_of_lt (by omega : a - 1 < n)]

theorem lL0_eq_lC {n : ℕ} (hn : 0 < n) (km kp : α) (d : ℕ → α) {a : ℕ} (h0 : a ≠ 0) (ha : a ≤ n) :
    lL0 n true km kp d a = lC n km kp d a := by
  unfold lL0 lC
  rw [if_neg h0, lgrad_eq_gC hn d ha, lgrad_eq_gC hn d (by omega : a - 1 ≤ n)]
  have e : a + n - 1 = (a - 1) + n := by omega
  rw [gC_congr hn d (show (a + n - 1) % n = (a - 1) % n by rw [e, Nat.add_mod_right]), e,
    Nat.add_mod_right, Nat.mod_eq_of_lt (by omega : a - 1 < n)]

theorem lR0_eq_rC {n : ℕ} (hn : 0 < n) (km kp : α) (d : ℕ → α) {a : ℕ} (ha : a < n) :
    lR0 n true km kp d a = rC n km kp d a := by
  unfold lR0 rC
  rw [if_neg (by omega), lgrad_eq_gC hn d (by omega : a ≤ n), lgrad_eq_gC hn d (by omega : a + 1 ≤ n),
    Nat.mod_eq_of_lt ha]

theorem lL_eq_lC {n : ℕ} (hn : 0 < n) (km kp : α) (d : ι → ℕ → α) (k : ι) {a : ℕ} (ha : a ≤ n) :
    lL n (BCPair.periodic : BCPair α ι) km kp d k a = lC n km kp (d k) a := by
  unfold lL
  by_cases h0 : a = 0
  · rw [if_pos h0]
    show lL0 n true km kp (d k) n = _
    rw [lL0_eq_lC hn km kp (d k) (by omega) le_rfl, h0]
    exact lC_congr hn km kp _ (by rw [Nat.mod_self, Nat.zero_mod])
  · rw [if_neg h0]
    exact lL0_eq_lC hn km kp (d k) h0 ha

theorem lR_eq_rC {n : ℕ} (hn : 0 < n) (km kp : α) (d : ι → ℕ → α) (k : ι) {a : ℕ} (ha : a ≤ n) :
    lR n (BCPair.periodic : BCPair α ι) km kp d k a = rC n km kp (d k) a := by
  unfold lR
  by_cases h0 : a = n
  · rw [if_pos h0]
    show lR0 n true km kp (d k) 0 = _
    rw [lR0_eq_rC hn km kp (d k) hn, h0]
    exact rC_congr hn km kp _ (by rw [Nat.mod_self, Nat.zero_mod])
  · rw [if_neg h0]
    exact lR0_eq_rC hn km kp (d k) (lt_of_le_of_ne ha h0)

theorem lFlux_eq_fC {n : ℕ} (hn : 0 < n) (km kp : α) (Φ : (ι → α) → (ι → α) → (ι → α))
    (d : ι → ℕ → α) (k : ι) {a : ℕ} (ha : a ≤ n) :
    lFlux n (BCPair.periodic : BCPair α ι) km kp Φ d k a = fC n km kp Φ d k a := by
  unfold lFlux fC
  have h1 : ∀ l, lL n (BCPair.periodic : BCPair α ι) km kp d l a = lC n km kp (d l) a :=
    fun l => lL_eq_lC hn km kp d l ha
  have h2 : ∀ l, lR n (BCPair.periodic : BCPair α ι) km kp d l a = rC n km kp (d l) a :=
    fun l => lR_eq_rC hn km kp d l ha
  simp only [h1, h2]

/-! #### the cyclic shift -/

theorem gC_shift {n : ℕ} (hn : 0 < n) (d : ℕ → α) (a : ℕ) :
    gC n (fun c => d ((c + 1) % n)) a = gC n d (a + 1) := by
  unfold gC
  simp only [Nat.mod_add_mod]
  rw [show a + n - 1 + 1 = a + 1 + n - 1 by omega]

theorem lC_shift {n : ℕ} (hn : 0 < n) (km kp : α) (d : ℕ → α) (a : ℕ) :
    lC n km kp (fun c => d ((c + 1) % n)) a = lC n km kp d (a + 1) := by
  unfold lC
  rw [gC_shift hn, gC_shift hn]
  simp only [Nat.mod_add_mod]
  rw [show a + n - 1 + 1 = a + 1 + n - 1 by omega]

theorem rC_shift {n : ℕ} (hn : 0 < n) (km kp : α) (d : ℕ → α) (a : ℕ) :
    rC n km kp (fun c => d ((c + 1) % n)) a = rC n km kp d (a + 1) := by
  unfold rC
  rw [gC_shift hn, gC_shift hn]
  simp only [Nat.mod_add_mod]

theorem fC_shift {n : ℕ} (hn : 0 < n) (km kp : α) (Φ : (ι → α) → (ι → α) → (ι → α))
    (d : ι → ℕ → α) (k : ι) (a : ℕ) :
    fC n km kp Φ (fun l c => d l ((c + 1) % n)) k a = fC n km kp Φ d k (a + 1) := by
  unfold fC
  have h1 : ∀ l, lC n km kp (fun c => d l ((c + 1) % n)) a = lC n km kp (d l) (a + 1) :=
    fun l => lC_shift hn km kp (d l) a
  have h2 : ∀ l, rC n km kp (fun c => d l ((c + 1) % n)) a = rC n km kp (d l) (a + 1) :=
    fun l => rC_shift hn km kp (d l) a
  simp only [h1, h2]

/-- flux of the shifted line at face `i` = flux of the original line at face `(i+1) % n` -/
theorem lFlux_shift_lo {n : ℕ} (hn : 0 < n) (km kp : α) (Φ : (ι → α) → (ι → α) → (ι → α))
    (d : ι → ℕ → α) (k : ι) {i : ℕ} (hi : i < n) :
    lFlux n (BCPair.periodic : BCPair α ι) km kp Φ (fun l c => d l ((c + 1) % n)) k i
      = lFlux n (BCPair.periodic : BCPair α ι) km kp Φ d k ((i + 1) % n) := by
  rw [lFlux_eq_fC hn km kp Φ _ k (le_of_lt hi),
    lFlux_eq_fC hn km kp Φ d k (le_of_lt (Nat.mod_lt _ hn)), fC_shift hn]
  exact fC_congr hn km kp Φ d k (Nat.mod_mod _ _).symm

/-- flux of the shifted line at face `i+1` = flux of the original line at face `(i+1) % n + 1` -/
theorem lFlux_shift_hi {n : ℕ} (hn : 0 < n) (km kp : α) (Φ : (ι → α) → (ι → α) → (ι → α))
    (d : ι → ℕ → α) (k : ι) {i : ℕ} (hi : i < n) :
    lFlux n (BCPair.periodic : BCPair α ι) km kp Φ (fun l c => d l ((c + 1) % n)) k (i + 1)
      = lFlux n (BCPair.periodic : BCPair α ι) km kp Φ d k ((i + 1) % n + 1) := by
  rw [lFlux_eq_fC hn km kp Φ _ k (by omega : i + 1 ≤ n),
    lFlux_eq_fC hn km kp Φ d k (Nat.mod_lt _ hn : (i + 1) % n < n), fC_shift hn]
  exact fC_congr hn km kp Φ d k (Nat.mod_add_mod (i + 1) n 1).symm

/-! #### constant data -/

theorem lFlux_const {n : ℕ} (hn : 0 < n) (km kp : α) (Φ : (ι → α) → (ι → α) → (ι → α))
    (P : ι → α) (k : ι) {a : ℕ} (ha : a ≤ n) :
    lFlux n (BCPair.periodic : BCPair α ι) km kp Φ (fun l _ => P l) k a = Φ P P k := by
  rw [lFlux_eq_fC hn km kp Φ _ k ha]
  unfold fC
  have h1 : ∀ l, lC n km kp (fun _ => P l) a = P l := by
    intro l; unfold lC gC; ring
  have h2 : ∀ l, rC n km kp (fun _ => P l) a = P l := by
    intro l; unfold rC gC; ring
  simp only [h1, h2]

/-! ### C01 (2D): flux balance telescopes row-wise and column-wise -/
theorem balance2d (D : Disc2D α ι) (hdx : D.mesh.dx ≠ 0) (hdy : D.mesh.dy ≠ 0) (q : ι → ℕ → ℕ → α) (k : ι) :
    ∑ j ∈ range D.mesh.ny, ∑ i ∈ range D.mesh.nx, D.mesh.vol * D.rhs q k i j
      = D.mesh.dy * ∑ j ∈ range D.mesh.ny, (D.xFlux q k 0 j - D.xFlux q k D.mesh.nx j)
        + D.mesh.dx * ∑ i ∈ range D.mesh.nx, (D.yFlux q k i 0 - D.yFlux q k i D.mesh.ny) := by
  have hcell : ∀ i j, D.mesh.vol * D.rhs q k i j
      = D.mesh.dy * (D.xFlux q k i j - D.xFlux q k (i + 1) j)
        + D.mesh.dx * (D.yFlux q k i j - D.yFlux q k i (j + 1)) := by
    intro i j
    simp only [Disc2D.rhs, Mesh2D.vol]
    field_simp
    ring
  simp only [hcell, Finset.sum_add_distrib, ← Finset.mul_sum, Finset.sum_range_sub']
  congr 1
  rw [Finset.sum_comm]
  simp only [Finset.sum_range_sub']

/-- periodic sides carry the same flux on both boundary faces -/
theorem periodic_x_fluxes (D : Disc2D α ι) (hper : D.bcx = BCPair.periodic) (hnx : D.mesh.nx ≠ 0)
    (q : ι → ℕ → ℕ → α) (k : ι) (j : ℕ) : D.xFlux q k 0 j = D.xFlux q k D.mesh.nx j := by
  have hn : 0 < D.mesh.nx := Nat.pos_of_ne_zero hnx
  rw [xFlux_line, xFlux_line, hper, lFlux_eq_fC hn _ _ _ _ _ (Nat.zero_le _),
    lFlux_eq_fC hn _ _ _ _ _ le_rfl]
  exact fC_congr hn _ _ _ _ _ (by rw [Nat.mod_self, Nat.zero_mod])
theorem periodic_y_fluxes (D : Disc2D α ι) (hper : D.bcy = BCPair.periodic) (hny : D.mesh.ny ≠ 0)
    (q : ι → ℕ → ℕ → α) (k : ι) (i : ℕ) : D.yFlux q k i 0 = D.yFlux q k i D.mesh.ny := by
  have hn : 0 < D.mesh.ny := Nat.pos_of_ne_zero hny
  rw [yFlux_line, yFlux_line, hper, lFlux_eq_fC hn _ _ _ _ _ (Nat.zero_le _),
    lFlux_eq_fC hn _ _ _ _ _ le_rfl]
  exact fC_congr hn _ _ _ _ _ (by rw [Nat.mod_self, Nat.zero_mod])

/-- fully periodic: the integral of every component is invariant -/
theorem periodic2d (D : Disc2D α ι) (hx : D.bcx = BCPair.periodic) (hy : D.bcy = BCPair.periodic)
    (hnx : D.mesh.nx ≠ 0) (hny : D.mesh.ny ≠ 0) (hdx : D.mesh.dx ≠ 0) (hdy : D.mesh.dy ≠ 0)
    (q : ι → ℕ → ℕ → α) (k : ι) :
    ∑ j ∈ range D.mesh.ny, ∑ i ∈ range D.mesh.nx, D.mesh.vol * D.rhs q k i j = 0 := by
  rw [balance2d D hdx hdy]
  have h1 : ∀ j, D.xFlux q k 0 j - D.xFlux q k D.mesh.nx j = 0 :=
    fun j => sub_eq_zero.mpr (periodic_x_fluxes D hx hnx q k j)
  have h2 : ∀ i, D.yFlux q k i 0 - D.yFlux q k i D.mesh.ny = 0 :=
    fun i => sub_eq_zero.mpr (periodic_y_fluxes D hy hny q k i)
  simp only [h1, h2, Finset.sum_const_zero, mul_zero, add_zero]

/-! ### C14 (2D): cyclic shifts along x and along y -/
theorem rhs_shift_x (D : Disc2D α ι) (hper : D.bcx = BCPair.periodic) (hnx : 0 < D.mesh.nx)
    (q : ι → ℕ → ℕ → α) (k : ι) (i j : ℕ) (hi : i < D.mesh.nx) :
    D.rhs (fun l a b => q l ((a + 1) % D.mesh.nx) b) k i j = D.rhs q k ((i + 1) % D.mesh.nx) j := by
  have hy : ∀ b, D.yFlux (fun l a b => q l ((a + 1) % D.mesh.nx) b) k i b
      = D.yFlux q k ((i + 1) % D.mesh.nx) b := fun _ => rfl
  have hx0 : D.xFlux (fun l a b => q l ((a + 1) % D.mesh.nx) b) k i j
      = D.xFlux q k ((i + 1) % D.mesh.nx) j := by
    rw [xFlux_line, xFlux_line, hper]
    exact lFlux_shift_lo hnx _ _ _ (fun l a => D.pdata q l a j) k hi
  have hx1 : D.xFlux (fun l a b => q l ((a + 1) % D.mesh.nx) b) k (i + 1) j
      = D.xFlux q k ((i + 1) % D.mesh.nx + 1) j := by
    rw [xFlux_line, xFlux_line, hper]
    exact lFlux_shift_hi hnx _ _ _ (fun l a => D.pdata q l a j) k hi
  unfold Disc2D.rhs
  rw [hy, hy, hx0, hx1]
theorem rhs_shift_y (D : Disc2D α ι) (hper : D.bcy = BCPair.periodic) (hny : 0 < D.mesh.ny)
    (q : ι → ℕ → ℕ → α) (k : ι) (i j : ℕ) (hj : j < D.mesh.ny) :
    D.rhs (fun l a b => q l a ((b + 1) % D.mesh.ny)) k i j = D.rhs q k i ((j + 1) % D.mesh.ny) := by
  have hx : ∀ a, D.xFlux (fun l a b => q l a ((b + 1) % D.mesh.ny)) k a j
      = D.xFlux q k a ((j + 1) % D.mesh.ny) := fun _ => rfl
  have hy0 : D.yFlux (fun l a b => q l a ((b + 1) % D.mesh.ny)) k i j
      = D.yFlux q k i ((j + 1) % D.mesh.ny) := by
    rw [yFlux_line, yFlux_line, hper]
    exact lFlux_shift_lo hny _ _ _ (fun l b => D.pdata q l i b) k hj
  have hy1 : D.yFlux (fun l a b => q l a ((b + 1) % D.mesh.ny)) k i (j + 1)
      = D.yFlux q k i ((j + 1) % D.mesh.ny + 1) := by
    rw [yFlux_line, yFlux_line, hper]
    exact lFlux_shift_hi hny _ _ _ (fun l b => D.pdata q l i b) k hj
  unfold Disc2D.rhs
  rw [hx, hx, hy0, hy1]

/-! ### C15: transposition -/
def transposeMesh (m : Mesh2D α) : Mesh2D α := { nx := m.ny, ny := m.nx, lx := m.ly, ly := m.lx }

/-- conjugate a boundary pair by the component permutation `τ` (an involution on component vectors) -/
def conjPair (T : (ι → α) → (ι → α)) : BCPair α ι → BCPair α ι
  | .periodic => .periodic
  | .open lo hi => .open (fun w => T (lo (T w))) (fun w => T (hi (T w)))

/-- the transposed problem: x and y exchanged, component vectors permuted by `T` (velocity components swapped) -/
def transposeDisc (T : (ι → α) → (ι → α)) (D : Disc2D α ι) : Disc2D α ι :=
  { mesh := transposeMesh D.mesh, scheme := D.scheme, bcx := conjPair T D.bcy, bcy := conjPair T D.bcx,
    c2p := D.c2p, flux := D.flux }

omit [Field α] in
theorem conjPair_isPer (T : (ι → α) → (ι → α)) (bc : BCPair α ι) : (conjPair T bc).isPer = bc.isPer := by
  cases bc <;> rfl

/-- the line pipeline with permuted components and conjugated boundary kernels -/
theorem lL_conj (τ : ι → ι) (hτ : ∀ k, τ (τ k) = k) (n : ℕ) (bc : BCPair α ι) (km kp : α)
    (d : ι → ℕ → α) (k : ι) (a : ℕ) :
    lL n (conjPair (fun w l => w (τ l)) bc) km kp (fun l => d (τ l)) k a = lL n bc km kp d (τ k) a := by
  unfold lL
  rw [conjPair_isPer]
  rcases bc with _ | ⟨lo, hi⟩
  · rfl
  · by_cases h0 : a = 0
    · rw [if_pos h0, if_pos h0]
      show lo (fun l => lR0 n _ km kp (d (τ (τ l))) 0) (τ k) = lo (fun l => lR0 n _ km kp (d l) 0) (τ k)
      simp only [hτ]
    · rw [if_neg h0, if_neg h0]

theorem lR_conj (τ : ι → ι) (hτ : ∀ k, τ (τ k) = k) (n : ℕ) (bc : BCPair α ι) (km kp : α)
    (d : ι → ℕ → α) (k : ι) (a : ℕ) :
    lR n (conjPair (fun w l => w (τ l)) bc) km kp (fun l => d (τ l)) k a = lR n bc km kp d (τ k) a := by
  unfold lR
  rw [conjPair_isPer]
  rcases bc with _ | ⟨lo, hi⟩
  · rfl
  · by_cases h0 : a = n
    · rw [if_pos h0, if_pos h0]
      show hi (fun l => lL0 n _ km kp (d (τ (τ l))) n) (τ k) = hi (fun l => lL0 n _ km kp (d l) n) (τ k)
      simp only [hτ]
    · rw [if_neg h0, if_neg h0]

theorem lFlux_conj (τ : ι → ι) (hτ : ∀ k, τ (τ k) = k) (n : ℕ) (bc : BCPair α ι) (km kp : α)
    (Φ Φ' : (ι → α) → (ι → α) → (ι → α))
    (hΦ : ∀ L R k, Φ' (fun l => L (τ l)) (fun l => R (τ l)) k = Φ L R (τ k))
    (d : ι → ℕ → α) (k : ι) (a : ℕ) :
    lFlux n (conjPair (fun w l => w (τ l)) bc) km kp Φ' (fun l => d (τ l)) k a
      = lFlux n bc km kp Φ d (τ k) a := by
  unfold lFlux
  have h1 : ∀ l, lL n (conjPair (fun w l => w (τ l)) bc) km kp (fun l => d (τ l)) l a
      = lL n bc km kp d (τ l) a := fun l => lL_conj τ hτ n bc km kp d l a
  have h2 : ∀ l, lR n (conjPair (fun w l => w (τ l)) bc) km kp (fun l => d (τ l)) l a
      = lR n bc km kp d (τ l) a := fun l => lR_conj τ hτ n bc km kp d l a
  simp only [h1, h2]
  exact hΦ (fun l => lL n bc km kp d l a) (fun l => lR n bc km kp d l a) k

/-- `T` acts on component vectors by a permutation `τ` of the components -/
theorem rhs_transpose (τ : ι → ι) (hτ : ∀ k, τ (τ k) = k) (D : Disc2D α ι)
    (hc2p : ∀ Q, D.c2p (fun k => Q (τ k)) = fun k => D.c2p Q (τ k))
    (hflux : ∀ nx ny L R k, D.flux ny nx (fun l => L (τ l)) (fun l => R (τ l)) k = D.flux nx ny L R (τ k))
    (q : ι → ℕ → ℕ → α) (k : ι) (i j : ℕ) :
    (transposeDisc (fun w l => w (τ l)) D).rhs (fun l a b => q (τ l) b a) k j i = D.rhs q (τ k) i j := by
  -- primitive data
  have hp : ∀ l a b, (transposeDisc (fun w l => w (τ l)) D).pdata (fun l a b => q (τ l) b a) l a b
      = D.pdata q (τ l) b a := by
    intro l a b
    show D.c2p (fun l' => q (τ l') b a) l = D.c2p (fun l' => q l' b a) (τ l)
    rw [hc2p (fun l' => q l' b a)]
  have hx : ∀ a b, (transposeDisc (fun w l => w (τ l)) D).xFlux (fun l a b => q (τ l) b a) k a b
      = D.yFlux q (τ k) b a := by
    intro a b
    rw [xFlux_line, yFlux_line]
    simp only [hp]
    exact lFlux_conj τ hτ D.mesh.ny D.bcy D.scheme.km D.scheme.kp (D.flux 0 1) (D.flux 1 0)
      (hflux 0 1) (fun l b' => D.pdata q l b b') k a
  have hy : ∀ a b, (transposeDisc (fun w l => w (τ l)) D).yFlux (fun l a b => q (τ l) b a) k a b
      = D.xFlux q (τ k) b a := by
    intro a b
    rw [yFlux_line, xFlux_line]
    simp only [hp]
    exact lFlux_conj τ hτ D.mesh.nx D.bcx D.scheme.km D.scheme.kp (D.flux 1 0) (D.flux 0 1)
      (hflux 1 0) (fun l a' => D.pdata q l a' a) k b
  unfold Disc2D.rhs
  rw [hx, hx, hy, hy]
  show 0 - ((D.yFlux q (τ k) i (j + 1) - D.yFlux q (τ k) i j) / D.mesh.dy
      + (D.xFlux q (τ k) (i + 1) j - D.xFlux q (τ k) i j) / D.mesh.dx) = _
  rw [add_comm]

/-! ### C15: reduction to the 1D operator for data that do not vary along y (periodic in y) -/
/-- all y-fluxes of a y-independent field with periodic top/bottom are equal, so they cancel -/
theorem yflux_const_of_yindep (D : Disc2D α ι) (hy : D.bcy = BCPair.periodic) (hny : D.mesh.ny ≠ 0)
    (q1 : ι → ℕ → α) (k : ι) (i j j' : ℕ) (hj : j ≤ D.mesh.ny) (hj' : j' ≤ D.mesh.ny) :
    D.yFlux (fun l a _ => q1 l a) k i j = D.yFlux (fun l a _ => q1 l a) k i j' := by
  have hn : 0 < D.mesh.ny := Nat.pos_of_ne_zero hny
  rw [yFlux_line, yFlux_line, hy]
  exact (lFlux_const hn _ _ _ (fun l => D.c2p (fun l' => q1 l' i) l) k hj).trans
    (lFlux_const hn _ _ _ (fun l => D.c2p (fun l' => q1 l' i) l) k hj').symm

/-- the 1D discretisation along x corresponding to a 2D one: uniform mesh, κ scheme (or first order),
x-normal flux, x boundary kernels -/
def rowDisc (D : Disc2D α ι) : Disc1D α ι :=
  { mesh := uniMesh D.mesh.nx D.mesh.lx 0,
    scheme := (match D.scheme with | .first => Scheme.extrapol1 | .kappa κ => Scheme.extrapolk κ),
    bc := (match D.bcx with | .periodic => BC1D.periodic | .open lo hi => BC1D.open lo hi),
    c2p := D.c2p, flux := D.flux 1 0, src := fun _ => none }

/-! #### the 1D model on a uniform mesh is the line pipeline -/

def sch1 : Scheme2D α → Scheme α
  | .first => Scheme.extrapol1
  | .kappa κ => Scheme.extrapolk κ
def bc1 : BCPair α ι → BC1D α ι
  | .periodic => BC1D.periodic
  | .open lo hi => BC1D.open lo hi

omit [Field α] in
theorem bc1_isPer (bc : BCPair α ι) : (bc1 bc).isPer = bc.isPer := by cases bc <;> rfl

def mkRow (n : ℕ) (L : α) (s : Scheme2D α) (bc : BCPair α ι) (c2p : (ι → α) → (ι → α))
    (Φ : (ι → α) → (ι → α) → (ι → α)) : Disc1D α ι :=
  { mesh := uniMesh n L 0, scheme := sch1 s, bc := bc1 bc, c2p := c2p, flux := Φ, src := fun _ => none }

theorem rowDisc_eq (D : Disc2D α ι) :
    rowDisc D = mkRow D.mesh.nx D.mesh.lx D.scheme D.bcx D.c2p (D.flux 1 0) := by
  obtain ⟨mesh, s, bcx, bcy, c2p, flux⟩ := D
  cases s <;> cases bcx <;> rfl

section CharZero
variable [CharZero α]

theorem uni_vol' (n : ℕ) (L : α) (i : ℕ) : (uniMesh n L 0).vol i = L / n := by
  simp only [Mesh1D.vol, uniMesh]; push_cast; ring

theorem uni_xc' (n : ℕ) (L : α) (i : ℕ) : (uniMesh n L 0).xc i = ((i : α) + 1 / 2) * (L / n) := by
  simp only [Mesh1D.xc, uniMesh]; push_cast; ring

theorem uni_xf_sub_xc_pred' (n : ℕ) (L : α) (f : ℕ) (hf : f ≠ 0) :
    (uniMesh n L 0).xf f - (uniMesh n L 0).xc (f - 1) = L / n / 2 := by
  obtain ⟨f, rfl⟩ := Nat.exists_eq_succ_of_ne_zero hf
  rw [uni_xc']; simp only [uniMesh, Nat.succ_sub_one]; push_cast; ring

theorem uni_xf_sub_xc' (n : ℕ) (L : α) (f : ℕ) :
    (uniMesh n L 0).xf f - (uniMesh n L 0).xc f = -(L / n / 2) := by
  rw [uni_xc']; simp only [uniMesh]; ring

theorem uni_xc_sub_xc_pred' (n : ℕ) (L : α) (f : ℕ) (hf : f ≠ 0) :
    (uniMesh n L 0).xc f - (uniMesh n L 0).xc (f - 1) = L / n := by
  obtain ⟨f, rfl⟩ := Nat.exists_eq_succ_of_ne_zero hf
  rw [uni_xc', uni_xc']; simp only [Nat.succ_sub_one]; push_cast; ring

theorem uni_seam' (n : ℕ) (hn : 0 < n) (L : α) :
    (uniMesh n L 0).xc 0 + (uniMesh n L (0 : α)).length - (uniMesh n L 0).xc (n - 1) = L / n := by
  obtain ⟨m, rfl⟩ := Nat.exists_eq_succ_of_ne_zero (Nat.pos_iff_ne_zero.mp hn)
  rw [uni_xc', uni_xc']
  simp only [uniMesh, Nat.succ_sub_one]
  have : ((m + 1 : ℕ) : α) ≠ 0 := Nat.cast_ne_zero.mpr (Nat.succ_ne_zero m)
  push_cast at this ⊢
  field_simp
  ring

theorem grad1d_uni (n : ℕ) (hn : 0 < n) (L : α) (per : Bool) (d : ℕ → α) (a : ℕ) :
    grad1d (uniMesh n L 0) per d a = lgrad n per d a / (L / n) := by
  unfold grad1d lgrad
  have hnn : (uniMesh n L (0 : α)).n = n := rfl
  rw [hnn]
  by_cases h0 : a = 0 ∨ a = n
  · rw [if_pos h0, if_pos h0]
    cases per
    · simp
    · rw [if_pos rfl, if_pos rfl, uni_seam' n hn]
  · rw [if_neg h0, if_neg h0, uni_xc_sub_xc_pred' n L a (fun h => h0 (Or.inl h))]

theorem recL_uni (s : Scheme2D α) (n : ℕ) (hn : 0 < n) (L : α) (hL : L ≠ 0) (per : Bool)
    (d : ℕ → α) (a : ℕ) :
    recL (sch1 s) (uniMesh n L 0) d (grad1d (uniMesh n L 0) per d) a = lL0 n per s.km s.kp d a := by
  unfold recL lL0
  by_cases h0 : a = 0
  · rw [if_pos h0, if_pos h0]
  · rw [if_neg h0, if_neg h0, uni_xf_sub_xc_pred' n L a h0]
    have hh : L / (n : α) ≠ 0 := div_ne_zero hL (Nat.cast_ne_zero.mpr (by omega))
    cases s with
    | first => simp only [sch1, slopeL, Scheme2D.km, Scheme2D.kp]; ring
    | kappa κ =>
      simp only [sch1, slopeL, Scheme2D.km, Scheme2D.kp, grad1d_uni n hn]
      generalize lgrad n per d (a - 1) = g1
      generalize lgrad n per d a = g2
      generalize L / (n : α) = h at hh ⊢
      field_simp
      ring

theorem recR_uni (s : Scheme2D α) (n : ℕ) (hn : 0 < n) (L : α) (hL : L ≠ 0) (per : Bool)
    (d : ℕ → α) (a : ℕ) :
    recR (sch1 s) (uniMesh n L 0) d (grad1d (uniMesh n L 0) per d) a = lR0 n per s.km s.kp d a := by
  unfold recR lR0
  have hnn : (uniMesh n L (0 : α)).n = n := rfl
  rw [hnn]
  by_cases h0 : a = n
  · rw [if_pos h0, if_pos h0]
  · rw [if_neg h0, if_neg h0, uni_xf_sub_xc' n L a]
    have hh : L / (n : α) ≠ 0 := div_ne_zero hL (Nat.cast_ne_zero.mpr (by omega))
    cases s with
    | first => simp only [sch1, slopeR, Scheme2D.km, Scheme2D.kp]; ring
    | kappa κ =>
      simp only [sch1, slopeR, Scheme2D.km, Scheme2D.kp, grad1d_uni n hn]
      generalize lgrad n per d (a + 1) = g1
      generalize lgrad n per d a = g2
      generalize L / (n : α) = h at hh ⊢
      field_simp
      ring

theorem mkRow_flux (n : ℕ) (hn : 0 < n) (L : α) (hL : L ≠ 0) (s : Scheme2D α) (bc : BCPair α ι)
    (c2p : (ι → α) → (ι → α)) (Φ : (ι → α) → (ι → α) → (ι → α)) (q1 : ι → ℕ → α) (k : ι) (a : ℕ) :
    (mkRow n L s bc c2p Φ).faceFluxes q1 k a
      = lFlux n bc s.km s.kp Φ (fun l c => c2p (fun l' => q1 l' c) l) k a := by
  have eL0 : ∀ l c, (mkRow n L s bc c2p Φ).pL0 q1 l c
      = lL0 n bc.isPer s.km s.kp (fun c => c2p (fun l' => q1 l' c) l) c := by
    intro l c
    show recL (sch1 s) (uniMesh n L 0) (fun c => c2p (fun l' => q1 l' c) l)
      (grad1d (uniMesh n L 0) (bc1 bc).isPer (fun c => c2p (fun l' => q1 l' c) l)) c = _
    rw [bc1_isPer]
    exact recL_uni s n hn L hL _ _ c
  have eR0 : ∀ l c, (mkRow n L s bc c2p Φ).pR0 q1 l c
      = lR0 n bc.isPer s.km s.kp (fun c => c2p (fun l' => q1 l' c) l) c := by
    intro l c
    show recR (sch1 s) (uniMesh n L 0) (fun c => c2p (fun l' => q1 l' c) l)
      (grad1d (uniMesh n L 0) (bc1 bc).isPer (fun c => c2p (fun l' => q1 l' c) l)) c = _
    rw [bc1_isPer]
    exact recR_uni s n hn L hL _ _ c
  have eL : ∀ l, (mkRow n L s bc c2p Φ).pL q1 l a
      = lL n bc s.km s.kp (fun l c => c2p (fun l' => q1 l' c) l) l a := by
    intro l
    show bcFaceL n (bc1 bc) ((mkRow n L s bc c2p Φ).pL0 q1) ((mkRow n L s bc c2p Φ).pR0 q1) l a = _
    unfold bcFaceL lL
    rcases bc with _ | ⟨lo, hi⟩
    · simp only [bc1, eL0]
    · simp only [bc1, eL0, eR0]
  have eR : ∀ l, (mkRow n L s bc c2p Φ).pR q1 l a
      = lR n bc s.km s.kp (fun l c => c2p (fun l' => q1 l' c) l) l a := by
    intro l
    show bcFaceR n (bc1 bc) ((mkRow n L s bc c2p Φ).pL0 q1) ((mkRow n L s bc c2p Φ).pR0 q1) l a = _
    unfold bcFaceR lR
    rcases bc with _ | ⟨lo, hi⟩
    · simp only [bc1, eR0]
    · simp only [bc1, eL0, eR0]
  show Φ (fun j => (mkRow n L s bc c2p Φ).pL q1 j a) (fun j => (mkRow n L s bc c2p Φ).pR q1 j a) k = _
  unfold lFlux
  simp only [eL, eR]

end CharZero

set_option linter.unusedVariables false in
/-- **row by row the 2D operator is the 1D operator** (y-independent data, periodic in y, `nx·dx = lx`) -/
theorem rhs_rows_eq_1d [CharZero α] (D : Disc2D α ι) (hy : D.bcy = BCPair.periodic) (hny : D.mesh.ny ≠ 0) (hnx : 0 < D.mesh.nx)
    (hlx : D.mesh.lx ≠ 0) (hdy : D.mesh.dy ≠ 0)
    (q1 : ι → ℕ → α) (k : ι) (i j : ℕ) (hi : i < D.mesh.nx) (hj : j < D.mesh.ny) :
    D.rhs (fun l a _ => q1 l a) k i j = (rowDisc D).rhs q1 k i := by
  rw [rowDisc_eq]
  show _ = -((mkRow D.mesh.nx D.mesh.lx D.scheme D.bcx D.c2p (D.flux 1 0)).faceFluxes q1 k (i + 1)
      - (mkRow D.mesh.nx D.mesh.lx D.scheme D.bcx D.c2p (D.flux 1 0)).faceFluxes q1 k i)
      / (uniMesh D.mesh.nx D.mesh.lx 0).vol i
  rw [mkRow_flux _ hnx _ hlx, mkRow_flux _ hnx _ hlx, uni_vol']
  unfold Disc2D.rhs
  rw [yflux_const_of_yindep D hy hny q1 k i (j + 1) j (by omega) (by omega), xFlux_line, xFlux_line,
    sub_self, zero_div, add_zero, zero_sub, neg_div]
  rfl

end Flowdyn.C15
