/-
C13 (part e) — change of units for the IMPLICIT integrator family (`implicit`, `cranknicolson`/`trapezoidal`, `gear`),
finite-difference Jacobian recomputed at every step, linear solver a parameter; ANY space operator (nonlinear, limited).

The change of units acts on the vector of unknowns `Vec α N` by `T x i = sg i * x (π i)` (`sg i ≠ 0` the unit factor of
unknown `i`: `a` for densities, `a b` for momenta, `a b²` for energies, in any flattening order; `π` a permutation, the
identity for a pure change of units) TOGETHER with a change of the time unit by `τ` (`τ = l / b`).  It generalises
C14c B′ (`τ = 1`) and is the implicit counterpart of C13d (`solve_units…`, explicit integrators).
   operator law          `R' (τ t) (T v) = τ⁻¹ • T (R t v)`          (residuals are data per unit time)
   time steps            `dtv' = τ dtv (π ·)` per unknown, `dtm' = τ dtm`, times `t' = τ t`
   perturbations         `eps' (T q) = T (eps q)`
   memory of `gear`      `last' = τ⁻¹ • T last`  (`memMap T τ`; `incr` is the memorised RESIDUAL `x / dt`: it scales like
                         data per unit time, NOT like a state increment)
1. one step
   `fdJac_units`, `fdJac_units_mulVec`   `fdJac R' (T q) (T e) i j = τ⁻¹ (sg i / sg j) fdJac R q e (π i) (π j)`; `J' T = τ⁻¹ T J`
   `sysMat_units`, `sysMat_units_mulVec` the θ/ξ-system matrices correspond exactly (entries; action on vectors)
   `sysMat_units_inj`                    uniqueness for the image system follows from uniqueness for the original one
   `thetaStep_units_gen` (abstract `J`, `J'`), `thetaStep_units` (`UnitsOK`: the solver hypotheses of C06b/C14c `StateOK`)
                                         `time' = τ time`, `data' = T data`, `incr' = τ⁻¹ • T incr`
   `implicitStep_units`, `trapezoidalStep_units`, `gearStep_units` (`GearUnitsOK`, both branches, memory mapped)
2. the perturbation rule of `calc_jacobian` (`comp j` = the conservative component of unknown `j`):
   `epsMean_units`   the relative rule `c · mean |q_component|` is covariant for positive factors constant on the components
   `epsCode_units`   the code's rule (fallback `1.0` for an all-zero component) is covariant at the states without an
                     identically zero component (`epsCode_eq_epsMean`); it is NOT at the others (example in `Ex`)
3. whole solves (C07c morphism with `ft = (τ * ·)`, invariant `Visited` of C06b, as C14c `solve_theta_reindex`):
   `ParUnits`                         driver parameters of the problem in the new units (time-step rule `× τ` through `fD`,
                                      stop and save times `× τ`, same `maxit`/`itstart`/`dtlocal`, monitors through `fm`)
   `thetaCfg_units_homOn`, `solve_theta_units`, `solve_theta_units_scaled` (`ScaledRun` of C13d),
   `solve_implicit_units` (θ = 1), `solve_cranknicolson_units` (θ = 1/2)
   `gearCfg_units_homOn`, `solve_gear_units` (any initial memory: `solve` and `restart`), `solve_gear_units_results`
   Hypotheses at the states visited by the full steps of the original run (`ThetaGuard`, `GearGuard`): the perturbation
   rule is covariant there and the solver hypotheses `UnitsOK` hold, for the full step and the snapshot side steps.
4. the model's operator: the scalar models in the 1D pipeline on a periodic uniform mesh (`perVec` of C14c):
   `perVec_units` (from C13d `rhs_units_time`), `unitsPair_perBurgers`, `unitsPair_perConv`,
   `solve_theta_units_perVec`, `solve_gear_units_perVec`
5. non-vacuity (`Ex`): one cell, two equations, factors `(2, 6)`, `τ = 5`, nonlinear time-dependent `R t v = M v - v³ + t`,
   relative perturbation rule, per-unknown state-dependent time steps (local or global), exact inverse-matrix solver
   (`unitsOK_invSolve`: the hypotheses reduce to regularity of the ORIGINAL system) and Cramer's rule with two evaluated
   runs (4 iterations, 2 snapshots in both unit systems); `ExConv`: the model's upwind convection operator on 3 cells.
-/
import Flowdyn.Props.C14c
import Flowdyn.Props.C13d

namespace Flowdyn.C13e
open Flowdyn Flowdyn.C07 Flowdyn.C13 Flowdyn.C06 Flowdyn.C14 Matrix

/-! ## 1. one step -/
section OneStep
variable {α : Type} [Field α] {N : ℕ}

/-- entries of the finite-difference Jacobian of the problem in the new units at the image state with the image
perturbations: a derivative of (data per unit time) with respect to data -/
theorem fdJac_units (T : Vec α N →ₗ[α] Vec α N) (π : Equiv.Perm (Fin N)) (sg : Vec α N)
    (hT : ∀ x i, T x i = sg i * x (π i)) (τ : α) (R R' : Vec α N → Vec α N)
    (hR : ∀ v, R' (T v) = τ⁻¹ • T (R v)) (q e : Vec α N) (i j : Fin N) :
    fdJac R' (T q) (T e) i j = τ⁻¹ * (sg i / sg j) * fdJac R q e (π i) (π j) := by
  have hpert : (fun l => if l = j then T q l + T e j else T q l)
      = T (fun l => if l = π j then q l + e (π j) else q l) := by
    funext l
    simp only [hT]
    by_cases h : l = j
    · subst h; simp only [if_true]; ring
    · have : π l ≠ π j := fun e => h (π.injective e)
      simp only [h, this, if_false]
  unfold fdJac
  rw [hpert, hR, hR]
  simp only [Pi.smul_apply, smul_eq_mul, hT]
  rw [← mul_sub, ← mul_sub, mul_assoc, div_mul_div_comm, mul_div_assoc]

/-- the two finite-difference Jacobians are intertwined by `T` up to the factor `1/τ` -/
theorem fdJac_units_mulVec (T : Vec α N →ₗ[α] Vec α N) (π : Equiv.Perm (Fin N)) (sg : Vec α N)
    (hT : ∀ x i, T x i = sg i * x (π i)) (hsg : ∀ i, sg i ≠ 0) (τ : α) (R R' : Vec α N → Vec α N)
    (hR : ∀ v, R' (T v) = τ⁻¹ • T (R v)) (q e x : Vec α N) :
    (fdJac R' (T q) (T e)).mulVec (T x) = τ⁻¹ • T ((fdJac R q e).mulVec x) := by
  funext i
  rw [Pi.smul_apply, smul_eq_mul, hT]
  show ∑ j, fdJac R' (T q) (T e) i j * T x j = τ⁻¹ * (sg i * ∑ j, fdJac R q e (π i) j * x j)
  rw [Finset.mul_sum, Finset.mul_sum, ← Equiv.sum_comp π (fun j => τ⁻¹ * (sg i * (fdJac R q e (π i) j * x j)))]
  refine Finset.sum_congr rfl fun j _ => ?_
  rw [fdJac_units T π sg hT τ R R' hR, hT]
  have := hsg j
  field_simp

/-- the θ/ξ-system matrices correspond exactly: with the time steps `τ dtv (π ·)` the matrix of the problem in the
new units is `1/τ` times the row/column-scaled matrix (stated through the action on vectors; abstract `J`, `J'`) -/
theorem sysMat_units_mulVec (T : Vec α N →ₗ[α] Vec α N) (π : Equiv.Perm (Fin N)) (sg : Vec α N)
    (hT : ∀ x i, T x i = sg i * x (π i)) (τ : α) (θ ξ : α) (J J' : Mat α N)
    (hJ : ∀ x, J'.mulVec (T x) = τ⁻¹ • T (J.mulVec x)) (dtv x : Vec α N) :
    (sysMat θ ξ J' (fun i => τ * dtv (π i))).mulVec (T x) = τ⁻¹ • T ((sysMat θ ξ J dtv).mulVec x) := by
  funext i
  rw [sysMat_mulVec, hJ, Pi.smul_apply, Pi.smul_apply, smul_eq_mul, smul_eq_mul, hT, hT, hT, sysMat_mulVec]
  rw [one_div, one_div, mul_inv]
  ring

/-- the θ/ξ-system matrices correspond exactly, entry by entry: with the time steps `τ dtv (π ·)` the matrix of the
problem in the new units is `1/τ` times the row/column-scaled (and reindexed) matrix of the original problem -/
theorem sysMat_units (T : Vec α N →ₗ[α] Vec α N) (π : Equiv.Perm (Fin N)) (sg : Vec α N)
    (hT : ∀ x i, T x i = sg i * x (π i)) (hsg : ∀ i, sg i ≠ 0) (τ : α) (θ ξ : α) (R R' : Vec α N → Vec α N)
    (hR : ∀ v, R' (T v) = τ⁻¹ • T (R v)) (q e dtv : Vec α N) (i j : Fin N) :
    sysMat θ ξ (fdJac R' (T q) (T e)) (fun i => τ * dtv (π i)) i j
      = τ⁻¹ * (sg i / sg j) * sysMat θ ξ (fdJac R q e) dtv (π i) (π j) := by
  unfold sysMat
  rw [fdJac_units T π sg hT τ R R' hR]
  by_cases h : i = j
  · subst h
    simp only [if_true, div_self (hsg i), one_div, mul_inv]
    ring
  · have : π i ≠ π j := fun e => h (π.injective e)
    simp only [h, this, if_false]
    ring

/-- `T` (non-zero factors, a permutation) is injective … -/
theorem reindex_injective (T : Vec α N →ₗ[α] Vec α N) (π : Equiv.Perm (Fin N)) (sg : Vec α N)
    (hT : ∀ x i, T x i = sg i * x (π i)) (hsg : ∀ i, sg i ≠ 0) (x : Vec α N) (h : T x = 0) : x = 0 := by
  funext k
  have h1 := congrFun h (π.symm k)
  rw [hT, Equiv.apply_symm_apply, Pi.zero_apply] at h1
  exact (mul_eq_zero.mp h1).resolve_left (hsg _)

/-- … and surjective -/
theorem reindex_surjective (T : Vec α N →ₗ[α] Vec α N) (π : Equiv.Perm (Fin N)) (sg : Vec α N)
    (hT : ∀ x i, T x i = sg i * x (π i)) (hsg : ∀ i, sg i ≠ 0) (w : Vec α N) : ∃ y, T y = w := by
  refine ⟨fun k => w (π.symm k) / sg (π.symm k), ?_⟩
  funext i
  rw [hT, Equiv.symm_apply_apply]
  have := hsg i
  field_simp

/-- the system of the problem in the new units has at most one solution iff the original one has (here: if) -/
theorem sysMat_units_inj (T : Vec α N →ₗ[α] Vec α N) (π : Equiv.Perm (Fin N)) (sg : Vec α N)
    (hT : ∀ x i, T x i = sg i * x (π i)) (hsg : ∀ i, sg i ≠ 0) (τ : α) (hτ : τ ≠ 0) (θ ξ : α) (J J' : Mat α N)
    (hJ : ∀ x, J'.mulVec (T x) = τ⁻¹ • T (J.mulVec x)) (dtv : Vec α N)
    (hinj : ∀ x : Vec α N, (sysMat θ ξ J dtv).mulVec x = 0 → x = 0) (x : Vec α N)
    (hx : (sysMat θ ξ J' (fun i => τ * dtv (π i))).mulVec x = 0) : x = 0 := by
  obtain ⟨y, rfl⟩ := reindex_surjective T π sg hT hsg x
  rw [sysMat_units_mulVec T π sg hT τ θ ξ J J' hJ] at hx
  have h1 : T ((sysMat θ ξ J dtv).mulVec y) = 0 := by
    have := congrArg (fun v => τ • v) hx
    simpa [smul_smul, hτ] using this
  rw [hinj y (reindex_injective T π sg hT hsg _ h1), map_zero]

/-- **a θ/ξ-step under a change of units, abstract Jacobians**: `T x i = sg i * x (π i)`, the time unit multiplied by
`τ ≠ 0`; operator `R' (T q) = τ⁻¹ • T (R q)`, Jacobians `J' T = τ⁻¹ • T J`, time steps `τ dtv (π ·)`, `τ dtm`, memory
`τ⁻¹ • T last` (a residual: data per unit time), start time `τ t`.  The new time is `τ ×` the new time, the new data
the image of the new data, the memorised residual `τ⁻¹ • T` of the memorised residual. -/
theorem thetaStep_units_gen (solve : Mat α N → Vec α N → Vec α N) (θ ξ : α) (J J' : Mat α N)
    (R R' : Vec α N → Vec α N) (T : Vec α N →ₗ[α] Vec α N) (π : Equiv.Perm (Fin N)) (sg : Vec α N)
    (hT : ∀ x i, T x i = sg i * x (π i)) (τ : α) (hτ : τ ≠ 0) (q last dtv : Vec α N) (dtm t : α)
    (hR : R' (T q) = τ⁻¹ • T (R q)) (hJ : ∀ x, J'.mulVec (T x) = τ⁻¹ • T (J.mulVec x))
    (hinj : ∀ x : Vec α N, (sysMat θ ξ J' (fun i => τ * dtv (π i))).mulVec x = 0 → x = 0)
    (hs : (sysMat θ ξ J dtv).mulVec (solve (sysMat θ ξ J dtv) (thetaRhs ξ R last q)) = thetaRhs ξ R last q)
    (hs' : (sysMat θ ξ J' (fun i => τ * dtv (π i))).mulVec
              (solve (sysMat θ ξ J' (fun i => τ * dtv (π i))) (thetaRhs ξ R' (τ⁻¹ • T last) (T q)))
            = thetaRhs ξ R' (τ⁻¹ • T last) (T q)) :
    (let o := thetaStep solve θ ξ J R dtv dtm last t q
     let o' := thetaStep solve θ ξ J' R' (fun i => τ * dtv (π i)) (τ * dtm) (τ⁻¹ • T last) (τ * t) (T q)
     o'.time = τ * o.time ∧ o'.data = T o.data ∧ o'.incr = τ⁻¹ • T o.incr) := by
  intro o o'
  set dtv' : Vec α N := fun i => τ * dtv (π i) with hdtv'
  set x := solve (sysMat θ ξ J dtv) (thetaRhs ξ R last q) with hx
  set x' := solve (sysMat θ ξ J' dtv') (thetaRhs ξ R' (τ⁻¹ • T last) (T q)) with hx'
  have hrhs : thetaRhs ξ R' (τ⁻¹ • T last) (T q) = τ⁻¹ • T (thetaRhs ξ R last q) := by
    rw [thetaRhs_eq, thetaRhs_eq, hR, map_add, map_smul, smul_add, smul_comm ξ τ⁻¹]
  have hxx : x' = T x := by
    have : (sysMat θ ξ J' dtv').mulVec (x' - T x) = 0 := by
      rw [Matrix.mulVec_sub, hs', sysMat_units_mulVec T π sg hT τ θ ξ J J' hJ, hs, hrhs, sub_self]
    exact sub_eq_zero.mp (hinj _ this)
  have hi : o.incr = fun i => x i / dtv i := rfl
  have hi' : o'.incr = fun i => x' i / dtv' i := rfl
  have hd : o.data = fun i => q i + dtv i * (x i / dtv i) := rfl
  have hd' : o'.data = fun i => T q i + dtv' i * (x' i / dtv' i) := rfl
  refine ⟨?_, ?_, ?_⟩
  · show τ * t + τ * dtm * 1 = τ * (t + dtm * 1)
    ring
  · rw [hd, hd', hxx]
    funext i
    simp only [hT, hdtv']
    rw [mul_div_assoc', mul_assoc τ, mul_div_mul_left _ _ hτ, mul_div_assoc]
    ring
  · rw [hi, hi', hxx]
    funext i
    simp only [hT, hdtv', Pi.smul_apply, smul_eq_mul]
    rw [div_mul_eq_div_div_swap, div_eq_inv_mul, mul_div_assoc]

/-- the empty memory term is mapped to itself -/
theorem smul_map_zero (T : Vec α N →ₗ[α] Vec α N) (τ : α) : τ⁻¹ • T (fun _ => (0 : α)) = fun _ => (0 : α) := by
  have : (fun _ => (0 : α)) = (0 : Vec α N) := rfl
  rw [this, map_zero, smul_zero]

/-- solver hypotheses (C06b, as `StateOK` of C14c) for the θ/ξ-step taken at the state `q` (memory `last`) and for
the step of the problem in the new units at the image state (memory `τ⁻¹ • T last`): `solve` returned a solution of
both systems formed, the image system has at most one solution -/
structure UnitsOK (solve : Mat α N → Vec α N → Vec α N) (θ ξ : α) (R R' : Vec α N → Vec α N)
    (T : Vec α N → Vec α N) (τ : α) (e e' dtv dtv' last q : Vec α N) : Prop where
  inj : ∀ x : Vec α N, (sysMat θ ξ (fdJac R' (T q) e') dtv').mulVec x = 0 → x = 0
  solves : ThetaSolved solve θ ξ R e dtv last q
  solves' : ThetaSolved solve θ ξ R' e' dtv' (τ⁻¹ • T last) (T q)

/-- the uniqueness hypothesis on the image system follows from uniqueness for the original system -/
theorem unitsOK_of_inj (solve : Mat α N → Vec α N → Vec α N) (θ ξ : α) (T : Vec α N →ₗ[α] Vec α N)
    (π : Equiv.Perm (Fin N)) (sg : Vec α N) (hT : ∀ x i, T x i = sg i * x (π i)) (hsg : ∀ i, sg i ≠ 0)
    (τ : α) (hτ : τ ≠ 0) (R R' : Vec α N → Vec α N) (hR : ∀ v, R' (T v) = τ⁻¹ • T (R v)) (q last e dtv : Vec α N)
    (hinj : ∀ x : Vec α N, (sysMat θ ξ (fdJac R q e) dtv).mulVec x = 0 → x = 0)
    (hs : ThetaSolved solve θ ξ R e dtv last q)
    (hs' : ThetaSolved solve θ ξ R' (T e) (fun i => τ * dtv (π i)) (τ⁻¹ • T last) (T q)) :
    UnitsOK solve θ ξ R R' T τ e (T e) dtv (fun i => τ * dtv (π i)) last q :=
  ⟨sysMat_units_inj T π sg hT hsg τ hτ θ ξ _ _ (fdJac_units_mulVec T π sg hT hsg τ R R' hR q e) dtv hinj, hs, hs'⟩

/-- **one θ/ξ-step under a change of units, any operator** (finite-difference Jacobians recomputed at the state):
the step of the problem in the new units from the image state `(τ t, T q)` with the time steps `τ dtv (π ·)`,
`τ dtm` and the memory `τ⁻¹ • T last` is the image of the step -/
theorem thetaStep_units (solve : Mat α N → Vec α N → Vec α N) (θ ξ : α)
    (T : Vec α N →ₗ[α] Vec α N) (π : Equiv.Perm (Fin N)) (sg : Vec α N)
    (hT : ∀ x i, T x i = sg i * x (π i)) (hsg : ∀ i, sg i ≠ 0) (τ : α) (hτ : τ ≠ 0) (R R' : Vec α N → Vec α N)
    (hR : ∀ v, R' (T v) = τ⁻¹ • T (R v)) (q last e dtv : Vec α N) (dtm t : α)
    (hok : UnitsOK solve θ ξ R R' T τ e (T e) dtv (fun i => τ * dtv (π i)) last q) :
    (let o := thetaStep solve θ ξ (fdJac R q e) R dtv dtm last t q
     let o' := thetaStep solve θ ξ (fdJac R' (T q) (T e)) R' (fun i => τ * dtv (π i)) (τ * dtm) (τ⁻¹ • T last)
       (τ * t) (T q)
     o'.time = τ * o.time ∧ o'.data = T o.data ∧ o'.incr = τ⁻¹ • T o.incr) :=
  thetaStep_units_gen solve θ ξ _ _ R R' T π sg hT τ hτ q last dtv dtm t (hR q)
    (fdJac_units_mulVec T π sg hT hsg τ R R' hR q e) hok.inj hok.solves hok.solves'

/-- `implicit.step` (backward Euler) under a change of units -/
theorem implicitStep_units (solve : Mat α N → Vec α N → Vec α N)
    (T : Vec α N →ₗ[α] Vec α N) (π : Equiv.Perm (Fin N)) (sg : Vec α N)
    (hT : ∀ x i, T x i = sg i * x (π i)) (hsg : ∀ i, sg i ≠ 0) (τ : α) (hτ : τ ≠ 0) (R R' : Vec α N → Vec α N)
    (hR : ∀ v, R' (T v) = τ⁻¹ • T (R v)) (q e dtv : Vec α N) (dtm t : α)
    (hok : UnitsOK solve 1 0 R R' T τ e (T e) dtv (fun i => τ * dtv (π i)) (fun _ => 0) q) :
    (let o := implicitStep solve R e dtv dtm t q
     let o' := implicitStep solve R' (T e) (fun i => τ * dtv (π i)) (τ * dtm) (τ * t) (T q)
     o'.time = τ * o.time ∧ o'.data = T o.data ∧ o'.incr = τ⁻¹ • T o.incr) := by
  have h := thetaStep_units solve 1 0 T π sg hT hsg τ hτ R R' hR q (fun _ => 0) e dtv dtm t hok
  rw [smul_map_zero T τ] at h
  exact h

/-- `trapezoidal.step` / `cranknicolson` under a change of units -/
theorem trapezoidalStep_units (solve : Mat α N → Vec α N → Vec α N)
    (T : Vec α N →ₗ[α] Vec α N) (π : Equiv.Perm (Fin N)) (sg : Vec α N)
    (hT : ∀ x i, T x i = sg i * x (π i)) (hsg : ∀ i, sg i ≠ 0) (τ : α) (hτ : τ ≠ 0) (R R' : Vec α N → Vec α N)
    (hR : ∀ v, R' (T v) = τ⁻¹ • T (R v)) (q e dtv : Vec α N) (dtm t : α)
    (hok : UnitsOK solve (1/2) 0 R R' T τ e (T e) dtv (fun i => τ * dtv (π i)) (fun _ => 0) q) :
    (let o := trapezoidalStep solve R e dtv dtm t q
     let o' := trapezoidalStep solve R' (T e) (fun i => τ * dtv (π i)) (τ * dtm) (τ * t) (T q)
     o'.time = τ * o.time ∧ o'.data = T o.data ∧ o'.incr = τ⁻¹ • T o.incr) := by
  have h := thetaStep_units solve (1/2) 0 T π sg hT hsg τ hτ R R' hR q (fun _ => 0) e dtv dtm t hok
  rw [smul_map_zero T τ] at h
  exact h

/-- image of the memory of `gear` (the memorised residual is data per unit time) -/
def memMap (T : Vec α N → Vec α N) (τ : α) : Option (Vec α N) → Option (Vec α N) := Option.map fun l => τ⁻¹ • T l

/-- solver hypotheses for a `gear` step with memory `s` -/
def GearUnitsOK (solve : Mat α N → Vec α N → Vec α N) (R R' : Vec α N → Vec α N) (T : Vec α N → Vec α N) (τ : α)
    (e e' dtv dtv' : Vec α N) : Option (Vec α N) → Vec α N → Prop
  | none, q => UnitsOK solve (1/2) 0 R R' T τ e e' dtv dtv' (fun _ => 0) q
  | some l, q => UnitsOK solve 1 (1/2) R R' T τ e e' dtv dtv' l q

/-- **one `gear` step under a change of units, any operator**, with its memory (none: Crank–Nicolson start; some:
BDF2), mapped by `memMap` -/
theorem gearStep_units (solve : Mat α N → Vec α N → Vec α N)
    (T : Vec α N →ₗ[α] Vec α N) (π : Equiv.Perm (Fin N)) (sg : Vec α N)
    (hT : ∀ x i, T x i = sg i * x (π i)) (hsg : ∀ i, sg i ≠ 0) (τ : α) (hτ : τ ≠ 0) (R R' : Vec α N → Vec α N)
    (hR : ∀ v, R' (T v) = τ⁻¹ • T (R v)) (q e dtv : Vec α N) (s : Option (Vec α N)) (dtm t : α)
    (hok : GearUnitsOK solve R R' T τ e (T e) dtv (fun i => τ * dtv (π i)) s q) :
    (let o := gearStep solve R e dtv dtm t s q
     let o' := gearStep solve R' (T e) (fun i => τ * dtv (π i)) (τ * dtm) (τ * t) (memMap T τ s) (T q)
     o'.time = τ * o.time ∧ o'.data = T o.data ∧ o'.incr = τ⁻¹ • T o.incr) := by
  cases s with
  | none =>
    have h := thetaStep_units solve (1/2) 0 T π sg hT hsg τ hτ R R' hR q (fun _ => 0) e dtv dtm t hok
    rw [smul_map_zero T τ] at h
    exact h
  | some l => exact thetaStep_units solve 1 (1/2) T π sg hT hsg τ hτ R R' hR q l e dtv dtm t hok

end OneStep

/-! ## 2. the perturbation rule of `calc_jacobian`

`eps_j = epsdiff * (∑_{cells} |q_k| / nelem  or 1.0)` for the unknown `j` of the conservative component `k`:
`comp j` is the component (equation number) of the unknown `j`, whatever the flattening order. -/
section EpsRule
variable {α : Type} [Field α] [LinearOrder α] [IsStrictOrderedRing α] {N : ℕ} {κ : Type} [DecidableEq κ]

/-- the sum of the magnitudes over the component of the unknown `j` -/
def compSum (comp : Fin N → κ) (q : Vec α N) (j : Fin N) : α :=
  ∑ l ∈ Finset.univ.filter (fun l => comp l = comp j), |q l|

/-- the relative rule: `c ×` the mean magnitude of the component (`c = epsdiff`, `n = nelem`) -/
def epsMean (c n : α) (comp : Fin N → κ) (q : Vec α N) : Vec α N := fun j => c * (compSum comp q j / n)

/-- the code's rule: the mean magnitude is replaced by `1.0` when it is zero (python `x or 1.0`) -/
def epsCode (c n : α) (comp : Fin N → κ) (q : Vec α N) : Vec α N :=
  fun j => c * (if compSum comp q j / n = 0 then 1 else compSum comp q j / n)

/-- positive unit factors constant on each component, a permutation inside the components: the component sums are
multiplied by the factor of the component -/
theorem compSum_units (comp : Fin N → κ) (T : Vec α N →ₗ[α] Vec α N) (π : Equiv.Perm (Fin N)) (sg : Vec α N)
    (hT : ∀ x i, T x i = sg i * x (π i)) (s : κ → α) (hs : ∀ k, 0 < s k) (hsg : ∀ i, sg i = s (comp i))
    (hπ : ∀ i, comp (π i) = comp i) (q : Vec α N) (j : Fin N) :
    compSum comp (T q) j = sg j * compSum comp q (π j) := by
  unfold compSum
  rw [Finset.mul_sum]
  refine Finset.sum_equiv π (fun l => ?_) (fun l hl => ?_)
  · simp only [Finset.mem_filter, Finset.mem_univ, true_and, hπ]
  · simp only [Finset.mem_filter, Finset.mem_univ, true_and] at hl
    rw [hT, abs_mul, hsg l, hsg j, hl, abs_of_pos (hs _)]

/-- **the relative perturbation rule is covariant under a change of units**: `eps (T q) = T (eps q)` -/
theorem epsMean_units (c n : α) (comp : Fin N → κ) (T : Vec α N →ₗ[α] Vec α N) (π : Equiv.Perm (Fin N))
    (sg : Vec α N) (hT : ∀ x i, T x i = sg i * x (π i)) (s : κ → α) (hs : ∀ k, 0 < s k)
    (hsg : ∀ i, sg i = s (comp i)) (hπ : ∀ i, comp (π i) = comp i) (q : Vec α N) :
    epsMean c n comp (T q) = T (epsMean c n comp q) := by
  funext j
  rw [hT]
  unfold epsMean
  rw [compSum_units comp T π sg hT s hs hsg hπ]
  ring

/-- where no component is identically zero the code's rule is the relative rule -/
theorem epsCode_eq_epsMean (c n : α) (hn : n ≠ 0) (comp : Fin N → κ) (q : Vec α N)
    (hq : ∀ j, ∃ l, comp l = comp j ∧ q l ≠ 0) : epsCode c n comp q = epsMean c n comp q := by
  funext j
  obtain ⟨l, hl, hql⟩ := hq j
  have hpos : 0 < compSum comp q j :=
    Finset.sum_pos' (fun _ _ => abs_nonneg _) ⟨l, by simp [hl], abs_pos.mpr hql⟩
  unfold epsCode epsMean
  rw [if_neg (div_ne_zero hpos.ne' hn)]

/-- **the code's perturbation rule is covariant under a change of units at the states without an identically zero
component** (at the others it is not: the fallback `1.0` is an absolute value) -/
theorem epsCode_units (c n : α) (hn : n ≠ 0) (comp : Fin N → κ) (T : Vec α N →ₗ[α] Vec α N) (π : Equiv.Perm (Fin N))
    (sg : Vec α N) (hT : ∀ x i, T x i = sg i * x (π i)) (s : κ → α) (hs : ∀ k, 0 < s k)
    (hsg : ∀ i, sg i = s (comp i)) (hπ : ∀ i, comp (π i) = comp i) (q : Vec α N)
    (hq : ∀ j, ∃ l, comp l = comp j ∧ q l ≠ 0) :
    epsCode c n comp (T q) = T (epsCode c n comp q) := by
  have hq' : ∀ j, ∃ l, comp l = comp j ∧ T q l ≠ 0 := by
    intro j
    obtain ⟨l, hl, hql⟩ := hq j
    refine ⟨π.symm l, ?_, ?_⟩
    · rw [← hπ (π.symm l), Equiv.apply_symm_apply, hl]
    · rw [hT, Equiv.apply_symm_apply, hsg]
      exact mul_ne_zero (hs _).ne' hql
  rw [epsCode_eq_epsMean c n hn comp _ hq', epsCode_eq_epsMean c n hn comp _ hq,
    epsMean_units c n comp T π sg hT s hs hsg hπ]

end EpsRule

/-! ## 3. whole solves -/
section Solve
variable {α : Type} [Field α] [LinearOrder α] [IsStrictOrderedRing α] {N : ℕ} {D D' : Type}

/-- the driver parameters `p'` of the problem in the new units (time unit `× τ`, data mapped by `T`, time-step values
by `fD`): time-step rule `calcDt' (τ t) (T q) = fD (calcDt t q)` with `min (fD d) = τ min d`, scalars `τ a ↦ fD a`,
stop time and save times `× τ`, same `maxit`, `itstart`, `dtlocal`; monitor `i` sees `T` through `fm i` -/
structure ParUnits {V V' : Type} (τ : α) (p : DrvPar α V D) (p' : DrvPar α V' D') (T : V → V') (fD : D → D')
    (fm : ℕ → α → α) : Prop where
  calcDt : ∀ t q, p'.calcDt (τ * t) (T q) = fD (p.calcDt t q)
  minDt : ∀ d, p'.minDt (fD d) = τ * p.minDt d
  scalar : ∀ a, p'.scalar (τ * a) = fD (p.scalar a)
  dtlocal : p'.dtlocal = p.dtlocal
  tottime : p'.tottime = p.tottime.map (τ * ·)
  maxit : p'.maxit = p.maxit
  tsave : p'.tsave = p.tsave.map (τ * ·)
  itstart : p'.itstart = p.itstart
  monitors_length : p'.monitors.length = p.monitors.length
  monitors : ∀ i m m', p.monitors[i]? = some m → p'.monitors[i]? = some m' →
      m'.1 = m.1 ∧ ∀ t q, m'.2 (τ * t) (T q) = fm i (m.2 t q)

/-- the guard of a θ-step: the perturbations used by the problem in the new units at the image state are the image
perturbations, and the solver hypotheses `UnitsOK` -/
def ThetaGuard (solve : Mat α N → Vec α N → Vec α N) (θ : α) (R R' : α → Vec α N → Vec α N)
    (eps eps' : Vec α N → Vec α N) (T : Vec α N → Vec α N) (π : Equiv.Perm (Fin N)) (τ : α) (dtv : Vec α N) (t : α)
    (q : Vec α N) : Prop :=
  eps' (T q) = T (eps q)
  ∧ UnitsOK solve θ 0 (R t) (R' (τ * t)) T τ (eps q) (T (eps q)) dtv (fun i => τ * dtv (π i)) (fun _ => 0) q

/-- **θ-schemes, any operator, change of units**: guarded morphism of the driver configurations with the time map
`(τ * ·)`, the invariant being `Visited` (the states of the full steps of the run from `(t0, q0)`) -/
theorem thetaCfg_units_homOn (solve : Mat α N → Vec α N → Vec α N) (θ : α) (R R' : α → Vec α N → Vec α N)
    (eps eps' : Vec α N → Vec α N) (dtvOf : D → Vec α N) (dtvOf' : D' → Vec α N)
    (p : DrvPar α (Vec α N) D) (p' : DrvPar α (Vec α N) D') (T : Vec α N →ₗ[α] Vec α N)
    (π : Equiv.Perm (Fin N)) (sg : Vec α N) (hT : ∀ x i, T x i = sg i * x (π i)) (hsg : ∀ i, sg i ≠ 0)
    (τ : α) (hτ : 0 < τ) (fD : D → D') (fm : ℕ → α → α) (hp : ParUnits τ p p' T fD fm)
    (hR : ∀ t v, R' (τ * t) (T v) = τ⁻¹ • T (R t v))
    (hdtv : ∀ d, dtvOf' (fD d) = fun i => τ * dtvOf d (π i)) (t0 : α) (q0 : Vec α N)
    (hfull : ∀ x, Visited (thetaCfg solve θ R eps dtvOf p) ((), t0, q0) x →
      ThetaGuard solve θ R R' eps eps' T π τ (dtvOf (p.stepDt x.2.1 x.2.2)) x.2.1 x.2.2)
    (hside : ∀ x, Visited (thetaCfg solve θ R eps dtvOf p) ((), t0, q0) x →
      ∀ a, 0 < a → a ≤ p.minDt (p.calcDt x.2.1 x.2.2) →
      ThetaGuard solve θ R R' eps eps' T π τ (dtvOf (p.scalar a)) x.2.1 x.2.2) :
    CfgHomOn (fun s t q => Visited (thetaCfg solve θ R eps dtvOf p) ((), t0, q0) (s, t, q))
      (fun _ d t q => ThetaGuard solve θ R R' eps eps' T π τ (dtvOf d) t q)
      (thetaCfg solve θ R eps dtvOf p) (thetaCfg solve θ R' eps' dtvOf' p') id (τ * ·) T fD fm where
  time := timeMap_mul τ hτ
  step := fun s d t q hG => by
    have h := thetaStep_units solve θ 0 T π sg hT hsg τ hτ.ne' (R t) (R' (τ * t)) (hR t) q (fun _ => 0) (eps q)
      (dtvOf d) (p.minDt d) t hG.2
    rw [smul_map_zero T τ] at h
    obtain ⟨h1, h2, -⟩ := h
    simp only [thetaCfg_step, hp.minDt, id, hG.1, hdtv]
    exact Prod.ext rfl (Prod.ext h1 h2)
  keep := fun _ _ => rfl
  calcDt := fun _ t q _ => hp.calcDt t q
  minDt := fun d => hp.minDt d
  scalar := fun a => hp.scalar a
  dtlocal := hp.dtlocal
  tottime := hp.tottime
  maxit := hp.maxit
  tsave := hp.tsave
  itstart := hp.itstart
  monitors_length := hp.monitors_length
  monitors := fun i m m' hm hm' =>
    ⟨(hp.monitors i m m' hm hm').1, fun _ t q _ => (hp.monitors i m m' hm hm').2 t q⟩
  full_guard := fun s t q hI => hfull (s, t, q) hI
  full_inv := fun s t q hI => visited_adv _ _ (s, t, q) hI
  side_guard := fun s t q ts hI h1 h2 =>
    hside (s, t, q) hI (ts - t) (side_step_bounds h1 h2).1 (side_step_bounds h1 h2).2
  side_inv := fun _ _ _ _ hI _ _ => hI

/-- **whole solves with `implicit` / `cranknicolson` (θ-schemes), ANY space operator, under a change of units**:
the solve of the problem in the new units (operator `R'`, stop and save times `× τ`, same `maxit`, time-step rule
`× τ`) from `(τ t0, T q0)` is the image of the solve: same stop flag, iteration count, save index, iteration tags;
times `× τ`; final field, snapshots, trajectory mapped by `T`; monitor logs by `fm` -/
theorem solve_theta_units (solve : Mat α N → Vec α N → Vec α N) (θ : α) (R R' : α → Vec α N → Vec α N)
    (eps eps' : Vec α N → Vec α N) (dtvOf : D → Vec α N) (dtvOf' : D' → Vec α N)
    (p : DrvPar α (Vec α N) D) (p' : DrvPar α (Vec α N) D') (T : Vec α N →ₗ[α] Vec α N)
    (π : Equiv.Perm (Fin N)) (sg : Vec α N) (hT : ∀ x i, T x i = sg i * x (π i)) (hsg : ∀ i, sg i ≠ 0)
    (τ : α) (hτ : 0 < τ) (fD : D → D') (fm : ℕ → α → α) (hp : ParUnits τ p p' T fD fm)
    (hR : ∀ t v, R' (τ * t) (T v) = τ⁻¹ • T (R t v))
    (hdtv : ∀ d, dtvOf' (fD d) = fun i => τ * dtvOf d (π i)) (fuel : ℕ) (t0 : α) (q0 : Vec α N)
    (hfull : ∀ x, Visited (thetaCfg solve θ R eps dtvOf p) ((), t0, q0) x →
      ThetaGuard solve θ R R' eps eps' T π τ (dtvOf (p.stepDt x.2.1 x.2.2)) x.2.1 x.2.2)
    (hside : ∀ x, Visited (thetaCfg solve θ R eps dtvOf p) ((), t0, q0) x →
      ∀ a, 0 < a → a ≤ p.minDt (p.calcDt x.2.1 x.2.2) →
      ThetaGuard solve θ R R' eps eps' T π τ (dtvOf (p.scalar a)) x.2.1 x.2.2) :
    (thetaCfg solve θ R' eps' dtvOf' p').run fuel () (τ * t0) (T q0)
      = (DrvState.map id (τ * ·) T fm ((thetaCfg solve θ R eps dtvOf p).run fuel () t0 q0).1,
         ((thetaCfg solve θ R eps dtvOf p).run fuel () t0 q0).2) :=
  run_equivariant_on (thetaCfg_units_homOn solve θ R R' eps eps' dtvOf dtvOf' p p' T π sg hT hsg τ hτ fD fm hp hR
    hdtv t0 q0 hfull hside) fuel () t0 q0 ⟨0, rfl⟩

/-- what the caller sees (`ScaledRun` of C13d): same flag, iteration count, save index; final time `× τ`, final data
`T`; as many snapshots, snapshot `k` with the same iteration tag, time `× τ`, data `T`; monitor logs; trajectory -/
theorem solve_theta_units_scaled (solve : Mat α N → Vec α N → Vec α N) (θ : α) (R R' : α → Vec α N → Vec α N)
    (eps eps' : Vec α N → Vec α N) (dtvOf : D → Vec α N) (dtvOf' : D' → Vec α N)
    (p : DrvPar α (Vec α N) D) (p' : DrvPar α (Vec α N) D') (T : Vec α N →ₗ[α] Vec α N)
    (π : Equiv.Perm (Fin N)) (sg : Vec α N) (hT : ∀ x i, T x i = sg i * x (π i)) (hsg : ∀ i, sg i ≠ 0)
    (τ : α) (hτ : 0 < τ) (fD : D → D') (fm : ℕ → α → α) (hp : ParUnits τ p p' T fD fm)
    (hR : ∀ t v, R' (τ * t) (T v) = τ⁻¹ • T (R t v))
    (hdtv : ∀ d, dtvOf' (fD d) = fun i => τ * dtvOf d (π i)) (fuel : ℕ) (t0 : α) (q0 : Vec α N)
    (hfull : ∀ x, Visited (thetaCfg solve θ R eps dtvOf p) ((), t0, q0) x →
      ThetaGuard solve θ R R' eps eps' T π τ (dtvOf (p.stepDt x.2.1 x.2.2)) x.2.1 x.2.2)
    (hside : ∀ x, Visited (thetaCfg solve θ R eps dtvOf p) ((), t0, q0) x →
      ∀ a, 0 < a → a ≤ p.minDt (p.calcDt x.2.1 x.2.2) →
      ThetaGuard solve θ R R' eps eps' T π τ (dtvOf (p.scalar a)) x.2.1 x.2.2) :
    ScaledRun τ T fm ((thetaCfg solve θ R eps dtvOf p).run fuel () t0 q0)
      ((thetaCfg solve θ R' eps' dtvOf' p').run fuel () (τ * t0) (T q0)) :=
  scaledRun_of_map τ T fm _ _ (solve_theta_units solve θ R R' eps eps' dtvOf dtvOf' p p' T π sg hT hsg τ hτ fD fm
    hp hR hdtv fuel t0 q0 hfull hside)

/-- class `implicit` (backward Euler, `θ = 1`) -/
theorem solve_implicit_units (solve : Mat α N → Vec α N → Vec α N) (R R' : α → Vec α N → Vec α N)
    (eps eps' : Vec α N → Vec α N) (dtvOf : D → Vec α N) (dtvOf' : D' → Vec α N)
    (p : DrvPar α (Vec α N) D) (p' : DrvPar α (Vec α N) D') (T : Vec α N →ₗ[α] Vec α N)
    (π : Equiv.Perm (Fin N)) (sg : Vec α N) (hT : ∀ x i, T x i = sg i * x (π i)) (hsg : ∀ i, sg i ≠ 0)
    (τ : α) (hτ : 0 < τ) (fD : D → D') (fm : ℕ → α → α) (hp : ParUnits τ p p' T fD fm)
    (hR : ∀ t v, R' (τ * t) (T v) = τ⁻¹ • T (R t v))
    (hdtv : ∀ d, dtvOf' (fD d) = fun i => τ * dtvOf d (π i)) (fuel : ℕ) (t0 : α) (q0 : Vec α N)
    (hfull : ∀ x, Visited (implicitCfg solve R eps dtvOf p) ((), t0, q0) x →
      ThetaGuard solve 1 R R' eps eps' T π τ (dtvOf (p.stepDt x.2.1 x.2.2)) x.2.1 x.2.2)
    (hside : ∀ x, Visited (implicitCfg solve R eps dtvOf p) ((), t0, q0) x →
      ∀ a, 0 < a → a ≤ p.minDt (p.calcDt x.2.1 x.2.2) →
      ThetaGuard solve 1 R R' eps eps' T π τ (dtvOf (p.scalar a)) x.2.1 x.2.2) :
    ScaledRun τ T fm ((implicitCfg solve R eps dtvOf p).run fuel () t0 q0)
      ((implicitCfg solve R' eps' dtvOf' p').run fuel () (τ * t0) (T q0)) :=
  solve_theta_units_scaled solve 1 R R' eps eps' dtvOf dtvOf' p p' T π sg hT hsg τ hτ fD fm hp hR hdtv fuel t0 q0
    hfull hside

/-- classes `trapezoidal` / `cranknicolson` (`θ = 1/2`) -/
theorem solve_cranknicolson_units (solve : Mat α N → Vec α N → Vec α N) (R R' : α → Vec α N → Vec α N)
    (eps eps' : Vec α N → Vec α N) (dtvOf : D → Vec α N) (dtvOf' : D' → Vec α N)
    (p : DrvPar α (Vec α N) D) (p' : DrvPar α (Vec α N) D') (T : Vec α N →ₗ[α] Vec α N)
    (π : Equiv.Perm (Fin N)) (sg : Vec α N) (hT : ∀ x i, T x i = sg i * x (π i)) (hsg : ∀ i, sg i ≠ 0)
    (τ : α) (hτ : 0 < τ) (fD : D → D') (fm : ℕ → α → α) (hp : ParUnits τ p p' T fD fm)
    (hR : ∀ t v, R' (τ * t) (T v) = τ⁻¹ • T (R t v))
    (hdtv : ∀ d, dtvOf' (fD d) = fun i => τ * dtvOf d (π i)) (fuel : ℕ) (t0 : α) (q0 : Vec α N)
    (hfull : ∀ x, Visited (trapezoidalCfg solve R eps dtvOf p) ((), t0, q0) x →
      ThetaGuard solve (1/2) R R' eps eps' T π τ (dtvOf (p.stepDt x.2.1 x.2.2)) x.2.1 x.2.2)
    (hside : ∀ x, Visited (trapezoidalCfg solve R eps dtvOf p) ((), t0, q0) x →
      ∀ a, 0 < a → a ≤ p.minDt (p.calcDt x.2.1 x.2.2) →
      ThetaGuard solve (1/2) R R' eps eps' T π τ (dtvOf (p.scalar a)) x.2.1 x.2.2) :
    ScaledRun τ T fm ((trapezoidalCfg solve R eps dtvOf p).run fuel () t0 q0)
      ((trapezoidalCfg solve R' eps' dtvOf' p').run fuel () (τ * t0) (T q0)) :=
  solve_theta_units_scaled solve (1/2) R R' eps eps' dtvOf dtvOf' p p' T π sg hT hsg τ hτ fD fm hp hR hdtv fuel t0 q0
    hfull hside

/-- the guard of a `gear` step with memory `s` -/
def GearGuard (solve : Mat α N → Vec α N → Vec α N) (R R' : α → Vec α N → Vec α N)
    (eps eps' : Vec α N → Vec α N) (T : Vec α N → Vec α N) (π : Equiv.Perm (Fin N)) (τ : α) (dtv : Vec α N)
    (s : Option (Vec α N)) (t : α) (q : Vec α N) : Prop :=
  eps' (T q) = T (eps q)
  ∧ GearUnitsOK solve (R t) (R' (τ * t)) T τ (eps q) (T (eps q)) dtv (fun i => τ * dtv (π i)) s q

/-- `gear`, any operator, change of units: the memory is mapped by `memMap T τ` (`τ⁻¹ • T` on the memorised residual) -/
theorem gearCfg_units_homOn (solve : Mat α N → Vec α N → Vec α N) (R R' : α → Vec α N → Vec α N)
    (eps eps' : Vec α N → Vec α N) (dtvOf : D → Vec α N) (dtvOf' : D' → Vec α N)
    (p : DrvPar α (Vec α N) D) (p' : DrvPar α (Vec α N) D') (T : Vec α N →ₗ[α] Vec α N)
    (π : Equiv.Perm (Fin N)) (sg : Vec α N) (hT : ∀ x i, T x i = sg i * x (π i)) (hsg : ∀ i, sg i ≠ 0)
    (τ : α) (hτ : 0 < τ) (fD : D → D') (fm : ℕ → α → α) (hp : ParUnits τ p p' T fD fm)
    (hR : ∀ t v, R' (τ * t) (T v) = τ⁻¹ • T (R t v))
    (hdtv : ∀ d, dtvOf' (fD d) = fun i => τ * dtvOf d (π i)) (s0 : Option (Vec α N)) (t0 : α) (q0 : Vec α N)
    (hfull : ∀ x, Visited (gearCfg solve R eps dtvOf p) (s0, t0, q0) x →
      GearGuard solve R R' eps eps' T π τ (dtvOf (p.stepDt x.2.1 x.2.2)) x.1 x.2.1 x.2.2)
    (hside : ∀ x, Visited (gearCfg solve R eps dtvOf p) (s0, t0, q0) x →
      ∀ a, 0 < a → a ≤ p.minDt (p.calcDt x.2.1 x.2.2) →
      GearGuard solve R R' eps eps' T π τ (dtvOf (p.scalar a)) x.1 x.2.1 x.2.2) :
    CfgHomOn (fun s t q => Visited (gearCfg solve R eps dtvOf p) (s0, t0, q0) (s, t, q))
      (fun s d t q => GearGuard solve R R' eps eps' T π τ (dtvOf d) s t q)
      (gearCfg solve R eps dtvOf p) (gearCfg solve R' eps' dtvOf' p') (memMap T τ) (τ * ·) T fD fm where
  time := timeMap_mul τ hτ
  step := fun s d t q hG => by
    obtain ⟨h1, h2, h3⟩ := gearStep_units solve T π sg hT hsg τ hτ.ne' (R t) (R' (τ * t)) (hR t) q (eps q)
      (dtvOf d) s (p.minDt d) t hG.2
    simp only [gearCfg_step, hp.minDt, hG.1, hdtv, memMap, Option.map_some]
    exact Prod.ext (congrArg some h3) (Prod.ext h1 h2)
  keep := fun _ _ => rfl
  calcDt := fun _ t q _ => hp.calcDt t q
  minDt := fun d => hp.minDt d
  scalar := fun a => hp.scalar a
  dtlocal := hp.dtlocal
  tottime := hp.tottime
  maxit := hp.maxit
  tsave := hp.tsave
  itstart := hp.itstart
  monitors_length := hp.monitors_length
  monitors := fun i m m' hm hm' =>
    ⟨(hp.monitors i m m' hm hm').1, fun _ t q _ => (hp.monitors i m m' hm hm').2 t q⟩
  full_guard := fun s t q hI => hfull (s, t, q) hI
  full_inv := fun s t q hI => visited_adv _ _ (s, t, q) hI
  side_guard := fun s t q ts hI h1 h2 =>
    hside (s, t, q) hI (ts - t) (side_step_bounds h1 h2).1 (side_step_bounds h1 h2).2
  side_inv := fun _ _ _ _ hI _ _ => hI

/-- **whole solves with `gear`, ANY space operator, under a change of units**, from any initial memory `s0` (`none`
for `solve`; the memory left by a previous run for `restart`), mapped by `memMap T τ`; the final memory is the image
of the final memory (component `sol`) -/
theorem solve_gear_units (solve : Mat α N → Vec α N → Vec α N) (R R' : α → Vec α N → Vec α N)
    (eps eps' : Vec α N → Vec α N) (dtvOf : D → Vec α N) (dtvOf' : D' → Vec α N)
    (p : DrvPar α (Vec α N) D) (p' : DrvPar α (Vec α N) D') (T : Vec α N →ₗ[α] Vec α N)
    (π : Equiv.Perm (Fin N)) (sg : Vec α N) (hT : ∀ x i, T x i = sg i * x (π i)) (hsg : ∀ i, sg i ≠ 0)
    (τ : α) (hτ : 0 < τ) (fD : D → D') (fm : ℕ → α → α) (hp : ParUnits τ p p' T fD fm)
    (hR : ∀ t v, R' (τ * t) (T v) = τ⁻¹ • T (R t v))
    (hdtv : ∀ d, dtvOf' (fD d) = fun i => τ * dtvOf d (π i)) (fuel : ℕ) (s0 : Option (Vec α N)) (t0 : α)
    (q0 : Vec α N)
    (hfull : ∀ x, Visited (gearCfg solve R eps dtvOf p) (s0, t0, q0) x →
      GearGuard solve R R' eps eps' T π τ (dtvOf (p.stepDt x.2.1 x.2.2)) x.1 x.2.1 x.2.2)
    (hside : ∀ x, Visited (gearCfg solve R eps dtvOf p) (s0, t0, q0) x →
      ∀ a, 0 < a → a ≤ p.minDt (p.calcDt x.2.1 x.2.2) →
      GearGuard solve R R' eps eps' T π τ (dtvOf (p.scalar a)) x.1 x.2.1 x.2.2) :
    (gearCfg solve R' eps' dtvOf' p').run fuel (memMap T τ s0) (τ * t0) (T q0)
      = (DrvState.map (memMap T τ) (τ * ·) T fm ((gearCfg solve R eps dtvOf p).run fuel s0 t0 q0).1,
         ((gearCfg solve R eps dtvOf p).run fuel s0 t0 q0).2) :=
  run_equivariant_on (gearCfg_units_homOn solve R R' eps eps' dtvOf dtvOf' p p' T π sg hT hsg τ hτ fD fm hp hR
    hdtv s0 t0 q0 hfull hside) fuel s0 t0 q0 ⟨0, rfl⟩

/-- what the caller of a `gear` solve sees: same stop flag and iteration count, final time `× τ`, final data `T`,
as many snapshots, snapshot `k` with the same iteration tag, time `× τ`, data `T` -/
theorem solve_gear_units_results (solve : Mat α N → Vec α N → Vec α N) (R R' : α → Vec α N → Vec α N)
    (eps eps' : Vec α N → Vec α N) (dtvOf : D → Vec α N) (dtvOf' : D' → Vec α N)
    (p : DrvPar α (Vec α N) D) (p' : DrvPar α (Vec α N) D') (T : Vec α N →ₗ[α] Vec α N)
    (π : Equiv.Perm (Fin N)) (sg : Vec α N) (hT : ∀ x i, T x i = sg i * x (π i)) (hsg : ∀ i, sg i ≠ 0)
    (τ : α) (hτ : 0 < τ) (fD : D → D') (fm : ℕ → α → α) (hp : ParUnits τ p p' T fD fm)
    (hR : ∀ t v, R' (τ * t) (T v) = τ⁻¹ • T (R t v))
    (hdtv : ∀ d, dtvOf' (fD d) = fun i => τ * dtvOf d (π i)) (fuel : ℕ) (s0 : Option (Vec α N)) (t0 : α)
    (q0 : Vec α N)
    (hfull : ∀ x, Visited (gearCfg solve R eps dtvOf p) (s0, t0, q0) x →
      GearGuard solve R R' eps eps' T π τ (dtvOf (p.stepDt x.2.1 x.2.2)) x.1 x.2.1 x.2.2)
    (hside : ∀ x, Visited (gearCfg solve R eps dtvOf p) (s0, t0, q0) x →
      ∀ a, 0 < a → a ≤ p.minDt (p.calcDt x.2.1 x.2.2) →
      GearGuard solve R R' eps eps' T π τ (dtvOf (p.scalar a)) x.1 x.2.1 x.2.2) :
    (let r := (gearCfg solve R eps dtvOf p).run fuel s0 t0 q0
     let r' := (gearCfg solve R' eps' dtvOf' p').run fuel (memMap T τ s0) (τ * t0) (T q0)
     r'.2 = r.2 ∧ r'.1.nit = r.1.nit ∧ r'.1.time = τ * r.1.time ∧ r'.1.data = T r.1.data
     ∧ r'.1.sol = memMap T τ r.1.sol
     ∧ r'.1.results.length = r.1.results.length
     ∧ (∀ k (hk : k < r.1.results.length) (hk' : k < r'.1.results.length),
        (r'.1.results[k]).it = (r.1.results[k]).it ∧ (r'.1.results[k]).time = τ * (r.1.results[k]).time
        ∧ (r'.1.results[k]).data = T (r.1.results[k]).data)
     ∧ ∀ i, r'.1.monlog[i]? = (r.1.monlog[i]?).map (List.map fun e => (e.1, τ * e.2.1, fm i e.2.2))) := by
  intro r r'
  have E : r' = (DrvState.map (memMap T τ) (τ * ·) T fm r.1, r.2) :=
    solve_gear_units solve R R' eps eps' dtvOf dtvOf' p p' T π sg hT hsg τ hτ fD fm hp hR hdtv fuel s0 t0 q0
      hfull hside
  obtain ⟨a1, a2, a3, a4, a5⟩ := final_of_map E
  obtain ⟨-, b2, b3⟩ := results_of_map E
  exact ⟨a1, a2, a3, a4, a5, b2, b3, fun i => monitors_of_map E i⟩

end Solve

/-! ## 4. the model's operator: scalar models (Burgers, convection) in the 1D pipeline on a periodic uniform mesh

`perVec L x0 s c2p Φ` (C14c) is `Disc1D.rhs` of the periodic uniform discretisation, as an operator on the vector of
the `N` cell values.  Lengths `× l`, velocities `× b`, the unknown `× a`: the operator law is C13b/C13d
(`UnitsPair`, `rhs_units_time`), with `τ = l / b`. -/
section Model
variable {α : Type} [Field α] [LinearOrder α] [IsStrictOrderedRing α] {N : ℕ} [NeZero N]

/-- every unknown multiplied by `a` -/
def sclVec (a : α) : Vec α N →ₗ[α] Vec α N := a • LinearMap.id

omit [LinearOrder α] [IsStrictOrderedRing α] [NeZero N] in
theorem sclVec_apply (a : α) (x : Vec α N) (i : Fin N) : sclVec a x i = a * x ((1 : Equiv.Perm (Fin N)) i) := rfl

/-- the operator law for the scalar models in the pipeline (every reconstruction with a positively homogeneous
limiter, every kernel pair related as in `UnitsPair`) -/
theorem perVec_units (l b a : α) (pf : ℕ → α) (L x0 : α) (sch : Scheme α) (c2p c2p' : (ℕ → α) → (ℕ → α))
    (Φ Φ' : (ℕ → α) → (ℕ → α) → (ℕ → α))
    (h : UnitsPair l b (fun _ => a) pf (perDisc N L x0 sch c2p Φ) (perDisc N (l * L) (l * x0) sch c2p' Φ'))
    (v : Vec α N) :
    perVec (l * L) (l * x0) sch c2p' Φ' (sclVec a v) = (l / b)⁻¹ • sclVec a (perVec L x0 sch c2p Φ v) := by
  funext i
  have e := congrFun (congrFun (rhs_units_time h (cellsOf v)) 0) i.val
  have hc : cellsOf (sclVec a v) = sclData (fun _ => a) (cellsOf v) := rfl
  show (perDisc N (l * L) (l * x0) sch c2p' Φ').rhs (cellsOf (sclVec a v)) 0 i
    = (l / b)⁻¹ * (a * (perDisc N L x0 sch c2p Φ).rhs (cellsOf v) 0 i)
  rw [hc, e]
  rfl

omit [NeZero N] in
/-- the periodic uniform Burgers discretisations in two systems of units -/
theorem unitsPair_perBurgers (l b : α) (hl : 0 < l) (hb : 0 < b) (L x0 : α) (sch : Scheme α) (hs : HomScheme sch) :
    UnitsPair l b (fun _ => b) (fun _ => b) (perDisc N L x0 sch burgersC2P burgersFluxV)
      (perDisc N (l * L) (l * x0) sch burgersC2P burgersFluxV) := by
  have h := unitsPair_burgers l b hl hb (uniMesh N L x0) sch hs BC1D.periodic BC1D.periodic trivial
  rw [scaleMesh_uniMesh] at h
  exact h

omit [NeZero N] in
/-- the periodic uniform convection discretisations (speed `c`, a velocity) in two systems of units; the unknown is
multiplied by any `a > 0` (the model is linear) -/
theorem unitsPair_perConv (l b a : α) (hl : 0 < l) (hb : 0 < b) (ha : 0 < a) (L x0 c : α) (sch : Scheme α)
    (hs : HomScheme sch) :
    UnitsPair l b (fun _ => a) (fun _ => a) (perDisc N L x0 sch convC2P (convFluxV c))
      (perDisc N (l * L) (l * x0) sch convC2P (convFluxV (b * c))) where
  l_pos := hl
  b_pos := hb
  p_pos := fun _ => ha
  mesh := (scaleMesh_uniMesh l N L x0).symm
  scheme := rfl
  hom := hs
  src := fun _ => rfl
  src' := fun _ => rfl
  c2p := fun Q => by
    funext k
    show 1 * (a * Q 0) = a * (1 * Q 0)
    ring
  flux := fun L R k => by
    show convFlux (b * c) (a * L 0) (a * R 0) = b * a * convFlux c (L 0) (R 0)
    unfold convFlux
    rw [abs_mul, abs_of_pos hb]
    ring
  bc := trivial

variable {D D' : Type}

/-- **C13, implicit θ-schemes, the scalar models of flowdyn in the 1D pipeline on a periodic uniform mesh** -/
theorem solve_theta_units_perVec (solve : Mat α N → Vec α N → Vec α N) (θ l b a : α) (ha : a ≠ 0) (pf : ℕ → α)
    (L x0 : α) (sch : Scheme α) (c2p c2p' : (ℕ → α) → (ℕ → α)) (Φ Φ' : (ℕ → α) → (ℕ → α) → (ℕ → α))
    (h : UnitsPair l b (fun _ => a) pf (perDisc N L x0 sch c2p Φ) (perDisc N (l * L) (l * x0) sch c2p' Φ'))
    (eps eps' : Vec α N → Vec α N) (dtvOf : D → Vec α N) (dtvOf' : D' → Vec α N)
    (p : DrvPar α (Vec α N) D) (p' : DrvPar α (Vec α N) D') (fD : D → D') (fm : ℕ → α → α)
    (hp : ParUnits (l / b) p p' (sclVec a) fD fm)
    (hdtv : ∀ d, dtvOf' (fD d) = fun i => l / b * dtvOf d ((1 : Equiv.Perm (Fin N)) i))
    (fuel : ℕ) (t0 : α) (q0 : Vec α N)
    (hfull : ∀ x, Visited (thetaCfg solve θ (fun _ => perVec L x0 sch c2p Φ) eps dtvOf p) ((), t0, q0) x →
      ThetaGuard solve θ (fun _ => perVec L x0 sch c2p Φ) (fun _ => perVec (l * L) (l * x0) sch c2p' Φ') eps eps'
        (sclVec a) 1 (l / b) (dtvOf (p.stepDt x.2.1 x.2.2)) x.2.1 x.2.2)
    (hside : ∀ x, Visited (thetaCfg solve θ (fun _ => perVec L x0 sch c2p Φ) eps dtvOf p) ((), t0, q0) x →
      ∀ d, 0 < d → d ≤ p.minDt (p.calcDt x.2.1 x.2.2) →
      ThetaGuard solve θ (fun _ => perVec L x0 sch c2p Φ) (fun _ => perVec (l * L) (l * x0) sch c2p' Φ') eps eps'
        (sclVec a) 1 (l / b) (dtvOf (p.scalar d)) x.2.1 x.2.2) :
    ScaledRun (l / b) (sclVec a) fm
      ((thetaCfg solve θ (fun _ => perVec L x0 sch c2p Φ) eps dtvOf p).run fuel () t0 q0)
      ((thetaCfg solve θ (fun _ => perVec (l * L) (l * x0) sch c2p' Φ') eps' dtvOf' p').run fuel () (l / b * t0)
        (sclVec a q0)) :=
  solve_theta_units_scaled solve θ _ _ eps eps' dtvOf dtvOf' p p' (sclVec a) 1 (fun _ => a) (sclVec_apply a)
    (fun _ => ha) (l / b) (div_pos h.l_pos h.b_pos) fD fm hp
    (fun _ v => perVec_units l b a pf L x0 sch c2p c2p' Φ Φ' h v) hdtv fuel t0 q0 hfull hside

/-- the same for `gear` -/
theorem solve_gear_units_perVec (solve : Mat α N → Vec α N → Vec α N) (l b a : α) (ha : a ≠ 0) (pf : ℕ → α)
    (L x0 : α) (sch : Scheme α) (c2p c2p' : (ℕ → α) → (ℕ → α)) (Φ Φ' : (ℕ → α) → (ℕ → α) → (ℕ → α))
    (h : UnitsPair l b (fun _ => a) pf (perDisc N L x0 sch c2p Φ) (perDisc N (l * L) (l * x0) sch c2p' Φ'))
    (eps eps' : Vec α N → Vec α N) (dtvOf : D → Vec α N) (dtvOf' : D' → Vec α N)
    (p : DrvPar α (Vec α N) D) (p' : DrvPar α (Vec α N) D') (fD : D → D') (fm : ℕ → α → α)
    (hp : ParUnits (l / b) p p' (sclVec a) fD fm)
    (hdtv : ∀ d, dtvOf' (fD d) = fun i => l / b * dtvOf d ((1 : Equiv.Perm (Fin N)) i))
    (fuel : ℕ) (s0 : Option (Vec α N)) (t0 : α) (q0 : Vec α N)
    (hfull : ∀ x, Visited (gearCfg solve (fun _ => perVec L x0 sch c2p Φ) eps dtvOf p) (s0, t0, q0) x →
      GearGuard solve (fun _ => perVec L x0 sch c2p Φ) (fun _ => perVec (l * L) (l * x0) sch c2p' Φ') eps eps'
        (sclVec a) 1 (l / b) (dtvOf (p.stepDt x.2.1 x.2.2)) x.1 x.2.1 x.2.2)
    (hside : ∀ x, Visited (gearCfg solve (fun _ => perVec L x0 sch c2p Φ) eps dtvOf p) (s0, t0, q0) x →
      ∀ d, 0 < d → d ≤ p.minDt (p.calcDt x.2.1 x.2.2) →
      GearGuard solve (fun _ => perVec L x0 sch c2p Φ) (fun _ => perVec (l * L) (l * x0) sch c2p' Φ') eps eps'
        (sclVec a) 1 (l / b) (dtvOf (p.scalar d)) x.1 x.2.1 x.2.2) :
    (gearCfg solve (fun _ => perVec (l * L) (l * x0) sch c2p' Φ') eps' dtvOf' p').run fuel
        (memMap (sclVec a) (l / b) s0) (l / b * t0) (sclVec a q0)
      = (DrvState.map (memMap (sclVec a) (l / b)) (l / b * ·) (sclVec a) fm
          ((gearCfg solve (fun _ => perVec L x0 sch c2p Φ) eps dtvOf p).run fuel s0 t0 q0).1,
         ((gearCfg solve (fun _ => perVec L x0 sch c2p Φ) eps dtvOf p).run fuel s0 t0 q0).2) :=
  solve_gear_units solve _ _ eps eps' dtvOf dtvOf' p p' (sclVec a) 1 (fun _ => a) (sclVec_apply a)
    (fun _ => ha) (l / b) (div_pos h.l_pos h.b_pos) fD fm hp
    (fun _ v => perVec_units l b a pf L x0 sch c2p c2p' Φ Φ' h v) hdtv fuel s0 t0 q0 hfull hside

end Model

/-! ## 5. non-vacuity

One cell, two equations ("density" and "momentum": every unknown is its own component), unit factors `2` and `6`
(`a = 2`, `b = 3`), time unit `× 5`; the nonlinear, time-dependent operator `R t v = M v - v³ + t` with the exchange
matrix `M = [[-1,1],[1,-1]]`; the relative perturbation rule `eps_j = |q_j| / 10` in both unit systems; per-unknown
state-dependent time steps, `dtlocal` either way; the exact inverse-matrix solver.  All hypotheses of the whole-solve
theorems hold at EVERY state (also where a perturbation vanishes: the Jacobian column is then `0`). -/
section Examples

/-- a system with at most one solution is regular -/
theorem det_ne_of_inj {α : Type} [Field α] {N : ℕ} (A : Mat α N) (h : ∀ x : Vec α N, A.mulVec x = 0 → x = 0) :
    A.det ≠ 0 := by
  have hinj : Function.Injective A.mulVec := by
    intro x y hxy
    have : A.mulVec (x - y) = 0 := by rw [Matrix.mulVec_sub, hxy, sub_self]
    exact sub_eq_zero.mp (h _ this)
  have hu : IsUnit A := Matrix.mulVec_injective_iff_isUnit.mp hinj
  exact ((Matrix.isUnit_iff_isUnit_det A).mp hu).ne_zero

/-- with the exact inverse-matrix solver `invSolve` (C14c) the solver hypotheses reduce to: the ORIGINAL system is
regular (the image system then is) -/
theorem unitsOK_invSolve {α : Type} [Field α] {N : ℕ} (θ ξ : α) (T : Vec α N →ₗ[α] Vec α N)
    (π : Equiv.Perm (Fin N)) (sg : Vec α N) (hT : ∀ x i, T x i = sg i * x (π i)) (hsg : ∀ i, sg i ≠ 0)
    (τ : α) (hτ : τ ≠ 0) (R R' : Vec α N → Vec α N) (hR : ∀ v, R' (T v) = τ⁻¹ • T (R v)) (q last e dtv : Vec α N)
    (hdet : (sysMat θ ξ (fdJac R q e) dtv).det ≠ 0) :
    UnitsOK invSolve θ ξ R R' T τ e (T e) dtv (fun i => τ * dtv (π i)) last q := by
  have hinj' := sysMat_units_inj T π sg hT hsg τ hτ θ ξ _ _ (fdJac_units_mulVec T π sg hT hsg τ R R' hR q e) dtv
    (inj_of_det _ hdet)
  exact ⟨hinj', invSolve_solves _ hdet _, invSolve_solves _ (det_ne_of_inj _ hinj') _⟩

namespace Ex
open Flowdyn.C06.Ex (cramer2 cramer2_solves)

/-- unit factors: `a = 2` for the first unknown, `a b = 6` for the second -/
def sg : Vec ℚ 2 := ![2, 6]

theorem sg_pos (i : Fin 2) : 0 < sg i := by fin_cases i <;> simp [sg]

/-- the change of units as a linear map -/
def T : Vec ℚ 2 →ₗ[ℚ] Vec ℚ 2 where
  toFun := fun x i => sg i * x i
  map_add' := fun x y => by funext i; simp only [Pi.add_apply]; ring
  map_smul' := fun c x => by funext i; simp only [Pi.smul_apply, smul_eq_mul, RingHom.id_apply]; ring

theorem hT (x : Vec ℚ 2) (i : Fin 2) : T x i = sg i * x ((1 : Equiv.Perm (Fin 2)) i) := rfl

/-- original units: `dv/dt = M v - v³ + t` -/
def R : ℚ → Vec ℚ 2 → Vec ℚ 2 := fun t v => ![-v 0 + v 1 - (v 0) ^ 3 + t, v 0 - v 1 - (v 1) ^ 3 + t]

/-- the same problem in the new units (time `× 5`, unknowns `× 2`, `× 6`) -/
def R' : ℚ → Vec ℚ 2 → Vec ℚ 2 := fun t w =>
  ![-w 0 / 5 + w 1 / 15 - (w 0) ^ 3 / 20 + 2 * t / 25, 3 * w 0 / 5 - w 1 / 5 - (w 1) ^ 3 / 180 + 6 * t / 25]

/-- the operator law: residuals are data per unit time -/
theorem hR (t : ℚ) (v : Vec ℚ 2) : R' (5 * t) (T v) = (5 : ℚ)⁻¹ • T (R t v) := by
  funext i
  fin_cases i <;> simp [R, R', T, sg] <;> ring

/-- the relative perturbation rule, every unknown its own component: `eps_j = |q_j| / 10` -/
def eps : Vec ℚ 2 → Vec ℚ 2 := epsMean (1/10) 1 id

theorem eps_units (q : Vec ℚ 2) : eps (T q) = T (eps q) :=
  epsMean_units (1/10) 1 id T 1 sg hT sg sg_pos (fun _ => rfl) (fun _ => rfl) q

/-- the rule is not trivial: it depends on the state, unknown by unknown -/
example : eps ![3, -20] = ![3/10, 2] := by
  funext i
  fin_cases i <;> simp [eps, epsMean, compSum, Finset.sum_filter] <;> norm_num

theorem det2_pos (a0 a1 θ c0 c1 g0 g1 : ℚ) (ha0 : 0 < a0) (ha1 : 0 < a1) (hθ : 0 ≤ θ) (hc0 : 0 ≤ c0)
    (hc1 : 0 ≤ c1) (hg0 : 0 ≤ g0) (hg1 : 0 ≤ g1) :
    0 < (a0 + θ * (c0 * (1 + g0))) * (a1 + θ * (c1 * (1 + g1))) - (θ * c1) * (θ * c0) := by
  have : 0 < a0 * a1 + a0 * (θ * (c1 * (1 + g1))) + a1 * (θ * (c0 * (1 + g0)))
      + θ ^ 2 * (c0 * c1 * (g0 + g1 + g0 * g1)) := by positivity
  calc (0 : ℚ) < _ := this
    _ = _ := by ring

/-- the θ/ξ-systems formed at ANY state with ANY perturbations (zero ones included) are regular for positive time
steps: the Jacobian depends on the state, `J_jj = -(1 + 3 q_j² + 3 q_j e_j + e_j²)` -/
theorem det_ne (θ ξ : ℚ) (hθ : 0 ≤ θ) (hξ : 0 ≤ ξ) (t : ℚ) (q e d : Vec ℚ 2) (hd : ∀ i, 0 < d i) :
    (sysMat θ ξ (fdJac (R t) q e) d).det ≠ 0 := by
  have hc : ∀ j, 0 ≤ e j / e j := by
    intro j
    by_cases h : e j = 0
    · simp [h]
    · rw [div_self h]; norm_num
  have hg : ∀ j, 0 ≤ 3 * (q j) ^ 2 + 3 * q j * e j + (e j) ^ 2 := by
    intro j; nlinarith [sq_nonneg (2 * q j + e j), sq_nonneg (e j)]
  have ha : ∀ i, 0 < (1 + ξ) * (1 / d i) := fun i => mul_pos (by linarith) (one_div_pos.mpr (hd i))
  have key := det2_pos _ _ θ _ _ _ _ (ha 0) (ha 1) hθ (hc 0) (hc 1) (hg 0) (hg 1)
  apply ne_of_gt
  refine lt_of_lt_of_eq key ?_
  rw [Matrix.det_fin_two]
  simp [sysMat, fdJac, R]
  ring

theorem unitsOK (θ ξ : ℚ) (hθ : 0 ≤ θ) (hξ : 0 ≤ ξ) (t : ℚ) (q last e d : Vec ℚ 2) (hd : ∀ i, 0 < d i) :
    UnitsOK invSolve θ ξ (R t) (R' (5 * t)) T 5 e (T e) d (fun i => 5 * d ((1 : Equiv.Perm (Fin 2)) i)) last q :=
  unitsOK_invSolve θ ξ T 1 sg hT (fun i => (sg_pos i).ne') 5 (by norm_num) (R t) (R' (5 * t)) (hR t) q last e d
    (det_ne θ ξ hθ hξ t q e d hd)

/-- original units: per-unknown state-dependent time steps; stop at `t = 2` or 20 iterations; save times `1/3`, `2`;
monitors: the second unknown (every iteration), the time (every second iteration) -/
def par (loc : Bool) : DrvPar ℚ (Vec ℚ 2) (Vec ℚ 2) :=
  { calcDt := fun _ q i => 1 / (1 + (q i) ^ 2), minDt := fun d => min (d 0) (d 1), scalar := fun a _ => a,
    dtlocal := loc, tottime := some 2, maxit := some 20, tsave := [1/3, 2], itstart := 0,
    monitors := [(1, fun _ q => q 1), (2, fun t _ => t)] }

/-- new units: the time-step rule in the new units, stop at `t = 10`, save times `5/3`, `10` -/
def par' (loc : Bool) : DrvPar ℚ (Vec ℚ 2) (Vec ℚ 2) :=
  { calcDt := fun _ w i => 5 / (1 + (w i / sg i) ^ 2), minDt := fun d => min (d 0) (d 1), scalar := fun a _ => a,
    dtlocal := loc, tottime := some 10, maxit := some 20, tsave := [5/3, 10], itstart := 0,
    monitors := [(1, fun _ w => w 1), (2, fun t _ => t)] }

theorem par_units (loc : Bool) :
    ParUnits 5 (par loc) (par' loc) T (fun d i => 5 * d i) (fun i v => if i = 0 then 6 * v else 5 * v) where
  calcDt := fun t q => by
    funext i
    have := (sg_pos i).ne'
    show 5 / (1 + (sg i * q i / sg i) ^ 2) = 5 * (1 / (1 + (q i) ^ 2))
    rw [mul_div_cancel_left₀ _ this]; ring
  minDt := fun d => by
    show min (5 * d 0) (5 * d 1) = 5 * min (d 0) (d 1)
    rw [mul_min_of_nonneg _ _ (by norm_num : (0 : ℚ) ≤ 5)]
  scalar := fun _ => rfl
  dtlocal := rfl
  tottime := by simp only [par, par', Option.map_some]; norm_num
  maxit := rfl
  tsave := by simp only [par, par', List.map_cons, List.map_nil]; norm_num
  itstart := rfl
  monitors_length := rfl
  monitors := fun i m m' hm hm' => by
    rcases i with _ | _ | i
    · simp only [par, par', List.getElem?_cons_zero, Option.some.injEq] at hm hm'
      subst hm; subst hm'; exact ⟨rfl, fun _ q => by simp [T, sg]⟩
    · simp only [par, par', List.getElem?_cons_succ, List.getElem?_cons_zero, Option.some.injEq] at hm hm'
      subst hm; subst hm'; exact ⟨rfl, fun _ _ => by simp⟩
    · simp [par] at hm

theorem calc_pos (loc : Bool) (t : ℚ) (q : Vec ℚ 2) (i : Fin 2) : 0 < (par loc).calcDt t q i := by
  show 0 < 1 / (1 + (q i) ^ 2)
  positivity

theorem step_pos (loc : Bool) (t : ℚ) (q : Vec ℚ 2) (i : Fin 2) : 0 < (par loc).stepDt t q i := by
  unfold DrvPar.stepDt
  split_ifs
  · exact calc_pos loc t q i
  · exact lt_min (calc_pos loc t q 0) (calc_pos loc t q 1)

/-- `solve_theta_units` / `solve_implicit_units` / `solve_cranknicolson_units`: every θ-scheme with `θ ≥ 0`, local or
global time steps, any fuel, any start -/
example (θ : ℚ) (hθ : 0 ≤ θ) (loc : Bool) (fuel : ℕ) (t0 : ℚ) (q0 : Vec ℚ 2) :
    (thetaCfg invSolve θ R' eps id (par' loc)).run fuel () (5 * t0) (T q0)
      = (DrvState.map id (5 * ·) T (fun i v => if i = 0 then 6 * v else 5 * v)
          ((thetaCfg invSolve θ R eps id (par loc)).run fuel () t0 q0).1,
         ((thetaCfg invSolve θ R eps id (par loc)).run fuel () t0 q0).2) :=
  solve_theta_units invSolve θ R R' eps eps id id (par loc) (par' loc) T 1 sg hT (fun i => (sg_pos i).ne') 5
    (by norm_num) _ _ (par_units loc) hR (fun _ => rfl) fuel t0 q0
    (fun x _ => ⟨eps_units _, unitsOK θ 0 hθ le_rfl _ _ _ _ _ (step_pos loc _ _)⟩)
    (fun x _ a ha _ => ⟨eps_units _, unitsOK θ 0 hθ le_rfl _ _ _ _ _ (fun _ => ha)⟩)

example (loc : Bool) (fuel : ℕ) (t0 : ℚ) (q0 : Vec ℚ 2) :
    ScaledRun 5 T (fun i v => if i = 0 then 6 * v else 5 * v)
      ((implicitCfg invSolve R eps id (par loc)).run fuel () t0 q0)
      ((implicitCfg invSolve R' eps id (par' loc)).run fuel () (5 * t0) (T q0))
    ∧ ScaledRun 5 T (fun i v => if i = 0 then 6 * v else 5 * v)
      ((trapezoidalCfg invSolve R eps id (par loc)).run fuel () t0 q0)
      ((trapezoidalCfg invSolve R' eps id (par' loc)).run fuel () (5 * t0) (T q0)) :=
  ⟨solve_implicit_units invSolve R R' eps eps id id (par loc) (par' loc) T 1 sg hT (fun i => (sg_pos i).ne') 5
      (by norm_num) _ _ (par_units loc) hR (fun _ => rfl) fuel t0 q0
      (fun x _ => ⟨eps_units _, unitsOK 1 0 (by norm_num) le_rfl _ _ _ _ _ (step_pos loc _ _)⟩)
      (fun x _ a ha _ => ⟨eps_units _, unitsOK 1 0 (by norm_num) le_rfl _ _ _ _ _ (fun _ => ha)⟩),
   solve_cranknicolson_units invSolve R R' eps eps id id (par loc) (par' loc) T 1 sg hT (fun i => (sg_pos i).ne') 5
      (by norm_num) _ _ (par_units loc) hR (fun _ => rfl) fuel t0 q0
      (fun x _ => ⟨eps_units _, unitsOK (1/2) 0 (by norm_num) le_rfl _ _ _ _ _ (step_pos loc _ _)⟩)
      (fun x _ a ha _ => ⟨eps_units _, unitsOK (1/2) 0 (by norm_num) le_rfl _ _ _ _ _ (fun _ => ha)⟩)⟩

/-- `solve_gear_units`, from any initial memory -/
example (loc : Bool) (fuel : ℕ) (s0 : Option (Vec ℚ 2)) (t0 : ℚ) (q0 : Vec ℚ 2) :
    (gearCfg invSolve R' eps id (par' loc)).run fuel (memMap T 5 s0) (5 * t0) (T q0)
      = (DrvState.map (memMap T 5) (5 * ·) T (fun i v => if i = 0 then 6 * v else 5 * v)
          ((gearCfg invSolve R eps id (par loc)).run fuel s0 t0 q0).1,
         ((gearCfg invSolve R eps id (par loc)).run fuel s0 t0 q0).2) :=
  solve_gear_units invSolve R R' eps eps id id (par loc) (par' loc) T 1 sg hT (fun i => (sg_pos i).ne') 5
    (by norm_num) _ _ (par_units loc) hR (fun _ => rfl) fuel s0 t0 q0
    (fun x _ => by
      rcases x with ⟨s, t, q⟩
      refine ⟨eps_units _, ?_⟩
      cases s with
      | none => exact unitsOK (1/2) 0 (by norm_num) le_rfl _ _ _ _ _ (step_pos loc _ _)
      | some l => exact unitsOK 1 (1/2) (by norm_num) (by norm_num) _ _ _ _ _ (step_pos loc _ _))
    (fun x _ a ha _ => by
      rcases x with ⟨s, t, q⟩
      refine ⟨eps_units _, ?_⟩
      cases s with
      | none => exact unitsOK (1/2) 0 (by norm_num) le_rfl _ _ _ _ _ (fun _ => ha)
      | some l => exact unitsOK 1 (1/2) (by norm_num) (by norm_num) _ _ _ _ _ (fun _ => ha))

/-! #### the same with a computable solver (Cramer's rule, C06b) and two runs evaluated -/

theorem unitsOK_cramer (θ ξ : ℚ) (hθ : 0 ≤ θ) (hξ : 0 ≤ ξ) (t : ℚ) (q last e d : Vec ℚ 2) (hd : ∀ i, 0 < d i) :
    UnitsOK cramer2 θ ξ (R t) (R' (5 * t)) T 5 e (T e) d (fun i => 5 * d ((1 : Equiv.Perm (Fin 2)) i)) last q := by
  have hdet := det_ne θ ξ hθ hξ t q e d hd
  have hinj' := sysMat_units_inj T 1 sg hT (fun i => (sg_pos i).ne') 5 (by norm_num) θ ξ _ _
    (fdJac_units_mulVec T 1 sg hT (fun i => (sg_pos i).ne') 5 (R t) (R' (5 * t)) (hR t) q e) d (inj_of_det _ hdet)
  have hdet' := det_ne_of_inj _ hinj'
  rw [Matrix.det_fin_two] at hdet hdet'
  exact ⟨hinj', cramer2_solves _ _ hdet, cramer2_solves _ _ hdet'⟩

theorem theta_cramer (θ : ℚ) (hθ : 0 ≤ θ) (loc : Bool) (fuel : ℕ) (t0 : ℚ) (q0 : Vec ℚ 2) :
    ScaledRun 5 T (fun i v => if i = 0 then 6 * v else 5 * v)
      ((thetaCfg cramer2 θ R eps id (par loc)).run fuel () t0 q0)
      ((thetaCfg cramer2 θ R' eps id (par' loc)).run fuel () (5 * t0) (T q0)) :=
  solve_theta_units_scaled cramer2 θ R R' eps eps id id (par loc) (par' loc) T 1 sg hT (fun i => (sg_pos i).ne') 5
    (by norm_num) _ _ (par_units loc) hR (fun _ => rfl) fuel t0 q0
    (fun x _ => ⟨eps_units _, unitsOK_cramer θ 0 hθ le_rfl _ _ _ _ _ (step_pos loc _ _)⟩)
    (fun x _ a ha _ => ⟨eps_units _, unitsOK_cramer θ 0 hθ le_rfl _ _ _ _ _ (fun _ => ha)⟩)

theorem gear_cramer (loc : Bool) (fuel : ℕ) (s0 : Option (Vec ℚ 2)) (t0 : ℚ) (q0 : Vec ℚ 2) :
    (gearCfg cramer2 R' eps id (par' loc)).run fuel (memMap T 5 s0) (5 * t0) (T q0)
      = (DrvState.map (memMap T 5) (5 * ·) T (fun i v => if i = 0 then 6 * v else 5 * v)
          ((gearCfg cramer2 R eps id (par loc)).run fuel s0 t0 q0).1,
         ((gearCfg cramer2 R eps id (par loc)).run fuel s0 t0 q0).2) :=
  solve_gear_units cramer2 R R' eps eps id id (par loc) (par' loc) T 1 sg hT (fun i => (sg_pos i).ne') 5
    (by norm_num) _ _ (par_units loc) hR (fun _ => rfl) fuel s0 t0 q0
    (fun x _ => by
      rcases x with ⟨s, t, q⟩
      refine ⟨eps_units _, ?_⟩
      cases s with
      | none => exact unitsOK_cramer (1/2) 0 (by norm_num) le_rfl _ _ _ _ _ (step_pos loc _ _)
      | some l => exact unitsOK_cramer 1 (1/2) (by norm_num) (by norm_num) _ _ _ _ _ (step_pos loc _ _))
    (fun x _ a ha _ => by
      rcases x with ⟨s, t, q⟩
      refine ⟨eps_units _, ?_⟩
      cases s with
      | none => exact unitsOK_cramer (1/2) 0 (by norm_num) le_rfl _ _ _ _ _ (fun _ => ha)
      | some l => exact unitsOK_cramer 1 (1/2) (by norm_num) (by norm_num) _ _ _ _ _ (fun _ => ha))

theorem T_q0 : T ![1, -2] = ![2, -12] := by
  funext i
  fin_cases i
  · simp [T, sg]
  · simp [T, sg]; norm_num

/-- Crank–Nicolson, global time step, from `q = (1, -2)` at `t = 0`: the original solve stops by the stop time after 4
iterations and returns 2 snapshots, at `t = 1/3` (tag 1, a side step) and `t = 2` (tag 3) … -/
example : ((thetaCfg cramer2 (1/2) R eps id (par false)).run 20 () 0 ![1, -2]).2 = true
    ∧ ((thetaCfg cramer2 (1/2) R eps id (par false)).run 20 () 0 ![1, -2]).1.nit = 4
    ∧ (((thetaCfg cramer2 (1/2) R eps id (par false)).run 20 () 0 ![1, -2]).1.results.map fun s => (s.time, s.it))
        = [(1/3, 1), (2, 3)] := by
  decide +kernel

/-- … hence the solve in the new units from `(2, -12)` is its image: 4 iterations, snapshots at `5/3`, `10`, same
tags (checked independently by evaluation below) -/
theorem cn_scaled : ScaledRun 5 T (fun i v => if i = 0 then 6 * v else 5 * v)
    ((thetaCfg cramer2 (1/2) R eps id (par false)).run 20 () 0 ![1, -2])
    ((thetaCfg cramer2 (1/2) R' eps id (par' false)).run 20 () 0 ![2, -12]) := by
  have h := theta_cramer (1/2) (by norm_num) false 20 0 ![1, -2]
  rwa [mul_zero, T_q0] at h

example : ((thetaCfg cramer2 (1/2) R' eps id (par' false)).run 20 () 0 ![2, -12]).1.nit = 4
    ∧ (((thetaCfg cramer2 (1/2) R' eps id (par' false)).run 20 () 0 ![2, -12]).1.results.map fun s => (s.time, s.it))
        = [(5/3, 1), (10, 3)] := by
  decide +kernel

/-- `gear` (Crank–Nicolson start, then BDF2 with memory), LOCAL time steps: 4 iterations, 2 snapshots, both unit systems -/
example : ((gearCfg cramer2 R eps id (par true)).run 20 none 0 ![1, -2]).1.nit = 4
    ∧ (((gearCfg cramer2 R eps id (par true)).run 20 none 0 ![1, -2]).1.results.map fun s => (s.time, s.it))
        = [(1/3, 1), (2, 3)]
    ∧ ((gearCfg cramer2 R' eps id (par' true)).run 20 none 0 ![2, -12]).1.nit = 4
    ∧ (((gearCfg cramer2 R' eps id (par' true)).run 20 none 0 ![2, -12]).1.results.map fun s => (s.time, s.it))
        = [(5/3, 1), (10, 3)] := by
  decide +kernel

/-- sharpness of `epsCode_units`: at a state with an identically zero component the code's rule (absolute fallback
`1.0`) is NOT covariant -/
example : epsCode (1/10) 1 id (T 0) ≠ T (epsCode (1/10) 1 id 0) := by
  intro h
  have := congrFun h 0
  simp [epsCode, compSum, T, sg] at this

end Ex
/-! #### the model's operator: first-order upwind convection (`convVec`, speed 1) on three periodic cells of width 1;
new units: lengths `× 2`, velocities `× 3` (times `× 2/3`), the unknown `× 7`; constant perturbations `1` resp. `7` -/
namespace ExConv
open Flowdyn.C14.ExB (M3 det3_ne convVec3_eq)

theorem pair : UnitsPair (2 : ℚ) 3 (fun _ => 7) (fun _ => 7) (perDisc 3 3 0 Scheme.extrapol1 convC2P (convFluxV 1))
    (perDisc 3 (2 * 3) (2 * 0) Scheme.extrapol1 convC2P (convFluxV (3 * 1))) :=
  unitsPair_perConv 2 3 7 (by norm_num) (by norm_num) (by norm_num) 3 0 1 Scheme.extrapol1 trivial

/-- original units (`par3` of C14c has the same rule): per-cell state-dependent time steps, monitor: the sum -/
def par (loc : Bool) : DrvPar ℚ (Vec ℚ 3) (Vec ℚ 3) :=
  { calcDt := fun _ q i => 1 / (1 + (q i) ^ 2), minDt := fun d => min (d 0) (min (d 1) (d 2)),
    scalar := fun a _ => a, dtlocal := loc, tottime := some 2, maxit := some 20, tsave := [1/3, 2], itstart := 0,
    monitors := [(1, fun _ q => q 0 + q 1 + q 2)] }

def par' (loc : Bool) : DrvPar ℚ (Vec ℚ 3) (Vec ℚ 3) :=
  { calcDt := fun _ w i => (2/3) / (1 + (w i / 7) ^ 2), minDt := fun d => min (d 0) (min (d 1) (d 2)),
    scalar := fun a _ => a, dtlocal := loc, tottime := some (4/3), maxit := some 20, tsave := [2/9, 4/3],
    itstart := 0, monitors := [(1, fun _ w => w 0 + w 1 + w 2)] }

theorem par_units (loc : Bool) :
    ParUnits (2 / 3) (par loc) (par' loc) (sclVec (7 : ℚ)) (fun d i => 2 / 3 * d i) (fun _ v => 7 * v) where
  calcDt := fun t q => by
    funext i
    show (2/3) / (1 + (7 * q i / 7) ^ 2) = 2 / 3 * (1 / (1 + (q i) ^ 2))
    rw [mul_div_cancel_left₀ _ (by norm_num : (7 : ℚ) ≠ 0)]; ring
  minDt := fun d => by
    show min (2 / 3 * d 0) (min (2 / 3 * d 1) (2 / 3 * d 2)) = 2 / 3 * min (d 0) (min (d 1) (d 2))
    rw [mul_min_of_nonneg _ _ (by norm_num : (0 : ℚ) ≤ 2 / 3), mul_min_of_nonneg _ _ (by norm_num : (0 : ℚ) ≤ 2 / 3)]
  scalar := fun _ => rfl
  dtlocal := rfl
  tottime := by simp only [par, par', Option.map_some]; norm_num
  maxit := rfl
  tsave := by simp only [par, par', List.map_cons, List.map_nil]; norm_num
  itstart := rfl
  monitors_length := rfl
  monitors := fun i m m' hm hm' => by
    rcases i with _ | i
    · simp only [par, par', List.getElem?_cons_zero, Option.some.injEq] at hm hm'
      subst hm; subst hm'
      refine ⟨rfl, fun _ q => ?_⟩
      show 7 * q 0 + 7 * q 1 + 7 * q 2 = 7 * (q 0 + q 1 + q 2)
      ring
    · simp [par] at hm

theorem step_pos (loc : Bool) (t : ℚ) (q : Vec ℚ 3) (i : Fin 3) : 0 < (par loc).stepDt t q i := by
  have hc : ∀ i, 0 < (par loc).calcDt t q i := fun i => by
    show 0 < 1 / (1 + (q i) ^ 2)
    positivity
  unfold DrvPar.stepDt
  split_ifs
  · exact hc i
  · exact lt_min (hc 0) (lt_min (hc 1) (hc 2))

theorem unitsOK (θ ξ : ℚ) (hθ : 0 ≤ θ) (hξ : 0 ≤ ξ) (q last d : Vec ℚ 3) (hd : ∀ i, 0 < d i) :
    UnitsOK invSolve θ ξ (perVec (N := 3) (3 : ℚ) 0 Scheme.extrapol1 convC2P (convFluxV 1))
      (perVec (2 * 3) (2 * 0) Scheme.extrapol1 convC2P (convFluxV (3 * 1))) (sclVec 7) (2 / 3) (fun _ => 1)
      (sclVec 7 (fun _ => 1)) d (fun i => 2 / 3 * d ((1 : Equiv.Perm (Fin 3)) i)) last q := by
  refine unitsOK_invSolve θ ξ (sclVec 7) 1 (fun _ => 7) (sclVec_apply 7) (fun _ => by norm_num) (2 / 3)
    (by norm_num) _ _ (fun v => perVec_units 2 3 7 _ 3 0 Scheme.extrapol1 _ _ _ _ pair v) q last _ d ?_
  have : perVec (N := 3) (3 : ℚ) 0 Scheme.extrapol1 convC2P (convFluxV 1) = fun v => M3.mulVec v + 0 :=
    funext convVec3_eq
  rw [this, fdJac_affine M3 0 q _ (fun _ => one_ne_zero)]
  exact det3_ne θ ξ hθ hξ d hd

theorem eps_units : (fun _ => (7 : ℚ)) = sclVec (7 : ℚ) (fun _ : Fin 3 => (1 : ℚ)) := by
  funext i
  show (7 : ℚ) = 7 * 1
  norm_num

/-- `solve_theta_units_perVec` on the model's convection operator, every `θ ≥ 0`, local or global time steps -/
example (θ : ℚ) (hθ : 0 ≤ θ) (loc : Bool) (fuel : ℕ) (t0 : ℚ) (q0 : Vec ℚ 3) :
    ScaledRun (2 / 3) (sclVec (7 : ℚ)) (fun _ v => 7 * v)
      ((thetaCfg invSolve θ (fun _ => perVec 3 0 Scheme.extrapol1 convC2P (convFluxV 1)) (fun _ _ => 1) id
        (par loc)).run fuel () t0 q0)
      ((thetaCfg invSolve θ (fun _ => perVec (2 * 3) (2 * 0) Scheme.extrapol1 convC2P (convFluxV (3 * 1)))
        (fun _ _ => 7) id (par' loc)).run fuel () (2 / 3 * t0) (sclVec 7 q0)) :=
  solve_theta_units_perVec invSolve θ 2 3 7 (by norm_num) _ 3 0 Scheme.extrapol1 _ _ _ _ pair (fun _ _ => 1)
    (fun _ _ => 7) id id (par loc) (par' loc) _ _ (par_units loc) (fun _ => rfl) fuel t0 q0
    (fun x _ => ⟨eps_units, unitsOK θ 0 hθ le_rfl _ _ _ (step_pos loc _ _)⟩)
    (fun x _ a ha _ => ⟨eps_units, unitsOK θ 0 hθ le_rfl _ _ _ (fun _ => ha)⟩)

/-- `solve_gear_units_perVec`, from any initial memory -/
example (loc : Bool) (fuel : ℕ) (s0 : Option (Vec ℚ 3)) (t0 : ℚ) (q0 : Vec ℚ 3) :
    (gearCfg invSolve (fun _ => perVec (2 * 3) (2 * 0) Scheme.extrapol1 convC2P (convFluxV (3 * 1)))
        (fun _ _ => 7) id (par' loc)).run fuel (memMap (sclVec 7) (2 / 3) s0) (2 / 3 * t0) (sclVec 7 q0)
      = (DrvState.map (memMap (sclVec 7) (2 / 3)) (2 / 3 * ·) (sclVec (7 : ℚ)) (fun _ v => 7 * v)
          ((gearCfg invSolve (fun _ => perVec 3 0 Scheme.extrapol1 convC2P (convFluxV 1)) (fun _ _ => 1) id
            (par loc)).run fuel s0 t0 q0).1,
         ((gearCfg invSolve (fun _ => perVec 3 0 Scheme.extrapol1 convC2P (convFluxV 1)) (fun _ _ => 1) id
            (par loc)).run fuel s0 t0 q0).2) :=
  solve_gear_units_perVec invSolve 2 3 7 (by norm_num) _ 3 0 Scheme.extrapol1 _ _ _ _ pair (fun _ _ => 1)
    (fun _ _ => 7) id id (par loc) (par' loc) _ _ (par_units loc) (fun _ => rfl) fuel s0 t0 q0
    (fun x _ => by
      rcases x with ⟨s, t, q⟩
      refine ⟨eps_units, ?_⟩
      cases s with
      | none => exact unitsOK (1/2) 0 (by norm_num) le_rfl _ _ _ (step_pos loc _ _)
      | some l => exact unitsOK 1 (1/2) (by norm_num) (by norm_num) _ _ _ (step_pos loc _ _))
    (fun x _ a ha _ => by
      rcases x with ⟨s, t, q⟩
      refine ⟨eps_units, ?_⟩
      cases s with
      | none => exact unitsOK (1/2) 0 (by norm_num) le_rfl _ _ _ (fun _ => ha)
      | some l => exact unitsOK 1 (1/2) (by norm_num) (by norm_num) _ _ _ (fun _ => ha))

end ExConv

end Examples

end Flowdyn.C13e
