/-
C10c — positivity of the first-order scheme with OPEN boundaries (slip walls `sym`, and every boundary kernel
that maps admissible interior states to admissible ghost states).

C10b proves the one-cell lemmas (`hlle_step_adm`, `swRusanov_step_positive`, `swHll_step_positive`: one cell
between ANY two neighbour states) and the pipeline statements for periodic meshes.  Here:

1. the mirror state of an admissible state is admissible (`adm_mirror`, `padm_mirror`, `admSW_mirror`); the `sym`
   ghost state is the primitive state of the mirrored conservative state (`eCons2prim_mirror`, `swCons2prim_mirror`);
2. `fo1Open m c2p Φ lo hi`: the first-order discretisation with `BC1D.open lo hi` on ANY mesh; `fo1Open_rhs`:
   cell `i` of its `rhs` is the flux difference of the Riemann problems with the neighbours `nbL`, `nbR`, where the
   neighbour of cell `0` is the ghost state `lo (c2p q₀)` and the neighbour of cell `n-1` is `hi (c2p q_{n-1})`;
3. `hlle_fe_positive_open` / `sw_fe_positive_open`: every cell of `q + dt • rhs q` is admissible for ANY boundary
   kernels preserving admissibility of primitive states, under the face condition (Euler) resp. the cell CFL
   condition (shallow water) in which the neighbours of the end cells are the ghost states;
   instances for slip walls on both sides: `hlle_fe_positive_walls`, `sw_fe_positive_walls` (shallow water: the
   condition only involves the cells, `|−u| + c = |u| + c`), `sw_uniform_fe_positive_walls` (`dt ≤ swDt_j`);
   closed form of the code's wall-face speeds (`hlle_wall_speeds`) and the bound by the cell speed for `γ ≤ 3`;
4. SSP lifts (`*_rk2_heun_positive_open/_walls`, `*_rk3ssp_positive_open/_walls`, `*_explicit_positive_open`);
5. which named kernels preserve admissibility: `eulerBC_padm` (`dirichlet` with an admissible state, `sym`,
   `outsup`, `outsub p` with `p > 0`), `swBC_padm` (`dirichlet` with positive depth, `sym`, `inf`).
-/
import Flowdyn.Props.C10b
import Flowdyn.Props.C01a

namespace Flowdyn.C10
open Flowdyn

/-! ## 1. mirror states -/

/-- conservative Euler states: `(ρ, m, E)` admissible ⇒ `(ρ, -m, E)` admissible -/
theorem adm_mirror (U : ℝ × ℝ × ℝ) (hU : Adm U) : Adm (U.1, -U.2.1, U.2.2) := by
  obtain ⟨h1, h2⟩ := hU
  refine ⟨h1, ?_⟩
  show 0 < 2 * U.1 * U.2.2 - (-U.2.1) ^ 2
  rw [neg_sq]; exact h2

theorem ePressure_mirror (γ r m E : ℝ) : ePressure γ r (-m) E = ePressure γ r m E := by
  unfold ePressure eKinetic; rw [neg_sq]

/-- the `sym` ghost state is the primitive state of the mirrored conservative state -/
theorem eCons2prim_mirror (γ r m E : ℝ) :
    eCons2prim γ r (-m) E
      = eBcSym (eCons2prim γ r m E).1 (eCons2prim γ r m E).2.1 (eCons2prim γ r m E).2.2 := by
  simp only [eCons2prim, eBcSym, ePressure_mirror, neg_div]

/-- the conservative state of the `sym` ghost state is the mirrored conservative state -/
theorem consOf_mirror (γ r u p : ℝ) :
    consOf γ (eBcSym r u p).1 (eBcSym r u p).2.1 (eBcSym r u p).2.2
      = ((consOf γ r u p).1, -(consOf γ r u p).2.1, (consOf γ r u p).2.2) := by
  simp only [consOf, ePrim2cons, eBcSym, neg_sq, mul_neg]

/-- primitive state vector `(ρ, u, p)` (as the pipeline carries it) with positive density and pressure -/
def PAdm (W : ℕ → ℝ) : Prop := 0 < W 0 ∧ 0 < W 2

/-- primitive Euler states: the `sym` ghost state `(ρ, -u, p)` of an admissible state is admissible -/
theorem padm_mirror (W : ℕ → ℝ) (hW : PAdm W) : PAdm (vec3 (eBcSym (W 0) (W 1) (W 2))) := hW

/-- the primitive state of a cell with positive density and pressure is admissible -/
theorem padm_c2p (γ : ℝ) (q : ℕ → ℝ) (h : 0 < q 0 ∧ 0 < ePressure γ (q 0) (q 1) (q 2)) :
    PAdm (eulerC2P γ q) := h

/-- shallow water, conservative `(h, q)`: mirror state -/
theorem admSW_mirror (U : ℝ × ℝ) (hU : AdmSW U) : AdmSW (U.1, -U.2) := hU

theorem swCons2prim_mirror (h q : ℝ) :
    swCons2prim h (-q) = swBcSym (swCons2prim h q).1 (swCons2prim h q).2 := by
  simp only [swCons2prim, swBcSym, neg_div]

/-- shallow-water primitive state vector `(h, u)` with positive depth -/
def PAdmSW (W : ℕ → ℝ) : Prop := 0 < W 0

theorem padmSW_mirror (W : ℕ → ℝ) (hW : PAdmSW W) : PAdmSW (vec2 (swBcSym (W 0) (W 1))) := hW

/-! ## 5. named boundary kernels that preserve admissibility (used as instances of the general theorems) -/

/-- the Euler boundary conditions `dirichlet` (admissible state), `sym`, `outsup`, `outsub p` (`p > 0`) -/
def EulerBCAdm : EulerBC ℝ → Prop
  | .dirichlet prim => PAdm prim
  | .sym => True
  | .outsup => True
  | .outsub p => 0 < p
  | _ => False

theorem eulerBC_padm (γ dir : ℝ) (bc : EulerBC ℝ) (hbc : EulerBCAdm bc) (W : ℕ → ℝ) (hW : PAdm W) :
    PAdm (eulerBC γ dir bc W) := by
  cases bc with
  | dirichlet prim => exact hbc
  | sym => exact hW
  | outsup => exact hW
  | outsub p => exact ⟨hW.1, hbc⟩
  | insub _ _ => exact absurd hbc id
  | insub_cbc _ _ => exact absurd hbc id
  | insup _ _ _ => exact absurd hbc id
  | outsub_qtot _ => exact absurd hbc id
  | outsub_rh _ => exact absurd hbc id
  | outsub_nrcbc _ => exact absurd hbc id

/-- the shallow-water boundary conditions: `dirichlet` with positive depth, `sym`, `inf` -/
def SwBCAdm : SwBC ℝ → Prop
  | .dirichlet prim => PAdmSW prim
  | .sym => True
  | .inf => True

theorem swBC_padm (bc : SwBC ℝ) (hbc : SwBCAdm bc) (W : ℕ → ℝ) (hW : PAdmSW W) : PAdmSW (swBC bc W) := by
  cases bc with
  | dirichlet prim => exact hbc
  | sym => exact hW
  | inf => exact hW

/-! ## 2. the pipeline: first-order reconstruction, open ends, any mesh -/

section pipeline
variable {α : Type} [Field α] {ι : Type}

/-- the first-order (`extrapol1`) discretisation with boundary kernels `lo` (left end) and `hi` (right end),
without sources, on an arbitrary mesh -/
def fo1Open (m : Mesh1D α) (c2p : (ι → α) → (ι → α)) (Φ : (ι → α) → (ι → α) → (ι → α))
    (lo hi : (ι → α) → (ι → α)) : Disc1D α ι :=
  { mesh := m, scheme := Scheme.extrapol1, bc := BC1D.open lo hi, c2p := c2p, flux := Φ, src := fun _ => none }

/-- left neighbour state of cell `i`: the ghost state `lo (c2p q₀)` for the first cell, else the primitive
state of cell `i-1` -/
def nbL (c2p : (ι → α) → (ι → α)) (lo : (ι → α) → (ι → α)) (q : ι → ℕ → α) (i : ℕ) : ι → α :=
  if i = 0 then lo (c2p (fun l => q l 0)) else c2p (fun l => q l (i - 1))

/-- right neighbour state of cell `i`: the ghost state `hi (c2p q_{n-1})` for the last cell, else the primitive
state of cell `i+1` -/
def nbR (n : ℕ) (c2p : (ι → α) → (ι → α)) (hi : (ι → α) → (ι → α)) (q : ι → ℕ → α) (i : ℕ) : ι → α :=
  if i + 1 = n then hi (c2p (fun l => q l i)) else c2p (fun l => q l (i + 1))

/-- left state at face `f`: the ghost state at `f = 0`, else the primitive state of cell `f-1` -/
theorem fo1Open_pL (m : Mesh1D α) (c2p : (ι → α) → (ι → α)) (Φ : (ι → α) → (ι → α) → (ι → α))
    (lo hi : (ι → α) → (ι → α)) (hn : 0 < m.n) (q : ι → ℕ → α) (f : ℕ) :
    (fun j => (fo1Open m c2p Φ lo hi).pL q j f) = nbL c2p lo q f := by
  funext j
  simp only [Disc1D.pL, bcFaceL, fo1Open, Disc1D.pL0, Disc1D.pR0, recL, recR, slopeL, slopeR, Disc1D.pdata, nbL]
  have hne : (0 : ℕ) ≠ m.n := by omega
  by_cases h0 : f = 0
  · simp [h0, hne]
  · simp [h0]

/-- right state at face `f + 1` (`f < n`): the ghost state at the last face, else the primitive state of cell `f+1` -/
theorem fo1Open_pR (m : Mesh1D α) (c2p : (ι → α) → (ι → α)) (Φ : (ι → α) → (ι → α) → (ι → α))
    (lo hi : (ι → α) → (ι → α)) (q : ι → ℕ → α) (f : ℕ) :
    (fun j => (fo1Open m c2p Φ lo hi).pR q j (f + 1)) = nbR m.n c2p hi q f := by
  funext j
  simp only [Disc1D.pR, bcFaceR, fo1Open, Disc1D.pL0, Disc1D.pR0, recL, recR, slopeL, slopeR, Disc1D.pdata, nbR]
  by_cases h0 : f + 1 = m.n
  · have e : m.n - 1 = f := by omega
    have hne : m.n ≠ 0 := by omega
    simp [h0, e, hne]
  · simp [h0]

/-- right state at face `f < n`: the primitive state of cell `f` -/
theorem fo1Open_pR_cell (m : Mesh1D α) (c2p : (ι → α) → (ι → α)) (Φ : (ι → α) → (ι → α) → (ι → α))
    (lo hi : (ι → α) → (ι → α)) (q : ι → ℕ → α) (f : ℕ) (hf : f < m.n) :
    (fun j => (fo1Open m c2p Φ lo hi).pR q j f) = c2p (fun l => q l f) := by
  funext j
  simp only [Disc1D.pR, bcFaceR, fo1Open, Disc1D.pR0, recR, slopeR, Disc1D.pdata]
  have hne : f ≠ m.n := by omega
  simp [hne]

/-- left state at face `f + 1`: the primitive state of cell `f` -/
theorem fo1Open_pL_cell (m : Mesh1D α) (c2p : (ι → α) → (ι → α)) (Φ : (ι → α) → (ι → α) → (ι → α))
    (lo hi : (ι → α) → (ι → α)) (q : ι → ℕ → α) (f : ℕ) :
    (fun j => (fo1Open m c2p Φ lo hi).pL q j (f + 1)) = c2p (fun l => q l f) := by
  funext j
  simp only [Disc1D.pL, bcFaceL, fo1Open, Disc1D.pL0, recL, slopeL, Disc1D.pdata]
  simp

/-- **residual of cell `i` of the first-order pipeline with open ends**: the flux difference between the Riemann
problems `(cell i, right neighbour)` and `(left neighbour, cell i)`; the neighbours of the end cells are the
ghost states produced by the boundary kernels from the end cells' own primitive states -/
theorem fo1Open_rhs (m : Mesh1D α) (c2p : (ι → α) → (ι → α)) (Φ : (ι → α) → (ι → α) → (ι → α))
    (lo hi : (ι → α) → (ι → α)) (hn : 0 < m.n) (q : ι → ℕ → α) (k : ι) (i : ℕ) (hi' : i < m.n) :
    (fo1Open m c2p Φ lo hi).rhs q k i
      = -(Φ (c2p (fun l => q l i)) (nbR m.n c2p hi q i) k - Φ (nbL c2p lo q i) (c2p (fun l => q l i)) k)
          / m.vol i := by
  show -(Φ (fun j => (fo1Open m c2p Φ lo hi).pL q j (i + 1)) (fun j => (fo1Open m c2p Φ lo hi).pR q j (i + 1)) k
        - Φ (fun j => (fo1Open m c2p Φ lo hi).pL q j i) (fun j => (fo1Open m c2p Φ lo hi).pR q j i) k) / m.vol i = _
  rw [fo1Open_pL_cell, fo1Open_pR, fo1Open_pL m c2p Φ lo hi hn, fo1Open_pR_cell m c2p Φ lo hi q i hi']

/-- `fo1Open` is the discretisation the code assembles: `extrapol1`, `BC1D.open`, no sources -/
example (m : Mesh1D α) (c2p : (ι → α) → (ι → α)) (Φ : (ι → α) → (ι → α) → (ι → α)) (lo hi : (ι → α) → (ι → α)) :
    fo1Open m c2p Φ lo hi
      = { mesh := m, scheme := Scheme.extrapol1, bc := BC1D.open lo hi, c2p := c2p, flux := Φ,
          src := fun _ => none } := rfl

/-- closed form in the first cell (`n ≥ 2`): flux between the cell and its right neighbour minus the flux between
the ghost state and the cell -/
theorem fo1Open_rhs_first (m : Mesh1D α) (c2p : (ι → α) → (ι → α)) (Φ : (ι → α) → (ι → α) → (ι → α))
    (lo hi : (ι → α) → (ι → α)) (hn : 2 ≤ m.n) (q : ι → ℕ → α) (k : ι) :
    (fo1Open m c2p Φ lo hi).rhs q k 0
      = -(Φ (c2p (fun l => q l 0)) (c2p (fun l => q l 1)) k
          - Φ (lo (c2p (fun l => q l 0))) (c2p (fun l => q l 0)) k) / m.vol 0 := by
  rw [fo1Open_rhs m c2p Φ lo hi (by omega) q k 0 (by omega)]
  have h1 : ¬ (0 + 1 = m.n) := by omega
  simp only [nbL, nbR, if_true, if_neg h1]

/-- closed form in the last cell (`n ≥ 2`) -/
theorem fo1Open_rhs_last (m : Mesh1D α) (c2p : (ι → α) → (ι → α)) (Φ : (ι → α) → (ι → α) → (ι → α))
    (lo hi : (ι → α) → (ι → α)) (hn : 2 ≤ m.n) (q : ι → ℕ → α) (k : ι) :
    (fo1Open m c2p Φ lo hi).rhs q k (m.n - 1)
      = -(Φ (c2p (fun l => q l (m.n - 1))) (hi (c2p (fun l => q l (m.n - 1)))) k
          - Φ (c2p (fun l => q l (m.n - 2))) (c2p (fun l => q l (m.n - 1))) k) / m.vol (m.n - 1) := by
  rw [fo1Open_rhs m c2p Φ lo hi (by omega) q k (m.n - 1) (by omega)]
  have h1 : m.n - 1 + 1 = m.n := by omega
  have h2 : ¬ (m.n - 1 = 0) := by omega
  simp only [nbL, nbR, if_pos h1, if_neg h2, show m.n - 1 - 1 = m.n - 2 by omega]

/-- closed form in an interior cell -/
theorem fo1Open_rhs_interior (m : Mesh1D α) (c2p : (ι → α) → (ι → α)) (Φ : (ι → α) → (ι → α) → (ι → α))
    (lo hi : (ι → α) → (ι → α)) (q : ι → ℕ → α) (k : ι) (i : ℕ) (h0 : 0 < i) (hi' : i + 1 < m.n) :
    (fo1Open m c2p Φ lo hi).rhs q k i
      = -(Φ (c2p (fun l => q l i)) (c2p (fun l => q l (i + 1))) k
          - Φ (c2p (fun l => q l (i - 1))) (c2p (fun l => q l i)) k) / m.vol i := by
  rw [fo1Open_rhs m c2p Φ lo hi (by omega) q k i (by omega)]
  have h1 : ¬ (i + 1 = m.n) := by omega
  have h2 : ¬ (i = 0) := by omega
  simp only [nbL, nbR, if_neg h1, if_neg h2]

/-- a single cell between the two boundaries: both neighbours are ghost states -/
theorem fo1Open_rhs_single (m : Mesh1D α) (c2p : (ι → α) → (ι → α)) (Φ : (ι → α) → (ι → α) → (ι → α))
    (lo hi : (ι → α) → (ι → α)) (hn : m.n = 1) (q : ι → ℕ → α) (k : ι) :
    (fo1Open m c2p Φ lo hi).rhs q k 0
      = -(Φ (c2p (fun l => q l 0)) (hi (c2p (fun l => q l 0))) k
          - Φ (lo (c2p (fun l => q l 0))) (c2p (fun l => q l 0)) k) / m.vol 0 := by
  rw [fo1Open_rhs m c2p Φ lo hi (by omega) q k 0 (by omega)]
  simp only [nbL, nbR, if_true, if_pos hn.symm]

/-- a uniform field whose primitive state is fixed by both boundary kernels is steady, whatever the flux -/
theorem fo1Open_rhs_const (m : Mesh1D α) (c2p : (ι → α) → (ι → α)) (Φ : (ι → α) → (ι → α) → (ι → α))
    (lo hi : (ι → α) → (ι → α)) (hn : 0 < m.n) (q : ι → ℕ → α) (W : ι → α)
    (hq : ∀ i, i < m.n → c2p (fun l => q l i) = W) (hlo : lo W = W) (hhi : hi W = W) (k : ι) (i : ℕ)
    (hi' : i < m.n) : (fo1Open m c2p Φ lo hi).rhs q k i = 0 := by
  rw [fo1Open_rhs m c2p Φ lo hi hn q k i hi']
  have e1 : nbL c2p lo q i = W := by
    unfold nbL; split_ifs with h
    · rw [hq 0 hn, hlo]
    · exact hq _ (by omega)
  have e2 : nbR m.n c2p hi q i = W := by
    unfold nbR; split_ifs with h
    · rw [hq i hi', hhi]
    · exact hq _ (by omega)
  rw [e1, e2, hq i hi', sub_self, neg_zero, zero_div]

end pipeline

/-! ## 3a. Euler / HLLE with open ends -/

/-- the first-order Euler discretisation with the `hlle` flux and boundary kernels `lo`, `hi`, as assembled by the code -/
noncomputable def eulerHlleOpen (γ : ℝ) (m : Mesh1D ℝ) (lo hi : (ℕ → ℝ) → (ℕ → ℝ)) : Disc1D ℝ ℕ :=
  fo1Open m (eulerC2P γ) (eulerFluxV γ EulerFlux.hlle) lo hi

/-- slip walls (`sym`) at both ends: `namedBC('sym', dir = -1)` on the left, `dir = +1` on the right -/
noncomputable def eulerHlleWalls (γ : ℝ) (m : Mesh1D ℝ) : Disc1D ℝ ℕ :=
  eulerHlleOpen γ m (eulerBC γ (-1) EulerBC.sym) (eulerBC γ 1 EulerBC.sym)

/-- the code's wave-speed bounds between two primitive state vectors -/
noncomputable def hlleSLv (γ : ℝ) (L R : ℕ → ℝ) : ℝ := hlleSL γ (L 0) (L 1) (L 2) (R 0) (R 1) (R 2)
noncomputable def hlleSRv (γ : ℝ) (L R : ℕ → ℝ) : ℝ := hlleSR γ (L 0) (L 1) (L 2) (R 0) (R 1) (R 2)

/-- face condition of cell `i`: `dt/vol_i (sR(face i) - sL(face i+1)) ≤ 1` with the code's speeds; at the two end
faces the outer state is the ghost state produced by the boundary kernel -/
def EFaceCFLOpen (γ dt : ℝ) (m : Mesh1D ℝ) (lo hi : (ℕ → ℝ) → (ℕ → ℝ)) (q : ℕ → ℕ → ℝ) : Prop :=
  ∀ i, i < m.n → dt / m.vol i *
    (hlleSRv γ (nbL (eulerC2P γ) lo q i) (eulerC2P γ (fun l => q l i))
      - hlleSLv γ (eulerC2P γ (fun l => q l i)) (nbR m.n (eulerC2P γ) hi q i)) ≤ 1

/-- the face condition with slip walls: the outer state at a wall face is the mirror state `(ρ, -u, p)` -/
def EFaceCFLWalls (γ dt : ℝ) (m : Mesh1D ℝ) (q : ℕ → ℕ → ℝ) : Prop :=
  EFaceCFLOpen γ dt m (eulerBC γ (-1) EulerBC.sym) (eulerBC γ 1 EulerBC.sym) q

/-- cell `i` of `q + dt • rhs q`, as a conservative triple -/
theorem euler_fo1Open_cell (γ dt : ℝ) (m : Mesh1D ℝ) (lo hi : (ℕ → ℝ) → (ℕ → ℝ)) (hn : 0 < m.n)
    (q : ℕ → ℕ → ℝ) (i : ℕ) (hi' : i < m.n) (L W R : ℕ → ℝ) (hL : L = nbL (eulerC2P γ) lo q i)
    (hW : W = eulerC2P γ (fun l => q l i)) (hR : R = nbR m.n (eulerC2P γ) hi q i) :
    ((q + dt • (eulerHlleOpen γ m lo hi).rhs q) 0 i, (q + dt • (eulerHlleOpen γ m lo hi).rhs q) 1 i,
        (q + dt • (eulerHlleOpen γ m lo hi).rhs q) 2 i)
      = ((q 0 i, q 1 i, q 2 i) : ℝ × ℝ × ℝ) - (dt / m.vol i) •
        (eHlle γ (W 0) (W 1) (W 2) (R 0) (R 1) (R 2) - eHlle γ (L 0) (L 1) (L 2) (W 0) (W 1) (W 2)) := by
  simp only [Pi.add_apply, Pi.smul_apply, smul_eq_mul, eulerHlleOpen, fo1Open_rhs m _ _ lo hi hn q _ i hi',
    ← hL, ← hW, ← hR]
  simp only [eulerFluxV, vec3]
  refine Prod.ext ?_ (Prod.ext ?_ ?_) <;>
    simp only [Prod.fst_sub, Prod.snd_sub, Prod.smul_fst, Prod.smul_snd, smul_eq_mul] <;> ring

/-- the neighbour states of an admissible field are admissible when the boundary kernels preserve admissibility -/
theorem padm_nbL (γ : ℝ) (n : ℕ) (hn : 0 < n) (lo : (ℕ → ℝ) → (ℕ → ℝ)) (hlo : ∀ W, PAdm W → PAdm (lo W))
    (q : ℕ → ℕ → ℝ) (hq : EAdmField γ n q) (i : ℕ) (hi' : i < n) : PAdm (nbL (eulerC2P γ) lo q i) := by
  unfold nbL
  split_ifs with h
  · exact hlo _ (hq 0 hn)
  · exact hq (i - 1) (by omega)

theorem padm_nbR (γ : ℝ) (n : ℕ) (hi : (ℕ → ℝ) → (ℕ → ℝ)) (hhi : ∀ W, PAdm W → PAdm (hi W))
    (q : ℕ → ℕ → ℝ) (hq : EAdmField γ n q) (i : ℕ) (hi' : i < n) : PAdm (nbR n (eulerC2P γ) hi q i) := by
  unfold nbR
  split_ifs with h
  · exact hhi _ (hq i hi')
  · exact hq (i + 1) (by omega)

/-- **Euler / HLLE on the pipeline with open ends, forward Euler**: first-order reconstruction, any mesh with
positive cell volumes, ANY boundary kernels `lo`, `hi` that map primitive states with `ρ > 0`, `p > 0` to such
states.  If every cell has positive density and pressure and every cell satisfies the face condition (ghost
states at the end faces), every cell of `q + dt • rhs q` has positive density and pressure. -/
theorem hlle_fe_positive_open (γ dt : ℝ) (hγ : 1 < γ) (hdt : 0 ≤ dt) (m : Mesh1D ℝ) (hn : 0 < m.n)
    (hvol : ∀ i, i < m.n → 0 < m.vol i) (lo hi : (ℕ → ℝ) → (ℕ → ℝ))
    (hlo : ∀ W, PAdm W → PAdm (lo W)) (hhi : ∀ W, PAdm W → PAdm (hi W))
    (q : ℕ → ℕ → ℝ) (hq : EAdmField γ m.n q) (hcfl : EFaceCFLOpen γ dt m lo hi q) :
    EAdmField γ m.n (q + dt • (eulerHlleOpen γ m lo hi).rhs q) := by
  intro i hi'
  have hg1 : γ - 1 ≠ 0 := by have : 0 < γ - 1 := by linarith
                             exact ne_of_gt this
  have hν : 0 ≤ dt / m.vol i := div_nonneg hdt (hvol i hi').le
  have hL := padm_nbL γ m.n hn lo hlo q hq i hi'
  have hR := padm_nbR γ m.n hi hhi q hq i hi'
  have hW : PAdm (eulerC2P γ (fun l => q l i)) := hq i hi'
  have hc := hcfl i hi'
  have e := euler_fo1Open_cell γ dt m lo hi hn q i hi' _ _ _ rfl rfl rfl
  generalize nbL (eulerC2P γ) lo q i = L at hL hc e
  generalize nbR m.n (eulerC2P γ) hi q i = R at hR hc e
  have h := hlle_step_adm γ (dt / m.vol i) (L 0) (L 1) (L 2) (eulerC2P γ (fun l => q l i) 0)
    (eulerC2P γ (fun l => q l i) 1) (eulerC2P γ (fun l => q l i) 2) (R 0) (R 1) (R 2) hγ hν
    hL.1 hL.2 hW.1 hW.2 hR.1 hR.2 hc
  have ec : consOf γ (eulerC2P γ (fun l => q l i) 0) (eulerC2P γ (fun l => q l i) 1)
      (eulerC2P γ (fun l => q l i) 2) = (q 0 i, q 1 i, q 2 i) :=
    consOf_cons2prim γ hg1 (q 0 i, q 1 i, q 2 i) (hq i hi').1.ne'
  rw [ec, ← e] at h
  exact (adm_iff_pressure γ _ _ _ hγ h.1).mp h

/-- the `sym` kernels preserve admissibility -/
theorem eulerSym_padm (γ dir : ℝ) (W : ℕ → ℝ) (hW : PAdm W) : PAdm (eulerBC γ dir EulerBC.sym W) := hW

/-- **Euler / HLLE between slip walls, forward Euler**: first-order reconstruction, `sym` at both ends, any mesh.
The face condition at the wall faces is formed with the mirror state of the end cell. -/
theorem hlle_fe_positive_walls (γ dt : ℝ) (hγ : 1 < γ) (hdt : 0 ≤ dt) (m : Mesh1D ℝ) (hn : 0 < m.n)
    (hvol : ∀ i, i < m.n → 0 < m.vol i) (q : ℕ → ℕ → ℝ) (hq : EAdmField γ m.n q)
    (hcfl : EFaceCFLWalls γ dt m q) :
    EAdmField γ m.n (q + dt • (eulerHlleWalls γ m).rhs q) :=
  hlle_fe_positive_open γ dt hγ hdt m hn hvol _ _ (eulerSym_padm γ (-1)) (eulerSym_padm γ 1) q hq hcfl

/-- one wall (left) and any admissibility-preserving kernel on the right, e.g. `outsup` / `outsub p` -/
theorem hlle_fe_positive_wall_left (γ dt : ℝ) (hγ : 1 < γ) (hdt : 0 ≤ dt) (m : Mesh1D ℝ) (hn : 0 < m.n)
    (hvol : ∀ i, i < m.n → 0 < m.vol i) (bcR : EulerBC ℝ) (hbc : EulerBCAdm bcR)
    (q : ℕ → ℕ → ℝ) (hq : EAdmField γ m.n q)
    (hcfl : EFaceCFLOpen γ dt m (eulerBC γ (-1) EulerBC.sym) (eulerBC γ 1 bcR) q) :
    EAdmField γ m.n (q + dt • (eulerHlleOpen γ m (eulerBC γ (-1) EulerBC.sym) (eulerBC γ 1 bcR)).rhs q) :=
  hlle_fe_positive_open γ dt hγ hdt m hn hvol _ _ (eulerSym_padm γ (-1)) (eulerBC_padm γ 1 bcR hbc) q hq hcfl

/-- any pair of named Euler boundary conditions among `dirichlet` (admissible state), `sym`, `outsup`, `outsub p>0` -/
theorem hlle_fe_positive_named (γ dt : ℝ) (hγ : 1 < γ) (hdt : 0 ≤ dt) (m : Mesh1D ℝ) (hn : 0 < m.n)
    (hvol : ∀ i, i < m.n → 0 < m.vol i) (bcL bcR : EulerBC ℝ) (hbcL : EulerBCAdm bcL) (hbcR : EulerBCAdm bcR)
    (q : ℕ → ℕ → ℝ) (hq : EAdmField γ m.n q)
    (hcfl : EFaceCFLOpen γ dt m (eulerBC γ (-1) bcL) (eulerBC γ 1 bcR) q) :
    EAdmField γ m.n (q + dt • (eulerHlleOpen γ m (eulerBC γ (-1) bcL) (eulerBC γ 1 bcR)).rhs q) :=
  hlle_fe_positive_open γ dt hγ hdt m hn hvol _ _ (eulerBC_padm γ (-1) bcL hbcL) (eulerBC_padm γ 1 bcR hbcR)
    q hq hcfl

/-- the ghost neighbours at the walls are the mirror states of the end cells -/
theorem nbL_walls_zero (γ : ℝ) (q : ℕ → ℕ → ℝ) :
    nbL (eulerC2P γ) (eulerBC γ (-1) EulerBC.sym) q 0
      = vec3 ((ePrimAt γ q 0).1, -(ePrimAt γ q 0).2.1, (ePrimAt γ q 0).2.2) := rfl
theorem nbR_walls_last (γ : ℝ) (n : ℕ) (q : ℕ → ℕ → ℝ) (i : ℕ) (hi' : i + 1 = n) :
    nbR n (eulerC2P γ) (eulerBC γ 1 EulerBC.sym) q i
      = vec3 ((ePrimAt γ q i).1, -(ePrimAt γ q i).2.1, (ePrimAt γ q i).2.2) := by
  unfold nbR; rw [if_pos hi']; rfl

/-! ### the code's wave speeds at a wall face -/

/-- Roe sound speed between a state and its mirror image: `c̃² = (γ-1) H = c² + (γ-1)/2 u²`, Roe velocity `0` -/
noncomputable def wallRoeC (γ r u p : ℝ) : ℝ := Real.sqrt ((γ * p / r / (γ - 1) + 1 / 2 * u ^ 2) * (γ - 1))

/-- closed form of the two wall-face speeds that enter the face condition: `sR` of the left wall face (mirror
state on the left) and `sL` of the right wall face (mirror state on the right) -/
theorem hlle_wall_speeds (γ r u p : ℝ) (hr : 0 < r) :
    hlleSR γ r (-u) p r u p = max 0 (max (wallRoeC γ r u p) (u + Real.sqrt (γ * p / r)))
    ∧ hlleSL γ r u p r (-u) p = min 0 (min (-wallRoeC γ r u p) (u - Real.sqrt (γ * p / r))) := by
  have h1 := C01.eRoe_wall γ r (-u) (γ * p / r / (γ - 1) + 1 / 2 * u ^ 2) hr
  have h2 := C01.eRoe_wall γ r u (γ * p / r / (γ - 1) + 1 / 2 * u ^ 2) hr
  rw [neg_neg] at h1
  unfold hlleSR hlleSL wallRoeC
  dsimp only
  simp only [neg_sq, HasSqrt.sqrt_real, h1, h2, zero_add, zero_sub, and_self]

/-- for `γ ≤ 3` the wall-face speeds are bounded by the cell speed `|u| + c` (the Roe sound speed at a wall is
`√(c² + (γ-1)/2 u²) ≤ c + |u|`) -/
theorem hlle_wall_speeds_le_cell (γ r u p : ℝ) (hγ : 1 < γ) (hγ3 : γ ≤ 3) (hr : 0 < r) (hp : 0 < p) :
    hlleSR γ r (-u) p r u p ≤ |u| + Real.sqrt (γ * p / r)
    ∧ -(|u| + Real.sqrt (γ * p / r)) ≤ hlleSL γ r u p r (-u) p := by
  obtain ⟨e1, e2⟩ := hlle_wall_speeds γ r u p hr
  rw [e1, e2]
  have hg1 : 0 < γ - 1 := by linarith
  have hc2 : 0 ≤ γ * p / r := by positivity
  set c := Real.sqrt (γ * p / r) with hc
  have hc0 : 0 ≤ c := Real.sqrt_nonneg _
  have hcc : c ^ 2 = γ * p / r := Real.sq_sqrt hc2
  have hu := abs_nonneg u
  have hroe : wallRoeC γ r u p ≤ |u| + c := by
    unfold wallRoeC
    apply Real.sqrt_le_iff.mpr
    refine ⟨by linarith, ?_⟩
    have e : (γ * p / r / (γ - 1) + 1 / 2 * u ^ 2) * (γ - 1) = c ^ 2 + (γ - 1) / 2 * u ^ 2 := by
      rw [hcc]; field_simp
    rw [e, add_sq, sq_abs]
    have : (γ - 1) / 2 * u ^ 2 ≤ u ^ 2 := by nlinarith [sq_nonneg u]
    nlinarith [mul_nonneg hu hc0]
  have b1 := le_abs_self u
  have b2 := neg_abs_le u
  constructor
  · exact max_le (by linarith) (max_le hroe (by linarith))
  · exact le_min (by linarith) (le_min (by linarith) (by linarith))

/-! ## 3b. shallow water with open ends -/

/-- the first-order shallow-water discretisation with flux `fl` and boundary kernels `lo`, `hi` -/
noncomputable def swOpen (g : ℝ) (fl : SwFlux) (m : Mesh1D ℝ) (lo hi : (ℕ → ℝ) → (ℕ → ℝ)) : Disc1D ℝ ℕ :=
  fo1Open m swC2P (swFluxV g fl) lo hi

/-- slip walls (`sym`) at both ends -/
noncomputable def swWalls (g : ℝ) (fl : SwFlux) (m : Mesh1D ℝ) : Disc1D ℝ ℕ :=
  swOpen g fl m (swBC SwBC.sym) (swBC SwBC.sym)

/-- speed `|u| + sqrt(g h)` of a primitive state vector `(h, u)` -/
noncomputable def swPrimSpeed (g : ℝ) (W : ℕ → ℝ) : ℝ := |W 1| + HasSqrt.sqrt (g * W 0)

/-- the speed of the primitive state of a cell is the cell speed of C10b (the denominator of the code's `swDt`) -/
theorem swPrimSpeed_c2p (g : ℝ) (q : ℕ → ℕ → ℝ) (i : ℕ) :
    swPrimSpeed g (swC2P (fun l => q l i)) = swCellSpeed g q i := rfl

/-- the mirror state has the same speed -/
theorem swPrimSpeed_sym (g : ℝ) (W : ℕ → ℝ) : swPrimSpeed g (swBC SwBC.sym W) = swPrimSpeed g W := by
  show |-(W 1)| + HasSqrt.sqrt (g * W 0) = |W 1| + HasSqrt.sqrt (g * W 0)
  rw [abs_neg]

/-- cell CFL condition with open ends: `dt/vol_i (|u| + c) ≤ 1/2` for cell `i` and its two neighbour states, which
are ghost states at the ends -/
def SwCellCFLOpen (g dt : ℝ) (m : Mesh1D ℝ) (lo hi : (ℕ → ℝ) → (ℕ → ℝ)) (q : ℕ → ℕ → ℝ) : Prop :=
  ∀ i, i < m.n → dt / m.vol i * swPrimSpeed g (nbL swC2P lo q i) ≤ 1 / 2
    ∧ dt / m.vol i * swCellSpeed g q i ≤ 1 / 2
    ∧ dt / m.vol i * swPrimSpeed g (nbR m.n swC2P hi q i) ≤ 1 / 2

/-- cell CFL condition between walls: `dt/vol_i (|u_j| + c_j) ≤ 1/2` for cell `i` and its neighbours `j = i ± 1`
that exist; no condition on ghost states -/
def SwCellCFLWalls (g dt : ℝ) (m : Mesh1D ℝ) (q : ℕ → ℕ → ℝ) : Prop :=
  ∀ i, i < m.n → (0 < i → dt / m.vol i * swCellSpeed g q (i - 1) ≤ 1 / 2)
    ∧ dt / m.vol i * swCellSpeed g q i ≤ 1 / 2
    ∧ (i + 1 < m.n → dt / m.vol i * swCellSpeed g q (i + 1) ≤ 1 / 2)

/-- with slip walls the ghost speeds are the speeds of the end cells -/
theorem swCellCFLOpen_of_walls (g dt : ℝ) (m : Mesh1D ℝ) (q : ℕ → ℕ → ℝ) (h : SwCellCFLWalls g dt m q) :
    SwCellCFLOpen g dt m (swBC SwBC.sym) (swBC SwBC.sym) q := by
  intro i hi'
  obtain ⟨h1, h2, h3⟩ := h i hi'
  refine ⟨?_, h2, ?_⟩
  · unfold nbL
    split_ifs with h0
    · rw [swPrimSpeed_sym, swPrimSpeed_c2p, ← h0]; exact h2
    · rw [swPrimSpeed_c2p]; exact h1 (by omega)
  · unfold nbR
    split_ifs with h0
    · rw [swPrimSpeed_sym, swPrimSpeed_c2p]; exact h2
    · rw [swPrimSpeed_c2p]; exact h3 (by omega)

/-- depth of cell `i` of `q + dt • rhs q` -/
theorem sw_fo1Open_cell (g dt : ℝ) (fl : SwFlux) (m : Mesh1D ℝ) (lo hi : (ℕ → ℝ) → (ℕ → ℝ)) (hn : 0 < m.n)
    (q : ℕ → ℕ → ℝ) (i : ℕ) (hi' : i < m.n) :
    (q + dt • (swOpen g fl m lo hi).rhs q) 0 i
      = q 0 i - dt / m.vol i *
        (swFluxV g fl (swC2P (fun l => q l i)) (nbR m.n swC2P hi q i) 0
          - swFluxV g fl (nbL swC2P lo q i) (swC2P (fun l => q l i)) 0) := by
  simp only [Pi.add_apply, Pi.smul_apply, smul_eq_mul, swOpen, fo1Open_rhs m _ _ lo hi hn q _ i hi']
  ring

/-- **shallow water on the pipeline with open ends, forward Euler, `rusanov` and `hll` fluxes**: first-order
reconstruction, any mesh with positive cell volumes, ANY boundary kernels that return positive depths for
positive depths.  Positive depths and the cell CFL condition (ghost states at the ends) give positive depths. -/
theorem sw_fe_positive_open (g dt : ℝ) (hg : 0 < g) (hdt : 0 ≤ dt) (fl : SwFlux) (hfl : fl ≠ SwFlux.centered)
    (m : Mesh1D ℝ) (hn : 0 < m.n) (hvol : ∀ i, i < m.n → 0 < m.vol i) (lo hi : (ℕ → ℝ) → (ℕ → ℝ))
    (hlo : ∀ W, PAdmSW W → PAdmSW (lo W)) (hhi : ∀ W, PAdmSW W → PAdmSW (hi W)) (q : ℕ → ℕ → ℝ)
    (hq : SwAdmField m.n q) (hcfl : SwCellCFLOpen g dt m lo hi q) :
    SwAdmField m.n (q + dt • (swOpen g fl m lo hi).rhs q) := by
  intro i hi'
  have hν : 0 ≤ dt / m.vol i := div_nonneg hdt (hvol i hi').le
  obtain ⟨c1, c2, c3⟩ := hcfl i hi'
  rw [sw_fo1Open_cell g dt fl m lo hi hn q i hi']
  have hL : PAdmSW (nbL swC2P lo q i) := by
    unfold nbL
    split_ifs with h
    · exact hlo _ (hq 0 hn)
    · exact hq (i - 1) (by omega)
  have hR : PAdmSW (nbR m.n swC2P hi q i) := by
    unfold nbR
    split_ifs with h
    · exact hhi _ (hq i hi')
    · exact hq (i + 1) (by omega)
  generalize nbL swC2P lo q i = L at hL c1 ⊢
  generalize nbR m.n swC2P hi q i = R at hR c3 ⊢
  have hSl : dt / m.vol i * swRusS g (L 0) (L 1) (q 0 i) (q 1 i / q 0 i) ≤ 1 / 2 :=
    mul_max_le_of _ _ _ _ c1 c2
  have hSr : dt / m.vol i * swRusS g (q 0 i) (q 1 i / q 0 i) (R 0) (R 1) ≤ 1 / 2 :=
    mul_max_le_of _ _ _ _ c2 c3
  cases fl with
  | centered => exact absurd rfl hfl
  | rusanov =>
    exact swRusanov_step_positive g _ (L 0) (L 1) (q 0 i) (q 1 i / q 0 i) (R 0) (R 1)
      hg hν hL (hq i hi') hR hSl hSr
  | hll =>
    refine swHll_step_positive g _ (L 0) (L 1) (q 0 i) (q 1 i / q 0 i) (R 0) (R 1)
      hg hν hL (hq i hi') hR ?_
    have b1 := (swHll_speeds_le_rus g (L 0) (L 1) (q 0 i) (q 1 i / q 0 i)).2
    have b2 := (swHll_speeds_le_rus g (q 0 i) (q 1 i / q 0 i) (R 0) (R 1)).1
    have b3 := mul_le_mul_of_nonneg_left b1 hν
    have b4 := mul_le_mul_of_nonneg_left b2 hν
    rw [mul_sub]
    linarith

/-- **shallow water between slip walls, forward Euler** (`rusanov` / `hll`): positive depths and the cell CFL
condition `dt/vol_i (|u| + c) ≤ 1/2` on the cell and its existing neighbours give positive depths -/
theorem sw_fe_positive_walls (g dt : ℝ) (hg : 0 < g) (hdt : 0 ≤ dt) (fl : SwFlux) (hfl : fl ≠ SwFlux.centered)
    (m : Mesh1D ℝ) (hn : 0 < m.n) (hvol : ∀ i, i < m.n → 0 < m.vol i) (q : ℕ → ℕ → ℝ)
    (hq : SwAdmField m.n q) (hcfl : SwCellCFLWalls g dt m q) :
    SwAdmField m.n (q + dt • (swWalls g fl m).rhs q) :=
  sw_fe_positive_open g dt hg hdt fl hfl m hn hvol (swBC SwBC.sym) (swBC SwBC.sym)
    (fun W h => padmSW_mirror W h) (fun W h => padmSW_mirror W h) q hq (swCellCFLOpen_of_walls g dt m q hcfl)

/-- any pair of named shallow-water boundary conditions (`dirichlet` with positive depth, `sym`, `inf`) -/
theorem sw_fe_positive_named (g dt : ℝ) (hg : 0 < g) (hdt : 0 ≤ dt) (fl : SwFlux) (hfl : fl ≠ SwFlux.centered)
    (m : Mesh1D ℝ) (hn : 0 < m.n) (hvol : ∀ i, i < m.n → 0 < m.vol i) (bcL bcR : SwBC ℝ)
    (hbcL : SwBCAdm bcL) (hbcR : SwBCAdm bcR) (q : ℕ → ℕ → ℝ)
    (hq : SwAdmField m.n q) (hcfl : SwCellCFLOpen g dt m (swBC bcL) (swBC bcR) q) :
    SwAdmField m.n (q + dt • (swOpen g fl m (swBC bcL) (swBC bcR)).rhs q) :=
  sw_fe_positive_open g dt hg hdt fl hfl m hn hvol _ _ (swBC_padm bcL hbcL) (swBC_padm bcR hbcR) q hq hcfl

/-- on a uniform mesh, a time step not larger than the code's `swDt` of any cell with `cfl ≤ 1/2` satisfies the
wall cell CFL condition -/
theorem sw_cellCFLWalls_of_swDt (g cfl dt L x0 : ℝ) (n : ℕ) (hn : 0 < n) (hL : 0 < L) (hg : 0 < g)
    (hcfl : cfl ≤ 1 / 2) (q : ℕ → ℕ → ℝ) (hq : SwAdmField n q)
    (hle : ∀ j, j < n → dt ≤ swDt g cfl (L / n) (q 0 j) (q 1 j)) :
    SwCellCFLWalls g dt (uniMesh n L x0) q := by
  have hdx : 0 < L / (n : ℝ) := div_pos hL (Nat.cast_pos.mpr hn)
  have key : ∀ j, j < n → dt / (L / n) * swCellSpeed g q j ≤ 1 / 2 := by
    intro j hj
    have hs : 0 < swCellSpeed g q j := by
      unfold swCellSpeed
      have : 0 < Real.sqrt (g * q 0 j) := Real.sqrt_pos.mpr (mul_pos hg (hq j hj))
      have := abs_nonneg (q 1 j / q 0 j)
      simp only [HasSqrt.sqrt_real]; linarith
    have h1 : dt ≤ cfl * (L / n) / swCellSpeed g q j := hle j hj
    rw [le_div_iff₀ hs] at h1
    rw [div_mul_eq_mul_div, div_le_iff₀ hdx]
    nlinarith
  intro i hi'
  have hnn : (uniMesh n L x0).n = n := rfl
  rw [hnn] at hi' ⊢
  rw [uni_vol]
  exact ⟨fun h0 => key _ (by omega), key i hi', fun h1 => key _ h1⟩

/-- **shallow water between walls, the property as stated**: uniform mesh, `sym` at both ends, first-order scheme
with the `rusanov` or `hll` flux, `0 ≤ dt ≤ swDt_j` for every cell with `cfl ≤ 1/2`: one forward-Euler step keeps
every depth positive. -/
theorem sw_uniform_fe_positive_walls (g cfl dt L x0 : ℝ) (n : ℕ) (hn : 0 < n) (hL : 0 < L) (hg : 0 < g)
    (hdt : 0 ≤ dt) (hcfl : cfl ≤ 1 / 2) (fl : SwFlux) (hfl : fl ≠ SwFlux.centered) (q : ℕ → ℕ → ℝ)
    (hq : SwAdmField n q) (hle : ∀ j, j < n → dt ≤ swDt g cfl (L / n) (q 0 j) (q 1 j)) :
    SwAdmField n (q + dt • (swWalls g fl (uniMesh n L x0)).rhs q) := by
  have hdx : 0 < L / (n : ℝ) := div_pos hL (Nat.cast_pos.mpr hn)
  exact sw_fe_positive_walls g dt hg hdt fl hfl (uniMesh n L x0) hn (fun i _ => by rw [uni_vol]; exact hdx) q hq
    (sw_cellCFLWalls_of_swDt g cfl dt L x0 n hn hL hg hcfl q hq hle)

/-! ## 4. SSP integrators with open ends / walls -/

section ssp_open
open Flowdyn.C05 Flowdyn.Gen

/-- **Euler / HLLE, `rk2_heun`, open ends**: positivity is kept if the face condition holds at both stage states -/
theorem hlle_rk2_heun_positive_open (γ dt t : ℝ) (hγ : 1 < γ) (hdt : 0 ≤ dt) (m : Mesh1D ℝ) (hn : 0 < m.n)
    (hvol : ∀ i, i < m.n → 0 < m.vol i) (lo hi : (ℕ → ℝ) → (ℕ → ℝ))
    (hlo : ∀ W, PAdm W → PAdm (lo W)) (hhi : ∀ W, PAdm W → PAdm (hi W))
    (q : ℕ → ℕ → ℝ) (hq : EAdmField γ m.n q) (c0 : EFaceCFLOpen γ dt m lo hi q)
    (c1 : EFaceCFLOpen γ dt m lo hi (fe (fun _ v => (eulerHlleOpen γ m lo hi).rhs v) dt t q)) :
    EAdmField γ m.n (rkStep (castT butcher_rk2_heun) (fun _ v => (eulerHlleOpen γ m lo hi).rhs v) dt t q).data :=
  ssp_rk2_heun_inv (EAdmField γ m.n) (EFaceCFLOpen γ dt m lo hi) (eAdmField_add γ hγ m.n)
    (fun k x hk hx => eAdmField_smul γ hγ m.n k x hk hx) _ dt t q
    (fun _ v hv cv => hlle_fe_positive_open γ dt hγ hdt m hn hvol lo hi hlo hhi v hv cv) hq c0 c1

/-- **Euler / HLLE, `rk3ssp`, open ends**: the face condition at the three Shu-Osher stage states -/
theorem hlle_rk3ssp_positive_open (γ dt t : ℝ) (hγ : 1 < γ) (hdt : 0 ≤ dt) (m : Mesh1D ℝ) (hn : 0 < m.n)
    (hvol : ∀ i, i < m.n → 0 < m.vol i) (lo hi : (ℕ → ℝ) → (ℕ → ℝ))
    (hlo : ∀ W, PAdm W → PAdm (lo W)) (hhi : ∀ W, PAdm W → PAdm (hi W))
    (q : ℕ → ℕ → ℝ) (hq : EAdmField γ m.n q) (c0 : EFaceCFLOpen γ dt m lo hi q)
    (c1 : EFaceCFLOpen γ dt m lo hi (fe (fun _ v => (eulerHlleOpen γ m lo hi).rhs v) dt t q))
    (c2 : EFaceCFLOpen γ dt m lo hi ((3/4 : ℝ) • q + (1/4 : ℝ) •
            fe (fun _ v => (eulerHlleOpen γ m lo hi).rhs v) dt (t + dt * 1)
              (fe (fun _ v => (eulerHlleOpen γ m lo hi).rhs v) dt t q))) :
    EAdmField γ m.n (rkStep (castT butcher_rk3ssp) (fun _ v => (eulerHlleOpen γ m lo hi).rhs v) dt t q).data :=
  ssp_rk3ssp_inv (EAdmField γ m.n) (EFaceCFLOpen γ dt m lo hi) (eAdmField_add γ hγ m.n)
    (fun k x hk hx => eAdmField_smul γ hγ m.n k x hk hx) _ dt t q
    (fun _ v hv cv => hlle_fe_positive_open γ dt hγ hdt m hn hvol lo hi hlo hhi v hv cv) hq c0 c1 c2

/-- Euler / HLLE with the model's `explicitStep`, open ends -/
theorem hlle_explicit_positive_open (γ dt t : ℝ) (hγ : 1 < γ) (hdt : 0 ≤ dt) (m : Mesh1D ℝ) (hn : 0 < m.n)
    (hvol : ∀ i, i < m.n → 0 < m.vol i) (lo hi : (ℕ → ℝ) → (ℕ → ℝ))
    (hlo : ∀ W, PAdm W → PAdm (lo W)) (hhi : ∀ W, PAdm W → PAdm (hi W))
    (q : ℕ → ℕ → ℝ) (hq : EAdmField γ m.n q) (hcfl : EFaceCFLOpen γ dt m lo hi q) :
    EAdmField γ m.n (explicitStep (fun _ v => (eulerHlleOpen γ m lo hi).rhs v) dt t q).data := by
  rw [(C05.explicit_step (fun _ v => (eulerHlleOpen γ m lo hi).rhs v) dt t q).2.1]
  exact hlle_fe_positive_open γ dt hγ hdt m hn hvol lo hi hlo hhi q hq hcfl

/-- **Euler / HLLE between slip walls, `rk2_heun`** -/
theorem hlle_rk2_heun_positive_walls (γ dt t : ℝ) (hγ : 1 < γ) (hdt : 0 ≤ dt) (m : Mesh1D ℝ) (hn : 0 < m.n)
    (hvol : ∀ i, i < m.n → 0 < m.vol i) (q : ℕ → ℕ → ℝ) (hq : EAdmField γ m.n q)
    (c0 : EFaceCFLWalls γ dt m q)
    (c1 : EFaceCFLWalls γ dt m (fe (fun _ v => (eulerHlleWalls γ m).rhs v) dt t q)) :
    EAdmField γ m.n (rkStep (castT butcher_rk2_heun) (fun _ v => (eulerHlleWalls γ m).rhs v) dt t q).data :=
  hlle_rk2_heun_positive_open γ dt t hγ hdt m hn hvol _ _ (eulerSym_padm γ (-1)) (eulerSym_padm γ 1) q hq c0 c1

/-- **Euler / HLLE between slip walls, `rk3ssp`** -/
theorem hlle_rk3ssp_positive_walls (γ dt t : ℝ) (hγ : 1 < γ) (hdt : 0 ≤ dt) (m : Mesh1D ℝ) (hn : 0 < m.n)
    (hvol : ∀ i, i < m.n → 0 < m.vol i) (q : ℕ → ℕ → ℝ) (hq : EAdmField γ m.n q)
    (c0 : EFaceCFLWalls γ dt m q)
    (c1 : EFaceCFLWalls γ dt m (fe (fun _ v => (eulerHlleWalls γ m).rhs v) dt t q))
    (c2 : EFaceCFLWalls γ dt m ((3/4 : ℝ) • q + (1/4 : ℝ) • fe (fun _ v => (eulerHlleWalls γ m).rhs v) dt (t + dt * 1)
            (fe (fun _ v => (eulerHlleWalls γ m).rhs v) dt t q))) :
    EAdmField γ m.n (rkStep (castT butcher_rk3ssp) (fun _ v => (eulerHlleWalls γ m).rhs v) dt t q).data :=
  hlle_rk3ssp_positive_open γ dt t hγ hdt m hn hvol _ _ (eulerSym_padm γ (-1)) (eulerSym_padm γ 1) q hq c0 c1 c2

/-- Euler / HLLE between slip walls with the model's `explicitStep` -/
theorem hlle_explicit_positive_walls (γ dt t : ℝ) (hγ : 1 < γ) (hdt : 0 ≤ dt) (m : Mesh1D ℝ) (hn : 0 < m.n)
    (hvol : ∀ i, i < m.n → 0 < m.vol i) (q : ℕ → ℕ → ℝ) (hq : EAdmField γ m.n q)
    (hcfl : EFaceCFLWalls γ dt m q) :
    EAdmField γ m.n (explicitStep (fun _ v => (eulerHlleWalls γ m).rhs v) dt t q).data :=
  hlle_explicit_positive_open γ dt t hγ hdt m hn hvol _ _ (eulerSym_padm γ (-1)) (eulerSym_padm γ 1) q hq hcfl

/-- **shallow water, `rk2_heun`, open ends** (`rusanov` / `hll`) -/
theorem sw_rk2_heun_positive_open (g dt t : ℝ) (hg : 0 < g) (hdt : 0 ≤ dt) (fl : SwFlux)
    (hfl : fl ≠ SwFlux.centered) (m : Mesh1D ℝ) (hn : 0 < m.n) (hvol : ∀ i, i < m.n → 0 < m.vol i)
    (lo hi : (ℕ → ℝ) → (ℕ → ℝ)) (hlo : ∀ W, PAdmSW W → PAdmSW (lo W)) (hhi : ∀ W, PAdmSW W → PAdmSW (hi W))
    (q : ℕ → ℕ → ℝ) (hq : SwAdmField m.n q) (c0 : SwCellCFLOpen g dt m lo hi q)
    (c1 : SwCellCFLOpen g dt m lo hi (fe (fun _ v => (swOpen g fl m lo hi).rhs v) dt t q)) :
    SwAdmField m.n (rkStep (castT butcher_rk2_heun) (fun _ v => (swOpen g fl m lo hi).rhs v) dt t q).data :=
  ssp_rk2_heun_inv (SwAdmField m.n) (SwCellCFLOpen g dt m lo hi) (swAdmField_add m.n)
    (fun k x hk hx => swAdmField_smul m.n k x hk hx) _ dt t q
    (fun _ v hv cv => sw_fe_positive_open g dt hg hdt fl hfl m hn hvol lo hi hlo hhi v hv cv) hq c0 c1

/-- **shallow water, `rk3ssp`, open ends** (`rusanov` / `hll`) -/
theorem sw_rk3ssp_positive_open (g dt t : ℝ) (hg : 0 < g) (hdt : 0 ≤ dt) (fl : SwFlux)
    (hfl : fl ≠ SwFlux.centered) (m : Mesh1D ℝ) (hn : 0 < m.n) (hvol : ∀ i, i < m.n → 0 < m.vol i)
    (lo hi : (ℕ → ℝ) → (ℕ → ℝ)) (hlo : ∀ W, PAdmSW W → PAdmSW (lo W)) (hhi : ∀ W, PAdmSW W → PAdmSW (hi W))
    (q : ℕ → ℕ → ℝ) (hq : SwAdmField m.n q) (c0 : SwCellCFLOpen g dt m lo hi q)
    (c1 : SwCellCFLOpen g dt m lo hi (fe (fun _ v => (swOpen g fl m lo hi).rhs v) dt t q))
    (c2 : SwCellCFLOpen g dt m lo hi ((3/4 : ℝ) • q + (1/4 : ℝ) •
            fe (fun _ v => (swOpen g fl m lo hi).rhs v) dt (t + dt * 1)
              (fe (fun _ v => (swOpen g fl m lo hi).rhs v) dt t q))) :
    SwAdmField m.n (rkStep (castT butcher_rk3ssp) (fun _ v => (swOpen g fl m lo hi).rhs v) dt t q).data :=
  ssp_rk3ssp_inv (SwAdmField m.n) (SwCellCFLOpen g dt m lo hi) (swAdmField_add m.n)
    (fun k x hk hx => swAdmField_smul m.n k x hk hx) _ dt t q
    (fun _ v hv cv => sw_fe_positive_open g dt hg hdt fl hfl m hn hvol lo hi hlo hhi v hv cv) hq c0 c1 c2

/-- shallow water with the model's `explicitStep`, open ends -/
theorem sw_explicit_positive_open (g dt t : ℝ) (hg : 0 < g) (hdt : 0 ≤ dt) (fl : SwFlux)
    (hfl : fl ≠ SwFlux.centered) (m : Mesh1D ℝ) (hn : 0 < m.n) (hvol : ∀ i, i < m.n → 0 < m.vol i)
    (lo hi : (ℕ → ℝ) → (ℕ → ℝ)) (hlo : ∀ W, PAdmSW W → PAdmSW (lo W)) (hhi : ∀ W, PAdmSW W → PAdmSW (hi W))
    (q : ℕ → ℕ → ℝ) (hq : SwAdmField m.n q) (hcfl : SwCellCFLOpen g dt m lo hi q) :
    SwAdmField m.n (explicitStep (fun _ v => (swOpen g fl m lo hi).rhs v) dt t q).data := by
  rw [(C05.explicit_step (fun _ v => (swOpen g fl m lo hi).rhs v) dt t q).2.1]
  exact sw_fe_positive_open g dt hg hdt fl hfl m hn hvol lo hi hlo hhi q hq hcfl

/-- **shallow water between slip walls, `rk2_heun`**: the wall cell CFL condition (cells only) at both stages -/
theorem sw_rk2_heun_positive_walls (g dt t : ℝ) (hg : 0 < g) (hdt : 0 ≤ dt) (fl : SwFlux)
    (hfl : fl ≠ SwFlux.centered) (m : Mesh1D ℝ) (hn : 0 < m.n) (hvol : ∀ i, i < m.n → 0 < m.vol i)
    (q : ℕ → ℕ → ℝ) (hq : SwAdmField m.n q) (c0 : SwCellCFLWalls g dt m q)
    (c1 : SwCellCFLWalls g dt m (fe (fun _ v => (swWalls g fl m).rhs v) dt t q)) :
    SwAdmField m.n (rkStep (castT butcher_rk2_heun) (fun _ v => (swWalls g fl m).rhs v) dt t q).data :=
  ssp_rk2_heun_inv (SwAdmField m.n) (SwCellCFLWalls g dt m) (swAdmField_add m.n)
    (fun k x hk hx => swAdmField_smul m.n k x hk hx) _ dt t q
    (fun _ v hv cv => sw_fe_positive_walls g dt hg hdt fl hfl m hn hvol v hv cv) hq c0 c1

/-- **shallow water between slip walls, `rk3ssp`** -/
theorem sw_rk3ssp_positive_walls (g dt t : ℝ) (hg : 0 < g) (hdt : 0 ≤ dt) (fl : SwFlux)
    (hfl : fl ≠ SwFlux.centered) (m : Mesh1D ℝ) (hn : 0 < m.n) (hvol : ∀ i, i < m.n → 0 < m.vol i)
    (q : ℕ → ℕ → ℝ) (hq : SwAdmField m.n q) (c0 : SwCellCFLWalls g dt m q)
    (c1 : SwCellCFLWalls g dt m (fe (fun _ v => (swWalls g fl m).rhs v) dt t q))
    (c2 : SwCellCFLWalls g dt m ((3/4 : ℝ) • q + (1/4 : ℝ) • fe (fun _ v => (swWalls g fl m).rhs v) dt (t + dt * 1)
            (fe (fun _ v => (swWalls g fl m).rhs v) dt t q))) :
    SwAdmField m.n (rkStep (castT butcher_rk3ssp) (fun _ v => (swWalls g fl m).rhs v) dt t q).data :=
  ssp_rk3ssp_inv (SwAdmField m.n) (SwCellCFLWalls g dt m) (swAdmField_add m.n)
    (fun k x hk hx => swAdmField_smul m.n k x hk hx) _ dt t q
    (fun _ v hv cv => sw_fe_positive_walls g dt hg hdt fl hfl m hn hvol v hv cv) hq c0 c1 c2

/-- shallow water between slip walls with the model's `explicitStep` -/
theorem sw_explicit_positive_walls (g dt t : ℝ) (hg : 0 < g) (hdt : 0 ≤ dt) (fl : SwFlux)
    (hfl : fl ≠ SwFlux.centered) (m : Mesh1D ℝ) (hn : 0 < m.n) (hvol : ∀ i, i < m.n → 0 < m.vol i)
    (q : ℕ → ℕ → ℝ) (hq : SwAdmField m.n q) (hcfl : SwCellCFLWalls g dt m q) :
    SwAdmField m.n (explicitStep (fun _ v => (swWalls g fl m).rhs v) dt t q).data := by
  rw [(C05.explicit_step (fun _ v => (swWalls g fl m).rhs v) dt t q).2.1]
  exact sw_fe_positive_walls g dt hg hdt fl hfl m hn hvol q hq hcfl

end ssp_open

/-! ## non-vacuity (three cells between slip walls, `uniMesh 3 1 0`, `dx = 1/3`) -/

section examples
open Flowdyn.C05 Flowdyn.Gen

/-- Euler: the uniform flow `(ρ,u,p) = (7/5, 5, 4)` (`c = 2`, Mach 2.5) started between two walls; conservative
`(7/5, 7, 55/2)` in every cell.  Not a steady state: the flow runs into the right wall and away from the left one. -/
noncomputable def exEulerW : ℕ → ℕ → ℝ := fun k _ => if k = 0 then 7/5 else if k = 1 then 7 else 55/2

theorem exEulerW_adm : EAdmField (7/5) 3 exEulerW := by
  intro i _
  norm_num [exEulerW, ePressure, eKinetic]

theorem exEulerW_prim (c : ℕ) : eulerC2P (7/5) (fun l => exEulerW l c) = vec3 (7/5, 5, 4) := by
  unfold eulerC2P
  congr 1
  norm_num [exEulerW, eCons2prim, ePressure, eKinetic]

/-- the code's speeds: left wall face `sR = 7` (Roe state `u = 0`, `c̃ = 3`), interior faces `sL = 0`, `sR = 7`,
right wall face `sL = -3`; `dt/dx = 1/10`, equality in the face condition of the cell at the right wall -/
theorem exEulerW_cfl : EFaceCFLWalls (7/5) (1/30) (uniMesh 3 1 0) exEulerW := by
  have s1 : hlleSR (7/5) (7/5) (-5) 4 (7/5) 5 4 = 7 := by
    unfold hlleSR eRoe; simp only [HasSqrt.sqrt_real]; norm_num
  have s2 : hlleSL (7/5) (7/5) 5 4 (7/5) 5 4 = 0 := by
    unfold hlleSL eRoe; simp only [HasSqrt.sqrt_real]; norm_num
  have s3 : hlleSR (7/5) (7/5) 5 4 (7/5) 5 4 = 7 := by
    unfold hlleSR eRoe; simp only [HasSqrt.sqrt_real]; norm_num
  have s4 : hlleSL (7/5) (7/5) 5 4 (7/5) (-5) 4 = -3 := by
    unfold hlleSL eRoe; simp only [HasSqrt.sqrt_real]; norm_num
  have hnn : (uniMesh 3 (1:ℝ) 0).n = 3 := rfl
  intro i hi'
  rw [hnn] at hi'
  rw [uni_vol]
  unfold nbL nbR hlleSRv hlleSLv
  simp only [exEulerW_prim, hnn]
  interval_cases i <;> norm_num [eulerBC, vec3, eBcSym, s1, s2, s3, s4]

/-- non-vacuity of `hlle_fe_positive_walls` (flow against a wall, `dt > 0`, three cells) -/
example : EAdmField (7/5) 3 (exEulerW + (1/30 : ℝ) • (eulerHlleWalls (7/5) (uniMesh 3 1 0)).rhs exEulerW) :=
  hlle_fe_positive_walls (7/5) (1/30) (by norm_num) (by norm_num) (uniMesh 3 1 0) (by decide)
    (fun i _ => by rw [uni_vol]; norm_num) exEulerW exEulerW_adm exEulerW_cfl

/-- non-vacuity of `hlle_fe_positive_open` / `hlle_fe_positive_named` with a wall on the left and the supersonic
outlet `outsup` on the right (the ghost state is the cell state: right face speed `sL = 0`) -/
example : EAdmField (7/5) 3 (exEulerW + (1/30 : ℝ) •
    (eulerHlleOpen (7/5) (uniMesh 3 1 0) (eulerBC (7/5) (-1) EulerBC.sym) (eulerBC (7/5) 1 EulerBC.outsup)).rhs
      exEulerW) := by
  refine hlle_fe_positive_wall_left (7/5) (1/30) (by norm_num) (by norm_num) (uniMesh 3 1 0) (by decide)
    (fun i _ => by rw [uni_vol]; norm_num) EulerBC.outsup trivial exEulerW exEulerW_adm ?_
  have s1 : hlleSR (7/5) (7/5) (-5) 4 (7/5) 5 4 = 7 := by
    unfold hlleSR eRoe; simp only [HasSqrt.sqrt_real]; norm_num
  have s2 : hlleSL (7/5) (7/5) 5 4 (7/5) 5 4 = 0 := by
    unfold hlleSL eRoe; simp only [HasSqrt.sqrt_real]; norm_num
  have s3 : hlleSR (7/5) (7/5) 5 4 (7/5) 5 4 = 7 := by
    unfold hlleSR eRoe; simp only [HasSqrt.sqrt_real]; norm_num
  have hnn : (uniMesh 3 (1:ℝ) 0).n = 3 := rfl
  intro i hi'
  rw [hnn] at hi'
  rw [uni_vol]
  unfold nbL nbR hlleSRv hlleSLv
  simp only [exEulerW_prim, hnn]
  interval_cases i <;> norm_num [eulerBC, vec3, eBcSym, eBcOutsup, s1, s2, s3]

/-- the closed form of the wall speeds on the example: `c̃ = 3`, `sR(left wall) = 7`, `sL(right wall) = -3` -/
example : hlleSR (7/5) (7/5) (-5) 4 (7/5) 5 4 = 7 ∧ hlleSL (7/5) (7/5) 5 4 (7/5) (-5) 4 = -3 := by
  obtain ⟨e1, e2⟩ := hlle_wall_speeds (7/5) (7/5) 5 4 (by norm_num)
  have hc : wallRoeC (7/5) (7/5) 5 4 = 3 := by unfold wallRoeC; norm_num
  rw [e1, e2, hc]
  norm_num

/-- three-cell shallow-water field between walls (conservative `(h, q)`): cells `(4, 4)`, `(1, 0)`, `(4, -4)`
(`u = 1, 0, -1`: both outer columns run towards the shallow middle cell and away from the walls) -/
noncomputable def exSw3 : ℕ → ℕ → ℝ :=
  fun k i => if k = 0 then (if i = 1 then 1 else 4) else (if i = 0 then 4 else if i = 1 then 0 else -4)

theorem exSw3_adm : SwAdmField 3 exSw3 := by
  intro i hi'
  interval_cases i <;> norm_num [exSw3]

theorem exSw3_speed0 : swCellSpeed 1 exSw3 0 = 3 := by
  unfold swCellSpeed; simp only [HasSqrt.sqrt_real]; norm_num [exSw3]
theorem exSw3_speed1 : swCellSpeed 1 exSw3 1 = 1 := by
  unfold swCellSpeed; simp only [HasSqrt.sqrt_real]; norm_num [exSw3]
theorem exSw3_speed2 : swCellSpeed 1 exSw3 2 = 3 := by
  unfold swCellSpeed; simp only [HasSqrt.sqrt_real]; norm_num [exSw3, abs_of_nonneg]

/-- the wall cell CFL condition on the three-cell uniform mesh follows from the three cell conditions -/
theorem swCellCFLWalls_three (g dt : ℝ) (q : ℕ → ℕ → ℝ) (h0 : dt / (1 / ((3:ℕ):ℝ)) * swCellSpeed g q 0 ≤ 1/2)
    (h1 : dt / (1 / ((3:ℕ):ℝ)) * swCellSpeed g q 1 ≤ 1/2) (h2 : dt / (1 / ((3:ℕ):ℝ)) * swCellSpeed g q 2 ≤ 1/2) :
    SwCellCFLWalls g dt (uniMesh 3 1 0) q := by
  intro i hi'
  change i < 3 at hi'
  rw [uni_vol]
  change (0 < i → _ * swCellSpeed g q (i - 1) ≤ 1 / 2) ∧ _ * swCellSpeed g q i ≤ 1 / 2 ∧
    (i + 1 < 3 → _ * swCellSpeed g q (i + 1) ≤ 1 / 2)
  interval_cases i
  · exact ⟨fun h => absurd h (by decide), h0, fun _ => h1⟩
  · exact ⟨fun _ => h0, h1, fun _ => h2⟩
  · exact ⟨fun _ => h1, h2, fun h => absurd h (by decide)⟩

/-- `dt/dx = 1/6`, largest cell speed 3: equality in the cell CFL condition -/
theorem exSw3_cfl : SwCellCFLWalls 1 (1/18) (uniMesh 3 1 0) exSw3 := by
  apply swCellCFLWalls_three <;> norm_num [exSw3_speed0, exSw3_speed1, exSw3_speed2]

/-- non-vacuity of `sw_fe_positive_walls` (both fluxes, non-uniform data, non-zero velocity at both walls, `dt > 0`) -/
example (fl : SwFlux) (hfl : fl ≠ SwFlux.centered) :
    SwAdmField 3 (exSw3 + (1/18 : ℝ) • (swWalls 1 fl (uniMesh 3 1 0)).rhs exSw3) :=
  sw_fe_positive_walls 1 (1/18) (by norm_num) (by norm_num) fl hfl (uniMesh 3 1 0) (by decide)
    (fun i _ => by rw [uni_vol]; norm_num) exSw3 exSw3_adm exSw3_cfl

/-- non-vacuity of `sw_uniform_fe_positive_walls`: `dt = 1/18 = min_j swDt_j` with `cfl = 1/2` -/
example (fl : SwFlux) (hfl : fl ≠ SwFlux.centered) :
    SwAdmField 3 (exSw3 + (1/18 : ℝ) • (swWalls 1 fl (uniMesh 3 1 0)).rhs exSw3) := by
  refine sw_uniform_fe_positive_walls 1 (1/2) (1/18) 1 0 3 (by decide) (by norm_num) (by norm_num) (by norm_num)
    le_rfl fl hfl exSw3 exSw3_adm ?_
  intro j hj
  have e : ∀ j, swDt 1 (1/2) (1 / ((3:ℕ):ℝ)) (exSw3 0 j) (exSw3 1 j)
      = (1/2) * (1 / ((3:ℕ):ℝ)) / swCellSpeed 1 exSw3 j := fun j => rfl
  rw [e]
  interval_cases j
  · rw [exSw3_speed0]; norm_num
  · rw [exSw3_speed1]; norm_num
  · rw [exSw3_speed2]; norm_num

/-- non-vacuity of `sw_fe_positive_named`: wall on the left, `inf` (copy) on the right, same data -/
example (fl : SwFlux) (hfl : fl ≠ SwFlux.centered) :
    SwAdmField 3 (exSw3 + (1/18 : ℝ) • (swOpen 1 fl (uniMesh 3 1 0) (swBC SwBC.sym) (swBC SwBC.inf)).rhs exSw3) := by
  refine sw_fe_positive_named 1 (1/18) (by norm_num) (by norm_num) fl hfl (uniMesh 3 1 0) (by decide)
    (fun i _ => by rw [uni_vol]; norm_num) SwBC.sym SwBC.inf trivial trivial exSw3 exSw3_adm ?_
  have hw := swCellCFLOpen_of_walls 1 (1/18) (uniMesh 3 1 0) exSw3 exSw3_cfl
  intro i hi'
  obtain ⟨h1, h2, h3⟩ := hw i hi'
  refine ⟨h1, h2, ?_⟩
  unfold nbR at h3 ⊢
  split_ifs at h3 ⊢ with h0
  · rw [swPrimSpeed_sym] at h3; exact h3
  · exact h3

/-! ### non-vacuity of the SSP lifts -/

/-- the neighbour states only see the cells `< n` -/
theorem nbL_congr {ι : Type} (c2p lo : (ι → ℝ) → (ι → ℝ)) (n : ℕ) (hn : 0 < n) (q q' : ι → ℕ → ℝ)
    (h : ∀ k c, c < n → q k c = q' k c) (i : ℕ) (hi' : i < n) : nbL c2p lo q i = nbL c2p lo q' i := by
  unfold nbL
  split_ifs with h0
  · rw [show (fun l => q l 0) = (fun l => q' l 0) from funext fun l => h l 0 hn]
  · rw [show (fun l => q l (i - 1)) = (fun l => q' l (i - 1)) from funext fun l => h l _ (by omega)]

theorem nbR_congr {ι : Type} (c2p hi : (ι → ℝ) → (ι → ℝ)) (n : ℕ) (q q' : ι → ℕ → ℝ)
    (h : ∀ k c, c < n → q k c = q' k c) (i : ℕ) (hi' : i < n) : nbR n c2p hi q i = nbR n c2p hi q' i := by
  unfold nbR
  split_ifs with h0
  · rw [show (fun l => q l i) = (fun l => q' l i) from funext fun l => h l i hi']
  · rw [show (fun l => q l (i + 1)) = (fun l => q' l (i + 1)) from funext fun l => h l _ (by omega)]

/-- the face condition only sees the cells `< n` -/
theorem eFaceCFLOpen_congr (γ dt : ℝ) (m : Mesh1D ℝ) (hn : 0 < m.n) (lo hi : (ℕ → ℝ) → (ℕ → ℝ))
    (q q' : ℕ → ℕ → ℝ) (h : ∀ k c, c < m.n → q k c = q' k c) (H : EFaceCFLOpen γ dt m lo hi q) :
    EFaceCFLOpen γ dt m lo hi q' := by
  intro i hi'
  have := H i hi'
  rw [nbL_congr _ lo m.n hn q q' h i hi', nbR_congr _ hi m.n q q' h i hi',
    show (fun l => q l i) = (fun l => q' l i) from funext fun l => h l i hi'] at this
  exact this

/-- the wall cell CFL condition only sees the cells `< n` -/
theorem swCellCFLWalls_congr (g dt : ℝ) (m : Mesh1D ℝ) (q q' : ℕ → ℕ → ℝ)
    (h : ∀ k c, c < m.n → q k c = q' k c) (H : SwCellCFLWalls g dt m q) : SwCellCFLWalls g dt m q' := by
  intro i hi'
  obtain ⟨h1, h2, h3⟩ := H i hi'
  unfold swCellSpeed at *
  refine ⟨fun h0 => ?_, ?_, fun h0 => ?_⟩
  · rw [← h 0 (i - 1) (by omega), ← h 1 (i - 1) (by omega)]; exact h1 h0
  · rw [← h 0 i hi', ← h 1 i hi']; exact h2
  · rw [← h 0 (i + 1) h0, ← h 1 (i + 1) h0]; exact h3 h0

/-- a forward-Euler step of the first-order pipeline with open ends leaves a uniform field unchanged on the cells
`< n` when both boundary kernels fix its primitive state -/
theorem fe_fo1Open_const {ι : Type} (m : Mesh1D ℝ) (c2p : (ι → ℝ) → (ι → ℝ)) (Φ : (ι → ℝ) → (ι → ℝ) → (ι → ℝ))
    (lo hi : (ι → ℝ) → (ι → ℝ)) (hn : 0 < m.n) (dt t : ℝ) (q : ι → ℕ → ℝ) (W : ι → ℝ)
    (hq : ∀ i, i < m.n → c2p (fun l => q l i) = W) (hlo : lo W = W) (hhi : hi W = W) (k : ι) (c : ℕ)
    (hc : c < m.n) : fe (fun _ v => (fo1Open m c2p Φ lo hi).rhs v) dt t q k c = q k c := by
  unfold fe
  simp only [Pi.add_apply, Pi.smul_apply, smul_eq_mul, fo1Open_rhs_const m c2p Φ lo hi hn q W hq hlo hhi k c hc,
    mul_zero, add_zero]

/-- gas at rest between walls: `(ρ,u,p) = (7/5, 0, 1)` in three cells, conservative `(7/5, 0, 5/2)` -/
noncomputable def exEulerR : ℕ → ℕ → ℝ := fun k _ => if k = 0 then 7/5 else if k = 1 then 0 else 5/2

theorem exEulerR_adm : EAdmField (7/5) 3 exEulerR := by
  intro i _
  norm_num [exEulerR, ePressure, eKinetic]

theorem exEulerR_prim (c : ℕ) : eulerC2P (7/5) (fun l => exEulerR l c) = vec3 (7/5, 0, 1) := by
  unfold eulerC2P
  congr 1
  norm_num [exEulerR, eCons2prim, ePressure, eKinetic]

theorem eulerSym_rest (γ dir r p : ℝ) : eulerBC γ dir EulerBC.sym (vec3 (r, 0, p)) = vec3 (r, 0, p) := by
  show vec3 (r, -0, p) = vec3 (r, 0, p)
  rw [neg_zero]

/-- speeds `sR = 1`, `sL = -1` at every face (walls included), `dt/dx = 1/2`: equality in the face condition -/
theorem exEulerR_cfl : EFaceCFLWalls (7/5) (1/6) (uniMesh 3 1 0) exEulerR := by
  have s1 : hlleSR (7/5) (7/5) 0 1 (7/5) 0 1 = 1 := by
    unfold hlleSR eRoe; simp only [HasSqrt.sqrt_real]; norm_num
  have s2 : hlleSL (7/5) (7/5) 0 1 (7/5) 0 1 = -1 := by
    unfold hlleSL eRoe; simp only [HasSqrt.sqrt_real]; norm_num
  have hnn : (uniMesh 3 (1:ℝ) 0).n = 3 := rfl
  intro i hi'
  rw [hnn] at hi'
  rw [uni_vol]
  unfold nbL nbR hlleSRv hlleSLv
  simp only [exEulerR_prim, hnn, eulerSym_rest]
  interval_cases i <;> norm_num [vec3, s1, s2]

/-- non-vacuity of `hlle_rk2_heun_positive_walls` and `hlle_rk3ssp_positive_walls`: all stage conditions hold (gas at
rest, `dt > 0`; with moving gas the stage states have irrational Roe speeds, not attempted) -/
example (t : ℝ) :
    EAdmField (7/5) 3 (rkStep (castT butcher_rk2_heun)
      (fun _ v => (eulerHlleWalls (7/5) (uniMesh 3 1 0)).rhs v) (1/6) t exEulerR).data
    ∧ EAdmField (7/5) 3 (rkStep (castT butcher_rk3ssp)
      (fun _ v => (eulerHlleWalls (7/5) (uniMesh 3 1 0)).rhs v) (1/6) t exEulerR).data := by
  have hn : 0 < (uniMesh 3 (1:ℝ) 0).n := by decide
  have e1 : ∀ (s : ℝ) (k c : ℕ), c < (uniMesh 3 (1:ℝ) 0).n →
      fe (fun _ v => (eulerHlleWalls (7/5) (uniMesh 3 1 0)).rhs v) (1/6 : ℝ) s exEulerR k c = exEulerR k c :=
    fun s k c hc => fe_fo1Open_const _ _ _ _ _ hn _ s _ (vec3 (7/5, 0, 1)) (fun i _ => exEulerR_prim i)
      (eulerSym_rest _ _ _ _) (eulerSym_rest _ _ _ _) k c hc
  have e2 : ∀ (s s' : ℝ) (k c : ℕ), c < (uniMesh 3 (1:ℝ) 0).n →
      fe (fun _ v => (eulerHlleWalls (7/5) (uniMesh 3 1 0)).rhs v) (1/6 : ℝ) s'
        (fe (fun _ v => (eulerHlleWalls (7/5) (uniMesh 3 1 0)).rhs v) (1/6 : ℝ) s exEulerR) k c = exEulerR k c := by
    intro s s' k c hc
    rw [show eulerHlleWalls (7/5) (uniMesh 3 1 0) = fo1Open _ _ _ _ _ from rfl,
      fe_fo1Open_const _ _ _ _ _ hn _ s' _ (vec3 (7/5, 0, 1)) (fun i hi' => ?_)
        (eulerSym_rest _ _ _ _) (eulerSym_rest _ _ _ _) k c hc]
    · exact e1 s k c hc
    · rw [← exEulerR_prim i]
      congr 1
      funext l
      exact e1 s l i hi'
  have c1 := eFaceCFLOpen_congr (7/5) (1/6) (uniMesh 3 1 0) hn _ _ _ _ (fun k c hc => (e1 t k c hc).symm)
    exEulerR_cfl
  have c2 := eFaceCFLOpen_congr (7/5) (1/6) (uniMesh 3 1 0) hn _ _ exEulerR
    ((3/4 : ℝ) • exEulerR + (1/4 : ℝ) • fe (fun _ v => (eulerHlleWalls (7/5) (uniMesh 3 1 0)).rhs v) (1/6)
      (t + 1/6 * 1) (fe (fun _ v => (eulerHlleWalls (7/5) (uniMesh 3 1 0)).rhs v) (1/6) t exEulerR))
    (fun k c hc => by
      simp only [Pi.add_apply, Pi.smul_apply, smul_eq_mul, e2 t _ k c hc]; ring) exEulerR_cfl
  exact ⟨hlle_rk2_heun_positive_walls (7/5) (1/6) t (by norm_num) (by norm_num) (uniMesh 3 1 0) hn
      (fun i _ => by rw [uni_vol]; norm_num) exEulerR exEulerR_adm exEulerR_cfl c1,
    hlle_rk3ssp_positive_walls (7/5) (1/6) t (by norm_num) (by norm_num) (uniMesh 3 1 0) hn
      (fun i _ => by rw [uni_vol]; norm_num) exEulerR exEulerR_adm exEulerR_cfl c1 c2⟩

/-- the forward-Euler state of `exSw3` between walls with the Rusanov flux (`dt/dx = 1/6`): cells
`(h, q) = (35/12, 47/24)`, `(19/6, 0)`, `(35/12, -47/24)` -/
theorem exSw3_fe (t : ℝ) (k i : ℕ) (hi' : i < 3) :
    fe (fun _ v => (swWalls 1 SwFlux.rusanov (uniMesh 3 1 0)).rhs v) (1/18) t exSw3 k i
      = if k = 0 then (if i = 1 then 19/6 else 35/12) else (if i = 0 then 47/24 else if i = 1 then 0 else -47/24) := by
  have hnn : (uniMesh 3 (1:ℝ) 0).n = 3 := rfl
  unfold fe
  simp only [Pi.add_apply, Pi.smul_apply, smul_eq_mul, swWalls, swOpen]
  rw [fo1Open_rhs _ _ _ _ _ (by decide) _ _ i hi', uni_vol]
  simp only [hnn]
  rcases k with _ | k <;> interval_cases i <;>
    norm_num [nbL, nbR, swBC, swBcSym, swFluxV, swC2P, vec2, swRusanov, swRusanovG, swCons2prim, exSw3]

/-- stage 2 of `rk2_heun`: speeds `47/70 + √(35/12)`, `√(19/6)`, all `≤ 3` -/
theorem exSw3_cfl1 (t : ℝ) : SwCellCFLWalls 1 (1/18) (uniMesh 3 1 0)
    (fe (fun _ v => (swWalls 1 SwFlux.rusanov (uniMesh 3 1 0)).rhs v) (1/18) t exSw3) := by
  have k0 := swCellSpeed_le 1 _ 0 (35/12) (47/24) 2 3 (exSw3_fe t 0 0 (by norm_num)) (exSw3_fe t 1 0 (by norm_num))
    (by norm_num) (by norm_num) (by norm_num [abs_of_nonneg])
  have k1 := swCellSpeed_le 1 _ 1 (19/6) 0 2 3 (exSw3_fe t 0 1 (by norm_num)) (exSw3_fe t 1 1 (by norm_num))
    (by norm_num) (by norm_num) (by norm_num)
  have k2 := swCellSpeed_le 1 _ 2 (35/12) (-47/24) 2 3 (exSw3_fe t 0 2 (by norm_num)) (exSw3_fe t 1 2 (by norm_num))
    (by norm_num) (by norm_num) (by norm_num [abs_of_nonneg])
  apply swCellCFLWalls_three <;> norm_num <;> linarith

/-- non-vacuity of `sw_rk2_heun_positive_walls` (Rusanov flux, non-uniform data with non-zero wall velocities,
`dt > 0`, both stage conditions verified on the computed stage state) -/
example (t : ℝ) :
    SwAdmField 3 (rkStep (castT butcher_rk2_heun)
      (fun _ v => (swWalls 1 SwFlux.rusanov (uniMesh 3 1 0)).rhs v) (1/18) t exSw3).data :=
  sw_rk2_heun_positive_walls 1 (1/18) t (by norm_num) (by norm_num) SwFlux.rusanov (fun h => by cases h)
    (uniMesh 3 1 0) (by decide) (fun i _ => by rw [uni_vol]; norm_num) exSw3 exSw3_adm exSw3_cfl (exSw3_cfl1 t)

/-- water at rest between walls: depth 4 in three cells -/
noncomputable def exSwR : ℕ → ℕ → ℝ := fun k _ => if k = 0 then 4 else 0

theorem exSwR_prim (c : ℕ) : swC2P (fun l => exSwR l c) = vec2 (4, 0) := by
  unfold swC2P
  congr 1
  norm_num [exSwR, swCons2prim]

theorem swSym_rest (h : ℝ) : swBC SwBC.sym (vec2 (h, 0)) = vec2 (h, 0) := by
  show vec2 (h, -0) = vec2 (h, 0)
  rw [neg_zero]

theorem exSwR_cfl : SwCellCFLWalls 1 (1/12) (uniMesh 3 1 0) exSwR := by
  have hs : ∀ j, swCellSpeed 1 exSwR j = 2 := fun j => by
    unfold swCellSpeed; simp only [HasSqrt.sqrt_real]; norm_num [exSwR]
  apply swCellCFLWalls_three <;> norm_num [hs]

/-- non-vacuity of `sw_rk3ssp_positive_walls` (and `sw_rk2_heun_positive_walls`): all three stage conditions hold
(water at rest, either flux, `dt > 0`, `dt/dx · (|u| + c) = 1/2`) -/
example (t : ℝ) (fl : SwFlux) (hfl : fl ≠ SwFlux.centered) :
    SwAdmField 3 (rkStep (castT butcher_rk3ssp)
      (fun _ v => (swWalls 1 fl (uniMesh 3 1 0)).rhs v) (1/12) t exSwR).data := by
  have hn : 0 < (uniMesh 3 (1:ℝ) 0).n := by decide
  have e1 : ∀ (s : ℝ) (k c : ℕ), c < (uniMesh 3 (1:ℝ) 0).n →
      fe (fun _ v => (swWalls 1 fl (uniMesh 3 1 0)).rhs v) (1/12 : ℝ) s exSwR k c = exSwR k c :=
    fun s k c hc => fe_fo1Open_const _ _ _ _ _ hn _ s _ (vec2 (4, 0)) (fun i _ => exSwR_prim i)
      (swSym_rest _) (swSym_rest _) k c hc
  have e2 : ∀ (s s' : ℝ) (k c : ℕ), c < (uniMesh 3 (1:ℝ) 0).n →
      fe (fun _ v => (swWalls 1 fl (uniMesh 3 1 0)).rhs v) (1/12 : ℝ) s'
        (fe (fun _ v => (swWalls 1 fl (uniMesh 3 1 0)).rhs v) (1/12 : ℝ) s exSwR) k c = exSwR k c := by
    intro s s' k c hc
    rw [show swWalls 1 fl (uniMesh 3 1 0) = fo1Open _ _ _ _ _ from rfl,
      fe_fo1Open_const _ _ _ _ _ hn _ s' _ (vec2 (4, 0)) (fun i hi' => ?_) (swSym_rest _) (swSym_rest _) k c hc]
    · exact e1 s k c hc
    · rw [← exSwR_prim i]
      congr 1
      funext l
      exact e1 s l i hi'
  have c1 := swCellCFLWalls_congr 1 (1/12) (uniMesh 3 1 0) _ _ (fun k c hc => (e1 t k c hc).symm) exSwR_cfl
  have c2 := swCellCFLWalls_congr 1 (1/12) (uniMesh 3 1 0) exSwR
    ((3/4 : ℝ) • exSwR + (1/4 : ℝ) • fe (fun _ v => (swWalls 1 fl (uniMesh 3 1 0)).rhs v) (1/12)
      (t + 1/12 * 1) (fe (fun _ v => (swWalls 1 fl (uniMesh 3 1 0)).rhs v) (1/12) t exSwR))
    (fun k c hc => by
      simp only [Pi.add_apply, Pi.smul_apply, smul_eq_mul, e2 t _ k c hc]; ring) exSwR_cfl
  exact sw_rk3ssp_positive_walls 1 (1/12) t (by norm_num) (by norm_num) fl hfl (uniMesh 3 1 0) hn
    (fun i _ => by rw [uni_vol]; norm_num) exSwR (fun i _ => by norm_num [exSwR]) exSwR_cfl c1 c2

end examples

end Flowdyn.C10
