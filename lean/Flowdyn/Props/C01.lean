import Flowdyn.Model.FVM1D
namespace Flowdyn.C01
end Flowdyn.C01
