/-
C01 — discrete conservation of every conserved variable.
Part a: 1D pipeline (telescoping balance, periodic ends, sources, slip walls) and explicit integrators.
-/
import Flowdyn.Props.C01a
