/-
C18 — the time step is CFL × cell size / fastest wave speed.

The code's `timestep` kernels take *conservative* data; the theorems evaluate them on `prim2cons` of a
primitive state and show `dt = CFL·Δ/λ` with λ = |a|, |u|, |u|+√(g h), |V|+√(γ p/ρ); positivity,
linearity in CFL and Δ.  (Independence from the other cells holds by construction: the kernel of cell
`i` takes only the state of cell `i`.)  Spectral-radius link: λ is the largest |eigenvalue| of the flux
Jacobian, shown through explicit eigenpairs of the closed-form Jacobian matrices (`…_partial`: that
these matrices are the derivatives of the physical flux is not proved here).
-/
import Flowdyn.Model.Kernels.Scalar
import Flowdyn.Model.Kernels.ShallowWater
import Flowdyn.Model.Kernels.Euler
import Flowdyn.Model.Kernels.Euler2D
import Flowdyn.Lemmas.RealInst
import Mathlib.Tactic.Ring
import Mathlib.Tactic.Linarith
import Mathlib.Tactic.FieldSimp
import Mathlib.Tactic.Positivity
import Mathlib.Tactic.NormNum
import Mathlib.Tactic.LinearCombination

namespace Flowdyn.C18
open Flowdyn

section rational
variable {α : Type} [Field α] [LinearOrder α] [IsStrictOrderedRing α]

set_option linter.unusedSectionVars false in
theorem convDt_formula (a cfl dx : α) : convDt a cfl dx = cfl * dx / |a| := rfl
theorem convDt_pos (a cfl dx : α) (ha : a ≠ 0) (hc : 0 < cfl) (hd : 0 < dx) : 0 < convDt a cfl dx := by
  unfold convDt
  exact div_pos (mul_pos hc hd) (abs_pos.mpr ha)
theorem convDt_linear (a cfl dx k l : α) : convDt a (k * cfl) (l * dx) = k * l * convDt a cfl dx := by
  unfold convDt
  ring
set_option linter.unusedSectionVars false in
theorem burgersDt_formula (cfl dx u : α) : burgersDt cfl dx u = cfl * dx / |u| := rfl
theorem burgersDt_pos (cfl dx u : α) (hu : u ≠ 0) (hc : 0 < cfl) (hd : 0 < dx) : 0 < burgersDt cfl dx u := by
  unfold burgersDt
  exact div_pos (mul_pos hc hd) (abs_pos.mpr hu)
theorem burgersDt_linear (cfl dx u k l : α) : burgersDt (k * cfl) (l * dx) u = k * l * burgersDt cfl dx u := by
  unfold burgersDt
  ring
/-- 2D cell size used by `fvm2dcart.calc_timestep`: dx*dy/(dx+dy) is positive and below both sizes -/
theorem cellsize2d (dx dy : α) (hx : 0 < dx) (hy : 0 < dy) :
    0 < dx * dy / (dx + dy) ∧ dx * dy / (dx + dy) < dx ∧ dx * dy / (dx + dy) < dy := by
  have hs : 0 < dx + dy := add_pos hx hy
  refine ⟨div_pos (mul_pos hx hy) hs, ?_, ?_⟩
  · rw [div_lt_iff₀ hs]; nlinarith [mul_pos hx hx]
  · rw [div_lt_iff₀ hs]; nlinarith [mul_pos hy hy]
end rational

/-- for `c ≥ 0` the largest of `|u - c|, |u|, |u + c|` is `|u| + c` -/
theorem max_abs_pm (u c : ℝ) (hc : 0 ≤ c) : max |u + c| |u - c| = |u| + c := by
  rcases le_total 0 u with hu | hu
  · rw [abs_of_nonneg hu, abs_of_nonneg (by linarith : 0 ≤ u + c)]
    exact max_eq_left (abs_le.mpr ⟨by linarith, by linarith⟩)
  · rw [abs_of_nonpos hu, abs_of_nonpos (by linarith : u - c ≤ 0)]
    rw [max_eq_right (abs_le.mpr ⟨by linarith, by linarith⟩)]
    ring

/-! ### shallow water -/
theorem swDt_formula (g cfl dx h u : ℝ) (hh : 0 < h) :
    swDt g cfl dx (swPrim2cons h u).1 (swPrim2cons h u).2 = cfl * dx / (|u| + Real.sqrt (g * h)) := by
  simp only [swDt, swPrim2cons, HasSqrt.sqrt_real]
  rw [mul_div_cancel_left₀ u (ne_of_gt hh)]
theorem swDt_pos (g cfl dx h u : ℝ) (hg : 0 < g) (hh : 0 < h) (hc : 0 < cfl) (hd : 0 < dx) :
    0 < swDt g cfl dx (swPrim2cons h u).1 (swPrim2cons h u).2 := by
  rw [swDt_formula g cfl dx h u hh]
  have h1 : 0 < Real.sqrt (g * h) := Real.sqrt_pos.mpr (mul_pos hg hh)
  have h2 : 0 ≤ |u| := abs_nonneg u
  exact div_pos (mul_pos hc hd) (by linarith)
theorem swDt_linear (g cfl dx h q k l : ℝ) : swDt g (k * cfl) (l * dx) h q = k * l * swDt g cfl dx h q := by
  unfold swDt
  ring

/-! ### Euler 1D / 2D -/
theorem eDt_formula (γ cfl dx r u p : ℝ) (hγ : 1 < γ) (hr : 0 < r) :
    (let Q := ePrim2cons γ r u p; eDt γ cfl dx Q.1 Q.2.1 Q.2.2) = cfl * dx / (|u| + Real.sqrt (γ * p / r)) := by
  have hr0 : r ≠ 0 := ne_of_gt hr
  have hg0 : γ - 1 ≠ 0 := by linarith
  have hV : |r * u| / r = |u| := by
    rw [abs_mul, abs_of_pos hr, mul_div_cancel_left₀ _ hr0]
  have hrad : γ * (γ - 1) * ((p / (γ - 1) + 1/2 * r * u ^ 2) / r - 1/2 * |u| ^ 2) = γ * p / r := by
    rw [sq_abs]
    field_simp
    ring
  simp only [eDt, ePrim2cons, HasSqrt.sqrt_real]
  rw [hV, hrad]
theorem eDt_pos (γ cfl dx r u p : ℝ) (hγ : 1 < γ) (hr : 0 < r) (hp : 0 < p) (hc : 0 < cfl) (hd : 0 < dx) :
    (let Q := ePrim2cons γ r u p; 0 < eDt γ cfl dx Q.1 Q.2.1 Q.2.2) := by
  have h := eDt_formula γ cfl dx r u p hγ hr
  simp only at h ⊢
  rw [h]
  have h1 : 0 < Real.sqrt (γ * p / r) := Real.sqrt_pos.mpr (by positivity)
  have h2 : 0 ≤ |u| := abs_nonneg u
  exact div_pos (mul_pos hc hd) (by linarith)
theorem eDt_linear (γ cfl dx r m E k l : ℝ) : eDt γ (k * cfl) (l * dx) r m E = k * l * eDt γ cfl dx r m E := by
  simp only [eDt]
  ring
theorem e2Dt_formula (γ cfl dx r ux uy p : ℝ) (hγ : 1 < γ) (hr : 0 < r) :
    (let Q := e2Prim2cons γ r ux uy p; e2Dt γ cfl dx Q.1 Q.2.1 Q.2.2.1 Q.2.2.2)
      = cfl * dx / (Real.sqrt (ux ^ 2 + uy ^ 2) + Real.sqrt (γ * p / r)) := by
  have hr0 : r ≠ 0 := ne_of_gt hr
  have hg0 : γ - 1 ≠ 0 := by linarith
  have hq : 0 ≤ ux ^ 2 + uy ^ 2 := by positivity
  have hV : Real.sqrt ((r * ux) ^ 2 + (r * uy) ^ 2) / r = Real.sqrt (ux ^ 2 + uy ^ 2) := by
    rw [show (r * ux) ^ 2 + (r * uy) ^ 2 = r ^ 2 * (ux ^ 2 + uy ^ 2) by ring,
      Real.sqrt_mul (sq_nonneg r), Real.sqrt_sq hr.le, mul_div_cancel_left₀ _ hr0]
  have hrad : γ * (γ - 1) * ((p / (γ - 1) + 1/2 * r * (ux ^ 2 + uy ^ 2)) / r
      - 1/2 * Real.sqrt (ux ^ 2 + uy ^ 2) ^ 2) = γ * p / r := by
    rw [Real.sq_sqrt hq]
    field_simp
    ring
  simp only [e2Dt, e2Prim2cons, HasSqrt.sqrt_real]
  rw [hV, hrad]
theorem e2Dt_pos (γ cfl dx r ux uy p : ℝ) (hγ : 1 < γ) (hr : 0 < r) (hp : 0 < p) (hc : 0 < cfl) (hd : 0 < dx) :
    (let Q := e2Prim2cons γ r ux uy p; 0 < e2Dt γ cfl dx Q.1 Q.2.1 Q.2.2.1 Q.2.2.2) := by
  have h := e2Dt_formula γ cfl dx r ux uy p hγ hr
  simp only at h ⊢
  rw [h]
  have h1 : 0 < Real.sqrt (γ * p / r) := Real.sqrt_pos.mpr (by positivity)
  have h2 : 0 ≤ Real.sqrt (ux ^ 2 + uy ^ 2) := Real.sqrt_nonneg _
  exact div_pos (mul_pos hc hd) (by linarith)
theorem e2Dt_linear (γ cfl dx r mx my E k l : ℝ) :
    e2Dt γ (k * cfl) (l * dx) r mx my E = k * l * e2Dt γ cfl dx r mx my E := by
  simp only [e2Dt]
  ring

/-! ### spectral radius link (partial): explicit eigenpairs of the closed-form flux Jacobians -/

/-- Jacobian of the shallow-water flux `(q, q²/h + g h²/2)` w.r.t. `(h, q)` at `(h, u)`, applied to a vector -/
noncomputable def swJacMul (g h u : ℝ) (v : ℝ × ℝ) : ℝ × ℝ := (v.2, (g * h - u ^ 2) * v.1 + 2 * u * v.2)
/-- eigenpairs `u ± c`, `c = √(g h)`: spectral radius `|u| + c` -/
theorem sw_eigen_partial (g h u : ℝ) (hg : 0 < g) (hh : 0 < h) :
    (let c := Real.sqrt (g * h)
     swJacMul g h u (1, u + c) = ((u + c) * 1, (u + c) * (u + c))
     ∧ swJacMul g h u (1, u - c) = ((u - c) * 1, (u - c) * (u - c))
     ∧ max |u + c| |u - c| = |u| + c) := by
  intro c
  have hc0 : 0 ≤ c := Real.sqrt_nonneg _
  have hc2 : c ^ 2 = g * h := Real.sq_sqrt (mul_pos hg hh).le
  refine ⟨?_, ?_, max_abs_pm u c hc0⟩
  · refine Prod.ext ?_ ?_ <;> simp only [swJacMul]
    · ring
    · linear_combination (-1 : ℝ) * hc2
  · refine Prod.ext ?_ ?_ <;> simp only [swJacMul]
    · ring
    · linear_combination (-1 : ℝ) * hc2

/-- Jacobian of the Euler flux w.r.t. conservative `(ρ, m, E)` at primitive `(ρ, u, p)`, H total enthalpy -/
noncomputable def eJacMul (γ u H : ℝ) (v : ℝ × ℝ × ℝ) : ℝ × ℝ × ℝ :=
  (v.2.1,
   (γ - 3) / 2 * u ^ 2 * v.1 + (3 - γ) * u * v.2.1 + (γ - 1) * v.2.2,
   ((γ - 1) / 2 * u ^ 3 - u * H) * v.1 + (H - (γ - 1) * u ^ 2) * v.2.1 + γ * u * v.2.2)
/-- eigenpairs `u - c, u, u + c` with `c² = γ p/ρ`, `H = c²/(γ-1) + u²/2`: spectral radius `|u| + c` -/
theorem e_eigen_partial (γ r u p : ℝ) (hγ : 1 < γ) (hr : 0 < r) (hp : 0 < p) :
    (let c := Real.sqrt (γ * p / r)
     let H := c ^ 2 / (γ - 1) + u ^ 2 / 2
     eJacMul γ u H (1, u - c, H - u * c) = ((u - c) * 1, (u - c) * (u - c), (u - c) * (H - u * c))
     ∧ eJacMul γ u H (1, u, u ^ 2 / 2) = (u * 1, u * u, u * (u ^ 2 / 2))
     ∧ eJacMul γ u H (1, u + c, H + u * c) = ((u + c) * 1, (u + c) * (u + c), (u + c) * (H + u * c))
     ∧ max |u - c| (max |u| |u + c|) = |u| + c) := by
  intro c H
  have hcpos : 0 < c := Real.sqrt_pos.mpr (div_pos (mul_pos (by linarith) hp) hr)
  have hc0 : 0 ≤ c := hcpos.le
  have hg0 : γ - 1 ≠ 0 := by linarith
  have hH : (γ - 1) * H = c ^ 2 + (γ - 1) * (u ^ 2 / 2) := by
    show (γ - 1) * (c ^ 2 / (γ - 1) + u ^ 2 / 2) = _
    field_simp
  clear_value H c
  refine ⟨?_, ?_, ?_, ?_⟩
  · refine Prod.ext ?_ (Prod.ext ?_ ?_) <;> simp only [eJacMul]
    · ring
    · linear_combination hH
    · linear_combination u * hH
  · refine Prod.ext ?_ (Prod.ext ?_ ?_) <;> simp only [eJacMul]
    · ring
    · ring
    · ring
  · refine Prod.ext ?_ (Prod.ext ?_ ?_) <;> simp only [eJacMul]
    · ring
    · linear_combination hH
    · linear_combination u * hH
  · have h1 := max_abs_pm u c hc0
    have h2 : |u| ≤ |u| + c := by linarith
    rw [max_comm |u| |u + c|, ← max_assoc, max_comm |u - c| |u + c|, h1]
    exact max_eq_left h2

end Flowdyn.C18
