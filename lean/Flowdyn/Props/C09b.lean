/-
C09 (part b) — MUSCL with any limiter in Sweby's region is TVD and range-preserving for linear convection on a
uniform periodic mesh at CFL ≤ 1/2 (explicit Euler step; SSP integrators by convexity, part a).

Limiter hypotheses (each proved for minmod, vanalbada, vanleer, superbee in C12):
  (Z) `a * b ≤ 0 → lim a b = 0`,
  (S) `0 ≤ lim a b * a`  (zero or the common sign),
  (B) `|lim a b| ≤ 2 * min |a| |b|`.
-/
import Flowdyn.Props.C09
import Flowdyn.Lemmas.Cyclic1D
import Flowdyn.Props.C12
import Mathlib.Tactic.Ring
import Mathlib.Tactic.Linarith
import Mathlib.Tactic.FieldSimp
import Mathlib.Tactic.Positivity
import Mathlib.Tactic.Choose
import Mathlib.Tactic.LinearCombination
import Mathlib.Tactic.NormNum

namespace Flowdyn.C09
open Flowdyn Finset
variable {α : Type} [Field α] [LinearOrder α] [IsStrictOrderedRing α]
variable {n : ℕ} [NeZero n]

/-- Sweby-region limiter -/
structure Sweby (lim : α → α → α) : Prop where
  zero : ∀ a b, a * b ≤ 0 → lim a b = 0
  sign : ∀ a b, 0 ≤ lim a b * a
  bound : ∀ a b, |lim a b| ≤ 2 * min |a| |b|

/-- the periodic MUSCL convection discretisation on a uniform mesh -/
def musclDisc (lim : α → α → α) (a : α) (n : ℕ) (L x0 : α) : Disc1D α ℕ :=
  { mesh := uniMesh n L x0, scheme := Scheme.muscl lim, bc := BC1D.periodic, c2p := convC2P, flux := convFluxV a,
    src := fun _ => none }

omit [LinearOrder α] [IsStrictOrderedRing α] [NeZero n] in
/-- MUSCL left state at face `f` in cyclic form, expressed at any cell index `k ≡ f - 1 (mod n)` -/
theorem recLCyc_muscl (lim : α → α → α) {n : ℕ} (hn : 0 < n) (h : α) (d : ℕ → α) (f k : ℕ)
    (hk : k % n = (f + n - 1) % n) :
    recLCyc (Scheme.muscl lim) n h d f
      = cyc n d k + lim (gradCyc n h d (k + 1)) (gradCyc n h d k) * (h / 2) := by
  show cyc n d (f + n - 1) + lim (gradCyc n h d ((f + n) % n)) (gradCyc n h d ((f + n - 1) % n)) * (h / 2) = _
  have e1 : gradCyc n h d ((f + n) % n) = gradCyc n h d (k + 1) := by
    apply gradCyc_mod_congr hn
    rw [Nat.mod_mod, show f + n = (f + n - 1) + 1 by omega]
    exact (mod_add_congr hk 1).symm
  have e2 : gradCyc n h d ((f + n - 1) % n) = gradCyc n h d k := by
    apply gradCyc_mod_congr hn
    rw [Nat.mod_mod]; exact hk.symm
  rw [e1, e2, cyc_mod_congr d hk.symm]

/-- residual for `a > 0` in cyclic indices: `-(a/h) [(u_i + σ_i h/2) - (u_{i-1} + σ_{i-1} h/2)]` with the limited
slope `σ_i = lim (g_{i+1}) (g_i)`, `g_j = (u_j - u_{j-1})/h` -/
theorem muscl_rhs_pos (lim : α → α → α) (a : α) (ha : 0 < a) (L x0 : α) (hL : 0 < L) (q : ℕ → ℕ → α) (i : ℕ) (hi : i < n) :
    (let h := L / n
     let u : ℕ → α := fun j => q 0 (j % n)
     let g : ℕ → α := fun j => (u j - u (j + n - 1)) / h
     let σ : ℕ → α := fun j => lim (g (j + 1)) (g j)
     (musclDisc lim a n L x0).rhs q 0 i
       = -(a / h) * ((u i + σ i * (h / 2)) - (u (i + n - 1) + σ (i + n - 1) * (h / 2)))) := by
  intro h u g σ
  have hn : 0 < n := NeZero.pos n
  have hd : (fun c => convC2P (fun l => q l c) 0) = q 0 := by
    funext c; simp only [convC2P, vec1, one_mul]
  have h1 := recLCyc_muscl lim hn h (q 0) (i + 1) i (by rw [show i + 1 + n - 1 = i + n by omega, Nat.add_mod_right])
  have h0 := recLCyc_muscl lim hn h (q 0) i (i + n - 1) rfl
  unfold musclDisc
  rw [rhs_periodic_uniform_eq_cyc n hn L x0 hL _ _ _ q 0 i hi]
  unfold rhsCyc
  simp only [convFluxV, vec1, convFlux_pos _ _ _ ha, hd]
  rw [h1, h0]
  show -(a * (u i + σ i * (h / 2)) - a * (u (i + n - 1) + σ (i + n - 1) * (h / 2))) / h = _
  ring

omit [NeZero n] in
/-- the limited slope also has the sign of its SECOND argument (or vanishes) -/
theorem Sweby.sign_right {lim : α → α → α} (hlim : Sweby lim) (a b : α) : 0 ≤ lim a b * b := by
  rcases le_or_gt (a * b) 0 with h | h
  · rw [hlim.zero a b h, zero_mul]
  · by_contra hc
    have hc' : lim a b * b < 0 := not_le.mp hc
    have ha : a ≠ 0 := by rintro rfl; simp at h
    have ha2 : 0 < a * a := mul_self_pos.mpr ha
    have h1 := mul_neg_of_neg_of_pos hc' ha2
    have h2 := mul_nonneg (hlim.sign a b) h.le
    have e : lim a b * b * (a * a) = lim a b * a * (a * b) := by ring
    linarith

omit [NeZero n] in
/-- one cell of the MUSCL step in incremental form: with `gz = (uz - um)/h`, upwind slope `lim gp gz` and
downwind slope `lim gz gm`, the update is `uz - c (uz - um)` with `0 ≤ c ≤ 1` when `0 ≤ ν ≤ 1/2` -/
theorem muscl_cell_incr (lim : α → α → α) (hlim : Sweby lim) (um uz h gp gm ν : α) (hh : 0 < h)
    (hν : 0 ≤ ν ∧ ν ≤ 1 / 2) :
    ∃ c : α, 0 ≤ c ∧ c ≤ 1 ∧
      uz - ν * ((uz + lim gp ((uz - um) / h) * (h / 2)) - (um + lim ((uz - um) / h) gm * (h / 2)))
        = uz - c * (uz - um) := by
  set gz := (uz - um) / h with hgz
  have hne : h ≠ 0 := hh.ne'
  have hd : uz - um = h * gz := by rw [hgz]; field_simp
  by_cases hg : gz = 0
  · refine ⟨0, le_rfl, zero_le_one, ?_⟩
    rw [hg, hlim.zero gp 0 (by simp), hlim.zero 0 gm (by simp)]
    have : uz = um := by rw [hg, mul_zero] at hd; linarith
    rw [this]; ring
  · have b1 : |lim gp gz| ≤ 2 * |gz| :=
      le_trans (hlim.bound gp gz) (mul_le_mul_of_nonneg_left (min_le_right _ _) (by norm_num))
    have b2 : |lim gz gm| ≤ 2 * |gz| :=
      le_trans (hlim.bound gz gm) (mul_le_mul_of_nonneg_left (min_le_left _ _) (by norm_num))
    have hr := limiter_ratio_bounds (lim gp gz) gz gz hg (hlim.sign_right gp gz) b1
    have hs := limiter_ratio_bounds (lim gz gm) gz gz hg (hlim.sign gz gm) b2
    have hc := muscl_increment_partial _ _ ν hr hs hν
    refine ⟨ν * (1 + lim gp gz / gz / 2 - lim gz gm / gz / 2), hc.1, hc.2, ?_⟩
    rw [hd]; field_simp; linear_combination (-2 * ν) * hd

/-- **MUSCL + Sweby limiter, a > 0, 0 ≤ ν = a dt/h ≤ 1/2: one explicit Euler step is TVD and keeps the range** -/
theorem muscl_step_tvd (lim : α → α → α) (hlim : Sweby lim) (a dt : α) (ha : 0 < a) (hdt : 0 ≤ dt) (L x0 : α) (hL : 0 < L)
    (hcfl : a * dt / (L / n) ≤ 1 / 2) (q : ℕ → ℕ → α) :
    (let u : ZMod n → α := fun z => q 0 z.val
     let u' : ZMod n → α := fun z => q 0 z.val + dt * (musclDisc lim a n L x0).rhs q 0 z.val
     tv u' ≤ tv u ∧ ∀ lo hi, (∀ z, lo ≤ u z ∧ u z ≤ hi) → ∀ z, lo ≤ u' z ∧ u' z ≤ hi) := by
  intro u u'
  have hn : 0 < n := NeZero.pos n
  have hn1 : 1 ≤ n := hn
  have hnα : (0 : α) < n := Nat.cast_pos.mpr hn
  have hpos : 0 < L / n := div_pos hL hnα
  have hν0 : 0 ≤ a * dt / (L / n) := div_nonneg (mul_nonneg ha.le hdt) hpos.le
  have cast_pred : ∀ j : ℕ, ((j + n - 1 : ℕ) : ZMod n) = (j : ZMod n) - 1 := by
    intro j
    rw [Nat.add_sub_assoc hn1, Nat.cast_add, Nat.cast_sub hn1, ZMod.natCast_self, Nat.cast_one, zero_sub,
      sub_eq_add_neg]
  have u_nat : ∀ j : ℕ, q 0 (j % n) = u (j : ZMod n) := by
    intro j
    show _ = q 0 ((j : ZMod n).val)
    rw [ZMod.val_natCast]
  have key : ∀ z : ZMod n, (musclDisc lim a n L x0).rhs q 0 z.val
      = -(a / (L / n)) * ((u z + lim ((u (z + 1) - u z) / (L / n)) ((u z - u (z - 1)) / (L / n)) * (L / n / 2))
          - (u (z - 1) + lim ((u z - u (z - 1)) / (L / n)) ((u (z - 1) - u (z - 1 - 1)) / (L / n)) * (L / n / 2))) := by
    intro z
    have := muscl_rhs_pos lim a ha L x0 hL q z.val (ZMod.val_lt z)
    simp only [] at this
    rw [this]
    simp only [u_nat, cast_pred, Nat.cast_add, Nat.cast_one, ZMod.natCast_zmod_val, sub_add_cancel,
      add_sub_cancel_right]
  choose C hC0 hC1 hCe using fun z : ZMod n =>
    muscl_cell_incr lim hlim (u (z - 1)) (u z) (L / n) ((u (z + 1) - u z) / (L / n))
      ((u (z - 1) - u (z - 1 - 1)) / (L / n)) (a * dt / (L / n)) hpos ⟨hν0, hcfl⟩
  set D : ZMod n → α := fun _ => 0 with hDdef
  have hu' : u' = incr u C D := by
    funext z
    show q 0 z.val + dt * (musclDisc lim a n L x0).rhs q 0 z.val
      = u z - C z * (u z - u (z - 1)) + 0 * (u (z + 1) - u z)
    rw [key z, zero_mul, add_zero, ← hCe z]
    show u z + _ = _
    ring
  have hD : ∀ z, 0 ≤ D z := fun _ => le_rfl
  rw [hu']
  refine ⟨harten_tvd u C D hC0 hD (fun z => ?_), ?_⟩
  · show C (z + 1) + 0 ≤ 1
    rw [add_zero]; exact hC1 _
  · intro lo hi hb z
    exact harten_max_principle u C D hC0 hD (fun z => by show C z + 0 ≤ 1; rw [add_zero]; exact hC1 z)
      lo hi (fun z => (hb z).1) (fun z => (hb z).2) z

/-! the four limiters of the code are in Sweby's region (C12), with the generated regularisation constants -/
omit [NeZero n] in
/-- Sweby's region from the three C12 facts (zero on opposite signs, common sign, `2 min` bound) -/
theorem sweby_of (lim : α → α → α) (hz : ∀ a b, a * b ≤ 0 → lim a b = 0)
    (hs : ∀ a b, (0 < a → 0 < b → 0 ≤ lim a b) ∧ (a < 0 → b < 0 → lim a b ≤ 0))
    (hb : ∀ a b, |lim a b| ≤ 2 * min |a| |b|) : Sweby lim := by
  refine ⟨hz, ?_, hb⟩
  intro a b
  rcases C12.prod_cases a b with h | ⟨ha, hb'⟩ | ⟨ha, hb'⟩
  · rw [hz a b h, zero_mul]
  · exact mul_nonneg ((hs a b).1 ha hb') ha.le
  · exact mul_nonneg_of_nonpos_of_nonpos ((hs a b).2 ha hb') ha.le

omit [NeZero n] in
theorem sweby_minmod : Sweby (minmod (α := α)) :=
  sweby_of _ C12.minmod_zero_of_nonpos C12.minmod_sign C12.minmod_le_two_min
omit [NeZero n] in
theorem sweby_superbee : Sweby (superbee (α := α)) :=
  sweby_of _ C12.superbee_zero_of_nonpos C12.superbee_sign C12.superbee_le_two_min
omit [NeZero n] in
theorem sweby_vanalbada (pmin eps : α) (hp : 0 ≤ pmin) (he : 0 ≤ eps) : Sweby (vanalbada pmin eps) :=
  sweby_of _ (fun a b => C12.vanalbada_zero_of_nonpos pmin eps a b hp)
    (fun a b => C12.vanalbada_sign pmin eps a b hp he) (fun a b => C12.vanalbada_le_two_min pmin eps a b hp he)
omit [NeZero n] in
theorem sweby_vanleer (pmin eps : α) (hp : 0 ≤ pmin) (he : 0 ≤ eps) : Sweby (vanleer pmin eps) :=
  sweby_of _ (fun a b => C12.vanleer_zero_of_nonpos pmin eps a b hp)
    (fun a b => C12.vanleer_sign pmin eps a b hp he) (fun a b => C12.vanleer_le_two_min pmin eps a b hp he)

end Flowdyn.C09
