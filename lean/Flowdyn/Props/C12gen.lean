/-
C12 (translator bridge) — the limiter functions mechanically translated from flowdyn/xnum.py
(`Flowdyn/Generated/Limiters.lean`, regenerated on every run) ARE the hand-written models that the C12
theorems are about, with the regularisation constants extracted from the same source.  A change of the
Python functions that alters their meaning makes one of these proofs fail (a broken proof obligation: the
check then searches for a failing input); a harmless algebraic rewrite is absorbed by `ring` and by the
normalisation of commutative operators (`a*b` / `b*a`, `min a b` / `min b a`).
-/
import Flowdyn.Generated.Limiters
import Flowdyn.Generated.Tables
import Mathlib.Tactic.Ring
import Mathlib.Tactic.FieldSimp
import Mathlib.Tactic.SplitIfs
import Mathlib.Tactic.Linarith

namespace Flowdyn.GenLim
open Flowdyn

/-- closes `generated = model` after unfolding: split on the first `if`, rewrite every other `if` with the
branch hypotheses, and let `ring` absorb harmless algebraic rewrites of the selected branch -/
macro "lim_bridge" : tactic =>
  `(tactic| first
    | done
    | ((try dsimp only) <;> (try simp only [mul_comm, min_comm, max_comm]) <;> (repeat' split) <;>
        (try simp only [*, if_true, if_false]) <;>
        first | done | rfl | ring | (simp only [min_comm, max_comm]; done) | (exfalso; simp_all; done)
              | (exfalso; linarith) | grind))

theorem minmod_eq (a b : ℚ) : GenLim.minmod a b = Flowdyn.minmod a b := by
  simp only [GenLim.minmod, Flowdyn.minmod]
  lim_bridge

theorem superbee_eq (a b : ℚ) : GenLim.superbee a b = Flowdyn.superbee a b := by
  simp only [GenLim.superbee, Flowdyn.superbee]
  lim_bridge

theorem vanalbada_eq (a b : ℚ) :
    GenLim.vanalbada a b = Flowdyn.vanalbada Gen.vanalbada_pmin Gen.vanalbada_eps a b := by
  simp only [GenLim.vanalbada, Flowdyn.vanalbada, Gen.vanalbada_pmin, Gen.vanalbada_eps]
  lim_bridge

theorem vanleer_eq (a b : ℚ) :
    GenLim.vanleer a b = Flowdyn.vanleer Gen.vanleer_pmin Gen.vanleer_eps a b := by
  simp only [GenLim.vanleer, Flowdyn.vanleer, Gen.vanleer_pmin, Gen.vanleer_eps]
  lim_bridge

end Flowdyn.GenLim
