/-
C14 (1D) — periodic boundaries are seamless: on a uniform periodic mesh, cyclically shifting the data
shifts the residual and changes nothing else, for every reconstruction, every `cons2prim`, every
pointwise flux, every `n ≥ 1`.
-/
import Flowdyn.Lemmas.Cyclic1D

namespace Flowdyn.C14
open Flowdyn
variable {α : Type} [Field α] [LinearOrder α] [IsStrictOrderedRing α] {ι : Type}

/-- cyclic shift of cell data by `m` cells: `np.roll(q, -m)` -/
def shift (n m : ℕ) (q : ι → ℕ → α) : ι → ℕ → α := fun l c => q l ((c + m) % n)

/-- the periodic uniform discretisation -/
def perDisc (n : ℕ) (L x0 : α) (s : Scheme α) (c2p : (ι → α) → (ι → α))
    (Φ : (ι → α) → (ι → α) → (ι → α)) : Disc1D α ι :=
  { mesh := uniMesh n L x0, scheme := s, bc := BC1D.periodic, c2p := c2p, flux := Φ, src := fun _ => none }

theorem rhs_shift_one (n : ℕ) (hn : 0 < n) (L x0 : α) (hL : 0 < L) (s : Scheme α)
    (c2p : (ι → α) → (ι → α)) (Φ : (ι → α) → (ι → α) → (ι → α)) (q : ι → ℕ → α) (k : ι) (i : ℕ)
    (hi : i < n) :
    (perDisc n L x0 s c2p Φ).rhs (shift n 1 q) k i = (perDisc n L x0 s c2p Φ).rhs q k ((i + 1) % n) := by
  unfold perDisc
  rw [rhs_periodic_uniform_eq_cyc n hn L x0 hL s c2p Φ _ k i hi,
    rhs_periodic_uniform_eq_cyc n hn L x0 hL s c2p Φ q k ((i + 1) % n) (Nat.mod_lt _ hn)]
  exact rhsCyc_shift s n hn _ c2p Φ q k i

/-- shift by any number of cells -/
theorem rhs_shift (n : ℕ) (hn : 0 < n) (L x0 : α) (hL : 0 < L) (s : Scheme α)
    (c2p : (ι → α) → (ι → α)) (Φ : (ι → α) → (ι → α) → (ι → α)) (q : ι → ℕ → α) (m : ℕ) (k : ι) (i : ℕ)
    (hi : i < n) :
    (perDisc n L x0 s c2p Φ).rhs (shift n m q) k i = (perDisc n L x0 s c2p Φ).rhs q k ((i + m) % n) := by
  induction m generalizing q i with
  | zero =>
    rw [Nat.add_zero, Nat.mod_eq_of_lt hi]
    unfold perDisc
    rw [rhs_periodic_uniform_eq_cyc n hn L x0 hL s c2p Φ _ k i hi,
      rhs_periodic_uniform_eq_cyc n hn L x0 hL s c2p Φ q k i hi]
    refine rhsCyc_congr s n _ c2p Φ _ q (fun l c hc => ?_) hn k i
    show q l ((c + 0) % n) = q l c
    rw [Nat.add_zero, Nat.mod_eq_of_lt hc]
  | succ m ih =>
    have hsh : shift n (m + 1) q = shift n m (shift n 1 q) := by
      funext l c
      show q l ((c + (m + 1)) % n) = q l (((c + m) % n + 1) % n)
      rw [Nat.mod_add_mod, Nat.add_assoc]
    rw [hsh, ih (shift n 1 q) i hi,
      rhs_shift_one n hn L x0 hL s c2p Φ q k ((i + m) % n) (Nat.mod_lt _ hn), Nat.mod_add_mod,
      Nat.add_assoc]

/-- non-vacuity: a 3-cell instance -/
example : (perDisc (α := ℚ) (ι := Unit) 3 1 0 Scheme.extrapol2 id (fun L _ => L)).mesh.n = 3 := rfl

end Flowdyn.C14
