/-
C09 (part c) — SSP lift: from one forward-Euler step to the integrators `explicit`, `rk2_heun`, `rk3ssp`,
and from one step to whole solves.

(1) Abstract lift.  `V` any module over the ordered field `α`, `R : α → V → V` any (time dependent, nonlinear)
    operator, `dt` any step.  If every forward-Euler map `q ↦ q + dt • R s q` (all stage times `s`; for an
    autonomous `R` this is one map `E`) sends a convex set `K` into itself, so do the step models of the code
    `explicitStep`, `rkStep butcher_rk2_heun`, `rkStep butcher_rk3ssp` (`Model/Integrators` run with the extracted
    tables; Shu–Osher forms from C05, every Euler stage with the SAME `dt`): `rk2_heun_preserves`, `rk3ssp_preserves`,
    `ssp_preserves`.  For a functional `Φ` convex on `K` that no Euler step increases on `K`: `ssp_noninc`, and for
    `K = univ` `rk2_heun_noninc`, `rk3ssp_noninc`.
(2) Instances on the data layout of the 1D pipeline (`ℕ → ℕ → α`, first component, cells `i < n` as `ZMod n`):
    total variation `tv ∘ cycData` is convex, the range sets `InRange n lo hi` are convex (`ssp_tvd_of_euler`);
    first-order upwind for a speed of either sign (or zero) at `|a| dt ≤ vol_i` on any periodic mesh
    (`upwind_step_tvd_neg`, `upwind_euler_tvd`, `upwind_ssp_tvd`); MUSCL with any Sweby-region limiter for a speed
    of either sign at `|a| dt ≤ h/2` on the uniform periodic mesh (`muscl_step_tvd_neg`, `muscl_euler_tvd`,
    `muscl_ssp_tvd`).  The case `a < 0` is obtained from the cell lemma of C09b by `u ↦ -u`, left ↔ right; no
    symmetry or oddness of the limiter is needed beyond Sweby's region.
(3) First-order Burgers with the code's upwind flux (sign of `(uL+uR)/2`, no entropy fix), any periodic mesh:
    Harten coefficients `C_i = (dt/vol_i) max(s_{i-1/2},0)`, `D_i = -(dt/vol_i) min(s_{i+1/2},0)`; TVD and range
    preserving when `|u_j| ≤ M`, `M dt ≤ vol_i` (`burgers_step_tvd`, `burgers_ssp_tvd`).
(4) Whole solves of the driver model `DrvCfg.run` (any save times, stop criteria, monitors, fuel): `run_allQ`
    (a data property kept by every step the driver hands out — the full step with the computed time step and side
    steps with a scalar `0 < d ≤ min dt` — holds for the final state, every stored snapshot and the whole
    trajectory), `ssp_run_tvd`, `upwind_run_tvd`, `muscl_run_tvd`, `burgers_run_tvd`.
-/
import Flowdyn.Props.C09
import Flowdyn.Props.C09b
import Flowdyn.Props.C05
import Flowdyn.Props.C07b
import Mathlib.Analysis.Convex.Basic
import Mathlib.Analysis.Convex.Function
import Mathlib.Tactic.Ring
import Mathlib.Tactic.Linarith
import Mathlib.Tactic.NormNum
import Mathlib.Tactic.FieldSimp
import Mathlib.Tactic.Positivity

set_option linter.unusedSectionVars false

namespace Flowdyn.C09
open Flowdyn Finset

/-! ## 1. abstract SSP lift -/
section Abstract
variable {α : Type} [Field α] [LinearOrder α] [IsStrictOrderedRing α]
variable {V : Type} [AddCommGroup V] [Module α V]

/-- data after one step of the three SSP integrators of the code, time step `dt` (frozen during the step) -/
def sspSteps (R : α → V → V) (dt t : α) (q : V) : List V :=
  [(explicitStep R dt t q).data,
   (rkStep (C05.castT Gen.butcher_rk2_heun) R dt t q).data,
   (rkStep (C05.castT Gen.butcher_rk3ssp) R dt t q).data]

theorem explicit_preserves (R : α → V → V) (dt : α) (K : Set V)
    (hE : ∀ s, ∀ q ∈ K, C05.fe R dt s q ∈ K) (t : α) (q : V) (hq : q ∈ K) :
    (explicitStep R dt t q).data ∈ K := by
  have := hE t q hq
  simpa [explicitStep, explicitStepG, C05.fe] using this

theorem rk2_heun_preserves (R : α → V → V) (dt : α) (K : Set V) (hK : Convex α K)
    (hE : ∀ s, ∀ q ∈ K, C05.fe R dt s q ∈ K) (t : α) (q : V) (hq : q ∈ K) :
    (rkStep (C05.castT Gen.butcher_rk2_heun) R dt t q).data ∈ K := by
  rw [C05.rk2_heun_ssp]
  exact hK hq (hE _ _ (hE _ _ hq)) (by norm_num) (by norm_num) (by norm_num)

theorem rk3ssp_preserves (R : α → V → V) (dt : α) (K : Set V) (hK : Convex α K)
    (hE : ∀ s, ∀ q ∈ K, C05.fe R dt s q ∈ K) (t : α) (q : V) (hq : q ∈ K) :
    (rkStep (C05.castT Gen.butcher_rk3ssp) R dt t q).data ∈ K := by
  have h := C05.rk3ssp_ssp R dt t q
  simp only [] at h
  rw [h]
  have h1 : C05.fe R dt t q ∈ K := hE _ _ hq
  have h2 : (3/4 : α) • q + (1/4 : α) • C05.fe R dt (t + dt * 1) (C05.fe R dt t q) ∈ K :=
    hK hq (hE _ _ h1) (by norm_num) (by norm_num) (by norm_num)
  exact hK hq (hE _ _ h2) (by norm_num) (by norm_num) (by norm_num)

/-- all three SSP steps keep a convex set that every forward-Euler step of the same length keeps -/
theorem ssp_preserves (R : α → V → V) (dt : α) (K : Set V) (hK : Convex α K)
    (hE : ∀ s, ∀ q ∈ K, C05.fe R dt s q ∈ K) (t : α) (q : V) (hq : q ∈ K) :
    ∀ v ∈ sspSteps R dt t q, v ∈ K := by
  intro v hv
  simp only [sspSteps, List.mem_cons, List.not_mem_nil, or_false] at hv
  rcases hv with rfl | rfl | rfl
  · exact explicit_preserves R dt K hE t q hq
  · exact rk2_heun_preserves R dt K hK hE t q hq
  · exact rk3ssp_preserves R dt K hK hE t q hq

/-- sublevel sets of a convex functional on a convex set are convex -/
theorem sublevel_convex (K : Set V) (Φ : V → α) (hΦ : ConvexOn α K Φ) (c : α) :
    Convex α {x | x ∈ K ∧ Φ x ≤ c} := by
  rw [convex_iff_add_mem]
  rintro x ⟨hx, hxc⟩ y ⟨hy, hyc⟩ a b ha hb hab
  refine ⟨hΦ.1 hx hy ha hb hab, ?_⟩
  have h := hΦ.2 hx hy ha hb hab
  simp only [smul_eq_mul] at h
  have h1 := mul_le_mul_of_nonneg_left hxc ha
  have h2 := mul_le_mul_of_nonneg_left hyc hb
  have h3 : a * c + b * c = c := by rw [← add_mul, hab, one_mul]
  linarith

/-- a convex functional that no forward-Euler step (on the invariant convex set `K`) increases is not
increased by the SSP steps -/
theorem ssp_noninc (R : α → V → V) (dt : α) (K : Set V) (Φ : V → α) (hΦ : ConvexOn α K Φ)
    (hE : ∀ s, ∀ q ∈ K, C05.fe R dt s q ∈ K ∧ Φ (C05.fe R dt s q) ≤ Φ q) (t : α) (q : V) (hq : q ∈ K) :
    ∀ v ∈ sspSteps R dt t q, v ∈ K ∧ Φ v ≤ Φ q := by
  intro v hv
  exact ssp_preserves R dt {x | x ∈ K ∧ Φ x ≤ Φ q} (sublevel_convex K Φ hΦ (Φ q))
    (fun s x hx => ⟨(hE s x hx.1).1, le_trans (hE s x hx.1).2 hx.2⟩) t q ⟨hq, le_rfl⟩ v hv

theorem rk2_heun_noninc (R : α → V → V) (dt : α) (Φ : V → α) (hΦ : ConvexOn α Set.univ Φ)
    (hE : ∀ s q, Φ (C05.fe R dt s q) ≤ Φ q) (t : α) (q : V) :
    Φ (rkStep (C05.castT Gen.butcher_rk2_heun) R dt t q).data ≤ Φ q :=
  (ssp_noninc R dt Set.univ Φ hΦ (fun s x _ => ⟨trivial, hE s x⟩) t q trivial _ (by simp [sspSteps])).2

theorem rk3ssp_noninc (R : α → V → V) (dt : α) (Φ : V → α) (hΦ : ConvexOn α Set.univ Φ)
    (hE : ∀ s q, Φ (C05.fe R dt s q) ≤ Φ q) (t : α) (q : V) :
    Φ (rkStep (C05.castT Gen.butcher_rk3ssp) R dt t q).data ≤ Φ q :=
  (ssp_noninc R dt Set.univ Φ hΦ (fun s x _ => ⟨trivial, hE s x⟩) t q trivial _ (by simp [sspSteps])).2

/-! non-vacuity of the abstract lift: `V = ℚ`, `R(t, x) = -x`, `dt = 1/2`, `K = [0, 1]`, `Φ = |·|` -/
example (t q : ℚ) (hq : q ∈ Set.Icc (0 : ℚ) 1) :
    (rkStep (C05.castT Gen.butcher_rk2_heun) (fun (_ : ℚ) (x : ℚ) => -x) (1/2) t q).data ∈ Set.Icc (0 : ℚ) 1 :=
  rk2_heun_preserves _ (1/2) (Set.Icc 0 1) (convex_Icc 0 1)
    (fun s x hx => by
      simp only [C05.fe, Set.mem_Icc, smul_eq_mul] at hx ⊢
      constructor <;> linarith [hx.1, hx.2]) t q hq

example (t q : ℚ) (hq : q ∈ Set.Icc (0 : ℚ) 1) :
    (rkStep (C05.castT Gen.butcher_rk3ssp) (fun (_ : ℚ) (x : ℚ) => -x) (1/2) t q).data ∈ Set.Icc (0 : ℚ) 1 :=
  rk3ssp_preserves _ (1/2) (Set.Icc 0 1) (convex_Icc 0 1)
    (fun s x hx => by
      simp only [C05.fe, Set.mem_Icc, smul_eq_mul] at hx ⊢
      constructor <;> linarith [hx.1, hx.2]) t q hq

theorem abs_convexOn_rat : ConvexOn ℚ Set.univ (fun x : ℚ => |x|) := by
  refine ⟨convex_univ, fun x _ y _ a b ha hb _ => ?_⟩
  simp only [smul_eq_mul]
  calc |a * x + b * y| ≤ |a * x| + |b * y| := abs_add_le _ _
    _ = a * |x| + b * |y| := by rw [abs_mul, abs_mul, abs_of_nonneg ha, abs_of_nonneg hb]

theorem abs_fe_le (s x : ℚ) : |C05.fe (fun (_ : ℚ) (x : ℚ) => -x) (1/2) s x| ≤ |x| := by
  simp only [C05.fe, smul_eq_mul]
  rw [show x + 1 / 2 * -x = x / 2 by ring, abs_div, abs_two]
  linarith [abs_nonneg x]

example (t q : ℚ) : |(rkStep (C05.castT Gen.butcher_rk2_heun) (fun (_ : ℚ) (x : ℚ) => -x) (1/2) t q).data| ≤ |q| :=
  rk2_heun_noninc _ (1/2) (fun x : ℚ => |x|) abs_convexOn_rat abs_fe_le t q

example (t q : ℚ) : |(rkStep (C05.castT Gen.butcher_rk3ssp) (fun (_ : ℚ) (x : ℚ) => -x) (1/2) t q).data| ≤ |q| :=
  rk3ssp_noninc _ (1/2) (fun x : ℚ => |x|) abs_convexOn_rat abs_fe_le t q

end Abstract

/-! ## 2. instances: total variation and range bounds of the first component on the cyclic index set -/
section Instances
variable {α : Type} [Field α] [LinearOrder α] [IsStrictOrderedRing α]
variable {n : ℕ} [NeZero n]

/-- first component of the cell data on the cyclic index set -/
def cycData (q : ℕ → ℕ → α) : ZMod n → α := fun z => q 0 z.val

/-- range predicate `∀ i < n, lo ≤ q 0 i ≤ hi` as a set of data -/
def InRange (n : ℕ) (lo hi : α) : Set (ℕ → ℕ → α) := {q | ∀ i, i < n → lo ≤ q 0 i ∧ q 0 i ≤ hi}

theorem inRange_iff (lo hi : α) (q : ℕ → ℕ → α) :
    q ∈ InRange n lo hi ↔ ∀ z : ZMod n, lo ≤ cycData q z ∧ cycData q z ≤ hi := by
  constructor
  · intro h z; exact h z.val (ZMod.val_lt z)
  · intro h i hi'
    have := h (i : ZMod n)
    simpa only [cycData, ZMod.val_natCast, Nat.mod_eq_of_lt hi'] using this

omit [NeZero n] in
theorem inRange_convex (lo hi : α) : Convex α (InRange n lo hi) := by
  rw [convex_iff_add_mem]
  intro x hx y hy a b ha hb hab i hi'
  obtain ⟨x1, x2⟩ := hx i hi'
  obtain ⟨y1, y2⟩ := hy i hi'
  show lo ≤ a * x 0 i + b * y 0 i ∧ a * x 0 i + b * y 0 i ≤ hi
  have e1 : a * lo + b * lo = lo := by rw [← add_mul, hab, one_mul]
  have e2 : a * hi + b * hi = hi := by rw [← add_mul, hab, one_mul]
  have a1 := mul_le_mul_of_nonneg_left x1 ha
  have a2 := mul_le_mul_of_nonneg_left y1 hb
  have a3 := mul_le_mul_of_nonneg_left x2 ha
  have a4 := mul_le_mul_of_nonneg_left y2 hb
  constructor <;> linarith

/-- the total variation of the first component is a convex functional of the data -/
theorem tvData_convexOn (K : Set (ℕ → ℕ → α)) (hK : Convex α K) :
    ConvexOn α K (fun q => tv (cycData (n := n) q)) := by
  refine ⟨hK, ?_⟩
  intro x _ y _ a b ha hb hab
  have hb' : b = 1 - a := by linarith
  subst hb'
  have := tv_convex (cycData (n := n) x) (cycData y) a ha (by linarith)
  have e : cycData (n := n) (a • x + (1 - a) • y) = fun i => a * cycData x i + (1 - a) * cycData y i := rfl
  simp only [smul_eq_mul, e]
  exact this

/-- **lift to the SSP integrators**: if every forward-Euler step of length `dt` of the operator `R`
keeps the convex set `K`, is TVD there and keeps every range there, so do the steps `explicit`, `rk2_heun`, `rk3ssp` -/
theorem ssp_tvd_of_euler (R : α → (ℕ → ℕ → α) → (ℕ → ℕ → α)) (dt : α) (K : Set (ℕ → ℕ → α)) (hK : Convex α K)
    (hE : ∀ s, ∀ q ∈ K, C05.fe R dt s q ∈ K ∧ tv (cycData (n := n) (C05.fe R dt s q)) ≤ tv (cycData (n := n) q)
      ∧ ∀ lo hi, q ∈ InRange n lo hi → C05.fe R dt s q ∈ InRange n lo hi)
    (t : α) (q : ℕ → ℕ → α) (hq : q ∈ K) :
    ∀ v ∈ sspSteps R dt t q, v ∈ K ∧ tv (cycData (n := n) v) ≤ tv (cycData (n := n) q)
      ∧ ∀ lo hi, q ∈ InRange n lo hi → v ∈ InRange n lo hi := by
  intro v hv
  obtain ⟨h1, h2⟩ := ssp_noninc R dt K _ (tvData_convexOn (n := n) K hK)
    (fun s x hx => ⟨(hE s x hx).1, (hE s x hx).2.1⟩) t q hq v hv
  refine ⟨h1, h2, fun lo hi hr => ?_⟩
  exact (ssp_preserves R dt (K ∩ InRange n lo hi) (hK.inter (inRange_convex lo hi))
    (fun s x hx => ⟨(hE s x hx.1).1, (hE s x hx.1).2.2 lo hi hx.2⟩) t q ⟨hq, hr⟩ v hv).2

/-! ### first-order upwind convection, either sign, any periodic mesh -/

/-- the value of `z + 1` in `ZMod n` is the cyclic successor of the value of `z` -/
theorem val_add_one (z : ZMod n) : (z + 1).val = (z.val + 1) % n := by
  rw [ZMod.val_add, ZMod.val_one_eq_one_mod, Nat.add_mod_mod]

/-- `a < 0`: incremental form with `C = 0`, `D_i = -a dt / vol_i` -/
theorem upwind_step_tvd_neg (a dt : α) (ha : a < 0) (hdt : 0 ≤ dt) (m : Mesh1D α) (hn : m.n = n)
    (hvol : ∀ i, i < m.n → 0 < m.vol i) (hcfl : ∀ i, i < m.n → -a * dt / m.vol i ≤ 1) (q : ℕ → ℕ → α) :
    (let u : ZMod n → α := fun z => q 0 z.val
     let u' : ZMod n → α := fun z => q 0 z.val + dt * (upwindDisc a m).rhs q 0 z.val
     tv u' ≤ tv u ∧ ∀ lo hi, (∀ z, lo ≤ u z ∧ u z ≤ hi) → ∀ z, lo ≤ u' z ∧ u' z ≤ hi) := by
  intro u u'
  have hnpos : 0 < m.n := by rw [hn]; exact Nat.pos_of_ne_zero (NeZero.ne n)
  have hlt : ∀ z : ZMod n, z.val < m.n := fun z => by rw [hn]; exact ZMod.val_lt z
  set C : ZMod n → α := fun _ => 0 with hCdef
  set D : ZMod n → α := fun z => -a * dt / m.vol z.val with hDdef
  have hu' : u' = incr u C D := by
    funext z
    show q 0 z.val + dt * (upwindDisc a m).rhs q 0 z.val
      = q 0 z.val - 0 * (q 0 z.val - q 0 (z - 1).val) + -a * dt / m.vol z.val * (q 0 (z + 1).val - q 0 z.val)
    rw [upwind_rhs_neg a ha m hnpos q z.val (hlt z), val_add_one z, hn]
    ring
  have hC : ∀ z, 0 ≤ C z := fun _ => le_rfl
  have hD : ∀ z, 0 ≤ D z := fun z =>
    div_nonneg (mul_nonneg (neg_nonneg.mpr ha.le) hdt) (hvol z.val (hlt z)).le
  have hD1 : ∀ z, D z ≤ 1 := fun z => hcfl z.val (hlt z)
  rw [hu']
  refine ⟨harten_tvd u C D hC hD (fun z => ?_), ?_⟩
  · show 0 + D z ≤ 1
    rw [zero_add]; exact hD1 _
  · intro lo hi hb z
    exact harten_max_principle u C D hC hD (fun z => by show 0 + D z ≤ 1; rw [zero_add]; exact hD1 z)
      lo hi (fun z => (hb z).1) (fun z => (hb z).2) z

omit [NeZero n] in
/-- `a = 0`: nothing moves -/
theorem upwind_rhs_zero (m : Mesh1D α) (q : ℕ → ℕ → α) (i : ℕ) : (upwindDisc (0 : α) m).rhs q 0 i = 0 := by
  have hF : ∀ f, (upwindDisc (0 : α) m).faceFluxes q 0 f = 0 := by
    intro f
    simp only [Disc1D.faceFluxes, faceFlux]
    rw [show (upwindDisc (0 : α) m).flux = convFluxV 0 from rfl]
    simp [convFluxV, vec1, convFlux]
  have hr : (upwindDisc (0 : α) m).rhs q 0 i
      = -((upwindDisc (0 : α) m).faceFluxes q 0 (i + 1) - (upwindDisc (0 : α) m).faceFluxes q 0 i) / m.vol i := rfl
  rw [hr, hF, hF]; simp

/-- **first-order upwind, any speed `a`, CFL `|a| dt / vol_i ≤ 1` on every cell: one forward-Euler step
is TVD and keeps every range** (data-level form) -/
theorem upwind_euler_tvd (a dt : α) (hdt : 0 ≤ dt) (m : Mesh1D α) (hn : m.n = n)
    (hvol : ∀ i, i < m.n → 0 < m.vol i) (hcfl : ∀ i, i < m.n → |a| * dt / m.vol i ≤ 1) (s : α) (q : ℕ → ℕ → α) :
    tv (cycData (n := n) (C05.fe (fun _ x => (upwindDisc a m).rhs x) dt s q)) ≤ tv (cycData (n := n) q)
    ∧ ∀ lo hi, q ∈ InRange n lo hi → C05.fe (fun _ x => (upwindDisc a m).rhs x) dt s q ∈ InRange n lo hi := by
  have key : tv (cycData (n := n) (C05.fe (fun _ x => (upwindDisc a m).rhs x) dt s q)) ≤ tv (cycData (n := n) q)
      ∧ ∀ lo hi, (∀ z : ZMod n, lo ≤ cycData q z ∧ cycData q z ≤ hi) →
        ∀ z : ZMod n, lo ≤ cycData (C05.fe (fun _ x => (upwindDisc a m).rhs x) dt s q) z
          ∧ cycData (C05.fe (fun _ x => (upwindDisc a m).rhs x) dt s q) z ≤ hi := by
    rcases lt_trichotomy a 0 with ha | ha | ha
    · exact upwind_step_tvd_neg a dt ha hdt m hn hvol (fun i hi => by rw [← abs_of_neg ha]; exact hcfl i hi) q
    · subst ha
      have e : cycData (n := n) (C05.fe (fun _ x => (upwindDisc (0 : α) m).rhs x) dt s q) = cycData q := by
        funext z
        show q 0 z.val + dt * (upwindDisc (0 : α) m).rhs q 0 z.val = q 0 z.val
        rw [upwind_rhs_zero]; ring
      rw [e]
      exact ⟨le_rfl, fun _ _ h => h⟩
    · exact upwind_step_tvd a dt ha hdt m hn hvol (fun i hi => by rw [← abs_of_pos ha]; exact hcfl i hi) q
  refine ⟨key.1, fun lo hi h => ?_⟩
  rw [inRange_iff] at h ⊢
  exact key.2 lo hi h

/-- **first-order upwind convection with `explicit`, `rk2_heun`, `rk3ssp`** on any periodic mesh, speed of either
sign, `|a| dt ≤ vol_i`: the step is TVD and keeps every range `[lo, hi]` -/
theorem upwind_ssp_tvd (a dt : α) (hdt : 0 ≤ dt) (m : Mesh1D α) (hn : m.n = n)
    (hvol : ∀ i, i < m.n → 0 < m.vol i) (hcfl : ∀ i, i < m.n → |a| * dt / m.vol i ≤ 1) (t : α) (q : ℕ → ℕ → α) :
    ∀ v ∈ sspSteps (fun _ x => (upwindDisc a m).rhs x) dt t q,
      tv (cycData (n := n) v) ≤ tv (cycData (n := n) q) ∧ ∀ lo hi, q ∈ InRange n lo hi → v ∈ InRange n lo hi := by
  intro v hv
  exact (ssp_tvd_of_euler (n := n) _ dt Set.univ convex_univ
    (fun s x _ => ⟨trivial, upwind_euler_tvd a dt hdt m hn hvol hcfl s x⟩) t q trivial v hv).2

/-- non-vacuity: 3 cells of width 1, speed `-2`, `dt = 1/2` (CFL = 1), any data -/
example (q : ℕ → ℕ → ℚ) :
    ∀ v ∈ sspSteps (fun (_ : ℚ) x => (upwindDisc (-2 : ℚ) (uniMesh 3 3 0)).rhs x) (1/2) 0 q,
      tv (cycData (n := 3) v) ≤ tv (cycData (n := 3) q)
        ∧ ∀ lo hi : ℚ, q ∈ InRange 3 lo hi → v ∈ InRange 3 lo hi :=
  upwind_ssp_tvd (n := 3) (-2) (1/2) (by norm_num) (uniMesh 3 3 0) rfl
    (fun i _ => by rw [uni_vol]; norm_num) (fun i _ => by rw [uni_vol]; norm_num [abs_of_neg]) 0 q

/-! ### MUSCL with a Sweby-region limiter on a uniform periodic mesh, either sign -/

omit [LinearOrder α] [IsStrictOrderedRing α] [NeZero n] in
/-- MUSCL right state at face `f` in cyclic form -/
theorem recRCyc_muscl (lim : α → α → α) {n : ℕ} (hn : 0 < n) (h : α) (d : ℕ → α) (f : ℕ) :
    recRCyc (Scheme.muscl lim) n h d f
      = cyc n d f + lim (gradCyc n h d f) (gradCyc n h d (f + 1)) * (-(h / 2)) := by
  show cyc n d f + lim (gradCyc n h d ((f + n) % n)) (gradCyc n h d ((f + n + 1) % n)) * (-(h / 2)) = _
  have e1 : gradCyc n h d ((f + n) % n) = gradCyc n h d f := by
    apply gradCyc_mod_congr hn
    rw [Nat.mod_mod, Nat.add_mod_right]
  have e2 : gradCyc n h d ((f + n + 1) % n) = gradCyc n h d (f + 1) := by
    apply gradCyc_mod_congr hn
    rw [Nat.mod_mod, show f + n + 1 = f + 1 + n by omega, Nat.add_mod_right]
  rw [e1, e2]

/-- residual for `a < 0` in cyclic indices: `-(a/h) [(u_{i+1} - τ_{i+1} h/2) - (u_i - τ_i h/2)]` with the limited
slope `τ_i = lim (g_i) (g_{i+1})`, `g_j = (u_j - u_{j-1})/h` -/
theorem muscl_rhs_neg (lim : α → α → α) (a : α) (ha : a < 0) (L x0 : α) (hL : 0 < L) (q : ℕ → ℕ → α) (i : ℕ) (hi : i < n) :
    (let h := L / n
     let u : ℕ → α := fun j => q 0 (j % n)
     let g : ℕ → α := fun j => (u j - u (j + n - 1)) / h
     let τ : ℕ → α := fun j => lim (g j) (g (j + 1))
     (musclDisc lim a n L x0).rhs q 0 i
       = -(a / h) * ((u (i + 1) - τ (i + 1) * (h / 2)) - (u i - τ i * (h / 2)))) := by
  intro h u g τ
  have hn : 0 < n := NeZero.pos n
  have hd : (fun c => convC2P (fun l => q l c) 0) = q 0 := by
    funext c; simp only [convC2P, vec1, one_mul]
  have h1 := recRCyc_muscl lim hn h (q 0) (i + 1)
  have h0 := recRCyc_muscl lim hn h (q 0) i
  unfold musclDisc
  rw [rhs_periodic_uniform_eq_cyc n hn L x0 hL _ _ _ q 0 i hi]
  unfold rhsCyc
  simp only [convFluxV, vec1, convFlux_neg _ _ _ ha, hd]
  rw [h1, h0]
  show -(a * (u (i + 1) + τ (i + 1) * (-(h / 2))) - a * (u i + τ i * (-(h / 2)))) / h = _
  ring

/-- `a = 0`: nothing moves -/
theorem muscl_rhs_zero (lim : α → α → α) (L x0 : α) (hL : 0 < L) (q : ℕ → ℕ → α) (i : ℕ) (hi : i < n) :
    (musclDisc lim (0 : α) n L x0).rhs q 0 i = 0 := by
  have hn : 0 < n := NeZero.pos n
  unfold musclDisc
  rw [rhs_periodic_uniform_eq_cyc n hn L x0 hL _ _ _ q 0 i hi]
  unfold rhsCyc
  simp [convFluxV, vec1, convFlux]

omit [NeZero n] in
/-- one cell of the MUSCL step for a negative speed, in incremental form (from `muscl_cell_incr` by `u ↦ -u`,
left ↔ right): with `gp = (up - uz)/h` the update is `uz + d (up - uz)`, `0 ≤ d ≤ 1` when `0 ≤ ν ≤ 1/2` -/
theorem muscl_cell_incr_neg (lim : α → α → α) (hlim : Sweby lim) (uz up h gpp gm ν : α) (hh : 0 < h)
    (hν : 0 ≤ ν ∧ ν ≤ 1 / 2) :
    ∃ d : α, 0 ≤ d ∧ d ≤ 1 ∧
      uz + ν * ((up - lim ((up - uz) / h) gpp * (h / 2)) - (uz - lim gm ((up - uz) / h) * (h / 2)))
        = uz + d * (up - uz) := by
  obtain ⟨c, hc0, hc1, hce⟩ := muscl_cell_incr lim hlim (-up) (-uz) h gm gpp ν hh hν
  have e : -uz - -up = up - uz := by ring
  rw [e] at hce
  exact ⟨c, hc0, hc1, by linear_combination (-1 : α) * hce⟩

/-- **MUSCL + Sweby limiter, a < 0, 0 ≤ -a dt/h ≤ 1/2: one explicit Euler step is TVD and keeps the range.**
No symmetry of the limiter is needed beyond Sweby's region (which is symmetric in the two slopes). -/
theorem muscl_step_tvd_neg (lim : α → α → α) (hlim : Sweby lim) (a dt : α) (ha : a < 0) (hdt : 0 ≤ dt) (L x0 : α)
    (hL : 0 < L) (hcfl : -a * dt / (L / n) ≤ 1 / 2) (q : ℕ → ℕ → α) :
    (let u : ZMod n → α := fun z => q 0 z.val
     let u' : ZMod n → α := fun z => q 0 z.val + dt * (musclDisc lim a n L x0).rhs q 0 z.val
     tv u' ≤ tv u ∧ ∀ lo hi, (∀ z, lo ≤ u z ∧ u z ≤ hi) → ∀ z, lo ≤ u' z ∧ u' z ≤ hi) := by
  intro u u'
  have hn : 0 < n := NeZero.pos n
  have hn1 : 1 ≤ n := hn
  have hnα : (0 : α) < n := Nat.cast_pos.mpr hn
  have hpos : 0 < L / n := div_pos hL hnα
  have hν0 : 0 ≤ -a * dt / (L / n) := div_nonneg (mul_nonneg (neg_nonneg.mpr ha.le) hdt) hpos.le
  have cast_pred : ∀ j : ℕ, ((j + n - 1 : ℕ) : ZMod n) = (j : ZMod n) - 1 := by
    intro j
    rw [Nat.add_sub_assoc hn1, Nat.cast_add, Nat.cast_sub hn1, ZMod.natCast_self, Nat.cast_one, zero_sub,
      sub_eq_add_neg]
  have u_nat : ∀ j : ℕ, q 0 (j % n) = u (j : ZMod n) := by
    intro j
    show _ = q 0 ((j : ZMod n).val)
    rw [ZMod.val_natCast]
  have key : ∀ z : ZMod n, (musclDisc lim a n L x0).rhs q 0 z.val
      = -(a / (L / n)) *
        ((u (z + 1) - lim ((u (z + 1) - u z) / (L / n)) ((u (z + 1 + 1) - u (z + 1)) / (L / n)) * (L / n / 2))
          - (u z - lim ((u z - u (z - 1)) / (L / n)) ((u (z + 1) - u z) / (L / n)) * (L / n / 2))) := by
    intro z
    have := muscl_rhs_neg lim a ha L x0 hL q z.val (ZMod.val_lt z)
    simp only [] at this
    rw [this]
    simp only [u_nat, cast_pred, Nat.cast_add, Nat.cast_one, ZMod.natCast_zmod_val, add_sub_cancel_right]
  choose D hD0 hD1 hDe using fun z : ZMod n =>
    muscl_cell_incr_neg lim hlim (u z) (u (z + 1)) (L / n) ((u (z + 1 + 1) - u (z + 1)) / (L / n))
      ((u z - u (z - 1)) / (L / n)) (-a * dt / (L / n)) hpos ⟨hν0, hcfl⟩
  set C : ZMod n → α := fun _ => 0 with hCdef
  have hu' : u' = incr u C D := by
    funext z
    show q 0 z.val + dt * (musclDisc lim a n L x0).rhs q 0 z.val
      = u z - 0 * (u z - u (z - 1)) + D z * (u (z + 1) - u z)
    rw [key z, zero_mul, sub_zero, ← hDe z]
    show u z + _ = _
    ring
  have hC : ∀ z, 0 ≤ C z := fun _ => le_rfl
  rw [hu']
  refine ⟨harten_tvd u C D hC hD0 (fun z => ?_), ?_⟩
  · show 0 + D z ≤ 1
    rw [zero_add]; exact hD1 _
  · intro lo hi hb z
    exact harten_max_principle u C D hC hD0 (fun z => by show 0 + D z ≤ 1; rw [zero_add]; exact hD1 z)
      lo hi (fun z => (hb z).1) (fun z => (hb z).2) z

/-- **MUSCL, any speed `a`, `|a| dt / h ≤ 1/2`: one forward-Euler step is TVD and keeps every range**
(data-level form) -/
theorem muscl_euler_tvd (lim : α → α → α) (hlim : Sweby lim) (a dt : α) (hdt : 0 ≤ dt) (L x0 : α) (hL : 0 < L)
    (hcfl : |a| * dt / (L / n) ≤ 1 / 2) (s : α) (q : ℕ → ℕ → α) :
    tv (cycData (n := n) (C05.fe (fun _ x => (musclDisc lim a n L x0).rhs x) dt s q)) ≤ tv (cycData (n := n) q)
    ∧ ∀ lo hi, q ∈ InRange n lo hi → C05.fe (fun _ x => (musclDisc lim a n L x0).rhs x) dt s q ∈ InRange n lo hi := by
  have key : tv (cycData (n := n) (C05.fe (fun _ x => (musclDisc lim a n L x0).rhs x) dt s q)) ≤ tv (cycData (n := n) q)
      ∧ ∀ lo hi, (∀ z : ZMod n, lo ≤ cycData q z ∧ cycData q z ≤ hi) →
        ∀ z : ZMod n, lo ≤ cycData (C05.fe (fun _ x => (musclDisc lim a n L x0).rhs x) dt s q) z
          ∧ cycData (C05.fe (fun _ x => (musclDisc lim a n L x0).rhs x) dt s q) z ≤ hi := by
    rcases lt_trichotomy a 0 with ha | ha | ha
    · exact muscl_step_tvd_neg lim hlim a dt ha hdt L x0 hL (by rw [← abs_of_neg ha]; exact hcfl) q
    · subst ha
      have e : cycData (n := n) (C05.fe (fun _ x => (musclDisc lim (0 : α) n L x0).rhs x) dt s q) = cycData q := by
        funext z
        show q 0 z.val + dt * (musclDisc lim (0 : α) n L x0).rhs q 0 z.val = q 0 z.val
        rw [muscl_rhs_zero lim L x0 hL q z.val (ZMod.val_lt z)]; ring
      rw [e]
      exact ⟨le_rfl, fun _ _ h => h⟩
    · exact muscl_step_tvd lim hlim a dt ha hdt L x0 hL (by rw [← abs_of_pos ha]; exact hcfl) q
  refine ⟨key.1, fun lo hi h => ?_⟩
  rw [inRange_iff] at h ⊢
  exact key.2 lo hi h

/-- **MUSCL (any limiter in Sweby's region) with `explicit`, `rk2_heun`, `rk3ssp`** on the uniform periodic mesh,
speed of either sign, `|a| dt / h ≤ 1/2`: the step is TVD and keeps every range `[lo, hi]` -/
theorem muscl_ssp_tvd (lim : α → α → α) (hlim : Sweby lim) (a dt : α) (hdt : 0 ≤ dt) (L x0 : α) (hL : 0 < L)
    (hcfl : |a| * dt / (L / n) ≤ 1 / 2) (t : α) (q : ℕ → ℕ → α) :
    ∀ v ∈ sspSteps (fun _ x => (musclDisc lim a n L x0).rhs x) dt t q,
      tv (cycData (n := n) v) ≤ tv (cycData (n := n) q) ∧ ∀ lo hi, q ∈ InRange n lo hi → v ∈ InRange n lo hi := by
  intro v hv
  exact (ssp_tvd_of_euler (n := n) _ dt Set.univ convex_univ
    (fun s x _ => ⟨trivial, muscl_euler_tvd lim hlim a dt hdt L x0 hL hcfl s x⟩) t q trivial v hv).2

/-- non-vacuity: superbee, 4 cells of width 1/2, speed `-1`, `dt = 1/4` (CFL = 1/2), any data -/
example (q : ℕ → ℕ → ℚ) :
    ∀ v ∈ sspSteps (fun (_ : ℚ) x => (musclDisc superbee (-1 : ℚ) 4 2 0).rhs x) (1/4) 0 q,
      tv (cycData (n := 4) v) ≤ tv (cycData (n := 4) q)
        ∧ ∀ lo hi : ℚ, q ∈ InRange 4 lo hi → v ∈ InRange 4 lo hi :=
  muscl_ssp_tvd (n := 4) superbee sweby_superbee (-1) (1/4) (by norm_num) 2 0 (by norm_num)
    (by norm_num [abs_of_neg]) 0 q

/-- non-vacuity of `muscl_step_tvd_neg` alone: van Leer with the code's regularisation constants -/
example (q : ℕ → ℕ → ℚ) :=
  muscl_step_tvd_neg (n := 5) (vanleer (Gen.vanleer_pmin : ℚ) Gen.vanleer_eps)
    (sweby_vanleer _ _ (by norm_num [Gen.vanleer_pmin]) (by norm_num [Gen.vanleer_eps]))
    (-3) (1/6) (by norm_num) (by norm_num) 5 0 (by norm_num) (by norm_num) q

/-! ### first-order Burgers with the code's upwind flux (no entropy fix), any periodic mesh -/

/-- the periodic first-order Burgers discretisation on an arbitrary mesh -/
def burgersDisc (m : Mesh1D α) : Disc1D α ℕ :=
  { mesh := m, scheme := Scheme.extrapol1, bc := BC1D.periodic, c2p := burgersC2P, flux := burgersFluxV,
    src := fun _ => none }

omit [NeZero n] in
theorem burgers_pL (m : Mesh1D α) (hn : 0 < m.n) (q : ℕ → ℕ → α) (f : ℕ) (hf : f ≤ m.n) :
    (burgersDisc m).pL q 0 f = q 0 ((f + m.n - 1) % m.n) := by
  simp only [Disc1D.pL, bcFaceL, burgersDisc, Disc1D.pL0, recL, slopeL, Disc1D.pdata, burgersC2P]
  by_cases h0 : f = 0
  · subst h0
    have hne : m.n ≠ 0 := by omega
    have hmod : (0 + m.n - 1) % m.n = m.n - 1 := by
      rw [Nat.zero_add]; exact Nat.mod_eq_of_lt (by omega)
    rw [hmod]
    simp [hne]
  · have hmod : (f + m.n - 1) % m.n = f - 1 := by
      rw [show f + m.n - 1 = (f - 1) + m.n by omega, Nat.add_mod_right]
      exact Nat.mod_eq_of_lt (by omega)
    rw [hmod]
    simp [h0]

omit [NeZero n] in
theorem burgers_pR (m : Mesh1D α) (hn : 0 < m.n) (q : ℕ → ℕ → α) (f : ℕ) (hf : f ≤ m.n) :
    (burgersDisc m).pR q 0 f = q 0 (f % m.n) := by
  simp only [Disc1D.pR, bcFaceR, burgersDisc, Disc1D.pR0, recR, slopeR, Disc1D.pdata, burgersC2P]
  by_cases h0 : f = m.n
  · subst h0
    have hne : (0 : ℕ) ≠ m.n := by omega
    rw [Nat.mod_self]
    simp [hne]
  · rw [Nat.mod_eq_of_lt (by omega)]
    simp [h0]

omit [NeZero n] in
/-- residual of cell `i`, indices cyclic -/
theorem burgers_rhs (m : Mesh1D α) (hn : 0 < m.n) (q : ℕ → ℕ → α) (i : ℕ) (hi : i < m.n) :
    (burgersDisc m).rhs q 0 i
      = -(burgersFlux (q 0 i) (q 0 ((i + 1) % m.n)) - burgersFlux (q 0 ((i + m.n - 1) % m.n)) (q 0 i)) / m.vol i := by
  have hL1 := burgers_pL m hn q (i + 1) (by omega)
  have hL0 := burgers_pL m hn q i (by omega)
  have hR1 := burgers_pR m hn q (i + 1) (by omega)
  have hR0 := burgers_pR m hn q i (by omega)
  have hmod : (i + 1 + m.n - 1) % m.n = i := by
    rw [show i + 1 + m.n - 1 = i + m.n by omega, Nat.add_mod_right]
    exact Nat.mod_eq_of_lt hi
  rw [hmod] at hL1
  rw [Nat.mod_eq_of_lt hi] at hR0
  have hF : ∀ f, (burgersDisc m).faceFluxes q 0 f
      = burgersFlux ((burgersDisc m).pL q 0 f) ((burgersDisc m).pR q 0 f) := by
    intro f
    simp only [Disc1D.faceFluxes, faceFlux]
    rw [show (burgersDisc m).flux = burgersFluxV from rfl]
    simp only [burgersFluxV, vec1]
  have hr : (burgersDisc m).rhs q 0 i
      = -((burgersDisc m).faceFluxes q 0 (i + 1) - (burgersDisc m).faceFluxes q 0 i) / m.vol i := rfl
  rw [hr, hF, hF, hL1, hL0, hR1, hR0]

omit [NeZero n] in
/-- `f(uL) - F(uL,uR) = -min(s,0) (uR - uL)` with the Roe speed `s = (uL+uR)/2` -/
theorem burgersFlux_sub_left (uL uR : α) :
    uL ^ 2 / 2 - burgersFlux uL uR = -(min ((uL + uR) / 2) 0) * (uR - uL) := by
  unfold burgersFlux burgersFluxG
  simp only []
  split_ifs with h1 h2
  · rw [min_eq_right h1.le]; ring
  · rw [min_eq_left h2.le]; ring
  · rw [min_eq_right (not_lt.mp h2)]; ring

omit [NeZero n] in
/-- `F(uL,uR) - f(uR) = -max(s,0) (uR - uL)`; at `s = 0` the code returns `uL²/2 = uR²/2` -/
theorem burgersFlux_sub_right (uL uR : α) :
    burgersFlux uL uR - uR ^ 2 / 2 = -(max ((uL + uR) / 2) 0) * (uR - uL) := by
  unfold burgersFlux burgersFluxG
  simp only []
  split_ifs with h1 h2
  · rw [max_eq_left h1.le]; ring
  · rw [max_eq_right h2.le]; ring
  · have h0 : (uL + uR) / 2 = 0 := le_antisymm (not_lt.mp h1) (not_lt.mp h2)
    rw [h0, max_self]
    have : uR = -uL := by linarith
    rw [this]; ring

/-- **first-order Burgers, `|u_j| ≤ M` and `M dt ≤ vol_i`: one forward-Euler step is TVD and keeps every range**
(Harten's lemma with `C_i = (dt/vol_i) max(s_{i-1/2},0)`, `D_i = -(dt/vol_i) min(s_{i+1/2},0)`) -/
theorem burgers_step_tvd (dt : α) (hdt : 0 ≤ dt) (m : Mesh1D α) (hn : m.n = n)
    (hvol : ∀ i, i < m.n → 0 < m.vol i) (M : α) (q : ℕ → ℕ → α) (hM : ∀ i, i < m.n → |q 0 i| ≤ M)
    (hcfl : ∀ i, i < m.n → M * dt / m.vol i ≤ 1) :
    (let u : ZMod n → α := fun z => q 0 z.val
     let u' : ZMod n → α := fun z => q 0 z.val + dt * (burgersDisc m).rhs q 0 z.val
     tv u' ≤ tv u ∧ ∀ lo hi, (∀ z, lo ≤ u z ∧ u z ≤ hi) → ∀ z, lo ≤ u' z ∧ u' z ≤ hi) := by
  intro u u'
  have hnpos : 0 < m.n := by rw [hn]; exact Nat.pos_of_ne_zero (NeZero.ne n)
  have hlt : ∀ z : ZMod n, z.val < m.n := fun z => by rw [hn]; exact ZMod.val_lt z
  have hub : ∀ z : ZMod n, -M ≤ u z ∧ u z ≤ M := fun z => abs_le.mp (hM z.val (hlt z))
  have hM0 : 0 ≤ M := le_trans (abs_nonneg _) (hM 0 hnpos)
  set lam : ZMod n → α := fun z => dt / m.vol z.val with hlam
  have hlam0 : ∀ z, 0 ≤ lam z := fun z => div_nonneg hdt (hvol z.val (hlt z)).le
  have hlamM : ∀ z, lam z * M ≤ 1 := fun z => by
    have := hcfl z.val (hlt z)
    rwa [show M * dt / m.vol z.val = dt / m.vol z.val * M by ring] at this
  set C : ZMod n → α := fun z => lam z * max ((u (z - 1) + u z) / 2) 0 with hCdef
  set D : ZMod n → α := fun z => -(lam z * min ((u z + u (z + 1)) / 2) 0) with hDdef
  have hu' : u' = incr u C D := by
    funext z
    show q 0 z.val + dt * (burgersDisc m).rhs q 0 z.val
      = u z - lam z * max ((u (z - 1) + u z) / 2) 0 * (u z - u (z - 1))
        + -(lam z * min ((u z + u (z + 1)) / 2) 0) * (u (z + 1) - u z)
    rw [burgers_rhs m hnpos q z.val (hlt z)]
    have e1 : q 0 ((z.val + 1) % m.n) = u (z + 1) := by
      show _ = q 0 (z + 1).val
      rw [val_add_one z, hn]
    have e2 : q 0 ((z.val + m.n - 1) % m.n) = u (z - 1) := by
      show _ = q 0 (z - 1).val
      rw [val_sub_one z, hn]
    rw [e1, e2]
    have hl := burgersFlux_sub_left (u z) (u (z + 1))
    have hr := burgersFlux_sub_right (u (z - 1)) (u z)
    show u z + dt * (-(burgersFlux (u z) (u (z + 1)) - burgersFlux (u (z - 1)) (u z)) / m.vol z.val) = _
    have e3 : -(burgersFlux (u z) (u (z + 1)) - burgersFlux (u (z - 1)) (u z))
        = -(min ((u z + u (z + 1)) / 2) 0) * (u (z + 1) - u z)
          - max ((u (z - 1) + u z) / 2) 0 * (u z - u (z - 1)) := by
      linear_combination hl + hr
    rw [e3]
    simp only [hlam]
    ring
  have hC : ∀ z, 0 ≤ C z := fun z => mul_nonneg (hlam0 z) (le_max_right _ _)
  have hD : ∀ z, 0 ≤ D z := fun z => by
    have : lam z * min ((u z + u (z + 1)) / 2) 0 ≤ 0 :=
      mul_nonpos_of_nonneg_of_nonpos (hlam0 z) (min_le_right _ _)
    show 0 ≤ -(lam z * min ((u z + u (z + 1)) / 2) 0)
    linarith
  rw [hu']
  refine ⟨harten_tvd u C D hC hD (fun z => ?_), ?_⟩
  · show lam (z + 1) * max ((u (z + 1 - 1) + u (z + 1)) / 2) 0 + -(lam z * min ((u z + u (z + 1)) / 2) 0) ≤ 1
    rw [add_sub_cancel_right]
    obtain ⟨a1, a2⟩ := hub z
    obtain ⟨b1, b2⟩ := hub (z + 1)
    rcases le_total ((u z + u (z + 1)) / 2) 0 with hs | hs
    · rw [max_eq_right hs, min_eq_left hs, mul_zero, zero_add]
      have h1 : -((u z + u (z + 1)) / 2) ≤ M := by linarith
      have := mul_le_mul_of_nonneg_left h1 (hlam0 z)
      have := hlamM z
      linarith
    · rw [max_eq_left hs, min_eq_right hs, mul_zero, neg_zero, add_zero]
      have h1 : (u z + u (z + 1)) / 2 ≤ M := by linarith
      have := mul_le_mul_of_nonneg_left h1 (hlam0 (z + 1))
      have := hlamM (z + 1)
      linarith
  · intro lo hi hb z
    refine harten_max_principle u C D hC hD (fun z => ?_) lo hi (fun z => (hb z).1) (fun z => (hb z).2) z
    show lam z * max ((u (z - 1) + u z) / 2) 0 + -(lam z * min ((u z + u (z + 1)) / 2) 0) ≤ 1
    obtain ⟨a1, a2⟩ := hub z
    obtain ⟨b1, b2⟩ := hub (z + 1)
    obtain ⟨c1, c2⟩ := hub (z - 1)
    have hX : max ((u (z - 1) + u z) / 2) 0 - min ((u z + u (z + 1)) / 2) 0 ≤ M := by
      rcases le_total ((u (z - 1) + u z) / 2) 0 with h1 | h1 <;>
        rcases le_total ((u z + u (z + 1)) / 2) 0 with h2 | h2
      · rw [max_eq_right h1, min_eq_left h2]; linarith
      · rw [max_eq_right h1, min_eq_right h2]; linarith
      · rw [max_eq_left h1, min_eq_left h2]; linarith
      · rw [max_eq_left h1, min_eq_right h2]; linarith
    have := mul_le_mul_of_nonneg_left hX (hlam0 z)
    have := hlamM z
    linarith

/-- data-level form: on the set `|u_j| ≤ M` the Euler step keeps the set, is TVD and keeps every range -/
theorem burgers_euler_tvd (dt : α) (hdt : 0 ≤ dt) (m : Mesh1D α) (hn : m.n = n)
    (hvol : ∀ i, i < m.n → 0 < m.vol i) (M : α) (hcfl : ∀ i, i < m.n → M * dt / m.vol i ≤ 1) (s : α)
    (q : ℕ → ℕ → α) (hq : q ∈ InRange n (-M) M) :
    C05.fe (fun _ x => (burgersDisc m).rhs x) dt s q ∈ InRange n (-M) M
    ∧ tv (cycData (n := n) (C05.fe (fun _ x => (burgersDisc m).rhs x) dt s q)) ≤ tv (cycData (n := n) q)
    ∧ ∀ lo hi, q ∈ InRange n lo hi → C05.fe (fun _ x => (burgersDisc m).rhs x) dt s q ∈ InRange n lo hi := by
  have key := burgers_step_tvd dt hdt m hn hvol M q (fun i hi => abs_le.mpr (hq i (hn ▸ hi))) hcfl
  simp only [] at key
  have hr : ∀ lo hi, q ∈ InRange n lo hi → C05.fe (fun _ x => (burgersDisc m).rhs x) dt s q ∈ InRange n lo hi := by
    intro lo hi h
    rw [inRange_iff] at h ⊢
    exact key.2 lo hi h
  exact ⟨hr _ _ hq, key.1, hr⟩

/-- **first-order Burgers with `explicit`, `rk2_heun`, `rk3ssp`** on any periodic mesh: if `|u_j| ≤ M` for the data
at the beginning of the step and `M dt ≤ vol_i` for every cell, the step is TVD and keeps every range `[lo, hi]`.
(The code's time step `min_i cfl·vol_i/|u_i|` gives this with `M = max_j |u_j|` on a uniform mesh for `cfl ≤ 1`;
on a non-uniform mesh it only bounds `|u_i| dt ≤ vol_i` cell by cell, which is weaker than the hypothesis here.) -/
theorem burgers_ssp_tvd (dt : α) (hdt : 0 ≤ dt) (m : Mesh1D α) (hn : m.n = n)
    (hvol : ∀ i, i < m.n → 0 < m.vol i) (M : α) (hcfl : ∀ i, i < m.n → M * dt / m.vol i ≤ 1) (t : α)
    (q : ℕ → ℕ → α) (hq : q ∈ InRange n (-M) M) :
    ∀ v ∈ sspSteps (fun _ x => (burgersDisc m).rhs x) dt t q,
      tv (cycData (n := n) v) ≤ tv (cycData (n := n) q) ∧ ∀ lo hi, q ∈ InRange n lo hi → v ∈ InRange n lo hi := by
  intro v hv
  exact (ssp_tvd_of_euler (n := n) _ dt (InRange n (-M) M) (inRange_convex _ _)
    (fun s x hx => burgers_euler_tvd dt hdt m hn hvol M hcfl s x hx) t q hq v hv).2

/-- non-vacuity of `burgers_step_tvd`: 4 cells of width 1/2, data of both signs with a sonic point
(`u_1 + u_2 = 0`), `M = 2`, `dt = 1/4` (CFL = 1) -/
example :=
  burgers_step_tvd (n := 4) (1/4 : ℚ) (by norm_num) (uniMesh 4 2 0) rfl (fun i _ => by rw [uni_vol]; norm_num) 2
    (fun _ i => if i = 0 then 2 else if i = 1 then 1 else if i = 2 then -1 else -2)
    (fun i hi => by
      have : i = 0 ∨ i = 1 ∨ i = 2 ∨ i = 3 := by change i < 4 at hi; omega
      rcases this with rfl | rfl | rfl | rfl <;> norm_num [abs_le])
    (fun i _ => by rw [uni_vol]; norm_num)

/-- non-vacuity of `burgers_ssp_tvd`: any data with `|u_j| ≤ 2` -/
example (q : ℕ → ℕ → ℚ) (hq : q ∈ InRange 4 (-2) 2) :
    ∀ v ∈ sspSteps (fun (_ : ℚ) x => (burgersDisc (uniMesh 4 2 0)).rhs x) (1/4) 0 q,
      tv (cycData (n := 4) v) ≤ tv (cycData (n := 4) q)
        ∧ ∀ lo hi : ℚ, q ∈ InRange 4 lo hi → v ∈ InRange 4 lo hi :=
  burgers_ssp_tvd (n := 4) (1/4) (by norm_num) (uniMesh 4 2 0) rfl (fun i _ => by rw [uni_vol]; norm_num) 2
    (fun i _ => by rw [uni_vol]; norm_num) 0 q hq

end Instances

/-! ## 3. whole solves: the driver `run` (any save times, stop criteria, monitors) -/
section Driver
variable {σ α V D : Type} [Field α] [LinearOrder α] [IsStrictOrderedRing α]

/-- the current data, every stored snapshot and every state of the (ghost) trajectory satisfy `Q` -/
def AllQ (Q : V → Prop) (st : DrvState σ α V) : Prop :=
  Q st.data ∧ (∀ r ∈ st.results, Q r.data) ∧ ∀ x ∈ st.traj, Q x.2

/-- side steps: each is a step from the current state with the scalar `ts - time`, `0 < ts - time ≤ mindt` -/
theorem sideSnaps_allQ (c : DrvCfg σ α V D) (Q : V → Prop)
    (hside : ∀ s t q d, Q q → 0 < d → d ≤ c.minDt (c.calcDt t q) → Q (c.step s (c.scalar d) t q).2.2)
    (m : α) (fuel : ℕ) (st : DrvState σ α V) (hm : m ≤ c.minDt (c.calcDt st.time st.data)) (h : AllQ Q st) :
    AllQ Q (c.sideSnaps m st fuel) ∧ (c.sideSnaps m st fuel).time = st.time
      ∧ (c.sideSnaps m st fuel).data = st.data := by
  induction fuel generalizing st with
  | zero => exact ⟨h, rfl, rfl⟩
  | succ k ih =>
    rw [DrvCfg.sideSnaps]
    split
    · rename_i ts hts
      split_ifs with h1 h2
      · have hq : Q (c.step st.sol (c.scalar (ts - st.time)) st.time st.data).2.2 :=
          hside _ _ _ _ h.1 (sub_pos.mpr h2) (by linarith)
        refine ih _ hm ⟨h.1, ?_, h.2.2⟩
        intro r hr
        rcases List.mem_append.mp hr with hr | hr
        · exact h.2.1 r hr
        · rw [List.mem_singleton] at hr; subst hr; exact hq
      · refine ih _ hm ⟨h.1, ?_, h.2.2⟩
        intro r hr
        rcases List.mem_append.mp hr with hr | hr
        · exact h.2.1 r hr
        · rw [List.mem_singleton] at hr; subst hr; exact h.1
      · exact ⟨h, rfl, rfl⟩
    · exact ⟨h, rfl, rfl⟩

theorem initialSnaps_allQ (c : DrvCfg σ α V D) (Q : V → Prop) (fuel : ℕ) (st : DrvState σ α V) (h : AllQ Q st) :
    AllQ Q (c.initialSnaps st fuel) := by
  induction fuel generalizing st with
  | zero => exact h
  | succ k ih =>
    rw [DrvCfg.initialSnaps]
    split
    · split_ifs
      · refine ih _ ⟨h.1, ?_, h.2.2⟩
        intro r hr
        rcases List.mem_append.mp hr with hr | hr
        · exact h.2.1 r hr
        · rw [List.mem_singleton] at hr; subst hr; exact h.1
      · exact h
    · exact h

theorem iteration_allQ (c : DrvCfg σ α V D) (Q : V → Prop)
    (hfull : ∀ s t q, Q q →
      Q (c.step s (if c.dtlocal then c.calcDt t q else c.scalar (c.minDt (c.calcDt t q))) t q).2.2)
    (hside : ∀ s t q d, Q q → 0 < d → d ≤ c.minDt (c.calcDt t q) → Q (c.step s (c.scalar d) t q).2.2)
    (st : DrvState σ α V) (h : AllQ Q st) : AllQ Q (c.iteration st) := by
  obtain ⟨h1, ht, hd⟩ := sideSnaps_allQ c Q hside (c.minDt (c.calcDt st.time st.data)) (c.tsave.length + 1) st le_rfl h
  have key : ∀ (P : Prop) [Decidable P] (s : DrvState σ α V), AllQ Q s →
      AllQ Q (if P then { s with results := [⟨s.time, (c.itstart + s.nit : ℕ), s.data⟩] } else s) := by
    intro P _ s hs
    split
    · refine ⟨hs.1, ?_, hs.2.2⟩
      intro r hr
      rw [List.mem_singleton] at hr; subst hr; exact hs.1
    · exact hs
  unfold DrvCfg.iteration
  dsimp only
  apply key
  have hq := hfull (c.sideSnaps (c.minDt (c.calcDt st.time st.data)) st (c.tsave.length + 1)).sol st.time st.data h.1
  rw [ht, hd]
  refine ⟨hq, h1.2.1, ?_⟩
  intro x hx
  rcases List.mem_cons.mp hx with hx | hx
  · subst hx; exact hq
  · exact h1.2.2 x hx

theorem loop_allQ (c : DrvCfg σ α V D) (Q : V → Prop)
    (hfull : ∀ s t q, Q q →
      Q (c.step s (if c.dtlocal then c.calcDt t q else c.scalar (c.minDt (c.calcDt t q))) t q).2.2)
    (hside : ∀ s t q d, Q q → 0 < d → d ≤ c.minDt (c.calcDt t q) → Q (c.step s (c.scalar d) t q).2.2)
    (fuel : ℕ) (st : DrvState σ α V) (h : AllQ Q st) : AllQ Q (c.loop fuel st).1 := by
  induction fuel generalizing st with
  | zero => exact h
  | succ k ih =>
    rw [DrvCfg.loop]
    split_ifs
    · exact h
    · exact ih _ (iteration_allQ c Q hfull hside st h)

/-- **a property of the data that every step handed out by the driver preserves holds for the final state, for
every stored snapshot (including those produced by side steps) and along the whole trajectory.**
`hfull`: the full step with the time step computed from the current state; `hside`: a side step with any scalar
`0 < d ≤ min(dt)` (the driver uses `d = tsave - time`). -/
theorem run_allQ (c : DrvCfg σ α V D) (Q : V → Prop)
    (hfull : ∀ s t q, Q q →
      Q (c.step s (if c.dtlocal then c.calcDt t q else c.scalar (c.minDt (c.calcDt t q))) t q).2.2)
    (hside : ∀ s t q d, Q q → 0 < d → d ≤ c.minDt (c.calcDt t q) → Q (c.step s (c.scalar d) t q).2.2)
    (fuel : ℕ) (s0 : σ) (t0 : α) (q0 : V) (h0 : Q q0) : AllQ Q (c.run fuel s0 t0 q0).1 := by
  unfold DrvCfg.run
  dsimp only
  apply loop_allQ c Q hfull hside
  apply initialSnaps_allQ
  refine ⟨h0, ?_, ?_⟩
  · intro r hr; simp [DrvCfg.parseMonitors] at hr
  · intro x hx
    simp only [DrvCfg.parseMonitors, List.mem_singleton] at hx
    subst hx; exact h0

end Driver

section DriverTVD
variable {σ α D : Type} [Field α] [LinearOrder α] [IsStrictOrderedRing α]
variable {n : ℕ} [NeZero n]

/-- "no more variation than the initial data `q0`, and inside every range that contains `q0`" -/
def TvdRel (n : ℕ) [NeZero n] (q0 q : ℕ → ℕ → α) : Prop :=
  tv (cycData (n := n) q) ≤ tv (cycData (n := n) q0) ∧ ∀ lo hi, q0 ∈ InRange n lo hi → q ∈ InRange n lo hi

/-- **whole solves with a global (scalar) time step and one of the SSP integrators.**
`hstep`: the data returned by the integrator for a scalar step `d` is that of `explicit`, `rk2_heun` or `rk3ssp`
for the operator `R`;  `hS`: such a step is TVD and range preserving whenever `0 ≤ d ≤ min(calc_timestep)`
(the CFL hypothesis; supplied by `upwind_ssp_tvd`, `muscl_ssp_tvd`, `burgers_ssp_tvd`); both hypotheses on the time
step are only needed for states `q` that are already no worse than the initial data (`TvdRel n q0 q`).
Then the final state, every stored snapshot (side steps use `d = tsave - time ∈ (0, min dt]`) and every state of
the trajectory have at most the initial total variation and lie in every range containing the initial data. -/
theorem ssp_run_tvd (R : α → (ℕ → ℕ → α) → (ℕ → ℕ → α)) (c : DrvCfg σ α (ℕ → ℕ → α) D) (hloc : c.dtlocal = false)
    (hstep : ∀ s d t q, (c.step s (c.scalar d) t q).2.2 ∈ sspSteps R d t q) (q0 : ℕ → ℕ → α)
    (hdt0 : ∀ t q, TvdRel n q0 q → 0 ≤ c.minDt (c.calcDt t q))
    (hS : ∀ t q d, TvdRel n q0 q → 0 ≤ d → d ≤ c.minDt (c.calcDt t q) → ∀ v ∈ sspSteps R d t q,
      tv (cycData (n := n) v) ≤ tv (cycData (n := n) q) ∧ ∀ lo hi, q ∈ InRange n lo hi → v ∈ InRange n lo hi)
    (fuel : ℕ) (s0 : σ) (t0 : α) :
    AllQ (TvdRel n q0) (c.run fuel s0 t0 q0).1 := by
  have hside : ∀ s t q d, TvdRel n q0 q → 0 ≤ d → d ≤ c.minDt (c.calcDt t q) →
      TvdRel n q0 (c.step s (c.scalar d) t q).2.2 := by
    intro s t q d hq hd0 hd
    obtain ⟨h1, h2⟩ := hS t q d hq hd0 hd _ (hstep s d t q)
    exact ⟨le_trans h1 hq.1, fun lo hi h => h2 lo hi (hq.2 lo hi h)⟩
  refine run_allQ c (TvdRel n q0) ?_ (fun s t q d hq hd0 hd => hside s t q d hq hd0.le hd) fuel s0 t0 q0
    ⟨le_rfl, fun _ _ h => h⟩
  intro s t q hq
  rw [hloc]
  exact hside s t q _ hq (hdt0 t q hq) le_rfl

/-- **MUSCL, whole solve**: `|a| · min(dt) ≤ h/2` for the time step computed from any state -/
theorem muscl_run_tvd (lim : α → α → α) (hlim : Sweby lim) (a L x0 : α) (hL : 0 < L)
    (c : DrvCfg σ α (ℕ → ℕ → α) D) (hloc : c.dtlocal = false)
    (hstep : ∀ s d t q, (c.step s (c.scalar d) t q).2.2
      ∈ sspSteps (fun _ x => (musclDisc lim a n L x0).rhs x) d t q)
    (hcfl : ∀ t q, 0 ≤ c.minDt (c.calcDt t q) ∧ |a| * c.minDt (c.calcDt t q) / (L / n) ≤ 1 / 2)
    (fuel : ℕ) (s0 : σ) (t0 : α) (q0 : ℕ → ℕ → α) :
    AllQ (TvdRel n q0) (c.run fuel s0 t0 q0).1 := by
  have hpos : 0 < L / n := div_pos hL (Nat.cast_pos.mpr (NeZero.pos n))
  refine ssp_run_tvd _ c hloc hstep q0 (fun t q _ => (hcfl t q).1) ?_ fuel s0 t0
  intro t q d _ hd0 hd
  refine muscl_ssp_tvd lim hlim a d hd0 L x0 hL ?_ t q
  refine le_trans ?_ (hcfl t q).2
  exact div_le_div_of_nonneg_right (mul_le_mul_of_nonneg_left hd (abs_nonneg a)) hpos.le

/-- **first-order upwind, whole solve**: `|a| · min(dt) ≤ vol_i` for the time step computed from any state -/
theorem upwind_run_tvd (a : α) (m : Mesh1D α) (hn : m.n = n) (hvol : ∀ i, i < m.n → 0 < m.vol i)
    (c : DrvCfg σ α (ℕ → ℕ → α) D) (hloc : c.dtlocal = false)
    (hstep : ∀ s d t q, (c.step s (c.scalar d) t q).2.2 ∈ sspSteps (fun _ x => (upwindDisc a m).rhs x) d t q)
    (hcfl : ∀ t q, 0 ≤ c.minDt (c.calcDt t q) ∧ ∀ i, i < m.n → |a| * c.minDt (c.calcDt t q) / m.vol i ≤ 1)
    (fuel : ℕ) (s0 : σ) (t0 : α) (q0 : ℕ → ℕ → α) :
    AllQ (TvdRel n q0) (c.run fuel s0 t0 q0).1 := by
  refine ssp_run_tvd _ c hloc hstep q0 (fun t q _ => (hcfl t q).1) ?_ fuel s0 t0
  intro t q d _ hd0 hd
  refine upwind_ssp_tvd a d hd0 m hn hvol (fun i hi => ?_) t q
  refine le_trans ?_ ((hcfl t q).2 i hi)
  exact div_le_div_of_nonneg_right (mul_le_mul_of_nonneg_left hd (abs_nonneg a)) (hvol i hi).le

/-- **first-order Burgers, whole solve**: for every state `q` (no worse than the initial data) there is a bound
`|q_j| ≤ M` with `M · min(dt) ≤ vol_i` for the time step computed from `q` -/
theorem burgers_run_tvd (m : Mesh1D α) (hn : m.n = n) (hvol : ∀ i, i < m.n → 0 < m.vol i)
    (c : DrvCfg σ α (ℕ → ℕ → α) D) (hloc : c.dtlocal = false)
    (hstep : ∀ s d t q, (c.step s (c.scalar d) t q).2.2 ∈ sspSteps (fun _ x => (burgersDisc m).rhs x) d t q)
    (q0 : ℕ → ℕ → α)
    (hcfl : ∀ t q, TvdRel n q0 q → 0 ≤ c.minDt (c.calcDt t q)
      ∧ ∃ M, q ∈ InRange n (-M) M ∧ ∀ i, i < m.n → M * c.minDt (c.calcDt t q) / m.vol i ≤ 1)
    (fuel : ℕ) (s0 : σ) (t0 : α) :
    AllQ (TvdRel n q0) (c.run fuel s0 t0 q0).1 := by
  refine ssp_run_tvd _ c hloc hstep q0 (fun t q hq => (hcfl t q hq).1) ?_ fuel s0 t0
  intro t q d hq hd0 hd
  obtain ⟨-, M, hM, hc⟩ := hcfl t q hq
  have hM0 : 0 ≤ M := by
    obtain ⟨h1, h2⟩ := hM 0 (NeZero.pos n)
    linarith
  refine burgers_ssp_tvd d hd0 m hn hvol M (fun i hi => ?_) t q hM
  refine le_trans ?_ (hc i hi)
  exact div_le_div_of_nonneg_right (mul_le_mul_of_nonneg_left hd hM0) (hvol i hi).le

/-- a driver configuration for the non-vacuity examples: `rk3ssp`, the code's time step `cfl * dx / |a|` of the
convection model (`convDt`), no hidden solver state, end time 1, two save times, one monitor -/
def exampleCfg (rhs : (ℕ → ℕ → ℚ) → (ℕ → ℕ → ℚ)) (a cfl dx : ℚ) : DrvCfg Unit ℚ (ℕ → ℕ → ℚ) ℚ :=
  { step := fun s d t q => (s, (rkStep (C05.castT Gen.butcher_rk3ssp) (fun _ x => rhs x) d t q).time,
                            (rkStep (C05.castT Gen.butcher_rk3ssp) (fun _ x => rhs x) d t q).data),
    keep := fun s _ => s, calcDt := fun _ _ => convDt a cfl dx, minDt := id, scalar := id, dtlocal := false,
    tottime := some 1, maxit := none, tsave := [3/10, 1], itstart := 0, monitors := [(2, fun _ q => q 0 0)] }

/-- non-vacuity of `muscl_run_tvd`: minmod, 4 cells of width 1/2, speed -1, CFL 1/2 (dt = 1/4) -/
example (fuel : ℕ) (q0 : ℕ → ℕ → ℚ) :
    AllQ (TvdRel 4 q0) ((exampleCfg (musclDisc minmod (-1 : ℚ) 4 2 0).rhs (-1) (1/2) (1/2)).run fuel () 0 q0).1 :=
  muscl_run_tvd (n := 4) minmod sweby_minmod (-1) 2 0 (by norm_num) _ rfl
    (fun s d t q => by simp [exampleCfg, sspSteps])
    (fun t q => by norm_num [exampleCfg, convDt, abs_of_neg]) fuel () 0 q0

/-- non-vacuity of `upwind_run_tvd`: 3 cells of width 1, speed 2, CFL 1 (dt = 1/2) -/
example (fuel : ℕ) (q0 : ℕ → ℕ → ℚ) :
    AllQ (TvdRel 3 q0) ((exampleCfg (upwindDisc (2 : ℚ) (uniMesh 3 3 0)).rhs 2 1 1).run fuel () 0 q0).1 :=
  upwind_run_tvd (n := 3) 2 (uniMesh 3 3 0) rfl (fun i _ => by rw [uni_vol]; norm_num) _ rfl
    (fun s d t q => by simp [exampleCfg, sspSteps])
    (fun t q => ⟨by norm_num [exampleCfg, convDt], fun i _ => by rw [uni_vol]; norm_num [exampleCfg, convDt]⟩)
    fuel () 0 q0

/-- non-vacuity of `burgers_run_tvd`: 3 cells of width 1, initial data with `|u_j| ≤ 2`, constant `dt = 1/2` -/
example (fuel : ℕ) (q0 : ℕ → ℕ → ℚ) (h0 : q0 ∈ InRange 3 (-2) 2) :
    AllQ (TvdRel 3 q0) ((exampleCfg (burgersDisc (uniMesh 3 3 0)).rhs 2 1 1).run fuel () 0 q0).1 :=
  burgers_run_tvd (n := 3) (uniMesh 3 3 0) rfl (fun i _ => by rw [uni_vol]; norm_num) _ rfl
    (fun s d t q => by simp [exampleCfg, sspSteps]) q0
    (fun t q hq => ⟨by norm_num [exampleCfg, convDt], 2, hq.2 _ _ h0,
      fun i _ => by rw [uni_vol]; norm_num [exampleCfg, convDt]⟩)
    fuel () 0

end DriverTVD

end Flowdyn.C09
