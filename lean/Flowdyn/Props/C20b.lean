/-
C20 (2D) — the Cartesian mesh: `nx·ny` cells of volume `dx·dy`, `(nx+1)·ny + nx·(ny+1)` faces; the four
boundary index tables are injective, pairwise disjoint, below `nbfaces`, and are exactly the images of the
structured boundary faces under the flattening maps (x-faces `j*(nx+1)+i`, then y-faces
`ny*(nx+1) + j*nx + i`).
-/
import Flowdyn.Model.FVM2D
import Mathlib.Algebra.Order.Field.Basic
import Mathlib.Data.List.Nodup
import Mathlib.Tactic.Ring
import Mathlib.Tactic.Linarith
import Mathlib.Tactic.FieldSimp
import Mathlib.Tactic.Positivity

namespace Flowdyn.C20
open Flowdyn
variable {α : Type} [Field α] [LinearOrder α] [IsStrictOrderedRing α]
set_option linter.unusedSectionVars false
set_option linter.unusedVariables false

/-- uniqueness of Euclidean division, in the form used by the flattening maps -/
private theorem flat_inj (n i j i' j' : ℕ) (hi : i < n) (hi' : i' < n)
    (h : j * n + i = j' * n + i') : i = i' ∧ j = j' := by
  rcases lt_trichotomy j j' with hlt | heq | hgt
  · exfalso
    have h1 : (j + 1) * n ≤ j' * n := Nat.mul_le_mul_right n hlt
    rw [Nat.succ_mul] at h1
    omega
  · subst heq
    exact ⟨by omega, rfl⟩
  · exfalso
    have h1 : (j' + 1) * n ≤ j * n := Nat.mul_le_mul_right n hgt
    rw [Nat.succ_mul] at h1
    omega

theorem mesh2d_counts (m : Mesh2D α) :
    m.ncell = m.nx * m.ny ∧ m.nbfaces = (m.nx + 1) * m.ny + m.nx * (m.ny + 1) := ⟨rfl, rfl⟩
theorem mesh2d_vol (m : Mesh2D α) (hx : 0 < m.lx) (hy : 0 < m.ly) (hnx : 0 < m.nx) (hny : 0 < m.ny) :
    m.vol = m.dx * m.dy ∧ 0 < m.vol ∧ (m.ncell : α) * m.vol = m.lx * m.ly := by
  have hnx' : (0 : α) < (m.nx : α) := Nat.cast_pos.mpr hnx
  have hny' : (0 : α) < (m.ny : α) := Nat.cast_pos.mpr hny
  refine ⟨rfl, ?_, ?_⟩
  · simp only [Mesh2D.vol, Mesh2D.dx, Mesh2D.dy]
    positivity
  · simp only [Mesh2D.vol, Mesh2D.dx, Mesh2D.dy, Mesh2D.ncell, Nat.cast_mul]
    field_simp

/-- the tables are the flattened structured boundary faces -/
theorem left_is_xface0 (m : Mesh2D α) : m.leftFaces = (List.range m.ny).map fun j => m.xFaceIdx 0 j := by
  simp only [Mesh2D.leftFaces, Mesh2D.xFaceIdx, Nat.add_zero]
theorem right_is_xfaceN (m : Mesh2D α) : m.rightFaces = (List.range m.ny).map fun j => m.xFaceIdx m.nx j := by
  simp only [Mesh2D.rightFaces, Mesh2D.xFaceIdx]
  refine List.map_congr_left fun j _ => ?_
  rw [Nat.succ_mul]
  omega
theorem bottom_is_yface0 (m : Mesh2D α) : m.bottomFaces = (List.range m.nx).map fun i => m.yFaceIdx i 0 := by
  simp only [Mesh2D.bottomFaces, Mesh2D.yFaceIdx, Nat.zero_mul, Nat.add_zero]
theorem top_is_yfaceN (m : Mesh2D α) : m.topFaces = (List.range m.nx).map fun i => m.yFaceIdx i m.ny := by
  simp only [Mesh2D.topFaces, Mesh2D.yFaceIdx]

/-- the flattening maps are injective on their index ranges and x-faces come before y-faces -/
theorem xFaceIdx_inj (m : Mesh2D α) (i j i' j' : ℕ) (hi : i ≤ m.nx) (hi' : i' ≤ m.nx)
    (h : m.xFaceIdx i j = m.xFaceIdx i' j') : i = i' ∧ j = j' :=
  flat_inj (m.nx + 1) i j i' j' (by omega) (by omega) h
theorem yFaceIdx_inj (m : Mesh2D α) (i j i' j' : ℕ) (hi : i < m.nx) (hi' : i' < m.nx)
    (h : m.yFaceIdx i j = m.yFaceIdx i' j') : i = i' ∧ j = j' := by
  simp only [Mesh2D.yFaceIdx] at h
  exact flat_inj m.nx i j i' j' hi hi' (by omega)
theorem xFace_lt_yFace (m : Mesh2D α) (i j i' j' : ℕ) (hi : i ≤ m.nx) (hj : j < m.ny) :
    m.xFaceIdx i j < m.yFaceIdx i' j' := by
  simp only [Mesh2D.xFaceIdx, Mesh2D.yFaceIdx]
  have h1 : (j + 1) * (m.nx + 1) ≤ m.ny * (m.nx + 1) := Nat.mul_le_mul_right _ hj
  rw [Nat.succ_mul] at h1
  omega
theorem faces_lt_nbfaces (m : Mesh2D α) (i j : ℕ) :
    (i ≤ m.nx → j < m.ny → m.xFaceIdx i j < m.nbfaces) ∧ (i < m.nx → j ≤ m.ny → m.yFaceIdx i j < m.nbfaces) := by
  simp only [Mesh2D.xFaceIdx, Mesh2D.yFaceIdx, Mesh2D.nbfaces]
  constructor
  · intro hi hj
    have h1 : (j + 1) * (m.nx + 1) ≤ m.ny * (m.nx + 1) := Nat.mul_le_mul_right _ hj
    rw [Nat.succ_mul, Nat.mul_comm m.ny] at h1
    omega
  · intro hi hj
    have h1 : j * m.nx ≤ m.ny * m.nx := Nat.mul_le_mul_right _ hj
    have h2 : m.nx * (m.ny + 1) = m.ny * m.nx + m.nx := by rw [Nat.mul_succ, Nat.mul_comm]
    have h3 : (m.nx + 1) * m.ny = m.ny * (m.nx + 1) := Nat.mul_comm _ _
    omega

private theorem mem_left (m : Mesh2D α) (f : ℕ) :
    f ∈ m.leftFaces ↔ ∃ j, j < m.ny ∧ m.xFaceIdx 0 j = f := by
  rw [left_is_xface0]; simp only [List.mem_map, List.mem_range]
private theorem mem_right (m : Mesh2D α) (f : ℕ) :
    f ∈ m.rightFaces ↔ ∃ j, j < m.ny ∧ m.xFaceIdx m.nx j = f := by
  rw [right_is_xfaceN]; simp only [List.mem_map, List.mem_range]
private theorem mem_bottom (m : Mesh2D α) (f : ℕ) :
    f ∈ m.bottomFaces ↔ ∃ i, i < m.nx ∧ m.yFaceIdx i 0 = f := by
  rw [bottom_is_yface0]; simp only [List.mem_map, List.mem_range]
private theorem mem_top (m : Mesh2D α) (f : ℕ) :
    f ∈ m.topFaces ↔ ∃ i, i < m.nx ∧ m.yFaceIdx i m.ny = f := by
  rw [top_is_yfaceN]; simp only [List.mem_map, List.mem_range]

/-- all four tables together: no repeated index (injective and pairwise disjoint), all below nbfaces -/
theorem bc_tables_nodup (m : Mesh2D α) (hnx : 0 < m.nx) (hny : 0 < m.ny) :
    (m.leftFaces ++ m.rightFaces ++ m.bottomFaces ++ m.topFaces).Nodup := by
  have hL : m.leftFaces.Nodup := by
    rw [left_is_xface0]
    refine List.Nodup.map_on (fun j _ j' _ h => ?_) List.nodup_range
    exact (xFaceIdx_inj m 0 j 0 j' (Nat.zero_le _) (Nat.zero_le _) h).2
  have hR : m.rightFaces.Nodup := by
    rw [right_is_xfaceN]
    refine List.Nodup.map_on (fun j _ j' _ h => ?_) List.nodup_range
    exact (xFaceIdx_inj m m.nx j m.nx j' le_rfl le_rfl h).2
  have hB : m.bottomFaces.Nodup := by
    rw [bottom_is_yface0]
    refine List.Nodup.map_on (fun i hi i' hi' h => ?_) List.nodup_range
    exact (yFaceIdx_inj m i 0 i' 0 (List.mem_range.mp hi) (List.mem_range.mp hi') h).1
  have hT : m.topFaces.Nodup := by
    rw [top_is_yfaceN]
    refine List.Nodup.map_on (fun i hi i' hi' h => ?_) List.nodup_range
    exact (yFaceIdx_inj m i m.ny i' m.ny (List.mem_range.mp hi) (List.mem_range.mp hi') h).1
  have hLR : (m.leftFaces ++ m.rightFaces).Nodup := by
    refine List.nodup_append.mpr ⟨hL, hR, ?_⟩
    intro a ha b hb hab
    obtain ⟨j, _, rfl⟩ := (mem_left m a).mp ha
    obtain ⟨j', _, hj'⟩ := (mem_right m b).mp hb
    have := (xFaceIdx_inj m 0 j m.nx j' (Nat.zero_le _) le_rfl (hab.trans hj'.symm)).1
    omega
  have hLRB : (m.leftFaces ++ m.rightFaces ++ m.bottomFaces).Nodup := by
    refine List.nodup_append.mpr ⟨hLR, hB, ?_⟩
    intro a ha b hb hab
    obtain ⟨i', _, hb'⟩ := (mem_bottom m b).mp hb
    rcases List.mem_append.mp ha with ha | ha
    · obtain ⟨j, hj, rfl⟩ := (mem_left m a).mp ha
      have := xFace_lt_yFace m 0 j i' 0 (Nat.zero_le _) hj
      omega
    · obtain ⟨j, hj, rfl⟩ := (mem_right m a).mp ha
      have := xFace_lt_yFace m m.nx j i' 0 le_rfl hj
      omega
  refine List.nodup_append.mpr ⟨hLRB, hT, ?_⟩
  intro a ha b hb hab
  obtain ⟨i', hi', hb'⟩ := (mem_top m b).mp hb
  rcases List.mem_append.mp ha with ha | ha
  · rcases List.mem_append.mp ha with ha | ha
    · obtain ⟨j, hj, rfl⟩ := (mem_left m a).mp ha
      have := xFace_lt_yFace m 0 j i' m.ny (Nat.zero_le _) hj
      omega
    · obtain ⟨j, hj, rfl⟩ := (mem_right m a).mp ha
      have := xFace_lt_yFace m m.nx j i' m.ny le_rfl hj
      omega
  · obtain ⟨i, hi, rfl⟩ := (mem_bottom m a).mp ha
    have := (yFaceIdx_inj m i 0 i' m.ny hi hi' (hab.trans hb'.symm)).2
    omega
theorem bc_tables_in_range (m : Mesh2D α) (hnx : 0 < m.nx) (hny : 0 < m.ny) :
    ∀ f ∈ m.leftFaces ++ m.rightFaces ++ m.bottomFaces ++ m.topFaces, f < m.nbfaces := by
  intro f hf
  rcases List.mem_append.mp hf with hf | hf
  · rcases List.mem_append.mp hf with hf | hf
    · rcases List.mem_append.mp hf with hf | hf
      · obtain ⟨j, hj, rfl⟩ := (mem_left m f).mp hf
        exact (faces_lt_nbfaces m 0 j).1 (Nat.zero_le _) hj
      · obtain ⟨j, hj, rfl⟩ := (mem_right m f).mp hf
        exact (faces_lt_nbfaces m m.nx j).1 le_rfl hj
    · obtain ⟨i, hi, rfl⟩ := (mem_bottom m f).mp hf
      exact (faces_lt_nbfaces m i 0).2 hi (Nat.zero_le _)
  · obtain ⟨i, hi, rfl⟩ := (mem_top m f).mp hf
    exact (faces_lt_nbfaces m i m.ny).2 hi le_rfl
/-- sizes: `ny` faces on the left and right, `nx` on the bottom and top -/
theorem bc_tables_length (m : Mesh2D α) :
    m.leftFaces.length = m.ny ∧ m.rightFaces.length = m.ny ∧ m.bottomFaces.length = m.nx ∧ m.topFaces.length = m.nx := by
  simp only [Mesh2D.leftFaces, Mesh2D.rightFaces, Mesh2D.bottomFaces, Mesh2D.topFaces,
    List.length_map, List.length_range, and_self]

/-- cell centres are the midpoints of the cells of the uniform grid -/
theorem centres2d (m : Mesh2D α) (i j : ℕ) :
    m.xc i = ((i : α) * m.dx + ((i : α) + 1) * m.dx) / 2 ∧ m.yc j = ((j : α) * m.dy + ((j : α) + 1) * m.dy) / 2 := by
  simp only [Mesh2D.xc, Mesh2D.yc, Mesh2D.dx, Mesh2D.dy]
  constructor <;> ring

end Flowdyn.C20
