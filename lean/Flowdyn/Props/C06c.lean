/-
C06c — the finite-difference Jacobian of a general (nonlinear) operator, over ℝ
(closes the PARTIAL entry of C06: "the finite-difference Jacobian equals the derivative of a general
nonlinear operator is a first-order statement in the perturbation").

`fdJac R q eps i j = (R (q + eps_j e_j) i − R q i) / eps_j` is the difference quotient (slope) of the
coordinate line `t ↦ R (q + t e_j) i` between `0` and `eps_j` (`fdJac_eq_slope`).  Hence

 1. convergence
  * `fdJac_tendsto_iff`       entry → `d` as `eps_j → 0, ≠ 0` **iff** `d` is the partial (line) derivative
  * `fdJac_tendsto`           entry → `R' e_j i` if `R` has the Fréchet derivative `R'` at `q`
  * `fdJac_tendsto_of/_matrix/_epsdiff`  same along any filter, as a matrix, and for the code's
                              `eps_j = epsdiff * scale_j`, `epsdiff → 0`
  * `fdJac_tendsto_right_iff` one-sided version (the code's perturbation is positive): the limit is the
                              right derivative — all that is left at kinks (`|·|`, limiters), where the
                              two-sided statement is false (example at the end)
 2. size of the error
  * `fdJac_quadratic(_error)` coordinate line `a + b t + c t²`: entry `= b + c eps_j`, error exactly `c eps_j`
  * `fdJac_error_bound(_C2/_fderiv)` derivative along the line `M`-Lipschitz at `0` on the segment
                              (resp. `|g''| ≤ M`, resp. Fréchet derivative `L`-Lipschitz): error `≤ M |eps_j| / 2`
                              (attained by the quadratic example: first order and no better)
 3. θ/ξ step (implicit, Crank–Nicolson, Gear) with the finite-difference instead of the exact Jacobian
  * `thetaSys_defect(_bound)`, `thetaStep_fdJac_defect`  backward error: the increment solves the exactly
                              linearised system up to a residual `|θ| (L E / 2) ‖ΔQ‖₁`, `E = max |eps_j|`
  * `thetaSys_error(_bound)`, `thetaStep_fdJac_error`    forward error `≤ |θ| ‖A⁻¹‖ (L E / 2) ‖ΔQ‖₁`
  * `thetaStep_fdJac_tendsto` the new state tends to that of the exactly linearised step as `eps → 0`
-/
import Flowdyn.Model.Implicit
import Flowdyn.Props.C06
import Mathlib.Analysis.Calculus.FDeriv.Basic
import Mathlib.Analysis.Calculus.FDeriv.Prod
import Mathlib.Analysis.Calculus.Deriv.Basic
import Mathlib.Analysis.Calculus.Deriv.Slope
import Mathlib.Analysis.Calculus.LineDeriv.Basic
import Mathlib.Analysis.Calculus.MeanValue
import Mathlib.Analysis.Calculus.Deriv.Mul
import Mathlib.Analysis.Calculus.Deriv.Add
import Mathlib.Analysis.Calculus.Deriv.Pow
import Mathlib.Analysis.Calculus.Deriv.Comp
import Mathlib.Analysis.Calculus.Deriv.Abs
import Mathlib.Analysis.Calculus.FDeriv.Mul
import Mathlib.Analysis.Calculus.FDeriv.Pi
import Mathlib.LinearAlgebra.Matrix.ToLin
import Mathlib.LinearAlgebra.Matrix.NonsingularInverse
import Mathlib.Topology.Algebra.GroupWithZero
import Mathlib.Topology.Algebra.Order.Field
import Mathlib.Algebra.Order.BigOperators.Ring.Finset
import Mathlib.Topology.Instances.Matrix
import Mathlib.Tactic.Ring
import Mathlib.Tactic.Linarith
import Mathlib.Tactic.FieldSimp

namespace Flowdyn.C06
open Flowdyn Filter Topology Matrix

section algebra
variable {α : Type} [Field α] {N : ℕ}

/-- the perturbed state of `calc_jacobian` is `q + t e_j` -/
theorem fdJac_perturb_eq (q : Vec α N) (j : Fin N) (t : α) :
    (fun l => if l = j then q l + t else q l) = q + t • (Pi.single j 1 : Vec α N) := by
  funext l
  by_cases h : l = j
  · subst h; simp
  · simp [h]

/-- an entry of the finite-difference Jacobian is the slope of the coordinate line -/
theorem fdJac_eq_slope (R : Vec α N → Vec α N) (q eps : Vec α N) (i j : Fin N) :
    fdJac R q eps i j
      = slope (fun t : α => R (q + t • (Pi.single j 1 : Vec α N)) i) 0 (eps j) := by
  unfold fdJac
  rw [fdJac_perturb_eq, slope_def_field]
  simp

/-- **Exact quadratic case** (any field): if the `i`-th component of `R` along the `j`-th coordinate
line through `q` is the quadratic `a + b t + c t²` (Burgers/Euler-type fluxes with the neighbours
frozen), the finite-difference entry is `b + c * eps_j`: the derivative `b` plus an error exactly
proportional to the perturbation. -/
theorem fdJac_quadratic (R : Vec α N → Vec α N) (q eps : Vec α N) (i j : Fin N) (a b c : α)
    (heps : eps j ≠ 0)
    (hquad : ∀ t : α, R (q + t • (Pi.single j 1 : Vec α N)) i = a + b * t + c * t ^ 2) :
    fdJac R q eps i j = b + c * eps j := by
  have h0 := hquad 0
  rw [zero_smul, add_zero] at h0
  unfold fdJac
  rw [fdJac_perturb_eq, hquad, h0]
  field_simp
  ring

end algebra

variable {N : ℕ}

/-- **Characterisation.**  An entry of the finite-difference Jacobian converges (perturbation → 0, ≠ 0)
to `d` iff `d` is the partial derivative of the `i`-th component of `R` in direction `e_j` at `q`. -/
theorem fdJac_tendsto_iff (R : Vec ℝ N → Vec ℝ N) (q : Vec ℝ N) (i j : Fin N) (d : ℝ) :
    Tendsto (fun e : ℝ => fdJac R q (fun _ => e) i j) (𝓝[≠] 0) (𝓝 d)
      ↔ HasLineDerivAt ℝ (fun v => R v i) d q (Pi.single j 1) := by
  unfold HasLineDerivAt
  rw [hasDerivAt_iff_tendsto_slope]
  simp only [fdJac_eq_slope]

/-- the partial derivatives of the components of a Fréchet-differentiable operator -/
theorem hasLineDerivAt_of_hasFDerivAt {R : Vec ℝ N → Vec ℝ N} {R' : Vec ℝ N →L[ℝ] Vec ℝ N} {q : Vec ℝ N}
    (hR : HasFDerivAt R R' q) (i j : Fin N) :
    HasLineDerivAt ℝ (fun v => R v i) (R' (Pi.single j 1) i) q (Pi.single j 1) :=
  ((hasFDerivAt_pi'.1 hR i).hasLineDerivAt (Pi.single j 1))

/-- general form: any family of perturbation vectors whose `j`-th entry tends to `0` through non-zero
values (along any filter) makes the `(i,j)` entry of the finite-difference Jacobian converge to the
partial derivative -/
theorem fdJac_tendsto_of {ι : Type} {l : Filter ι} (eps : ι → Vec ℝ N) (R : Vec ℝ N → Vec ℝ N)
    (q : Vec ℝ N) (i j : Fin N) (d : ℝ)
    (hd : HasLineDerivAt ℝ (fun v => R v i) d q (Pi.single j 1))
    (heps : Tendsto (fun k => eps k j) l (𝓝[≠] 0)) :
    Tendsto (fun k => fdJac R q (eps k) i j) l (𝓝 d) := by
  have h := (hasDerivAt_iff_tendsto_slope.1 hd).comp heps
  simpa only [fdJac_eq_slope, Function.comp_def] using h

/-- **C06 (first-order statement).**  If `R` has the Fréchet derivative `R'` at `q`, every entry of the
finite-difference Jacobian tends to the corresponding entry of `R'` as the perturbation tends to `0`
(through non-zero values). -/
theorem fdJac_tendsto (R : Vec ℝ N → Vec ℝ N) (R' : Vec ℝ N →L[ℝ] Vec ℝ N) (q : Vec ℝ N)
    (hR : HasFDerivAt R R' q) (i j : Fin N) :
    Tendsto (fun eps : ℝ => fdJac R q (fun _ => eps) i j) (nhdsWithin 0 {0}ᶜ)
      (nhds (R' (Pi.single j 1) i)) :=
  (fdJac_tendsto_iff R q i j _).2 (hasLineDerivAt_of_hasFDerivAt hR i j)

/-- the code's perturbation `eps_j = epsdiff * scale_j` with a non-zero scale (`mean |q|` or `1.0`):
convergence as `epsdiff → 0` -/
theorem fdJac_tendsto_epsdiff (R : Vec ℝ N → Vec ℝ N) (R' : Vec ℝ N →L[ℝ] Vec ℝ N) (q : Vec ℝ N)
    (hR : HasFDerivAt R R' q) (scale : Vec ℝ N) (i j : Fin N) (hs : scale j ≠ 0) :
    Tendsto (fun epsdiff : ℝ => fdJac R q (fun l => epsdiff * scale l) i j) (𝓝[≠] 0)
      (𝓝 (R' (Pi.single j 1) i)) := by
  refine fdJac_tendsto_of (fun epsdiff l => epsdiff * scale l) R q i j _
    (hasLineDerivAt_of_hasFDerivAt hR i j) ?_
  refine tendsto_nhdsWithin_iff.2 ⟨?_, ?_⟩
  · have h : Tendsto (fun e : ℝ => e * scale j) (𝓝 0) (𝓝 (0 * scale j)) :=
      (continuous_id.mul continuous_const).tendsto 0
    rw [zero_mul] at h
    exact h.mono_left nhdsWithin_le_nhds
  · filter_upwards [self_mem_nhdsWithin] with e he
    exact mul_ne_zero he hs

/-- matrix form: if all perturbations tend to `0` through non-zero values, the finite-difference
Jacobian tends to the Jacobian matrix of `R'` -/
theorem fdJac_tendsto_matrix {ι : Type} {l : Filter ι} (eps : ι → Vec ℝ N) (R : Vec ℝ N → Vec ℝ N)
    (R' : Vec ℝ N →L[ℝ] Vec ℝ N) (q : Vec ℝ N) (hR : HasFDerivAt R R' q)
    (heps : ∀ j, Tendsto (fun k => eps k j) l (𝓝[≠] 0)) :
    Tendsto (fun k => fdJac R q (eps k)) l
      (𝓝 (LinearMap.toMatrix' (R' : Vec ℝ N →ₗ[ℝ] Vec ℝ N))) := by
  refine tendsto_pi_nhds.2 fun i => tendsto_pi_nhds.2 fun j => ?_
  exact fdJac_tendsto_of eps R q i j _ (hasLineDerivAt_of_hasFDerivAt hR i j) (heps j)

/-- **One-sided characterisation** (the code's perturbation is positive): the entry converges as
`eps_j → 0⁺` to `d` iff `d` is the right derivative at `0` of the `i`-th component along the `j`-th
coordinate line.  This is what is left at kinks of limiters / upwind fluxes. -/
theorem fdJac_tendsto_right_iff (R : Vec ℝ N → Vec ℝ N) (q : Vec ℝ N) (i j : Fin N) (d : ℝ) :
    Tendsto (fun e : ℝ => fdJac R q (fun _ => e) i j) (𝓝[>] 0) (𝓝 d)
      ↔ HasDerivWithinAt (fun t : ℝ => R (q + t • (Pi.single j 1 : Vec ℝ N)) i) d (Set.Ici 0) 0 := by
  rw [← hasDerivWithinAt_Ioi_iff_Ici, hasDerivWithinAt_iff_tendsto_slope' (by simp)]
  simp only [fdJac_eq_slope]

/-- one-sided convergence for positive perturbations along any filter -/
theorem fdJac_tendsto_right_of {ι : Type} {l : Filter ι} (eps : ι → Vec ℝ N) (R : Vec ℝ N → Vec ℝ N)
    (q : Vec ℝ N) (i j : Fin N) (d : ℝ)
    (hd : HasDerivWithinAt (fun t : ℝ => R (q + t • (Pi.single j 1 : Vec ℝ N)) i) d (Set.Ici 0) 0)
    (heps : Tendsto (fun k => eps k j) l (𝓝[>] 0)) :
    Tendsto (fun k => fdJac R q (eps k) i j) l (𝓝 d) := by
  have h := ((fdJac_tendsto_right_iff R q i j d).2 hd).comp heps
  simpa only [fdJac, Function.comp_def] using h

/-! ### quantitative versions -/

/-- in the quadratic case the error against the true derivative is exactly `c * eps_j` -/
theorem fdJac_quadratic_error (R : Vec ℝ N → Vec ℝ N) (R' : Vec ℝ N →L[ℝ] Vec ℝ N) (q eps : Vec ℝ N)
    (hR : HasFDerivAt R R' q) (i j : Fin N) (a b c : ℝ) (heps : eps j ≠ 0)
    (hquad : ∀ t : ℝ, R (q + t • (Pi.single j 1 : Vec ℝ N)) i = a + b * t + c * t ^ 2) :
    fdJac R q eps i j - R' (Pi.single j 1) i = c * eps j := by
  have hb : R' (Pi.single j 1) i = b := by
    have h1 : HasLineDerivAt ℝ (fun v => R v i) b q (Pi.single j 1) := by
      unfold HasLineDerivAt
      simp only [hquad]
      have h := ((hasDerivAt_id (0 : ℝ)).const_mul b).const_add a |>.add
        (((hasDerivAt_id (0 : ℝ)).pow 2).const_mul c)
      refine HasDerivAt.congr_deriv (f := fun t : ℝ => a + b * t + c * t ^ 2) h ?_
      simp
    exact (hasLineDerivAt_of_hasFDerivAt hR i j).unique h1
  rw [fdJac_quadratic R q eps i j a b c heps hquad, hb]
  ring

/-- first-order Taylor estimate on a segment `[0,e]` or `[e,0]` for a function whose derivative is
`M`-Lipschitz at `0` -/
theorem line_taylor1 (g g' : ℝ → ℝ) (M e : ℝ)
    (hg : ∀ t ∈ Set.uIcc 0 e, HasDerivWithinAt g (g' t) (Set.uIcc 0 e) t)
    (hM : ∀ t ∈ Set.uIcc 0 e, |g' t - g' 0| ≤ M * |t|) :
    |g e - g 0 - g' 0 * e| ≤ M * e ^ 2 / 2 := by
  have hmaps : Set.MapsTo (fun s : ℝ => s * e) (Set.Icc 0 1) (Set.uIcc 0 e) := by
    intro s hs
    rw [Set.mem_uIcc]
    rcases le_total 0 e with h | h
    · left; constructor <;> nlinarith [hs.1, hs.2]
    · right; constructor <;> nlinarith [hs.1, hs.2]
  set f : ℝ → ℝ := fun s => g (s * e) - g 0 - g' 0 * (s * e) with hf
  have hf' : ∀ s ∈ Set.Icc (0:ℝ) 1,
      HasDerivWithinAt f ((g' (s * e) - g' 0) * e) (Set.Icc 0 1) s := by
    intro s hs
    have h1 : HasDerivWithinAt (fun s : ℝ => s * e) e (Set.Icc 0 1) s := by
      simpa using ((hasDerivAt_id s).mul_const e).hasDerivWithinAt
    have h2 := (hg (s * e) (hmaps hs)).comp s h1 hmaps
    have h3 := (h2.sub_const (g 0)).sub (h1.const_mul (g' 0))
    exact HasDerivWithinAt.congr_deriv (f := f) h3 (by ring)
  have key := image_norm_le_of_norm_deriv_right_le_deriv_boundary (f := f) (a := 0) (b := 1)
    (f' := fun s => (g' (s * e) - g' 0) * e) (B := fun s => M * e ^ 2 * s ^ 2 / 2)
    (B' := fun s => M * e ^ 2 * s)
    (fun s hs => (hf' s hs).continuousWithinAt)
    (fun s hs => (hf' s (Set.Ico_subset_Icc_self hs)).mono_of_mem_nhdsWithin
      (Icc_mem_nhdsGE_of_mem hs))
    (by simp [hf])
    (fun s => by
      have := (((hasDerivAt_id s).pow 2).const_mul (M * e ^ 2)).div_const 2
      refine HasDerivAt.congr_deriv (f := fun s => M * e ^ 2 * s ^ 2 / 2) this ?_
      simp only [id, Nat.cast_ofNat, Nat.add_one_sub_one, pow_one, mul_one]
      ring)
    (fun s hs => by
      have h := hM (s * e) (hmaps (Set.Ico_subset_Icc_self hs))
      rw [Real.norm_eq_abs, abs_mul]
      have hs0 : 0 ≤ s := hs.1
      rw [abs_mul, abs_of_nonneg hs0] at h
      calc |g' (s * e) - g' 0| * |e| ≤ M * (s * |e|) * |e| :=
            mul_le_mul_of_nonneg_right h (abs_nonneg e)
        _ = M * e ^ 2 * s := by rw [← sq_abs e]; ring)
    (x := 1) (by simp)
  simpa [hf, Real.norm_eq_abs] using key

/-- **Error bound.**  If along the `j`-th coordinate line through `q`, on the segment between `0` and
`eps_j`, the `i`-th component of `R` has derivative `g'` with `|g' t − g' 0| ≤ M |t|` (in particular if
it is C² there with `|g''| ≤ M`, see `fdJac_error_bound_C2`), then the finite-difference entry is
within `M |eps_j| / 2` of the derivative `g' 0`. -/
theorem fdJac_error_bound (R : Vec ℝ N → Vec ℝ N) (q eps : Vec ℝ N) (i j : Fin N) (g' : ℝ → ℝ)
    (M : ℝ) (heps : eps j ≠ 0)
    (hg : ∀ t ∈ Set.uIcc 0 (eps j),
      HasDerivWithinAt (fun t : ℝ => R (q + t • (Pi.single j 1 : Vec ℝ N)) i) (g' t)
        (Set.uIcc 0 (eps j)) t)
    (hM : ∀ t ∈ Set.uIcc 0 (eps j), |g' t - g' 0| ≤ M * |t|) :
    |fdJac R q eps i j - g' 0| ≤ M * |eps j| / 2 := by
  have h := line_taylor1 _ g' M (eps j) hg hM
  simp only [zero_smul, add_zero] at h
  have he : 0 < |eps j| := abs_pos.mpr heps
  have hrw : fdJac R q eps i j - g' 0
      = (R (q + eps j • (Pi.single j 1 : Vec ℝ N)) i - R q i - g' 0 * eps j) / eps j := by
    unfold fdJac
    rw [fdJac_perturb_eq]
    field_simp
  rw [hrw, abs_div, div_le_iff₀ he]
  calc _ ≤ M * eps j ^ 2 / 2 := h
    _ = M * |eps j| / 2 * |eps j| := by rw [← sq_abs (eps j)]; ring

/-- C² form of the error bound: second derivative along the coordinate line bounded by `M` on the
segment -/
theorem fdJac_error_bound_C2 (R : Vec ℝ N → Vec ℝ N) (q eps : Vec ℝ N) (i j : Fin N)
    (g' g'' : ℝ → ℝ) (M : ℝ) (heps : eps j ≠ 0)
    (hg : ∀ t ∈ Set.uIcc 0 (eps j),
      HasDerivWithinAt (fun t : ℝ => R (q + t • (Pi.single j 1 : Vec ℝ N)) i) (g' t)
        (Set.uIcc 0 (eps j)) t)
    (hg' : ∀ t ∈ Set.uIcc 0 (eps j), HasDerivWithinAt g' (g'' t) (Set.uIcc 0 (eps j)) t)
    (hM : ∀ t ∈ Set.uIcc 0 (eps j), |g'' t| ≤ M) :
    |fdJac R q eps i j - g' 0| ≤ M * |eps j| / 2 := by
  refine fdJac_error_bound R q eps i j g' M heps hg ?_
  intro t ht
  have h := Convex.norm_image_sub_le_of_norm_hasDerivWithin_le hg'
    (fun x hx => by simpa [Real.norm_eq_abs] using hM x hx) (convex_uIcc 0 (eps j))
    Set.left_mem_uIcc ht
  simpa [Real.norm_eq_abs] using h

/-- Fréchet form of the error bound: `R` differentiable along the segment from `q` to `q + eps_j e_j`
with a derivative that is `L`-Lipschitz at `q` along it (operator norm for the sup norm on vectors):
the `(i,j)` entry of the finite-difference Jacobian is within `L |eps_j| / 2` of the entry of the
Jacobian -/
theorem fdJac_error_bound_fderiv (R : Vec ℝ N → Vec ℝ N) (R' : Vec ℝ N → Vec ℝ N →L[ℝ] Vec ℝ N)
    (q eps : Vec ℝ N) (i j : Fin N) (L : ℝ) (heps : eps j ≠ 0)
    (hR : ∀ t ∈ Set.uIcc 0 (eps j),
      HasFDerivAt R (R' (q + t • (Pi.single j 1 : Vec ℝ N))) (q + t • (Pi.single j 1 : Vec ℝ N)))
    (hL : ∀ t ∈ Set.uIcc 0 (eps j), ‖R' (q + t • (Pi.single j 1 : Vec ℝ N)) - R' q‖ ≤ L * |t|) :
    |fdJac R q eps i j - R' q (Pi.single j 1) i| ≤ L * |eps j| / 2 := by
  set e : Vec ℝ N := Pi.single j 1 with he
  have h := fdJac_error_bound R q eps i j (fun t => R' (q + t • e) e i) L heps ?_ ?_
  · simpa only [zero_smul, add_zero] using h
  · intro t ht
    have hline : HasDerivAt (fun t : ℝ => q + t • e) e t := by
      simpa using ((hasDerivAt_id t).smul_const e).const_add q
    exact ((hasFDerivAt_pi'.1 (hR t ht) i).comp_hasDerivAt t hline).hasDerivWithinAt
  · intro t ht
    simp only [zero_smul, add_zero]
    have h1 : R' (q + t • e) e i - R' q e i = ((R' (q + t • e) - R' q) e) i := by
      simp
    rw [h1, ← Real.norm_eq_abs]
    calc ‖((R' (q + t • e) - R' q) e) i‖ ≤ ‖(R' (q + t • e) - R' q) e‖ := norm_le_pi_norm _ i
      _ ≤ ‖R' (q + t • e) - R' q‖ * ‖e‖ := ContinuousLinearMap.le_opNorm _ _
      _ = ‖R' (q + t • e) - R' q‖ := by rw [he, Pi.norm_single, norm_one, mul_one]
      _ ≤ L * |t| := hL t ht

/-! ### consequences for the θ/ξ step -/

section step
variable {α : Type} [Field α] {N : ℕ}

/-- the system matrix is affine in the Jacobian -/
theorem sysMat_sub (θ ξ : α) (J J' : Mat α N) (dtv : Vec α N) :
    sysMat θ ξ J dtv = sysMat θ ξ J' dtv + θ • (J' - J) := by
  funext i j
  simp only [sysMat, Matrix.add_apply, Matrix.smul_apply, Matrix.sub_apply, smul_eq_mul]
  ring

/-- **Defect identity.**  The solution of the θ-system formed with any Jacobian `Jfd` solves the
system formed with `J` up to the residual `θ (Jfd − J) x`. -/
theorem thetaSys_defect (solve : Mat α N → Vec α N → Vec α N) (θ ξ : α) (J Jfd : Mat α N)
    (dtv rhs : Vec α N)
    (hsolve : (sysMat θ ξ Jfd dtv).mulVec (solve (sysMat θ ξ Jfd dtv) rhs) = rhs) :
    (sysMat θ ξ J dtv).mulVec (solve (sysMat θ ξ Jfd dtv) rhs)
      = rhs + θ • (Jfd - J).mulVec (solve (sysMat θ ξ Jfd dtv) rhs) := by
  rw [sysMat_sub θ ξ J Jfd dtv, Matrix.add_mulVec, hsolve, Matrix.smul_mulVec]

end step

variable {N : ℕ}

theorem thetaSys_defect_bound (solve : Mat ℝ N → Vec ℝ N → Vec ℝ N) (θ ξ : ℝ) (J Jfd : Mat ℝ N)
    (dtv rhs : Vec ℝ N) (δ : ℝ) (hδ : ∀ i j, |Jfd i j - J i j| ≤ δ)
    (hsolve : (sysMat θ ξ Jfd dtv).mulVec (solve (sysMat θ ξ Jfd dtv) rhs) = rhs) (i : Fin N) :
    |(sysMat θ ξ J dtv).mulVec (solve (sysMat θ ξ Jfd dtv) rhs) i - rhs i|
      ≤ |θ| * δ * ∑ j, |solve (sysMat θ ξ Jfd dtv) rhs j| := by
  rw [thetaSys_defect solve θ ξ J Jfd dtv rhs hsolve]
  set x := solve (sysMat θ ξ Jfd dtv) rhs
  simp only [Pi.add_apply, Pi.smul_apply, smul_eq_mul, add_sub_cancel_left, abs_mul, mul_assoc]
  refine mul_le_mul_of_nonneg_left ?_ (abs_nonneg θ)
  simp only [Matrix.mulVec, dotProduct, Matrix.sub_apply, Finset.mul_sum]
  refine (Finset.abs_sum_le_sum_abs _ _).trans (Finset.sum_le_sum fun j _ => ?_)
  rw [abs_mul]
  exact mul_le_mul_of_nonneg_right (hδ i j) (abs_nonneg _)

/-- **θ-step with the finite-difference Jacobian, backward error `O(eps)`.**  Under the hypotheses of
`fdJac_error_bound_fderiv` for every column and perturbations bounded by `E`, the increment
`ΔQ = Q' − Q` of the model's θ/ξ step (implicit, Crank–Nicolson, Gear) satisfies the system linearised
with the *exact* Jacobian up to a residual `|θ| (L E / 2) ‖ΔQ‖₁` in every row. -/
theorem thetaStep_fdJac_defect (solve : Mat ℝ N → Vec ℝ N → Vec ℝ N) (θ ξ : ℝ)
    (R : Vec ℝ N → Vec ℝ N) (R' : Vec ℝ N → Vec ℝ N →L[ℝ] Vec ℝ N) (q eps dtv last : Vec ℝ N)
    (dtm t L E : ℝ) (heps : ∀ j, eps j ≠ 0) (hE : ∀ j, |eps j| ≤ E) (hL0 : 0 ≤ L)
    (hdtv : ∀ i, dtv i ≠ 0)
    (hR : ∀ j, ∀ t ∈ Set.uIcc 0 (eps j),
      HasFDerivAt R (R' (q + t • (Pi.single j 1 : Vec ℝ N))) (q + t • (Pi.single j 1 : Vec ℝ N)))
    (hL : ∀ j, ∀ t ∈ Set.uIcc 0 (eps j),
      ‖R' (q + t • (Pi.single j 1 : Vec ℝ N)) - R' q‖ ≤ L * |t|)
    (hsolve : (sysMat θ ξ (fdJac R q eps) dtv).mulVec
        (solve (sysMat θ ξ (fdJac R q eps) dtv) (fun i => R q i + ξ * last i))
          = fun i => R q i + ξ * last i) :
    (let o := thetaStep solve θ ξ (fdJac R q eps) R dtv dtm last t q
     let dq : Vec ℝ N := fun i => o.data i - q i
     ∀ i, |(sysMat θ ξ (LinearMap.toMatrix' (R' q : Vec ℝ N →ₗ[ℝ] Vec ℝ N)) dtv).mulVec dq i
            - (R q i + ξ * last i)| ≤ |θ| * (L * E / 2) * ∑ j, |dq j|) := by
  intro o dq i
  have hdq : dq = solve (sysMat θ ξ (fdJac R q eps) dtv) (fun i => R q i + ξ * last i) := by
    funext k
    simp only [dq, o, thetaStep]
    have := hdtv k
    field_simp
    ring
  rw [hdq]
  refine thetaSys_defect_bound solve θ ξ _ (fdJac R q eps) dtv _ (L * E / 2) ?_ hsolve i
  intro i j
  rw [LinearMap.toMatrix'_apply]
  refine (fdJac_error_bound_fderiv R R' q eps i j L (heps j) (hR j) (hL j)).trans ?_
  have := mul_le_mul_of_nonneg_left (hE j) hL0
  linarith

/-- a square system with invertible matrix has only one solution -/
theorem eq_inv_mulVec_of_mulVec_eq {A : Mat ℝ N} (hA : IsUnit A.det) {x rhs : Vec ℝ N}
    (h : A.mulVec x = rhs) : x = A⁻¹.mulVec rhs := by
  rw [← h, Matrix.mulVec_mulVec, Matrix.nonsing_inv_mul A hA, Matrix.one_mulVec]

/-- **θ-step: convergence to the Newton-linearised step.**  Let `solve` return a solution whenever the
matrix is invertible (the specification of `np.linalg.solve`).  If `R` is differentiable at `q` and the
system matrix formed with the exact Jacobian is invertible, then as all perturbations tend to `0`
(through non-zero values, along any filter) the state produced by the θ/ξ step with the
finite-difference Jacobian tends to the state produced with the exact Jacobian. -/
theorem thetaStep_fdJac_tendsto {ι : Type} {l : Filter ι} (solve : Mat ℝ N → Vec ℝ N → Vec ℝ N)
    (hsolve : ∀ (A : Mat ℝ N) (rhs : Vec ℝ N), IsUnit A.det → A.mulVec (solve A rhs) = rhs)
    (θ ξ : ℝ) (R : Vec ℝ N → Vec ℝ N) (R' : Vec ℝ N →L[ℝ] Vec ℝ N) (q : Vec ℝ N)
    (hR : HasFDerivAt R R' q) (eps : ι → Vec ℝ N)
    (heps : ∀ j, Tendsto (fun k => eps k j) l (𝓝[≠] 0)) (dtv last : Vec ℝ N) (dtm t : ℝ)
    (hdet : (sysMat θ ξ (LinearMap.toMatrix' (R' : Vec ℝ N →ₗ[ℝ] Vec ℝ N)) dtv).det ≠ 0) :
    Tendsto (fun k => (thetaStep solve θ ξ (fdJac R q (eps k)) R dtv dtm last t q).data) l
      (𝓝 (thetaStep solve θ ξ (LinearMap.toMatrix' (R' : Vec ℝ N →ₗ[ℝ] Vec ℝ N)) R dtv dtm
        last t q).data) := by
  set Jex : Mat ℝ N := LinearMap.toMatrix' (R' : Vec ℝ N →ₗ[ℝ] Vec ℝ N) with hJex
  set rhs : Vec ℝ N := fun i => R q i + ξ * last i with hrhs
  have hJ : Tendsto (fun k => fdJac R q (eps k)) l (𝓝 Jex) :=
    fdJac_tendsto_matrix eps R R' q hR heps
  have hcont : Continuous (fun J : Mat ℝ N => sysMat θ ξ J dtv) := by
    refine continuous_matrix fun i j => ?_
    exact continuous_const.sub (continuous_const.mul (continuous_id.matrix_elem i j))
  have hA : Tendsto (fun k => sysMat θ ξ (fdJac R q (eps k)) dtv) l (𝓝 (sysMat θ ξ Jex dtv)) :=
    (hcont.tendsto Jex).comp hJ
  have hdetk : ∀ᶠ k in l, (sysMat θ ξ (fdJac R q (eps k)) dtv).det ≠ 0 :=
    (((continuous_id.matrix_det).tendsto (sysMat θ ξ Jex dtv)).comp hA).eventually_ne hdet
  -- the solutions
  have hx : Tendsto (fun k => solve (sysMat θ ξ (fdJac R q (eps k)) dtv) rhs) l
      (𝓝 (solve (sysMat θ ξ Jex dtv) rhs)) := by
    have hinv : ContinuousAt Inv.inv (sysMat θ ξ Jex dtv) := by
      refine continuousAt_matrix_inv _ ?_
      rw [Ring.inverse_eq_inv']
      exact continuousAt_inv₀ hdet
    have h1 : Tendsto (fun k => (sysMat θ ξ (fdJac R q (eps k)) dtv)⁻¹.mulVec rhs) l
        (𝓝 ((sysMat θ ξ Jex dtv)⁻¹.mulVec rhs)) :=
      ((continuous_id.matrix_mulVec continuous_const).tendsto _).comp (hinv.tendsto.comp hA)
    rw [eq_inv_mulVec_of_mulVec_eq (isUnit_iff_ne_zero.2 hdet)
      (hsolve (sysMat θ ξ Jex dtv) rhs (isUnit_iff_ne_zero.2 hdet))]
    refine h1.congr' ?_
    filter_upwards [hdetk] with k hk
    exact (eq_inv_mulVec_of_mulVec_eq (isUnit_iff_ne_zero.2 hk)
      (hsolve _ rhs (isUnit_iff_ne_zero.2 hk))).symm
  simp only [thetaStep]
  refine tendsto_pi_nhds.2 fun i => ?_
  exact (((tendsto_pi_nhds.1 hx i).div_const (dtv i)).const_mul (dtv i)).const_add (q i)


/-- **Forward error identity.**  If the system matrix with the Jacobian `J` is invertible, the
solutions `x` (with `Jfd`) and `y` (with `J`) of the two θ-systems differ by
`θ A⁻¹ (Jfd − J) x`, `A = sysMat θ ξ J dtv`. -/
theorem thetaSys_error (θ ξ : ℝ) (J Jfd : Mat ℝ N) (dtv rhs x y : Vec ℝ N)
    (hdet : IsUnit (sysMat θ ξ J dtv).det)
    (hx : (sysMat θ ξ Jfd dtv).mulVec x = rhs) (hy : (sysMat θ ξ J dtv).mulVec y = rhs) :
    x - y = θ • (sysMat θ ξ J dtv)⁻¹.mulVec ((Jfd - J).mulVec x) := by
  have h : (sysMat θ ξ J dtv).mulVec (x - y) = θ • (Jfd - J).mulVec x := by
    rw [Matrix.mulVec_sub, hy, sysMat_sub θ ξ J Jfd dtv, Matrix.add_mulVec, hx, Matrix.smul_mulVec]
    abel
  rw [eq_inv_mulVec_of_mulVec_eq hdet h, Matrix.mulVec_smul]

/-- **Forward error bound, `O(eps)`.**  Entrywise: if `|Jfd − J| ≤ δ` entrywise then
`|x_i − y_i| ≤ |θ| (∑ₖ |A⁻¹ᵢₖ|) δ ‖x‖₁`. -/
theorem thetaSys_error_bound (θ ξ : ℝ) (J Jfd : Mat ℝ N) (dtv rhs x y : Vec ℝ N) (δ : ℝ)
    (hδ : ∀ i j, |Jfd i j - J i j| ≤ δ)
    (hdet : IsUnit (sysMat θ ξ J dtv).det)
    (hx : (sysMat θ ξ Jfd dtv).mulVec x = rhs) (hy : (sysMat θ ξ J dtv).mulVec y = rhs)
    (i : Fin N) :
    |x i - y i| ≤ |θ| * (∑ k, |(sysMat θ ξ J dtv)⁻¹ i k|) * (δ * ∑ j, |x j|) := by
  have h := congrFun (thetaSys_error θ ξ J Jfd dtv rhs x y hdet hx hy) i
  rw [Pi.sub_apply] at h
  rw [h, Pi.smul_apply, smul_eq_mul, abs_mul, mul_assoc]
  refine mul_le_mul_of_nonneg_left ?_ (abs_nonneg θ)
  have hE : ∀ k, |(Jfd - J).mulVec x k| ≤ δ * ∑ j, |x j| := by
    intro k
    simp only [Matrix.mulVec, dotProduct, Matrix.sub_apply, Finset.mul_sum]
    refine (Finset.abs_sum_le_sum_abs _ _).trans (Finset.sum_le_sum fun j _ => ?_)
    rw [abs_mul]
    exact mul_le_mul_of_nonneg_right (hδ k j) (abs_nonneg _)
  simp only [Matrix.mulVec, dotProduct] at hE ⊢
  rw [Finset.sum_mul]
  refine (Finset.abs_sum_le_sum_abs _ _).trans (Finset.sum_le_sum fun k _ => ?_)
  rw [abs_mul]
  exact mul_le_mul_of_nonneg_left (hE k) (abs_nonneg _)

/-- **θ-step with the finite-difference Jacobian, forward error `O(eps)`.**  Hypotheses of
`thetaStep_fdJac_defect`, and the system matrix `A` with the exact Jacobian invertible: the new state
differs from the one of the step linearised with the exact Jacobian by at most
`|θ| ‖A⁻¹‖_∞,row i (L E / 2) ‖ΔQ‖₁` in component `i`. -/
theorem thetaStep_fdJac_error (solve : Mat ℝ N → Vec ℝ N → Vec ℝ N) (θ ξ : ℝ)
    (R : Vec ℝ N → Vec ℝ N) (R' : Vec ℝ N → Vec ℝ N →L[ℝ] Vec ℝ N) (q eps dtv last : Vec ℝ N)
    (dtm t L E : ℝ) (heps : ∀ j, eps j ≠ 0) (hE : ∀ j, |eps j| ≤ E) (hL0 : 0 ≤ L)
    (hdtv : ∀ i, dtv i ≠ 0)
    (hR : ∀ j, ∀ t ∈ Set.uIcc 0 (eps j),
      HasFDerivAt R (R' (q + t • (Pi.single j 1 : Vec ℝ N))) (q + t • (Pi.single j 1 : Vec ℝ N)))
    (hL : ∀ j, ∀ t ∈ Set.uIcc 0 (eps j),
      ‖R' (q + t • (Pi.single j 1 : Vec ℝ N)) - R' q‖ ≤ L * |t|)
    (hdet : IsUnit (sysMat θ ξ (LinearMap.toMatrix' (R' q : Vec ℝ N →ₗ[ℝ] Vec ℝ N)) dtv).det)
    (hsolve_fd : (sysMat θ ξ (fdJac R q eps) dtv).mulVec
        (solve (sysMat θ ξ (fdJac R q eps) dtv) (fun i => R q i + ξ * last i))
          = fun i => R q i + ξ * last i)
    (hsolve_ex : (sysMat θ ξ (LinearMap.toMatrix' (R' q : Vec ℝ N →ₗ[ℝ] Vec ℝ N)) dtv).mulVec
        (solve (sysMat θ ξ (LinearMap.toMatrix' (R' q : Vec ℝ N →ₗ[ℝ] Vec ℝ N)) dtv)
          (fun i => R q i + ξ * last i)) = fun i => R q i + ξ * last i) :
    (let ofd := thetaStep solve θ ξ (fdJac R q eps) R dtv dtm last t q
     let oex := thetaStep solve θ ξ (LinearMap.toMatrix' (R' q : Vec ℝ N →ₗ[ℝ] Vec ℝ N)) R dtv
        dtm last t q
     ∀ i, |ofd.data i - oex.data i|
        ≤ |θ| * (∑ k, |(sysMat θ ξ (LinearMap.toMatrix' (R' q : Vec ℝ N →ₗ[ℝ] Vec ℝ N)) dtv)⁻¹ i k|)
            * (L * E / 2 * ∑ j, |ofd.data j - q j|)) := by
  intro ofd oex i
  set Jex : Mat ℝ N := LinearMap.toMatrix' (R' q : Vec ℝ N →ₗ[ℝ] Vec ℝ N) with hJex
  set rhs : Vec ℝ N := fun i => R q i + ξ * last i with hrhs
  have hfd : ∀ k, ofd.data k = q k + solve (sysMat θ ξ (fdJac R q eps) dtv) rhs k := by
    intro k
    simp only [ofd, thetaStep]
    have := hdtv k
    field_simp
    rfl
  have hex : ∀ k, oex.data k = q k + solve (sysMat θ ξ Jex dtv) rhs k := by
    intro k
    simp only [oex, thetaStep]
    have := hdtv k
    field_simp
    rfl
  have hδ : ∀ i j, |fdJac R q eps i j - Jex i j| ≤ L * E / 2 := by
    intro i j
    rw [hJex, LinearMap.toMatrix'_apply]
    refine (fdJac_error_bound_fderiv R R' q eps i j L (heps j) (hR j) (hL j)).trans ?_
    have := mul_le_mul_of_nonneg_left (hE j) hL0
    linarith
  have h := thetaSys_error_bound θ ξ Jex (fdJac R q eps) dtv rhs _ _ (L * E / 2) hδ hdet
    hsolve_fd hsolve_ex i
  simp only [hfd, hex]
  simpa only [add_sub_add_left_eq_sub, add_sub_cancel_left] using h

/-! ### non-vacuity: `R q = (q₀², q₀ q₁)` -/
namespace FdEx

/-- example operator `R q = (q₀², q₀ q₁)` -/
def Rex : Vec ℝ 2 → Vec ℝ 2 := fun v i => v 0 * v i

/-- its derivative -/
noncomputable def Rex' (x : Vec ℝ 2) : Vec ℝ 2 →L[ℝ] Vec ℝ 2 :=
  ContinuousLinearMap.pi fun i =>
    x 0 • (ContinuousLinearMap.proj i : Vec ℝ 2 →L[ℝ] ℝ) + x i • (ContinuousLinearMap.proj 0 : Vec ℝ 2 →L[ℝ] ℝ)

theorem Rex'_apply (x w : Vec ℝ 2) (i : Fin 2) : Rex' x w i = x 0 * w i + x i * w 0 := by
  simp [Rex']

theorem Rex_hasFDerivAt (x : Vec ℝ 2) : HasFDerivAt Rex (Rex' x) x := by
  refine hasFDerivAt_pi'' fun i => ?_
  have h0 : HasFDerivAt (fun v : Vec ℝ 2 => v 0)
      (ContinuousLinearMap.proj 0 : Vec ℝ 2 →L[ℝ] ℝ) x := hasFDerivAt_apply 0 x
  have hi : HasFDerivAt (fun v : Vec ℝ 2 => v i)
      (ContinuousLinearMap.proj i : Vec ℝ 2 →L[ℝ] ℝ) x := hasFDerivAt_apply i x
  have h := h0.mul hi
  refine HasFDerivAt.congr_fderiv (f := fun v => Rex v i) h ?_
  ext w
  simp [Rex']

theorem Rex'_lipschitz (x q : Vec ℝ 2) : ‖Rex' x - Rex' q‖ ≤ 2 * ‖x - q‖ := by
  refine ContinuousLinearMap.opNorm_le_bound _ (by positivity) fun w => ?_
  refine (pi_norm_le_iff_of_nonneg (by positivity)).2 fun i => ?_
  rw [_root_.sub_apply, Pi.sub_apply, Rex'_apply, Rex'_apply, Real.norm_eq_abs]
  have e : x 0 * w i + x i * w 0 - (q 0 * w i + q i * w 0)
      = (x - q) 0 * w i + (x - q) i * w 0 := by simp; ring
  rw [e]
  have h1 := norm_le_pi_norm (x - q) 0
  have h2 := norm_le_pi_norm (x - q) i
  have h3 := norm_le_pi_norm w 0
  have h4 := norm_le_pi_norm w i
  rw [Real.norm_eq_abs] at h1 h2 h3 h4
  calc |(x - q) 0 * w i + (x - q) i * w 0| ≤ |(x - q) 0 * w i| + |(x - q) i * w 0| := abs_add_le _ _
    _ = |(x - q) 0| * |w i| + |(x - q) i| * |w 0| := by rw [abs_mul, abs_mul]
    _ ≤ ‖x - q‖ * ‖w‖ + ‖x - q‖ * ‖w‖ := by
        gcongr
    _ = 2 * ‖x - q‖ * ‖w‖ := by ring

/-- `fdJac_tendsto` on the example: all four entries converge to the Jacobian `[[2q₀, 0], [q₁, q₀]]` -/
example (q : Vec ℝ 2) (i j : Fin 2) :
    Tendsto (fun e : ℝ => fdJac Rex q (fun _ => e) i j) (𝓝[≠] 0)
      (𝓝 (q 0 * (Pi.single j 1 : Vec ℝ 2) i + q i * (Pi.single j 1 : Vec ℝ 2) 0)) := by
  have h := fdJac_tendsto Rex (Rex' q) q (Rex_hasFDerivAt q) i j
  rwa [Rex'_apply] at h

example (q : Vec ℝ 2) :
    Tendsto (fun e : ℝ => fdJac Rex q (fun _ => e) 0 0) (𝓝[≠] 0) (𝓝 (2 * q 0)) := by
  have h := fdJac_tendsto Rex (Rex' q) q (Rex_hasFDerivAt q) 0 0
  rw [Rex'_apply] at h
  convert h using 2
  simp; ring

/-- `fdJac_tendsto_iff`, direction ⇒: the limit of the difference quotients is the partial derivative -/
example (q : Vec ℝ 2) : HasLineDerivAt ℝ (fun v => Rex v 1) (q 1) q (Pi.single 0 1) := by
  refine (fdJac_tendsto_iff Rex q 1 0 (q 1)).1 ?_
  have h := fdJac_tendsto Rex (Rex' q) q (Rex_hasFDerivAt q) 1 0
  rw [Rex'_apply] at h
  convert h using 2
  simp

/-- `fdJac_tendsto_epsdiff`, `fdJac_tendsto_matrix` -/
example (q : Vec ℝ 2) (i j : Fin 2) :
    Tendsto (fun epsdiff : ℝ => fdJac Rex q (fun _ => epsdiff * 3) i j) (𝓝[≠] 0)
      (𝓝 (Rex' q (Pi.single j 1) i)) :=
  fdJac_tendsto_epsdiff Rex (Rex' q) q (Rex_hasFDerivAt q) (fun _ => 3) i j (by norm_num)
example (q : Vec ℝ 2) :
    Tendsto (fun e : ℝ => fdJac Rex q (fun _ => e)) (𝓝[≠] 0)
      (𝓝 (LinearMap.toMatrix' (Rex' q : Vec ℝ 2 →ₗ[ℝ] Vec ℝ 2))) :=
  fdJac_tendsto_matrix (fun e _ => e) Rex (Rex' q) q (Rex_hasFDerivAt q) (fun _ => tendsto_id)

/-- `fdJac_quadratic`: entry (0,0) of the example is `2 q₀ + eps₀`: the error is exactly `eps₀ ≠ 0`,
so the convergence is first order and no better -/
example (q eps : Vec ℝ 2) (h : eps 0 ≠ 0) : fdJac Rex q eps 0 0 = 2 * q 0 + 1 * eps 0 :=
  fdJac_quadratic Rex q eps 0 0 (q 0 ^ 2) (2 * q 0) 1 h (fun t => by simp [Rex]; ring)
example (q eps : Vec ℝ 2) (h : eps 0 ≠ 0) :
    fdJac Rex q eps 0 0 - Rex' q (Pi.single 0 1) 0 = 1 * eps 0 :=
  fdJac_quadratic_error Rex (Rex' q) q eps (Rex_hasFDerivAt q) 0 0 (q 0 ^ 2) (2 * q 0) 1 h
    (fun t => by simp [Rex]; ring)

/-- `fdJac_error_bound` on entry (0,0): `g' t = 2 (q₀ + t)`, `M = 2`; the bound `|eps₀|` is attained
(previous example) -/
example (q eps : Vec ℝ 2) (h : eps 0 ≠ 0) :
    |fdJac Rex q eps 0 0 - 2 * (q 0 + 0)| ≤ 2 * |eps 0| / 2 := by
  refine fdJac_error_bound Rex q eps 0 0 (fun t => 2 * (q 0 + t)) 2 h ?_ ?_
  · intro t _
    have h1 : HasDerivAt (fun t : ℝ => q 0 + t) 1 t := by
      simpa using (hasDerivAt_id t).const_add (q 0)
    have h2 := (h1.mul h1).hasDerivWithinAt (s := Set.uIcc 0 (eps 0))
    refine HasDerivWithinAt.congr_deriv
      (f := fun t : ℝ => Rex (q + t • (Pi.single 0 1 : Vec ℝ 2)) 0) ?_ ?_ (f' := 1 * (q 0 + t) + (q 0 + t) * 1)
    · convert h2 using 1
      funext t
      simp [Rex]
    · ring
  · intro t _
    rw [show 2 * (q 0 + t) - 2 * (q 0 + 0) = 2 * t by ring, abs_mul]
    norm_num

/-- `fdJac_error_bound_fderiv` with `L = 2` -/
example (q eps : Vec ℝ 2) (i j : Fin 2) (h : eps j ≠ 0) :
    |fdJac Rex q eps i j - Rex' q (Pi.single j 1) i| ≤ 2 * |eps j| / 2 := by
  refine fdJac_error_bound_fderiv Rex Rex' q eps i j 2 h (fun t _ => Rex_hasFDerivAt _) ?_
  intro t _
  refine (Rex'_lipschitz _ q).trans ?_
  rw [add_sub_cancel_left, norm_smul, Pi.norm_single, norm_one, mul_one, Real.norm_eq_abs]

/-- `fdJac_error_bound_C2` on entry (0,0): `g'' = 2` -/
example (q eps : Vec ℝ 2) (h : eps 0 ≠ 0) :
    |fdJac Rex q eps 0 0 - 2 * (q 0 + 0)| ≤ 2 * |eps 0| / 2 := by
  refine fdJac_error_bound_C2 Rex q eps 0 0 (fun t => 2 * (q 0 + t)) (fun _ => 2) 2 h ?_ ?_ ?_
  · intro t _
    have h1 : HasDerivAt (fun t : ℝ => q 0 + t) 1 t := by
      simpa using (hasDerivAt_id t).const_add (q 0)
    have h2 := (h1.mul h1).hasDerivWithinAt (s := Set.uIcc 0 (eps 0))
    refine HasDerivWithinAt.congr_deriv
      (f := fun t : ℝ => Rex (q + t • (Pi.single 0 1 : Vec ℝ 2)) 0) ?_ ?_ (f' := 1 * (q 0 + t) + (q 0 + t) * 1)
    · convert h2 using 1
      funext t
      simp [Rex]
    · ring
  · intro t _
    have h1 : HasDerivAt (fun t : ℝ => q 0 + t) 1 t := by
      simpa using (hasDerivAt_id t).const_add (q 0)
    simpa using (h1.const_mul 2).hasDerivWithinAt
  · intro t _
    norm_num

/-- the solver used in the examples: multiplication by the inverse matrix -/
noncomputable def invSolve : Mat ℝ 2 → Vec ℝ 2 → Vec ℝ 2 := fun A r => A⁻¹.mulVec r

theorem invSolve_spec (A : Mat ℝ 2) (rhs : Vec ℝ 2) (h : IsUnit A.det) :
    A.mulVec (invSolve A rhs) = rhs := by
  rw [invSolve, Matrix.mulVec_mulVec, Matrix.mul_nonsing_inv A h, Matrix.one_mulVec]

def qex : Vec ℝ 2 := ![1, 2]

theorem det_ex : (sysMat 1 0 (LinearMap.toMatrix' (Rex' qex : Vec ℝ 2 →ₗ[ℝ] Vec ℝ 2))
    (fun _ => 1/4)).det = 6 := by
  rw [Matrix.det_fin_two]
  simp [sysMat, LinearMap.toMatrix'_apply, Rex'_apply, qex]
  norm_num

theorem det_fd_ex : (sysMat 1 0 (fdJac Rex qex (fun _ => 1/10)) (fun _ => 1/4)).det = 57/10 := by
  rw [Matrix.det_fin_two]
  simp [sysMat, fdJac, Rex, qex]
  norm_num

/-- `thetaStep_fdJac_tendsto`: backward Euler, `dt = 1/4`, at `q = (1,2)` -/
example :
    Tendsto (fun e : ℝ => (thetaStep invSolve 1 0 (fdJac Rex qex (fun _ => e)) Rex (fun _ => 1/4)
        (1/4) (fun _ => 0) 0 qex).data) (𝓝[≠] 0)
      (𝓝 (thetaStep invSolve 1 0 (LinearMap.toMatrix' (Rex' qex : Vec ℝ 2 →ₗ[ℝ] Vec ℝ 2)) Rex
        (fun _ => 1/4) (1/4) (fun _ => 0) 0 qex).data) :=
  thetaStep_fdJac_tendsto invSolve invSolve_spec 1 0 Rex (Rex' qex) qex (Rex_hasFDerivAt qex)
    (fun e _ => e) (fun _ => tendsto_id) (fun _ => 1/4) (fun _ => 0) (1/4) 0
    (by rw [det_ex]; norm_num)

theorem Rex'_lip_line (q : Vec ℝ 2) (j : Fin 2) (t : ℝ) :
    ‖Rex' (q + t • (Pi.single j 1 : Vec ℝ 2)) - Rex' q‖ ≤ 2 * |t| := by
  refine (Rex'_lipschitz _ q).trans ?_
  rw [add_sub_cancel_left, norm_smul, Pi.norm_single, norm_one, mul_one, Real.norm_eq_abs]

/-- `thetaSys_defect`, `thetaSys_defect_bound`, `thetaStep_fdJac_defect`, `thetaSys_error`,
`thetaStep_fdJac_error`: backward Euler, `dt = 1/4`, `eps = 1/10` at `q = (1,2)` -/
example :
    (let o := thetaStep invSolve 1 0 (fdJac Rex qex (fun _ => 1/10)) Rex (fun _ => 1/4) (1/4)
        (fun _ => 0) 0 qex
     let dq : Vec ℝ 2 := fun i => o.data i - qex i
     ∀ i, |(sysMat 1 0 (LinearMap.toMatrix' (Rex' qex : Vec ℝ 2 →ₗ[ℝ] Vec ℝ 2)) (fun _ => 1/4)).mulVec dq i
            - (Rex qex i + 0 * 0)| ≤ |(1:ℝ)| * (2 * (1/10) / 2) * ∑ j, |dq j|) :=
  thetaStep_fdJac_defect invSolve 1 0 Rex Rex' qex (fun _ => 1/10) (fun _ => 1/4) (fun _ => 0)
    (1/4) 0 2 (1/10) (fun _ => by norm_num) (fun _ => by rw [abs_of_pos (by norm_num)])
    (by norm_num) (fun _ => by norm_num) (fun _ _ _ => Rex_hasFDerivAt _)
    (fun j t _ => Rex'_lip_line qex j t)
    (invSolve_spec _ _ (by rw [det_fd_ex]; norm_num))

example :
    (let ofd := thetaStep invSolve 1 0 (fdJac Rex qex (fun _ => 1/10)) Rex (fun _ => 1/4) (1/4)
        (fun _ => 0) 0 qex
     let oex := thetaStep invSolve 1 0 (LinearMap.toMatrix' (Rex' qex : Vec ℝ 2 →ₗ[ℝ] Vec ℝ 2)) Rex
        (fun _ => 1/4) (1/4) (fun _ => 0) 0 qex
     ∀ i, |ofd.data i - oex.data i|
        ≤ |(1:ℝ)| * (∑ k, |(sysMat 1 0 (LinearMap.toMatrix' (Rex' qex : Vec ℝ 2 →ₗ[ℝ] Vec ℝ 2))
              (fun _ => 1/4))⁻¹ i k|) * (2 * (1/10) / 2 * ∑ j, |ofd.data j - qex j|)) :=
  thetaStep_fdJac_error invSolve 1 0 Rex Rex' qex (fun _ => 1/10) (fun _ => 1/4) (fun _ => 0)
    (1/4) 0 2 (1/10) (fun _ => by norm_num) (fun _ => by rw [abs_of_pos (by norm_num)])
    (by norm_num) (fun _ => by norm_num) (fun _ _ _ => Rex_hasFDerivAt _)
    (fun j t _ => Rex'_lip_line qex j t)
    (by rw [det_ex]; norm_num)
    (invSolve_spec _ _ (by rw [det_fd_ex]; norm_num))
    (invSolve_spec _ _ (by rw [det_ex]; norm_num))

/-- the differentiability hypothesis cannot be dropped: for `R q = |q₀|` at `q = 0` the entry is
`sign eps`, which has no limit; but it has the one-sided limit `1` -/
example : ¬ ∃ d : ℝ, Tendsto (fun e : ℝ => fdJac (N := 1) (fun v _ => |v 0|) 0 (fun _ => e) 0 0)
    (𝓝[≠] 0) (𝓝 d) := by
  rintro ⟨d, hd⟩
  have h := (fdJac_tendsto_iff _ _ _ _ _).1 hd
  unfold HasLineDerivAt at h
  simp only [zero_add, Pi.smul_apply, Pi.single_eq_same, smul_eq_mul, mul_one] at h
  exact not_differentiableAt_abs_zero h.differentiableAt
example : Tendsto (fun e : ℝ => fdJac (N := 1) (fun v _ => |v 0|) 0 (fun _ => e) 0 0)
    (𝓝[>] 0) (𝓝 1) := by
  refine (fdJac_tendsto_right_iff _ _ _ _ _).2 ?_
  simp only [zero_add, Pi.smul_apply, Pi.single_eq_same, smul_eq_mul, mul_one]
  refine (hasDerivWithinAt_id (0:ℝ) (Set.Ici 0)).congr (fun t ht => abs_of_nonneg ht) (by simp)

end FdEx

end Flowdyn.C06
